// search.go: failing-input search legs of hx_c14 (active only with -search).
//
// The legs that run in the NORMAL tiers (Unicode look-alikes and classes, single matches longer than 64 / 256 / 4096 runes)
// are in legs3.go.
// Fourth wave, also NORMAL tiers: ASCII control code points in every role (word start / middle / end, under and next to
// wildcards, in texts) are in legs4.go.
//
// The normal tiers use five letters, words of at most ~6 runes and dictionaries of at most nine words. The legs:
//
//	fanout    one node (the root, a depth-1 and a depth-3 node) grown past 8/16/32/64/128/256 children, pruned back
//	          below the mark by removals, regrown with NEW runes, pruned, regrown with the old ones; alphabet of
//	          1..4-byte runes; every word ever used is a text, observed after each call near the marks     (class a)
//	depth     words of 31..1025 (and 5000) runes, families of prefixes of one another, removed in both orders  (class a)
//	runes     first / inner runes that are equal modulo 256, 4096 and 65536: all words of one removed, the other
//	          queried, and back                                                                            (class c)
//	manywords dictionaries of 2^16+ and 2^17+ words, half removed, re-added, Reset, reused                    (class a)
//	longtext  texts of 600 B .. 1 MiB with dictionary words straddling the 512 / 4096 / 65536-byte and -rune
//	          offsets and at both ends                                                                     (class a)
//	period    observe, then exactly 2^16, 2^16, 2^17, 3*2^18, 2^20 add+remove pairs (every call a real change) with no
//	          observation while the dictionary is replaced, observe again; variants with Reset, with fresh filler
//	          words, and with exactly that many lookups instead                                            (class b)
//
// Oracle: the clauses checkText applies (history independence against a freshly built trie, Contains <=> a dictionary
// word occurs, Filter keeps the length / changes only runes inside occurrences / leaves no dictionary word, Remove's
// return value, WordsCount), evaluated for literal dictionaries with a substring enumeration against the plain Go
// map instead of a loop over the dictionary so that large dictionaries and long texts are affordable.
// Failures of the small legs are handed to one() as explicit histories (shrunk, replayable as before); the large legs
// (manywords, longtext, period) replay from (leg, variant, n, seed).
package main

import (
	"fmt"
	"sort"
	"strconv"
	"strings"
	"time"

	"verifharness/hxlib"

	"qchen.fun/fatchoy/collections/trie"
)

type scase struct {
	Leg     string `json:"leg"`
	Variant string `json:"variant,omitempty"`
	N       int    `json:"n,omitempty"`
	Seed    uint64 `json:"seed,omitempty"`
	FailAt  int    `json:"failed_at_call,omitempty"` // informative
}

// ---- engine -----------------------------------------------------------------------------------------------

type teng struct {
	t       *trie.HashTrie
	dict    map[string]bool
	lens    map[int]int // rune lengths of the dictionary words -> how many
	ops     []op        // recorded history (when rec)
	rec     bool
	n       int
	fails   []failure
	dead    bool
	fresh   *trie.HashTrie // built from dict; nil = out of date
	lastOp  op
	obsN    int
	maxDict int
}

func newTeng(rec bool) *teng {
	return &teng{t: trie.NewHashTrie(), dict: map[string]bool{}, lens: map[int]int{}, rec: rec}
}

func (e *teng) fail(key, text string, hasText bool, format string, a ...interface{}) {
	if len(e.fails) < 6 {
		e.fails = append(e.fails, failure{key: key, what: fmt.Sprintf("call %d: ", e.n) + fmt.Sprintf(format, a...), opIdx: e.n - 1, text: text, hasText: hasText})
	}
	e.dead = true
}

func clip(s string) string {
	rs := []rune(s)
	if len(rs) <= 48 {
		return strconv.Quote(s)
	}
	return fmt.Sprintf("%s…%s (%d runes, %d bytes)", strconv.Quote(string(rs[:20])), strconv.Quote(string(rs[len(rs)-12:])), len(rs), len(s))
}

func (e *teng) step(o op) {
	e.n++
	e.lastOp = o
	e.fresh = nil
	if e.rec {
		e.ops = append(e.ops, o)
	}
}

func (e *teng) count() {
	if g := e.t.WordsCount(); g != len(e.dict) {
		e.fail("count:differs-from-dictionary", "", false, "after %s(%s) WordsCount()=%d but %d words were added and not removed", e.lastOp.Op, clip(e.lastOp.W), g, len(e.dict))
	}
	if len(e.dict) > e.maxDict {
		e.maxDict = len(e.dict)
	}
}

func (e *teng) add(w string) {
	if e.dead {
		return
	}
	e.step(op{Op: "add", W: w})
	if p := hxlib.Guard(func() { e.t.AddWord(w) }); p != "" {
		e.fail("panic:add", "", false, "AddWord(%s) panics: %s", clip(w), p)
		return
	}
	if w != "" && !e.dict[w] {
		e.dict[w] = true
		e.lens[len([]rune(w))]++
	}
	e.count()
}

func (e *teng) remove(w string) {
	if e.dead {
		return
	}
	e.step(op{Op: "remove", W: w})
	was := e.dict[w]
	var got bool
	if p := hxlib.Guard(func() { got = e.t.Remove(w) }); p != "" {
		e.fail("panic:remove", "", false, "Remove(%s) panics: %s", clip(w), p)
		return
	}
	if was {
		delete(e.dict, w)
		l := len([]rune(w))
		if e.lens[l]--; e.lens[l] == 0 {
			delete(e.lens, l)
		}
	}
	if got != was {
		key := "remove:false-for-a-word-that-was-added"
		if got {
			key = "remove:true-for-a-word-that-was-not-added"
		}
		e.fail(key, "", false, "Remove(%s) returned %v but the word was in the dictionary: %v (%d words now)", clip(w), got, was, len(e.dict))
		return
	}
	e.count()
}

func (e *teng) reset() {
	if e.dead {
		return
	}
	e.step(op{Op: "reset"})
	if p := hxlib.Guard(func() { e.t.Reset() }); p != "" {
		e.fail("panic:reset", "", false, "Reset() panics: %s", p)
		return
	}
	e.dict = map[string]bool{}
	e.lens = map[int]int{}
	e.count()
}

// observe applies the per-text clauses (literal dictionaries only: the legs never add a '*').
func (e *teng) observe(text string, withFresh bool) {
	if e.dead {
		return
	}
	e.obsN++
	o := observe(e.t, text)
	if o.panicked != "" {
		e.fail("panic:match", text, true, "matching %s panics: %s", clip(text), o.panicked)
		return
	}
	if withFresh {
		if e.fresh == nil {
			e.fresh = trie.NewHashTrie()
			for w := range e.dict {
				e.fresh.AddWord(w)
			}
		}
		fo := observe(e.fresh, text)
		if fo.exact != o.exact || fo.contains != o.contains || fo.filter != o.filter {
			key := "history:matches-differ-from-fresh-dictionary"
			if e.lastOp.Op == "remove" {
				key = "remove:changes-how-other-words-match"
			}
			e.fail(key, text, true, "after %s(%s) with a dictionary of %d words: text %s gives ExactMatch=%v Contains=%v Filter=%s, a trie built from that dictionary gives %v %v %s",
				e.lastOp.Op, clip(e.lastOp.W), len(e.dict), clip(text), o.exact, o.contains, clip(o.filter), fo.exact, fo.contains, clip(fo.filter))
			return
		}
	}
	tr, fr := []rune(text), []rune(o.filter)
	if len(tr) != len(fr) {
		e.fail("filter:length-changed", text, true, "dictionary of %d words: Filter(%s)=%s has %d runes, the text %d", len(e.dict), clip(text), clip(o.filter), len(fr), len(tr))
		return
	}
	ls := make([]int, 0, len(e.lens))
	for l := range e.lens {
		ls = append(ls, l)
	}
	sort.Ints(ls)
	occurs := false
	var hit string
	covered := make([]bool, len(tr))
	for i := range tr {
		for _, l := range ls {
			if i+l > len(tr) {
				break
			}
			if s := string(tr[i : i+l]); e.dict[s] {
				occurs, hit = true, s
				for j := 0; j < l; j++ {
					covered[i+j] = true
				}
			}
		}
	}
	if o.contains != occurs {
		e.fail("contains:literal-dictionary", text, true, "dictionary of %d words: Contains(%s)=%v but a dictionary word occurs in it: %v %s", len(e.dict), clip(text), o.contains, occurs, clip(hit))
		return
	}
	for i := range tr {
		if fr[i] != tr[i] && (fr[i] != '*' || !covered[i]) {
			e.fail("filter:changed-outside-a-match", text, true, "dictionary of %d words: Filter(%s)=%s changes rune %d, which is not inside an occurrence of a dictionary word", len(e.dict), clip(text), clip(o.filter), i)
			return
		}
	}
	for i := range fr {
		for _, l := range ls {
			if i+l > len(fr) {
				break
			}
			if s := string(fr[i : i+l]); e.dict[s] {
				e.fail("filter:dictionary-word-left", text, true, "dictionary of %d words: Filter(%s)=%s still contains %s", len(e.dict), clip(text), clip(o.filter), clip(s))
				return
			}
		}
	}
}

// reportSmall hands a failing recorded history to one() (explicit ops, the failing text), which shrinks and reports it.
func (e *teng) reportSmall(r *hxlib.Run, tag string) bool {
	if len(e.fails) == 0 {
		return false
	}
	f := e.fails[0]
	c := &kase{Ops: append([]op{}, e.ops...), ModelPer: 0, Tag: tag}
	if f.hasText {
		c.Texts = []string{f.text}
	}
	one(r, c)
	if !r.Failed() {
		// runCase's own (per-dictionary-word) evaluation did not flag it: report the engine's verdict with the history
		r.Fail(f.key, tag+": "+f.what, c)
	}
	return true
}

func (e *teng) reportParam(r *hxlib.Run, c scase) bool {
	if len(e.fails) == 0 {
		return false
	}
	f := e.fails[0]
	c.FailAt = e.n
	r.Fail(f.key, fmt.Sprintf("search leg %s/%s (n=%d seed=%d): %s", c.Leg, c.Variant, c.N, c.Seed, f.what), c)
	return true
}

// ---- rune material ----------------------------------------------------------------------------------------

// runePool: n distinct non-'*' runes of all UTF-8 lengths, interleaved so that every prefix of the pool mixes them.
func runePool(n int, rr *hxlib.Rand) []rune {
	src := [][2]rune{{'a', 26}, {0x4E00, 4000}, {'A', 26}, {0x3B1, 24}, {0x1F600, 70}, {'0', 10}, {0x430, 32}, {0x20000, 3000}, {0xC0, 23}, {0xAC00, 5000}}
	off := rr.Intn(7)
	seen := map[rune]bool{'*': true}
	var out []rune
	for i := 0; len(out) < n; i++ {
		s := src[(i+off)%len(src)]
		r := s[0] + rune((i/len(src)*7+i)%int(s[1]))
		if !seen[r] {
			seen[r] = true
			out = append(out, r)
		}
	}
	return out
}

// ---- leg: fan-out -------------------------------------------------------------------------------------------

func legFanout(r *hxlib.Run) {
	t0 := time.Now()
	top, cases := 0, 0
	for _, T := range []int{8, 16, 32, 64, 128, 256} {
		for pi, prefix := range []string{"", "q", "世界x"} {
			if T >= 128 && pi != int(r.Seed+uint64(T))%3 {
				continue // the two largest marks run at one position per seed
			}
			rr := r.R.Fork()
			pool := runePool(2*T+24, rr)
			e := newTeng(true)
			var used []string
			usedSet := map[string]bool{}
			word := func(c rune, i int) string {
				w := prefix + string(c)
				switch i % 3 { // children are leaves, inner nodes with one word below, or both
				case 1:
					w += "z"
				case 2:
					w += string(pool[(i+5)%len(pool)]) + "y"
				}
				if !usedSet[w] {
					usedSet[w] = true
					used = append(used, w)
				}
				return w
			}
			present := []int{} // pool indexes whose word is in the dictionary, in insertion order
			obsAll := func() {
				for _, w := range used {
					e.observe(w, true)
					e.observe("x"+w+"y", false)
				}
				e.observe(prefix, true)
			}
			near := func() bool { d := len(present) - T; return d >= -3 && d <= 3 }
			addI := func(i int) {
				e.add(word(pool[i], i))
				if i%3 == 0 && i%2 == 0 {
					k := word(pool[i], i) + "k" // a second word through the same child
					e.add(k)
					if !usedSet[k] {
						usedSet[k] = true
						used = append(used, k)
					}
				}
				present = append(present, i)
				if near() {
					obsAll()
				}
			}
			remAt := func(k int) {
				i := present[k]
				present = append(present[:k], present[k+1:]...)
				e.remove(word(pool[i], i))
				if i%3 == 0 && i%2 == 0 {
					e.remove(word(pool[i], i) + "k")
				}
				if near() {
					obsAll()
				}
			}
			next := 0
			for len(present) < T+3 { // grow past the mark
				addI(next)
				next++
			}
			for len(present) > T-3 && len(present) > 1 { // prune below it, oldest first
				remAt(0)
			}
			for len(present) < T+3 { // regrow with new runes
				addI(next)
				next++
			}
			for len(present) > T-3 && len(present) > 1 { // prune, random victims
				remAt(rr.Intn(len(present)))
			}
			for i := 0; len(present) < T+3 && i < next; i++ { // regrow with the runes removed first
				gone := true
				for _, p := range present {
					if p == i {
						gone = false
					}
				}
				if gone {
					addI(i)
				}
			}
			obsAll()
			for len(present) > 0 { // and empty the node completely
				remAt(len(present) - 1)
			}
			obsAll()
			if T+3 > top {
				top = T + 3
			}
			cases++
			r.Case()
			r.Count("search:fanout")
			if e.reportSmall(r, fmt.Sprintf("search:fanout T=%d prefix=%q", T, prefix)) {
				return
			}
		}
	}
	r.Note("search leg fanout: %d histories; a root / depth-1 / depth-3 node grown past 8,16,32,64,128,256 children (up to %d), pruned below, regrown with new runes, pruned, regrown with the old ones, emptied; 1..4-byte runes; every word ever used observed after each call within 3 of the mark, %.1fs", cases, top, time.Since(t0).Seconds())
}

// ---- leg: depth ---------------------------------------------------------------------------------------------

func legDepth(r *hxlib.Run) {
	t0 := time.Now()
	rr := r.R.Fork()
	longest := 0
	for vi, lens := range [][]int{{31, 32, 33, 34}, {63, 64, 65}, {127, 128, 129, 255, 256, 257}, {1023, 1024, 1025}, {5000}} {
		e := newTeng(true)
		al := []rune("ab世\U0001F600")
		base := make([]rune, lens[len(lens)-1])
		for i := range base {
			base[i] = al[rr.Intn(len(al))]
		}
		var ws []string
		for _, l := range lens {
			ws = append(ws, string(base[:l]))
			if l > longest {
				longest = l
			}
		}
		// a sibling branching off at the deepest common point, and a repeated-letter word of the same depth
		sib := append(append([]rune{}, base[:lens[0]-1]...), 'Z', 'Z')
		ws = append(ws, string(sib), strings.Repeat("a", lens[0]))
		texts := append([]string{}, ws...)
		texts = append(texts, "x"+ws[0], ws[len(lens)-1]+"tail", string(base[1:]), string(base[:lens[0]-1]))
		obs := func() {
			for _, t := range texts {
				e.observe(t, true)
			}
		}
		order := rr.Intn(2)
		for i := range ws { // add: shortest first / longest first
			k := i
			if order == 1 {
				k = len(ws) - 1 - i
			}
			e.add(ws[k])
			obs()
		}
		for i := range ws { // remove in the same order (prefixes first / extensions first)
			k := i
			if order == 1 {
				k = len(ws) - 1 - i
			}
			e.remove(ws[k])
			obs()
			e.remove(ws[k]) // absent now
		}
		for i := len(ws) - 1; i >= 0; i-- {
			e.add(ws[i])
		}
		obs()
		for i := 0; i < len(ws); i += 2 {
			e.remove(ws[i])
			obs()
		}
		r.Case()
		r.Count("search:depth")
		if e.reportSmall(r, fmt.Sprintf("search:depth variant %d", vi)) {
			return
		}
	}
	r.Note("search leg depth: families of words that are prefixes of one another, 31..1025 runes and one of %d, with a sibling at the deepest fork, added and removed in both orders, %.1fs", longest, time.Since(t0).Seconds())
}

// ---- leg: runes equal modulo 256 / 4096 / 65536 --------------------------------------------------------------

func validRune(x rune) bool {
	return x > 0 && x <= 0x10FFFF && !(x >= 0xD800 && x <= 0xDFFF) && x != '*' && x != 0xFFFD
}

func legRunes(r *hxlib.Run) {
	t0 := time.Now()
	rr := r.R.Fork()
	cases := 0
	bases := []rune{'h', 'a', '7', 'Z', 0xE9, 0x4E16}
	for _, m := range []rune{256, 4096, 65536} {
		for _, b := range bases {
			// two partners of b: the next rune with the same residue, and a far one
			var partners []rune
			for _, j := range []rune{1, rune(2 + rr.Intn(9)), rune(16 + rr.Intn(200))} {
				if p := b + j*m; validRune(p) && len(partners) < 2 {
					partners = append(partners, p)
				}
			}
			if len(partners) == 0 {
				continue
			}
			for _, prefix := range []string{"", "p"} {
				group := append([]rune{b}, partners...)
				e := newTeng(true)
				words := map[rune][]string{}
				var all []string
				for _, g := range group {
					s := prefix + string(g)
					words[g] = []string{s + "ate", s + "i", s + "atex"}
					if rr.Bool() {
						words[g] = append(words[g], s)
					}
					all = append(all, words[g]...)
				}
				all = append(all, prefix+"zzz")
				obs := func() {
					for _, w := range all {
						e.observe(w, true)
						e.observe("I "+w+" you", true)
					}
				}
				e.add(prefix + "zzz")
				for _, g := range group {
					for _, w := range words[g] {
						e.add(w)
					}
				}
				obs()
				for round := 0; round < 2; round++ {
					for _, g := range group { // all words of one rune leave, the others must be untouched; then they return
						for _, w := range words[g] {
							e.remove(w)
							obs()
						}
						for _, w := range words[g] {
							e.add(w)
						}
						obs()
					}
					group[0], group[len(group)-1] = group[len(group)-1], group[0]
				}
				for _, g := range group {
					for _, w := range words[g] {
						e.remove(w)
					}
					obs()
				}
				cases++
				r.Case()
				r.Count("search:runes")
				if e.reportSmall(r, fmt.Sprintf("search:runes U+%04X and %U equal modulo %d, prefix %q", b, partners, m, prefix)) {
					return
				}
			}
		}
	}
	r.Note("search leg runes: %d histories with first / second runes equal modulo 256, 4096, 65536 (bases %U): all words of one rune removed one by one, the others observed, re-added, in turn, %.1fs", cases, bases, time.Since(t0).Seconds())
}

// ---- leg: many words ------------------------------------------------------------------------------------------

func runManyWords(c scase) *teng {
	rr := hxlib.NewRand(c.Seed)
	e := newTeng(false)
	al := []rune("abcdefghijklmnopqrstuvwxyz世界é")
	gen := func() string {
		n := rr.Range(2, 6)
		w := make([]rune, n)
		for i := range w {
			w[i] = al[rr.Intn(len(al))]
		}
		return string(w)
	}
	marks := map[int]bool{}
	for _, p := range []int{1 << 16, 1 << 17} {
		for d := -1; d <= 1; d++ {
			marks[p+d] = true
		}
	}
	var words []string
	sample := func(n int) {
		for i := 0; i < n && !e.dead; i++ {
			w := words[rr.Intn(len(words))]
			e.observe(w, true)
			e.observe(gen()+w+gen(), i%4 == 0)
			e.observe(gen()+gen(), false)
		}
	}
	for len(e.dict) < c.N && !e.dead {
		w := gen()
		had := len(e.dict)
		e.add(w)
		if len(e.dict) > had {
			words = append(words, w)
			if marks[len(e.dict)] {
				sample(40)
			}
		}
	}
	sample(300)
	// remove half in random order (pruning at scale), crossing the marks downwards
	perm := make([]int, len(words))
	for i := range perm {
		perm[i] = i
	}
	for i := len(perm) - 1; i > 0; i-- {
		j := rr.Intn(i + 1)
		perm[i], perm[j] = perm[j], perm[i]
	}
	for _, i := range perm[:len(perm)/2] {
		e.remove(words[i])
		if marks[len(e.dict)] {
			sample(40)
		}
		if e.dead {
			break
		}
	}
	sample(300)
	for _, i := range perm[:len(perm)/4] { // a quarter returns
		e.add(words[i])
	}
	sample(200)
	e.reset()
	sample(50)
	for _, i := range perm[:2000] {
		e.add(words[i])
	}
	sample(100)
	return e
}

// ---- leg: long texts ------------------------------------------------------------------------------------------

func runLongText(c scase) *teng {
	rr := hxlib.NewRand(c.Seed)
	e := newTeng(false)
	dict := []string{"bad", "worse", "敏感词", "xx", "évil", "\U0001F4A9", "b", "spam", "egg"}
	if c.Variant == "no-single-letter" {
		dict = []string{"bad", "worse", "敏感词", "xxy", "évil", "\U0001F4A9\U0001F4A9", "spam", "eggs"}
	}
	for _, w := range dict {
		e.add(w)
	}
	filler := []rune("acdfhijklmnoqrtuvz 好的-,.ü")
	build := func(bytesWanted int, marks []int, byRune bool) string {
		var sb strings.Builder
		runesN := 0
		mi := 0
		for sb.Len() < bytesWanted {
			pos := sb.Len()
			if byRune {
				pos = runesN
			}
			if mi < len(marks) && pos >= marks[mi]-2 {
				w := dict[rr.Intn(len(dict))]
				sb.WriteString(w) // straddles (or touches) the mark
				runesN += len([]rune(w))
				mi++
				continue
			}
			if rr.Chance(1, 200) {
				w := dict[rr.Intn(len(dict))]
				sb.WriteString(w)
				runesN += len([]rune(w))
				continue
			}
			sb.WriteRune(filler[rr.Intn(len(filler))])
			runesN++
		}
		return sb.String()
	}
	marks := []int{512, 1024, 4096, 8192, 32768, 65536, 131072, 524288, 1 << 20}
	for _, size := range []int{600, 5000, 70000, c.N} {
		for _, byRune := range []bool{false, true} {
			t := build(size, marks, byRune)
			e.observe(t, true)
			e.observe(dict[0]+t+dict[2], false) // matches at both ends
			if e.dead {
				return e
			}
		}
	}
	// a long text with no match at all, and one that is a single repeated dictionary letter
	clean := strings.Repeat("acdfhijklm 好", c.N/14)
	e.observe(clean, true)
	e.observe(clean+"bad", false)
	e.observe(strings.Repeat("x", 70001), true)
	// the dictionary changes, the same long text again
	long := build(70000, marks, false)
	e.observe(long, true)
	for _, w := range dict[:4] {
		e.remove(w)
		e.observe(long, true)
	}
	return e
}

// ---- leg: period ------------------------------------------------------------------------------------------------

var periodVariants = []string{"pairs", "fresh-pairs", "reset-extra", "reset-as-one", "adds-then-removes", "lookups"}

func runPeriod(c scase) *teng {
	e := newTeng(false)
	al := []rune("abcdefgh世界")
	epochWords := func(ep int) []string {
		x := string(al[ep%len(al)]) + string(al[(ep/len(al))%len(al)])
		return []string{"w" + x + "q", "w" + x, x + "end"}
	}
	var texts []string
	addTexts := func(ep int) {
		for _, w := range epochWords(ep) {
			texts = append(texts, w, "say "+w+" now")
		}
	}
	// newestFirst: after a silent gap the texts are asked in the reverse order of the observation before it, so that
	// whatever the trie remembers of its most recent answers is asked again before a later question displaces it
	obsOrd := func(newestFirst bool) {
		if newestFirst {
			for i := len(texts) - 1; i >= 0; i-- {
				e.observe(texts[i], true)
			}
			e.observe("nothing here", true)
			return
		}
		e.observe("nothing here", true)
		for _, t := range texts { // the last texts are those of the coming epoch: their answers change across the gap
			e.observe(t, true)
		}
	}
	obs := func() { obsOrd(false) }
	e.add("keep")
	texts = append(texts, "keep", "keeper")
	for _, w := range epochWords(0) {
		e.add(w)
	}
	addTexts(0)
	addTexts(1)
	obs()
	fill := 0
	filler := func() string {
		if c.Variant == "fresh-pairs" {
			fill++
			return "f" + strconv.Itoa(fill)
		}
		fill++
		return "f" + strconv.Itoa(fill%3)
	}
	done, ep := 0, 0
	for _, at := range []int{1 << 16, 1 << 17, 1 << 18, 1 << 20, 1 << 21} {
		if at > c.N || e.dead {
			break
		}
		gap := at - done // pairs (one addition and one removal each) — or lookups
		oldW, newW := epochWords(ep), epochWords(ep+1)
		switch c.Variant {
		case "lookups":
			for i := 0; i < gap && !e.dead; i++ {
				t := texts[0]
				if i&1 == 1 {
					t = texts[(i/2)%len(texts)]
				}
				// the answers are not judged one by one (they are by obs() below); a panic is
				if p := hxlib.Guard(func() {
					switch i % 3 {
					case 0:
						e.t.Contains(t)
					case 1:
						e.t.Filter(t)
					default:
						e.t.ExactMatch(t)
					}
				}); p != "" {
					e.fail("panic:match", t, true, "lookup %d of %s panics: %s", i, clip(t), p)
				}
			}
			obs()
			for i := range newW {
				e.add(newW[i])
				e.remove(oldW[i])
			}
		case "reset-extra": // Reset, then exactly 2*gap calls, every one a real change
			e.reset()
			e.add("keep")
			for _, w := range newW {
				e.add(w)
			}
			for calls := 1 + len(newW); calls+2 <= 2*gap && !e.dead; calls += 2 {
				f := filler()
				e.add(f)
				e.remove(f)
			}
		case "reset-as-one": // the Reset stands for the removals of the old words: 2*gap calls in all
			calls := 0
			e.reset()
			calls++
			e.add("keep")
			calls++
			for _, w := range newW {
				e.add(w)
				calls++
			}
			for calls+2 <= 2*gap && !e.dead {
				f := filler()
				e.add(f)
				e.remove(f)
				calls += 2
			}
			if calls < 2*gap {
				e.add("odd" + strconv.Itoa(ep))
			}
		case "adds-then-removes": // gap additions, then gap removals (the dictionary grows to `gap` words in between)
			var fs []string
			for _, w := range newW {
				e.add(w)
			}
			for i := len(newW); i < gap && !e.dead; i++ {
				f := "g" + strconv.Itoa(i) + "-" + strconv.Itoa(ep)
				fs = append(fs, f)
				e.add(f)
			}
			for _, w := range oldW {
				e.remove(w)
			}
			for _, f := range fs {
				e.remove(f)
			}
		default: // pairs, fresh-pairs
			for i := range newW {
				e.add(newW[i])
				e.remove(oldW[i])
			}
			for i := len(newW); i < gap && !e.dead; i++ {
				f := filler()
				e.add(f)
				e.remove(f)
			}
		}
		ep++
		obsOrd(true)
		addTexts(ep + 1)
		if len(texts) > 40 {
			texts = append(texts[:2], texts[len(texts)-24:]...)
		}
		obs()
		done = at
	}
	return e
}

// ---- entry points ---------------------------------------------------------------------------------------------

func runSearchCase(c scase) *teng {
	switch c.Leg {
	case "manywords":
		return runManyWords(c)
	case "longtext":
		return runLongText(c)
	case "period":
		return runPeriod(c)
	}
	e := newTeng(false)
	e.n = 1
	e.fail("harness", "", false, "unknown search leg %q", c.Leg)
	return e
}

func searchLegs(r *hxlib.Run) {
	legFanout(r)
	if r.Failed() {
		return
	}
	legDepth(r)
	if r.Failed() {
		return
	}
	legRunes(r)
	if r.Failed() {
		return
	}
	t0 := time.Now()
	most := 0
	for _, n := range []int{1<<16 + 3000, 1<<17 + 1000} {
		c := scase{Leg: "manywords", N: n, Seed: r.R.U64()}
		r.Case()
		r.Count("search:manywords")
		e := runManyWords(c)
		if e.maxDict > most {
			most = e.maxDict
		}
		if e.reportParam(r, c) {
			return
		}
	}
	r.Note("search leg manywords: dictionaries grown to %d words (2..6 runes over 29 letters), sampled around 2^16 and 2^17 words on the way up and down, half removed in random order, a quarter re-added, Reset, reused, %.1fs", most, time.Since(t0).Seconds())
	t0 = time.Now()
	for _, v := range []string{"single-letter-words", "no-single-letter"} {
		c := scase{Leg: "longtext", Variant: v, N: 1 << 20, Seed: r.R.U64()}
		r.Case()
		r.Count("search:longtext")
		if runLongText(c).reportParam(r, c) {
			return
		}
	}
	r.Note("search leg longtext: texts of 600 B, 5 KB, 70 KB and 1 MiB (1..4-byte runes) with dictionary words at both ends and straddling the 512 ... 2^20 byte and rune offsets, before and after removals, %.1fs", time.Since(t0).Seconds())
	t0 = time.Now()
	for i, v := range periodVariants {
		n := 1 << 20
		if (i+int(r.Seed))%3 == 0 {
			n = 1 << 21
		}
		if v == "adds-then-removes" {
			n = 1 << 17 // the dictionary itself grows to the gap size
		}
		c := scase{Leg: "period", Variant: v, N: n, Seed: r.R.U64()}
		r.Case()
		r.Count("search:period")
		if runPeriod(c).reportParam(r, c) {
			return
		}
	}
	r.Note("search leg period: %d variants %v: all texts observed, then exactly 2^16, 2^16, 2^17, 3*2^18 (a third of the variants per seed: and 2^20) addition+removal pairs (or lookups) with no observation while every dictionary word but one is replaced, then all texts again, %.1fs", len(periodVariants), periodVariants, time.Since(t0).Seconds())
}
