package main

// Normal-tier legs over dimensions the generators do not vary: diversity.go; legs4.go (back: clocks that read LOWER than at the
// previous poll; realclock: started schedulers with time units that are not whole milliseconds on the real clock).

// Failing-input search legs of C05 (only with -search; see hxtimers/search.go for what each leg is aimed at).
// Every start request is accepted at once, as everywhere in hx_c05; the judge is the ordinary reference table.

import (
	"fmt"
	"time"

	. "verifharness/hxtimers"
)

func searchEmitPlain(c Case, leg string, reps int) {
	// a live case is not a function of its op list alone (timing places the consumer's reads): a failure that
	// does not show at once is looked for a few times more
	for i := 0; i < reps; i++ {
		before := r.Failed()
		e := Emit(r, c, false, true)
		r.Count("search:" + leg)
		if e.Skipped {
			r.Count("search:" + leg + ":skipped(no id counter field)")
			return
		}
		if !before && r.Failed() {
			return
		}
	}
}

func searchLegs() {
	t0 := time.Now()
	defer func() { r.Note("search legs took %.1f s", time.Since(t0).Seconds()) }()
	R := r.R.Fork()
	scheds := []string{"wheel", "heap"}
	positions := []uint32{0, 250, 1<<14 - 3, 1<<20 - 2, 1<<32 - 3}
	hdr := func(sched string) Case {
		return Case{Sched: sched, Time: int64(R.Intn(1 << 16)), Pos: positions[R.Intn(len(positions))] + uint32(R.Intn(4))}
	}
	spec := func(sched string, sp Spec) {
		c := hdr(sched)
		sp.Seed = R.U64()
		c.Search = &sp
		s := EmitSearch(r, c, true)
		if s.MaxDue > maxDue[sched] {
			maxDue[sched] = s.MaxDue
		}
	}
	// (a) scale: more timers due together than any internal queue holds
	for _, n := range []int{129, 130, 200, 257, 513, 600, 1025, 4097} {
		for _, sched := range scheds {
			spec(sched, Spec{Leg: "burst-due", N: n, Flavor: "one-burst"})
			spec(sched, Spec{Leg: "burst-due", N: n, Flavor: "tick-by-tick"})
		}
	}
	// (a) scale: 2^16+1 and 2^17+1 timers pending at once
	for _, n := range []int{1<<16 + 1, 1<<17 + 1} {
		for _, sched := range scheds {
			spec(sched, Spec{Leg: "many-pending", N: n})
		}
	}
	// (d) a slow consumer on a delivery channel of capacity 1..3
	nLive := 700
	for k := 0; k < nLive && !r.Failed(); k++ {
		searchEmitPlain(LiveSlowCase(R, scheds[k%2]), "live-slow", 1)
	}
	// (b) exactly 2^16, 2^17, 2^18, 2^20 operations between two observations
	for _, p := range []int{1 << 16, 1 << 17, 1 << 18} {
		for _, sched := range scheds {
			for _, fl := range []string{"cancel-cycles", "deliver-cycles", "reads"} {
				spec(sched, Spec{Leg: "period-exact", N: p, Flavor: fl})
			}
		}
	}
	spec(scheds[R.Intn(2)], Spec{Leg: "period-exact", N: 1 << 20, Flavor: "cancel-cycles"})
	spec(scheds[R.Intn(2)], Spec{Leg: "period-exact", N: 1 << 20, Flavor: "deliver-cycles"})
	// (b) the id counter just below a power-of-two boundary
	for _, b := range []int64{1 << 15, 1 << 16, 1 << 31, 1 << 32} {
		for _, sched := range scheds {
			if r.Failed() {
				break // a tick that never returns leaves a spinning goroutine behind: stop at the first
			}
			searchEmitPlain(IDWrapCase(R, sched, b), "id-wrap", 1)
		}
	}
	r.Note("search legs: burst-due up to 4097 timers on one to three ticks (most deliveries of one advance: wheel %d, heap %d); many-pending 2^16+1 and 2^17+1 timers; live-slow %d histories on Chan() of capacity 1..3; period-exact 2^16/2^17/2^18 (x3 flavours x2 schedulers) and 2^20 cycles; id counter pre-positioned below 2^15, 2^16, 2^31, 2^32",
		maxDue["wheel"], maxDue["heap"], nLive)
}

var maxDue = map[string]int{}

var _ = fmt.Sprint
