package main

// Legs over the dimensions the ordinary generators do not vary (hxtimers/diversity.go lists the classes). They run
// in every tier: a change that edits only function bodies never triggers -search.
//
//	objects       quick+thorough  mixes of pending timers whose Runnables are ONE shared *sched.Task (or 2, 3 shared
//	                              objects, a *sched.Task each, uncomparable value / func types), the consumer calling
//	                              Run() or not; oracle only where deliveries cannot name their timer
//	constructors  quick+thorough  NewDefaultHHWheelTimer / NewDefaultTimerQueue / the public constructors with
//	                              tickInterval/timeUnit in {0, 1, 2, 5, 7, 10, 1000}: one timer tick by tick around its
//	                              due tick, bursts of exactly one ticker period, mixes; compared with the model too
//	extremes      quick+thorough  every int argument at MaxInt, MaxInt-1, MinInt, MinInt+1, -1, 0, 62..65, 2^31+-1, 2^32+-1
//	id-wrap       quick+thorough  the id counter pre-positioned just below 2^15, 2^16, 2^31, 2^32 (was -search only)
//	re-entrant    quick+thorough  real goroutines: Runnables that start / re-arm / cancel timers from the consumer's Run()

import (
	"strings"

	"verifharness/hxlib"
	. "verifharness/hxtimers"
)

// modelable: the answer lines of the case can be compared with the Lean model (deliveries of a shared object carry
// no timer identity, so such a case is judged by the oracle only).
func modelable(c Case) bool { return !strings.HasPrefix(c.Obj, "shared") }

// ratioCase: timers whose delays sit around multiples of the ticker period, time advancing in bursts of exactly one
// ticker period (what the real ticker of this configuration produces), sometimes a late ticker (a longer burst).
func ratioCase(R *hxlib.Rand, sched string, g Config, pos uint32) Case {
	c := Case{Sched: sched, Pos: pos, Time: int64(R.Intn(1 << 16))}
	g.Apply(&c)
	ratio := g.Ratio(sched)
	if ratio > 16 {
		ratio = 16
	}
	add := func(k string, a int64) { c.Ops = append(c.Ops, Op{K: k, A: a}) }
	n := R.Range(2, 7)
	var maxd int64
	for i := 0; i < n; i++ {
		d := ratio*int64(R.Range(0, 24)) + int64(R.Intn(3)) - 1
		if R.Chance(1, 4) {
			d = int64(R.Pick(0, 1, 100, 255, 256, 257, 300))
		}
		if d < 0 {
			d = 0
		}
		if i == 1 {
			add("every", int64(R.Pick(1, 2, 5, 10, int(ratio), int(ratio)+1)))
		} else {
			add("after", d)
			if d > maxd {
				maxd = d
			}
		}
		add("add", 0)
	}
	for t := int64(0); t < maxd+2*ratio+2; {
		a := ratio
		if R.Chance(1, 6) {
			a = ratio*int64(R.Range(1, 3)) + int64(R.Intn(2))
		}
		add("advance", a)
		t += a
		if R.Chance(1, 8) {
			add("size", 0)
		}
	}
	add("size", 0)
	add("cancel", 2)
	add("del", 0)
	add("advance", 2*ratio+3)
	add("size", 0)
	add("links", 0)
	return c
}

func diversityLegs(positions []uint32, run func(Case)) {
	R := r.R.Fork()
	scheds := []string{"wheel", "heap"}
	// ---- objects ------------------------------------------------------------------------------------------------
	nObj := r.Scale(140, 2400)
	for k := 0; k < nObj; k++ {
		c := mix(R, scheds[k%2], positions)
		c.Obj = ObjKinds[R.Intn(len(ObjKinds))]
		c.Consume = R.Bool()
		if k < 8 { // the plainest shape first: two or three timers carrying ONE object, watched tick by tick
			c = Case{Sched: scheds[k%2], Pos: positions[R.Intn(len(positions))], Time: int64(R.Intn(1000)), Obj: "shared:1", Consume: k%4 >= 2}
			for _, o := range []Op{{K: "after", A: 3}, {K: "add"}, {K: "after", A: 5}, {K: "add"}, {K: "every", A: 4}, {K: "add"}, {K: "size"}} {
				c.Ops = append(c.Ops, o)
			}
			for t := 0; t < 13; t++ {
				c.Ops = append(c.Ops, Op{K: "advance", A: 1})
				if t == 6 {
					c.Ops = append(c.Ops, Op{K: "after", A: 2}, Op{K: "add"}) // the object is used again after a delivery
				}
			}
			c.Ops = append(c.Ops, Op{K: "size"}, Op{K: "cancel", A: 3}, Op{K: "del"}, Op{K: "advance", A: 9}, Op{K: "size"}, Op{K: "links"})
		}
		e := emit(c, modelable(c))
		r.Count("objects:" + strings.SplitN(c.Obj, ":", 2)[0])
		if e.Ref.SharedPending > 0 {
			r.Count("objects:case-with-one-object-shared-by-pending-timers")
		}
		if e.Ref.ObjectReused > 0 {
			r.Count("objects:case-with-an-object-reused-after-delivery-or-cancel")
		}
		if k == 0 || k == 9 {
			r.Sample(c)
		}
	}
	// ---- constructors ---------------------------------------------------------------------------------------------
	for _, sched := range scheds {
		for gi, g := range Configs(sched) {
			for _, d := range []int64{0, 1, 4, 5, 6, 100, 255, 256, 300} {
				for _, periodic := range []bool{false, true} {
					if periodic && (d == 0 || d == 4 || d == 6 || d == 255) {
						continue
					}
					c := single(sched, positions[R.Intn(len(positions))], int64(R.Intn(1000)), d, periodic, true)
					g.Apply(&c)
					run(c)
					r.Count("constructors:single")
				}
			}
			for k := 0; k < r.Scale(4, 60); k++ {
				run(ratioCase(R, sched, g, positions[R.Intn(len(positions))]-uint32(R.Intn(300))))
				r.Count("constructors:ticker-period-bursts")
			}
			for k := 0; k < r.Scale(2, 40); k++ {
				c := mix(R, sched, positions)
				g.Apply(&c)
				run(c)
				r.Count("constructors:mix")
			}
			if gi == 0 {
				c := ratioCase(R, sched, g, 250)
				r.Sample(c)
			}
		}
		r.CountN("constructors:configurations:"+sched, len(Configs(sched)))
	}
	// ---- machine-word extremes as arguments ------------------------------------------------------------------------
	for k := 0; k < r.Scale(6, 40); k++ {
		c := ExtremeArgsCase(R, scheds[k%2])
		if k >= 2 && k%3 == 2 {
			Configs(c.Sched)[0].Apply(&c)
		}
		run(c)
		r.Count("extremes:cases")
		if k == 0 {
			r.Sample(c)
		}
	}
	// ---- the id counter just below a power-of-two boundary -----------------------------------------------------------
	for _, b := range []int64{1 << 15, 1 << 16, 1 << 31, 1 << 32} {
		for _, sched := range scheds {
			if r.Failed() {
				break // a tick that never returns leaves a spinning goroutine behind: stop at the first
			}
			searchEmitPlain(IDWrapCase(R, sched, b), "id-wrap", 1)
		}
	}
	// ---- re-entrancy on the real goroutines ---------------------------------------------------------------------------
	for _, name := range LiveReentrantNames {
		r.Case()
		r.Count("live-reentrant:" + name)
		if what := LiveReentrant(name); what != "" {
			r.Fail("live-reentrant:"+name, name+" (real goroutines, Runnables calling back into the scheduler from the consumer's Run()): "+what, Case{Sched: "live-re-" + name})
		}
	}
}
