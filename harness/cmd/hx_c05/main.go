// hx_c05: correspondence harness + oracle for C05 (timers fire exactly once, on their due tick, in
// due order; hashed hierarchical wheel and binary heap). Every start request is accepted by the
// worker before anything else happens (the schedules are C06's business).
package main

import (
	"fmt"
	"io"
	"log"
	"strings"

	"verifharness/hxlib"
	. "verifharness/hxtimers"
)

var r *hxlib.Run

// crossed reports whether a wheel timer accepted at position pos with `delay` ticks to go meets a
// cascade boundary (a multiple of 256, which includes the 2^32 wrap) before it is delivered.
func crossed(pos uint32, delay int64) bool {
	if delay < 1 {
		delay = 1
	}
	return (uint64(pos)+uint64(delay))/256 > uint64(pos)/256
}

func emit(c Case, model bool) *Exec {
	e := Emit(r, c, model, true)
	nt := false
	if c.Sched == "wheel" {
		pos := uint64(c.Pos)
		for _, o := range c.Ops {
			switch o.K {
			case "advance":
				pos += uint64(o.A)
			case "after", "every":
				if crossed(uint32(pos), o.A) {
					nt = true
				}
			}
		}
		if nt {
			r.Count("wheel:case-with-cascade-or-wrap")
		}
	} else if e.Ref.MultiDue > 0 {
		nt = true
		r.Count("heap:case-with-2+-due-in-one-tick")
	}
	if nt {
		r.NonTrivial(c.Key())
	}
	r.CountN(c.Sched+":deliveries", e.Ref.Deliveries)
	return e
}

// one timer, watched tick by tick around its due time
func single(sched string, pos uint32, time int64, d int64, periodic bool, model bool) Case {
	c := Case{Sched: sched, Pos: pos, Time: time}
	add := func(k string, a int64) { c.Ops = append(c.Ops, Op{K: k, A: a}) }
	if !periodic {
		add("after", d)
		add("add", 0)
		add("links", 0)
		add("size", 0)
		due := d
		if due < 1 {
			due = 1
		}
		if sched == "heap" {
			due = d
			if due < 0 {
				due = 0
			}
			add("advance", 0)
			if due >= 1 {
				if due > 1 {
					add("advance", due-1)
				}
				add("sched", 1)
				add("advance", 1)
			}
		} else {
			if due > 2 {
				add("advance", due-2)
				add("links", 0)
				add("advance", 1)
			} else if due == 2 {
				add("advance", 1)
			}
			add("sched", 1)
			add("advance", 1)
		}
		add("sched", 1)
		add("size", 0)
		add("advance", 1)
		add("advance", 300)
		add("cancel", 1)
	} else {
		p := d
		add("every", p)
		add("add", 0)
		if p < 1 {
			add("advance", 0)
			add("advance", 1)
			add("advance", 1)
			add("size", 0)
			return c
		}
		for k := 0; k < 3; k++ {
			if p > 1 {
				add("advance", p-1)
			}
			add("sched", 1)
			add("advance", 1)
		}
		add("advance", 2*p) // one burst spanning two periods
		add("size", 0)
		add("cancel", 1)
		add("del", 0)
		add("advance", p+1)
		add("size", 0)
	}
	return c
}

func ticksOf(c Case) int64 {
	var n int64
	for _, o := range c.Ops {
		if o.K == "advance" {
			n += o.A
		}
	}
	return n
}

func main() {
	r = hxlib.Start("C05", "a history on one scheduler; wheel: non-trivial when a started timer meets a cascade boundary or the 2^32 wrap between its start and its delivery; heap: when two or more timers are due in one tick; distinct by history")
	defer r.Finish()
	log.SetOutput(io.Discard)
	if r.Replay != "" {
		var c Case
		r.LoadReplay(&c)
		switch {
		case strings.HasPrefix(c.Sched, "live-re-"):
			r.Case()
			if what := LiveReentrant(c.Sched[len("live-re-"):]); what != "" {
				r.Fail("live-reentrant:"+c.Sched[len("live-re-"):], what, c)
			}
		case c.Back != nil:
			runBackCase(c)
		case strings.HasPrefix(c.Sched, "realclock-"):
			realClockCase(c)
		case c.Search != nil:
			EmitSearch(r, c, true)
		case c.Live:
			searchEmitPlain(c, "live-replay", 20)
		case c.NextID > 0:
			searchEmitPlain(c, "id-wrap-replay", 1)
		default:
			emit(c, ticksOf(c) <= 1<<23 && modelable(c))
		}
		r.Sample(c)
		return
	}
	if r.Search {
		searchLegs()
		if r.Failed() {
			r.Note("the search legs found a failing input; the ordinary generators were not run again")
			return
		}
	}
	R := r.R
	modelBudget := int64(r.Scale(40_000_000, 600_000_000)) // ticks the Lean model is asked to run in total
	var modelTicks int64
	run := func(c Case) {
		t := ticksOf(c)
		if c.Sched == "heap" {
			t = int64(len(c.Ops))
		}
		m := modelTicks+t <= modelBudget
		if m {
			modelTicks += t
		} else {
			r.Count("impl-only-case")
		}
		emit(c, m)
	}

	positions := []uint32{0, 1, 255, 256, 257, 1<<14 - 1, 1 << 14, 1<<14 + 1, 1<<20 - 1, 1 << 20, 1<<20 + 1, 1<<26 - 1, 1 << 26, 1<<26 + 1,
		1<<32 - 1, 1<<32 - 2, 1<<32 - 256, 1<<32 - 257, 3<<26 + 5<<20 + 7<<14 + 9<<8 + 11, 63<<26 | 63<<20 | 63<<14 | 255}
	delays := []int64{-3, 0, 1, 2, 3, 254, 255, 256, 257, 300, 511, 512, 513, 1<<14 - 1, 1 << 14, 1<<14 + 1, 3 << 14, 40000}
	longDelays := []int64{1<<20 - 1, 1 << 20, 1<<20 + 1, 1<<21 + 77}
	hugeDelays := []int64{1<<26 - 1, 1 << 26, 1<<26 + 1}
	// 1. one timer per (position, delay), tick by tick around the due tick
	for _, p := range positions {
		for _, d := range delays {
			run(single("wheel", p, int64(R.Intn(1000)), d, false, true))
		}
	}
	for _, p := range positions {
		for _, d := range []int64{-1, 0, 1, 2, 255, 256, 257, 300, 1 << 14} {
			run(single("wheel", p, int64(R.Intn(1000)), d, true, true))
		}
	}
	for _, d := range delays {
		run(single("heap", 0, int64(R.Intn(100000)), d, false, true))
		run(single("heap", 0, int64(R.Intn(100000)), d, true, true))
	}
	nLong := r.Scale(3, 40)
	for k := 0; k < nLong; k++ {
		run(single("wheel", positions[R.Intn(len(positions))], 7, longDelays[k%len(longDelays)], false, true))
	}
	if r.Thorough() {
		for k, d := range hugeDelays {
			run(single("wheel", positions[(5*k+11)%len(positions)], 7, d, false, true))
		}
	} else {
		run(single("wheel", positions[R.Intn(len(positions))], 7, hugeDelays[R.Intn(3)], false, true))
	}
	// 1b. delays at and beyond 2^32 (clamped by addNode, looked at again at each cascade): placement and
	// "not yet" only — nobody waits 2^32 ticks
	for _, p := range positions {
		for _, d := range []int64{1<<32 - 1, 1 << 32, 1<<32 + 1, 1<<33 + 12345, 1 << 40} {
			c := Case{Sched: "wheel", Pos: p, Time: int64(R.Intn(1000))}
			c.Ops = []Op{{K: "after", A: d}, {K: "add"}, {K: "links"}, {K: "advance", A: int64(R.Pick(1, 255, 256, 257, 1000))}, {K: "links"},
				{K: "sched", A: 1}, {K: "size"}, {K: "cancel", A: 1}, {K: "del"}, {K: "links"}, {K: "size"}}
			run(c)
			r.Count("wheel:delay>=2^32-1")
		}
	}
	// 2. random single timers
	for k := 0; k < r.Scale(150, 3000); k++ {
		p := uint32(R.U64())
		if R.Chance(1, 2) {
			p = positions[R.Intn(len(positions))] + uint32(R.Intn(7)) - 3
		}
		var d int64
		switch R.Intn(4) {
		case 0:
			d = int64(R.Intn(600))
		case 1:
			d = int64(256*R.Range(1, 70) + R.Intn(3) - 1)
		case 2:
			d = int64(R.Intn(70000))
		default:
			d = int64(1<<14*R.Range(1, 5) + R.Intn(5) - 2)
		}
		run(single("wheel", p, int64(R.Intn(1<<20)), d, R.Chance(1, 4), true))
	}
	// 3. mixes of concurrently pending timers, bursts of any size, new timers while others are pending
	for k := 0; k < r.Scale(120, 2500); k++ {
		sched := "wheel"
		if k%3 == 2 {
			sched = "heap"
		}
		c := mix(R, sched, positions)
		if k < 4 {
			r.Sample(c)
		}
		run(c)
	}
	// 3b. the heap ARRAY after every op that changes it (heaparr.go)
	heapArrayLegs(run)
	// 4. what the generators above do not vary: Runnable objects, constructors, extreme arguments, id counter, re-entrancy
	diversityLegs(positions, run)
	// 5. fourth round: clocks that step back between polls; the real clock with time units that are not whole milliseconds
	if !r.Failed() {
		legs4(positions)
	}
	r.Note("model-compared wheel ticks: %d (budget %d)", modelTicks, modelBudget)
	if r.Thorough() {
		sweep(positions)
	}
}

func mix(R *hxlib.Rand, sched string, positions []uint32) Case {
	c := Case{Sched: sched, Time: int64(R.Intn(1 << 16))}
	c.Pos = uint32(R.U64())
	if R.Chance(2, 3) {
		c.Pos = positions[R.Intn(len(positions))] - uint32(R.Intn(300))
	}
	add := func(k string, a int64) { c.Ops = append(c.Ops, Op{K: k, A: a}) }
	horizon := int64(R.Pick(300, 1000, 5000, 20000))
	n := R.Pick(1, 2, 3, 5, 10, 40, 200)
	started := 0
	start := func() {
		if R.Chance(1, 5) {
			add("every", int64(R.Pick(1, 2, 3, 100, 255, 256, 257, 300, 1000, int(horizon/2+1))))
		} else {
			d := int64(R.Intn(int(horizon)))
			switch R.Intn(6) {
			case 0:
				d = int64(R.Pick(0, 1, 255, 256, 257, 512))
			case 1:
				d = int64(256 * R.Range(0, int(horizon/256)))
			}
			add("after", d)
		}
		add("add", 0)
		started++
	}
	for i := 0; i < n; i++ {
		start()
	}
	var t int64
	for t < horizon+300 {
		var a int64
		switch R.Intn(6) {
		case 0:
			a = 1
		case 1:
			a = int64(R.Intn(4))
		case 2:
			a = int64(R.Pick(255, 256, 257))
		case 3:
			a = int64(R.Intn(int(horizon/3) + 1))
		default:
			a = int64(R.Intn(50))
		}
		add("advance", a)
		t += a
		if R.Chance(1, 4) && started < 250 {
			start()
		}
		if R.Chance(1, 10) {
			add("size", 0)
		}
		if R.Chance(1, 10) {
			add("sched", int64(R.Range(1, started)))
		}
		if R.Chance(1, 25) {
			add("cancel", int64(R.Range(1, started)))
			add("del", 0)
		}
		if R.Chance(1, 30) {
			add("links", 0)
		}
	}
	add("size", 0)
	return c
}

// sweep: thorough tier, real code only, closed-form oracle: every delay 0..2^21 started at once at
// a boundary position and ticked through once; timer with delay d must fire in tick max(d,1).
func sweep(positions []uint32) {
	const N = 1<<21 + 1
	for _, pos := range positions[:12] {
		r.Case()
		c := Case{Sched: "wheel", Pos: pos}
		real := NewReal(c, 1<<12)
		ids := make(map[int]int64, N)
		bad := 0
		for d := int64(0); d < N; d++ {
			ob := real.Do(Op{K: "after", A: d})
			real.Do(Op{K: "add"})
			ids[ob.ID] = d
		}
		fail := func(key, what string, d int64) {
			bad++
			if bad <= 3 {
				r.Fail(key, what, single("wheel", pos, 0, d, false, true))
			}
		}
		for tick := int64(1); tick <= N+300 && !real.Dead; tick++ {
			ob := real.Do(Op{K: "advance", A: 1})
			if ob.Panic != "" {
				fail("crash:wheel:advance", fmt.Sprintf("sweep pos=%d: tick %d panicked: %s", pos, tick, ob.Panic), 0)
				break
			}
			for _, id := range ob.Fired {
				d, ok := ids[id]
				if !ok {
					fail("delivered-after-cancel-or-twice:wheel", fmt.Sprintf("sweep pos=%d: id %d delivered twice or unknown in tick %d", pos, id, tick), 0)
					continue
				}
				want := d
				if want < 1 {
					want = 1
				}
				if want != tick {
					fail("delivered-not-due:wheel", fmt.Sprintf("sweep pos=%d: delay %d delivered in tick %d", pos, d, tick), d)
				}
				delete(ids, id)
			}
		}
		for _, d := range ids {
			fail("not-delivered:wheel", fmt.Sprintf("sweep pos=%d: delay %d was never delivered within %d ticks", pos, d, N+300), d)
			if bad > 3 {
				break
			}
		}
		if n := real.Do(Op{K: "size"}); n.N != 0 && bad == 0 {
			fail("size:wheel", fmt.Sprintf("sweep pos=%d: Size()=%d after everything fired", pos, n.N), 0)
		}
		real.Close()
		r.NonTrivial(fmt.Sprintf("sweep/%d", pos))
		r.Count("sweep-positions")
		r.CountN("sweep-timers", N)
	}
	r.Note("thorough sweep: every delay 0..2^21 started together at 12 boundary positions and ticked through on the real code; closed-form oracle (delay d fires in tick max(d,1))")
}
