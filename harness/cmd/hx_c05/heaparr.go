package main

// heaparr.go: histories on the binary-heap scheduler that look at the heap ARRAY (`harr`: id, index field and
// deadline of every slot, in array order) after every op that changes the heap. The Lean model mirrors
// container/heap's up/down/Push/Pop/Remove/Fix on an array, so every `arr=` line is compared slot by slot; the
// harness judges each array by three plain statements of its own (hxtimers.Ref.heapArray).
//
// The generators steer by what the REAL array looks like: every op is also run on a live scheduler while the
// history is being written (hb), so "remove the node in slot i" can name the id sitting there.

import (
	"verifharness/hxlib"
	. "verifharness/hxtimers"
)

// hb writes one heap history and runs it on a live scheduler at the same time.
type hb struct {
	c    Case
	real *Real
	arr  []HeapEnt // the array after the latest harr
	per  map[int]bool
	upEv int // removes after which the node moved into the hole ended in a LOWER slot than the hole
}

func newHB(time int64) *hb {
	b := &hb{c: Case{Sched: "heap", Time: time}, per: map[int]bool{}}
	b.real = NewReal(b.c, 1<<12)
	b.harr() // size 0
	return b
}

func (b *hb) op(k string, a int64) Obs {
	o := Op{K: k, A: a}
	b.c.Ops = append(b.c.Ops, o)
	return b.real.Do(o)
}

func (b *hb) harr() []HeapEnt {
	b.arr = b.op("harr", 0).Arr
	return b.arr
}

// start: the client call, the worker's add step, the array.
func (b *hb) start(kind string, d int64) int {
	ob := b.op(kind, d)
	b.op("add", 0)
	b.harr()
	if kind == "every" && d != 0 {
		b.per[ob.ID] = true
	}
	return ob.ID
}

// remove: Cancel(id), the worker's del step, the array.
func (b *hb) remove(id int) {
	b.op("cancel", int64(id))
	b.op("del", 0)
	b.harr()
}

func slotOf(a []HeapEnt, id int) int {
	for i, e := range a {
		if e.ID == id {
			return i
		}
	}
	return -1
}

// removeAt removes the node in slot i of the current array and says where the node that was moved into the hole
// (the former last one) ended: -1 up (a lower slot), +1 down, 0 it stayed in the hole / there was no such node.
func (b *hb) removeAt(i int) int {
	n := len(b.arr)
	if i < 0 || i >= n {
		return 0
	}
	before := b.arr
	switch {
	case i == n-1:
		r.Count("heaparr:ev:remove-last")
	case i == 0:
		r.Count("heaparr:ev:remove-root")
	default:
		r.Count("heaparr:ev:remove-middle")
	}
	b.remove(before[i].ID)
	if i == n-1 {
		return 0
	}
	switch at := slotOf(b.arr, before[n-1].ID); {
	case at >= 0 && at < i:
		r.Count("heaparr:ev:moved-node-went-up")
		b.upEv++
		return -1
	case at > i:
		r.Count("heaparr:ev:moved-node-went-down")
		return 1
	}
	r.Count("heaparr:ev:moved-node-stayed")
	return 0
}

// removeSome: the root, the last slot or a slot in the middle.
func (b *hb) removeSome(R *hxlib.Rand) {
	n := len(b.arr)
	if n == 0 {
		return
	}
	switch R.Intn(4) {
	case 0:
		b.removeAt(0)
	case 1:
		b.removeAt(n - 1)
	default:
		b.removeAt(R.Intn(n))
	}
}

// advance: time passes, one tick, the array. A periodic timer that fired and is still there went through heap.Fix.
func (b *hb) advance(n int64) {
	ob := b.op("advance", n)
	b.harr()
	fixes := 0
	for _, id := range ob.Fired {
		if b.per[id] && slotOf(b.arr, id) >= 0 {
			fixes++
		}
	}
	r.CountN("heaparr:ev:fix", fixes)
	r.CountN("heaparr:ev:pop", len(ob.Fired)-fixes)
	if fixes >= 2 {
		r.Count("heaparr:ev:tick-with-2+-fixes")
	}
}

func (b *hb) finish(class string, run func(Case)) {
	b.real.Close()
	r.Count("heaparr:" + class)
	r.NonTrivial(b.c.Key())
	run(b.c)
}

// tuples calls f with every tuple over vals of length n.
func tuples(vals []int64, n int, f func([]int64)) {
	t := make([]int64, n)
	var rec func(k int)
	rec = func(k int) {
		if k == n {
			f(t)
			return
		}
		for _, v := range vals {
			t[k] = v
			rec(k + 1)
		}
	}
	rec(0)
}

func heapArrayLegs(run func(Case)) {
	R := r.R
	sampled := 0
	sample := func(c Case) {
		if sampled < 3 && len(c.Ops) < 80 {
			sampled++
			r.Sample(c)
		}
	}

	// 1. sizes 0..3, every deadline pattern over {5,6,7} (all orderings, all ties), then nothing / each slot removed,
	// then everything popped tick by tick
	for n := 0; n <= 3; n++ {
		tuples([]int64{5, 6, 7}, n, func(t []int64) {
			for rm := -1; rm < n; rm++ {
				b := newHB(1000)
				for _, d := range t {
					b.start("after", d)
				}
				if rm >= 0 {
					b.removeAt(rm)
				}
				b.advance(4)
				for k := 0; k < 4; k++ {
					b.advance(1)
				}
				sample(b.c)
				b.finish("small-exhaustive", run)
			}
		})
	}
	// ... and the same sizes with periodic timers among them (a tick re-arms the root and fixes it in place)
	for n := 1; n <= 3; n++ {
		tuples([]int64{1, 2}, n, func(t []int64) {
			for oneShot := -1; oneShot < n; oneShot++ {
				b := newHB(50)
				for i, p := range t {
					if i == oneShot {
						b.start("after", p)
					} else {
						b.start("every", p)
					}
				}
				for k := 0; k < 5; k++ {
					b.advance(1)
				}
				b.removeAt(0)
				b.advance(2)
				b.finish("small-exhaustive", run)
			}
		})
	}

	// 2. many equal deadlines (Less breaks the tie by id DESCENDING: every push of an equal deadline climbs to the root)
	sizes := []int{10, 31, 64, 150, 300}
	for k := 0; k < r.Scale(9, 60); k++ {
		b := newHB(int64(R.Intn(100000)))
		n := R.Range(10, 120)
		if k < len(sizes) {
			n = sizes[k]
		} else if R.Chance(1, 8) {
			n = R.Range(200, 300)
		}
		distinct := 1
		if k >= 3 {
			distinct = R.Range(1, 3)
		}
		base := int64(R.Range(1, 9))
		for i := 0; i < n; i++ {
			b.start("after", base+int64(R.Intn(distinct)))
		}
		for i := 0; i < R.Range(2, 8); i++ {
			b.removeSome(R)
		}
		b.advance(base - 1)
		for i := 0; i < distinct+1; i++ {
			b.advance(1)
			if len(b.arr) > 0 && R.Chance(1, 2) {
				b.removeSome(R)
			}
		}
		b.finish("equal-deadlines", run)
	}

	// 3. periodic timers and one-shots: a tick changes the deadline of the root and calls heap.Fix on it, several
	// periodic timers due in one tick, tick after tick; periods 1,2,3,7 and equal periods
	for k := 0; k < r.Scale(30, 400); k++ {
		b := newHB(int64(R.Intn(1000)))
		np, no := R.Range(2, 8), R.Range(0, 6)
		same := int64(R.Pick(1, 2, 3, 7))
		equal := R.Chance(1, 3)
		for i := 0; i < np+no; i++ {
			periodic := i < np // periodic first / one-shots first / interleaved
			if k%3 == 1 {
				periodic = i >= no
			} else if k%3 == 2 {
				periodic = R.Intn(np+no) < np
			}
			if periodic {
				p := int64(R.Pick(1, 2, 3, 7))
				if equal {
					p = same
				}
				b.start("every", p)
			} else {
				b.start("after", int64(R.Intn(15)))
			}
		}
		for t := 0; t < R.Range(8, 20); t++ {
			b.advance(int64(R.Pick(1, 1, 1, 1, 2, 3, 7, 0)))
			if R.Chance(1, 6) {
				b.removeSome(R)
			}
			if R.Chance(1, 6) {
				b.start("after", int64(R.Intn(4)))
			}
		}
		if k == 0 {
			sample(b.c)
		}
		b.finish("periodic", run)
	}

	// 4. Remove of the LAST slot, of the ROOT and of a MIDDLE slot, over and over, until the heap is empty
	for k := 0; k < r.Scale(20, 300); k++ {
		b := newHB(int64(R.Intn(1000)))
		n := R.Range(4, 30)
		span := R.Pick(3, 10, 1000)
		for i := 0; i < n; i++ {
			b.start("after", int64(R.Intn(span)))
		}
		for len(b.arr) > 0 {
			m := len(b.arr)
			switch (k + m) % 3 {
			case 0:
				b.removeAt(m - 1)
			case 1:
				b.removeAt(0)
			default:
				if m > 2 {
					b.removeAt(R.Range(1, m-2))
				} else {
					b.removeAt(0)
				}
			}
			if R.Chance(1, 7) {
				b.start("after", int64(R.Intn(span)))
			}
		}
		b.advance(int64(span))
		b.finish("remove-positions", run)
	}

	// 5. Remove where the node moved into the hole must go UP: the left subtree of the root holds large deadlines,
	// the root and its right subtree small ones (pushed in slot order, so the array is the push order); a node of
	// the left subtree that is not the last slot is removed; the last slot (right subtree, small) is moved into
	// the hole and climbs to slot 1.
	inLeft := func(i int) bool {
		for i > 2 {
			i = (i - 1) / 2
		}
		return i == 1
	}
	for k := 0; k < r.Scale(12, 150); k++ {
		b := newHB(int64(R.Intn(1000)))
		var n int
		for { // the last slot must lie in the right subtree
			n = R.Range(7, 63)
			if k == 0 {
				n = 7 // 1,100,2,101,102,3,4
			}
			if !inLeft(n - 1) {
				break
			}
		}
		for i := 0; i < n; i++ {
			if inLeft(i) {
				b.start("after", int64(100+i))
			} else {
				b.start("after", int64(1+i))
			}
		}
		var cand []int
		for i := 3; i < n-1; i++ {
			if inLeft(i) {
				cand = append(cand, i)
			}
		}
		for round := 0; round < 3 && len(cand) > 0; round++ {
			m := len(b.arr)
			i := cand[R.Intn(len(cand))]
			if i >= m-1 || inLeft(m-1) {
				break
			}
			b.removeAt(i)
		}
		b.advance(50)
		b.advance(200)
		if b.upEv > 0 {
			if k == 0 {
				sample(b.c)
			}
			b.finish("remove-up", run)
		} else {
			b.finish("remove-up-not-reached", run)
		}
	}
	// ... and random heaps searched for a removal after which the moved node climbs
	for k := 0; k < r.Scale(10, 100); k++ {
		b := newHB(int64(R.Intn(1000)))
		for i := 0; i < R.Range(8, 40); i++ {
			b.start("after", int64(R.Intn(R.Pick(4, 50, 1000))))
		}
		for try := 0; try < 12 && len(b.arr) > 4; try++ {
			b.removeAt(R.Range(3, len(b.arr)-2))
		}
		b.advance(1000)
		if b.upEv > 0 {
			b.finish("remove-up", run)
		} else {
			b.finish("remove-up-not-reached", run)
		}
	}

	// 6. big heaps (200..400 nodes): deadlines with ties, pushes, removes of root / last / middle slots, pops by
	// time passing in steps, periodic timers among them; the array after every change
	for k := 0; k < r.Scale(3, 20); k++ {
		b := newHB(int64(R.Intn(1 << 20)))
		target := R.Range(200, 400)
		span := R.Pick(40, 60, 300)
		push := func() {
			if R.Chance(1, 6) {
				b.start("every", int64(R.Pick(1, 2, 3, 7, 50)))
			} else {
				b.start("after", int64(3+R.Intn(span)))
			}
		}
		for len(b.arr) < target {
			push()
			if R.Chance(1, 8) {
				b.removeSome(R)
			}
		}
		r.CountN("heaparr:big-max-size", len(b.arr))
		for step := 0; step < R.Range(12, 25); step++ {
			b.advance(int64(R.Pick(1, 1, 2, 3, 5)))
			for j := 0; j < R.Intn(4); j++ {
				push()
			}
			for j := 0; j < R.Intn(3); j++ {
				b.removeSome(R)
			}
		}
		b.advance(int64(span))
		b.finish("big", run)
	}

	// 7. random bulk: small and medium heaps, deadlines from a tiny range (ties everywhere), every kind of op;
	// start requests that wait (the add steps come later, all before time passes) and cancels that overtake
	// their start request (addNode drops it; delNode meets index -1)
	for k := 0; k < r.Scale(150, 1500); k++ {
		b := newHB(int64(R.Intn(1 << 16)))
		limit := R.Pick(3, 8, 15, 40)
		span := R.Pick(1, 2, 3, 5, 9)
		nops := R.Range(5, 60)
		pending := 0
		flush := func() {
			for ; pending > 0; pending-- {
				b.op("add", 0)
				b.harr()
			}
		}
		var startedIDs []int
		for i := 0; i < nops; i++ {
			switch x := R.Intn(10); {
			case x < 5 && len(b.arr)+pending < limit:
				kind, d := "after", int64(R.Intn(span+1))
				if R.Chance(1, 4) {
					kind, d = "every", int64(R.Pick(1, 2, 3, 7, 0))
				}
				if R.Chance(1, 6) {
					ob := b.op(kind, d) // the add step comes later
					pending++
					startedIDs = append(startedIDs, ob.ID)
					if kind == "every" && d != 0 {
						b.per[ob.ID] = true
					}
					if R.Chance(1, 3) { // cancelled before the worker saw it
						flushFirst := pending - 1
						for ; flushFirst > 0; flushFirst-- {
							b.op("add", 0)
							b.harr()
						}
						b.op("cancel", int64(ob.ID))
						b.op("add", 0)
						b.harr()
						b.op("del", 0)
						b.harr()
						pending = 0
						r.Count("heaparr:ev:cancel-before-add")
					}
				} else {
					flush()
					startedIDs = append(startedIDs, b.start(kind, d))
				}
			case x < 7:
				flush()
				b.removeSome(R)
			case x == 7 && len(startedIDs) > 0:
				flush()
				b.remove(startedIDs[R.Intn(len(startedIDs))]) // any id ever started: perhaps gone already
			default:
				flush()
				b.advance(int64(R.Pick(0, 1, 1, 1, 2, 3)))
			}
		}
		flush()
		b.advance(int64(span + 7))
		b.finish("bulk", run)
	}
	// 8. the cancel request arrives LATE: Cancel(id) is called, the tick that finds the cancelled node due pops it (its
	// index field must become -1), more timers are pushed into the slots it occupied, and only then the worker handles
	// the cancel request: delNode must find index < 0 and leave the array alone
	for k := 0; k < r.Scale(40, 400); k++ {
		b := newHB(int64(1000 + R.Intn(1000)))
		n := R.Range(2, 12)
		var ids []int
		for i := 0; i < n; i++ {
			if R.Chance(1, 4) {
				ids = append(ids, b.start("every", int64(R.Range(1, 4))))
			} else {
				ids = append(ids, b.start("after", int64(R.Range(1, 6))))
			}
		}
		victims := R.Range(1, 3)
		for v := 0; v < victims; v++ {
			b.op("cancel", int64(ids[R.Intn(len(ids))])) // no del step yet
		}
		b.advance(int64(R.Range(6, 9))) // every victim is due: popped by trigger, not delivered
		for i := 0; i < R.Range(1, 8); i++ {
			b.start("after", int64(R.Range(1, 9)))
		}
		for v := 0; v < victims; v++ {
			b.op("del", 0)
			b.harr()
			r.Count("heaparr:ev:del-after-pop")
		}
		b.advance(3)
		b.advance(12)
		b.finish("late-del", run)
	}
	r.Note("heap array legs: every `harr` line is the real array (id@index:deadline per slot); it is compared with the array of the Lean model and judged by the harness (index fields, parent/child order, distinct ids)")
}
