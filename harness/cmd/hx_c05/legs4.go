package main

// Fourth round of legs of hx_c05 (normal tiers, oracle only). The rules are stated in hxtimers/legs4.go.
//
//	back       the clock handed to the scheduler reads LOWER than at the previous poll (by 1, 2, 3, 7, 255, 256, 500, 65536,
//	           10^6 units; once, twice, three times in a row), both schedulers, the driver's own and the public constructors'
//	           configurations, wheel positions next to cascade boundaries and the 2^32 wrap, start times that make the readings
//	           negative; timers started before (pending across the step) and after it, one-shot and periodic
//	realclock  started schedulers built by the public constructors with time units that are not whole milliseconds, real clock

import (
	"fmt"
	"strings"
	"sync"

	. "verifharness/hxtimers"
)

func runBackCase(c Case) bool {
	r.Case()
	fs, polls, crossed := RunBack(c)
	r.Count("back:" + c.Sched)
	r.CountN("back:polls", polls)
	r.CountN("back:pending-across-a-step-then-delivered", crossed)
	for _, f := range fs {
		r.Fail(f.Key, f.What, c)
	}
	if len(fs) == 0 && crossed > 0 {
		r.NonTrivial("back/" + c.Key() + fmt.Sprint(*c.Back))
	}
	return len(fs) == 0
}

func realClockCase(c Case) bool {
	r.Case()
	kind := strings.TrimPrefix(c.Sched, "realclock-")
	r.Count("realclock:" + kind)
	if what := RealClock(kind, c.TickNs, c.UnitNs); what != "" {
		r.Fail("realclock:"+kind, what, c)
		return false
	}
	return true
}

func legs4(positions []uint32) {
	R := r.R.Fork()
	// ---- regressing clocks -------------------------------------------------------------------------------------------
	backs := []int64{1, 2, 3, 500, 1000000, 7, 255, 256, 257, 65536}
	n := 0
	for _, sched := range []string{"wheel", "heap"} {
		cfgs := append([]Config{{}}, Configs(sched)...)
		for bi, d := range backs {
			for shape := 0; shape < 4; shape++ {
				if !r.Thorough() && bi >= 5 && (shape+bi)%2 == 0 {
					continue
				}
				b := &BackSpec{Warm: R.Pick(0, 1, 3, 300), Gap: R.Pick(0, 1, 2, 5), Polls: 320}
				b.Pre = []int64{0, 1, 2, 5, 10, 300, d - 1, d, d + 1, int64(R.Intn(600))}
				b.PreEvery = []int64{1, 3, int64(R.Range(2, 40))}
				b.Post = []int64{0, 1, 2, 3, 10, 255, 256, 300, int64(R.Intn(320)), int64(R.Intn(40)), 1000}
				b.PostEvery = []int64{1, 4, int64(R.Range(2, 100))}
				switch shape {
				case 0: // one step, new timers right behind it
					b.Steps = []BackStep{{Back: d}}
				case 1: // one step, the clock runs on for a while before anything is started
					b.Steps = []BackStep{{Back: d}}
					b.PostGap = R.Pick(1, 2, 3, 10, 100)
				case 2: // two steps with unit polls in between
					b.Steps = []BackStep{{Back: d, Then: R.Pick(0, 1, 2, 7)}, {Back: backs[R.Intn(5)]}}
				default: // three steps in a row, the last one of this size
					b.Steps = []BackStep{{Back: backs[R.Intn(4)]}, {Back: backs[R.Intn(4)], Then: R.Pick(0, 3)}, {Back: d}}
					b.Pre, b.PreEvery = b.Pre[:6], b.PreEvery[:1]
				}
				c := Case{Sched: sched, Pos: positions[R.Intn(len(positions))] - uint32(R.Intn(3)), Time: int64(R.Pick(2000000, 5000000, 1<<31+5, 1<<40, 100, 0, 1700000000000)), Back: b}
				cfgs[(n+shape)%len(cfgs)].Apply(&c)
				if c.Ctor == "new" && c.UnitNs < 1000000 && c.Time > 1<<40 {
					c.Time = 1 << 40
				}
				n++
				if !runBackCase(c) {
					return
				}
				if n == 1 || n == 40 {
					r.Sample(c)
				}
			}
		}
	}
	r.Note("leg back: %d histories in which the clock reads lower than at the previous poll (by 1 .. 10^6 units, 1-3 times), timers pending across the step and started after it, both schedulers, %d+%d constructor configurations", n, len(Configs("wheel")), len(Configs("heap")))
	// ---- real clock, units that are not whole milliseconds ------------------------------------------------------------
	type rc struct {
		kind       string
		tick, unit int64
	}
	var cases []rc
	for ui, u := range RealClockUnits {
		for _, kind := range []string{"heap", "wheel"} {
			tick := u
			if ui%3 == 1 {
				tick = 2 * u
			}
			if tick < 1000000 {
				tick = 1000000 // a ticker faster than 1 ms buys nothing
			}
			cases = append(cases, rc{kind, tick, u})
		}
	}
	res := make([]bool, len(cases))
	var wg sync.WaitGroup
	var mu sync.Mutex
	for i := range cases {
		wg.Add(1)
		go func(i int) {
			defer wg.Done()
			what := RealClock(cases[i].kind, cases[i].tick, cases[i].unit)
			mu.Lock()
			defer mu.Unlock()
			r.Case()
			r.Count("realclock:" + cases[i].kind)
			res[i] = what == ""
			if what != "" {
				r.Fail("realclock:"+cases[i].kind, what, Case{Sched: "realclock-" + cases[i].kind, TickNs: cases[i].tick, UnitNs: cases[i].unit})
			} else {
				r.NonTrivial(fmt.Sprintf("realclock/%s/%d/%d", cases[i].kind, cases[i].tick, cases[i].unit))
			}
		}(i)
	}
	wg.Wait()
	r.Note("leg realclock: %d started schedulers (public constructors, time units 1/60 s, 1/30 s, 2.5 ms, 1.5 ms, 333 us, 1 ms +- 1 ns, …) on the real clock: RunAfter(3) delivered once, RunEvery(2) three times, bookkeeping read back", len(cases))
}
