// legs3.go: legs of hx_c12 that run in the NORMAL tiers (quick and thorough), oracle-only (the model's elements are
// ints; the oracle is the property's plain list of element STAMPS, the element a stamp stands for is compared by identity).
//
//	elemrep    (K1) deque / unbounded queue / concurrent queue (used sequentially) histories whose elements are of 1..4
//	           dynamic kinds drawn per case from: untyped nil, typed nil pointer, nil slice, 0, "", false, fresh []byte,
//	           fresh map, fresh func, struct holding a slice, -0.0, +0.0, NaN, arrays and structs and complex numbers
//	           holding a signed zero, int64 extremes, fresh pointers, [1]interface{} holding a slice, ints, strings.
//	           Few kinds per case, so that a Set / push meets a slot that holds the SAME dynamic type (uncomparable, or
//	           == but not identical) all the time. Every read-back is compared by identity (type, bit pattern, address).
//	words      (K5) At / Set / Rotate with every machine-word extreme (MinInt, MinInt+1, -2^32-1 .. 2^32+1, -65..-62,
//	           62..65, MaxInt-1, MaxInt; truncated to the platform's int) on deques of 0, 1, 2, 5, 16, 17, 66 and 130
//	           elements; SetMinCapacity with exponents 0..12, word size -2 .. +2, 2^31+-1, 2^32+-1, MaxUint-1, MaxUint on
//	           allocated deques and ALL exponents (also 13..62) on not yet allocated ones (followed by a small one
//	           before the first push); the capacity rule after every call, with the minimum computed for the platform's
//	           word size.
//	ctor       (K4) NewDeque() / NewDeque(c) / NewDeque(c, m) / NewDeque(c, m, junk...) for every relation of
//	           c in {0, 1, 2, 15, 16, 17, 31, 32, 33, 63, 64, 65, 100, 1000, 4096, -1, MinInt, MinInt+1} and
//	           m in {0, 1, 15, 16, 17, 31, 32, 33, 63, 64, 65, 128, 1000, -1, MinInt} (and, with c = 0 only, m = 2^20, 2^31+-1,
//	           2^32+-1, 2^62 where int holds them: nothing is allocated until SetMinCapacity has lowered the minimum
//	           again), the zero value, new(Deque); queue.NewUnbounded(), new(UnboundedQueue), a literal with Init, Init
//	           after use; NewUnboundedConcurrentQueue(), the zero value. Each followed by a fill past the capacity and
//	           a drain to empty from either end with the rules checked after every call.
//
// Not generated: NewDeque with a capacity or minimum above 2^62 (no power of two in int is >= it: the property has no
// answer for it; on the unchanged tree the constructor's doubling loop never ends for such an argument), capacities
// that really allocate more than 2^20 slots outside the -search scale leg.
package main

import (
	"fmt"
	"math"
	"os"
	"reflect"
	"strconv"
	"time"

	"verifharness/hxlib"

	"qchen.fun/fatchoy/collections/queue"
)

// ---- identity of dynamic values ------------------------------------------------------------------------------------

// identical: same dynamic type and the same value bit for bit (floats by bit pattern; slices, maps, funcs, pointers,
// channels by address (+ length); structs, arrays, interfaces element by element). Never uses == on an interface.
func identical(a, b interface{}) bool {
	if a == nil || b == nil {
		return a == nil && b == nil
	}
	if fa, ok := a.(func() int); ok { // closures of one literal share their code pointer: ask them
		fb, ok := b.(func() int)
		return ok && fa() == fb()
	}
	return identicalV(reflect.ValueOf(a), reflect.ValueOf(b))
}

func identicalV(a, b reflect.Value) bool {
	if a.Type() != b.Type() {
		return false
	}
	switch a.Kind() {
	case reflect.Bool:
		return a.Bool() == b.Bool()
	case reflect.Int, reflect.Int8, reflect.Int16, reflect.Int32, reflect.Int64:
		return a.Int() == b.Int()
	case reflect.Uint, reflect.Uint8, reflect.Uint16, reflect.Uint32, reflect.Uint64, reflect.Uintptr:
		return a.Uint() == b.Uint()
	case reflect.Float32, reflect.Float64:
		return math.Float64bits(a.Float()) == math.Float64bits(b.Float())
	case reflect.Complex64, reflect.Complex128:
		x, y := a.Complex(), b.Complex()
		return math.Float64bits(real(x)) == math.Float64bits(real(y)) && math.Float64bits(imag(x)) == math.Float64bits(imag(y))
	case reflect.String:
		return a.String() == b.String()
	case reflect.Slice:
		return a.IsNil() == b.IsNil() && a.Len() == b.Len() && a.Pointer() == b.Pointer()
	case reflect.Map, reflect.Func, reflect.Ptr, reflect.Chan, reflect.UnsafePointer:
		return a.Pointer() == b.Pointer()
	case reflect.Interface:
		if a.IsNil() || b.IsNil() {
			return a.IsNil() && b.IsNil()
		}
		return identicalV(a.Elem(), b.Elem())
	case reflect.Array:
		for i := 0; i < a.Len(); i++ {
			if !identicalV(a.Index(i), b.Index(i)) {
				return false
			}
		}
		return true
	case reflect.Struct:
		for i := 0; i < a.NumField(); i++ {
			if !identicalV(a.Field(i), b.Field(i)) {
				return false
			}
		}
		return true
	}
	return false
}

func showVal(v interface{}) string {
	if v == nil {
		return "nil"
	}
	rv := reflect.ValueOf(v)
	switch rv.Kind() {
	case reflect.Float64, reflect.Float32:
		return fmt.Sprintf("%T(%v, bits %#x)", v, v, math.Float64bits(rv.Float()))
	case reflect.Func, reflect.Ptr, reflect.Map:
		return fmt.Sprintf("%T@%#x", v, rv.Pointer())
	case reflect.Slice:
		return fmt.Sprintf("%T(len %d, nil %v)@%#x", v, rv.Len(), rv.IsNil(), rv.Pointer())
	}
	s := fmt.Sprintf("%T(%+v)", v, v)
	if len(s) > 90 {
		s = s[:90] + "…"
	}
	return s
}

// ---- element kinds -------------------------------------------------------------------------------------------------

type valBox struct {
	id   int
	tags []int
}

type zeroRec struct {
	name string
	x    float64
}

var negZero = math.Copysign(0, -1)

const nKinds = 22

var kindNames = [nKinds]string{"nil", "nil-ptr", "nil-slice", "zero-int", "empty-string", "false", "bytes", "map", "func", "struct-with-slice",
	"-0.0", "+0.0", "NaN", "array-of-signed-zero", "int64-extreme", "pointer", "ints", "complex-signed-zero", "struct-signed-zero",
	"int", "string", "array-of-interface-holding-slice"}

// makeKind: the element of kind k for stamp v (fresh objects carry the stamp).
func makeKind(k, v int) interface{} {
	switch k {
	case 0:
		return nil
	case 1:
		return (*int)(nil)
	case 2:
		return []byte(nil)
	case 3:
		return 0
	case 4:
		return ""
	case 5:
		return false
	case 6:
		return []byte{byte(v), byte(v >> 8)}
	case 7:
		return map[string]int{"stamp": v}
	case 8:
		return func() int { return v }
	case 9:
		return valBox{id: v, tags: []int{v}}
	case 10:
		return negZero
	case 11:
		return 0.0
	case 12:
		return math.NaN()
	case 13:
		if v&1 == 0 {
			return [2]float64{0, negZero}
		}
		return [2]float64{0, 0}
	case 14:
		if v&1 == 0 {
			return int64(math.MaxInt64)
		}
		return int64(math.MinInt64)
	case 15:
		return &valBox{id: v}
	case 16:
		return []int{v}
	case 17:
		if v&1 == 0 {
			return complex(0, negZero)
		}
		return complex(0, 0)
	case 18:
		if v&1 == 0 {
			return zeroRec{"z", negZero}
		}
		return zeroRec{"z", 0}
	case 19:
		return v
	case 20:
		return strconv.Itoa(v)
	default:
		return [1]interface{}{[]int{v}}
	}
}

// vbox: what a stamp IS. vals == nil: the int stamp itself (the search legs).
type vbox struct {
	vals func(int) interface{}
	made map[int]interface{}
}

func (b *vbox) valOf(v int) interface{} {
	if b.vals == nil {
		return v
	}
	if x, ok := b.made[v]; ok {
		return x
	}
	x := b.vals(v)
	b.made[v] = x
	return x
}

func (b *vbox) valIs(got interface{}, v int) bool {
	if b.vals == nil {
		return got == interface{}(v)
	}
	return identical(got, b.valOf(v))
}

func (b *vbox) showStamp(v int) string {
	if b.vals == nil {
		return strconv.Itoa(v)
	}
	return showVal(b.valOf(v))
}

// kindsOf derives the case's kinds from its seed: 1..4 kinds; the signed-zero pair and the single uncomparable kinds
// come up often.
func kindsOf(seed uint64) []int {
	rnd := hxlib.NewRand(seed ^ 0x5bd1e995)
	switch rnd.Intn(6) {
	case 0:
		return []int{10, 11}
	case 1:
		return []int{[]int{6, 7, 8, 9, 16, 21, 2}[rnd.Intn(7)]}
	case 2:
		return []int{[]int{13, 17, 18, 12, 0, 1}[rnd.Intn(6)], rnd.Intn(nKinds)}
	}
	n := rnd.Range(1, 4)
	ks := make([]int, n)
	for i := range ks {
		ks[i] = rnd.Intn(nKinds)
	}
	return ks
}

func useKinds(b *vbox, ks []int) {
	b.made = map[int]interface{}{}
	b.vals = func(v int) interface{} {
		h := uint64(v) * 0x9E3779B97F4A7C15
		h ^= h >> 31
		return makeKind(ks[int(h%uint64(len(ks)))], v)
	}
}

func kindList(ks []int) string {
	s := ""
	for i, k := range ks {
		if i > 0 {
			s += ","
		}
		s += kindNames[k]
	}
	return s
}

// ---- word-size aware rules -----------------------------------------------------------------------------------------

const wordBits = strconv.IntSize

// wantMin: the minimum capacity SetMinCapacity(exp) configures: 2^exp when that is a positive int above the floor, the
// floor otherwise (the documented rule, computed without machine arithmetic).
func wantMin(exp uint, bits int) int {
	if exp < uint(bits-1) && exp < 63 && uint64(1)<<exp > uint64(defaultMin) {
		return int(uint64(1) << exp)
	}
	return defaultMin
}

// wordInts: the machine-word extremes as platform ints (values that do not fit are dropped, so the 386 build asks
// MinInt32.. instead).
func wordInts() []int {
	vals := []int64{math.MinInt64, math.MinInt64 + 1, -(1 << 32) - 1, -(1 << 32), -(1 << 32) + 1, math.MinInt32 - 1, math.MinInt32, math.MinInt32 + 1,
		-131, -130, -67, -66, -65, -64, -63, -62, -17, -16, -2, -1, 0, 1, 2, 15, 16, 17, 62, 63, 64, 65, 66, 129, 130,
		math.MaxInt32 - 1, math.MaxInt32, math.MaxInt32 + 1, 1<<32 - 1, 1 << 32, 1<<32 + 1, math.MaxInt64 - 1, math.MaxInt64}
	var out []int
	for _, v := range vals {
		if int64(int(v)) == v {
			out = append(out, int(v))
		}
	}
	return out
}

func wordExps() (small, unallocatedOnly []uint) {
	for e := uint(0); e <= 12; e++ {
		small = append(small, e)
	}
	for _, e := range []uint{wordBits - 2, wordBits - 1, wordBits, wordBits + 1, wordBits + 2, 63, 64, 65, 127, 128, 200, 1<<31 - 1, 1 << 31, 1<<31 + 1, ^uint(0) - 1, ^uint(0)} {
		if wantMin(e, wordBits) == defaultMin {
			small = append(small, e)
		}
	}
	if uint64(^uint(0)) > 1<<32 {
		var big uint64 = 1 << 32
		small = append(small, uint(big-1), uint(big), uint(big+1))
	}
	for e := uint(13); e < wordBits-1; e++ {
		unallocatedOnly = append(unallocatedOnly, e)
	}
	return
}

// ---- leg: elemrep ------------------------------------------------------------------------------------------------------

func newRepDeng(c SCase) *deng {
	rnd := hxlib.NewRand(c.Seed)
	var e *deng
	switch rnd.Intn(4) {
	case 0:
		e = newDeng(true)
	case 1:
		e = newDeng(false)
	case 2:
		e = newDeng(false, rnd.Pick(1, 16, 17, 64))
	default:
		e = newDeng(false, rnd.Pick(0, 8, 40), rnd.Pick(0, 16, 32, 64))
	}
	e.wordBits = wordBits
	useKinds(&e.vbox, kindsOf(c.Seed))
	return e
}

func runElemrepDeque(c SCase) *deng {
	rnd := hxlib.NewRand(c.Seed + 1)
	e := newRepDeng(c)
	for i := 0; i < c.N && !e.dead; i++ {
		n := e.ref.len()
		switch x := rnd.Intn(100); {
		case x < 22:
			e.pb()
		case x < 40:
			e.pf()
		case x < 50:
			e.pop(true)
		case x < 60:
			e.pop(false)
		case x < 82:
			// Set: mostly a valid index; read the slot back at once
			i := rnd.Range(-1, n)
			if n > 0 && rnd.Chance(5, 6) {
				i = rnd.Intn(n)
			}
			e.set(i)
			e.at(i)
		case x < 88:
			e.at(rnd.Range(-1, n))
		case x < 92:
			e.rot(rnd.Range(-n-2, n+2))
		case x < 94:
			e.clear()
		case x < 96:
			e.smc(uint(rnd.Pick(0, 3, 4, 5, 6)))
		default:
			e.dump(true)
		}
		e.ends()
	}
	e.dump(true)
	return e
}

func runElemrepUQ(c SCase) *ueng {
	rnd := hxlib.NewRand(c.Seed + 1)
	e := &ueng{}
	switch c.Variant {
	case "new":
		e.q = queue.NewUnbounded()
	case "zero":
		e.q = new(queue.UnboundedQueue)
	default:
		e.q = (&queue.UnboundedQueue{}).Init()
	}
	useKinds(&e.vbox, kindsOf(c.Seed))
	for i := 0; i < c.N && !e.dead; i++ {
		switch x := rnd.Intn(100); {
		case x < 50:
			e.push()
		case x < 80:
			e.take("upop")
		case x < 97:
			e.take("ufront")
		default:
			e.init()
		}
		if rnd.Chance(1, 40) { // a burst over the 1/16/128 block boundaries
			for j := rnd.Pick(17, 130, 150); j > 0 && !e.dead; j-- {
				e.push()
			}
		}
	}
	for e.ref.len() > 0 && !e.dead {
		e.take("upop")
	}
	e.take("upop")
	e.take("ufront")
	return e
}

// runElemrepCQ: the concurrent queue used from one goroutine (its schedules are the business of the cqpar cases); same
// oracle as the unbounded queue, through Enqueue / Dequeue / Peek / Len.
func runElemrepCQ(c SCase) (key, what string) {
	rnd := hxlib.NewRand(c.Seed + 1)
	var q *queue.UnboundedConcurrentQueue
	if c.Variant == "zero" {
		q = &queue.UnboundedConcurrentQueue{}
	} else {
		q = queue.NewUnboundedConcurrentQueue()
	}
	var b vbox
	useKinds(&b, kindsOf(c.Seed))
	var ref []int
	next := 0
	for i := 0; i < c.N && key == ""; i++ {
		x := rnd.Intn(100)
		p := hxlib.Guard(func() {
			switch {
			case x < 50:
				next++
				q.Enqueue(b.valOf(next))
				ref = append(ref, next)
			case x < 80:
				got, ok := q.Dequeue()
				switch {
				case ok != (len(ref) > 0):
					key, what = "cq:dequeue:lost", fmt.Sprintf("call %d: Dequeue says ok=%v, %d elements are queued", i, ok, len(ref))
				case ok && !b.valIs(got, ref[0]):
					key, what = "cq:dequeue:order", fmt.Sprintf("call %d: Dequeue answered %s, the oldest queued element is %s", i, showVal(got), b.showStamp(ref[0]))
				}
				if len(ref) > 0 {
					ref = ref[1:]
				}
			default:
				got, ok := q.Peek()
				switch {
				case ok != (len(ref) > 0):
					key, what = "cq:peek:lost", fmt.Sprintf("call %d: Peek says ok=%v, %d elements are queued", i, ok, len(ref))
				case ok && !b.valIs(got, ref[0]):
					key, what = "cq:peek:order", fmt.Sprintf("call %d: Peek answered %s, the oldest queued element is %s", i, showVal(got), b.showStamp(ref[0]))
				}
			}
			if l := q.Len(); key == "" && l != len(ref) {
				key, what = "cq:len", fmt.Sprintf("call %d: Len()=%d, %d elements are queued", i, l, len(ref))
			}
		})
		if p != "" && key == "" {
			key, what = "cq:runtime-fault", fmt.Sprintf("call %d with %d elements queued died: %s", i, len(ref), p)
		}
	}
	return
}

// ---- leg: words ----------------------------------------------------------------------------------------------------------

func runWords(c SCase) *deng {
	rnd := hxlib.NewRand(c.Seed)
	e := newDeng(c.Variant == "zero")
	e.wordBits = wordBits
	if c.Seed&1 == 1 {
		useKinds(&e.vbox, []int{19, 0, 16})
	}
	for i := 0; i < c.N; i++ {
		if rnd.Bool() {
			e.pb()
		} else {
			e.pf()
		}
	}
	ws := wordInts()
	small, unalloc := wordExps()
	for _, w := range ws {
		e.at(w)
		e.set(w)
		e.at(w)
	}
	e.dump(true)
	for _, w := range ws {
		e.rot(w)
		e.ends()
		if w&3 == 0 {
			e.dump(true)
		}
	}
	e.dump(true)
	// SetMinCapacity: on the allocated deque (or the still unallocated zero value when N = 0)
	for _, x := range small {
		e.smc(x)
		if e.allocated && rnd.Chance(1, 3) && x <= 12 {
			e.pb()
			e.pop(true)
		}
	}
	e.smc(0)
	e.dump(true)
	if c.N == 0 && !e.allocated {
		for _, x := range unalloc {
			e.smc(x)
		}
		e.smc(uint(rnd.Pick(0, 4, 5, 6)))
		e.pb()
		e.pf()
		e.dump(true)
	}
	// drain through the shrink points with the last minimum in force
	for e.ref.len() > 0 && !e.dead {
		e.pop(rnd.Bool())
	}
	e.pop(true)
	e.pop(false)
	return e
}

// ---- leg: ctor -------------------------------------------------------------------------------------------------------------

var ctorCaps = []int{0, 1, 2, 15, 16, 17, 31, 32, 33, 63, 64, 65, 100, 1000, 4096, -1, math.MinInt, math.MinInt + 1}
var ctorMins = []int{0, 1, 15, 16, 17, 31, 32, 33, 63, 64, 65, 128, 1000, -1, math.MinInt}

// ctorBigMins: minimums that must never be allocated; used with capacity 0 and lowered before the first push.
func ctorBigMins() []int {
	var out []int
	for _, v := range []int64{1 << 20, math.MaxInt32 - 1, math.MaxInt32, math.MaxInt32 + 1, 1<<32 - 1, 1 << 32, 1<<32 + 1, 1 << 62} {
		if int64(int(v)) == v && v <= int64(math.MaxInt/2+1) {
			out = append(out, int(v))
		}
	}
	if wordBits == 32 {
		out = append(out, 1<<30)
	}
	return out
}

// runCtor: N = index of the constructor form; Min / Reps carry capacity and minimum.
func runCtor(c SCase) *deng {
	rnd := hxlib.NewRand(c.Seed)
	var e *deng
	switch c.Variant {
	case "zero":
		e = newDeng(true)
	case "new":
		e = &deng{min: defaultMin, d: new(queue.Deque)}
	case "none":
		e = newDeng(false)
	case "cap":
		e = newDeng(false, c.N)
	case "cap-min":
		e = newDeng(false, c.N, c.Min)
	case "cap-min-junk":
		e = newDeng(false, c.N, c.Min, 7, -3, 1<<20)
	case "big-min":
		e = newDeng(false, 0, c.Min)
	default:
		e = &deng{}
		e.fail("harness", "unknown constructor form %q", c.Variant)
		return e
	}
	e.wordBits = wordBits
	if e.dead {
		return e
	}
	if c.Variant == "big-min" {
		// nothing may be allocated yet; lower the minimum before anything is pushed
		if cp := e.d.Cap(); cp != 0 {
			e.fail("deque:new:allocated", "NewDeque(0,%d).Cap()=%d: a capacity of 0 was asked for", c.Min, cp)
			return e
		}
		e.ends()
		e.at(0)
		e.rot(3)
		e.clear()
		e.smc(uint(rnd.Pick(0, 4, 5, 7)))
	}
	e.ends()
	// fill past the capacity from both ends, then drain to empty from either end
	target := e.d.Cap() + rnd.Pick(1, 2, 17)
	if target < 40 {
		target = 40
	}
	for e.ref.len() < target && !e.dead {
		if rnd.Chance(2, 3) {
			e.pb()
		} else {
			e.pf()
		}
		if rnd.Chance(1, 9) {
			e.pop(rnd.Bool())
		}
		if rnd.Chance(1, 30) {
			e.rot(rnd.Range(-5, 5))
		}
	}
	e.dump(true)
	for e.ref.len() > 0 && !e.dead {
		e.pop(rnd.Chance(2, 3))
		if rnd.Chance(1, 40) {
			e.dump(false)
		}
	}
	e.pop(true)
	e.ends()
	e.pb()
	e.dump(true)
	return e
}

// ---- entry points ----------------------------------------------------------------------------------------------------------

// legCase runs one case of these legs under the hang deadline; true = a failure was recorded.
func legCase(r *hxlib.Run, c SCase) bool {
	r.Case()
	r.Count("leg:" + c.Leg)
	var rep func() bool
	run := func() {
		switch c.Leg {
		case "elemrep-deque":
			e := runElemrepDeque(c)
			if e.maxLen >= 3 {
				r.NonTrivial(fmt.Sprintf("%s/%d", c.Leg, c.Seed))
			}
			rep = func() bool { return e.reportKinds(r, c) }
		case "elemrep-uq":
			e := runElemrepUQ(c)
			rep = func() bool {
				if len(e.fails) > 0 {
					c.FailAt = e.n
					r.Fail(e.fails[0].key, fmt.Sprintf("leg %s/%s (n=%d seed=%d, element kinds %s): %s", c.Leg, c.Variant, c.N, c.Seed, kindList(kindsOf(c.Seed)), e.fails[0].what), c)
					return true
				}
				return false
			}
		case "elemrep-cq":
			key, what := runElemrepCQ(c)
			rep = func() bool {
				if key != "" {
					r.Fail(key, fmt.Sprintf("leg %s/%s (n=%d seed=%d, element kinds %s): %s", c.Leg, c.Variant, c.N, c.Seed, kindList(kindsOf(c.Seed)), what), c)
					return true
				}
				return false
			}
		case "words":
			e := runWords(c)
			rep = func() bool { return e.report(r, c) }
		case "ctor":
			e := runCtor(c)
			rep = func() bool { return e.report(r, c) }
		case "bigpiece-rot", "bigpiece-smc": // legs4.go
			e := runLeg4(c)
			if e.maxLen >= 3 {
				r.NonTrivial(fmt.Sprintf("%s/%s/%d/%d/%d", c.Leg, c.Variant, c.N, c.Min, c.Seed))
			}
			rep = func() bool { return e.report(r, c) }
		default:
			rep = func() bool { r.Fail("harness", "unknown leg "+c.Leg, c); return true }
		}
	}
	if !finishes(run) && !finishes(run) {
		r.Fail(c.Leg+":hang", fmt.Sprintf("leg %s/%s (n=%d min=%d seed=%d): a call never returns (twice; deadline %v each)", c.Leg, c.Variant, c.N, c.Min, c.Seed, hangDeadline), c)
		r.Finish()
		os.Exit(0)
	}
	return rep()
}

func (e *deng) reportKinds(r *hxlib.Run, c SCase) bool {
	if len(e.fails) == 0 {
		return false
	}
	c.FailAt = e.n
	f := e.fails[0]
	r.Fail(f.key, fmt.Sprintf("leg %s (n=%d seed=%d, element kinds %s): %s", c.Leg, c.N, c.Seed, kindList(kindsOf(c.Seed)), f.what), c)
	return true
}

func isLeg3(leg string) bool {
	switch leg {
	case "elemrep-deque", "elemrep-uq", "elemrep-cq", "words", "ctor":
		return true
	}
	return false
}

// typeLegs runs in every tier. Cost: quick ≈ 1 s.
func typeLegs(r *hxlib.Run) {
	R := r.R
	t0 := time.Now()
	n := 0
	do := func(c SCase) bool {
		c.Kind = "search"
		n++
		return legCase(r, c)
	}
	for i := 0; i < r.Scale(400, 12000); i++ {
		if do(SCase{Leg: "elemrep-deque", N: R.Pick(20, 60, 150), Seed: R.U64()}) {
			return
		}
	}
	for i := 0; i < r.Scale(90, 3000); i++ {
		if do(SCase{Leg: "elemrep-uq", Variant: []string{"new", "zero", "literal-init"}[i%3], N: R.Pick(30, 200, 600), Seed: R.U64()}) {
			return
		}
		if do(SCase{Leg: "elemrep-cq", Variant: []string{"new", "zero"}[i%2], N: R.Pick(30, 200, 600), Seed: R.U64()}) {
			return
		}
	}
	r.Note("leg elemrep: %d histories on deque / unbounded queue / concurrent queue (sequential) with elements of 1..4 of %d dynamic kinds per case (uncomparable, signed zeros, NaN, nils, fresh pointers …), read back by identity, %.1fs", n, nKinds, time.Since(t0).Seconds())
	t0, n = time.Now(), 0
	for _, size := range []int{0, 1, 2, 5, 16, 17, 66, 130} {
		for _, v := range []string{"zero", "new"} {
			for rep := 0; rep < r.Scale(1, 6); rep++ {
				if do(SCase{Leg: "words", Variant: v, N: size, Seed: R.U64()}) {
					return
				}
			}
		}
	}
	small, unalloc := wordExps()
	r.Note("leg words: %d histories: At/Set/Rotate with %d machine-word ints on deques of 0..130 elements, SetMinCapacity with %d exponents on allocated deques and %d more on unallocated ones (word size %d), %.1fs", n, len(wordInts()), len(small), len(unalloc), wordBits, time.Since(t0).Seconds())
	t0, n = time.Now(), 0
	for _, v := range []string{"zero", "new", "none"} {
		if do(SCase{Leg: "ctor", Variant: v, Seed: R.U64()}) {
			return
		}
	}
	for _, cp := range ctorCaps {
		if do(SCase{Leg: "ctor", Variant: "cap", N: cp, Seed: R.U64()}) {
			return
		}
		for _, mn := range ctorMins {
			v := "cap-min"
			if (cp+mn)%5 == 0 {
				v = "cap-min-junk"
			}
			if do(SCase{Leg: "ctor", Variant: v, N: cp, Min: mn, Seed: R.U64()}) {
				return
			}
		}
	}
	for _, mn := range ctorBigMins() {
		if do(SCase{Leg: "ctor", Variant: "big-min", Min: mn, Seed: R.U64()}) {
			return
		}
	}
	r.Note("leg ctor: %d constructor forms (zero value, new, NewDeque with %d capacities x %d minimums, extra arguments, %d minimums that must not be allocated), each filled past its capacity and drained to empty with the Len/Cap rules after every call, %.1fs", n, len(ctorCaps), len(ctorMins), len(ctorBigMins()), time.Since(t0).Seconds())
}
