package main

// tr.go: X for the translator. Gen/C12.lean `Tr` (int = 64 bits) / `Tr32` (int = 32 bits) hold the Lean translation
// of the deque's index arithmetic (prev, next, the slot At reads and Set writes, the condition of shrinkIfExcess).
// Here the REAL functions are run through the hook collections/queue/verif_tr.go on boundary and random arguments —
// every int for the index of prev/next, buffers of up to 2^20 slots, also sizes that are not powers of two — and the
// model driver evaluates the generated definitions on the same arguments. This checks the translator's semantics
// (word size, wrap-around, signed comparison) against Go, not the property.

import (
	"fmt"
	"strconv"

	"verifharness/hxlib"

	"qchen.fun/fatchoy/collections/queue"
)

func trLeg(r *hxlib.Run) {
	R := hxlib.NewRand(r.Seed ^ 0x7A12) // a stream of its own: the cases of the other sections stay what they were
	verb := "tr"
	if strconv.IntSize == 32 {
		verb = "tr32"
	}
	const maxInt = int(^uint(0) >> 1)
	minInt := -maxInt - 1
	sizes := []int{1, 2, 3, 4, 15, 16, 17, 32, 64, 100, 1024, 1 << 16, 1 << 20}
	idx := []int{0, 1, 2, 14, 15, 16, 17, 31, 1023, 1 << 20, maxInt - 1, maxInt, -1, -2, -16, -17, minInt, minInt + 1}
	prevNext := func(n, i int) {
		r.Op(fmt.Sprintf("%s Deque_prev %d %d", verb, n, i), fmt.Sprint(queue.VerifPrev(n, i)))
		r.Op(fmt.Sprintf("%s Deque_next %d %d", verb, n, i), fmt.Sprint(queue.VerifNext(n, i)))
	}
	pos := func(head, n, i int) {
		if i < 0 || i+1 < 0 {
			return // At / Set refuse a negative index; count = i+1 must not wrap
		}
		r.Op(fmt.Sprintf("%s At_pos %d %d %d", verb, head, n, i), fmt.Sprint(queue.VerifAtPos(head, n, i)))
		r.Op(fmt.Sprintf("%s Set_pos %d %d %d", verb, head, n, i), fmt.Sprint(queue.VerifSetPos(head, n, i)))
	}
	shrink := func(count, minCap, n int) {
		if count < 0 || count > n {
			return // the hook slices buf[:count]
		}
		r.Op(fmt.Sprintf("%s shrink_cond %d %d %d", verb, count, minCap, n), fmt.Sprint(queue.VerifShrinks(count, minCap, n)))
	}
	for _, n := range sizes {
		for _, i := range idx {
			prevNext(n, i)
			pos(i, n, 0)
			pos(0, n, i)
			pos(n-1, n, i)
			pos(maxInt, n, 1)  // head + i wraps
			pos(i, n, maxInt-1) // a huge index (count = maxInt) on a small buffer
		}
		for _, mc := range []int{0, 1, 16, n - 1, n, n + 1, -1, minInt, maxInt} {
			for _, c := range []int{0, 1, n / 4, n/4 + 1, n / 2, n} {
				shrink(c, mc, n)
			}
		}
	}
	for k := 0; k < r.Scale(1500, 30000); k++ {
		n := 1 + R.Intn(1<<uint(1+R.Intn(12)))
		if R.Intn(2) == 0 {
			n = 1 << uint(R.Intn(13))
		}
		i := int(R.U64())
		if R.Intn(2) == 0 {
			i = R.Intn(2*n) - n/2
		}
		prevNext(n, i)
		pos(R.Intn(n), n, R.Intn(2*n))
		pos(int(R.U64()), n, int(R.U64()>>1)>>uint(R.Intn(strconv.IntSize-1)))
		shrink(R.Pick(n/4, R.Intn(n+1)), R.Pick(0, 16, n, R.Intn(2*n), -1), n)
	}
	r.Count("translated-function-evaluations")
}
