// search.go: failing-input search legs of hx_c12 (active only with -search).
//
// The legs that run in the NORMAL tiers (element types, machine-word arguments, constructor forms) are in legs3.go; they
// share this file's engines (deng, ueng) and oracle.
// Fourth wave, also NORMAL tiers: large one-piece rings (capacity 4096..65536, >= 1024 elements, every layout) under long
// rotations and SetMinCapacity are in legs4.go (legs "bigpiece-rot", "bigpiece-smc", engine deng).
//
// The normal tiers keep deques below ~100 elements and capacities below 2048. The legs:
//
//	deque-scale   NewDeque(C, m) for C = 2^16, 2^17, 2^18 and m = default, C/4, C/2, C, 2C, and a zero-value deque grown
//	              through every doubling to 2^18+1: filled past C from both ends, drained through every cap/2, cap/4,
//	              cap/8 point (+-1) from both ends, with rotations (also of the exactly full buffer), At/Set beyond
//	              index 2^16, SetMinCapacity on the large buffer, Clear and reuse; Len/Cap rules after every call,
//	              the whole content read back at the marks                                               (class a, c)
//	deque-period  a small deque observed in full, then exactly 2^16, 2^16, 2^17, 3*2^18, 2^20 identical units (push+pop
//	              at either end, stack push+pop, rotate by one on a part-filled and on a full buffer, Clear+refill)
//	              with no read in between, observed again                                                (class b)
//	uq-scale      the unbounded queue with 2^16+1 .. 2^18+1 elements queued at once, drained, Init in the middle of a
//	              block and reuse; uq-period: exactly 2^16 .. 2^20 push+pop pairs at lengths 1, 16, 17, 144, 145   (class a, b)
//	cq-backlog    the concurrent queue with producers finishing 2^17+ elements before any consumer starts     (class d, a)
//	cq-stall      a lock holder that stays inside the critical section for 15-80 ms while producers keep calling
//	              Enqueue (the harness takes the queue's own mutex, found by type through reflection, as a stalled
//	              Dequeue would hold it), then consumers drain: per-producer order, nothing lost or duplicated  (class d)
//
// Oracles: a plain list (deque, unbounded queue); multiset + each producer's order (concurrent queue).
package main

import (
	"fmt"
	"reflect"
	"sync"
	"sync/atomic"
	"time"
	"unsafe"

	"verifharness/hxlib"

	"qchen.fun/fatchoy/collections/queue"
)

// SCase is the replayable form of a search case (Case.Kind = "search").
type SCase struct {
	Kind    string `json:"kind"` // always "search"
	Leg     string `json:"leg"`
	Variant string `json:"variant,omitempty"`
	N       int    `json:"n,omitempty"`
	Min     int    `json:"min,omitempty"`
	P       int    `json:"producers,omitempty"`
	C       int    `json:"consumers,omitempty"`
	StallMs int    `json:"stall_ms,omitempty"`
	Reps    int    `json:"repetitions,omitempty"`
	Seed    uint64 `json:"seed,omitempty"`
	FailAt  int    `json:"failed_at_call,omitempty"`
}

type sfail struct{ key, what string }

// ---- plain list with room at both ends (the reference) -------------------------------------------------------

type plist struct {
	a      []int
	lo, hi int // elements are a[lo:hi]
}

func (p *plist) len() int { return p.hi - p.lo }
func (p *plist) room() {
	if p.lo > 0 && p.hi < len(p.a) {
		return
	}
	n := p.len()
	b := make([]int, 3*n+64)
	lo := n + 32
	copy(b[lo:], p.a[p.lo:p.hi])
	p.a, p.lo, p.hi = b, lo, lo+n
}
func (p *plist) pushBack(v int)  { p.room(); p.a[p.hi] = v; p.hi++ }
func (p *plist) pushFront(v int) { p.room(); p.lo--; p.a[p.lo] = v }
func (p *plist) popFront() int   { v := p.a[p.lo]; p.lo++; return v }
func (p *plist) popBack() int    { p.hi--; return p.a[p.hi] }
func (p *plist) at(i int) int    { return p.a[p.lo+i] }
func (p *plist) set(i, v int)    { p.a[p.lo+i] = v }
func (p *plist) clear()          { p.lo, p.hi = len(p.a)/2, len(p.a)/2 }
func (p *plist) rotate(k int) {
	n := p.len()
	if n <= 1 {
		return
	}
	s := ((k % n) + n) % n
	if s == 0 {
		return
	}
	cur := append([]int{}, p.a[p.lo:p.hi]...)
	copy(p.a[p.lo:], cur[s:])
	copy(p.a[p.lo+n-s:], cur[:s])
}

// ---- deque engine ---------------------------------------------------------------------------------------------

type deng struct {
	d         *queue.Deque
	ref       plist
	min       int
	allocated bool
	n         int
	next      int
	fails     []sfail
	dead      bool
	maxLen    int
	maxCap    int
	dumps     int
	vbox          // legs3.go: what an element stamp IS (nil vals = the int itself)
	wordBits  int // legs3.go: int width the minimum-capacity rule is computed for (0 = the search legs' 64-bit rule)
}

func (e *deng) fail(key, format string, a ...interface{}) {
	if len(e.fails) < 4 {
		e.fails = append(e.fails, sfail{key, fmt.Sprintf("call %d: ", e.n) + fmt.Sprintf(format, a...)})
	}
	e.dead = true
}

func newDeng(zero bool, size ...int) *deng {
	e := &deng{min: defaultMin}
	if zero {
		e.d = &queue.Deque{}
		return e
	}
	if p := hxlib.Guard(func() { e.d = queue.NewDeque(size...) }); p != "" {
		e.fail("deque:runtime-fault:dnew", "NewDeque(%v) died: %s", size, p)
		return e
	}
	if len(size) >= 2 && size[1] > defaultMin {
		e.min = pow2ceil(defaultMin, size[1])
	}
	if len(size) >= 1 && size[0] != 0 {
		e.allocated = true
		if c := e.d.Cap(); c < size[0] {
			e.fail("deque:new:cap<requested", "NewDeque(%v).Cap()=%d is smaller than the requested capacity", size, c)
		}
	}
	e.rules("dnew")
	return e
}

// rules: the Len/Cap clauses of the property, after every call.
func (e *deng) rules(op string) {
	if e.dead {
		return
	}
	n := e.ref.len()
	if g := e.d.Len(); g != n {
		e.fail("deque:len:"+op, "after %s Len()=%d, a plain list holds %d", op, g, n)
		return
	}
	c := e.d.Cap()
	if c != 0 || e.allocated {
		if !isPow2(c) {
			e.fail("deque:cap:pow2:"+op, "after %s Cap()=%d is not a power of two (%d elements)", op, c, n)
			return
		}
		if c < e.min {
			e.fail("deque:cap<min:"+op, "after %s with %d elements Cap()=%d is below the configured minimum %d", op, n, c, e.min)
			return
		}
	}
	if c < n {
		e.fail("deque:cap<len:"+op, "after %s Cap()=%d but %d elements are stored", op, c, n)
	}
	if n > e.maxLen {
		e.maxLen = n
	}
	if c > e.maxCap {
		e.maxCap = c
	}
}

func (e *deng) call(op string, f func()) bool {
	if e.dead {
		return false
	}
	e.n++
	if p := hxlib.Guard(f); p != "" {
		e.fail("deque:runtime-fault:"+op, "%s on a list of %d elements died: %s", op, e.ref.len(), p)
		return false
	}
	return true
}

func (e *deng) pb() {
	e.next++
	v := e.next
	if e.call("pb", func() { e.d.PushBack(e.valOf(v)) }) {
		e.ref.pushBack(v)
		e.allocated = true
		e.rules("pb")
	}
}

func (e *deng) pf() {
	e.next++
	v := e.next
	if e.call("pf", func() { e.d.PushFront(e.valOf(v)) }) {
		e.ref.pushFront(v)
		e.allocated = true
		e.rules("pf")
	}
}

func (e *deng) pop(front bool) {
	op := "popb"
	if front {
		op = "popf"
	}
	if e.ref.len() == 0 {
		e.refused(op, func() {
			if front {
				e.d.PopFront()
			} else {
				e.d.PopBack()
			}
		})
		return
	}
	var got interface{}
	if !e.call(op, func() {
		if front {
			got = e.d.PopFront()
		} else {
			got = e.d.PopBack()
		}
	}) {
		return
	}
	var want int
	if front {
		want = e.ref.popFront()
	} else {
		want = e.ref.popBack()
	}
	if !e.valIs(got, want) {
		e.fail("deque:value:"+op, "%s answered %s, a plain list answers %s (%d elements left)", op, showVal(got), e.showStamp(want), e.ref.len())
		return
	}
	e.rules(op)
}

// refused: the call must panic with the deque's own message and change nothing.
func (e *deng) refused(op string, f func()) {
	if e.dead {
		return
	}
	e.n++
	p := hxlib.Guard(f)
	switch {
	case p == "":
		e.fail("deque:no-panic:"+op, "%s on a list of %d elements was answered instead of refused by panic", op, e.ref.len())
	case len(p) < 7 || p[:7] != "deque: ":
		e.fail("deque:runtime-fault:"+op, "%s on a list of %d elements died with a run-time error instead of the deque's panic: %s", op, e.ref.len(), p)
	default:
		e.rules(op)
	}
}

func (e *deng) at(i int) {
	n := e.ref.len()
	if i < 0 || i >= n {
		e.refused("at", func() { e.d.At(i) })
		return
	}
	var got interface{}
	if e.call("at", func() { got = e.d.At(i) }) && !e.valIs(got, e.ref.at(i)) {
		e.fail("deque:value:at", "At(%d) answered %s, a plain list of %d answers %s", i, showVal(got), n, e.showStamp(e.ref.at(i)))
	}
}

func (e *deng) set(i int) {
	n := e.ref.len()
	e.next++
	v := e.next
	if i < 0 || i >= n {
		e.refused("set", func() { e.d.Set(i, e.valOf(v)) })
		return
	}
	if e.call("set", func() { e.d.Set(i, e.valOf(v)) }) {
		e.ref.set(i, v)
		e.rules("set")
	}
}

func (e *deng) ends() {
	n := e.ref.len()
	if n == 0 {
		e.refused("front", func() { e.d.Front() })
		e.refused("back", func() { e.d.Back() })
		return
	}
	var f, b interface{}
	if e.call("front", func() { f = e.d.Front(); b = e.d.Back() }) {
		if !e.valIs(f, e.ref.at(0)) {
			e.fail("deque:value:front", "Front() answered %s, a plain list of %d answers %s", showVal(f), n, e.showStamp(e.ref.at(0)))
		} else if !e.valIs(b, e.ref.at(n-1)) {
			e.fail("deque:value:back", "Back() answered %s, a plain list of %d answers %s", showVal(b), n, e.showStamp(e.ref.at(n-1)))
		}
	}
}

func (e *deng) rot(k int) {
	if e.call("rot", func() { e.d.Rotate(k) }) {
		e.ref.rotate(k)
		e.rules("rot")
	}
}

func (e *deng) clear() {
	if e.call("clear", func() { e.d.Clear() }) {
		e.ref.clear()
		e.rules("clear")
	}
}

func (e *deng) smc(exp uint) {
	if e.call("smc", func() { e.d.SetMinCapacity(exp) }) {
		e.min = defaultMin
		if e.wordBits != 0 {
			e.min = wantMin(exp, e.wordBits)
		} else if exp < 63 && 1<<exp > defaultMin {
			e.min = 1 << exp
		}
		e.rules("smc")
	}
}

// dump reads everything back (every element when the list is short or `all`, else 4096 spread indices and both ends).
func (e *deng) dump(all bool) {
	if e.dead {
		return
	}
	e.dumps++
	n := e.ref.len()
	e.ends()
	step := 1
	if !all && n > 8192 {
		step = n / 4096
	}
	e.call("dump", func() {
		for i := 0; i < n; i += step {
			if got := e.d.At(i); !e.valIs(got, e.ref.at(i)) {
				e.fail("deque:contents", "the deque holds %s at index %d of %d, a plain list holds %s", showVal(got), i, n, e.showStamp(e.ref.at(i)))
				return
			}
		}
		for _, i := range []int{1<<16 - 1, 1 << 16, 1<<16 + 1, 1<<17 - 1, 1 << 17, 1<<17 + 1, n - 2, n - 1} {
			if i >= 0 && i < n {
				if got := e.d.At(i); !e.valIs(got, e.ref.at(i)) {
					e.fail("deque:contents", "the deque holds %s at index %d of %d, a plain list holds %s", showVal(got), i, n, e.showStamp(e.ref.at(i)))
					return
				}
			}
		}
	})
	e.at(n)
	e.at(-1)
}

func (e *deng) report(r *hxlib.Run, c SCase) bool {
	if len(e.fails) == 0 {
		return false
	}
	c.FailAt = e.n
	f := e.fails[0]
	r.Fail(f.key, fmt.Sprintf("leg %s/%s (n=%d min=%d seed=%d): %s", c.Leg, c.Variant, c.N, c.Min, c.Seed, f.what), c)
	return true
}

// near: n is within 1 of cap/2^k for some k (the places where a ring buffer grows or shrinks)
func nearFraction(n, c int) bool {
	for f := c; f >= 4; f >>= 1 {
		if n >= f-1 && n <= f+1 {
			return true
		}
	}
	return false
}

// ---- leg: deque-scale -------------------------------------------------------------------------------------------

func runDequeScale(c SCase) *deng {
	rnd := hxlib.NewRand(c.Seed)
	var e *deng
	C := c.N
	switch c.Variant {
	case "zero":
		e = newDeng(true)
	default:
		if c.Min > 0 {
			e = newDeng(false, C, c.Min)
		} else {
			e = newDeng(false, C)
		}
	}
	front := func() bool { return rnd.Chance(1, 3) }
	// fill past C (from both ends: the head walks backwards through the ring), observing around every power of two
	for e.ref.len() < C+C/2+3 && !e.dead {
		if front() {
			e.pf()
		} else {
			e.pb()
		}
		if n := e.ref.len(); nearFraction(n, 2*C) && n >= 8 {
			if n >= 1<<15 {
				e.dump(false)
			} else {
				e.ends()
			}
		}
	}
	e.dump(true)
	// indexed access beyond 2^16, rotation of a large part-filled buffer
	for i := 0; i < 200 && !e.dead; i++ {
		j := rnd.Intn(e.ref.len())
		e.set(j)
		e.at(j)
	}
	e.rot(1)
	e.rot(-3)
	e.rot(e.ref.len()/2 + 1)
	e.dump(false)
	// to exactly full (cap = 2C): rotation of a full buffer only moves the indexes
	for e.ref.len() < e.d.Cap() && !e.dead {
		e.pb()
	}
	e.rot(12345)
	e.rot(-777)
	e.dump(false)
	e.pf() // grows once more
	e.dump(false)
	// a larger minimum set late (only in one variant), then the long way down through every shrink point
	if c.Variant == "smc-late" {
		exp := uint(0)
		for 1<<exp < C {
			exp++
		}
		e.smc(exp - 1)
	}
	for e.ref.len() > 0 && !e.dead {
		e.pop(rnd.Chance(2, 3))
		n := e.ref.len()
		if nearFraction(n, e.maxCap) {
			if n >= 1<<13 {
				e.dump(false)
			} else {
				e.ends()
				e.at(n / 2)
			}
		}
		// hover at a shrink point now and then: push one, pop two
		if n > 16 && nearFraction(n, e.maxCap) && rnd.Chance(1, 2) {
			e.pb()
			e.pop(true)
		}
	}
	e.dump(true)
	e.pop(true)
	e.pop(false)
	// reuse: up to a quarter of C again, Clear, and a little more
	for e.ref.len() < C/4+2 && !e.dead {
		e.pb()
	}
	e.dump(false)
	e.clear()
	e.dump(true)
	for i := 0; i < 40 && !e.dead; i++ {
		e.pf()
	}
	e.dump(true)
	return e
}

// ---- leg: deque-period ------------------------------------------------------------------------------------------

var dequePeriodVariants = []string{"pb+popf", "pf+popb", "pb+popb", "rot1", "rot1-full", "rot-1", "set", "clear+refill"}

func runDequePeriod(c SCase) *deng {
	var e *deng
	if c.Min == 0 {
		e = newDeng(true)
	} else {
		e = newDeng(false, 16, c.Min)
	}
	pop := c.P // population
	for i := 0; i < pop; i++ {
		e.pb()
	}
	if c.Variant == "rot1-full" {
		for e.ref.len() < e.d.Cap() {
			e.pb()
		}
	}
	e.dump(true)
	unit := func() {
		switch c.Variant {
		case "pb+popf":
			e.pb()
			e.pop(true)
		case "pf+popb":
			e.pf()
			e.pop(false)
		case "pb+popb":
			e.pb()
			e.pop(false)
			e.set(0) // so that the content differs at the next observation
		case "rot1", "rot1-full":
			e.rot(1)
		case "rot-1":
			e.rot(-1)
		case "set":
			e.set(e.n % e.ref.len())
		case "clear+refill":
			e.clear()
			for i := 0; i < 3; i++ {
				e.pb()
			}
		}
	}
	done := 0
	for _, at := range []int{1 << 16, 1 << 17, 1 << 18, 1 << 20, 1 << 21} {
		if at > c.N || e.dead {
			break
		}
		for ; done < at && !e.dead; done++ {
			unit()
		}
		if (c.Variant == "rot1" || c.Variant == "rot1-full" || c.Variant == "rot-1") && at%e.ref.len() == 0 {
			e.rot(1) // a whole number of turns brings the same list back: one step more
		}
		e.dump(true)
	}
	return e
}

// ---- unbounded queue ------------------------------------------------------------------------------------------------

type ueng struct {
	q     *queue.UnboundedQueue
	ref   plist
	n     int
	next  int
	fails []sfail
	dead  bool
	maxN  int
	vbox  // legs3.go
}

func (e *ueng) fail(key, format string, a ...interface{}) {
	if len(e.fails) < 4 {
		e.fails = append(e.fails, sfail{key, fmt.Sprintf("call %d: ", e.n) + fmt.Sprintf(format, a...)})
	}
	e.dead = true
}

func (e *ueng) call(op string, f func()) bool {
	if e.dead {
		return false
	}
	e.n++
	if p := hxlib.Guard(f); p != "" {
		e.fail("uq:runtime-fault:"+op, "%s with %d elements queued died: %s", op, e.ref.len(), p)
		return false
	}
	return true
}

func (e *ueng) lenOK(op string) {
	if e.dead {
		return
	}
	if l := e.q.Len(); l != e.ref.len() {
		e.fail("uq:len:"+op, "after %s Len()=%d, %d elements are queued", op, l, e.ref.len())
	}
	if e.ref.len() > e.maxN {
		e.maxN = e.ref.len()
	}
}

func (e *ueng) push() {
	e.next++
	v := e.next
	if e.call("upush", func() { e.q.Push(e.valOf(v)) }) {
		e.ref.pushBack(v)
		e.lenOK("upush")
	}
}

func (e *ueng) take(op string) {
	var got interface{}
	var ok bool
	if !e.call(op, func() {
		if op == "upop" {
			got, ok = e.q.Pop()
		} else {
			got, ok = e.q.Front()
		}
	}) {
		return
	}
	if e.ref.len() == 0 {
		if ok {
			e.fail("uq:"+op+":value-from-empty", "%s on an empty queue answered %v", op, got)
		}
		return
	}
	want := e.ref.at(0)
	if !ok {
		e.fail("uq:"+op+":lost", "%s says empty, %d elements are queued (next %d)", op, e.ref.len(), want)
		return
	}
	if !e.valIs(got, want) {
		e.fail("uq:"+op+":order", "%s answered %s, the oldest queued element is %s (%d queued)", op, showVal(got), e.showStamp(want), e.ref.len())
		return
	}
	if op == "upop" {
		e.ref.popFront()
		e.lenOK(op)
	}
}

func (e *ueng) init() {
	if e.call("uinit", func() { e.q.Init() }) {
		e.ref.clear()
		e.lenOK("uinit")
	}
}

func (e *ueng) report(r *hxlib.Run, c SCase) bool {
	if len(e.fails) == 0 {
		return false
	}
	c.FailAt = e.n
	f := e.fails[0]
	r.Fail(f.key, fmt.Sprintf("leg %s/%s (n=%d seed=%d): %s", c.Leg, c.Variant, c.N, c.Seed, f.what), c)
	return true
}

func runUQScale(c SCase) *ueng {
	rnd := hxlib.NewRand(c.Seed)
	e := &ueng{q: queue.NewUnbounded()}
	if c.Variant == "zero-value" {
		e.q = &queue.UnboundedQueue{}
	}
	for round := 0; round < 2 && !e.dead; round++ {
		for e.ref.len() < c.N && !e.dead {
			e.push()
			if rnd.Chance(1, 5) {
				e.take("upop")
			}
			if rnd.Chance(1, 50) {
				e.take("ufront")
			}
		}
		e.take("ufront")
		stop := 0
		if round == 0 {
			stop = rnd.Range(1, 200) // Init with a partly consumed head block and a backlog behind it
		}
		for e.ref.len() > stop && !e.dead {
			e.take("upop")
			if rnd.Chance(1, 64) {
				e.take("ufront")
			}
		}
		if round == 0 {
			e.init()
			e.take("upop")
			e.take("ufront")
		}
	}
	e.take("upop")
	for i := 0; i < 300 && !e.dead; i++ {
		e.push()
	}
	for e.ref.len() > 0 && !e.dead {
		e.take("upop")
	}
	return e
}

func runUQPeriod(c SCase) *ueng {
	e := &ueng{q: queue.NewUnbounded()}
	for i := 0; i < c.P; i++ {
		e.push()
	}
	observe := func() {
		e.take("ufront")
		// drain and refill to the same length: every element is read back in order
		n := e.ref.len()
		for i := 0; i < n; i++ {
			e.take("upop")
		}
		e.take("upop")
		for i := 0; i < n; i++ {
			e.push()
		}
	}
	observe()
	done := 0
	for _, at := range []int{1 << 16, 1 << 17, 1 << 18, 1 << 20, 1 << 21} {
		if at > c.N || e.dead {
			break
		}
		for ; done < at && !e.dead; done++ {
			switch c.Variant {
			case "init+push":
				e.init()
				for i := 0; i < c.P; i++ {
					e.push()
				}
			default:
				e.push()
				e.take("upop")
			}
		}
		observe()
	}
	return e
}

// ---- concurrent queue: backlog and stalled lock holder -----------------------------------------------------------------

// guardOf finds the queue's own mutex by type (the first sync.RWMutex or sync.Mutex field of the struct).
func guardOf(q *queue.UnboundedConcurrentQueue) (lock, unlock func(), name string) {
	t := reflect.TypeOf(q).Elem()
	for i := 0; i < t.NumField(); i++ {
		f := t.Field(i)
		p := unsafe.Pointer(uintptr(unsafe.Pointer(q)) + f.Offset)
		switch f.Type {
		case reflect.TypeOf(sync.RWMutex{}):
			m := (*sync.RWMutex)(p)
			return m.Lock, m.Unlock, f.Name
		case reflect.TypeOf(sync.Mutex{}):
			m := (*sync.Mutex)(p)
			return m.Lock, m.Unlock, f.Name
		}
	}
	return nil, nil, ""
}

// runCQStall: P producers enqueue (p, 1), (p, 2), ... while the queue's mutex is held for StallMs milliseconds
// (Reps times, with pauses), C consumers dequeue concurrently (C = 0: the queue is drained afterwards); then the
// per-producer order and the multiset are checked.
func runCQStall(c SCase) (key, what string) {
	q := queue.NewUnboundedConcurrentQueue()
	lock, unlock, _ := guardOf(q)
	if lock == nil {
		return "", ""
	}
	var stop int32
	var wgP, wgC sync.WaitGroup
	sent := make([]int, c.P)
	var crash atomic.Value
	for p := 0; p < c.P; p++ {
		wgP.Add(1)
		go func(p int) {
			defer wgP.Done()
			defer func() {
				if v := recover(); v != nil {
					crash.Store(fmt.Sprint("Enqueue: ", v))
				}
			}()
			s := 0
			for atomic.LoadInt32(&stop) == 0 && s < 2000000 {
				s++
				q.Enqueue(p*10000000 + s)
				sent[p] = s
				if s%8 == 0 {
					time.Sleep(50 * time.Microsecond) // a steady caller, not a flood
				}
			}
		}(p)
	}
	got := make([][]int, c.C+1)
	var producersDone int32
	for k := 0; k < c.C; k++ {
		wgC.Add(1)
		go func(k int) {
			defer wgC.Done()
			defer func() {
				if v := recover(); v != nil {
					crash.Store(fmt.Sprint("Dequeue: ", v))
				}
			}()
			for {
				done := atomic.LoadInt32(&producersDone) == 1
				v, ok := q.Dequeue()
				if ok {
					n, _ := v.(int)
					got[k] = append(got[k], n)
					continue
				}
				if done {
					return
				}
				time.Sleep(20 * time.Microsecond)
			}
		}(k)
	}
	reps := c.Reps
	if reps <= 0 {
		reps = 1
	}
	time.Sleep(2 * time.Millisecond)
	for i := 0; i < reps; i++ {
		lock() // the stalled holder of the lock
		time.Sleep(time.Duration(c.StallMs) * time.Millisecond)
		unlock()
		time.Sleep(time.Duration(3+i%4) * time.Millisecond)
	}
	atomic.StoreInt32(&stop, 1)
	wgP.Wait()
	atomic.StoreInt32(&producersDone, 1)
	wgC.Wait()
	for { // what is left, by one sequential consumer
		v, ok := q.Dequeue()
		if !ok {
			break
		}
		n, _ := v.(int)
		got[c.C] = append(got[c.C], n)
	}
	if v := crash.Load(); v != nil {
		return "cqpar:runtime-fault", fmt.Sprintf("a goroutine died in %v", v)
	}
	seen := map[int]int{}
	total := 0
	for k, l := range got {
		last := map[int]int{}
		for _, n := range l {
			p, s := n/10000000, n%10000000
			seen[n]++
			total++
			if prev, ok := last[p]; ok && s <= prev && key == "" {
				who := fmt.Sprintf("consumer %d", k)
				if k == c.C {
					who = "the final sequential drain"
				}
				key, what = "cqpar:producer-order", fmt.Sprintf("%s received element %d of producer %d after element %d (the lock was held for %d ms %d time(s) while %d producer(s) kept calling Enqueue)", who, s, p, prev, c.StallMs, reps, c.P)
			}
			last[p] = s
		}
	}
	want := 0
	for p := 0; p < c.P; p++ {
		want += sent[p]
		for s := 1; s <= sent[p]; s++ {
			switch n := seen[p*10000000+s]; {
			case n == 0 && key == "":
				key, what = "cqpar:lost", fmt.Sprintf("element %d of producer %d was enqueued (Enqueue returned) and never dequeued (%d of %d received; lock held %d ms)", s, p, total, want, c.StallMs)
			case n > 1 && key == "":
				key, what = "cqpar:duplicated", fmt.Sprintf("element %d of producer %d was dequeued %d times", s, p, n)
			}
		}
	}
	if total > want && key == "" {
		key, what = "cqpar:invented", fmt.Sprintf("%d elements received, %d enqueued", total, want)
	}
	if n := q.Len(); n != 0 && key == "" {
		key, what = "cqpar:len", fmt.Sprintf("Len()=%d after everything was dequeued", n)
	}
	return key, what
}

// runCQBacklog: producers finish before any consumer starts.
func runCQBacklog(c SCase) (key, what string) {
	q := queue.NewUnboundedConcurrentQueue()
	var wg sync.WaitGroup
	for p := 0; p < c.P; p++ {
		wg.Add(1)
		go func(p int) {
			defer wg.Done()
			for s := 1; s <= c.N; s++ {
				q.Enqueue(p*10000000 + s)
			}
		}(p)
	}
	wg.Wait()
	if n := q.Len(); n != c.P*c.N {
		return "cqpar:len", fmt.Sprintf("Len()=%d after %d producers enqueued %d elements each and nothing was dequeued", n, c.P, c.N)
	}
	got := make([][]int, c.C)
	for k := 0; k < c.C; k++ {
		wg.Add(1)
		go func(k int) {
			defer wg.Done()
			for {
				v, ok := q.Dequeue()
				if !ok {
					return
				}
				n, _ := v.(int)
				got[k] = append(got[k], n)
			}
		}(k)
	}
	wg.Wait()
	seen := map[int]int{}
	total := 0
	for k, l := range got {
		last := map[int]int{}
		for _, n := range l {
			p, s := n/10000000, n%10000000
			seen[n]++
			total++
			if prev, ok := last[p]; ok && s <= prev && key == "" {
				key, what = "cqpar:producer-order", fmt.Sprintf("consumer %d received element %d of producer %d after element %d (backlog of %d elements)", k, s, p, prev, c.P*c.N)
			}
			last[p] = s
		}
	}
	for p := 0; p < c.P && key == ""; p++ {
		for s := 1; s <= c.N; s++ {
			if n := seen[p*10000000+s]; n != 1 {
				key, what = "cqpar:lost", fmt.Sprintf("element %d of producer %d was dequeued %d times (backlog of %d elements, %d received)", s, p, n, c.P*c.N, total)
				if n > 1 {
					key = "cqpar:duplicated"
				}
				break
			}
		}
	}
	return key, what
}

// watchdog runs f with a generous deadline; a miss is re-run once before it is believed.
func watchdog(f func() (string, string)) (key, what string, hang bool) {
	for try := 0; try < 2; try++ {
		done := make(chan struct{})
		go func() {
			defer close(done)
			key, what = f()
		}()
		select {
		case <-done:
			return key, what, false
		case <-time.After(60 * time.Second):
		}
	}
	return "", "", true
}

func cqSearchCase(r *hxlib.Run, c SCase) bool {
	r.Case()
	run := func() (string, string) {
		if c.Leg == "cq-backlog" {
			return runCQBacklog(c)
		}
		return runCQStall(c)
	}
	key, what, hang := watchdog(run)
	if hang {
		r.Fail("cqpar:hang", fmt.Sprintf("search leg %s (%d producers, %d consumers, lock held %d ms): the run has not finished after 60 s, twice", c.Leg, c.P, c.C, c.StallMs), c)
		return true
	}
	if key != "" {
		r.Fail(key, fmt.Sprintf("search leg %s: %s", c.Leg, what), c)
		return true
	}
	return false
}

// ---- entry points ---------------------------------------------------------------------------------------------------

func replaySearch(r *hxlib.Run, c SCase) {
	if isLeg3(c.Leg) || isLeg4(c.Leg) { // legs3.go, legs4.go (normal tiers)
		legCase(r, c)
		return
	}
	switch c.Leg {
	case "deque-scale":
		r.Case()
		runDequeScale(c).report(r, c)
	case "deque-period":
		r.Case()
		runDequePeriod(c).report(r, c)
	case "uq-scale":
		r.Case()
		runUQScale(c).report(r, c)
	case "uq-period":
		r.Case()
		runUQPeriod(c).report(r, c)
	case "cq-stall", "cq-backlog":
		// schedules are not reproducible one to one: the scenario is repeated
		for i := 0; i < 20; i++ {
			if cqSearchCase(r, c) {
				return
			}
		}
	default:
		r.Fail("harness", "unknown search leg "+c.Leg, c)
	}
}

func searchLegs(r *hxlib.Run) {
	R := r.R
	// --- deque at scale
	t0 := time.Now()
	topLen, topCap, n := 0, 0, 0
	for _, C := range []int{1 << 16, 1 << 17, 1 << 18} {
		for vi, m := range []int{0, C / 4, C / 2, C, 2 * C} {
			if C == 1<<18 && vi != int(r.Seed)%5 && m != C/2 {
				continue // the largest size: min = C/2 and one other per seed
			}
			c := SCase{Kind: "search", Leg: "deque-scale", Variant: "sized", N: C, Min: m, Seed: R.U64()}
			if m == C/4 {
				c.Variant = "smc-late"
			}
			r.Case()
			r.Count("search:deque-scale")
			n++
			e := runDequeScale(c)
			if e.maxLen > topLen {
				topLen = e.maxLen
			}
			if e.maxCap > topCap {
				topCap = e.maxCap
			}
			if e.report(r, c) {
				return
			}
		}
	}
	{
		c := SCase{Kind: "search", Leg: "deque-scale", Variant: "zero", N: 1 << 17, Seed: R.U64()}
		r.Case()
		r.Count("search:deque-scale")
		n++
		if runDequeScale(c).report(r, c) {
			return
		}
	}
	r.Note("search leg deque-scale: %d deques NewDeque(C, m), C = 2^16, 2^17, 2^18, m = default, C/4 (SetMinCapacity late), C/2, C, 2C, and a zero value; up to %d elements / capacity %d; filled from both ends past C, rotated (also exactly full), drained from both ends through every cap/2^k +- 1 with hovering, Clear, reuse; content read back at the marks, %.1fs", n, topLen, topCap, time.Since(t0).Seconds())
	// --- deque: exact periods
	t0 = time.Now()
	for i, v := range dequePeriodVariants {
		nn := 1 << 20
		if (i+int(r.Seed))%3 == 0 {
			nn = 1 << 21
		}
		c := SCase{Kind: "search", Leg: "deque-period", Variant: v, N: nn, P: []int{5, 11, 16, 3}[(i+int(r.Seed))%4], Min: []int{0, 32}[i%2], Seed: R.U64()}
		r.Case()
		r.Count("search:deque-period")
		if runDequePeriod(c).report(r, c) {
			return
		}
	}
	r.Note("search leg deque-period: %v on a deque of 3..16 elements: read back in full, then 2^16, 2^16, 2^17, 3*2^18 (a third of the variants per seed: and 2^20) identical units with no read, read back again, %.1fs", dequePeriodVariants, time.Since(t0).Seconds())
	// --- unbounded queue
	t0 = time.Now()
	most := 0
	for i, nn := range []int{1<<16 + 1, 1<<17 + 1, 1<<18 + 1} {
		c := SCase{Kind: "search", Leg: "uq-scale", N: nn, Seed: R.U64()}
		if i == 1 {
			c.Variant = "zero-value"
		}
		r.Case()
		r.Count("search:uq-scale")
		e := runUQScale(c)
		if e.maxN > most {
			most = e.maxN
		}
		if e.report(r, c) {
			return
		}
	}
	for i, p := range []int{1, 16, 17, 144, 145} {
		c := SCase{Kind: "search", Leg: "uq-period", N: 1 << 20, P: p, Seed: R.U64()}
		if i == int(r.Seed)%5 {
			c.N = 1 << 21
		}
		if i == 2 {
			c.Variant = "init+push"
			c.N = 1 << 18
		}
		r.Case()
		r.Count("search:uq-period")
		if runUQPeriod(c).report(r, c) {
			return
		}
	}
	r.Note("search leg uq-scale/uq-period: up to %d elements queued at once (interleaved pops, Init with a part-consumed head block, reuse); exactly 2^16 .. 2^20 (2^21) push+pop pairs / Init+refill units at lengths 1, 16, 17, 144, 145 between two complete read-backs, %.1fs", most, time.Since(t0).Seconds())
	// --- concurrent queue
	t0 = time.Now()
	for _, c := range []SCase{
		{Kind: "search", Leg: "cq-backlog", P: 4, C: 3, N: 40000},
		{Kind: "search", Leg: "cq-backlog", P: 1, C: 2, N: 1<<17 + 5},
	} {
		r.Count("search:cq-backlog")
		if cqSearchCase(r, c) {
			return
		}
	}
	if lock, _, name := guardOf(queue.NewUnboundedConcurrentQueue()); lock == nil {
		r.Note("search leg cq-stall NOT run: no sync.Mutex / sync.RWMutex field found in UnboundedConcurrentQueue")
	} else {
		runs := 0
		for _, ms := range []int{15, 30, 60, 80} {
			for _, pc := range [][2]int{{1, 0}, {1, 1}, {3, 0}, {3, 2}} {
				c := SCase{Kind: "search", Leg: "cq-stall", P: pc[0], C: pc[1], StallMs: ms, Reps: 3}
				r.Count("search:cq-stall")
				runs++
				if cqSearchCase(r, c) {
					return
				}
			}
		}
		r.Note("search leg cq-stall: %d runs; the queue's mutex (field %q) held for 15/30/60/80 ms three times while 1 or 3 producers keep calling Enqueue, with 0..2 concurrent consumers and a final sequential drain; cq-backlog: 160 000 and 2^17+5 elements enqueued before the first Dequeue, %.1fs", runs, name, time.Since(t0).Seconds())
	}
}
