// legs4.go: fourth-wave legs of hx_c12, NORMAL tiers (quick and thorough), oracle-only (histories of 10^4..10^5 calls on
// deques of 4096..65536 slots; the oracle is the property's plain list, read back with At / Front / Back / pops).
//
//	bigpiece-rot  (W8) a deque of capacity N in {4096, 8192, 65536 (thorough: + 16384, 32768)} holding
//	              L in {1024, 1025, 1500, 2048, 3000, N/2, N-1025, N-1024, N-1, N (exactly full)} elements, with and
//	              without the minimum capacity pinned to N. The ring layout is steered (by short rotations; the leg
//	              tracks where an unchanged ring keeps head and tail) to every tail position T of: L (head on slot 0),
//	              L+1, N (contents end on the LAST slot, tail wrapped to 0), N-1, N-1023, N-1024, N-1025, N-1096,
//	              halfway, and the wrapped ones 1, 1024, L/2. At every layout, Rotate by every n of ±1023, ±1024, ±1025,
//	              cap-tail, cap-tail±1, -head, -head±1, ±(L-1), ±(L-1024), N — each followed by reads of both ends, of
//	              the indices around the ring's seam and a spread of others, PushBack / PushFront / PopBack / PopFront
//	              (pop-then-push when full, so that the capacity stays), Rotate(±1), and a full read-back every fifth time.
//	bigpiece-smc  (W8) the same layouts, then SetMinCapacity RAISED above the capacity (re-buffering), read back, pushes,
//	              pops and long rotations, lowered to the default again, read back, and (capacities <= 8192) drained
//	              until the ring shrinks, to empty; and SetMinCapacity LOWERED on a ring whose minimum was N, drained.
//
// A case is (leg, variant, n = capacity, min = L, seed = tail position): regenerated on replay.
package main

import (
	"fmt"
	"time"

	"verifharness/hxlib"
)

// lay: the engine plus the head / tail an unchanged ring would have (only to AIM the calls; never judged).
type lay struct {
	e      *deng
	h, t   int
	cap    int
	full   bool
	probes int
}

func (l *lay) mask() int { return l.cap - 1 }

func (l *lay) sync(dh, dt int) {
	if c := l.e.d.Cap(); c != l.cap {
		l.cap, l.h = c, 0
		l.t = l.e.ref.len() & (c - 1)
		return
	}
	l.h, l.t = (l.h+dh)&l.mask(), (l.t+dt)&l.mask()
}

func (l *lay) pb()   { l.e.pb(); l.sync(0, 1) }
func (l *lay) pf()   { l.e.pf(); l.sync(-1, 0) }
func (l *lay) popb() { l.e.pop(false); l.sync(0, -1) }
func (l *lay) popf() { l.e.pop(true); l.sync(1, 0) }
func (l *lay) rot(n int) {
	l.e.rot(n)
	if cnt := l.e.ref.len(); cnt > 1 {
		m := n % cnt
		l.sync(m, m)
	}
}
func (l *lay) smc(exp uint) {
	l.e.smc(exp)
	l.sync(0, 0)
}

// steer: short rotations until the (tracked) tail is on slot T.
func (l *lay) steer(T int) {
	cnt := l.e.ref.len()
	if cnt <= 1 || l.e.dead {
		return
	}
	step := 1000
	if step >= cnt {
		step = cnt - 1
	}
	d := (T - l.t) & l.mask()
	if d <= l.cap/2 {
		for ; d > 0 && !l.e.dead; d -= min(d, step) {
			l.rot(min(d, step))
		}
		return
	}
	d = l.cap - d
	for ; d > 0 && !l.e.dead; d -= min(d, step) {
		l.rot(-min(d, step))
	}
}

// probe: both ends, the indices around the ring's seam, a spread; then pushes and pops that give the layout back.
func (l *lay) probe() {
	e := l.e
	n := e.ref.len()
	l.probes++
	e.ends()
	seam := l.cap - l.h // index of the element on slot 0 when the contents wrap
	idx := []int{0, 1, n - 2, n - 1, n / 2, 1023, 1024, 1025, n - 1024, n - 1025, seam - 1, seam, seam + 1}
	for i := 0; i < 24; i++ {
		idx = append(idx, i*n/24)
	}
	for _, i := range idx {
		if i >= 0 && i < n && !e.dead {
			e.at(i)
		}
	}
	if n == l.cap { // full: pushes would re-buffer
		l.popb()
		l.pb()
		l.popf()
		l.pf()
	} else {
		l.pb()
		e.at(n)
		l.pf()
		e.at(0)
		e.at(n + 1)
		l.popb()
		l.popf()
	}
	l.rot(1)
	e.ends()
	l.rot(-1)
	if l.probes%5 == 0 {
		e.dump(false)
	}
}

func buildBig(c SCase) *lay {
	var e *deng
	if c.Variant == "min=cap" || c.Variant == "lower" {
		e = newDeng(false, c.N, c.N)
	} else {
		e = newDeng(false, c.N)
	}
	for i := 0; i < c.Min && !e.dead; i++ {
		e.pb()
	}
	l := &lay{e: e, cap: c.N}
	if !e.dead {
		l.cap = e.d.Cap()
		l.t = c.Min & (l.cap - 1)
	}
	return l
}

func bigTails(N, L int) []int {
	raw := []int{L, L + 1, N, N - 1, N - 1023, N - 1024, N - 1025, N - 1096, (N + L) / 2, 1, 1024, L / 2}
	seen := map[int]bool{}
	var out []int
	for _, t := range raw {
		t &= N - 1
		if !seen[t] {
			seen[t] = true
			out = append(out, t)
		}
	}
	return out
}

func runBigRot(c SCase) *deng {
	l := buildBig(c)
	e := l.e
	L := c.Min
	for _, T := range bigTails(c.N, L) {
		l.steer(T)
		ns := []int{1023, -1023, 1024, -1024, 1025, -1025, l.cap - l.t, l.cap - l.t + 1, l.cap - l.t - 1, -l.h, -l.h + 1, -l.h - 1,
			L - 1, 1 - L, L - 1024, 1024 - L, c.N, -c.N}
		seen := map[int]bool{}
		for _, n := range ns {
			if e.dead {
				return e
			}
			if n == 0 || seen[n] {
				continue
			}
			seen[n] = true
			l.steer(T)
			l.rot(n)
			l.probe()
		}
	}
	e.dump(false)
	return e
}

func log2(n int) uint {
	var x uint
	for 1<<x < n {
		x++
	}
	return x
}

// runBigSmc: seed = the tail position.
func runBigSmc(c SCase) *deng {
	l := buildBig(c)
	e := l.e
	T := int(c.Seed)
	l.steer(T)
	if c.Variant == "lower" {
		// the minimum was the capacity: lowered, the ring may shrink while it is drained
		l.smc(0)
		l.probe()
	} else {
		l.smc(log2(l.cap) + 1)
		e.dump(false)
		l.probe()
		for _, n := range []int{1024, -1024, l.cap - l.t, -l.h} {
			l.rot(n)
			l.probe()
		}
		l.smc(0)
		e.dump(false)
		l.probe()
	}
	if c.N <= 8192 {
		for i := 0; e.ref.len() > 0 && !e.dead; i++ {
			before := e.d.Cap()
			if i%3 == 2 {
				l.popb()
			} else {
				l.popf()
			}
			if !e.dead && e.d.Cap() != before {
				e.dump(false)
			}
		}
		l.pb()
		l.pf()
	}
	e.dump(false)
	return e
}

func isLeg4(leg string) bool { return leg == "bigpiece-rot" || leg == "bigpiece-smc" }

func runLeg4(c SCase) *deng {
	if c.Leg == "bigpiece-smc" {
		return runBigSmc(c)
	}
	return runBigRot(c)
}

func bigLens(N int, few bool) []int {
	raw := []int{1024, 1025, 1500, 2048, 3000, N / 2, N - 1025, N - 1024, N - 1, N}
	if few {
		raw = []int{1024, 3000, N / 2, N - 1024, N}
	}
	seen := map[int]bool{}
	var out []int
	for _, x := range raw {
		if x >= 1024 && x <= N && !seen[x] {
			seen[x] = true
			out = append(out, x)
		}
	}
	return out
}

// bigLegs runs in every tier. Cost: quick ≈ 1 s.
func bigLegs(r *hxlib.Run) {
	t0 := time.Now()
	caps := []int{4096, 8192, 65536}
	if r.Thorough() {
		caps = []int{4096, 8192, 16384, 32768, 65536}
	}
	n, calls := 0, 0
	do := func(c SCase) bool {
		c.Kind = "search"
		n++
		return legCase(r, c)
	}
	_ = calls
	for _, N := range caps {
		for _, L := range bigLens(N, N > 8192 && !r.Thorough()) {
			for _, v := range []string{"min=cap", "min=default"} {
				if do(SCase{Leg: "bigpiece-rot", Variant: v, N: N, Min: L}) {
					return
				}
			}
		}
	}
	r.Note("leg bigpiece-rot: %d deques of capacity %v holding 1024 .. capacity elements, steered to 12 ring layouts each (head on slot 0, contents ending on the last slot, tail 1023..1096 slots before the end, wrapped), Rotate by ±1023, ±1024, ±1025, cap-tail(±1), -head(±1), ±(L-1), ±(L-1024), cap at every layout, each followed by reads, pushes, pops and short rotations against the plain list, %.1fs", n, caps, time.Since(t0).Seconds())
	t0, n = time.Now(), 0
	for _, N := range caps {
		few := N > 8192 && !r.Thorough()
		for _, L := range bigLens(N, few) {
			ts := bigTails(N, L)
			if few {
				ts = []int{L & (N - 1), 0, N - 1024, L / 2}
			}
			for i, T := range ts {
				v := "raise"
				if i%4 == 3 {
					v = "lower"
				}
				if do(SCase{Leg: "bigpiece-smc", Variant: v, N: N, Min: L, Seed: uint64(T)}) {
					return
				}
			}
		}
	}
	r.Note("leg bigpiece-smc: %d deques of capacity %v holding 1024 .. capacity elements in those layouts, SetMinCapacity raised above the capacity / lowered below it, read back, pushed, popped, rotated by ±1024 / cap-tail / -head, (capacities <= 8192) drained to empty through every shrink, %.1fs", n, caps, time.Since(t0).Seconds())
	_ = fmt.Sprint
}
