// hx_c12: correspondence harness + oracle for C12 (deque, unbounded FIFO queue, concurrent queue).
//
// Four kinds of case:
//
//	deque   an op history on a zero-value / NewDeque(...) deque; oracle = a plain slice
//	uq      a push/pop/front/len/init history on the unbounded queue; oracle = a plain slice
//	cqseq   a deterministic interleaving of 1..8 virtual goroutines on the concurrent queue (compared
//	        line by line with the LTS model); oracle = a plain slice
//	cqpar   real goroutines: P producers, C consumers (+ readers); no model lines (the schedule is not
//	        observable); oracle = multiset + per-producer order + real-time FIFO order
//
// The oracles never consult the model.
package main

import (
	"fmt"
	"hash/fnv"
	"io"
	"log"
	"os"
	"runtime"
	"sort"
	"strconv"
	"strings"
	"sync"
	"sync/atomic"
	"time"

	"verifharness/hxlib"

	"qchen.fun/fatchoy/collections/queue"
)

// Case is the replayable form of every kind of case.
type Case struct {
	Kind string   `json:"kind"`
	Ops  []string `json:"ops,omitempty"` // deque/uq/cqseq: the op lines (the first one constructs)
	P    int      `json:"producers,omitempty"`
	C    int      `json:"consumers,omitempty"`
	N    int      `json:"per_producer,omitempty"`
	Rd   int      `json:"readers,omitempty"`
	Reps int      `json:"repetitions,omitempty"`
}

// ---------------------------------------------------------------------------------------------
// values: an int or nil

type val struct {
	nil bool
	n   int
}

func (v val) String() string {
	if v.nil {
		return "nil"
	}
	return strconv.Itoa(v.n)
}
func (v val) iface() interface{} {
	if v.nil {
		return nil
	}
	return v.n
}
func fromIface(x interface{}) string {
	if x == nil {
		return "nil"
	}
	if n, ok := x.(int); ok {
		return strconv.Itoa(n)
	}
	return fmt.Sprintf("?%v", x)
}
func parseVal(s string) val {
	if s == "nil" {
		return val{nil: true}
	}
	n, err := strconv.Atoi(s)
	if err != nil {
		panic("bad value " + s)
	}
	return val{n: n}
}

// A call into the library that never returns cannot be recovered from: every case runs in its own
// goroutine under a (very generous) deadline; a case that misses it is run a second time, and if it
// hangs again the failure is recorded and the harness stops (the stuck goroutines die with it).
var hangDeadline = 30 * time.Second
var progress int64 // index of the op a history is currently executing

// while shrinking, a candidate history may hang too: it gets a short deadline, and after the first
// candidate that misses it (its goroutine keeps spinning) the shrinking stops where it is
var shrinkLeaked bool

func shrinkTry(f func() bool) bool {
	if shrinkLeaked {
		return false
	}
	res := false
	done := make(chan struct{})
	go func() {
		defer close(done)
		res = f()
	}()
	select {
	case <-done:
		return res
	case <-time.After(10 * time.Second):
		shrinkLeaked = true
		return false
	}
}

func finishes(f func()) bool {
	done := make(chan struct{})
	go func() {
		defer close(done)
		f()
	}()
	select {
	case <-done:
		return true
	case <-time.After(hangDeadline):
		return false
	}
}

// hung reports a history that does not finish: the replay is the prefix up to the op that never returned.
func hung(r *hxlib.Run, kind string, ops []string, rerun func(prefix []string)) {
	cur := int(atomic.LoadInt64(&progress))
	if cur >= len(ops) {
		cur = len(ops) - 1
	}
	prefix := append([]string{}, ops[:cur+1]...)
	if finishes(func() { rerun(prefix) }) {
		panic(fmt.Sprintf("%s history missed the %v deadline at op %d `%s` once and finished when run again: not believed, stopping", kind, hangDeadline, cur, ops[cur]))
	}
	op := strings.Fields(ops[cur])
	name := op[0]
	if kind == "cqseq" && len(op) > 2 {
		name = op[2]
	}
	r.Fail(kind+":hang:"+name, fmt.Sprintf("op %d `%s` never returns (twice; deadline %v each); history of %d ops", cur, ops[cur], hangDeadline, len(prefix)), Case{Kind: kind, Ops: prefix})
	r.Finish()
	os.Exit(0)
}

func hashOps(ops []string) string {
	h := fnv.New64a()
	for _, o := range ops {
		h.Write([]byte(o))
		h.Write([]byte{'\n'})
	}
	return fmt.Sprintf("%016x", h.Sum64())
}

// ---------------------------------------------------------------------------------------------
// deque

// dequeOracle is the property stated on a plain slice.
type dequeOracle struct {
	ref       []val
	min       int  // configured minimum capacity (a power of two >= 16)
	allocated bool // a buffer must exist from now on
}

// defaultMin is the library's default minimum capacity, observed on the real code (the capacity
// NewDeque(1) allocates); the documented value is 16.
var defaultMin = 16

func pow2ceil(from, n int) int {
	x := from
	for x < n {
		x *= 2
	}
	return x
}

func isPow2(n int) bool { return n > 0 && n&(n-1) == 0 }

// runDeque executes a history on the real deque; emit=false while shrinking a failure.
// It returns the first oracle failure (key, what) or "".
func runDeque(r *hxlib.Run, ops []string, emit bool, stats bool) (key, what string) {
	var d *queue.Deque
	var o dequeOracle
	fail := func(k, w string) {
		if key == "" {
			key, what = k, w
		}
	}
	// shadow of the ring position, for the coverage statistics only (never for a verdict)
	shHead, grew, shrank, wrapped, rotFull := 0, false, false, false, false
	for idx, line := range ops {
		atomic.StoreInt64(&progress, int64(idx))
		f := strings.Fields(line)
		if len(f) == 0 {
			continue
		}
		op := f[0]
		if d == nil && op != "dzero" && op != "dnew" {
			panic("history does not start with a constructor: " + line)
		}
		arg := func(i int) int {
			n, err := strconv.Atoi(f[i])
			if err != nil {
				panic("bad op " + line)
			}
			return n
		}
		capBefore := 0
		if d != nil {
			capBefore = d.Cap()
		}
		var got interface{}
		hasVal := false
		pmsg := ""
		expectPanic, expectVal := false, val{}
		hasExpect := false
		n := len(o.ref)
		switch op {
		case "dzero":
			d = &queue.Deque{}
			o = dequeOracle{min: defaultMin}
			shHead = 0
		case "dnew":
			var size []int
			for i := 1; i < len(f); i++ {
				size = append(size, arg(i))
			}
			d = queue.NewDeque(size...)
			o = dequeOracle{min: defaultMin}
			if len(size) >= 2 && size[1] > defaultMin {
				o.min = pow2ceil(defaultMin, size[1])
			}
			if len(size) >= 1 && size[0] != 0 {
				o.allocated = true
				if c := d.Cap(); c < size[0] {
					fail("deque:new:cap<requested", fmt.Sprintf("NewDeque(%v).Cap()=%d is smaller than the requested capacity", size, c))
				}
			}
			shHead = 0
		case "pb":
			v := parseVal(f[1])
			pmsg = hxlib.Guard(func() { d.PushBack(v.iface()) })
			o.ref = append(o.ref, v)
			o.allocated = true
		case "pf":
			v := parseVal(f[1])
			pmsg = hxlib.Guard(func() { d.PushFront(v.iface()) })
			o.ref = append([]val{v}, o.ref...)
			o.allocated = true
			shHead--
		case "popf":
			pmsg = hxlib.Guard(func() { got = d.PopFront(); hasVal = true })
			hasExpect = true
			if n == 0 {
				expectPanic = true
			} else {
				expectVal = o.ref[0]
				o.ref = append([]val{}, o.ref[1:]...)
				shHead++
			}
		case "popb":
			pmsg = hxlib.Guard(func() { got = d.PopBack(); hasVal = true })
			hasExpect = true
			if n == 0 {
				expectPanic = true
			} else {
				expectVal = o.ref[n-1]
				o.ref = append([]val{}, o.ref[:n-1]...)
			}
		case "front":
			pmsg = hxlib.Guard(func() { got = d.Front(); hasVal = true })
			hasExpect = true
			if n == 0 {
				expectPanic = true
			} else {
				expectVal = o.ref[0]
			}
		case "back":
			pmsg = hxlib.Guard(func() { got = d.Back(); hasVal = true })
			hasExpect = true
			if n == 0 {
				expectPanic = true
			} else {
				expectVal = o.ref[n-1]
			}
		case "at":
			i := arg(1)
			pmsg = hxlib.Guard(func() { got = d.At(i); hasVal = true })
			hasExpect = true
			if i < 0 || i >= n {
				expectPanic = true
			} else {
				expectVal = o.ref[i]
			}
		case "set":
			i := arg(1)
			v := parseVal(f[2])
			pmsg = hxlib.Guard(func() { d.Set(i, v.iface()) })
			if i < 0 || i >= n {
				hasExpect, expectPanic = true, true
			} else {
				o.ref[i] = v
			}
		case "clear":
			pmsg = hxlib.Guard(func() { d.Clear() })
			o.ref = nil
			shHead = 0
		case "rot":
			k := arg(1)
			if stats && n > 1 && k%n != 0 && d.Cap() == n {
				rotFull = true
			}
			pmsg = hxlib.Guard(func() { d.Rotate(k) })
			if n > 1 {
				s := ((k % n) + n) % n // n steps front to back = the list rotated left by k mod len
				rot := make([]val, 0, n)
				rot = append(rot, o.ref[s:]...)
				rot = append(rot, o.ref[:s]...)
				o.ref = rot
				shHead += s
			}
		case "smc":
			e := arg(1)
			pmsg = hxlib.Guard(func() { d.SetMinCapacity(uint(e)) })
			o.min = defaultMin
			if e < 63 && 1<<uint(e) > defaultMin {
				o.min = 1 << uint(e)
			}
		case "dump":
			// read everything back through At, Front and Back
			items := make([]string, 0, d.Len())
			pmsg = hxlib.Guard(func() {
				for i := 0; i < d.Len(); i++ {
					items = append(items, fromIface(d.At(i)))
				}
			})
			body := "-"
			if len(items) > 0 {
				body = strings.Join(items, ",")
			}
			want := make([]string, len(o.ref))
			for i, v := range o.ref {
				want[i] = v.String()
			}
			if pmsg != "" {
				fail("deque:contents:panic", fmt.Sprintf("op %d: reading all %d elements back through At panicked: %s", idx, d.Len(), pmsg))
			} else if strings.Join(items, ",") != strings.Join(want, ",") {
				fail("deque:contents", fmt.Sprintf("op %d: the deque holds [%s], a plain list holds [%s]", idx, strings.Join(items, ","), strings.Join(want, ",")))
			}
			if emit {
				if pmsg != "" {
					r.Op(line, "crash")
				} else {
					r.Op(line, fmt.Sprintf("items=%s len=%d cap=%d", body, d.Len(), d.Cap()))
				}
			}
			continue
		default:
			panic("unknown deque op " + line)
		}
		// ---- what the call answered
		ans := "ok"
		isDequePanic := strings.HasPrefix(pmsg, "deque: ")
		switch {
		case pmsg != "" && isDequePanic:
			ans = "panic"
		case pmsg != "":
			ans = "crash"
		case hasVal:
			ans = "v=" + fromIface(got)
		}
		if emit {
			r.Op(line, fmt.Sprintf("%s len=%d cap=%d", ans, d.Len(), d.Cap()))
		}
		if stats {
			r.Count("deque:op:" + op)
			if ans == "panic" {
				r.Count("deque:panic:" + op)
			}
		}
		// ---- the property, on a plain slice
		if pmsg != "" && !isDequePanic {
			fail("deque:runtime-fault:"+op, fmt.Sprintf("op %d `%s` died with a run-time error instead of answering: %s", idx, line, pmsg))
		}
		if hasExpect && expectPanic && pmsg == "" {
			fail("deque:no-panic:"+op, fmt.Sprintf("op %d `%s` on a list of %d elements was answered (%s) instead of refused by panic", idx, line, n, ans))
		}
		if !(hasExpect && expectPanic) && isDequePanic {
			fail("deque:unexpected-panic:"+op, fmt.Sprintf("op %d `%s` on a list of %d elements panicked: %s", idx, line, n, pmsg))
		}
		if hasExpect && !expectPanic && pmsg == "" && fromIface(got) != expectVal.String() {
			fail("deque:value:"+op, fmt.Sprintf("op %d `%s` answered %s, a plain list answers %s", idx, line, fromIface(got), expectVal))
		}
		if d.Len() != len(o.ref) {
			fail("deque:len:"+op, fmt.Sprintf("after op %d `%s` Len()=%d, a plain list holds %d", idx, line, d.Len(), len(o.ref)))
		}
		c := d.Cap()
		if c != 0 || o.allocated {
			if !isPow2(c) {
				fail("deque:cap:pow2:"+op, fmt.Sprintf("after op %d `%s` Cap()=%d is not a power of two", idx, line, c))
			}
			if c < o.min {
				fail("deque:cap<min:"+op, fmt.Sprintf("after op %d `%s` Cap()=%d is below the configured minimum %d", idx, line, c, o.min))
			}
		}
		if c < len(o.ref) {
			fail("deque:cap<len:"+op, fmt.Sprintf("after op %d `%s` Cap()=%d but %d elements are stored", idx, line, c, len(o.ref)))
		}
		if stats {
			if c > capBefore && capBefore != 0 {
				grew = true
				shHead = 0
			} else if c < capBefore {
				shrank = true
				shHead = 0
			} else if c != capBefore {
				shHead = 0
				if op == "pf" {
					shHead = -1
				}
			}
			if c > 0 {
				shHead = ((shHead % c) + c) % c
				if shHead+d.Len() > c {
					wrapped = true
				}
			}
		}
	}
	if stats {
		tags := ""
		if grew {
			r.Count("deque:history-grew")
			tags += "g"
		}
		if shrank {
			r.Count("deque:history-shrank")
			tags += "s"
		}
		if wrapped {
			r.Count("deque:history-wrapped")
			tags += "w"
		}
		if rotFull {
			r.Count("deque:history-rotated-full")
			tags += "f"
		}
		if tags != "" {
			r.NonTrivial("deque/" + hashOps(ops))
		}
	}
	return key, what
}

// dequeCase runs one history, reports and shrinks a failure.
func dequeCase(r *hxlib.Run, ops []string) {
	r.Case()
	var key, what string
	if !finishes(func() { key, what = runDeque(r, ops, true, true) }) {
		hung(r, "deque", ops, func(p []string) { runDeque(r, p, false, false) })
	}
	if key == "" {
		return
	}
	// shrink: keep the constructor, drop ops while the same failure class remains
	keep := hxlib.DDMin(len(ops)-1, func(k []int) bool {
		cand := []string{ops[0]}
		for _, i := range k {
			cand = append(cand, ops[i+1])
		}
		return shrinkTry(func() bool {
			k2, _ := runDeque(r, cand, false, false)
			return k2 == key
		})
	})
	small := []string{ops[0]}
	for _, i := range keep {
		small = append(small, ops[i+1])
	}
	k2, w2 := "", ""
	if shrinkTry(func() bool { k2, w2 = runDeque(r, small, false, false); return true }) && k2 == key {
		what = w2
	} else {
		small = ops
	}
	r.Fail(key, what+fmt.Sprintf("  [history of %d ops: %s]", len(small), strings.Join(small, "; ")), Case{Kind: "deque", Ops: small})
}

// genDeque builds a history that walks between the interesting lengths of the current capacity
// (0, 1, 2, cap/4 ± 1, cap - 1, cap, cap + 1), mixing both ends, rotations, indexed access.
func genDeque(R *hxlib.Rand, nops int, style int) []string {
	var ops []string
	minimum := 16
	switch R.Intn(6) {
	case 0:
		ops = append(ops, "dzero")
	case 1:
		ops = append(ops, "dnew")
	case 2:
		c := R.Pick(1, 15, 16, 17, 31, 32, 33, 64, 100, 128)
		ops = append(ops, fmt.Sprintf("dnew %d", c))
	case 3:
		c := R.Pick(0, 0, 1, 16, 17, 40, 64, 200)
		m := R.Pick(0, 1, 16, 17, 32, 33, 64)
		ops = append(ops, fmt.Sprintf("dnew %d %d", c, m))
		if m > 16 {
			minimum = pow2ceil(16, m)
		}
	case 4:
		ops = append(ops, fmt.Sprintf("dnew %d", R.Pick(-1, -5, 0)))
	default:
		c, m := R.Range(0, 70), R.Range(-3, 70)
		ops = append(ops, fmt.Sprintf("dnew %d %d", c, m))
		if m > 16 {
			minimum = pow2ceil(16, m)
		}
	}
	_ = minimum
	// a shadow length/capacity is enough to aim (the real values are whatever the code does)
	length, capacity := 0, 16
	next := 1
	newVal := func() string {
		if R.Chance(1, 40) {
			return "nil"
		}
		next++
		return strconv.Itoa(next)
	}
	target := 0
	pickTarget := func() {
		c := capacity
		cands := []int{0, 1, 2, 3, c/4 - 1, c / 4, c/4 + 1, c/2 - 1, c / 2, c - 1, c, c + 1, c + 2, 2*c + 1}
		target = cands[R.Intn(len(cands))]
		if target < 0 {
			target = 0
		}
		if target > 300 {
			target = 300
		}
	}
	pickTarget()
	rotArg := func() int {
		l := length
		switch R.Intn(10) {
		case 0:
			return 1
		case 1:
			return -1
		case 2:
			return l - 1
		case 3:
			return -(l - 1)
		case 4:
			return l
		case 5:
			return -l
		case 6:
			return l + 1
		case 7:
			return -(l + 1)
		case 8:
			return R.Range(-3*l-2, 3*l+2)
		default:
			return R.Pick(0, 2, -2, 7, -7, 1000003, -1000003)
		}
	}
	idxArg := func() int {
		l := length
		switch R.Intn(7) {
		case 0:
			return -1
		case 1:
			return 0
		case 2:
			return l - 1
		case 3:
			return l
		case 4:
			return l + 1
		default:
			if l > 0 {
				return R.Intn(l)
			}
			return R.Range(-2, 2)
		}
	}
	// the shadow capacity follows the documented policy only to aim the walk
	push := func(front bool) {
		if front {
			ops = append(ops, "pf "+newVal())
		} else {
			ops = append(ops, "pb "+newVal())
		}
		if length == capacity {
			capacity *= 2
		}
		length++
	}
	pop := func(front bool) {
		if front {
			ops = append(ops, "popf")
		} else {
			ops = append(ops, "popb")
		}
		if length > 0 {
			length--
			if capacity > 16 && length*4 == capacity {
				capacity /= 2
			}
		}
	}
	for len(ops) < nops {
		x := R.Intn(100)
		switch {
		case x < 55:
			// move toward the target
			if length < target {
				switch style {
				case 0:
					push(R.Bool())
				case 1:
					push(false)
				default:
					push(R.Chance(3, 4))
				}
			} else if length > target {
				switch style {
				case 0:
					pop(R.Bool())
				case 1:
					pop(true)
				default:
					pop(R.Chance(1, 4))
				}
			} else {
				pickTarget()
				// sit on the point: one step over and back
				if R.Bool() {
					push(R.Bool())
					pop(R.Bool())
				} else {
					pop(R.Bool())
					push(R.Bool())
				}
			}
		case x < 70:
			ops = append(ops, fmt.Sprintf("rot %d", rotArg()))
		case x < 78:
			ops = append(ops, fmt.Sprintf("at %d", idxArg()))
		case x < 84:
			ops = append(ops, fmt.Sprintf("set %d %s", idxArg(), newVal()))
		case x < 88:
			ops = append(ops, "front")
		case x < 92:
			ops = append(ops, "back")
		case x < 94:
			push(R.Bool())
		case x < 96:
			pop(R.Bool())
		case x < 97:
			ops = append(ops, "clear")
			length = 0
		case x < 98:
			e := R.Pick(0, 3, 4, 5, 5, 6, 6, 7, 63, 64, 200)
			ops = append(ops, fmt.Sprintf("smc %d", e))
		default:
			ops = append(ops, "dump")
		}
	}
	ops = append(ops, "dump")
	return ops
}

// sweepDeque: every (ring offset, length) of a buffer of capacity c, one op each.
func sweepDeque(r *hxlib.Run, c int, offsets, lengths []int) {
	probe := func(n int) []string {
		ps := []string{"pb 9001", "pf 9002", "popf", "popb", "front", "back", "clear", "smc 6", "smc 0",
			"at -1", "at 0", fmt.Sprintf("at %d", n-1), fmt.Sprintf("at %d", n), fmt.Sprintf("at %d", n/2),
			"set -1 7", "set 0 7", fmt.Sprintf("set %d 7", n-1), fmt.Sprintf("set %d 7", n), fmt.Sprintf("set %d nil", n/2)}
		rots := map[int]bool{}
		for _, k := range []int{0, 1, -1, 2, -2, 3, -3, n / 2, -(n / 2), n - 2, -(n - 2), n - 1, -(n - 1), n, -n, n + 1, -(n + 1), 2*n - 1, -(2*n - 1), 2 * n, 2*n + 1, -(2*n + 1), 5*n + 3, -(5*n + 3)} {
			rots[k] = true
		}
		ks := make([]int, 0, len(rots))
		for k := range rots {
			ks = append(ks, k)
		}
		sort.Ints(ks)
		for _, k := range ks {
			ps = append(ps, fmt.Sprintf("rot %d", k))
		}
		return ps
	}
	for _, off := range offsets {
		for _, n := range lengths {
			for _, p := range probe(n) {
				ops := []string{fmt.Sprintf("dnew %d", c)}
				for i := 0; i < off; i++ {
					ops = append(ops, "pb 0", "popf")
				}
				for i := 0; i < n; i++ {
					ops = append(ops, fmt.Sprintf("pb %d", 100+i))
				}
				ops = append(ops, p, "dump")
				// a second op after the first, to see the state the first one left behind
				ops = append(ops, "pf 7001", "rot -1", "popb", "dump")
				dequeCase(r, ops)
			}
		}
	}
	r.Count(fmt.Sprintf("deque:sweep-cap%d", c))
}

// ---------------------------------------------------------------------------------------------
// unbounded queue

func runUQ(r *hxlib.Run, ops []string, emit, stats bool) (key, what string) {
	var q *queue.UnboundedQueue
	var ref []val
	fail := func(k, w string) {
		if key == "" {
			key, what = k, w
		}
	}
	crossed := false
	pushedSinceEmpty, poppedSinceEmpty := 0, 0
	boundary := func(n int) bool { return n == 1 || n == 16 || (n > 16 && (n-16)%128 == 0) }
	for idx, line := range ops {
		atomic.StoreInt64(&progress, int64(idx))
		f := strings.Fields(line)
		op := f[0]
		ans := ""
		var got interface{}
		ok := false
		pmsg := ""
		switch op {
		case "unew":
			q = queue.NewUnbounded()
			ref = nil
			ans = "ok"
			pushedSinceEmpty, poppedSinceEmpty = 0, 0
		case "upush":
			v := parseVal(f[1])
			pmsg = hxlib.Guard(func() { q.Push(v.iface()) })
			if len(ref) == 0 {
				pushedSinceEmpty, poppedSinceEmpty = 0, 0
			}
			if boundary(pushedSinceEmpty) {
				crossed = true
				if stats {
					r.Count("uq:push-opens-block")
				}
			}
			pushedSinceEmpty++
			ref = append(ref, v)
			ans = "ok"
		case "upop", "ufront":
			if op == "upop" {
				pmsg = hxlib.Guard(func() { got, ok = q.Pop() })
			} else {
				pmsg = hxlib.Guard(func() { got, ok = q.Front() })
			}
			if ok {
				ans = "v=" + fromIface(got)
			} else {
				ans = "empty"
			}
			if pmsg == "" {
				if len(ref) == 0 {
					if ok {
						fail("uq:"+op+":value-from-empty", fmt.Sprintf("op %d `%s` on an empty queue answered %s", idx, line, ans))
					}
				} else {
					if !ok {
						fail("uq:"+op+":lost", fmt.Sprintf("op %d `%s` says empty, %d elements are queued (next %s)", idx, line, len(ref), ref[0]))
					} else if fromIface(got) != ref[0].String() {
						fail("uq:"+op+":order", fmt.Sprintf("op %d `%s` answered %s, the oldest queued element is %s", idx, line, fromIface(got), ref[0]))
					}
				}
			}
			if op == "upop" && len(ref) > 0 {
				ref = ref[1:]
				poppedSinceEmpty++
				if boundary(poppedSinceEmpty) && poppedSinceEmpty < pushedSinceEmpty {
					crossed = true
					if stats {
						r.Count("uq:pop-leaves-block")
					}
				}
			}
		case "ulen":
			n := -1
			pmsg = hxlib.Guard(func() { n = q.Len() })
			ans = fmt.Sprintf("n=%d", n)
			if n != len(ref) {
				fail("uq:len", fmt.Sprintf("op %d Len()=%d, %d elements are queued", idx, n, len(ref)))
			}
		case "uinit":
			pmsg = hxlib.Guard(func() { q.Init() })
			ref = nil
			ans = "ok"
		default:
			panic("unknown uq op " + line)
		}
		if pmsg != "" {
			ans = "crash"
			fail("uq:runtime-fault:"+op, fmt.Sprintf("op %d `%s` died: %s", idx, line, pmsg))
		}
		l := -1
		hxlib.Guard(func() { l = q.Len() })
		if l != len(ref) {
			fail("uq:len:"+op, fmt.Sprintf("after op %d `%s` Len()=%d, %d elements are queued", idx, line, l, len(ref)))
		}
		if emit {
			r.Op(line, fmt.Sprintf("%s len=%d", ans, l))
		}
		if stats {
			r.Count("uq:op:" + op)
		}
	}
	if stats && crossed {
		r.NonTrivial("uq/" + hashOps(ops))
	}
	return key, what
}

func uqCase(r *hxlib.Run, ops []string) {
	r.Case()
	var key, what string
	if !finishes(func() { key, what = runUQ(r, ops, true, true) }) {
		hung(r, "uq", ops, func(p []string) { runUQ(r, p, false, false) })
	}
	if key == "" {
		return
	}
	keep := hxlib.DDMin(len(ops)-1, func(k []int) bool {
		cand := []string{ops[0]}
		for _, i := range k {
			cand = append(cand, ops[i+1])
		}
		return shrinkTry(func() bool {
			k2, _ := runUQ(r, cand, false, false)
			return k2 == key
		})
	})
	small := []string{ops[0]}
	for _, i := range keep {
		small = append(small, ops[i+1])
	}
	k2, w2 := "", ""
	if shrinkTry(func() bool { k2, w2 = runUQ(r, small, false, false); return true }) && k2 == key {
		what = w2
	} else {
		small = ops
	}
	r.Fail(key, what+fmt.Sprintf("  [history of %d ops]", len(small)), Case{Kind: "uq", Ops: small})
}

// genUQ walks the queue length between the block boundaries (1, 16, 16+128k; ± 1).
func genUQ(R *hxlib.Rand, nops int) []string {
	ops := []string{"unew"}
	length, next := 0, 0
	targets := []int{0, 1, 2, 15, 16, 17, 18, 143, 144, 145, 146, 271, 272, 273, 300}
	target := targets[R.Intn(len(targets))]
	for len(ops) < nops {
		x := R.Intn(100)
		switch {
		case x < 70:
			if length < target {
				next++
				ops = append(ops, "upush "+strconv.Itoa(next))
				length++
			} else if length > target {
				ops = append(ops, "upop")
				length--
			} else {
				target = targets[R.Intn(len(targets))]
				if R.Chance(1, 3) {
					// drain completely: the next push starts a fresh first block
					for length > 0 {
						ops = append(ops, "upop")
						length--
					}
					ops = append(ops, "upop")
				}
			}
		case x < 78:
			ops = append(ops, "ufront")
		case x < 84:
			ops = append(ops, "ulen")
		case x < 90:
			next++
			v := strconv.Itoa(next)
			if R.Chance(1, 20) {
				v = "nil"
			}
			ops = append(ops, "upush "+v)
			length++
		case x < 99:
			ops = append(ops, "upop")
			if length > 0 {
				length--
			}
		default:
			ops = append(ops, "uinit")
			length = 0
		}
	}
	for length >= 0 && R.Bool() {
		ops = append(ops, "upop")
		length--
	}
	return ops
}

// ---------------------------------------------------------------------------------------------
// concurrent queue, deterministic interleaving of virtual goroutines

func runCQSeq(r *hxlib.Run, ops []string, emit, stats bool) (key, what string) {
	var q *queue.UnboundedConcurrentQueue
	var ref []val
	fail := func(k, w string) {
		if key == "" {
			key, what = k, w
		}
	}
	lastBy := map[int]int{} // per producer: last sequence number handed out by Dequeue
	for idx, line := range ops {
		atomic.StoreInt64(&progress, int64(idx))
		f := strings.Fields(line)
		ans := ""
		pmsg := ""
		if f[0] == "cnew" {
			q = queue.NewUnboundedConcurrentQueue()
			ref = nil
			if emit {
				r.Op(line, "ok len=0")
			}
			continue
		}
		// cq <g> <method> [v]
		method := f[2]
		var got interface{}
		ok := false
		switch method {
		case "enq":
			v := parseVal(f[3])
			pmsg = hxlib.Guard(func() { q.Enqueue(v.iface()) })
			ref = append(ref, v)
			ans = "ok"
		case "deq", "peek":
			if method == "deq" {
				pmsg = hxlib.Guard(func() { got, ok = q.Dequeue() })
			} else {
				pmsg = hxlib.Guard(func() { got, ok = q.Peek() })
			}
			if ok {
				ans = "v=" + fromIface(got)
			} else {
				ans = "empty"
			}
			if pmsg == "" {
				if len(ref) == 0 && ok {
					fail("cq:"+method+":value-from-empty", fmt.Sprintf("op %d `%s` on an empty queue answered %s", idx, line, ans))
				}
				if len(ref) > 0 && !ok {
					fail("cq:"+method+":lost", fmt.Sprintf("op %d `%s` says empty, %d elements are queued", idx, line, len(ref)))
				}
				if len(ref) > 0 && ok && fromIface(got) != ref[0].String() {
					fail("cq:"+method+":order", fmt.Sprintf("op %d `%s` answered %s, the oldest element is %s", idx, line, fromIface(got), ref[0]))
				}
				if method == "deq" && ok {
					if n, isInt := got.(int); isInt {
						p, s := n/1000000, n%1000000
						if last, seen := lastBy[p]; seen && s <= last {
							fail("cq:producer-order", fmt.Sprintf("op %d: producer %d's element %d was handed out after its element %d", idx, p, s, last))
						}
						lastBy[p] = s
					}
				}
			}
			if method == "deq" && len(ref) > 0 {
				ref = ref[1:]
			}
		case "len":
			n := -1
			pmsg = hxlib.Guard(func() { n = q.Len() })
			ans = fmt.Sprintf("n=%d", n)
			if n != len(ref) {
				fail("cq:len", fmt.Sprintf("op %d Len()=%d, %d elements are queued", idx, n, len(ref)))
			}
		default:
			panic("unknown cq op " + line)
		}
		if pmsg != "" {
			ans = "crash"
			fail("cq:runtime-fault:"+method, fmt.Sprintf("op %d `%s` died: %s", idx, line, pmsg))
		}
		l := q.Len()
		if l != len(ref) {
			fail("cq:len:"+method, fmt.Sprintf("after op %d `%s` Len()=%d, %d elements are queued", idx, line, l, len(ref)))
		}
		if emit {
			r.Op(line, fmt.Sprintf("%s len=%d", ans, l))
		}
		if stats {
			r.Count("cqseq:op:" + method)
		}
	}
	if stats {
		r.NonTrivial("cqseq/" + hashOps(ops))
	}
	return key, what
}

func cqSeqCase(r *hxlib.Run, ops []string) {
	r.Case()
	var key, what string
	if !finishes(func() { key, what = runCQSeq(r, ops, true, true) }) {
		hung(r, "cqseq", ops, func(p []string) { runCQSeq(r, p, false, false) })
	}
	if key == "" {
		return
	}
	keep := hxlib.DDMin(len(ops)-1, func(k []int) bool {
		cand := []string{ops[0]}
		for _, i := range k {
			cand = append(cand, ops[i+1])
		}
		return shrinkTry(func() bool {
			k2, _ := runCQSeq(r, cand, false, false)
			return k2 == key
		})
	})
	small := []string{ops[0]}
	for _, i := range keep {
		small = append(small, ops[i+1])
	}
	k2, w2 := "", ""
	if shrinkTry(func() bool { k2, w2 = runCQSeq(r, small, false, false); return true }) && k2 == key {
		what = w2
	} else {
		small = ops
	}
	r.Fail(key, what+fmt.Sprintf("  [schedule of %d actions]", len(small)), Case{Kind: "cqseq", Ops: small})
}

func genCQSeq(R *hxlib.Rand, nops int) []string {
	ops := []string{"cnew"}
	g := R.Range(1, 8)
	seq := make([]int, g+1)
	bias := R.Pick(30, 50, 50, 70) // share of enqueues
	for len(ops) < nops {
		who := R.Range(1, g)
		x := R.Intn(100)
		switch {
		case x < bias:
			seq[who]++
			ops = append(ops, fmt.Sprintf("cq %d enq %d", who, who*1000000+seq[who]))
		case x < 90:
			ops = append(ops, fmt.Sprintf("cq %d deq", who))
		case x < 95:
			ops = append(ops, fmt.Sprintf("cq %d peek", who))
		default:
			ops = append(ops, fmt.Sprintf("cq %d len", who))
		}
	}
	return ops
}

// ---------------------------------------------------------------------------------------------
// concurrent queue, real goroutines

type stamp struct {
	start, end int64
	p, s       int // producer, sequence number
}

// runCQPar runs P producers × N elements against C consumers and Rd readers (Peek/Len) and checks
// the property on what the consumers received.
func runCQPar(c Case) (key, what string) {
	fail := func(k, w string) {
		if key == "" {
			key, what = k, w
		}
	}
	q := queue.NewUnboundedConcurrentQueue()
	var clk int64
	total := c.P * c.N
	enq := make([][]stamp, c.P)
	deq := make([][]stamp, c.C)
	var producersDone int32
	var stop int32
	var crash atomic.Value
	var wgP, wgC, wgR sync.WaitGroup
	for p := 0; p < c.P; p++ {
		wgP.Add(1)
		go func(p int) {
			defer wgP.Done()
			defer func() {
				if v := recover(); v != nil {
					crash.Store(fmt.Sprint("Enqueue: ", v))
				}
			}()
			mine := make([]stamp, 0, c.N)
			for s := 1; s <= c.N; s++ {
				st := atomic.AddInt64(&clk, 1)
				q.Enqueue(p*1000000 + s)
				en := atomic.AddInt64(&clk, 1)
				mine = append(mine, stamp{st, en, p, s})
				if s%64 == 0 {
					runtime.Gosched()
				}
			}
			enq[p] = mine
		}(p)
	}
	for k := 0; k < c.C; k++ {
		wgC.Add(1)
		go func(k int) {
			defer wgC.Done()
			defer func() {
				if v := recover(); v != nil {
					crash.Store(fmt.Sprint("Dequeue: ", v))
				}
			}()
			var mine []stamp
			for {
				done := atomic.LoadInt32(&producersDone) == 1 // read BEFORE the dequeue: an empty answer after it is final
				st := atomic.AddInt64(&clk, 1)
				v, ok := q.Dequeue()
				en := atomic.AddInt64(&clk, 1)
				if ok {
					n, isInt := v.(int)
					if !isInt {
						mine = append(mine, stamp{st, en, -1, -1})
					} else {
						mine = append(mine, stamp{st, en, n / 1000000, n % 1000000})
					}
					continue
				}
				if done {
					break
				}
				runtime.Gosched()
			}
			deq[k] = mine
		}(k)
	}
	var badRead atomic.Value
	for k := 0; k < c.Rd; k++ {
		wgR.Add(1)
		go func(k int) {
			defer wgR.Done()
			defer func() {
				if v := recover(); v != nil {
					crash.Store(fmt.Sprint("Peek/Len: ", v))
				}
			}()
			for atomic.LoadInt32(&stop) == 0 {
				if n := q.Len(); n < 0 || n > total {
					badRead.Store(fmt.Sprintf("Len()=%d with %d elements ever enqueued", n, total))
				}
				if v, ok := q.Peek(); ok {
					n, isInt := v.(int)
					if !isInt || n/1000000 < 0 || n/1000000 >= c.P || n%1000000 < 1 || n%1000000 > c.N {
						badRead.Store(fmt.Sprintf("Peek() answered %v, which nobody enqueued", v))
					}
				}
				runtime.Gosched()
			}
		}(k)
	}
	wgP.Wait()
	atomic.StoreInt32(&producersDone, 1)
	wgC.Wait()
	atomic.StoreInt32(&stop, 1)
	wgR.Wait()
	if v := crash.Load(); v != nil {
		fail("cqpar:runtime-fault", fmt.Sprintf("a goroutine died in %v", v))
		return
	}
	if v := badRead.Load(); v != nil {
		fail("cqpar:reader", v.(string))
	}
	// nothing lost, nothing duplicated
	seen := map[[2]int]int{}
	got := 0
	for _, l := range deq {
		for _, s := range l {
			seen[[2]int{s.p, s.s}]++
			got++
		}
	}
	for p := 0; p < c.P; p++ {
		for s := 1; s <= c.N; s++ {
			switch n := seen[[2]int{p, s}]; {
			case n == 0:
				fail("cqpar:lost", fmt.Sprintf("element %d of producer %d was enqueued and never dequeued (%d of %d received)", s, p, got, total))
			case n > 1:
				fail("cqpar:duplicated", fmt.Sprintf("element %d of producer %d was dequeued %d times", s, p, n))
			}
		}
	}
	if got != total && key == "" {
		fail("cqpar:invented", fmt.Sprintf("%d elements received, %d enqueued", got, total))
	}
	if n := q.Len(); n != 0 {
		fail("cqpar:len", fmt.Sprintf("Len()=%d after everything was dequeued", n))
	}
	if v, ok := q.Dequeue(); ok {
		fail("cqpar:invented", fmt.Sprintf("Dequeue() on the drained queue answered %v", v))
	}
	// each producer's order, as seen by each consumer (a consumer's dequeues are sequential)
	for k, l := range deq {
		last := map[int]int{}
		for _, s := range l {
			if prev, okp := last[s.p]; okp && s.s <= prev {
				fail("cqpar:producer-order", fmt.Sprintf("consumer %d received element %d of producer %d after element %d", k, s.s, s.p, prev))
			}
			last[s.p] = s.s
		}
	}
	// real-time order across consumers: if the dequeue of (p,i) returned before the dequeue of (p,j)
	// was called, then i < j.  And FIFO across producers: if Enqueue(a) returned before Enqueue(b) was
	// called, Dequeue->b must not have returned before Dequeue->a was called.
	type item struct{ enq, deq stamp }
	items := map[[2]int]*item{}
	for _, l := range enq {
		for _, s := range l {
			items[[2]int{s.p, s.s}] = &item{enq: s}
		}
	}
	for _, l := range deq {
		for _, s := range l {
			if it := items[[2]int{s.p, s.s}]; it != nil {
				it.deq = s
			}
		}
	}
	all := make([]*item, 0, len(items))
	for _, it := range items {
		if it.deq.end != 0 {
			all = append(all, it)
		}
	}
	for p := 0; p < c.P; p++ {
		maxStart, maxSeq := int64(-1), 0
		for s := 1; s <= c.N; s++ {
			it := items[[2]int{p, s}]
			if it == nil || it.deq.end == 0 {
				continue
			}
			if it.deq.end < maxStart {
				fail("cqpar:producer-order-realtime", fmt.Sprintf("producer %d: element %d was dequeued (returned at %d) before the dequeue of its earlier element %d was even called (%d)", p, s, it.deq.end, maxSeq, maxStart))
			}
			if it.deq.start > maxStart {
				maxStart, maxSeq = it.deq.start, s
			}
		}
	}
	byEnqEnd := append([]*item{}, all...)
	sort.Slice(byEnqEnd, func(i, j int) bool { return byEnqEnd[i].enq.end < byEnqEnd[j].enq.end })
	byEnqStart := append([]*item{}, all...)
	sort.Slice(byEnqStart, func(i, j int) bool { return byEnqStart[i].enq.start < byEnqStart[j].enq.start })
	i := 0
	var worst *item
	for _, b := range byEnqStart {
		for i < len(byEnqEnd) && byEnqEnd[i].enq.end < b.enq.start {
			if worst == nil || byEnqEnd[i].deq.start > worst.deq.start {
				worst = byEnqEnd[i]
			}
			i++
		}
		if worst != nil && b.deq.end < worst.deq.start {
			fail("cqpar:fifo-realtime", fmt.Sprintf("(%d,%d) was enqueued strictly before (%d,%d) but dequeued strictly after it", worst.enq.p, worst.enq.s, b.enq.p, b.enq.s))
		}
	}
	return key, what
}

func cqParCase(r *hxlib.Run, c Case) {
	reps := c.Reps
	if reps <= 0 {
		reps = 1
	}
	for k := 0; k < reps; k++ {
		r.Case()
		r.Count(fmt.Sprintf("cqpar:producers=%d", c.P))
		r.Count(fmt.Sprintf("cqpar:consumers=%d", c.C))
		r.CountN("cqpar:elements", c.P*c.N)
		if c.P > 1 && c.C > 1 {
			r.NonTrivial(fmt.Sprintf("cqpar/%d/%d/%d/%d/%d", c.P, c.C, c.N, c.Rd, r.R.U64()))
		}
		var key, what string
		done := make(chan struct{})
		go func() {
			defer close(done)
			key, what = runCQPar(c)
		}()
		// a run takes milliseconds; a run that has not finished after the deadline gets the same time
		// again before the hang is believed (another run would meet another schedule and prove nothing)
		hangs := false
		select {
		case <-done:
		case <-time.After(hangDeadline):
			select {
			case <-done:
			case <-time.After(hangDeadline):
				hangs = true
			}
		}
		if hangs {
			c2 := c
			c2.Reps = 20
			r.Fail("cqpar:hang", fmt.Sprintf("%d producers x %d elements, %d consumers, %d readers: the run has not finished after %v", c.P, c.N, c.C, c.Rd, 2*hangDeadline), c2)
			r.Finish()
			os.Exit(0)
		}
		if key != "" {
			// a lost or duplicated element must be believed only if it is not an artefact: run again
			c2 := c
			c2.Reps = 50
			r.Fail(key, what, c2)
			return
		}
	}
}

// ---------------------------------------------------------------------------------------------

func main() {
	r := hxlib.Start("C12", "a history (deque / unbounded queue) or a schedule (concurrent queue); non-trivial when a deque history crossed a grow, shrink or wrap-around point or rotated a full buffer, a queue history crossed a block boundary (1/16/128), a schedule interleaved several goroutines; distinct by the hash of its op lines")
	defer r.Finish()
	log.SetOutput(io.Discard)
	if r.Replay != "" {
		var c Case
		r.LoadReplay(&c)
		switch c.Kind {
		case "search": // a case of a search leg (search.go): regenerated from its parameters
			var sc SCase
			r.LoadReplay(&sc)
			replaySearch(r, sc)
			r.Sample(sc)
			return
		case "deque":
			dequeCase(r, c.Ops)
		case "uq":
			uqCase(r, c.Ops)
		case "cqseq":
			cqSeqCase(r, c.Ops)
		case "cqpar":
			cqParCase(r, c)
		default:
			panic("unknown case kind " + c.Kind)
		}
		r.Sample(c)
		return
	}
	R := r.R
	if c := queue.NewDeque(1).Cap(); isPow2(c) {
		defaultMin = c
	} else {
		r.Fail("deque:new:cap:pow2", fmt.Sprintf("NewDeque(1).Cap()=%d is not a power of two", c), Case{Kind: "deque", Ops: []string{"dnew 1"}})
	}

	// --- deque: fixed scripts first (every method on the zero value, the documented examples)
	dequeCase(r, []string{"dzero", "popf", "popb", "front", "back", "at 0", "at -1", "set 0 1", "rot 3", "clear", "dump", "smc 3", "pf 1", "dump", "popb", "popb", "dump"})
	dequeCase(r, []string{"dnew", "pb 1", "pb 2", "pb 3", "rot 1", "dump", "rot -1", "dump", "rot -1", "dump", "rot 4", "dump", "rot -5", "dump"})
	dequeCase(r, []string{"dnew 0 64", "dump", "pb 1", "dump", "popf", "dump"})
	dequeCase(r, []string{"dnew 2048 32", "pb 1", "popb", "dump"})
	dequeCase(r, []string{"dzero", "smc 63", "pb 1", "smc 64", "pb 2", "smc 5", "dump", "smc 200", "dump"})
	{
		// fill a buffer completely, clear it, and look at what comes back afterwards
		ops := []string{"dnew 16"}
		for i := 0; i < 16; i++ {
			ops = append(ops, fmt.Sprintf("pf %d", 500+i))
		}
		ops = append(ops, "rot 5", "dump", "clear", "dump", "front", "at 0", "pb 1", "pb 2", "rot 1", "dump", "popf", "popf", "popf")
		dequeCase(r, ops)
	}
	trLeg(r) // tr.go: the translated index arithmetic against the real functions
	// --- deque: every ring offset × length × op
	if r.Thorough() {
		all := func(n int) []int {
			s := make([]int, n)
			for i := range s {
				s[i] = i
			}
			return s
		}
		sweepDeque(r, 16, all(16), all(18))
		sweepDeque(r, 32, all(32), all(34))
		sweepDeque(r, 64, []int{0, 1, 31, 47, 48, 49, 63}, []int{0, 1, 15, 16, 17, 31, 32, 33, 63, 64, 65})
	} else {
		sweepDeque(r, 16, []int{0, 1, 5, 12, 13, 15}, []int{0, 1, 2, 3, 4, 5, 11, 15, 16, 17})
	}
	// --- deque: random walks between the grow/shrink points
	nh := r.Scale(600, 40000)
	for k := 0; k < nh; k++ {
		nops := R.Pick(20, 60, 150, 400)
		if k%50 == 49 {
			nops = 1500
		}
		ops := genDeque(R.Fork(), nops, k%3)
		if k < 2 {
			r.Sample(Case{Kind: "deque", Ops: ops[:min(len(ops), 25)]})
		}
		dequeCase(r, ops)
	}

	// --- unbounded queue
	{
		// straight runs over the block boundaries: push n, pop n, for every n around them
		for _, n := range []int{0, 1, 2, 3, 15, 16, 17, 18, 143, 144, 145, 146, 271, 272, 273, 400} {
			ops := []string{"unew", "upop", "ufront", "ulen"}
			for i := 1; i <= n; i++ {
				ops = append(ops, fmt.Sprintf("upush %d", i))
			}
			ops = append(ops, "ulen", "ufront")
			for i := 0; i <= n; i++ {
				ops = append(ops, "upop")
			}
			ops = append(ops, "ulen", "upush 7", "upush 8", "ufront", "upop", "upop", "upop")
			uqCase(r, ops)
		}
	}
	nu := r.Scale(300, 15000)
	for k := 0; k < nu; k++ {
		ops := genUQ(R.Fork(), R.Pick(30, 100, 400, 1200))
		if k < 1 {
			r.Sample(Case{Kind: "uq", Ops: ops[:min(len(ops), 25)]})
		}
		uqCase(r, ops)
	}

	// --- concurrent queue: deterministic interleavings against the LTS
	nc := r.Scale(300, 15000)
	for k := 0; k < nc; k++ {
		ops := genCQSeq(R.Fork(), R.Pick(20, 80, 300, 900))
		if k < 1 {
			r.Sample(Case{Kind: "cqseq", Ops: ops[:min(len(ops), 25)]})
		}
		cqSeqCase(r, ops)
	}

	// --- element types, machine-word arguments, constructor forms (legs3.go; oracle-only)
	typeLegs(r)
	// --- large one-piece rings: long rotations and capacity changes at every layout (legs4.go; oracle-only)
	bigLegs(r)

	// --- failing-input search legs (search.go). They run before the free-running goroutine cases: a forced schedule
	// (stalled lock holder) gives a replay that reproduces, a lucky free-running one may not.
	if r.Search {
		if r.Failed() {
			r.Note("search legs not run: the thorough generators already produced a failing input")
		} else {
			searchLegs(r)
		}
		if r.Failed() {
			return
		}
	}

	// --- concurrent queue: real goroutines
	old := runtime.GOMAXPROCS(0)
	np := r.Scale(120, 4000)
	for k := 0; k < np; k++ {
		c := Case{Kind: "cqpar", P: R.Range(1, 8), C: R.Range(1, 8), N: R.Pick(1, 5, 17, 40, 150, 300, 1000), Rd: R.Pick(0, 0, 1, 2)}
		if k%10 == 0 {
			c.N = R.Pick(2000, 5000)
		}
		runtime.GOMAXPROCS(R.Pick(1, 2, 4, 4, 8))
		if k < 1 {
			r.Sample(c)
		}
		cqParCase(r, c)
	}
	runtime.GOMAXPROCS(old)
}

func min(a, b int) int {
	if a < b {
		return a
	}
	return b
}
