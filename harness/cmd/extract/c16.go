package main

import (
	"fmt"
	"go/ast"
	"go/constant"
	"go/token"
	"regexp"
	"strconv"
	"strings"
)

func init() { extractors["C16"] = extractC16 }

// C16: x/cipher.  The four hand-unrolled CFB functions of block.go are turned, statement by
// statement and in program order, into the straight-line programs that lean/Fatchoy/Model/C16.lean
// interprets (row encoding: see `decStmt` there):
//
//	[0, r, off, len+1|0]   block.Encrypt(r, data[base+off : base+off+len])      (0: open-ended)
//	[1, dOff, sOff, w, r]  w-byte word at base+dOff = word at base+sOff ^ first w bytes of r
//	[2]                    tbl, next = next, tbl
//	[3, k]                 base += k
//	[4, r]                 xorBytes(data[base:], data[base:], r)
//	[5, r]                 block.Encrypt(r, iv)
//	r: 0 tbl, 1 next (slice variables), 2 / 3 a pointer bound to &tbl[0] / &next[0] before the loop
//
// `dst`/`d` and `src`/`s` are the same memory (every caller passes dst = src; that is checked
// below and emitted as `callersInPlace`), so both sides are "data".  Every statement must match
// one of the shapes completely; anything else is reported as a PROBLEM (broken correspondence).

type c16fn struct {
	p       *Pkg
	o       *Out
	name    string
	hdr     [7]uint64 // tblLen, nextLo, nextHi, div, stride, window, tag
	pre     [][]uint64
	body    [][]uint64
	cases   [][][]uint64
	ptrs    map[string]uint64 // pointer variable -> ref code (2|3)
	ptrW    map[string]uint64 // pointer variable -> width in bytes
	windows map[string]uint64 // window variable (s, d) -> length
	seen    map[string]bool
}

func (f *c16fn) bad(n ast.Node, format string, a ...interface{}) {
	pos := f.p.Fset.Position(n.Pos())
	f.o.problem("block.go:%d %s: %s: `%s`", pos.Line, f.name, fmt.Sprintf(format, a...), oneLine(f.p.Src(n)))
}

func oneLine(s string) string {
	s = strings.Join(strings.Fields(s), " ")
	if len(s) > 160 {
		s = s[:160] + "…"
	}
	return s
}

func (f *c16fn) constU(e ast.Expr) (uint64, bool) {
	if e == nil {
		return 0, false
	}
	if v, ok := f.p.ConstOf(e); ok {
		if u, exact := constant.Uint64Val(constant.ToInt(v)); exact {
			return u, true
		}
	}
	if lit, ok := e.(*ast.BasicLit); ok && lit.Kind == token.INT {
		if u, err := strconv.ParseUint(lit.Value, 0, 64); err == nil {
			return u, true
		}
	}
	return 0, false
}

func isIdent(e ast.Expr, name string) bool {
	id, ok := e.(*ast.Ident)
	return ok && id.Name == name
}

func identName(e ast.Expr) string {
	if id, ok := e.(*ast.Ident); ok {
		return id.Name
	}
	return ""
}

// regVar: tbl -> 0, next -> 1
func regVar(e ast.Expr) (uint64, bool) {
	switch identName(e) {
	case "tbl":
		return 0, true
	case "next":
		return 1, true
	}
	return 0, false
}

func isData(name string) bool { return name == "dst" || name == "src" }

var widthOf = map[string]uint64{"uint64": 8, "int64": 8, "uint32": 4, "int32": 4, "uint16": 2, "int16": 2, "uint8": 1, "byte": 1, "int8": 1}

// ptrCast matches (*T)(unsafe.Pointer(&X[idx])) and returns T's width, X and idx.
func (f *c16fn) ptrCast(e ast.Expr) (w uint64, x ast.Expr, idx ast.Expr, ok bool) {
	call, isCall := e.(*ast.CallExpr)
	if !isCall || len(call.Args) != 1 {
		return
	}
	par, isPar := call.Fun.(*ast.ParenExpr)
	if !isPar {
		return
	}
	star, isStar := par.X.(*ast.StarExpr)
	if !isStar {
		return
	}
	w, okW := widthOf[identName(star.X)]
	if !okW {
		return
	}
	inner, isCall2 := call.Args[0].(*ast.CallExpr)
	if !isCall2 || len(inner.Args) != 1 || f.p.Src(inner.Fun) != "unsafe.Pointer" {
		return
	}
	un, isUn := inner.Args[0].(*ast.UnaryExpr)
	if !isUn || un.Op != token.AND {
		return
	}
	ix, isIx := un.X.(*ast.IndexExpr)
	if !isIx {
		return
	}
	return w, ix.X, ix.Index, true
}

// dataIndex: &d[K] / &s[K] (window) -> K ; &dst[base] / &src[base] -> 0
func (f *c16fn) dataIndex(x, idx ast.Expr) (uint64, bool) {
	name := identName(x)
	if _, isWin := f.windows[name]; isWin {
		return f.constU(idx)
	}
	if isData(name) && isIdent(idx, "base") {
		return 0, true
	}
	return 0, false
}

// dataSlice: d[lo:hi] (window) -> (lo, hi-lo+1) ; d[lo:] -> (lo, window-lo+1) ; dst[base:] -> (0, 0)
func (f *c16fn) dataSlice(e ast.Expr) (off, lenPlus1 uint64, ok bool) {
	sl, isSl := e.(*ast.SliceExpr)
	if !isSl || sl.Slice3 {
		return
	}
	name := identName(sl.X)
	if win, isWin := f.windows[name]; isWin {
		lo := uint64(0)
		if sl.Low != nil {
			v, okLo := f.constU(sl.Low)
			if !okLo {
				return
			}
			lo = v
		}
		hi := win
		if sl.High != nil {
			v, okHi := f.constU(sl.High)
			if !okHi {
				return
			}
			hi = v
		}
		if hi < lo {
			return
		}
		return lo, hi - lo + 1, true
	}
	if isData(name) && isIdent(sl.Low, "base") && sl.High == nil {
		return 0, 0, true
	}
	return
}

// operand of a word xor: *ptr  or  *(*T)(unsafe.Pointer(&tbl[0]))
func (f *c16fn) wordOperand(e ast.Expr) (ref, w uint64, ok bool) {
	star, isStar := e.(*ast.StarExpr)
	if !isStar {
		return
	}
	if name := identName(star.X); name != "" {
		r, okP := f.ptrs[name]
		return r, f.ptrW[name], okP
	}
	w, x, idx, okC := f.ptrCast(star.X)
	if !okC {
		return
	}
	r, okR := regVar(x)
	if z, okZ := f.constU(idx); !okR || !okZ || z != 0 {
		return 0, 0, false
	}
	return r, w, true
}

// stmt translates one statement of a loop body / case clause. fall reports `fallthrough`.
func (f *c16fn) stmt(s ast.Stmt) (row []uint64, fall bool, ok bool) {
	switch s := s.(type) {
	case *ast.BranchStmt:
		if s.Tok == token.FALLTHROUGH {
			return nil, true, true
		}
	case *ast.ExprStmt:
		call, isCall := s.X.(*ast.CallExpr)
		if !isCall {
			break
		}
		fun := f.p.Src(call.Fun)
		switch {
		case fun == "block.Encrypt" && len(call.Args) == 2:
			r, okR := regVar(call.Args[0])
			if !okR {
				break
			}
			if isIdent(call.Args[1], "iv") {
				return []uint64{5, r}, false, true
			}
			off, l, okS := f.dataSlice(call.Args[1])
			if !okS {
				break
			}
			return []uint64{0, r, off, l}, false, true
		case fun == "xorBytes" && len(call.Args) == 3:
			_, l0, ok0 := f.dataSlice(call.Args[0])
			_, l1, ok1 := f.dataSlice(call.Args[1])
			r, okR := regVar(call.Args[2])
			if !ok0 || !ok1 || !okR || l0 != 0 || l1 != 0 {
				break
			}
			return []uint64{4, r}, false, true
		default:
			m := regexp.MustCompile(`^xor\.Bytes(\d+)(Align)?$`).FindStringSubmatch(fun)
			if m == nil || len(call.Args) != 3 {
				break
			}
			w, _ := strconv.ParseUint(m[1], 10, 64)
			d, dl, okD := f.dataSlice(call.Args[0])
			sOff, sl, okS := f.dataSlice(call.Args[1])
			r, okR := regVar(call.Args[2])
			// a bounded slice must hold exactly the word (the library reads/writes w bytes at &x[0])
			if !okD || !okS || !okR || (dl != 0 && dl != w+1) || (sl != 0 && sl != w+1) {
				break
			}
			return []uint64{1, d, sOff, w, r}, false, true
		}
	case *ast.AssignStmt:
		if len(s.Lhs) == 2 && len(s.Rhs) == 2 && s.Tok == token.ASSIGN {
			a, okA := regVar(s.Lhs[0])
			b, okB := regVar(s.Lhs[1])
			c, okC := regVar(s.Rhs[0])
			d, okD := regVar(s.Rhs[1])
			if okA && okB && okC && okD && a != b && c == b && d == a {
				return []uint64{2}, false, true
			}
			break
		}
		if len(s.Lhs) != 1 || len(s.Rhs) != 1 {
			break
		}
		if s.Tok == token.ADD_ASSIGN && isIdent(s.Lhs[0], "base") {
			if k, okK := f.constU(s.Rhs[0]); okK {
				return []uint64{3, k}, false, true
			}
			break
		}
		if s.Tok != token.ASSIGN {
			break
		}
		// *(*T)(unsafe.Pointer(&D[i])) = *(*T)(unsafe.Pointer(&S[j])) ^ operand
		lstar, isStar := s.Lhs[0].(*ast.StarExpr)
		bin, isBin := s.Rhs[0].(*ast.BinaryExpr)
		if !isStar || !isBin || bin.Op != token.XOR {
			break
		}
		wD, xD, iD, okD := f.ptrCast(lstar.X)
		rstar, isStar2 := bin.X.(*ast.StarExpr)
		if !okD || !isStar2 {
			break
		}
		wS, xS, iS, okS := f.ptrCast(rstar.X)
		ref, wR, okR := f.wordOperand(bin.Y)
		if !okS || !okR || wD != wS || wD != wR {
			break
		}
		dOff, ok1 := f.dataIndex(xD, iD)
		sOff, ok2 := f.dataIndex(xS, iS)
		if !ok1 || !ok2 {
			break
		}
		return []uint64{1, dOff, sOff, wD, ref}, false, true
	}
	return nil, false, false
}

// block translates a statement list; window declarations are only allowed at the head of the loop body.
func (f *c16fn) block(list []ast.Stmt, loopBody bool) (rows [][]uint64, fall bool) {
	rows = [][]uint64{}
	for i, s := range list {
		if loopBody {
			if as, ok := s.(*ast.AssignStmt); ok && as.Tok == token.DEFINE && len(as.Lhs) == 1 && len(as.Rhs) == 1 {
				// s := src[base:][0:64]
				outer, ok1 := as.Rhs[0].(*ast.SliceExpr)
				var inner *ast.SliceExpr
				if ok1 {
					inner, ok1 = outer.X.(*ast.SliceExpr)
				}
				if ok1 && isData(identName(inner.X)) && isIdent(inner.Low, "base") && inner.High == nil && !outer.Slice3 && len(rows) == 0 {
					lo, okLo := f.constU(outer.Low)
					hi, okHi := f.constU(outer.High)
					if okLo && okHi && lo == 0 {
						f.windows[identName(as.Lhs[0])] = hi
						if f.hdr[5] != 0 && f.hdr[5] != hi {
							f.bad(s, "the two windows of the loop body differ in length")
						}
						f.hdr[5] = hi
						continue
					}
				}
				f.bad(s, "unrecognised declaration in the loop body")
				continue
			}
		}
		row, ft, ok := f.stmt(s)
		if !ok {
			f.bad(s, "statement does not match any known shape")
			continue
		}
		if ft {
			if i != len(list)-1 {
				f.bad(s, "fallthrough is not the last statement")
			}
			fall = true
			continue
		}
		rows = append(rows, row)
	}
	return rows, fall
}

func (f *c16fn) function(fd *ast.FuncDecl) {
	// parameters must be (block cipher.Block, iv, dst, src, buf []byte)
	var params []string
	for _, fl := range fd.Type.Params.List {
		for _, n := range fl.Names {
			params = append(params, n.Name)
		}
	}
	if strings.Join(params, ",") != "block,iv,dst,src,buf" {
		f.o.problem("%s: parameters are (%s), expected (block, iv, dst, src, buf)", f.name, strings.Join(params, ", "))
	}
	sawLoop, sawSwitch := false, false
	for _, s := range fd.Body.List {
		if sawSwitch {
			f.bad(s, "statement after the tail switch")
			continue
		}
		switch s := s.(type) {
		case *ast.AssignStmt:
			if s.Tok != token.DEFINE || len(s.Lhs) != 1 || len(s.Rhs) != 1 || sawLoop {
				f.bad(s, "unexpected assignment in the prologue")
				continue
			}
			lhs := identName(s.Lhs[0])
			if f.seen[lhs] {
				f.bad(s, "declared twice")
			}
			f.seen[lhs] = true
			switch {
			case lhs == "tbl" || lhs == "next":
				sl, ok := s.Rhs[0].(*ast.SliceExpr)
				if !ok || !isIdent(sl.X, "buf") || sl.Slice3 || sl.High == nil {
					f.bad(s, "register is not a slice of buf")
					continue
				}
				lo := uint64(0)
				if sl.Low != nil {
					lo, _ = f.constU(sl.Low)
				}
				hi, okHi := f.constU(sl.High)
				if !okHi {
					f.bad(s, "register bounds are not constant")
				}
				if lhs == "tbl" {
					if lo != 0 {
						f.bad(s, "tbl does not start at buf[0]")
					}
					f.hdr[0] = hi
				} else {
					f.hdr[1], f.hdr[2] = lo, hi
				}
			case lhs == "n":
				bin, ok := s.Rhs[0].(*ast.BinaryExpr)
				if !ok || bin.Op != token.QUO || f.p.Src(bin.X) != "len(src)" {
					f.bad(s, "n is not len(src) / constant")
					continue
				}
				f.hdr[3], _ = f.constU(bin.Y)
			case lhs == "base":
				if z, ok := f.constU(s.Rhs[0]); !ok || z != 0 {
					f.bad(s, "base does not start at 0")
				}
			default:
				w, x, idx, ok := f.ptrCast(s.Rhs[0])
				r, okR := regVar(x)
				z, okZ := f.constU(idx)
				if !ok || !okR || !okZ || z != 0 {
					f.bad(s, "unrecognised prologue declaration")
					continue
				}
				f.ptrs[lhs], f.ptrW[lhs] = 2+r, w
			}
		case *ast.ExprStmt:
			row, _, ok := f.stmt(s)
			if !ok || sawLoop {
				f.bad(s, "unexpected statement in the prologue")
				continue
			}
			if !f.seen["tbl"] {
				f.bad(s, "block.Encrypt before tbl is declared")
			}
			f.pre = append(f.pre, row)
		case *ast.ForStmt:
			if sawLoop {
				f.bad(s, "second loop")
				continue
			}
			sawLoop = true
			okInit := s.Init != nil && oneLine(f.p.Src(s.Init)) == "i := 0"
			okPost := s.Post != nil && oneLine(f.p.Src(s.Post)) == "i++"
			cond, okCond := s.Cond.(*ast.BinaryExpr)
			var q *ast.BinaryExpr
			if okCond {
				q, okCond = cond.Y.(*ast.BinaryExpr)
			}
			if !okInit || !okPost || !okCond || cond.Op != token.LSS || !isIdent(cond.X, "i") || q.Op != token.QUO || !isIdent(q.X, "n") {
				f.bad(s.Cond, "loop header is not `for i := 0; i < n/S; i++`")
				continue
			}
			f.hdr[4], _ = f.constU(q.Y)
			var fall bool
			f.body, fall = f.block(s.Body.List, true)
			if fall {
				f.bad(s, "fallthrough in the loop body")
			}
			f.windows = map[string]uint64{} // s and d are scoped to the loop body
		case *ast.SwitchStmt:
			sawSwitch = true
			tag, ok := s.Tag.(*ast.BinaryExpr)
			if s.Init != nil || !ok || tag.Op != token.REM || !isIdent(tag.X, "n") {
				f.bad(s, "tail switch tag is not `n % S`")
				continue
			}
			f.hdr[6], _ = f.constU(tag.Y)
			for _, c := range s.Body.List {
				cc := c.(*ast.CaseClause)
				if len(cc.List) != 1 {
					f.bad(cc, "case clause without exactly one label (a default clause is not modelled)")
					continue
				}
				label, okL := f.constU(cc.List[0])
				if !okL {
					f.bad(cc, "case label is not a constant")
				}
				rows, fall := f.block(cc.Body, false)
				fl := uint64(0)
				if fall {
					fl = 1
				}
				f.cases = append(f.cases, append([][]uint64{{label, fl}}, rows...))
			}
		default:
			f.bad(s, "unexpected top-level statement")
		}
	}
	if !sawLoop || !sawSwitch {
		f.o.problem("%s: stride loop or tail switch not found", f.name)
	}
}

func rows2(rows [][]uint64) string {
	parts := make([]string, len(rows))
	for i, r := range rows {
		nums := make([]string, len(r))
		for j, x := range r {
			nums[j] = fmt.Sprint(x)
		}
		parts[i] = "[" + strings.Join(nums, ", ") + "]"
	}
	return "[" + strings.Join(parts, ", ") + "]"
}

func rows3(rows [][][]uint64) string {
	parts := make([]string, len(rows))
	for i, r := range rows {
		parts[i] = rows2(r)
	}
	return "[" + strings.Join(parts, ",\n  ") + "]"
}

func strList(v []string) string {
	parts := make([]string, len(v))
	for i, s := range v {
		parts[i] = leanString(s)
	}
	return "[" + strings.Join(parts, ", ") + "]"
}

func (o *Out) raw(name, typ, value, from string) {
	o.Facts = append(o.Facts, Fact{name, typ, value, from})
}

// dispatcher: switch block.BlockSize() { case 8: f8(block, iv, dst, src, buf) … default: panic(…) }
func c16dispatch(p *Pkg, o *Out, name, prefix string) {
	var sizes []uint64
	var hdrs, pres, bodies, funcs []string
	var cases []string
	fd := p.Func("", name)
	if fd == nil {
		o.problem("func %s not found in x/cipher", name)
	} else if len(fd.Body.List) != 1 {
		o.problem("%s: body is not a single switch", name)
	} else if sw, ok := fd.Body.List[0].(*ast.SwitchStmt); !ok || sw.Init != nil || sw.Tag == nil || p.Src(sw.Tag) != "block.BlockSize()" {
		o.problem("%s: body is not `switch block.BlockSize()`", name)
	} else {
		sawDefault := false
		for _, c := range sw.Body.List {
			cc := c.(*ast.CaseClause)
			if cc.List == nil {
				sawDefault = true
				if len(cc.Body) != 1 || !strings.HasPrefix(p.Src(cc.Body[0]), "panic(") {
					o.problem("%s: the default clause does not panic", name)
				}
				continue
			}
			f := &c16fn{p: p, o: o, ptrs: map[string]uint64{}, ptrW: map[string]uint64{}, windows: map[string]uint64{}, seen: map[string]bool{}}
			var size uint64
			okShape := len(cc.List) == 1 && len(cc.Body) == 1
			if okShape {
				size, okShape = f.constU(cc.List[0])
			}
			var call *ast.CallExpr
			if okShape {
				es, isEs := cc.Body[0].(*ast.ExprStmt)
				if isEs {
					call, _ = es.X.(*ast.CallExpr)
				}
			}
			if call == nil || len(call.Args) != 5 || identName(call.Fun) == "" {
				o.problem("%s: case clause is not `case N: f(block, iv, dst, src, buf)`: %s", name, oneLine(p.Src(cc)))
				continue
			}
			var args []string
			for _, a := range call.Args {
				args = append(args, identName(a))
			}
			if strings.Join(args, ",") != "block,iv,dst,src,buf" {
				o.problem("%s: case %d passes (%s)", name, size, strings.Join(args, ", "))
			}
			f.name = identName(call.Fun)
			callee := p.Func("", f.name)
			if callee == nil {
				o.problem("%s: callee %s not found", name, f.name)
				continue
			}
			f.function(callee)
			sizes = append(sizes, size)
			funcs = append(funcs, f.name)
			hdrs = append(hdrs, strings.TrimSuffix(strings.TrimPrefix(rows2([][]uint64{f.hdr[:]}), "["), "]"))
			pres = append(pres, rows2(f.pre))
			bodies = append(bodies, rows2(f.body))
			cases = append(cases, rows3(f.cases))
		}
		if !sawDefault {
			o.problem("%s: no default clause (an unsupported block size would be ignored silently)", name)
		}
	}
	o.natList(prefix+"Sizes", sizes, "block.go "+name+": labels of `switch block.BlockSize()` in case order (default: panic)")
	o.raw(prefix+"Funcs", "List String", strList(funcs), "block.go "+name+": the function each case calls with (block, iv, dst, src, buf)")
	o.raw(prefix+"Hdrs", "List (List Nat)", "["+strings.Join(hdrs, ", ")+"]", "per function: [len of tbl := buf[:_], lo, hi of next := buf[lo:hi], d of n := len(src)/d, S of i < n/S, window of src[base:][0:_], S of switch n % S]")
	o.raw(prefix+"Pres", "List (List (List Nat))", "["+strings.Join(pres, ",\n  ")+"]", "per function: effectful statements before the loop")
	o.raw(prefix+"Bodies", "List (List (List Nat))", "["+strings.Join(bodies, ",\n  ")+"]", "per function: the statements of the stride loop body in program order")
	o.raw(prefix+"Cases", "List (List (List (List Nat)))", "["+strings.Join(cases, ",\n\n  ")+"]", "per function: the clauses of the tail switch in source order, each [label, fallthrough] :: statements")
}

const c16xorBytes = `{ n := len(a) if len(b) < n { n = len(b) } if n == 0 { return 0 } for i := 0; i < n; i++ { dst[i] = a[i] ^ b[i] } return n }`

func extractC16(repo string, o *Out) {
	p, err := load(repo, "x/cipher")
	if err != nil {
		o.problem("load: %v", err)
		return
	}
	c16dispatch(p, o, "encrypt", "enc")
	c16dispatch(p, o, "decrypt", "dec")

	// xorBytes: min-length byte-wise xor
	okXB := false
	if fd := p.Func("", "xorBytes"); fd == nil {
		o.problem("func xorBytes not found")
	} else {
		okXB = oneLine(p.Src(fd.Body)) == c16xorBytes
	}
	o.bool("xorBytesIsMinLenXor", okXB, "block.go xorBytes(dst, a, b): dst[i] = a[i] ^ b[i] for i < min(len(a), len(b))")

	// `xor` is templexxx/xorsimd in block.go
	xorsimd := false
	for _, f := range p.Files {
		for _, im := range f.Imports {
			if im.Path.Value == `"github.com/templexxx/xorsimd"` && im.Name != nil && im.Name.Name == "xor" {
				xorsimd = true
			}
		}
	}
	o.bool("xorIsXorsimd", xorsimd, "block.go imports github.com/templexxx/xorsimd as xor (BytesNAlign = N-byte xor at &x[0])")

	// the cryptor types whose Encrypt/Decrypt call the cores
	inPlace, pkgOK := true, true
	var encBlocks, decBlocks []uint64
	var types []string
	for _, f := range p.Files {
		for _, d := range f.Decls {
			fd, ok := d.(*ast.FuncDecl)
			if !ok || fd.Recv == nil || fd.Name.Name != "Encrypt" || len(p.Calls(fd, "encrypt")) == 0 {
				continue
			}
			t := fd.Recv.List[0].Type
			if s, ok := t.(*ast.StarExpr); ok {
				t = s.X
			}
			types = append(types, identName(t))
		}
	}
	for _, tn := range types {
		for _, m := range []struct{ meth, core, buf string }{{"Encrypt", "encrypt", "encbuf"}, {"Decrypt", "decrypt", "decbuf"}} {
			fd := p.Func(tn, m.meth)
			if fd == nil || len(fd.Recv.List[0].Names) != 1 || len(fd.Type.Params.List) != 1 || len(fd.Type.Params.List[0].Names) != 1 {
				o.problem("%s.%s not found or of unexpected signature", tn, m.meth)
				inPlace = false
				continue
			}
			rc, arg := fd.Recv.List[0].Names[0].Name, fd.Type.Params.List[0].Names[0].Name
			want := fmt.Sprintf("{ %s(%s.block, %s.iv, %s, %s, %s.%s[:]) return %s }", m.core, rc, rc, arg, arg, rc, m.buf, arg)
			if got := oneLine(p.Src(fd.Body)); got != want {
				o.problem("%s.%s is `%s`, expected `%s`", tn, m.meth, got, want)
				inPlace = false
			}
		}
		// struct fields encbuf [X.BlockSize]byte, decbuf [2 * X.BlockSize]byte; constructor uses X.New…Cipher
		var st *ast.StructType
		for _, f := range p.Files {
			ast.Inspect(f, func(n ast.Node) bool {
				if ts, ok := n.(*ast.TypeSpec); ok && ts.Name.Name == tn {
					st, _ = ts.Type.(*ast.StructType)
				}
				return true
			})
		}
		eb, db, pkgE, pkgD := uint64(0), uint64(0), "", ""
		if st != nil {
			for _, fl := range st.Fields.List {
				at, ok := fl.Type.(*ast.ArrayType)
				if !ok || at.Len == nil || !isIdent(at.Elt, "byte") {
					continue
				}
				for _, n := range fl.Names {
					ls := oneLine(p.Src(at.Len))
					if m := regexp.MustCompile(`^(?:(\d+) \* )?(\w+)\.BlockSize$`).FindStringSubmatch(ls); m != nil {
						k := uint64(1)
						if m[1] != "" {
							k, _ = strconv.ParseUint(m[1], 10, 64)
						}
						if n.Name == "encbuf" {
							eb, pkgE = k, m[2]
						} else if n.Name == "decbuf" {
							db, pkgD = k, m[2]
						}
					}
				}
			}
		}
		encBlocks, decBlocks = append(encBlocks, eb), append(decBlocks, db)
		// the constructor: the function whose body builds &tn{…}
		ctorPkg := ""
		for _, f := range p.Files {
			for _, d := range f.Decls {
				fd, ok := d.(*ast.FuncDecl)
				if !ok || fd.Recv != nil || fd.Body == nil || !strings.Contains(p.Src(fd.Body), "&"+tn+"{") {
					continue
				}
				ast.Inspect(fd.Body, func(n ast.Node) bool {
					if c, ok := n.(*ast.CallExpr); ok {
						if se, ok := c.Fun.(*ast.SelectorExpr); ok && strings.HasPrefix(se.Sel.Name, "New") && strings.HasSuffix(se.Sel.Name, "Cipher") {
							ctorPkg = identName(se.X)
						}
					}
					return true
				})
			}
		}
		if pkgE == "" || pkgE != pkgD || pkgE != ctorPkg {
			o.problem("%s: scratch arrays are sized by %q/%q but the block comes from package %q", tn, pkgE, pkgD, ctorPkg)
			pkgOK = false
		}
	}
	if len(types) == 0 {
		o.problem("no cryptor type calls encrypt")
		inPlace = false
	}
	o.raw("cryptorTypes", "List String", strList(types), "x/cipher: the types whose Encrypt calls the CFB core")
	o.bool("callersInPlace", inPlace, "every such type: Encrypt is `encrypt(c.block, c.iv, src, src, c.encbuf[:]); return src`, Decrypt the same with decrypt/decbuf")
	o.bool("bufPkgMatchesBlock", pkgOK, "every such type: encbuf/decbuf are sized by the BlockSize of the package its block comes from")
	o.natList("encBufBlocks", encBlocks, "per type: k of encbuf [k * X.BlockSize]byte")
	o.natList("decBufBlocks", decBlocks, "per type: k of decbuf [k * X.BlockSize]byte")

	// NewCrypt
	var names, ctors []string
	var keyLens []uint64
	if fd := p.Func("", "NewCrypt"); fd == nil {
		o.problem("func NewCrypt not found")
	} else if sw, ok := fd.Body.List[0].(*ast.SwitchStmt); !ok || len(fd.Body.List) != 1 || !isIdent(sw.Tag, "name") {
		o.problem("NewCrypt: body is not a single `switch name`")
	} else {
		for _, c := range sw.Body.List {
			cc := c.(*ast.CaseClause)
			name := ""
			if cc.List != nil {
				if len(cc.List) != 1 {
					o.problem("NewCrypt: a clause with several labels: %s", oneLine(p.Src(cc)))
					continue
				}
				v, ok := p.ConstOf(cc.List[0])
				if !ok || v.Kind() != constant.String {
					o.problem("NewCrypt: label is not a string constant: %s", oneLine(p.Src(cc.List[0])))
					continue
				}
				name = constant.StringVal(v)
			}
			var call *ast.CallExpr
			if len(cc.Body) == 1 {
				if rs, ok := cc.Body[0].(*ast.ReturnStmt); ok && len(rs.Results) == 1 {
					call, _ = rs.Results[0].(*ast.CallExpr)
				}
			}
			if call == nil || len(call.Args) != 2 || identName(call.Fun) == "" || !isIdent(call.Args[1], "iv") {
				o.problem("NewCrypt: clause %q is not `return Ctor(key…, iv)`", name)
				continue
			}
			kl := uint64(0)
			if !isIdent(call.Args[0], "key") {
				sl, ok := call.Args[0].(*ast.SliceExpr)
				f := &c16fn{p: p, o: o}
				var okK bool
				if ok && isIdent(sl.X, "key") && sl.Low == nil && !sl.Slice3 {
					kl, okK = f.constU(sl.High)
				}
				if !okK {
					o.problem("NewCrypt: clause %q: key argument is neither key nor key[:K]", name)
					continue
				}
			}
			names, ctors, keyLens = append(names, name), append(ctors, identName(call.Fun)), append(keyLens, kl)
		}
	}
	o.raw("factoryNames", "List String", strList(names), `cipher.go NewCrypt: case labels in order ("" = default)`)
	o.raw("factoryCtors", "List String", strList(ctors), "cipher.go NewCrypt: constructor called by each clause")
	o.natList("factoryKeyLens", keyLens, "cipher.go NewCrypt: K of key[:K] passed by each clause (0 = the whole key)")

	// salsa20.go / non.go
	decIsEnc, salsaInPlace := false, false
	if fd := p.Func("salsa20Crypt", "Decrypt"); fd != nil {
		decIsEnc = oneLine(p.Src(fd.Body)) == "{ return c.Encrypt(data) }"
	} else {
		o.problem("salsa20Crypt.Decrypt not found")
	}
	if fd := p.Func("salsa20Crypt", "Encrypt"); fd != nil {
		salsaInPlace = oneLine(p.Src(fd.Body)) == "{ salsa20.XORKeyStream(data, data, c.nonce[:], &c.key) return data }"
	} else {
		o.problem("salsa20Crypt.Encrypt not found")
	}
	o.bool("salsaDecIsEnc", decIsEnc, "salsa20.go Decrypt is `return c.Encrypt(data)`")
	o.bool("salsaInPlace", salsaInPlace, "salsa20.go Encrypt is `salsa20.XORKeyStream(data, data, c.nonce[:], &c.key); return data`")
	nonceLen, keyLen := uint64(0), uint64(0)
	for _, f := range p.Files {
		ast.Inspect(f, func(n ast.Node) bool {
			ts, ok := n.(*ast.TypeSpec)
			if !ok || ts.Name.Name != "salsa20Crypt" {
				return true
			}
			if st, ok := ts.Type.(*ast.StructType); ok {
				for _, fl := range st.Fields.List {
					at, ok := fl.Type.(*ast.ArrayType)
					if !ok || at.Len == nil {
						continue
					}
					f := &c16fn{p: p, o: o}
					l, _ := f.constU(at.Len)
					for _, nm := range fl.Names {
						if nm.Name == "nonce" {
							nonceLen = l
						} else if nm.Name == "key" {
							keyLen = l
						}
					}
				}
			}
			return false
		})
	}
	o.nat("salsaNonceLen", nonceLen, "salsa20.go: length of the nonce array (x/crypto accepts 8 or 24)")
	o.nat("salsaKeyLen", keyLen, "salsa20.go: length of the key array")
	ident := true
	for _, m := range []string{"Encrypt", "Decrypt"} {
		fd := p.Func("noneCrypt", m)
		if fd == nil || oneLine(p.Src(fd.Body)) != "{ return src }" || len(fd.Type.Params.List) != 1 || fd.Type.Params.List[0].Names[0].Name != "src" {
			ident = false
		}
	}
	o.bool("noneIdentity", ident, "non.go: Encrypt and Decrypt are `return src`")
}
