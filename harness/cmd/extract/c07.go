package main

import (
	"go/ast"
	"go/constant"
	"go/types"
	"strconv"
	"strings"
)

func init() { extractors["C07"] = extractC07 }

// oneLine prints a node and collapses all white space.
func (p *Pkg) oneLine(n ast.Node) string {
	return strings.Join(strings.Fields(p.Src(n)), " ")
}

func (p *Pkg) stmts(list []ast.Stmt) string {
	parts := make([]string, len(list))
	for i, s := range list {
		parts[i] = p.oneLine(s)
	}
	return strings.Join(parts, "; ")
}

// typeSwitchTable lists the clauses of the first type switch of a function as
// "T1, T2 => statements" (default clause: "default => ...").
func (p *Pkg) typeSwitchTable(o *Out, recv, name string) (keys, bodies []string) {
	fd := p.Func(recv, name)
	if fd == nil || fd.Body == nil {
		o.problem("method %s.%s not found", recv, name)
		return nil, nil
	}
	var ts *ast.TypeSwitchStmt
	ast.Inspect(fd.Body, func(n ast.Node) bool {
		if t, ok := n.(*ast.TypeSwitchStmt); ok && ts == nil {
			ts = t
			return false
		}
		return ts == nil
	})
	if ts == nil {
		o.problem("%s.%s: no type switch found", recv, name)
		return nil, nil
	}
	for _, c := range ts.Body.List {
		cc := c.(*ast.CaseClause)
		key := "default"
		if cc.List != nil {
			ks := make([]string, len(cc.List))
			for i, e := range cc.List {
				ks[i] = p.oneLine(e)
			}
			key = strings.Join(ks, ", ")
		}
		keys = append(keys, key)
		bodies = append(bodies, p.stmts(cc.Body))
	}
	return keys, bodies
}

func (o *Out) strList(name string, v []string, from string) {
	parts := make([]string, len(v))
	for i, x := range v {
		parts[i] = leanString(x)
	}
	o.Facts = append(o.Facts, Fact{name, "List String", "[" + strings.Join(parts, ", ") + "]", from})
}

func (o *Out) table(name string, keys, bodies []string, from string) {
	o.strList(name+"Keys", keys, from+" — the case lists of the type switch")
	o.strList(name+"Bodies", bodies, from+" — the statements of each case")
}

func (p *Pkg) bodySrc(o *Out, recv, name string) string {
	fd := p.Func(recv, name)
	if fd == nil || fd.Body == nil {
		o.problem("function %s.%s not found", recv, name)
		return "?"
	}
	return p.stmts(fd.Body.List)
}

// packet values: flag constants, the type switches of SetBody / BodyTo*, the number formats, the
// varint buffer size, Errno/SetErrno, the reply/refuse constructors, and the receiver's error branch.
func extractC07(repo string, o *Out) {
	root, err := load(repo, ".")
	if err != nil {
		o.problem("load root: %v", err)
		return
	}
	o.nat("pflagCompressed", root.ConstU(o, "PFlagCompressed"), "packet.go const PFlagCompressed")
	o.nat("pflagEncrypted", root.ConstU(o, "PFlagEncrypted"), "packet.go const PFlagEncrypted")
	o.nat("pflagError", root.ConstU(o, "PFlagError"), "packet.go const PFlagError")
	o.nat("ptypePacket", uint64(root.ConstI(o, "PTypePacket")), "packet.go const PTypePacket")
	o.nat("intSize", uint64(strconv.IntSize), "bits of Go's int/uint on the platform of the run")

	p, err := load(repo, "packet")
	if err != nil {
		o.problem("load packet: %v", err)
		return
	}
	k, b := p.typeSwitchTable(o, "Packet", "SetBody")
	o.table("setBody", k, b, "packet/packet_encode.go SetBody")
	k, b = p.typeSwitchTable(o, "Packet", "BodyToInt")
	o.table("bodyToInt", k, b, "packet/packet_encode.go BodyToInt")
	k, b = p.typeSwitchTable(o, "Packet", "BodyToFloat")
	o.table("bodyToFloat", k, b, "packet/packet_encode.go BodyToFloat")
	k, b = p.typeSwitchTable(o, "Packet", "BodyToString")
	o.table("bodyToString", k, b, "packet/packet_encode.go BodyToString")
	k, b = p.typeSwitchTable(o, "Packet", "BodyToBytes")
	o.table("bodyToBytes", k, b, "packet/packet_encode.go BodyToBytes")
	hasNil := false
	for _, key := range k {
		for _, t := range strings.Split(key, ", ") {
			if t == "nil" {
				hasNil = true
			}
		}
	}
	o.bool("bodyToBytesHasNil", hasNil, "packet/packet_encode.go BodyToBytes: the type switch has a `case nil`")

	// number formats
	base := uint64(0)
	if fd := p.Func("Packet", "BodyToString"); fd != nil {
		if calls := p.Calls(fd, "strconv.FormatInt"); len(calls) == 1 && len(calls[0].Args) == 2 {
			if v, ok := p.ConstOf(calls[0].Args[1]); ok {
				base, _ = constant.Uint64Val(constant.ToInt(v))
			} else {
				o.problem("BodyToString: base of strconv.FormatInt is not constant")
			}
		} else {
			o.problem("BodyToString: expected exactly one strconv.FormatInt(v, base)")
		}
	}
	o.nat("formatIntBase", base, "base argument of strconv.FormatInt in BodyToString")
	pbase, pbits := uint64(0), uint64(0)
	if fd := p.Func("Packet", "BodyToInt"); fd != nil {
		if calls := p.Calls(fd, "strconv.ParseInt"); len(calls) == 1 && len(calls[0].Args) == 3 {
			if v, ok := p.ConstOf(calls[0].Args[1]); ok {
				pbase, _ = constant.Uint64Val(constant.ToInt(v))
			}
			if v, ok := p.ConstOf(calls[0].Args[2]); ok {
				pbits, _ = constant.Uint64Val(constant.ToInt(v))
			}
		} else {
			o.problem("BodyToInt: expected exactly one strconv.ParseInt(v, base, bits)")
		}
	}
	o.nat("parseIntBase", pbase, "base argument of strconv.ParseInt in BodyToInt")
	o.nat("parseIntBits", pbits, "bitSize argument of strconv.ParseInt in BodyToInt")

	// the varint scratch arrays
	for _, fn := range []string{"encodeInt64", "encodeUint64"} {
		n := uint64(0)
		fd := p.Func("", fn)
		if fd == nil {
			o.problem("func %s not found", fn)
		} else {
			ast.Inspect(fd, func(x ast.Node) bool {
				if vs, ok := x.(*ast.ValueSpec); ok && vs.Type != nil {
					if tv, ok := p.Info.Types[vs.Type]; ok && tv.Type != nil {
						if a, ok := tv.Type.Underlying().(*types.Array); ok {
							n = uint64(a.Len())
						}
					}
				}
				return true
			})
			if n == 0 {
				o.problem("%s: no fixed-size scratch array found", fn)
			}
		}
		o.nat(fn+"BufLen", n, "packet/packet_encode.go "+fn+": length of the scratch array the varint is written to")
		o.str(fn+"Src", p.bodySrc(o, "", fn), "packet/packet_encode.go "+fn)
	}

	// error code
	errnoSrc := p.bodySrc(o, "Packet", "Errno")
	o.str("errnoSrc", errnoSrc, "packet/packet.go Errno")
	o.bool("errnoFromBody", strings.Contains(errnoSrc, "m.Body_.(int64)") && !strings.Contains(errnoSrc, "m.Cmd"),
		"packet/packet.go Errno reads the int64 body (and not the command)")
	o.str("setErrnoSrc", p.bodySrc(o, "Packet", "SetErrno"), "packet/packet.go SetErrno")

	// constructors
	o.str("newSrc", p.bodySrc(o, "", "New"), "packet/packet.go New")
	o.str("replyWithSrc", p.bodySrc(o, "Packet", "ReplyWith"), "packet/packet.go ReplyWith")
	o.str("replySrc", p.bodySrc(o, "Packet", "Reply"), "packet/packet.go Reply")
	o.str("refuseSrc", p.bodySrc(o, "Packet", "Refuse"), "packet/packet.go Refuse")
	o.str("refuseWithSrc", p.bodySrc(o, "Packet", "RefuseWith"), "packet/packet.go RefuseWith")

	// receiver: the tail of unmarshalPacketBody (error flag -> varint -> SetBody) and the codecs' guard
	c, err := load(repo, "codec")
	if err != nil {
		o.problem("load codec: %v", err)
		return
	}
	tail := "?"
	if fd := c.Func("", "unmarshalPacketBody"); fd == nil || fd.Body == nil {
		o.problem("func unmarshalPacketBody not found")
	} else {
		// the last `if` of the body is the error-flag branch
		for i := len(fd.Body.List) - 1; i >= 0; i-- {
			if is, ok := fd.Body.List[i].(*ast.IfStmt); ok {
				tail = c.oneLine(is)
				break
			}
		}
	}
	o.str("unmarshalErrBranch", tail, "codec/marshal.go unmarshalPacketBody: the branch that turns the body into the error code")
	for _, cd := range []string{"codecV1", "codecV2"} {
		guard := "?"
		if fd := c.Func(cd, "UnmarshalPacket"); fd == nil || fd.Body == nil {
			o.problem("method %s.UnmarshalPacket not found", cd)
		} else {
			for _, s := range fd.Body.List {
				if is, ok := s.(*ast.IfStmt); ok && len(c.Calls(is, "unmarshalPacketBody")) == 1 {
					guard = c.oneLine(is)
				}
			}
		}
		o.str(cd+"BodyGuard", guard, "codec "+cd+".UnmarshalPacket: when the body is handed to unmarshalPacketBody")
	}
}
