package main

import (
	"fmt"
	"go/ast"
	"go/constant"
	"go/token"
	"go/types"
	"regexp"
	"sort"
	"strconv"
	"strings"
)

func init() { extractors["C07"] = extractC07 }

var localMark = regexp.MustCompile(`_L[0-9]+_`)

// renumber names the placeholders `normalise` put in for locally declared names _v0, _v1, … in
// order of first occurrence in the fragment.
func renumber(text string) string {
	num := map[string]string{}
	return localMark.ReplaceAllStringFunc(text, func(m string) string {
		if _, ok := num[m]; !ok {
			num[m] = fmt.Sprintf("_v%d", len(num))
		}
		return num[m]
	})
}

func (p *Pkg) rawLine(n ast.Node) string { return strings.Join(strings.Fields(p.Src(n)), " ") }

// oneLine prints a node and collapses all white space.
func (p *Pkg) oneLine(n ast.Node) string { return renumber(p.rawLine(n)) }

// stmts prints a statement list as one fragment.
func (p *Pkg) stmts(list []ast.Stmt) string {
	parts := make([]string, len(list))
	for i, s := range list {
		parts[i] = p.rawLine(s)
	}
	return renumber(strings.Join(parts, "; "))
}

// normalise rewrites a function declaration in place so that its printed form does not depend on the
// names chosen for things declared inside it: the receiver becomes _r, the parameters _p0, _p1, … by
// position, locals become _v0, _v1, … in order of first occurrence in each printed fragment (identifiers are resolved with
// go/types, so fields, package names, constants and functions keep their names), and the argument of every call of the builtin
// panic is elided (the models depend on *that* a branch panics, not on the message). The returned
// function undoes the rewrite. Source pinned in the Lean side-conditions is printed from this form.
func (p *Pkg) normalise(fd *ast.FuncDecl) (restore func()) {
	lo, hi := fd.Pos(), fd.End()
	inside := func(pos token.Pos) bool { return pos != token.NoPos && lo <= pos && pos < hi }
	decl := map[*ast.Ident]token.Pos{}
	// symbolic variables of type switches have no entry in Defs; their uses resolve to implicit
	// per-clause objects positioned at the symbolic identifier
	ast.Inspect(fd, func(n ast.Node) bool {
		if ts, ok := n.(*ast.TypeSwitchStmt); ok {
			if as, ok := ts.Assign.(*ast.AssignStmt); ok && len(as.Lhs) == 1 {
				if id, ok := as.Lhs[0].(*ast.Ident); ok {
					decl[id] = id.Pos()
				}
			}
		}
		return true
	})
	ast.Inspect(fd, func(n ast.Node) bool {
		id, ok := n.(*ast.Ident)
		if !ok || id == fd.Name || id.Name == "_" {
			return true
		}
		if _, done := decl[id]; done {
			return true
		}
		if obj := p.Info.Defs[id]; obj != nil {
			if inside(obj.Pos()) {
				decl[id] = obj.Pos()
			}
		} else if obj := p.Info.Uses[id]; obj != nil && inside(obj.Pos()) {
			decl[id] = obj.Pos()
		}
		return true
	})
	var poss []token.Pos
	seen := map[token.Pos]bool{}
	for _, pos := range decl {
		if !seen[pos] {
			seen[pos] = true
			poss = append(poss, pos)
		}
	}
	sort.Slice(poss, func(i, j int) bool { return poss[i] < poss[j] })
	var recvPos token.Pos
	if fd.Recv != nil && len(fd.Recv.List) == 1 && len(fd.Recv.List[0].Names) == 1 {
		recvPos = fd.Recv.List[0].Names[0].Pos()
	}
	names := map[token.Pos]string{}
	paramName := map[token.Pos]string{} // parameters keep their position: _p0, _p1, …
	if fd.Type.Params != nil {
		i := 0
		for _, f := range fd.Type.Params.List {
			for _, n := range f.Names {
				paramName[n.Pos()] = fmt.Sprintf("_p%d", i)
				i++
			}
		}
	}
	for _, pos := range poss {
		if pos == recvPos {
			names[pos] = "_r"
		} else if pn, ok := paramName[pos]; ok {
			names[pos] = pn
		} else {
			names[pos] = fmt.Sprintf("_L%d_", int(pos)) // numbered per printed fragment by oneLine
		}
	}
	type savedName struct {
		id   *ast.Ident
		name string
	}
	type savedArgs struct {
		c    *ast.CallExpr
		args []ast.Expr
	}
	var sn []savedName
	var sa []savedArgs
	for id, pos := range decl {
		sn = append(sn, savedName{id, id.Name})
		id.Name = names[pos]
	}
	ast.Inspect(fd, func(n ast.Node) bool {
		if c, ok := n.(*ast.CallExpr); ok {
			if f, ok := c.Fun.(*ast.Ident); ok && f.Name == "panic" {
				if _, isBuiltin := p.Info.Uses[f].(*types.Builtin); isBuiltin {
					sa = append(sa, savedArgs{c, c.Args})
					c.Args = []ast.Expr{&ast.Ident{Name: "..."}}
					return false
				}
			}
		}
		return true
	})
	return func() {
		for _, x := range sn {
			x.id.Name = x.name
		}
		for _, x := range sa {
			x.c.Args = x.args
		}
	}
}

// typeSwitchTable lists the clauses of the first type switch of a function as
// "T1, T2 => statements" (default clause: "default => ...").
func (p *Pkg) typeSwitchTable(o *Out, recv, name string) (keys, bodies []string) {
	fd := p.Func(recv, name)
	if fd == nil || fd.Body == nil {
		o.problem("method %s.%s not found", recv, name)
		return nil, nil
	}
	var ts *ast.TypeSwitchStmt
	ast.Inspect(fd.Body, func(n ast.Node) bool {
		if t, ok := n.(*ast.TypeSwitchStmt); ok && ts == nil {
			ts = t
			return false
		}
		return ts == nil
	})
	if ts == nil {
		o.problem("%s.%s: no type switch found", recv, name)
		return nil, nil
	}
	defer p.normalise(fd)()
	for _, c := range ts.Body.List {
		cc := c.(*ast.CaseClause)
		key := "default"
		if cc.List != nil {
			ks := make([]string, len(cc.List))
			for i, e := range cc.List {
				ks[i] = p.oneLine(e)
			}
			key = strings.Join(ks, ", ")
		}
		keys = append(keys, key)
		bodies = append(bodies, p.stmts(cc.Body))
	}
	return keys, bodies
}

func (o *Out) strList(name string, v []string, from string) {
	parts := make([]string, len(v))
	for i, x := range v {
		parts[i] = leanString(x)
	}
	o.Facts = append(o.Facts, Fact{name, "List String", "[" + strings.Join(parts, ", ") + "]", from})
}

func (o *Out) table(name string, keys, bodies []string, from string) {
	o.strList(name+"Keys", keys, from+" — the case lists of the type switch")
	o.strList(name+"Bodies", bodies, from+" — the statements of each case")
}

func (p *Pkg) bodySrc(o *Out, recv, name string) string {
	fd := p.Func(recv, name)
	if fd == nil || fd.Body == nil {
		o.problem("function %s.%s not found", recv, name)
		return "?"
	}
	defer p.normalise(fd)()
	return p.stmts(fd.Body.List)
}

// packet values: flag constants, the type switches of SetBody / BodyTo*, the number formats, the
// varint buffer size, Errno/SetErrno, the reply/refuse constructors, and the receiver's error branch.
func extractC07(repo string, o *Out) {
	root, err := load(repo, ".")
	if err != nil {
		o.problem("load root: %v", err)
		return
	}
	o.nat("pflagCompressed", root.ConstU(o, "PFlagCompressed"), "packet.go const PFlagCompressed")
	o.nat("pflagEncrypted", root.ConstU(o, "PFlagEncrypted"), "packet.go const PFlagEncrypted")
	o.nat("pflagError", root.ConstU(o, "PFlagError"), "packet.go const PFlagError")
	o.nat("ptypePacket", uint64(root.ConstI(o, "PTypePacket")), "packet.go const PTypePacket")
	o.nat("intSize", uint64(strconv.IntSize), "bits of Go's int/uint on the platform of the run")

	p, err := load(repo, "packet")
	if err != nil {
		o.problem("load packet: %v", err)
		return
	}
	k, b := p.typeSwitchTable(o, "Packet", "SetBody")
	o.table("setBody", k, b, "packet/packet_encode.go SetBody")
	k, b = p.typeSwitchTable(o, "Packet", "BodyToInt")
	o.table("bodyToInt", k, b, "packet/packet_encode.go BodyToInt")
	k, b = p.typeSwitchTable(o, "Packet", "BodyToFloat")
	o.table("bodyToFloat", k, b, "packet/packet_encode.go BodyToFloat")
	k, b = p.typeSwitchTable(o, "Packet", "BodyToString")
	o.table("bodyToString", k, b, "packet/packet_encode.go BodyToString")
	k, b = p.typeSwitchTable(o, "Packet", "BodyToBytes")
	o.table("bodyToBytes", k, b, "packet/packet_encode.go BodyToBytes")
	hasNil := false
	for _, key := range k {
		for _, t := range strings.Split(key, ", ") {
			if t == "nil" {
				hasNil = true
			}
		}
	}
	o.bool("bodyToBytesHasNil", hasNil, "packet/packet_encode.go BodyToBytes: the type switch has a `case nil`")

	// number formats
	base := uint64(0)
	if fd := p.Func("Packet", "BodyToString"); fd != nil {
		if calls := p.Calls(fd, "strconv.FormatInt"); len(calls) == 1 && len(calls[0].Args) == 2 {
			if v, ok := p.ConstOf(calls[0].Args[1]); ok {
				base, _ = constant.Uint64Val(constant.ToInt(v))
			} else {
				o.problem("BodyToString: base of strconv.FormatInt is not constant")
			}
		} else {
			o.problem("BodyToString: expected exactly one strconv.FormatInt(v, base)")
		}
	}
	o.nat("formatIntBase", base, "base argument of strconv.FormatInt in BodyToString")
	pbase, pbits := uint64(0), uint64(0)
	if fd := p.Func("Packet", "BodyToInt"); fd != nil {
		if calls := p.Calls(fd, "strconv.ParseInt"); len(calls) == 1 && len(calls[0].Args) == 3 {
			if v, ok := p.ConstOf(calls[0].Args[1]); ok {
				pbase, _ = constant.Uint64Val(constant.ToInt(v))
			}
			if v, ok := p.ConstOf(calls[0].Args[2]); ok {
				pbits, _ = constant.Uint64Val(constant.ToInt(v))
			}
		} else {
			o.problem("BodyToInt: expected exactly one strconv.ParseInt(v, base, bits)")
		}
	}
	o.nat("parseIntBase", pbase, "base argument of strconv.ParseInt in BodyToInt")
	o.nat("parseIntBits", pbits, "bitSize argument of strconv.ParseInt in BodyToInt")

	// the varint scratch arrays
	for _, fn := range []string{"encodeInt64", "encodeUint64"} {
		n := uint64(0)
		fd := p.Func("", fn)
		if fd == nil {
			o.problem("func %s not found", fn)
		} else {
			ast.Inspect(fd, func(x ast.Node) bool {
				if vs, ok := x.(*ast.ValueSpec); ok && vs.Type != nil {
					if tv, ok := p.Info.Types[vs.Type]; ok && tv.Type != nil {
						if a, ok := tv.Type.Underlying().(*types.Array); ok {
							n = uint64(a.Len())
						}
					}
				}
				return true
			})
			if n == 0 {
				o.problem("%s: no fixed-size scratch array found", fn)
			}
		}
		o.nat(fn+"BufLen", n, "packet/packet_encode.go "+fn+": length of the scratch array the varint is written to")
		o.str(fn+"Src", p.bodySrc(o, "", fn), "packet/packet_encode.go "+fn)
	}

	// error code
	errnoSrc := p.bodySrc(o, "Packet", "Errno")
	o.str("errnoSrc", errnoSrc, "packet/packet.go Errno")
	o.bool("errnoFromBody", strings.Contains(errnoSrc, "_r.Body_.(int64)") && !strings.Contains(errnoSrc, "_r.Cmd"),
		"packet/packet.go Errno reads the int64 body (and not the command)")
	o.str("setErrnoSrc", p.bodySrc(o, "Packet", "SetErrno"), "packet/packet.go SetErrno")

	// constructors
	o.str("newSrc", p.bodySrc(o, "", "New"), "packet/packet.go New")
	o.str("replyWithSrc", p.bodySrc(o, "Packet", "ReplyWith"), "packet/packet.go ReplyWith")
	o.str("replySrc", p.bodySrc(o, "Packet", "Reply"), "packet/packet.go Reply")
	o.str("refuseSrc", p.bodySrc(o, "Packet", "Refuse"), "packet/packet.go Refuse")
	o.str("refuseWithSrc", p.bodySrc(o, "Packet", "RefuseWith"), "packet/packet.go RefuseWith")

	// receiver: the tail of unmarshalPacketBody (error flag -> varint -> SetBody). When the codecs call
	// it (their body guard) is the codec model's business (C01: bodyStepOnFlags).
	c, err := load(repo, "codec")
	if err != nil {
		o.problem("load codec: %v", err)
		return
	}
	tail := "?"
	if fd := c.Func("", "unmarshalPacketBody"); fd == nil || fd.Body == nil {
		o.problem("func unmarshalPacketBody not found")
	} else {
		restore := c.normalise(fd)
		// the last `if` of the body is the error-flag branch
		for i := len(fd.Body.List) - 1; i >= 0; i-- {
			if is, ok := fd.Body.List[i].(*ast.IfStmt); ok {
				tail = c.oneLine(is)
				break
			}
		}
		restore()
	}
	o.str("unmarshalErrBranch", tail, "codec/marshal.go unmarshalPacketBody: the branch that turns the body into the error code")
}
