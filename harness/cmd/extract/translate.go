package main

// translate.go: a Go -> Lean translator for pure fixed-width integer / bool code. The per-property extractors call
// it; what it produces is written into Gen/<id>.lean under `namespace Fatchoy.Gen.<id>.Tr` on every run, and
// Props/<id>.lean proves (for all inputs) that the hand-written model equals the translation.
//
// Supported subset (anything else is rejected with an "untranslatable: …" problem, never guessed):
//   statements   var / := / = / op= / ++ / -- on locals, if [else] (nested), return expr
//   expressions  + - * / % & | ^ &^ << >> == != < <= > >= && || ! unary - ^, parentheses,
//                conversions between integer types, constants (inlined by value through go/types),
//                reads of receiver fields and len(receiver.field) (they become parameters),
//                calls of other translatable functions / methods of the same receiver
// Semantics: every integer is a `BitVec w` (w = 8/16/32/64; int, uint, uintptr = the word size given), so all
// arithmetic wraps; signed vs unsigned comparison, division, remainder and right shift are chosen from the static Go
// type; a conversion truncates or extends according to the signedness of its SOURCE type; a shift count >= width gives
// 0 (or the sign for a signed >>). Division and remainder are only translated for a non-zero constant divisor, a
// variable shift count only when its type is unsigned (Go panics otherwise; a panic has no counterpart here).

import (
	"fmt"
	"go/ast"
	"go/constant"
	"go/token"
	"go/types"
	"math/big"
	"sort"
	"strings"
)

type trType struct {
	Bool   bool
	Signed bool
	Bits   int
}

func (t trType) lean() string {
	if t.Bool {
		return "Bool"
	}
	return fmt.Sprintf("BitVec %d", t.Bits)
}

type trParam struct {
	Name string
	T    trType
	key  string       // "field:<name>", "len:<name>", "" for ordinary parameters
	pos  token.Pos    // ordering of free locals (expression mode)
	obj  types.Object // ordinary parameter / free local
}

type trFn struct {
	Lean   string
	Params []trParam
	Ret    trType
	Body   string
	Doc    string
}

// Tr translates functions of one package for one word size.
type Tr struct {
	p     *Pkg
	o     *Out
	word  int
	fns   []*trFn
	byObj map[types.Object]*trFn
	busy  map[types.Object]bool
}

func newTr(p *Pkg, o *Out, word int) *Tr {
	return &Tr{p: p, o: o, word: word, byObj: map[types.Object]*trFn{}, busy: map[types.Object]bool{}}
}

type trErr struct{ msg string }

func (t *Tr) fail(n ast.Node, format string, a ...interface{}) {
	where := ""
	if n != nil {
		where = " at " + t.p.Fset.Position(n.Pos()).String() + " `" + strings.Join(strings.Fields(t.p.Src(n)), " ") + "`"
	}
	panic(trErr{fmt.Sprintf(format, a...) + where})
}

func (t *Tr) typ(T types.Type) (trType, bool) {
	if T == nil {
		return trType{}, false
	}
	b, ok := T.Underlying().(*types.Basic)
	if !ok {
		return trType{}, false
	}
	switch b.Kind() {
	case types.Bool, types.UntypedBool:
		return trType{Bool: true}, true
	case types.Int8:
		return trType{Signed: true, Bits: 8}, true
	case types.Int16:
		return trType{Signed: true, Bits: 16}, true
	case types.Int32:
		return trType{Signed: true, Bits: 32}, true
	case types.Int64:
		return trType{Signed: true, Bits: 64}, true
	case types.Int:
		return trType{Signed: true, Bits: t.word}, true
	case types.Uint8:
		return trType{Bits: 8}, true
	case types.Uint16:
		return trType{Bits: 16}, true
	case types.Uint32:
		return trType{Bits: 32}, true
	case types.Uint64:
		return trType{Bits: 64}, true
	case types.Uint, types.Uintptr:
		return trType{Bits: t.word}, true
	}
	return trType{}, false
}

var leanReserved = map[string]bool{"at": true, "end": true, "from": true, "to": true, "do": true, "then": true, "else": true,
	"if": true, "fun": true, "let": true, "in": true, "have": true, "show": true, "with": true, "match": true, "by": true,
	"open": true, "def": true, "theorem": true, "instance": true, "class": true, "structure": true, "where": true,
	"namespace": true, "section": true, "variable": true, "universe": true, "import": true, "private": true, "protected": true,
	"mutual": true, "deriving": true, "example": true, "axiom": true, "using": true, "calc": true, "nomatch": true, "return": true,
	"for": true, "unless": true, "try": true, "catch": true, "finally": true, "mut": true, "Type": true, "Prop": true, "Sort": true,
	"true": true, "false": true, "prefix": true, "infix": true, "notation": true, "macro": true, "syntax": true, "local": true, "set_option": true}

func leanIdent(s string) string {
	if leanReserved[s] || s == "_" {
		return s + "_"
	}
	return s
}

// fctx: the translation of one function body or one expression of a function.
type fctx struct {
	t        *Tr
	fd       *ast.FuncDecl
	recv     types.Object // receiver variable (nil for plain functions)
	recvInt  bool         // the receiver itself is an integer (method of a named integer type)
	fields   map[string]*trParam
	names    map[types.Object]string
	free     map[types.Object]*trParam // expression mode only: locals that became parameters
	exprPos  token.Pos                 // expression mode: position of the expression being translated
	exprMode bool
}

func (c *fctx) obj(id *ast.Ident) types.Object {
	if o := c.t.p.Info.Uses[id]; o != nil {
		return o
	}
	return c.t.p.Info.Defs[id]
}

func (c *fctx) constant(e ast.Expr, hint *trType) (string, trType, bool) {
	tv, ok := c.t.p.Info.Types[e]
	if !ok || tv.Value == nil {
		return "", trType{}, false
	}
	ty, ok := c.t.typ(tv.Type)
	if !ok {
		if hint == nil {
			return "", trType{}, false
		}
		ty = *hint
	}
	if ty.Bool {
		if tv.Value.Kind() != constant.Bool {
			return "", trType{}, false
		}
		return fmt.Sprint(constant.BoolVal(tv.Value)), ty, true
	}
	iv := constant.ToInt(tv.Value)
	if iv.Kind() != constant.Int {
		return "", trType{}, false
	}
	bi, ok2 := new(big.Int).SetString(iv.ExactString(), 10)
	if !ok2 {
		return "", trType{}, false
	}
	m := new(big.Int).Lsh(big.NewInt(1), uint(ty.Bits))
	bi.Mod(bi, m) // Euclidean: the two's complement bit pattern
	return fmt.Sprintf("(%s#%d)", bi.String(), ty.Bits), ty, true
}

// fresh returns a Lean name for `name` that no visible local, parameter, pseudo-field or free local already has:
// two Go objects never share a Lean name (Go's block-scoped shadowing must not turn into Lean's lexical shadowing).
func (c *fctx) fresh(name string) string {
	n := leanIdent(name)
	for {
		used := false
		for _, v := range c.names {
			used = used || v == n
		}
		for _, f := range c.fields {
			used = used || f.Name == n
		}
		for _, f := range c.free {
			used = used || f.Name == n
		}
		if !used {
			return n
		}
		n += "'"
	}
}

// nameOf: the Lean name of a local (allocated at its first binding; re-assignment re-binds the same name).
func (c *fctx) nameOf(o types.Object) string {
	if n, ok := c.names[o]; ok {
		return n
	}
	c.names[o] = c.fresh(o.Name())
	return c.names[o]
}

func (c *fctx) field(key, name string, ty trType) string {
	if f, ok := c.fields[key]; ok {
		return f.Name
	}
	c.fields[key] = &trParam{Name: c.fresh(name), T: ty, key: key}
	return c.fields[key].Name
}

func (c *fctx) isRecv(e ast.Expr) bool {
	id, ok := unparen(e).(*ast.Ident)
	return ok && c.recv != nil && c.obj(id) == c.recv
}

func (c *fctx) expr(e ast.Expr, hint *trType) (string, trType) {
	t := c.t
	if s, ty, ok := c.constant(e, hint); ok {
		return s, ty
	}
	switch x := e.(type) {
	case *ast.ParenExpr:
		return c.expr(x.X, hint)
	case *ast.Ident:
		o := c.obj(x)
		if o == nil {
			t.fail(e, "unresolved identifier")
		}
		if n, ok := c.names[o]; ok {
			ty, _ := t.typ(o.Type())
			return n, ty
		}
		if v, ok := o.(*types.Var); ok && c.exprMode && !v.IsField() && v.Pkg() == t.p.Types && v.Parent() != t.p.Types.Scope() {
			return c.freeLocal(x, v)
		}
		t.fail(e, "identifier is not a parameter or local")
	case *ast.SelectorExpr:
		if c.isRecv(x.X) && !c.recvInt {
			if v, ok := c.obj(x.Sel).(*types.Var); ok && v.IsField() {
				ty, ok := t.typ(v.Type())
				if !ok {
					t.fail(e, "receiver field is not an integer or bool")
				}
				return c.field("field:"+v.Name(), v.Name(), ty), ty
			}
		}
		t.fail(e, "selector is not a field of the receiver")
	case *ast.UnaryExpr:
		s, ty := c.expr(x.X, hint)
		switch x.Op {
		case token.SUB:
			if !ty.Bool {
				return "(-" + s + ")", ty
			}
		case token.ADD:
			if !ty.Bool {
				return s, ty
			}
		case token.XOR:
			if !ty.Bool {
				return "(~~~" + s + ")", ty
			}
		case token.NOT:
			if ty.Bool {
				return "(!" + s + ")", ty
			}
		}
		t.fail(e, "unary operator")
	case *ast.BinaryExpr:
		return c.binary(x)
	case *ast.CallExpr:
		return c.call(x)
	}
	t.fail(e, "expression form")
	return "", trType{}
}

func (c *fctx) binary(x *ast.BinaryExpr) (string, trType) {
	t := c.t
	if x.Op == token.SHL || x.Op == token.SHR {
		a, ta := c.expr(x.X, nil)
		if ta.Bool {
			t.fail(x, "shift of a bool")
		}
		var cnt string
		if tv, ok := t.p.Info.Types[x.Y]; ok && tv.Value != nil {
			iv := constant.ToInt(tv.Value)
			u, exact := constant.Uint64Val(iv)
			if iv.Kind() != constant.Int || !exact {
				t.fail(x, "shift count is not a small non-negative constant")
			}
			cnt = fmt.Sprint(u)
		} else {
			b, tb := c.expr(x.Y, nil)
			if tb.Bool || tb.Signed {
				t.fail(x, "variable shift count of a signed type (Go panics when it is negative)")
			}
			cnt = b + ".toNat"
		}
		switch {
		case x.Op == token.SHL:
			return fmt.Sprintf("(%s <<< %s)", a, cnt), ta
		case ta.Signed:
			return fmt.Sprintf("(BitVec.sshiftRight %s (%s))", a, cnt), ta
		default:
			return fmt.Sprintf("(%s >>> %s)", a, cnt), ta
		}
	}
	// operands: an untyped constant side takes the type of the other side
	var a, b string
	var ta, tb trType
	_, _, aConst := c.constant(x.X, &trType{Bits: 64})
	if aConst {
		b, tb = c.expr(x.Y, nil)
		a, ta = c.expr(x.X, &tb)
	} else {
		a, ta = c.expr(x.X, nil)
		b, tb = c.expr(x.Y, &ta)
	}
	if ta != tb {
		t.fail(x, "operand types differ (%s, %s)", ta.lean(), tb.lean())
	}
	boolT := trType{Bool: true}
	if ta.Bool {
		switch x.Op {
		case token.LAND:
			return fmt.Sprintf("(%s && %s)", a, b), boolT
		case token.LOR:
			return fmt.Sprintf("(%s || %s)", a, b), boolT
		case token.EQL:
			return fmt.Sprintf("(%s == %s)", a, b), boolT
		case token.NEQ:
			return fmt.Sprintf("(%s != %s)", a, b), boolT
		}
		t.fail(x, "operator on bools")
	}
	lt, le := "BitVec.ult", "BitVec.ule"
	if ta.Signed {
		lt, le = "BitVec.slt", "BitVec.sle"
	}
	switch x.Op {
	case token.ADD:
		return fmt.Sprintf("(%s + %s)", a, b), ta
	case token.SUB:
		return fmt.Sprintf("(%s - %s)", a, b), ta
	case token.MUL:
		return fmt.Sprintf("(%s * %s)", a, b), ta
	case token.AND:
		return fmt.Sprintf("(%s &&& %s)", a, b), ta
	case token.OR:
		return fmt.Sprintf("(%s ||| %s)", a, b), ta
	case token.XOR:
		return fmt.Sprintf("(%s ^^^ %s)", a, b), ta
	case token.AND_NOT:
		return fmt.Sprintf("(%s &&& ~~~%s)", a, b), ta
	case token.QUO, token.REM:
		tv, ok := t.p.Info.Types[x.Y]
		if !ok || tv.Value == nil || constant.Sign(constant.ToInt(tv.Value)) == 0 {
			t.fail(x, "division or remainder by something that is not a non-zero constant (Go panics on zero)")
		}
		switch {
		case x.Op == token.QUO && ta.Signed:
			return fmt.Sprintf("(BitVec.sdiv %s %s)", a, b), ta
		case x.Op == token.QUO:
			return fmt.Sprintf("(BitVec.udiv %s %s)", a, b), ta
		case ta.Signed:
			return fmt.Sprintf("(BitVec.srem %s %s)", a, b), ta
		default:
			return fmt.Sprintf("(BitVec.umod %s %s)", a, b), ta
		}
	case token.EQL:
		return fmt.Sprintf("(%s == %s)", a, b), boolT
	case token.NEQ:
		return fmt.Sprintf("(%s != %s)", a, b), boolT
	case token.LSS:
		return fmt.Sprintf("(%s %s %s)", lt, a, b), boolT
	case token.LEQ:
		return fmt.Sprintf("(%s %s %s)", le, a, b), boolT
	case token.GTR:
		return fmt.Sprintf("(%s %s %s)", lt, b, a), boolT
	case token.GEQ:
		return fmt.Sprintf("(%s %s %s)", le, b, a), boolT
	}
	t.fail(x, "binary operator")
	return "", trType{}
}

func (c *fctx) call(x *ast.CallExpr) (string, trType) {
	t := c.t
	if tv, ok := t.p.Info.Types[x.Fun]; ok && tv.IsType() {
		if len(x.Args) != 1 {
			t.fail(x, "conversion arity")
		}
		to, ok := t.typ(tv.Type)
		if !ok || to.Bool {
			t.fail(x, "conversion to a type that is not an integer")
		}
		s, from := c.expr(x.Args[0], &to)
		if from.Bool {
			t.fail(x, "conversion of a bool")
		}
		switch {
		case from.Bits == to.Bits:
			return s, to
		case to.Bits < from.Bits:
			return fmt.Sprintf("(BitVec.truncate %d %s)", to.Bits, s), to
		case from.Signed:
			return fmt.Sprintf("(BitVec.signExtend %d %s)", to.Bits, s), to
		default:
			return fmt.Sprintf("(BitVec.zeroExtend %d %s)", to.Bits, s), to
		}
	}
	if id, ok := x.Fun.(*ast.Ident); ok {
		o := c.obj(id)
		if b, isB := o.(*types.Builtin); isB && b.Name() == "len" && len(x.Args) == 1 {
			if sel, ok := unparen(x.Args[0]).(*ast.SelectorExpr); ok && c.isRecv(sel.X) && !c.recvInt {
				if v, ok := c.obj(sel.Sel).(*types.Var); ok && v.IsField() {
					ty := trType{Signed: true, Bits: t.word}
					return c.field("len:"+v.Name(), "len_"+v.Name(), ty), ty
				}
			}
			t.fail(x, "len of something that is not a field of the receiver")
		}
		if f, ok := o.(*types.Func); ok && f.Pkg() == t.p.Types {
			fn := t.fnOf(f)
			return c.apply(x, fn, nil)
		}
	}
	if sel, ok := x.Fun.(*ast.SelectorExpr); ok {
		if f, ok := c.obj(sel.Sel).(*types.Func); ok && f.Pkg() == t.p.Types {
			fn := t.fnOf(f)
			return c.apply(x, fn, sel.X)
		}
	}
	t.fail(x, "call of something that is not a translatable function of the package")
	return "", trType{}
}

// apply builds the Lean application of a translated function; recvExpr is the receiver expression of a method call.
func (c *fctx) apply(x *ast.CallExpr, fn *trFn, recvExpr ast.Expr) (string, trType) {
	t := c.t
	var args []string
	np := 0
	for _, p := range fn.Params {
		switch {
		case p.key == "recv":
			if recvExpr == nil {
				t.fail(x, "method value without receiver")
			}
			s, ty := c.expr(recvExpr, &p.T)
			if ty != p.T {
				t.fail(x, "receiver type")
			}
			args = append(args, s)
		case p.key != "":
			// a pseudo-field of the callee's receiver: only when called on the caller's own receiver
			if recvExpr == nil || !c.isRecv(recvExpr) || c.recvInt {
				t.fail(x, "method that reads fields, called on something that is not the receiver")
			}
			args = append(args, c.field(p.key, strings.Replace(strings.TrimPrefix(p.key, "field:"), "len:", "len_", 1), p.T))
		default:
			if np >= len(x.Args) {
				t.fail(x, "call arity")
			}
			s, ty := c.expr(x.Args[np], &p.T)
			if ty != p.T {
				t.fail(x, "argument type")
			}
			args = append(args, s)
			np++
		}
	}
	if np != len(x.Args) {
		t.fail(x, "call arity")
	}
	return "(" + fn.Lean + " " + strings.Join(args, " ") + ")", fn.Ret
}

// ---- statements (function mode) ----

func terminates(list []ast.Stmt) bool {
	if len(list) == 0 {
		return false
	}
	switch s := list[len(list)-1].(type) {
	case *ast.ReturnStmt:
		return true
	case *ast.BlockStmt:
		return terminates(s.List)
	case *ast.IfStmt:
		if s.Else == nil {
			return false
		}
		var el []ast.Stmt
		switch e := s.Else.(type) {
		case *ast.BlockStmt:
			el = e.List
		default:
			el = []ast.Stmt{e}
		}
		return terminates(s.Body.List) && terminates(el)
	}
	return false
}

func (c *fctx) bind(id *ast.Ident, val string, ty trType, rest string) string {
	o := c.obj(id)
	if o == nil {
		c.t.fail(id, "unresolved local")
	}
	if v, ok := o.(*types.Var); !ok || v.IsField() || v.Parent() == c.t.p.Types.Scope() {
		c.t.fail(id, "assignment to something that is not a local")
	}
	if want, ok := c.t.typ(o.Type()); !ok || want != ty {
		c.t.fail(id, "local is not an integer or bool of the assigned type")
	}
	return fmt.Sprintf("let %s : %s := %s\n  %s", c.nameOf(o), ty.lean(), val, rest)
}

var assignOps = map[token.Token]token.Token{token.ADD_ASSIGN: token.ADD, token.SUB_ASSIGN: token.SUB, token.MUL_ASSIGN: token.MUL,
	token.AND_ASSIGN: token.AND, token.OR_ASSIGN: token.OR, token.XOR_ASSIGN: token.XOR, token.SHL_ASSIGN: token.SHL,
	token.SHR_ASSIGN: token.SHR, token.AND_NOT_ASSIGN: token.AND_NOT, token.QUO_ASSIGN: token.QUO, token.REM_ASSIGN: token.REM}

// stmts translates a statement list followed by the continuation `k` (statements that run after it).
func (c *fctx) stmts(list []ast.Stmt, k []ast.Stmt) string {
	t := c.t
	if len(list) == 0 {
		if len(k) == 0 {
			t.fail(c.fd.Name, "control reaches the end of the function without a return")
		}
		return c.stmts(k, nil)
	}
	s, rest := list[0], list[1:]
	// Lean `let` scopes lexically exactly like the straight-line Go code; the names map is only name allocation.
	switch x := s.(type) {
	case *ast.ReturnStmt:
		if len(x.Results) != 1 {
			t.fail(x, "return of other than one value")
		}
		sig := c.t.p.Info.Defs[c.fd.Name].Type().(*types.Signature)
		want, _ := t.typ(sig.Results().At(0).Type())
		v, ty := c.expr(x.Results[0], &want)
		if ty != want {
			t.fail(x, "returned type")
		}
		return v
	case *ast.BlockStmt:
		return c.stmts(append(append([]ast.Stmt{}, x.List...), rest...), k)
	case *ast.EmptyStmt:
		return c.stmts(rest, k)
	case *ast.DeclStmt:
		gd, ok := x.Decl.(*ast.GenDecl)
		if !ok || gd.Tok != token.VAR {
			t.fail(x, "declaration")
		}
		type b struct {
			id *ast.Ident
			v  string
			ty trType
		}
		var bs []b
		for _, sp := range gd.Specs {
			vs := sp.(*ast.ValueSpec)
			for i, id := range vs.Names {
				o := t.p.Info.Defs[id]
				ty, ok := t.typ(o.Type())
				if !ok {
					t.fail(x, "local of a type that is not an integer or bool")
				}
				switch {
				case len(vs.Values) == len(vs.Names):
					v, ty2 := c.expr(vs.Values[i], &ty)
					if ty2 != ty {
						t.fail(x, "initialiser type")
					}
					bs = append(bs, b{id, v, ty})
				case len(vs.Values) == 0 && ty.Bool:
					bs = append(bs, b{id, "false", ty})
				case len(vs.Values) == 0:
					bs = append(bs, b{id, fmt.Sprintf("(0#%d)", ty.Bits), ty})
				default:
					t.fail(x, "multi-value initialiser")
				}
			}
		}
		// all initialisers are translated (above) before any of the names exists; objects have distinct Lean names,
		// so the sequential lets below cannot capture one another
		for _, b := range bs {
			c.nameOf(t.p.Info.Defs[b.id])
		}
		out := c.stmts(rest, k)
		for i := len(bs) - 1; i >= 0; i-- {
			out = c.bind(bs[i].id, bs[i].v, bs[i].ty, out)
		}
		return out
	case *ast.AssignStmt:
		if len(x.Lhs) != 1 || len(x.Rhs) != 1 {
			t.fail(x, "tuple assignment")
		}
		id, ok := x.Lhs[0].(*ast.Ident)
		if !ok {
			t.fail(x, "assignment to something that is not a local")
		}
		var v string
		var ty trType
		if x.Tok == token.DEFINE || x.Tok == token.ASSIGN {
			var hint *trType
			if o := c.obj(id); o != nil {
				if h, ok := t.typ(o.Type()); ok {
					hint = &h
				}
			}
			v, ty = c.expr(x.Rhs[0], hint)
		} else if op, ok := assignOps[x.Tok]; ok {
			v, ty = c.binary(&ast.BinaryExpr{X: id, Op: op, Y: x.Rhs[0], OpPos: x.TokPos})
		} else {
			t.fail(x, "assignment operator")
		}
		// the right-hand side is translated before the name is (re)bound: Lean's let shadows from here on
		return c.bindAfter(id, v, ty, rest, k)
	case *ast.IncDecStmt:
		id, ok := x.X.(*ast.Ident)
		if !ok {
			t.fail(x, "++/-- of something that is not a local")
		}
		a, ty := c.expr(id, nil)
		if ty.Bool {
			t.fail(x, "++/-- of a bool")
		}
		op := "+"
		if x.Tok == token.DEC {
			op = "-"
		}
		return c.bindAfter(id, fmt.Sprintf("(%s %s (1#%d))", a, op, ty.Bits), ty, rest, k)
	case *ast.IfStmt:
		if x.Init != nil {
			t.fail(x, "if with an init statement")
		}
		cond, ty := c.expr(x.Cond, nil)
		if !ty.Bool {
			t.fail(x, "condition")
		}
		var el []ast.Stmt
		switch e := x.Else.(type) {
		case nil:
		case *ast.BlockStmt:
			el = e.List
		default:
			el = []ast.Stmt{e}
		}
		after := append(append([]ast.Stmt{}, rest...), k...)
		// each branch is followed by what follows the if (duplicated; the functions are small)
		thenS := c.branch(x.Body.List, after)
		elseS := c.branch(el, after)
		return fmt.Sprintf("if %s then\n  %s\n  else\n  %s", cond, indent(thenS), indent(elseS))
	}
	t.fail(s, "statement form")
	return ""
}

func indent(s string) string { return strings.ReplaceAll(s, "\n", "\n  ") }

// branch translates a branch body with its continuation; names bound inside do not leak (copy of the map).
func (c *fctx) branch(body, after []ast.Stmt) string {
	saved := map[types.Object]string{}
	for k, v := range c.names {
		saved[k] = v
	}
	defer func() { c.names = saved }()
	if terminates(body) {
		return "(" + c.stmts(body, nil) + ")"
	}
	return "(" + c.stmts(body, after) + ")"
}

func (c *fctx) bindAfter(id *ast.Ident, v string, ty trType, rest, k []ast.Stmt) string {
	o := c.obj(id)
	if o == nil {
		c.t.fail(id, "unresolved local")
	}
	c.nameOf(o) // the name is visible to what follows; the value `v` was translated before
	return c.bind(id, v, ty, c.stmts(rest, k))
}

// ---- whole functions ----

func (t *Tr) declOf(f *types.Func) *ast.FuncDecl {
	for _, file := range t.p.Files {
		for _, d := range file.Decls {
			if fd, ok := d.(*ast.FuncDecl); ok && t.p.Info.Defs[fd.Name] == f {
				return fd
			}
		}
	}
	return nil
}

// fnOf translates (once) the function or method `f`; panics with trErr when it is outside the subset.
func (t *Tr) fnOf(f *types.Func) *trFn {
	if fn, ok := t.byObj[f]; ok {
		return fn
	}
	if t.busy[f] {
		panic(trErr{"recursive function " + f.Name()})
	}
	t.busy[f] = true
	defer delete(t.busy, f)
	fd := t.declOf(f)
	if fd == nil || fd.Body == nil {
		panic(trErr{"no body for " + f.Name()})
	}
	name := f.Name()
	sig := f.Type().(*types.Signature)
	if sig.Recv() != nil {
		rt := sig.Recv().Type()
		if pt, ok := rt.(*types.Pointer); ok {
			rt = pt.Elem()
		}
		if nt, ok := rt.(*types.Named); ok {
			name = nt.Obj().Name() + "_" + name
		}
	}
	fn := t.function(name, fd)
	t.byObj[f] = fn
	return fn
}

func (t *Tr) newCtx(fd *ast.FuncDecl) (*fctx, []trParam) {
	c := &fctx{t: t, fd: fd, fields: map[string]*trParam{}, names: map[types.Object]string{}, free: map[types.Object]*trParam{}}
	var params []trParam
	if fd.Recv != nil && len(fd.Recv.List) == 1 && len(fd.Recv.List[0].Names) == 1 {
		id := fd.Recv.List[0].Names[0]
		c.recv = t.p.Info.Defs[id]
		if c.recv != nil {
			if ty, ok := t.typ(c.recv.Type()); ok {
				c.recvInt = true
				c.names[c.recv] = c.fresh(c.recv.Name())
				params = append(params, trParam{Name: c.names[c.recv], T: ty, key: "recv", obj: c.recv})
			}
		}
	}
	return c, params
}

// fieldParams: the pseudo-fields used, fields in declaration order of the struct, then len(...) of fields likewise.
func (c *fctx) fieldParams() []trParam {
	order := map[string]int{}
	if c.recv != nil {
		rt := c.recv.Type()
		if pt, ok := rt.(*types.Pointer); ok {
			rt = pt.Elem()
		}
		if st, ok := rt.Underlying().(*types.Struct); ok {
			for i := 0; i < st.NumFields(); i++ {
				order["field:"+st.Field(i).Name()] = i
				order["len:"+st.Field(i).Name()] = 10000 + i
			}
		}
	}
	var keys []string
	for k := range c.fields {
		keys = append(keys, k)
	}
	sort.Slice(keys, func(i, j int) bool { return order[keys[i]] < order[keys[j]] })
	var out []trParam
	for _, k := range keys {
		out = append(out, *c.fields[k])
	}
	return out
}

func (t *Tr) function(lean string, fd *ast.FuncDecl) *trFn {
	c, params := t.newCtx(fd)
	sig := t.p.Info.Defs[fd.Name].Type().(*types.Signature)
	if sig.Results().Len() != 1 {
		t.fail(fd.Name, "function does not return exactly one value")
	}
	ret, ok := t.typ(sig.Results().At(0).Type())
	if !ok {
		t.fail(fd.Name, "result is not an integer or bool")
	}
	if sig.Results().At(0).Name() != "" {
		t.fail(fd.Name, "named result")
	}
	var plain []trParam
	for i := 0; i < sig.Params().Len(); i++ {
		v := sig.Params().At(i)
		ty, ok := t.typ(v.Type())
		if !ok {
			t.fail(fd.Name, "parameter %s is not an integer or bool", v.Name())
		}
		c.names[v] = c.fresh(v.Name())
		plain = append(plain, trParam{Name: c.names[v], T: ty, obj: v})
	}
	body := c.stmts(fd.Body.List, nil)
	params = append(params, c.fieldParams()...)
	params = append(params, plain...)
	return &trFn{Lean: lean, Params: uniqueNames(params), Ret: ret, Body: body,
		Doc: strings.Join(strings.Fields(t.p.Src(fd)), " ")}
}

func uniqueNames(ps []trParam) []trParam {
	seen := map[string]bool{}
	for i := range ps {
		for seen[ps[i].Name] {
			ps[i].Name += "'"
		}
		seen[ps[i].Name] = true
	}
	return ps
}

// Func translates the function (recv "") or method and records it under the Lean name `lean`.
func (t *Tr) Func(recv, name, lean string) {
	defer t.recover("%s.%s", recv, name)
	fd := t.p.Func(recv, name)
	if fd == nil || fd.Body == nil {
		panic(trErr{"not found"})
	}
	f, _ := t.p.Info.Defs[fd.Name].(*types.Func)
	if f == nil {
		panic(trErr{"not type-checked"})
	}
	if fn, ok := t.byObj[f]; ok { // already translated as a callee: give it the requested name too
		if fn.Lean != lean {
			alias := *fn
			alias.Lean = lean
			var args []string
			for _, p := range fn.Params {
				args = append(args, p.Name)
			}
			alias.Body = fn.Lean + " " + strings.Join(args, " ")
			t.fns = append(t.fns, &alias)
		}
		return
	}
	fn := t.function(lean, fd)
	t.byObj[f] = fn
	t.register(fn)
}

func (t *Tr) register(fn *trFn) {
	for _, g := range t.fns {
		if g == fn {
			return
		}
	}
	t.fns = append(t.fns, fn)
}

func (t *Tr) recover(format string, a ...interface{}) {
	if v := recover(); v != nil {
		if e, ok := v.(trErr); ok {
			t.o.problem("untranslatable: %s: %s", fmt.Sprintf(format, a...), e.msg)
			return
		}
		panic(v)
	}
}

// ---- expression mode ----

// writesBetween: is the variable / receiver field `target` written (or possibly written through a call on the
// receiver) at a source position in (lo, hi)?
func (c *fctx) writesBetween(lo, hi token.Pos, isTarget func(e ast.Expr) bool) bool {
	found := false
	ast.Inspect(c.fd.Body, func(n ast.Node) bool {
		if n == nil || found {
			return false
		}
		if n.End() <= lo || n.Pos() >= hi {
			return n.Pos() < hi && n.End() > lo
		}
		switch x := n.(type) {
		case *ast.AssignStmt:
			for _, l := range x.Lhs {
				if isTarget(l) && x.Pos() > lo {
					found = true
				}
			}
		case *ast.IncDecStmt:
			if isTarget(x.X) && x.Pos() > lo {
				found = true
			}
		case *ast.UnaryExpr:
			if x.Op == token.AND && isTarget(x.X) {
				found = true
			}
		}
		return true
	})
	return found
}

func (c *fctx) inLoop(pos token.Pos) bool {
	in := false
	ast.Inspect(c.fd.Body, func(n ast.Node) bool {
		switch n.(type) {
		case *ast.ForStmt, *ast.RangeStmt, *ast.FuncLit:
			if n.Pos() <= pos && pos < n.End() {
				in = true
			}
		}
		return true
	})
	return in
}

// freeLocal: a local or parameter read by the expression. A local with exactly one definition whose initialiser
// is translatable, and whose inputs are not written between the definition and the expression, is inlined; every
// other local becomes a parameter (the expression is then a function of the value the local holds at that point).
func (c *fctx) freeLocal(id *ast.Ident, v *types.Var) (string, trType) {
	t := c.t
	ty, ok := t.typ(v.Type())
	if !ok {
		t.fail(id, "local is not an integer or bool")
	}
	if p, ok := c.free[v]; ok {
		return p.Name, ty
	}
	if init, at := c.singleDef(v); init != nil && at < c.exprPos && !c.inLoop(at) && !c.inLoop(c.exprPos) {
		var s string
		var ty2 trType
		okInl := func() (ok bool) {
			defer func() {
				if r := recover(); r != nil {
					if _, is := r.(trErr); !is {
						panic(r)
					}
					ok = false
				}
			}()
			s, ty2 = c.expr(init, &ty)
			return true
		}()
		if okInl && ty2 == ty && !c.inputsWritten(init, at) {
			return s, ty
		}
	}
	p := &trParam{Name: c.fresh(v.Name()), T: ty, pos: v.Pos(), obj: v}
	c.free[v] = p
	return p.Name, ty
}

// singleDef: the initialiser of the only definition of v when v is never assigned otherwise.
func (c *fctx) singleDef(v *types.Var) (ast.Expr, token.Pos) {
	var init ast.Expr
	var at token.Pos
	n := 0
	ast.Inspect(c.fd.Body, func(x ast.Node) bool {
		switch s := x.(type) {
		case *ast.ValueSpec:
			for i, id := range s.Names {
				if c.t.p.Info.Defs[id] == v {
					n++
					if len(s.Values) == len(s.Names) {
						init, at = s.Values[i], s.End()
					} else {
						n++
					}
				}
			}
		case *ast.AssignStmt:
			for i, l := range s.Lhs {
				if id, ok := l.(*ast.Ident); ok && c.obj(id) == v {
					n++
					if s.Tok == token.DEFINE && len(s.Lhs) == len(s.Rhs) {
						init, at = s.Rhs[i], s.End()
					} else {
						n++
					}
				}
			}
		case *ast.IncDecStmt:
			if id, ok := s.X.(*ast.Ident); ok && c.obj(id) == v {
				n += 2
			}
		case *ast.UnaryExpr:
			if id, ok := s.X.(*ast.Ident); ok && s.Op == token.AND && c.obj(id) == v {
				n += 2
			}
		case *ast.RangeStmt:
			for _, e := range []ast.Expr{s.Key, s.Value} {
				if id, ok := e.(*ast.Ident); ok && c.obj(id) == v {
					n += 2
				}
			}
		}
		return true
	})
	if n != 1 {
		return nil, 0
	}
	return init, at
}

// inputsWritten: is anything the initialiser reads written between the definition (at) and the expression?
func (c *fctx) inputsWritten(init ast.Expr, at token.Pos) bool {
	bad := false
	ast.Inspect(init, func(n ast.Node) bool {
		switch x := n.(type) {
		case *ast.SelectorExpr:
			if c.isRecv(x.X) {
				fo := c.obj(x.Sel)
				if c.writesBetween(at, c.exprPos, func(e ast.Expr) bool {
					s, ok := unparen(e).(*ast.SelectorExpr)
					return ok && c.obj(s.Sel) == fo
				}) {
					bad = true
				}
				return false
			}
		case *ast.Ident:
			if v, ok := c.obj(x).(*types.Var); ok && !v.IsField() {
				if c.writesBetween(at, c.exprPos, func(e ast.Expr) bool {
					id, ok := unparen(e).(*ast.Ident)
					return ok && c.obj(id) == v
				}) {
					bad = true
				}
			}
		case *ast.CallExpr:
			if tv, ok := c.t.p.Info.Types[x.Fun]; !(ok && tv.IsType()) {
				if id, ok := x.Fun.(*ast.Ident); !ok || id.Name != "len" {
					bad = true // a call in an initialiser: its result may depend on state we do not track
				}
			}
		}
		return true
	})
	// a method call on the receiver between the two points may write any field
	if c.recv != nil && !bad {
		ast.Inspect(c.fd.Body, func(n ast.Node) bool {
			if call, ok := n.(*ast.CallExpr); ok && call.End() > at && call.Pos() < c.exprPos {
				if sel, ok := call.Fun.(*ast.SelectorExpr); ok && c.isRecv(sel.X) {
					if _, isF := c.obj(sel.Sel).(*types.Func); isF {
						bad = true
					}
				}
			}
			return true
		})
	}
	return bad
}

// Expr translates one expression `e` found inside the function `fd` as a Lean function `lean` of the receiver
// fields it reads (declaration order of the struct) and the locals / parameters it reads (declaration order).
func (t *Tr) Expr(lean string, fd *ast.FuncDecl, e ast.Expr, what string) {
	defer t.recover("%s", what)
	if fd == nil || e == nil {
		panic(trErr{"expression not found"})
	}
	c, params := t.newCtx(fd)
	c.exprMode, c.exprPos = true, e.Pos()
	tv := t.p.Info.Types[e]
	ret, ok := t.typ(tv.Type)
	if !ok {
		t.fail(e, "expression is not an integer or bool")
	}
	body, ty := c.expr(e, &ret)
	if ty != ret {
		t.fail(e, "expression type")
	}
	params = append(params, c.fieldParams()...)
	var free []trParam
	for _, p := range c.free {
		free = append(free, *p)
	}
	sort.Slice(free, func(i, j int) bool { return free[i].pos < free[j].pos })
	params = append(params, free...)
	t.fns = append(t.fns, &trFn{Lean: lean, Params: uniqueNames(params), Ret: ret, Body: body,
		Doc: what + ": " + strings.Join(strings.Fields(t.p.Src(e)), " ")})
}

// ---- output ----

// Emit writes the translated definitions and the evaluator used by the model driver (`tr <fn> <args…>`).
func (t *Tr) Emit(ns string) {
	var sb strings.Builder
	fmt.Fprintf(&sb, "namespace %s\n", ns)
	for _, fn := range t.fns {
		doc := strings.ReplaceAll(strings.ReplaceAll(fn.Doc, "/-", "/ -"), "-/", "- /")
		fmt.Fprintf(&sb, "/-- translated from: %s -/\ndef %s", doc, fn.Lean)
		for _, p := range fn.Params {
			fmt.Fprintf(&sb, " (%s : %s)", p.Name, p.T.lean())
		}
		fmt.Fprintf(&sb, " : %s :=\n  %s\n", fn.Ret.lean(), fn.Body)
	}
	sb.WriteString("/-- evaluator for the model driver: arguments as integers (reduced to the parameter width; bool: non-zero) -/\n")
	sb.WriteString("def eval (fn : String) (a : List Int) : Option String :=\n  match fn, a with\n")
	for _, fn := range t.fns {
		var pats, args []string
		for i, p := range fn.Params {
			pats = append(pats, fmt.Sprintf("a%d", i))
			if p.T.Bool {
				args = append(args, fmt.Sprintf("(a%d != 0)", i))
			} else {
				args = append(args, fmt.Sprintf("(BitVec.ofInt %d a%d)", p.T.Bits, i))
			}
		}
		call := fn.Lean + " " + strings.Join(args, " ")
		switch {
		case fn.Ret.Bool:
			call = "toString (" + call + ")"
		case fn.Ret.Signed:
			call = "toString (" + call + ").toInt"
		default:
			call = "toString (" + call + ").toNat"
		}
		fmt.Fprintf(&sb, "  | %q, [%s] => some (%s)\n", fn.Lean, strings.Join(pats, ", "), call)
	}
	sb.WriteString("  | _, _ => none\n")
	fmt.Fprintf(&sb, "end %s\n", ns)
	t.o.Raw = append(t.o.Raw, sb.String())
	for _, fn := range t.fns {
		var ps []string
		for _, p := range fn.Params {
			ps = append(ps, p.Name+":"+p.T.lean())
		}
		t.o.Translated = append(t.o.Translated, fmt.Sprintf("%s.%s(%s) : %s", ns, fn.Lean, strings.Join(ps, ", "), fn.Ret.lean()))
	}
}
