package main

import (
	"go/ast"
	"go/token"
	"strings"
)

func init() {
	extractors["C06"] = extractC06
	extractorDeps["C06"] = []string{"C05"} // C06 proves over the models of C05: regenerate their constants too
	extractorDeps["C05"] = []string{"C06"} // the sync-op skeletons of the timer functions (expireNear, trigger, tick, ...) also tie C05
}

// syncSkeleton lists, in source order, the operations of a function that matter for atomicity:
// guard Lock/Unlock (deferred or not), channel sends/receives, reads and writes of the id table and
// of the cancelled mark, container/heap calls, and the schedule points of the verification hook (yield:decide
// must sit immediately before the guarded decision, yield:send immediately before the send).
// The function is read in its alpha-normalised form (`normalise`, c07.go; `renumberDecl`, c11.go): an operand that is
// the receiver prints as _r, a parameter as _p0, _p1, … by position, a local as _v0, _v1, … by order of declaration
// (the `ready` channel of the two workers is their first parameter: send:_p0); fields keep their names.
func syncSkeleton(p *Pkg, fd *ast.FuncDecl) string {
	defer p.normalise(fd)()
	var out []string
	emit := func(s string) { out = append(out, s) }
	last := func(e ast.Expr) string {
		s := p.Src(e)
		if k := strings.LastIndex(s, "."); k >= 0 {
			s = s[k+1:]
		}
		return s
	}
	var walk func(n ast.Node, deferred bool)
	walk = func(n ast.Node, deferred bool) {
		if n == nil {
			return
		}
		switch x := n.(type) {
		case *ast.DeferStmt:
			walk(x.Call, true)
			return
		case *ast.GoStmt:
			emit("go")
			walk(x.Call, false)
			return
		case *ast.SendStmt:
			walk(x.Value, false)
			emit("send:" + last(x.Chan))
			return
		case *ast.UnaryExpr:
			if x.Op == token.ARROW {
				emit("recv:" + last(x.X))
				return
			}
		case *ast.AssignStmt:
			for _, r := range x.Rhs {
				walk(r, false)
			}
			for _, l := range x.Lhs {
				switch le := l.(type) {
				case *ast.IndexExpr:
					if last(le.X) == "refer" {
						emit("write:refer")
						continue
					}
				case *ast.SelectorExpr:
					if le.Sel.Name == "cancelled" {
						emit("write:cancelled")
						continue
					}
				}
				walk(l, false)
			}
			return
		case *ast.CallExpr:
			fun := p.Src(x.Fun)
			switch {
			case strings.HasSuffix(fun, "guard.Lock"):
				emit("Lock")
				return
			case strings.HasSuffix(fun, "guard.Unlock"):
				if deferred {
					emit("defer-Unlock")
				} else {
					emit("Unlock")
				}
				return
			case fun == "delete" && len(x.Args) == 2 && last(x.Args[0]) == "refer":
				emit("delete:refer")
				return
			case fun == "len" && len(x.Args) == 1 && last(x.Args[0]) == "refer":
				emit("len:refer")
				return
			case strings.HasPrefix(fun, "heap."):
				emit(fun)
				return
			case fun == "verifYield" && len(x.Args) == 3:
				pt := p.Src(x.Args[1])
				emit("yield:" + strings.Trim(pt, "\""))
				return
			case fun == "close":
				emit("close:" + last(x.Args[0]))
				return
			}
		case *ast.IndexExpr:
			if last(x.X) == "refer" {
				emit("read:refer")
				walk(x.Index, false)
				return
			}
		case *ast.SelectorExpr:
			if x.Sel.Name == "cancelled" {
				emit("read:cancelled")
				return
			}
		case *ast.SelectStmt:
			emit("select{")
			walk(x.Body, false)
			emit("}")
			return
		case *ast.CommClause:
			emit("case")
			if x.Comm != nil {
				walk(x.Comm, false)
			}
			for _, s := range x.Body {
				walk(s, false)
			}
			return
		}
		// generic descent in source order
		var kids []ast.Node
		ast.Inspect(n, func(c ast.Node) bool {
			if c == nil || c == n {
				return c == n
			}
			kids = append(kids, c)
			return false
		})
		for _, c := range kids {
			walk(c, deferred)
		}
	}
	walk(fd.Body, false)
	return renumberDecl(strings.Join(out, " "))
}

// the skeletons the transition system of Model/C05Sched.lean was written from (fixed tree)
var expectedC06 = [][3]string{
	{"HHWheelTimer", "RunAfter", "Lock defer-Unlock send:pendingAdd write:refer"},
	{"HHWheelTimer", "RunEvery", "Lock defer-Unlock send:pendingAdd write:refer"},
	{"HHWheelTimer", "Cancel", "Lock defer-Unlock read:refer write:cancelled send:pendingDel delete:refer"},
	{"HHWheelTimer", "Size", "Lock len:refer Unlock"},
	{"HHWheelTimer", "IsScheduled", "Lock read:refer Unlock"},
	{"HHWheelTimer", "isCancelled", "Lock read:cancelled Unlock"},
	{"HHWheelTimer", "delTimer", ""},
	{"HHWheelTimer", "expireNear", "yield:decide Lock read:cancelled delete:refer Unlock yield:send send:C"},
	{"HHWheelTimer", "worker", "send:_p0 select{ case recv:C case recv:pendingAdd case recv:pendingDel case recv:done }"},
	{"TimerQueue", "schedule", "Lock defer-Unlock send:pendingAdd write:refer"},
	{"TimerQueue", "Cancel", "Lock defer-Unlock read:refer write:cancelled send:pendingDel delete:refer"},
	{"TimerQueue", "Size", "Lock len:refer Unlock"},
	{"TimerQueue", "IsScheduled", "Lock read:refer Unlock"},
	{"TimerQueue", "addNode", "Lock read:cancelled Unlock heap.Push"},
	{"TimerQueue", "delNode", "heap.Remove"},
	{"TimerQueue", "trigger", "yield:decide Lock read:cancelled heap.Pop heap.Fix heap.Pop delete:refer Unlock"},
	{"TimerQueue", "tick", "yield:send send:C"},
	{"TimerQueue", "worker", "send:_p0 select{ case recv:C case recv:pendingAdd case recv:pendingDel case recv:done }"},
}

func extractC06(repo string, o *Out) {
	p, err := load(repo, "sched")
	if err != nil {
		o.problem("load: %v", err)
		return
	}
	for _, e := range expectedC06 {
		fd := p.Func(e[0], e[1])
		if fd == nil {
			o.problem("skeleton: method %s.%s not found", e[0], e[1])
			o.str("skeleton_"+e[0]+"_"+e[1], "?", "sync-op skeleton of sched "+e[0]+"."+e[1])
			continue
		}
		got := syncSkeleton(p, fd)
		o.str("skeleton_"+e[0]+"_"+e[1], got, "sync-op skeleton of sched "+e[0]+"."+e[1])
		if got != e[2] {
			o.problem("skeleton of %s.%s is {%s}, the model was written from {%s}", e[0], e[1], got, e[2])
		}
	}
	o.nat("pendingQueueCapacity", p.ConstU(o, "PendingQueueCapacity"), "sched/timer.go const PendingQueueCapacity")
	// the heap ARRAY model shared with C05 (`harr` lines): the same facts (c05heap.go)
	heapArrayFacts(o, p)
}
