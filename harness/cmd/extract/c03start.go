package main

import (
	"fmt"
	"go/ast"
	"strings"
)

// startupFacts (C03): the wait-group discipline of the connection's start-up, which the small LTS
// Model/ConnStart.lean assumes with `addInside = false`:
//
//	(a) every `go` statement of (*TcpConn).Go starts `t.<x>Pump()` directly and the statement immediately before it,
//	    in the same block, is `t.wg.Add(1)`; Go starts writePump and readPump exactly once each;
//	(b) these are the only `wg.Add` calls of qnet/tcp_conn.go (in particular neither pump body, nor a helper
//	    running on the new goroutine, increments the counter);
//	(c) each pump calls `t.wg.Done()` exactly once, inside a deferred function, and nothing else in the file does.
//
// Emitted as `goAddBeforeSpawn : Bool` (+ a human-readable account of what was found).
func startupFacts(repo string, o *Out) {
	q, err := load(repo, "qnet")
	if err != nil {
		o.problem("load qnet: %v", err)
		return
	}
	ok := true
	var notes []string
	bad := func(format string, a ...interface{}) {
		ok = false
		notes = append(notes, fmt.Sprintf(format, a...))
	}
	goFn := q.Func("TcpConn", "Go")
	if goFn == nil || goFn.Body == nil || goFn.Recv == nil || len(goFn.Recv.List[0].Names) != 1 {
		o.problem("method (*TcpConn).Go not found")
		return
	}
	recv := goFn.Recv.List[0].Names[0].Name
	isWg := func(c *ast.CallExpr, op string) bool { return strings.HasSuffix(q.Src(c.Fun), ".wg."+op) }
	// the file that declares Go
	var file *ast.File
	for _, f := range q.Files {
		if f.Pos() <= goFn.Pos() && goFn.End() <= f.End() {
			file = f
		}
	}
	// (a)
	started := map[string]int{}
	var walkBlock func(list []ast.Stmt)
	visit := func(n ast.Node) {
		ast.Inspect(n, func(x ast.Node) bool {
			switch b := x.(type) {
			case *ast.BlockStmt:
				walkBlock(b.List)
			case *ast.CaseClause:
				walkBlock(b.Body)
			case *ast.CommClause:
				walkBlock(b.Body)
			}
			return true
		})
	}
	walkBlock = func(list []ast.Stmt) {
		for i, st := range list {
			g, isGo := st.(*ast.GoStmt)
			if !isGo {
				continue
			}
			callee := q.Src(g.Call.Fun)
			if !strings.HasPrefix(callee, recv+".") || !strings.HasSuffix(callee, "Pump") || len(g.Call.Args) != 0 {
				bad("Go: `go %s` is not a direct start of a pump method", q.Src(g.Call))
				continue
			}
			started[strings.TrimPrefix(callee, recv+".")]++
			prevOK := false
			if i > 0 {
				if es, isExpr := list[i-1].(*ast.ExprStmt); isExpr {
					prevOK = q.Src(es.X) == recv+".wg.Add(1)"
				}
			}
			if !prevOK {
				bad("Go: `go %s()` is not immediately preceded by `%s.wg.Add(1)`", callee, recv)
			}
		}
	}
	visit(goFn.Body)
	for _, pump := range []string{"writePump", "readPump"} {
		if started[pump] != 1 {
			bad("Go starts %s %d times (expected once)", pump, started[pump])
		}
	}
	if len(started) != 2 {
		bad("Go starts %d different pumps (expected writePump and readPump)", len(started))
	}
	// (b), (c): all wg.Add / wg.Done calls of the file
	adds, dones := 0, 0
	for _, d := range file.Decls {
		fd, isFn := d.(*ast.FuncDecl)
		if !isFn || fd.Body == nil {
			continue
		}
		name := fd.Name.Name
		nAdd, nDone, nDeferred := 0, 0, 0
		ast.Inspect(fd.Body, func(x ast.Node) bool {
			switch c := x.(type) {
			case *ast.CallExpr:
				if isWg(c, "Add") {
					nAdd++
				}
				if isWg(c, "Done") {
					nDone++
				}
			case *ast.DeferStmt:
				ast.Inspect(c.Call, func(y ast.Node) bool {
					if cc, isCall := y.(*ast.CallExpr); isCall && isWg(cc, "Done") {
						nDeferred++
					}
					return true
				})
			}
			return true
		})
		adds += nAdd
		dones += nDone
		switch name {
		case "Go":
			if nAdd != 2 || nDone != 0 {
				bad("Go has %d wg.Add and %d wg.Done calls (expected 2 and 0)", nAdd, nDone)
			}
		case "writePump", "readPump":
			if nAdd != 0 {
				bad("%s increments the wait group itself (%d wg.Add calls)", name, nAdd)
			}
			if nDone != 1 || nDeferred != 1 {
				bad("%s has %d wg.Done calls, %d of them deferred (expected one deferred call)", name, nDone, nDeferred)
			}
		default:
			if nAdd != 0 || nDone != 0 {
				bad("%s touches the wait-group counter (%d wg.Add, %d wg.Done)", name, nAdd, nDone)
			}
		}
	}
	if adds != 2 || dones != 2 {
		bad("the file has %d wg.Add and %d wg.Done calls (expected 2 and 2)", adds, dones)
	}
	if ok {
		notes = []string{"each `go " + recv + ".xPump()` of Go directly follows `" + recv + ".wg.Add(1)`; pumps: one deferred wg.Done each, no wg.Add"}
	}
	o.bool("goAddBeforeSpawn", ok, "qnet/tcp_conn.go Go/writePump/readPump: wg.Add(1) by Go immediately before each `go` statement, never by the pump goroutine")
	o.str("goStartupFound", strings.Join(notes, "; "), "qnet/tcp_conn.go: what the start-up check found")
}
