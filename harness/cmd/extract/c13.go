package main

import (
	"go/ast"
)

func init() { extractors["C13"] = extractC13 }

// collections/lru: the exported method set the model has to cover, the comparison table of the methods
// that decide something, the argument expressions of every onEvicted call, and Remove's key type.
func extractC13(repo string, o *Out) {
	p, err := load(repo, "collections/lru")
	if err != nil {
		o.problem("load: %v", err)
		return
	}
	o.zlStrList("cacheMethods", zlExportedMethods(p, "Cache"), "exported methods of lru.Cache (cache.go)")
	for _, m := range []string{"NewCache", "Put", "Resize"} {
		recv := "Cache"
		if m == "NewCache" {
			recv = ""
		}
		fd := p.Func(recv, m)
		if fd == nil {
			o.problem("func %s not found", m)
		}
		o.zlStrList("cmp"+m, zlComparisons(p, fd), "comparisons of "+m+" in source order")
	}
	// every call of the eviction callback (any `<x>.onEvicted(...)`): enclosing function and the call expression,
	// printed from the alpha-normalised declaration (receiver _r, parameters _p0, …, locals _v0, … by order of
	// declaration among the locals the call mentions), so that names chosen inside the function do not matter and a
	// different or swapped argument does
	var calls []string
	for _, f := range p.Files {
		for _, d := range f.Decls {
			fd, ok := d.(*ast.FuncDecl)
			if !ok || fd.Body == nil {
				continue
			}
			restore := p.normalise(fd)
			ast.Inspect(fd, func(n ast.Node) bool {
				c, ok := n.(*ast.CallExpr)
				if !ok {
					return true
				}
				if sel, ok := c.Fun.(*ast.SelectorExpr); ok && sel.Sel.Name == "onEvicted" {
					calls = append(calls, fd.Name.Name+": "+p.fragments([]ast.Node{c})[0])
				}
				return true
			})
			restore()
		}
	}
	o.zlStrList("callbackCalls", calls, "calls of the eviction callback: enclosing function and the call, alpha-normalised (_r receiver, _pN parameters, _vN locals)")
	keyType := "?"
	if fd := p.Func("Cache", "Remove"); fd != nil && len(fd.Type.Params.List) == 1 {
		keyType = p.Src(fd.Type.Params.List[0].Type)
	} else {
		o.problem("Cache.Remove(key) not found")
	}
	o.str("removeKeyType", keyType, "parameter type of Cache.Remove")
}
