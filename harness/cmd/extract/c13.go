package main

import (
	"go/ast"
	"strings"
)

func init() { extractors["C13"] = extractC13 }

// collections/lru: the exported method set the model has to cover, the comparison table of the methods
// that decide something, the argument expressions of every onEvicted call, and Remove's key type.
func extractC13(repo string, o *Out) {
	p, err := load(repo, "collections/lru")
	if err != nil {
		o.problem("load: %v", err)
		return
	}
	o.zlStrList("cacheMethods", zlExportedMethods(p, "Cache"), "exported methods of lru.Cache (cache.go)")
	for _, m := range []string{"NewCache", "Put", "Resize"} {
		recv := "Cache"
		if m == "NewCache" {
			recv = ""
		}
		fd := p.Func(recv, m)
		if fd == nil {
			o.problem("func %s not found", m)
		}
		o.zlStrList("cmp"+m, zlComparisons(p, fd), "comparisons of "+m+" in source order")
	}
	// every call of the eviction callback: enclosing function and argument expressions
	var calls []string
	for _, f := range p.Files {
		for _, d := range f.Decls {
			fd, ok := d.(*ast.FuncDecl)
			if !ok || fd.Body == nil {
				continue
			}
			for _, c := range p.Calls(fd, "c.onEvicted") {
				args := make([]string, len(c.Args))
				for i, a := range c.Args {
					args[i] = strings.Join(strings.Fields(p.Src(a)), " ")
				}
				calls = append(calls, fd.Name.Name+": "+strings.Join(args, ", "))
			}
		}
	}
	o.zlStrList("callbackCalls", calls, "calls of c.onEvicted: enclosing function and arguments")
	keyType := "?"
	if fd := p.Func("Cache", "Remove"); fd != nil && len(fd.Type.Params.List) == 1 {
		keyType = p.Src(fd.Type.Params.List[0].Type)
	} else {
		o.problem("Cache.Remove(key) not found")
	}
	o.str("removeKeyType", keyType, "parameter type of Cache.Remove")
}
