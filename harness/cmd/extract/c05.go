package main

import (
	"fmt"
	"go/ast"
	"go/constant"
	"go/token"
	"go/types"
	"regexp"
	"strings"
)

func init() { extractors["C05"] = extractC05 }

func constU(p *Pkg, e ast.Expr) (uint64, bool) {
	v, ok := p.ConstOf(e)
	if !ok {
		return 0, false
	}
	u, exact := constant.Uint64Val(constant.ToInt(v))
	return u, exact
}

func c05unparen(e ast.Expr) ast.Expr {
	for {
		pe, ok := e.(*ast.ParenExpr)
		if !ok {
			return e
		}
		e = pe.X
	}
}

// shiftMask finds `(x >> S) & M` / `x & M` inside a statement list: returns 2^S and M+1.
func shiftMask(p *Pkg, n ast.Node) (div, mod uint64, ok bool) {
	div = 1
	ast.Inspect(n, func(x ast.Node) bool {
		be, isB := x.(*ast.BinaryExpr)
		if !isB || ok {
			return true
		}
		if be.Op == token.AND {
			if m, isC := constU(p, be.Y); isC {
				mod, ok = m+1, true
				if sh, isS := c05unparen(be.X).(*ast.BinaryExpr); isS && sh.Op == token.SHR {
					if s, isC := constU(p, sh.Y); isC {
						div = 1 << s
					}
				}
				return false
			}
		}
		return true
	})
	return
}

// levelOf finds the bucket array a branch selects: t.near -> 0, t.tvec[k] -> k+1 (the method is alpha-normalised
// while it is read: its receiver prints as _r).
func levelOf(p *Pkg, n ast.Node) (lvl int, ok bool) {
	lvl = -1
	ast.Inspect(n, func(x ast.Node) bool {
		switch e := x.(type) {
		case *ast.IndexExpr:
			if s := p.Src(e.X); s == "_r.near" {
				lvl, ok = 0, true
			} else if s == "_r.tvec" {
				if k, isC := constU(p, e.Index); isC {
					lvl, ok = int(k)+1, true
				}
			}
		}
		return true
	})
	return
}

func pow2(u uint64) bool { return u != 0 && u&(u-1) == 0 }

// commBody returns the printed body statements of the select case of `fn` that receives from `<owner>.<ch>`, and how
// that owner prints. The function is alpha-normalised (`normalise`, c07.go) while it is printed: its receiver is _r,
// its parameters _p0, …, every local the placeholder of its declaration (number them with renumberDecl); when the
// owner is a local initialised from a field of the receiver (the driver's `var t = v.T`) its initialiser is returned too.
func commBody(p *Pkg, fd *ast.FuncDecl, ch string) (out []string, owner, ownerInit string, found bool) {
	defer p.normalise(fd)()
	ast.Inspect(fd, func(x ast.Node) bool {
		cc, ok := x.(*ast.CommClause)
		if !ok || cc.Comm == nil || found {
			return true
		}
		var rhs ast.Expr
		switch c := cc.Comm.(type) {
		case *ast.AssignStmt:
			if len(c.Rhs) == 1 {
				rhs = c.Rhs[0]
			}
		case *ast.ExprStmt:
			rhs = c.X
		}
		if u, ok := rhs.(*ast.UnaryExpr); ok && u.Op == token.ARROW && strings.HasSuffix(p.Src(u.X), "."+ch) {
			found = true
			if sel, ok := u.X.(*ast.SelectorExpr); ok {
				owner = p.Src(sel.X)
				if id, ok := sel.X.(*ast.Ident); ok && fd.Body != nil {
					if d := localInit(fd, id.Name); d != nil {
						ownerInit = p.rawLine(d)
					}
				}
			}
			for _, st := range cc.Body {
				out = append(out, p.rawLine(st))
			}
			return false
		}
		return true
	})
	return
}

var c05recv = regexp.MustCompile(`\b_r\b`)
var c05recvField = regexp.MustCompile(`^_r\.[A-Za-z_][A-Za-z_0-9]*$`)

func normSrc(s string) string {
	lines := strings.Split(s, "\n")
	for i, l := range lines {
		l = strings.TrimSpace(l)
		if k := strings.Index(l, "//"); k >= 0 {
			l = strings.TrimSpace(l[:k])
		}
		lines[i] = l
	}
	return strings.Join(lines, " ")
}

// mirror compares the select case of the real worker with the copy the synchronous driver runs.
func mirror(o *Out, p *Pkg, recv, worker, ch, drvRecv, drvFn string) {
	wf, df := p.Func(recv, worker), p.Func(drvRecv, drvFn)
	if wf == nil || df == nil {
		o.problem("mirror %s.%s / %s.%s: function not found", recv, worker, drvRecv, drvFn)
		return
	}
	wb, wOwner, _, ok1 := commBody(p, wf, ch)
	db, dOwner, dInit, ok2 := commBody(p, df, ch)
	if !ok1 || !ok2 {
		o.problem("mirror %s: select case receiving from %s not found (worker %v, driver %v)", drvFn, ch, ok1, ok2)
		return
	}
	if n := len(db); n > 0 && strings.HasPrefix(db[n-1], "return") {
		db = db[:n-1]
	}
	// both bodies are compared up to the names of receivers and locals: the timer the case belongs to prints as _r
	// (the worker's receiver; in the driver the local initialised from a field of the driver's receiver, `var t = v.T`,
	// whose own receiver then prints as _drv), the other locals as _v0, _v1, … by order of declaration
	wt := renumberDecl(strings.Join(wb, " ; "))
	if wOwner != "_r" {
		o.problem("mirror %s: the worker %s.%s does not receive from a channel of its receiver", drvFn, recv, worker)
	}
	dj := c05recv.ReplaceAllString(strings.Join(db, " ; "), "_drv")
	if localMark.MatchString(dOwner) && localMark.FindString(dOwner) == dOwner && c05recvField.MatchString(dInit) {
		dj = strings.ReplaceAll(dj, dOwner, "_r")
	} else {
		o.problem("mirror %s: the driver %s.%s does not receive from a channel of a local initialised from a field of its receiver", drvFn, drvRecv, drvFn)
	}
	dt := renumberDecl(dj)
	if wt != dt {
		o.problem("mirror check: %s.%s handles <-%s with {%s} but the driver %s.%s runs {%s}", recv, worker, ch, wt, drvRecv, drvFn, dt)
	}
	o.str("mirror_"+drvRecv+"_"+drvFn, wt, "body of `case <-"+ch+"` in "+recv+"."+worker+", alpha-normalised: _r the receiver, _vN the locals (the driver's copy is compared with it)")
}

func extractC05(repo string, o *Out) {
	p, err := load(repo, "sched")
	if err != nil {
		o.problem("load: %v", err)
		return
	}
	tvrBits, tvnBits := p.ConstU(o, "TVR_BITS"), p.ConstU(o, "TVN_BITS")
	tvrSize, tvnSize := p.ConstU(o, "TVR_SIZE"), p.ConstU(o, "TVN_SIZE")
	tvrMask, tvnMask := p.ConstU(o, "TVR_MASK"), p.ConstU(o, "TVN_MASK")
	levels := p.ConstU(o, "WHEEL_LEVEL")
	o.nat("tvrBits", tvrBits, "sched/hhwheel_timer.go const TVR_BITS")
	o.nat("tvnBits", tvnBits, "sched/hhwheel_timer.go const TVN_BITS")
	o.nat("tvrSize", tvrSize, "sched/hhwheel_timer.go const TVR_SIZE")
	o.nat("tvnSize", tvnSize, "sched/hhwheel_timer.go const TVN_SIZE")
	o.nat("wheelLevel", levels, "sched/hhwheel_timer.go const WHEEL_LEVEL")
	o.nat("pendingQueueCapacity", p.ConstU(o, "PendingQueueCapacity"), "sched/timer.go const PendingQueueCapacity")
	o.nat("timeoutQueueCapacity", p.ConstU(o, "TimeoutQueueCapacity"), "sched/timer.go const TimeoutQueueCapacity")
	if tvrSize != 1<<tvrBits || tvnSize != 1<<tvnBits || tvrMask != tvrSize-1 || tvnMask != tvnSize-1 {
		o.problem("TVR/TVN size, mask and bits are not consistent powers of two")
	}

	// position counter width
	wrap := uint64(0)
	if obj := p.Types.Scope().Lookup("HHWheelTimer"); obj != nil {
		if st, ok := obj.Type().Underlying().(*types.Struct); ok {
			for i := 0; i < st.NumFields(); i++ {
				if f := st.Field(i); f.Name() == "currTick" {
					if b, ok := f.Type().Underlying().(*types.Basic); ok && b.Kind() == types.Uint32 {
						wrap = 1 << 32
					}
				}
			}
		}
	}
	if wrap == 0 {
		o.problem("HHWheelTimer.currTick is not a uint32 field")
	}
	o.nat("posWrap", wrap, "modulus of HHWheelTimer.currTick (uint32)")

	// addNode: clamp + the if-chain of placement
	var thresholds, divs, mods []uint64
	clamp := uint64(0)
	if fd := p.Func("HHWheelTimer", "addNode"); fd == nil || fd.Body == nil {
		o.problem("method HHWheelTimer.addNode not found")
	} else {
		// addNode is read in its alpha-normalised form (receiver _r, the node _p0, every local the placeholder of its
		// declaration) and the distance in ticks (`ticks` in the source the model was written from) is found by its
		// role, not by its name: it is the local variable X of the clamp `if X > C { X = C }`; the placement chain must
		// compare the same X, and the slot index must be initialised with `_r.currTick + uint32(X)`
		restore := p.normalise(fd)
		ticks := ""
		for _, st := range fd.Body.List {
			is, ok := st.(*ast.IfStmt)
			if !ok || is.Init != nil || is.Else != nil || len(is.Body.List) != 1 {
				continue
			}
			be, ok := is.Cond.(*ast.BinaryExpr)
			if !ok || be.Op != token.GTR {
				continue
			}
			x, isId := be.X.(*ast.Ident)
			c, isC := constU(p, be.Y)
			as, isAs := is.Body.List[0].(*ast.AssignStmt)
			if !isId || !isC || !isAs || as.Tok != token.ASSIGN || len(as.Lhs) != 1 || len(as.Rhs) != 1 || p.Src(as.Lhs[0]) != x.Name || !localMark.MatchString(x.Name) {
				continue
			}
			if c2, ok := constU(p, as.Rhs[0]); ok && c2 == c && ticks == "" {
				clamp, ticks = c, x.Name
			}
		}
		var chain *ast.IfStmt
		for _, st := range fd.Body.List {
			is, ok := st.(*ast.IfStmt)
			if !ok || ticks == "" {
				continue
			}
			be, ok := is.Cond.(*ast.BinaryExpr)
			if !ok || p.Src(be.X) != ticks || be.Op != token.LSS {
				continue
			}
			if _, ok := constU(p, be.Y); ok && chain == nil && is.Else != nil {
				chain = is
			}
		}
		if clamp == 0 {
			o.problem("addNode: clamp `if ticks > C { ticks = C }` not found")
		}
		if chain == nil {
			o.problem("addNode: placement chain `if ticks < C {…} else if …` not found")
		}
		lvl := 0
		for cur := ast.Stmt(chain); cur != nil && chain != nil; {
			var body *ast.BlockStmt
			switch s := cur.(type) {
			case *ast.IfStmt:
				be, ok := s.Cond.(*ast.BinaryExpr)
				c, isC := uint64(0), false
				if ok && be.Op == token.LSS && p.Src(be.X) == ticks {
					c, isC = constU(p, be.Y)
				}
				if !isC {
					o.problem("addNode: branch %d: condition %s is not `ticks < constant`", lvl, renumberDecl(p.Src(s.Cond)))
				}
				thresholds = append(thresholds, c)
				body, cur = s.Body, s.Else
			case *ast.BlockStmt:
				body, cur = s, nil
			default:
				o.problem("addNode: unexpected else form")
				cur = nil
			}
			if body == nil {
				break
			}
			d, m, ok := shiftMask(p, body)
			if !ok || !pow2(m) {
				o.problem("addNode: branch %d: slot expression `(idx >> S) & M` not found", lvl)
			}
			if l, ok := levelOf(p, body); !ok || l != lvl {
				o.problem("addNode: branch %d selects bucket array of level %d", lvl, l)
			}
			divs, mods = append(divs, d), append(mods, m)
			lvl++
		}
		if uint64(lvl) != levels+1 {
			o.problem("addNode: %d placement branches for WHEEL_LEVEL=%d", lvl, levels)
		}
		// idx must be the wrapped sum currTick + uint32(ticks)
		if ticks == "" || localFrom(p, fd, "_r.currTick+uint32("+ticks+")") == "" {
			o.problem("addNode: `var idx = t.currTick + uint32(ticks)` not found")
		}
		restore()
	}
	o.nat("clampTicks", clamp, "addNode: `if ticks > C { ticks = C }`")
	o.natList("placeThresholds", thresholds, "addNode: constants of the `ticks < C` chain, in order")
	o.natList("placeDivs", divs, "addNode: 2^S of `(idx >> S) & M` per branch (near first)")
	o.natList("placeMods", mods, "addNode: M+1 of `(idx >> S) & M` per branch (near first)")

	// shiftWheels: the constants it uses
	if fd := p.Func("HHWheelTimer", "shiftWheels"); fd == nil {
		o.problem("method HHWheelTimer.shiftWheels not found")
	} else {
		// alpha-normalised: _r = t, and by order of declaration _v0 = ct, _v1 = ticks, _v2 = i, _v3 = idx
		src := c05body(p, fd)
		for _, want := range []string{"var _v0 = _r.currTick", "if _v0&TVR_MASK != 0 { return }", "var _v1 = _v0 >> TVR_BITS",
			"for _v2 := 0; _v2 < WHEEL_LEVEL; _v2++ {", "var _v3 = int(_v1 & TVN_MASK)", "_r.cascade(_v2, _v3)", "if _v3 != 0 { break }", "_v1 >>= TVN_BITS"} {
			if !strings.Contains(src, want) {
				o.problem("shiftWheels: expected `%s` (alpha-normalised: _r = t, _v0 = ct, _v1 = ticks, _v2 = i, _v3 = idx)", want)
			}
		}
	}
	// tick and expireNear call order
	if fd := p.Func("HHWheelTimer", "tick"); fd == nil {
		o.problem("method HHWheelTimer.tick not found")
	} else if got := c05body(p, fd); got != "{ _r.expireNear() _r.currTick++ _r.tickTime++ _r.shiftWheels() _r.expireNear() }" {
		o.problem("HHWheelTimer.tick body is %s", got)
	}
	if fd := p.Func("HHWheelTimer", "expireNear"); fd != nil {
		src := c05body(p, fd) // _v0 = index, the first local declared
		if !strings.Contains(src, "var _v0 = _r.currTick & TVR_MASK") || !strings.Contains(src, "_r.near[_v0].replaceInit()") {
			o.problem("expireNear: bucket selection changed")
		}
	} else {
		o.problem("method HHWheelTimer.expireNear not found")
	}
	// heap order
	if fd := p.Func("timerHeap", "Less"); fd == nil {
		o.problem("method timerHeap.Less not found")
	} else if got := c05body(p, fd); got != "{ if _r[_p0].deadline == _r[_p1].deadline { return _r[_p0].id > _r[_p1].id } return _r[_p0].deadline < _r[_p1].deadline }" {
		o.problem("timerHeap.Less body is %s", got)
	}
	// the heap ARRAY model: timerHeap's methods, the container/heap call sites, container/heap itself (c05heap.go)
	heapArrayFacts(o, p)
	// the driver's copies of the worker's select cases
	mirror(o, p, "HHWheelTimer", "worker", "pendingAdd", "VerifWheel", "StepAdd")
	mirror(o, p, "HHWheelTimer", "worker", "pendingDel", "VerifWheel", "StepDel")
	mirror(o, p, "TimerQueue", "worker", "pendingAdd", "VerifQueue", "StepAdd")
	mirror(o, p, "TimerQueue", "worker", "pendingDel", "VerifQueue", "StepDel")
	// the ticker case, alpha-normalised: _v0 = now (the value received), _v1 = current
	for _, w := range [][3]string{{"HHWheelTimer", "ticker.C", "var _v1 = _r.convTimeUnit(_v0) ; _r.update(_v1)"}, {"TimerQueue", "ticker.C", "_r.tick(_v0)"}} {
		if fd := p.Func(w[0], "worker"); fd != nil {
			b, _, _, ok := commBody(p, fd, "C")
			if got := renumberDecl(strings.Join(b, " ; ")); !ok || got != w[2] {
				o.problem("%s.worker: ticker case is {%s}, expected {%s}", w[0], got, w[2])
			}
		}
	}
}

// c05body prints the body of a function from its alpha-normalised declaration (`normalise`, c07.go) on one line:
// receiver _r, parameters _p0, _p1, …, locals _v0, _v1, … by order of declaration.
func c05body(p *Pkg, fd *ast.FuncDecl) string {
	defer p.normalise(fd)()
	return renumberDecl(normSrc(p.Src(fd.Body)))
}

func init() {
	inner := extractors["C05"]
	extractors["C05"] = func(repo string, o *Out) {
		inner(repo, o)
		if p, err := load(repo, "sched"); err == nil {
			translateC05(p, o)
		} else {
			o.problem("translate: load: %v", err)
		}
	}
}

// translateC05 emits (translate.go) the index arithmetic of HHWheelTimer.addNode — the two clamp tests, the expiry tick
// `idx`, the condition and the slot expression of every branch of the level chain — and of shiftWheels (the wrap test of
// the near wheel, the first `ticks`, the slot that comes up, the shift to the next level), as functions of the fields
// and locals they read. The expressions are found by their place in the function, not by the names of the locals.
func translateC05(p *Pkg, o *Out) {
	tr := newTr(p, o, 64)
	defer tr.Emit("Tr")
	add := p.Func("HHWheelTimer", "addNode")
	var inits, conds, slots []ast.Expr
	var clamp []ast.Expr
	if add != nil && add.Body != nil {
		for _, st := range add.Body.List {
			switch x := st.(type) {
			case *ast.DeclStmt:
				if gd, ok := x.Decl.(*ast.GenDecl); ok {
					for _, sp := range gd.Specs {
						if vs, ok := sp.(*ast.ValueSpec); ok && len(vs.Names) == 1 && len(vs.Values) == 1 {
							inits = append(inits, vs.Values[0])
						}
					}
				}
			case *ast.IfStmt:
				if x.Else == nil {
					clamp = append(clamp, x.Cond)
					continue
				}
				// the level chain: if c0 { …near[e0] } else if c1 { idx = e1 … } … else { idx = e4 … }
				var body func(b *ast.BlockStmt)
				body = func(b *ast.BlockStmt) {
					n := 0
					ast.Inspect(b, func(y ast.Node) bool {
						switch z := y.(type) {
						case *ast.AssignStmt:
							if z.Tok == token.ASSIGN && len(z.Lhs) == 1 && len(z.Rhs) == 1 {
								if _, isId := z.Lhs[0].(*ast.Ident); isId {
									if _, isU := z.Rhs[0].(*ast.UnaryExpr); !isU { // not `bucket = &…`
										slots = append(slots, z.Rhs[0])
										n++
									}
								}
							}
						}
						return true
					})
					if n == 0 { // the near branch: the index of its only index expression
						ast.Inspect(b, func(y ast.Node) bool {
							if ix, ok := y.(*ast.IndexExpr); ok && n == 0 {
								slots = append(slots, ix.Index)
								n++
							}
							return true
						})
					}
				}
				for cur := x; cur != nil; {
					conds = append(conds, cur.Cond)
					body(cur.Body)
					switch e := cur.Else.(type) {
					case *ast.IfStmt:
						cur = e
					case *ast.BlockStmt:
						body(e)
						cur = nil
					default:
						cur = nil
					}
				}
			}
		}
	}
	at := func(l []ast.Expr, i int) ast.Expr {
		if i < len(l) {
			return l[i]
		}
		return nil
	}
	tr.Expr("addNode_neg", add, at(clamp, 0), "HHWheelTimer.addNode: the condition of its first clamp (ticks below zero)")
	tr.Expr("addNode_over", add, at(clamp, 1), "HHWheelTimer.addNode: the condition of its second clamp (ticks above the maximum)")
	tr.Expr("addNode_idx", add, at(inits, 1), "HHWheelTimer.addNode: the initialiser of its second local (idx, the expiry tick)")
	if len(conds) != 4 || len(slots) != 5 {
		o.problem("untranslatable: HHWheelTimer.addNode: the level chain does not have 4 conditions and 5 slot expressions (%d, %d)", len(conds), len(slots))
	}
	for i := 0; i < 4; i++ {
		tr.Expr(fmt.Sprintf("addNode_c%d", i), add, at(conds, i), fmt.Sprintf("HHWheelTimer.addNode: condition %d of the level chain", i))
	}
	for i := 0; i < 5; i++ {
		tr.Expr(fmt.Sprintf("addNode_s%d", i), add, at(slots, i), fmt.Sprintf("HHWheelTimer.addNode: slot expression of branch %d of the level chain", i))
	}
	sh := p.Func("HHWheelTimer", "shiftWheels")
	var shConds, shInits []ast.Expr
	var step ast.Expr
	if sh != nil && sh.Body != nil {
		ast.Inspect(sh.Body, func(y ast.Node) bool {
			switch z := y.(type) {
			case *ast.ValueSpec:
				if len(z.Names) == 1 && len(z.Values) == 1 {
					shInits = append(shInits, z.Values[0])
				}
			case *ast.AssignStmt:
				if op, ok := assignOps[z.Tok]; ok && len(z.Lhs) == 1 && len(z.Rhs) == 1 {
					syn := &ast.BinaryExpr{X: z.Lhs[0], OpPos: z.TokPos, Op: op, Y: z.Rhs[0]}
					p.Info.Types[syn] = p.Info.Types[z.Lhs[0]]
					step = syn
				}
			}
			return true
		})
		for _, st := range sh.Body.List {
			if is, ok := st.(*ast.IfStmt); ok && is.Init == nil {
				shConds = append(shConds, is.Cond)
			}
		}
	}
	tr.Expr("shift_skip", sh, at(shConds, 0), "HHWheelTimer.shiftWheels: the condition of its first if (the near wheel did not wrap)")
	tr.Expr("shift_ticks", sh, at(shInits, 1), "HHWheelTimer.shiftWheels: the initialiser of its second local (ticks)")
	tr.Expr("shift_slot", sh, at(shInits, 2), "HHWheelTimer.shiftWheels: the initialiser of the loop's local (idx, the slot that comes up)")
	tr.Expr("shift_next", sh, step, "HHWheelTimer.shiftWheels: the compound assignment at the end of the loop body (ticks for the next level)")
}
