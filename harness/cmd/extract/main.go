// extract re-reads /repo and regenerates the facts the Lean models are instantiated with
// (Gen/<id>.lean) plus a JSON copy for the evidence. Standard library only (go/parser, go/types).
package main

import (
	"encoding/json"
	"flag"
	"fmt"
	"go/ast"
	"go/build"
	"go/constant"
	"go/importer"
	"go/parser"
	"go/printer"
	"go/token"
	"go/types"
	"os"
	"path/filepath"
	"sort"
	"strings"
)

type Fact struct {
	Name  string `json:"name"`
	Type  string `json:"type"` // Lean type: Nat | Int | Bool | String | List Nat
	Value string `json:"value"`
	From  string `json:"from"`
}

type Out struct {
	Prop     string   `json:"property"`
	Facts    []Fact   `json:"facts"`
	Problems []string `json:"problems"`
	// translate.go: Lean text appended to the Gen file inside the namespace, and the signatures of what was translated
	Raw        []string `json:"-"`
	Translated []string `json:"translated,omitempty"`
}

func (o *Out) nat(name string, v uint64, from string) {
	o.Facts = append(o.Facts, Fact{name, "Nat", fmt.Sprint(v), from})
}
func (o *Out) int(name string, v int64, from string) {
	s := fmt.Sprint(v)
	if v < 0 {
		s = fmt.Sprintf("(%d)", v)
	}
	o.Facts = append(o.Facts, Fact{name, "Int", s, from})
}
func (o *Out) bool(name string, v bool, from string) {
	o.Facts = append(o.Facts, Fact{name, "Bool", fmt.Sprint(v), from})
}
func (o *Out) str(name string, v string, from string) {
	o.Facts = append(o.Facts, Fact{name, "String", leanString(v), from})
}
func (o *Out) natList(name string, v []uint64, from string) {
	parts := make([]string, len(v))
	for i, x := range v {
		parts[i] = fmt.Sprint(x)
	}
	o.Facts = append(o.Facts, Fact{name, "List Nat", "[" + strings.Join(parts, ", ") + "]", from})
}
func (o *Out) problem(format string, a ...interface{}) {
	o.Problems = append(o.Problems, fmt.Sprintf(format, a...))
}

func leanString(s string) string {
	var sb strings.Builder
	sb.WriteByte('"')
	for _, c := range s {
		switch {
		case c == '"':
			sb.WriteString("\\\"")
		case c == '\\':
			sb.WriteString("\\\\")
		case c == '\n':
			sb.WriteString("\\n")
		case c == '\t':
			sb.WriteString("\\t")
		case c < 32 || c > 126:
			sb.WriteString(fmt.Sprintf("\\u{%x}", c))
		default:
			sb.WriteRune(c)
		}
	}
	sb.WriteByte('"')
	return sb.String()
}

// Pkg is one leniently type-checked package of /repo.
type Pkg struct {
	Fset  *token.FileSet
	Files []*ast.File
	Info  *types.Info
	Types *types.Package
	Dir   string
}

type lenient struct {
	std types.Importer
	got map[string]*types.Package
}

func (l *lenient) Import(path string) (*types.Package, error) {
	if p, ok := l.got[path]; ok {
		return p, nil
	}
	first := strings.Split(path, "/")[0]
	if !strings.Contains(first, ".") {
		if p, err := l.std.Import(path); err == nil {
			l.got[path] = p
			return p, nil
		}
	}
	name := path[strings.LastIndex(path, "/")+1:]
	p := types.NewPackage(path, name)
	p.MarkComplete()
	l.got[path] = p
	return p, nil
}

var fset = token.NewFileSet()
var imp = &lenient{std: importer.ForCompiler(fset, "source", nil), got: map[string]*types.Package{}}

func load(repo, rel string) (*Pkg, error) {
	dir := filepath.Join(repo, rel)
	ctx := build.Default
	ctx.BuildTags = append(ctx.BuildTags, "verif")
	ents, err := os.ReadDir(dir)
	if err != nil {
		return nil, err
	}
	var files []*ast.File
	for _, e := range ents {
		n := e.Name()
		if !strings.HasSuffix(n, ".go") || strings.HasSuffix(n, "_test.go") {
			continue
		}
		if ok, _ := ctx.MatchFile(dir, n); !ok {
			continue
		}
		f, err := parser.ParseFile(fset, filepath.Join(dir, n), nil, parser.SkipObjectResolution)
		if err != nil {
			return nil, err
		}
		files = append(files, f)
	}
	info := &types.Info{Types: map[ast.Expr]types.TypeAndValue{}, Defs: map[*ast.Ident]types.Object{}, Uses: map[*ast.Ident]types.Object{}}
	conf := types.Config{Importer: imp, Error: func(error) {}, FakeImportC: true}
	tp, _ := conf.Check(rel, fset, files, info)
	return &Pkg{fset, files, info, tp, dir}, nil
}

// Const evaluates a package-level constant.
func (p *Pkg) Const(name string) (constant.Value, bool) {
	if p.Types == nil {
		return nil, false
	}
	obj := p.Types.Scope().Lookup(name)
	c, ok := obj.(*types.Const)
	if !ok {
		return nil, false
	}
	return c.Val(), true
}

func (p *Pkg) ConstU(o *Out, name string) uint64 {
	v, ok := p.Const(name)
	if !ok {
		o.problem("constant %s not found in %s", name, p.Dir)
		return 0
	}
	u, exact := constant.Uint64Val(constant.ToInt(v))
	if !exact {
		o.problem("constant %s is not an unsigned integer", name)
	}
	return u
}

func (p *Pkg) ConstI(o *Out, name string) int64 {
	v, ok := p.Const(name)
	if !ok {
		o.problem("constant %s not found in %s", name, p.Dir)
		return 0
	}
	i, exact := constant.Int64Val(constant.ToInt(v))
	if !exact {
		o.problem("constant %s is not an integer", name)
	}
	return i
}

// Func finds a function or method declaration (recv "" = plain function; recv without the star).
func (p *Pkg) Func(recv, name string) *ast.FuncDecl {
	for _, f := range p.Files {
		for _, d := range f.Decls {
			fd, ok := d.(*ast.FuncDecl)
			if !ok || fd.Name.Name != name {
				continue
			}
			if recv == "" && fd.Recv == nil {
				return fd
			}
			if recv != "" && fd.Recv != nil && len(fd.Recv.List) == 1 {
				t := fd.Recv.List[0].Type
				if s, ok := t.(*ast.StarExpr); ok {
					t = s.X
				}
				if id, ok := t.(*ast.Ident); ok && id.Name == recv {
					return fd
				}
			}
		}
	}
	return nil
}

func (p *Pkg) Src(n ast.Node) string {
	var sb strings.Builder
	printer.Fprint(&sb, p.Fset, n)
	return sb.String()
}

// Calls returns every call in the node whose callee prints as `callee` (e.g. "fmt.Sprintf").
func (p *Pkg) Calls(n ast.Node, callee string) []*ast.CallExpr {
	var out []*ast.CallExpr
	ast.Inspect(n, func(x ast.Node) bool {
		if c, ok := x.(*ast.CallExpr); ok && p.Src(c.Fun) == callee {
			out = append(out, c)
		}
		return true
	})
	return out
}

// IntType reports signedness and width of the static type of an expression.
func (p *Pkg) IntType(e ast.Expr) (signed bool, bits int, ok bool) {
	tv, found := p.Info.Types[e]
	if !found || tv.Type == nil {
		return false, 0, false
	}
	b, isB := tv.Type.Underlying().(*types.Basic)
	if !isB {
		return false, 0, false
	}
	switch b.Kind() {
	case types.Int8:
		return true, 8, true
	case types.Int16:
		return true, 16, true
	case types.Int32:
		return true, 32, true
	case types.Int64:
		return true, 64, true
	case types.Int:
		return true, 64, true
	case types.Uint8:
		return false, 8, true
	case types.Uint16:
		return false, 16, true
	case types.Uint32:
		return false, 32, true
	case types.Uint64:
		return false, 64, true
	case types.Uint, types.Uintptr:
		return false, 64, true
	}
	return false, 0, false
}

// ConstOf evaluates a constant expression inside a function body.
func (p *Pkg) ConstOf(e ast.Expr) (constant.Value, bool) {
	tv, ok := p.Info.Types[e]
	if !ok || tv.Value == nil {
		return nil, false
	}
	return tv.Value, true
}

type extractor func(repo string, o *Out)

var extractors = map[string]extractor{}

// extractorDeps: properties whose Gen file must be regenerated together with this one (shared models).
var extractorDeps = map[string][]string{}

func writeLean(dir string, o *Out) error {
	var sb strings.Builder
	sb.WriteString("-- GENERATED by harness/cmd/extract from /repo on every run — do not edit\n")
	fmt.Fprintf(&sb, "namespace Fatchoy.Gen.%s\n", o.Prop)
	for _, f := range o.Facts {
		fmt.Fprintf(&sb, "/-- %s -/\ndef %s : %s := %s\n", f.From, f.Name, f.Type, f.Value)
	}
	for _, raw := range o.Raw {
		sb.WriteString(raw)
	}
	fmt.Fprintf(&sb, "end Fatchoy.Gen.%s\n", o.Prop)
	path := filepath.Join(dir, o.Prop+".lean")
	if old, err := os.ReadFile(path); err == nil && string(old) == sb.String() {
		return nil // unchanged: keep the mtime so lake does nothing
	}
	return os.WriteFile(path, []byte(sb.String()), 0o644)
}

func main() {
	repo := flag.String("repo", "/repo", "repository root")
	lean := flag.String("lean", "", "directory of Gen/*.lean")
	facts := flag.String("facts", "", "directory for facts_<id>.json")
	prop := flag.String("prop", "all", "property id or all")
	shapeProps := flag.String("shape-props", "", "properties.jsonl: write the declaration shape of each property's anchor files to <facts>/shape_<id>.txt")
	shapeExtra := flag.String("shape-extra", "", "comma separated further files whose declarations belong to the shape")
	flag.Parse()
	var ids []string
	if *prop == "all" {
		for id := range extractors {
			ids = append(ids, id)
		}
		sort.Strings(ids)
	} else {
		ids = strings.Split(*prop, ",")
	}
	for _, id := range append([]string{}, ids...) {
		for _, d := range extractorDeps[id] {
			dup := false
			for _, x := range ids {
				dup = dup || x == d
			}
			if !dup {
				ids = append(ids, d)
			}
		}
	}
	rc := 0
	if *shapeProps != "" && *facts != "" {
		for _, id := range strings.Split(*prop, ",") {
			if err := writeShape(*repo, *shapeProps, id, *facts, *shapeExtra); err != nil {
				fmt.Printf("PROBLEM %s: shape: %v\n", id, err)
			}
		}
	}
	for _, id := range ids {
		ex, ok := extractors[id]
		if !ok {
			continue // a property without regenerated facts
		}
		o := &Out{Prop: id, Facts: []Fact{}, Problems: []string{}}
		func() {
			defer func() {
				if v := recover(); v != nil {
					o.problem("extractor panicked: %v", v)
				}
			}()
			ex(*repo, o)
		}()
		if *lean != "" {
			if err := writeLean(*lean, o); err != nil {
				fmt.Fprintln(os.Stderr, err)
				rc = 1
			}
		}
		if *facts != "" {
			os.MkdirAll(*facts, 0o755)
			b, _ := json.MarshalIndent(o, "", " ")
			os.WriteFile(filepath.Join(*facts, "facts_"+id+".json"), b, 0o644)
		}
		for _, p := range o.Problems {
			fmt.Printf("PROBLEM %s: %s\n", id, p)
		}
	}
	os.Exit(rc)
}
