package main

import (
	"fmt"
	"go/ast"
	"go/constant"
	"go/token"
	"strings"
)

func init() {
	extractors["C01"] = extractCodec
}

// codecX carries the loaded codec package through the pattern extractors.
type codecX struct {
	p *Pkg
	o *Out
}

type layoutEntry struct {
	name       string
	off, width uint64
}

func (x *codecX) layout(name string, tbl []layoutEntry, from string) {
	parts := make([]string, len(tbl))
	for i, e := range tbl {
		parts[i] = fmt.Sprintf("(%s, %d, %d)", leanString(e.name), e.off, e.width)
	}
	x.o.Facts = append(x.o.Facts, Fact{name, "List (String × Nat × Nat)", "[" + strings.Join(parts, ", ") + "]", from})
}

func (x *codecX) constU(e ast.Expr) (uint64, bool) {
	if e == nil {
		return 0, false
	}
	v, ok := x.p.ConstOf(e)
	if !ok {
		return 0, false
	}
	u, exact := constant.Uint64Val(constant.ToInt(v))
	return u, exact
}

var convNames = map[string]bool{"byte": true, "uint8": true, "uint16": true, "uint32": true, "uint64": true, "int8": true,
	"int16": true, "int32": true, "int64": true, "int": true, "uint": true,
	"fatchoy.NodeID": true, "fatchoy.PacketFlag": true, "fatchoy.PacketType": true}

// strip removes parentheses and integer/named-integer conversions.
func (x *codecX) strip(e ast.Expr) ast.Expr {
	for {
		switch v := e.(type) {
		case *ast.ParenExpr:
			e = v.X
			continue
		case *ast.CallExpr:
			if len(v.Args) == 1 && convNames[x.p.Src(v.Fun)] {
				e = v.Args[0]
				continue
			}
		}
		return e
	}
}

// sliceFrom understands `h`, `h[N:]`, `h[:M]`, `h[N:M]` over the receiver: offset and (if bounded) length.
func (x *codecX) sliceFrom(e ast.Expr, recv string) (off uint64, length int64, ok bool) {
	switch v := e.(type) {
	case *ast.Ident:
		return 0, -1, v.Name == recv
	case *ast.SliceExpr:
		if id, isId := v.X.(*ast.Ident); !isId || id.Name != recv || v.Slice3 {
			return 0, 0, false
		}
		if v.Low != nil {
			lo, good := x.constU(v.Low)
			if !good {
				return 0, 0, false
			}
			off = lo
		}
		length = -1
		if v.High != nil {
			hi, good := x.constU(v.High)
			if !good || hi < off {
				return 0, 0, false
			}
			length = int64(hi - off)
		}
		return off, length, true
	}
	return 0, 0, false
}

var putWidth = map[string]uint64{"binary.BigEndian.PutUint16": 2, "binary.BigEndian.PutUint32": 4, "binary.BigEndian.PutUint64": 8}
var getWidth = map[string]uint64{"binary.BigEndian.Uint16": 2, "binary.BigEndian.Uint32": 4, "binary.BigEndian.Uint64": 8}

var pktGetter = map[string]string{"Type": "typ", "Flag": "flag", "Seq": "seq", "Node": "node", "Command": "cmd"}
var packParam = map[string]string{"size": "len", "nRef": "nref"}
var accessorField = map[string]string{"Len": "len", "Type": "typ", "Flag": "flag", "RefCount": "nref", "Seq": "seq",
	"Node": "node", "Command": "cmd", "Checksum": "crc"}

// the two helpers of v2_header.go the 3-byte length goes through; compared verbatim ("mirror check")
const wantBigEndianGet = "{\n\tvar buf [4]byte\n\tcopy(buf[1:], b[:3])\n\treturn binary.BigEndian.Uint32(buf[:])\n}"
const wantBigEndianPut = "{\n\tvar buf [4]byte\n\tbinary.BigEndian.PutUint32(buf[:], x)\n\tcopy(b[:3], buf[1:])\n}"

func recvName(fd *ast.FuncDecl) string {
	if fd.Recv != nil && len(fd.Recv.List) == 1 && len(fd.Recv.List[0].Names) == 1 {
		return fd.Recv.List[0].Names[0].Name
	}
	return ""
}

// valueField names the header field a Pack value expression stands for.
func (x *codecX) valueField(e ast.Expr) string {
	e = x.strip(e)
	switch v := e.(type) {
	case *ast.CallExpr:
		if sel, ok := v.Fun.(*ast.SelectorExpr); ok && len(v.Args) == 0 {
			if id, ok := sel.X.(*ast.Ident); ok && id.Name == "pkt" {
				return pktGetter[sel.Sel.Name]
			}
		}
	case *ast.Ident:
		return packParam[v.Name]
	}
	return ""
}

// packTable reads the writes of `func (h T) Pack(...)` in statement order.
func (x *codecX) packTable(typ string) []layoutEntry {
	fd := x.p.Func(typ, "Pack")
	if fd == nil {
		x.o.problem("%s.Pack not found", typ)
		return nil
	}
	recv := recvName(fd)
	var tbl []layoutEntry
	for _, st := range fd.Body.List {
		var off, width uint64
		var val ast.Expr
		ok := false
		switch s := st.(type) {
		case *ast.ExprStmt:
			call, isCall := s.X.(*ast.CallExpr)
			if !isCall {
				break
			}
			fn := x.p.Src(call.Fun)
			if w, known := putWidth[fn]; known && len(call.Args) == 2 {
				o, _, good := x.sliceFrom(call.Args[0], recv)
				off, width, val, ok = o, w, call.Args[1], good
			} else if fn == "bigEndianPut" && len(call.Args) == 2 {
				o, l, good := x.sliceFrom(call.Args[1], recv)
				if good && l == 3 {
					off, width, val, ok = o, 3, call.Args[0], true
				}
				if h := x.p.Func("", "bigEndianPut"); h == nil || x.p.Src(h.Body) != wantBigEndianPut {
					x.o.problem("bigEndianPut is not the 3-byte big-endian store the model assumes")
				}
			}
		case *ast.AssignStmt:
			if len(s.Lhs) == 1 && len(s.Rhs) == 1 && s.Tok == token.ASSIGN {
				if ix, isIx := s.Lhs[0].(*ast.IndexExpr); isIx {
					if id, isId := ix.X.(*ast.Ident); isId && id.Name == recv {
						if o, good := x.constU(ix.Index); good {
							off, width, val, ok = o, 1, s.Rhs[0], true
						}
					}
				}
			}
		}
		name := ""
		if ok {
			name = x.valueField(val)
		}
		if !ok || name == "" {
			x.o.problem("%s.Pack: statement not understood: %s", typ, x.p.Src(st))
			continue
		}
		tbl = append(tbl, layoutEntry{name, off, width})
	}
	return tbl
}

// accessorTable reads `func (h T) X() ... { return <big-endian read of h at a constant offset> }`.
func (x *codecX) accessorTable(typ string, methods []string) []layoutEntry {
	var tbl []layoutEntry
	for _, m := range methods {
		fd := x.p.Func(typ, m)
		if fd == nil {
			x.o.problem("%s.%s not found", typ, m)
			continue
		}
		recv := recvName(fd)
		ok := false
		var off, width uint64
		if len(fd.Body.List) == 1 {
			if ret, isRet := fd.Body.List[0].(*ast.ReturnStmt); isRet && len(ret.Results) == 1 {
				switch v := x.strip(ret.Results[0]).(type) {
				case *ast.IndexExpr:
					if id, isId := v.X.(*ast.Ident); isId && id.Name == recv {
						if o, good := x.constU(v.Index); good {
							off, width, ok = o, 1, true
						}
					}
				case *ast.CallExpr:
					fn := x.p.Src(v.Fun)
					if w, known := getWidth[fn]; known && len(v.Args) == 1 {
						o, _, good := x.sliceFrom(v.Args[0], recv)
						off, width, ok = o, w, good
					} else if fn == "bigEndianGet" && len(v.Args) == 1 {
						o, l, good := x.sliceFrom(v.Args[0], recv)
						if good && l == 3 {
							off, width, ok = o, 3, true
						}
						if h := x.p.Func("", "bigEndianGet"); h == nil || x.p.Src(h.Body) != wantBigEndianGet {
							x.o.problem("bigEndianGet is not the 3-byte big-endian load the model assumes")
						}
					}
				}
			}
		}
		if !ok {
			x.o.problem("%s.%s: accessor body not understood", typ, m)
			continue
		}
		tbl = append(tbl, layoutEntry{accessorField[m], off, width})
	}
	return tbl
}

// setChecksum: `binary.BigEndian.PutUint32(h[C:], crc)`.
func (x *codecX) setChecksum(typ string) (off, width uint64) {
	fd := x.p.Func(typ, "SetChecksum")
	if fd != nil && len(fd.Body.List) == 1 {
		if es, ok := fd.Body.List[0].(*ast.ExprStmt); ok {
			if call, ok := es.X.(*ast.CallExpr); ok && len(call.Args) == 2 {
				if w, known := putWidth[x.p.Src(call.Fun)]; known {
					if o, _, good := x.sliceFrom(call.Args[0], recvName(fd)); good {
						if id, isId := call.Args[1].(*ast.Ident); isId && id.Name == "crc" {
							return o, w
						}
					}
				}
			}
		}
	}
	x.o.problem("%s.SetChecksum not understood", typ)
	return 0, 0
}

// calcChecksum: constructor of the hasher, the covered header prefix, the order of the hashed parts.
func (x *codecX) calcChecksum(typ string) (cover uint64, parts string, ctor string) {
	fd := x.p.Func(typ, "CalcChecksum")
	if fd == nil {
		x.o.problem("%s.CalcChecksum not found", typ)
		return 0, "?", "?"
	}
	recv := recvName(fd)
	var names []string
	for _, call := range x.p.Calls(fd, "hasher.Write") {
		if len(call.Args) != 1 {
			continue
		}
		if o, l, ok := x.sliceFrom(call.Args[0], recv); ok && o == 0 && l >= 0 {
			cover = uint64(l)
			names = append(names, "head")
		} else {
			names = append(names, x.p.Src(call.Args[0]))
		}
	}
	ctor = "?"
	ast.Inspect(fd, func(n ast.Node) bool {
		if vs, ok := n.(*ast.ValueSpec); ok && len(vs.Names) == 1 && vs.Names[0].Name == "hasher" && len(vs.Values) == 1 {
			ctor = x.p.Src(vs.Values[0])
		}
		return true
	})
	if rets := returnsOf(fd); len(rets) != 1 || x.p.Src(rets[0]) != "return hasher.Sum32()" {
		x.o.problem("%s.CalcChecksum does not end in hasher.Sum32()", typ)
	}
	return cover, strings.Join(names, ","), ctor
}

func returnsOf(fd *ast.FuncDecl) []*ast.ReturnStmt {
	var out []*ast.ReturnStmt
	ast.Inspect(fd, func(n ast.Node) bool {
		if r, ok := n.(*ast.ReturnStmt); ok {
			out = append(out, r)
		}
		return true
	})
	return out
}

// cmpBounds collects, from a condition built with ||, the comparisons of `v` with constants:
// lo = smallest accepted value implied by `v < C` / `v <= C`, hi = largest accepted by `v > C` / `v >= C`.
func (x *codecX) cmpBounds(cond ast.Expr, v string, lo, hi *uint64, hasLo, hasHi *bool) {
	switch b := cond.(type) {
	case *ast.ParenExpr:
		x.cmpBounds(b.X, v, lo, hi, hasLo, hasHi)
	case *ast.BinaryExpr:
		if b.Op == token.LOR {
			x.cmpBounds(b.X, v, lo, hi, hasLo, hasHi)
			x.cmpBounds(b.Y, v, lo, hi, hasLo, hasHi)
			return
		}
		op := b.Op
		var c uint64
		var ok bool
		if id, isId := x.strip(b.X).(*ast.Ident); isId && id.Name == v {
			c, ok = x.constU(b.Y)
		} else if id, isId := x.strip(b.Y).(*ast.Ident); isId && id.Name == v {
			c, ok = x.constU(b.X)
			switch op { // C op v  ==  v op' C
			case token.LSS:
				op = token.GTR
			case token.LEQ:
				op = token.GEQ
			case token.GTR:
				op = token.LSS
			case token.GEQ:
				op = token.LEQ
			}
		}
		if !ok {
			return
		}
		switch op {
		case token.LSS:
			if !*hasLo || c > *lo {
				*lo, *hasLo = c, true
			}
		case token.LEQ:
			if !*hasLo || c+1 > *lo {
				*lo, *hasLo = c+1, true
			}
		case token.GTR:
			if !*hasHi || c < *hi {
				*hi, *hasHi = c, true
			}
		case token.GEQ:
			if c > 0 && (!*hasHi || c-1 < *hi) {
				*hi, *hasHi = c-1, true
			}
		}
	}
}

func endsInErrorReturn(b *ast.BlockStmt) bool {
	if len(b.List) == 0 {
		return false
	}
	r, ok := b.List[len(b.List)-1].(*ast.ReturnStmt)
	if !ok || len(r.Results) == 0 {
		return false
	}
	last, isId := r.Results[len(r.Results)-1].(*ast.Ident)
	return !(isId && last.Name == "nil")
}

// readGuards: in a reader function, the range guards on `length` that precede the `make`, the
// constant subtracted in the `make`, and the width of length's integer type.
func (x *codecX) readGuards(fd *ast.FuncDecl, what string) (lo, hi, sub, bits uint64) {
	if fd == nil {
		x.o.problem("%s not found", what)
		return
	}
	var hasLo, hasHi, sawMake bool
	for _, st := range fd.Body.List {
		if mk := x.p.Calls(st, "make"); len(mk) > 0 {
			sawMake = true
			if len(mk) != 1 || len(mk[0].Args) != 2 {
				x.o.problem("%s: unexpected make", what)
				break
			}
			be, ok := mk[0].Args[1].(*ast.BinaryExpr)
			if !ok || be.Op != token.SUB || x.p.Src(be.X) != "length" {
				x.o.problem("%s: make size is not `length - C`: %s", what, x.p.Src(mk[0].Args[1]))
				break
			}
			if c, good := x.constU(be.Y); good {
				sub = c
			} else {
				x.o.problem("%s: make size subtracts a non-constant", what)
			}
			if _, b, good := x.p.IntType(be.X); good {
				bits = uint64(b)
			} else {
				x.o.problem("%s: static type of length unknown", what)
			}
			break
		}
		if ifs, ok := st.(*ast.IfStmt); ok && ifs.Init == nil && ifs.Else == nil && endsInErrorReturn(ifs.Body) {
			x.cmpBounds(ifs.Cond, "length", &lo, &hi, &hasLo, &hasHi)
		}
	}
	if !sawMake {
		x.o.problem("%s: no make found", what)
	}
	if !hasLo {
		lo = 0
	}
	if !hasHi && bits > 0 && bits < 64 {
		hi = 1<<bits - 1
	}
	return
}

// writeLimit: `if nbytes > C { return 0, err }` of WritePacket.
func (x *codecX) writeLimit(fd *ast.FuncDecl, v string, what string) uint64 {
	var lo, hi uint64
	var hasLo, hasHi bool
	if fd != nil {
		ast.Inspect(fd, func(n ast.Node) bool {
			if ifs, ok := n.(*ast.IfStmt); ok && endsInErrorReturn(ifs.Body) {
				if ifs.Init != nil { // `if n := len(refers); n > C`
					if as, ok := ifs.Init.(*ast.AssignStmt); ok && len(as.Lhs) == 1 && x.p.Src(as.Lhs[0]) == v {
						x.cmpBounds(ifs.Cond, v, &lo, &hi, &hasLo, &hasHi)
					}
				} else {
					x.cmpBounds(ifs.Cond, v, &lo, &hi, &hasLo, &hasHi)
				}
			}
			return true
		})
	}
	if !hasHi || hasLo {
		x.o.problem("%s: upper limit on %s not understood", what, v)
	}
	return hi
}

// defaultThreshold: `if threshold <= 0 { threshold = C }` of the constructor.
func (x *codecX) defaultThreshold(name string) uint64 {
	fd := x.p.Func("", name)
	if fd != nil {
		for _, st := range fd.Body.List {
			if ifs, ok := st.(*ast.IfStmt); ok && x.p.Src(ifs.Cond) == "threshold <= 0" && len(ifs.Body.List) == 1 {
				if as, ok := ifs.Body.List[0].(*ast.AssignStmt); ok && len(as.Lhs) == 1 && x.p.Src(as.Lhs[0]) == "threshold" {
					if c, good := x.constU(as.Rhs[0]); good {
						return c
					}
				}
			}
		}
	}
	x.o.problem("%s: default threshold not understood", name)
	return 0
}

func (x *codecX) format(v string, typ string, codecType string, hasNode bool) {
	o, p := x.o, x.p
	o.nat(v+"HeaderSize", p.ConstU(o, strings.ToUpper(v)+"HeaderSize"), "codec const "+strings.ToUpper(v)+"HeaderSize")
	o.nat(v+"MaxPayloadBytes", p.ConstU(o, strings.ToUpper(v)+"MaxPayloadBytes"), "codec const "+strings.ToUpper(v)+"MaxPayloadBytes")
	o.nat(v+"DefaultThreshold", x.defaultThreshold("New"+strings.ToUpper(v)+"Encoder"), "New"+strings.ToUpper(v)+"Encoder: threshold installed when the argument is <= 0")
	x.layout(v+"Pack", x.packTable(typ), typ+".Pack: (field, offset, width) of every write, in statement order")
	so, sw := x.setChecksum(typ)
	o.nat(v+"SetCrcOff", so, typ+".SetChecksum offset")
	o.nat(v+"SetCrcWidth", sw, typ+".SetChecksum width")
	acc := []string{"Len", "Type", "Flag", "Seq", "Command", "Checksum"}
	if hasNode {
		acc = []string{"Len", "Type", "Flag", "RefCount", "Seq", "Node", "Command", "Checksum"}
	}
	x.layout(v+"Get", x.accessorTable(typ, acc), typ+" accessors: (field, offset, width)")
	cover, parts, ctor := x.calcChecksum(typ)
	o.nat(v+"CrcCover", cover, typ+".CalcChecksum hashes h[:cover] first")
	o.str(v+"CrcParts", parts, typ+".CalcChecksum: order of the hashed parts")
	o.str(v+"CrcCtor", ctor, typ+".CalcChecksum: hash constructor")
	rd := p.Func(codecType, "ReadHeadBody")
	lo, hi, sub, bits := x.readGuards(rd, codecType+".ReadHeadBody")
	o.nat(v+"LenBits", bits, codecType+".ReadHeadBody: width of the type of `length`")
	o.nat(v+"ReadLo", lo, codecType+".ReadHeadBody refuses length < this before make (0: no lower guard)")
	o.nat(v+"ReadHi", hi, codecType+".ReadHeadBody refuses length > this before make")
	o.nat(v+"ReadSub", sub, codecType+".ReadHeadBody: make([]byte, length - this)")
	o.nat(v+"WriteMax", x.writeLimit(p.Func(codecType, "WritePacket"), "nbytes", codecType+".WritePacket"), codecType+".WritePacket refuses nbytes > this before the first Write")
	// UnmarshalPacket: when is unmarshalPacketBody called?
	onFlags := false
	if up := p.Func(codecType, "UnmarshalPacket"); up == nil {
		o.problem("%s.UnmarshalPacket not found", codecType)
	} else {
		found := false
		ast.Inspect(up, func(n ast.Node) bool {
			ifs, ok := n.(*ast.IfStmt)
			if !ok || len(ifs.Body.List) != 1 {
				return true
			}
			if ret, isRet := ifs.Body.List[0].(*ast.ReturnStmt); isRet && len(ret.Results) == 1 && strings.HasPrefix(p.Src(ret.Results[0]), "unmarshalPacketBody(") {
				switch p.Src(ifs.Cond) {
				case "len(body) > 0":
					found = true
				case "len(body) > 0 || pkt.Flag()&(fatchoy.PFlagCompressed|fatchoy.PFlagEncrypted) != 0":
					found, onFlags = true, true
				}
			}
			return true
		})
		if !found {
			o.problem("%s.UnmarshalPacket: the condition guarding unmarshalPacketBody is not one the model knows", codecType)
		}
	}
	o.bool(v+"BodyStepOnFlags", onFlags, codecType+".UnmarshalPacket calls unmarshalPacketBody for an empty body when the compression or encryption bit is set")
	// the call site of Pack passes nbytes as the size (and len(refers) as the count)
	if wp := p.Func(codecType, "WritePacket"); wp != nil {
		calls := p.Calls(wp, "head.Pack")
		good := len(calls) == 1
		if good {
			args := calls[0].Args
			good = len(args) >= 2 && p.Src(x.strip(args[len(args)-1])) == "nbytes"
			if good && hasNode {
				good = len(args) == 3 && p.Src(x.strip(args[1])) == "len(refers)"
			}
		}
		if !good {
			o.problem("%s.WritePacket: call of head.Pack not understood", codecType)
		}
	}
}

func extractCodec(repo string, o *Out) {
	p, err := load(repo, "codec")
	if err != nil {
		o.problem("load codec: %v", err)
		return
	}
	x := &codecX{p, o}
	x.format("v1", "V1Header", "codecV1", false)
	x.format("v2", "V2Header", "codecV2", true)
	o.nat("maxRefs", x.writeLimit(p.Func("codecV2", "WritePacket"), "n", "codecV2.WritePacket (reference count)"), "codecV2.WritePacket refuses len(refers) > this")

	// ReadLenData
	ld := p.Func("", "ReadLenData")
	lo, _, sub, bits := x.readGuards(ld, "ReadLenData")
	hdr := uint64(0)
	if ld != nil {
		ast.Inspect(ld, func(n ast.Node) bool {
			if vs, ok := n.(*ast.ValueSpec); ok && len(vs.Names) == 1 && vs.Names[0].Name == "tmp" {
				if at, ok := vs.Type.(*ast.ArrayType); ok {
					hdr, _ = x.constU(at.Len)
				}
			}
			return true
		})
	}
	if hdr == 0 {
		o.problem("ReadLenData: size of the length prefix not understood")
	}
	o.nat("ldHeader", hdr, "ReadLenData: size of the length prefix buffer")
	o.nat("ldLenBits", bits, "ReadLenData: width of the type of `length`")
	o.nat("ldReadLo", lo, "ReadLenData refuses length < this before make (0: no guard)")
	o.nat("ldReadSub", sub, "ReadLenData: make([]byte, length - this)")

	// WriteLenData
	wl := p.Func("", "WriteLenData")
	var wAdd, wHi, wHdr, wRet uint64
	if wl == nil {
		o.problem("WriteLenData not found")
	} else {
		okAdd, okRet := false, false
		var lo uint64
		var hasLo, hasHi bool
		for _, st := range wl.Body.List {
			switch v := st.(type) {
			case *ast.DeclStmt:
				ast.Inspect(v, func(n ast.Node) bool {
					vs, ok := n.(*ast.ValueSpec)
					if !ok || len(vs.Names) != 1 {
						return true
					}
					if vs.Names[0].Name == "length" && len(vs.Values) == 1 {
						if be, ok := vs.Values[0].(*ast.BinaryExpr); ok && be.Op == token.ADD && p.Src(be.X) == "len(data)" {
							wAdd, okAdd = x.constU(be.Y)
						}
					}
					if vs.Names[0].Name == "tmp" {
						if at, ok := vs.Type.(*ast.ArrayType); ok {
							wHdr, _ = x.constU(at.Len)
						}
					}
					return true
				})
			case *ast.IfStmt:
				if v.Init == nil && v.Else == nil && endsInErrorReturn(v.Body) {
					x.cmpBounds(v.Cond, "length", &lo, &wHi, &hasLo, &hasHi)
				}
			case *ast.ReturnStmt:
				if len(v.Results) == 2 && p.Src(v.Results[1]) == "nil" {
					if be, ok := v.Results[0].(*ast.BinaryExpr); ok && be.Op == token.ADD && p.Src(be.X) == "n" {
						wRet, okRet = x.constU(be.Y)
					} else if p.Src(v.Results[0]) == "n" {
						wRet, okRet = 0, true
					}
				}
			}
		}
		if !okAdd || !okRet || !hasHi || hasLo || wHdr == 0 {
			o.problem("WriteLenData: length computation, limit, prefix buffer or return value not understood")
		}
		var writes []string
		for _, c := range p.Calls(wl, "w.Write") {
			if len(c.Args) == 1 {
				writes = append(writes, p.Src(c.Args[0]))
			}
		}
		puts := p.Calls(wl, "binary.BigEndian.PutUint16")
		if strings.Join(writes, ",") != "tmp[:],data" || len(puts) != 1 || len(puts[0].Args) != 2 ||
			p.Src(puts[0].Args[0]) != "tmp[:]" || p.Src(x.strip(puts[0].Args[1])) != "length" || wHdr != 2 {
			o.problem("WriteLenData: the two writes (16-bit big-endian length, then the data) are not the ones the model assumes")
		}
	}
	o.nat("ldWriteAdd", wAdd, "WriteLenData: length = len(data) + this")
	o.nat("ldWriteHi", wHi, "WriteLenData refuses length > this before the first Write")
	o.nat("ldWriteHeader", wHdr, "WriteLenData: size of the length prefix buffer")
	o.nat("ldRetAdd", wRet, "WriteLenData returns n + this, n the size of the data (the code's behaviour, whatever was written)")

	// flag bits (package fatchoy)
	if root, err := load(repo, "."); err != nil {
		o.problem("load root package: %v", err)
	} else {
		o.nat("flagCompressed", root.ConstU(o, "PFlagCompressed"), "packet.go const PFlagCompressed")
		o.nat("flagEncrypted", root.ConstU(o, "PFlagEncrypted"), "packet.go const PFlagEncrypted")
		o.nat("flagError", root.ConstU(o, "PFlagError"), "packet.go const PFlagError")
	}

	// BodyToBytes: is there a `case nil` that returns (D8, repaired under C07)?
	nilCase := false
	if pk, err := load(repo, "packet"); err != nil {
		o.problem("load packet: %v", err)
	} else if fd := pk.Func("Packet", "BodyToBytes"); fd == nil {
		o.problem("Packet.BodyToBytes not found")
	} else {
		ast.Inspect(fd, func(n ast.Node) bool {
			if cc, ok := n.(*ast.CaseClause); ok {
				for _, e := range cc.List {
					if id, ok := e.(*ast.Ident); ok && id.Name == "nil" && len(cc.Body) == 1 {
						if _, isRet := cc.Body[0].(*ast.ReturnStmt); isRet {
							nilCase = true
						}
					}
				}
			}
			return true
		})
	}
	o.bool("nilBodyEncodes", nilCase, "Packet.BodyToBytes has a `case nil` that returns")
}
