package main

import (
	"flag"
	"fmt"
	"go/ast"
	"go/constant"
	"go/token"
	"go/types"
	"os"
	"path/filepath"
	"strings"
)

func init() { extractors["C18"] = extractC18 }

// syncSkel prints the synchronisation skeleton of a function: one line per lock / channel /
// atomic-state / WaitGroup / go / defer operation and per control construct that orders them
// (if, for, select, case, default, switch, return), in source order, indented by nesting.
// Local copy for C15/C18 (executor_threadpool.go, rpc.go).
func syncSkel(p *Pkg, fd *ast.FuncDecl) []string {
	var out []string
	emit := func(depth int, format string, a ...interface{}) {
		out = append(out, strings.Repeat("  ", depth)+fmt.Sprintf(format, a...))
	}
	syncMethods := map[string]bool{"Lock": true, "Unlock": true, "RLock": true, "RUnlock": true, "Add": true, "Done": true, "Wait": true,
		"CAS": true, "Get": true, "Set": true}
	var expr func(depth int, e ast.Node)
	expr = func(depth int, e ast.Node) {
		if e == nil {
			return
		}
		ast.Inspect(e, func(n ast.Node) bool {
			switch x := n.(type) {
			case *ast.FuncLit:
				emit(depth, "func-literal")
				return false
			case *ast.UnaryExpr:
				if x.Op == token.ARROW {
					emit(depth, "recv %s", p.Src(x.X))
				}
			case *ast.CallExpr:
				if id, ok := x.Fun.(*ast.Ident); ok && id.Name == "close" && len(x.Args) == 1 {
					emit(depth, "close %s", p.Src(x.Args[0]))
				} else if id, ok := x.Fun.(*ast.Ident); ok && (id.Name == "panic" || id.Name == "recover" || id.Name == "delete") {
					a := ""
					if id.Name == "delete" && len(x.Args) > 0 {
						a = " " + p.Src(x.Args[0])
					}
					emit(depth, "%s%s", id.Name, a)
				} else if sel, ok := x.Fun.(*ast.SelectorExpr); ok {
					recv := p.Src(sel.X)
					_, recvIsCall := sel.X.(*ast.CallExpr)
					isPkg := false
					if id, ok := sel.X.(*ast.Ident); ok {
						_, isPkg = p.Info.Uses[id].(*types.PkgName)
					}
					switch {
					case syncMethods[sel.Sel.Name] && !recvIsCall && !isPkg:
						args := make([]string, len(x.Args))
						for i, a := range x.Args {
							args[i] = p.Src(a)
						}
						emit(depth, "%s %s(%s)", sel.Sel.Name, recv, strings.Join(args, ", "))
					case recv == "log" && strings.HasPrefix(sel.Sel.Name, "Panic"):
						emit(depth, "panic log.%s", sel.Sel.Name)
					case !isPkg && !recvIsCall: // a method of a local object: part of the call graph of the skeleton
						if _, ok := sel.X.(*ast.Ident); ok {
							emit(depth, "call %s.%s", recv, sel.Sel.Name)
						}
					}
				}
			}
			return true
		})
	}
	var stmts func(depth int, l []ast.Stmt)
	var stmt func(depth int, s ast.Stmt)
	stmts = func(depth int, l []ast.Stmt) {
		for _, s := range l {
			stmt(depth, s)
		}
	}
	stmt = func(depth int, s ast.Stmt) {
		switch x := s.(type) {
		case nil:
		case *ast.BlockStmt:
			stmts(depth, x.List)
		case *ast.IfStmt:
			stmt(depth, x.Init)
			emit(depth, "if %s", p.Src(x.Cond))
			expr(depth+1, x.Cond)
			stmts(depth+1, x.Body.List)
			if x.Else != nil {
				emit(depth, "else")
				stmt(depth+1, x.Else)
			}
		case *ast.ForStmt:
			stmt(depth, x.Init)
			c := ""
			if x.Cond != nil {
				c = " " + p.Src(x.Cond)
			}
			emit(depth, "for%s", c)
			expr(depth+1, x.Cond)
			stmts(depth+1, x.Body.List)
		case *ast.RangeStmt:
			emit(depth, "range %s", p.Src(x.X))
			expr(depth+1, x.X)
			stmts(depth+1, x.Body.List)
		case *ast.SelectStmt:
			emit(depth, "select")
			for _, c := range x.Body.List {
				cc := c.(*ast.CommClause)
				if cc.Comm == nil {
					emit(depth+1, "default")
				} else {
					emit(depth+1, "case")
					stmt(depth+2, cc.Comm)
				}
				stmts(depth+2, cc.Body)
			}
		case *ast.SwitchStmt:
			stmt(depth, x.Init)
			t := ""
			if x.Tag != nil {
				t = " " + p.Src(x.Tag)
			}
			emit(depth, "switch%s", t)
			expr(depth+1, x.Tag)
			for _, c := range x.Body.List {
				cc := c.(*ast.CaseClause)
				if cc.List == nil {
					emit(depth+1, "default")
				} else {
					ls := make([]string, len(cc.List))
					for i, e := range cc.List {
						ls[i] = p.Src(e)
					}
					emit(depth+1, "case %s", strings.Join(ls, ", "))
				}
				stmts(depth+2, cc.Body)
			}
		case *ast.TypeSwitchStmt:
			emit(depth, "typeswitch")
			for _, c := range x.Body.List {
				stmts(depth+1, c.(*ast.CaseClause).Body)
			}
		case *ast.SendStmt:
			expr(depth, x.Value)
			emit(depth, "send %s", p.Src(x.Chan))
		case *ast.GoStmt:
			emit(depth, "go %s", p.Src(x.Call.Fun))
		case *ast.DeferStmt:
			emit(depth, "defer %s", p.Src(x.Call.Fun))
		case *ast.ReturnStmt:
			for _, r := range x.Results {
				expr(depth, r)
			}
			emit(depth, "return")
		case *ast.BranchStmt:
			emit(depth, "%s", x.Tok.String())
		case *ast.LabeledStmt:
			stmt(depth, x.Stmt)
		default:
			expr(depth, s)
		}
	}
	name := fd.Name.Name
	if fd.Recv != nil && len(fd.Recv.List) == 1 {
		name = "(" + p.Src(fd.Recv.List[0].Type) + ")." + name
	}
	emit(0, "func %s", name)
	if fd.Body != nil {
		stmts(1, fd.Body.List)
	}
	return out
}

// c18writeSkeleton writes the skeleton of every function of one source file to <facts dir>/skeletons/<name>.txt.
// Each function is printed from its alpha-normalised declaration (`normalise`, c07.go; `renumberDecl`, c11.go): the
// receiver is _r, the parameters _p0, _p1, … by position, the locals _v0, _v1, … by order of declaration among the
// locals the function's skeleton mentions; fields, methods, constants and packages keep their names. Renaming a
// receiver, parameter or local leaves the skeleton as it is; a changed lock, channel operation, call or condition does not.
func c18writeSkeleton(p *Pkg, o *Out, file, name string) {
	var lines []string
	found := false
	for _, f := range p.Files {
		if filepath.Base(p.Fset.Position(f.Pos()).Filename) != file {
			continue
		}
		found = true
		for _, d := range f.Decls {
			if fd, ok := d.(*ast.FuncDecl); ok {
				restore := p.normalise(fd)
				sk := syncSkel(p, fd)
				restore()
				lines = append(lines, strings.Split(renumberDecl(strings.Join(sk, "\n")), "\n")...)
			}
		}
	}
	if !found {
		o.problem("skeleton: file %s not found", file)
		return
	}
	fl := flag.Lookup("facts")
	if fl == nil || fl.Value.String() == "" {
		return
	}
	dir := filepath.Join(fl.Value.String(), "skeletons")
	if err := os.MkdirAll(dir, 0o755); err != nil {
		o.problem("skeleton: %v", err)
		return
	}
	if err := os.WriteFile(filepath.Join(dir, name), []byte(strings.Join(lines, "\n")+"\n"), 0o644); err != nil {
		o.problem("skeleton: %v", err)
	}
}

// executor_threadpool.go: the five state words, the per-task recover, the worker-count clamp, the skeleton.
func extractC18(repo string, o *Out) {
	root, err := load(repo, ".")
	if err != nil {
		o.problem("load .: %v", err)
		return
	}
	for _, n := range []string{"StateInit", "StateStarted", "StateRunning", "StateShutdown", "StateTerminated"} {
		o.nat("s"+n[1:], root.ConstU(o, n), "state.go const "+n)
	}
	sp, err := load(repo, "sched")
	if err != nil {
		o.problem("load sched: %v", err)
		return
	}
	dp, err := load(repo, "debug")
	if err != nil {
		o.problem("load debug: %v", err)
		return
	}
	// run(): its first statement defers debug.CatchPanic, and CatchPanic calls recover()
	recovers := false
	if fd := sp.Func("ThreadPoolExecutor", "run"); fd == nil || fd.Body == nil || len(fd.Body.List) == 0 {
		o.problem("method ThreadPoolExecutor.run not found")
	} else if ds, ok := fd.Body.List[0].(*ast.DeferStmt); !ok || sp.Src(ds.Call.Fun) != "debug.CatchPanic" {
		o.problem("ThreadPoolExecutor.run: the first statement is not `defer debug.CatchPanic()`")
	} else if cp := dp.Func("", "CatchPanic"); cp == nil {
		o.problem("debug.CatchPanic not found")
	} else if len(dp.Calls(cp, "recover")) != 1 {
		o.problem("debug.CatchPanic does not call recover() exactly once")
	} else {
		// the task must be called inside run (so that the deferred recover covers it); run is read in its
		// alpha-normalised form (`normalise`, c07.go): the task is its first parameter, _p0, whatever it is called
		restore := sp.normalise(fd)
		if len(sp.Calls(fd, "_p0.Run")) == 1 {
			recovers = true
		} else {
			o.problem("ThreadPoolExecutor.run does not call Run() of its parameter exactly once")
		}
		restore()
	}
	o.bool("runRecovers", recovers, "sched/executor_threadpool.go run(): `defer debug.CatchPanic()` first, then r.Run(); debug/backtrace.go CatchPanic calls recover()")
	// NewThreadPoolExecutor: if nworker <= 0 { nworker = K }
	minW := uint64(0)
	if fd := sp.Func("", "NewThreadPoolExecutor"); fd == nil || fd.Body == nil {
		o.problem("func NewThreadPoolExecutor not found")
	} else {
		ok := false
		restore := sp.normalise(fd) // alpha-normalised: nworker is the first parameter, _p0
		for _, s := range fd.Body.List {
			is, isIf := s.(*ast.IfStmt)
			if !isIf || sp.Src(is.Cond) != "_p0 <= 0" || len(is.Body.List) != 1 {
				continue
			}
			as, isAs := is.Body.List[0].(*ast.AssignStmt)
			if !isAs || len(as.Lhs) != 1 || sp.Src(as.Lhs[0]) != "_p0" || len(as.Rhs) != 1 {
				continue
			}
			if v, c := sp.ConstOf(as.Rhs[0]); c {
				minW, _ = constant.Uint64Val(constant.ToInt(v))
				ok = true
			}
		}
		restore()
		if !ok {
			o.problem("NewThreadPoolExecutor: pattern `if nworker <= 0 { nworker = K }` (nworker = the first parameter) not found")
		}
	}
	o.nat("minWorkers", minW, "sched/executor_threadpool.go NewThreadPoolExecutor: replacement for nworker <= 0")
	c18writeSkeleton(sp, o, "executor_threadpool.go", "executor_threadpool.txt")
}
