package main

// C02 uses the same codec facts as C01 (c01.go); they are written to Gen/C02.lean so that
// `./check C02` regenerates everything its model instance and its theorems depend on.
func init() { extractors["C02"] = extractCodec }
