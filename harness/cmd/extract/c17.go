package main

import (
	"go/ast"
	"go/constant"
	"go/token"
	"strconv"
	"strings"
)

func init() { extractors["C17"] = extractC17 }

// collections/consistent/consistent.go: ReplicaCount, the FNV-1a literals and step order of hashKey, the
// replica-key format of AddNode/RemoveNode, the comparison of the binary search, and whether RemoveNode's
// delete is guarded by an ownership test.
func extractC17(repo string, o *Out) {
	p, err := load(repo, "collections/consistent")
	if err != nil {
		o.problem("load: %v", err)
		return
	}
	o.nat("replicaCount", p.ConstU(o, "ReplicaCount"), "consistent.go const ReplicaCount")

	// hashKey: `var hash = uint32(<offset>)`; loop body `hash ^= uint32(c)` then `hash *= <prime>`
	offset, prime, bits, order := uint64(0), uint64(0), 0, "?"
	if fd := p.Func("Consistent", "hashKey"); fd == nil {
		o.problem("method Consistent.hashKey not found")
	} else {
		var steps []string
		ast.Inspect(fd.Body, func(n ast.Node) bool {
			switch x := n.(type) {
			case *ast.ValueSpec:
				if len(x.Names) == 1 && x.Names[0].Name == "hash" && len(x.Values) == 1 {
					if v, ok := p.ConstOf(x.Values[0]); ok {
						offset, _ = constant.Uint64Val(constant.ToInt(v))
					}
					_, bits, _ = p.IntType(x.Values[0])
				}
			case *ast.AssignStmt:
				if len(x.Lhs) == 1 && p.Src(x.Lhs[0]) == "hash" && len(x.Rhs) == 1 {
					switch x.Tok {
					case token.XOR_ASSIGN:
						steps = append(steps, "xor")
						if s := p.Src(x.Rhs[0]); s != "uint32(c)" {
							o.problem("hashKey: xor operand is %s, expected uint32(c)", s)
						}
					case token.MUL_ASSIGN:
						steps = append(steps, "mul")
						if v, ok := p.ConstOf(x.Rhs[0]); ok {
							prime, _ = constant.Uint64Val(constant.ToInt(v))
						} else {
							o.problem("hashKey: multiplier is not a constant")
						}
					default:
						steps = append(steps, x.Tok.String())
					}
				}
			}
			return true
		})
		order = strings.Join(steps, "-")
	}
	o.nat("fnvOffset", offset, "initial value of `hash` in Consistent.hashKey")
	o.nat("fnvPrime", prime, "multiplier of `hash *=` in Consistent.hashKey")
	o.nat("hashBits", uint64(bits), "width of the static type of `hash` in Consistent.hashKey")
	o.str("fnvOrder", order, "order of the update steps in the loop of Consistent.hashKey (FNV-1a = xor-mul)")

	// replica key format + loop shape of AddNode / RemoveNode
	format := func(recv, name string) (string, *ast.FuncDecl) {
		fd := p.Func(recv, name)
		if fd == nil {
			o.problem("method %s.%s not found", recv, name)
			return "?", nil
		}
		calls := p.Calls(fd, "fmt.Sprintf")
		if len(calls) != 1 || len(calls[0].Args) != 3 || p.Src(calls[0].Args[1]) != "node" || p.Src(calls[0].Args[2]) != "i" {
			o.problem("%s: expected exactly one fmt.Sprintf(format, node, i)", name)
			return "?", fd
		}
		f := "?"
		if v, ok := p.ConstOf(calls[0].Args[0]); ok && v.Kind() == constant.String {
			f = constant.StringVal(v)
		} else if lit, ok := calls[0].Args[0].(*ast.BasicLit); ok {
			f, _ = strconv.Unquote(lit.Value)
		} else {
			o.problem("%s: replica format is not a constant string", name)
		}
		loops := 0
		ast.Inspect(fd.Body, func(n ast.Node) bool {
			if fs, ok := n.(*ast.ForStmt); ok {
				loops++
				if fs.Init == nil || p.Src(fs.Init) != "i := 0" || p.Src(fs.Cond) != "i < ReplicaCount" || p.Src(fs.Post) != "i++" {
					o.problem("%s: replica loop is not `for i := 0; i < ReplicaCount; i++`", name)
				}
			}
			return true
		})
		if loops != 1 {
			o.problem("%s: expected exactly one loop", name)
		}
		return f, fd
	}
	fa, _ := format("Consistent", "AddNode")
	fr, rm := format("Consistent", "RemoveNode")
	o.str("replicaFormatAdd", fa, "format literal of fmt.Sprintf in Consistent.AddNode")
	o.str("replicaFormatRemove", fr, "format literal of fmt.Sprintf in Consistent.RemoveNode")

	// RemoveNode: is `delete(c.circle, key)` inside `if c.circle[key] == node { ... }` ?
	guarded := false
	if rm != nil {
		dels, inIf := 0, 0
		ast.Inspect(rm.Body, func(n ast.Node) bool {
			if c, ok := n.(*ast.CallExpr); ok && p.Src(c.Fun) == "delete" && len(c.Args) == 2 && p.Src(c.Args[0]) == "c.circle" {
				dels++
			}
			if is, ok := n.(*ast.IfStmt); ok {
				cond := strings.ReplaceAll(p.Src(is.Cond), " ", "")
				if cond == "c.circle[key]==node" || cond == "node==c.circle[key]" {
					for _, c := range p.Calls(is.Body, "delete") {
						if len(c.Args) == 2 && p.Src(c.Args[0]) == "c.circle" && p.Src(c.Args[1]) == "key" {
							inIf++
						}
					}
				}
			}
			return true
		})
		if dels != 1 {
			o.problem("RemoveNode: expected exactly one delete(c.circle, …), found %d", dels)
		}
		guarded = dels == 1 && inIf == 1
	}
	o.bool("removeGuarded", guarded, "RemoveNode deletes a ring point only under `if c.circle[key] == node`")

	// search: the comparison that moves `lo`
	cmp := "?"
	if fd := p.Func("Consistent", "search"); fd == nil {
		o.problem("method Consistent.search not found")
	} else {
		n := 0
		ast.Inspect(fd.Body, func(x ast.Node) bool {
			if is, ok := x.(*ast.IfStmt); ok {
				if be, ok := is.Cond.(*ast.BinaryExpr); ok && p.Src(be.X) == "c.sortedHash[mid]" && p.Src(be.Y) == "hash" {
					cmp = be.Op.String()
					n++
				}
			}
			return true
		})
		if n != 1 {
			o.problem("search: expected exactly one `c.sortedHash[mid] <op> hash` test, found %d", n)
		}
	}
	o.str("searchCmp", cmp, "comparison `c.sortedHash[mid] <op> hash` that advances lo in Consistent.search")
}
