package main

import (
	"go/ast"
	"go/constant"
	"go/token"
	"strconv"
	"strings"
)

func init() { extractors["C17"] = extractC17 }

// collections/consistent/consistent.go: ReplicaCount, the FNV-1a literals and step order of hashKey, the
// replica-key format of AddNode/RemoveNode, the comparison of the binary search, and whether RemoveNode's
// delete is guarded by an ownership test.
func extractC17(repo string, o *Out) {
	p, err := load(repo, "collections/consistent")
	if err != nil {
		o.problem("load: %v", err)
		return
	}
	o.nat("replicaCount", p.ConstU(o, "ReplicaCount"), "consistent.go const ReplicaCount")

	// hashKey: `var hash = uint32(<offset>)`; loop body `hash ^= uint32(c)` then `hash *= <prime>`
	offset, prime, bits, order := uint64(0), uint64(0), 0, "?"
	if fd := p.Func("Consistent", "hashKey"); fd == nil {
		o.problem("method Consistent.hashKey not found")
	} else {
		var steps []string
		ast.Inspect(fd.Body, func(n ast.Node) bool {
			switch x := n.(type) {
			case *ast.ValueSpec:
				if len(x.Names) == 1 && x.Names[0].Name == "hash" && len(x.Values) == 1 {
					if v, ok := p.ConstOf(x.Values[0]); ok {
						offset, _ = constant.Uint64Val(constant.ToInt(v))
					}
					_, bits, _ = p.IntType(x.Values[0])
				}
			case *ast.AssignStmt:
				if len(x.Lhs) == 1 && p.Src(x.Lhs[0]) == "hash" && len(x.Rhs) == 1 {
					switch x.Tok {
					case token.XOR_ASSIGN:
						steps = append(steps, "xor")
						if s := p.Src(x.Rhs[0]); s != "uint32(c)" {
							o.problem("hashKey: xor operand is %s, expected uint32(c)", s)
						}
					case token.MUL_ASSIGN:
						steps = append(steps, "mul")
						if v, ok := p.ConstOf(x.Rhs[0]); ok {
							prime, _ = constant.Uint64Val(constant.ToInt(v))
						} else {
							o.problem("hashKey: multiplier is not a constant")
						}
					default:
						steps = append(steps, x.Tok.String())
					}
				}
			}
			return true
		})
		order = strings.Join(steps, "-")
	}
	o.nat("fnvOffset", offset, "initial value of `hash` in Consistent.hashKey")
	o.nat("fnvPrime", prime, "multiplier of `hash *=` in Consistent.hashKey")
	o.nat("hashBits", uint64(bits), "width of the static type of `hash` in Consistent.hashKey")
	o.str("fnvOrder", order, "order of the update steps in the loop of Consistent.hashKey (FNV-1a = xor-mul)")

	// replica key formats + loop shape of AddNode / RemoveNode. AddNode: one fmt.Sprintf(format, node, i); RemoveNode:
	// one with `node` (the points it deletes) and at most one with `name` (the points it gives back to the
	// remaining members); every index loop is `for i := 0; i < ReplicaCount; i++`.
	formats := func(recv, name string) (byArg map[string]string, fd *ast.FuncDecl) {
		byArg = map[string]string{}
		fd = p.Func(recv, name)
		if fd == nil {
			o.problem("method %s.%s not found", recv, name)
			return
		}
		for _, c := range p.Calls(fd, "fmt.Sprintf") {
			if len(c.Args) != 3 || p.Src(c.Args[2]) != "i" {
				o.problem("%s: fmt.Sprintf call is not (format, <member>, i): %s", name, p.Src(c))
				continue
			}
			arg := p.Src(c.Args[1])
			if _, dup := byArg[arg]; dup {
				o.problem("%s: more than one fmt.Sprintf(format, %s, i)", name, arg)
			}
			f := "?"
			if v, ok := p.ConstOf(c.Args[0]); ok && v.Kind() == constant.String {
				f = constant.StringVal(v)
			} else if lit, ok := c.Args[0].(*ast.BasicLit); ok {
				f, _ = strconv.Unquote(lit.Value)
			} else {
				o.problem("%s: replica format is not a constant string", name)
			}
			byArg[arg] = f
		}
		ast.Inspect(fd.Body, func(n ast.Node) bool {
			if fs, ok := n.(*ast.ForStmt); ok {
				if fs.Init == nil || p.Src(fs.Init) != "i := 0" || p.Src(fs.Cond) != "i < ReplicaCount" || p.Src(fs.Post) != "i++" {
					o.problem("%s: replica loop is not `for i := 0; i < ReplicaCount; i++`", name)
				}
			}
			return true
		})
		return
	}
	get := func(m map[string]string, arg, where string, required bool) string {
		if f, ok := m[arg]; ok {
			return f
		}
		if required {
			o.problem("%s: no fmt.Sprintf(format, %s, i)", where, arg)
		}
		return "?"
	}
	fa, _ := formats("Consistent", "AddNode")
	if len(fa) != 1 {
		o.problem("AddNode: expected exactly one fmt.Sprintf(format, node, i)")
	}
	fr, rm := formats("Consistent", "RemoveNode")
	for arg := range fr {
		if arg != "node" && arg != "name" {
			o.problem("RemoveNode: unexpected fmt.Sprintf(format, %s, i)", arg)
		}
	}
	o.str("replicaFormatAdd", get(fa, "node", "AddNode", true), "format literal of fmt.Sprintf in Consistent.AddNode")
	o.str("replicaFormatRemove", get(fr, "node", "RemoveNode", true), "format literal of fmt.Sprintf(…, node, i) in Consistent.RemoveNode")

	// RemoveNode gives points back: after `delete(c.nodes, node)`, the names of c.nodes are collected, sorted with
	// sort.Strings, and for every name and replica `if _, found := c.circle[key]; !found { c.circle[key] = name }`.
	restores := false
	if rm != nil {
		collect, sorted, put := 0, len(p.Calls(rm, "sort.Strings")), 0
		ast.Inspect(rm.Body, func(n ast.Node) bool {
			switch x := n.(type) {
			case *ast.RangeStmt:
				if p.Src(x.X) == "c.nodes" && x.Key != nil && p.Src(x.Key) == "name" && x.Value == nil {
					if body := strings.ReplaceAll(p.Src(x.Body), " ", ""); strings.Contains(body, "names=append(names,name)") {
						collect++
					}
				}
				if p.Src(x.X) == "names" && x.Value != nil && p.Src(x.Value) == "name" {
					ast.Inspect(x.Body, func(m ast.Node) bool {
						if is, ok := m.(*ast.IfStmt); ok && is.Init != nil && is.Else == nil &&
							strings.ReplaceAll(p.Src(is.Init), " ", "") == "_,found:=c.circle[key]" && strings.ReplaceAll(p.Src(is.Cond), " ", "") == "!found" &&
							len(is.Body.List) == 1 && strings.ReplaceAll(p.Src(is.Body.List[0]), " ", "") == "c.circle[key]=name" {
							put++
						}
						return true
					})
				}
			}
			return true
		})
		_, hasFmt := fr["name"]
		switch {
		case collect == 0 && sorted == 0 && put == 0 && !hasFmt:
			restores = false
		case collect == 1 && sorted == 1 && put == 1 && hasFmt:
			restores = true
			// the order of the statements: delete(c.nodes, node) < collect < sort < restore loop < updateSortedHash
			var pos []string
			for _, st := range rm.Body.List {
				src := strings.ReplaceAll(p.Src(st), " ", "")
				switch {
				case src == "delete(c.nodes,node)":
					pos = append(pos, "delnode")
				case strings.HasPrefix(src, "forname:=rangec.nodes"):
					pos = append(pos, "collect")
				case src == "sort.Strings(names)":
					pos = append(pos, "sort")
				case strings.HasPrefix(src, "for_,name:=rangenames"):
					pos = append(pos, "restore")
				case src == "c.updateSortedHash()":
					pos = append(pos, "update")
				}
			}
			if strings.Join(pos, ",") != "delnode,collect,sort,restore,update" {
				o.problem("RemoveNode: statement order is %s, expected delnode,collect,sort,restore,update", strings.Join(pos, ","))
			}
		default:
			o.problem("RemoveNode: the give-back loop is not of the expected shape (collect %d, sort.Strings %d, guarded put %d, Sprintf with name %v)", collect, sorted, put, hasFmt)
		}
	}
	o.bool("removeRestores", restores, "RemoveNode puts the replica points that the remaining members (sorted by name) lack back on the ring")
	o.str("replicaFormatRestore", get(fr, "name", "RemoveNode", restores), "format literal of fmt.Sprintf(…, name, i) in Consistent.RemoveNode (the give-back loop)")

	// RemoveNode: is `delete(c.circle, key)` inside `if c.circle[key] == node { ... }` ?
	guarded := false
	if rm != nil {
		dels, inIf := 0, 0
		ast.Inspect(rm.Body, func(n ast.Node) bool {
			if c, ok := n.(*ast.CallExpr); ok && p.Src(c.Fun) == "delete" && len(c.Args) == 2 && p.Src(c.Args[0]) == "c.circle" {
				dels++
			}
			if is, ok := n.(*ast.IfStmt); ok {
				cond := strings.ReplaceAll(p.Src(is.Cond), " ", "")
				if cond == "c.circle[key]==node" || cond == "node==c.circle[key]" {
					for _, c := range p.Calls(is.Body, "delete") {
						if len(c.Args) == 2 && p.Src(c.Args[0]) == "c.circle" && p.Src(c.Args[1]) == "key" {
							inIf++
						}
					}
				}
			}
			return true
		})
		if dels != 1 {
			o.problem("RemoveNode: expected exactly one delete(c.circle, …), found %d", dels)
		}
		guarded = dels == 1 && inIf == 1
	}
	o.bool("removeGuarded", guarded, "RemoveNode deletes a ring point only under `if c.circle[key] == node`")

	// search: the comparison that moves `lo`
	cmp := "?"
	if fd := p.Func("Consistent", "search"); fd == nil {
		o.problem("method Consistent.search not found")
	} else {
		n := 0
		ast.Inspect(fd.Body, func(x ast.Node) bool {
			if is, ok := x.(*ast.IfStmt); ok {
				if be, ok := is.Cond.(*ast.BinaryExpr); ok && p.Src(be.X) == "c.sortedHash[mid]" && p.Src(be.Y) == "hash" {
					cmp = be.Op.String()
					n++
				}
			}
			return true
		})
		if n != 1 {
			o.problem("search: expected exactly one `c.sortedHash[mid] <op> hash` test, found %d", n)
		}
	}
	o.str("searchCmp", cmp, "comparison `c.sortedHash[mid] <op> hash` that advances lo in Consistent.search")
}
