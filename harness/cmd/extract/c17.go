package main

import (
	"go/ast"
	"go/constant"
	"go/token"
	"regexp"
	"strconv"
	"strings"
)

func init() { extractors["C17"] = extractC17 }

var c17var = regexp.MustCompile(`\$[a-z]+`)

// c17match matches source text printed from an alpha-normalised declaration (`normalise`, c07.go: receiver _r,
// parameters _p0, _p1, …, every local the placeholder of its declaration) against a pattern in which `$x` stands for
// a local variable: the same `$x` must be the same variable everywhere, within the pattern and across calls that share
// `bind` (a variable not yet bound is bound by the match). White space is ignored. With `whole` the pattern must
// cover the text, otherwise it may occur anywhere in it. So `$names=append($names,$k)` is "some local is appended
// the local $k", whatever the two are called in the source.
func c17match(text, pattern string, whole bool, bind map[string]string) bool {
	nows := func(s string) string { return strings.Join(strings.Fields(s), "") }
	text, pattern = nows(text), nows(pattern)
	var re strings.Builder
	var vars []string
	last := 0
	for _, loc := range c17var.FindAllStringIndex(pattern, -1) {
		re.WriteString(regexp.QuoteMeta(pattern[last:loc[0]]))
		re.WriteString(`(_L[0-9]+_)`)
		vars = append(vars, pattern[loc[0]+1:loc[1]])
		last = loc[1]
	}
	re.WriteString(regexp.QuoteMeta(pattern[last:]))
	expr := re.String()
	if whole {
		expr = "^" + expr + "$"
	}
	for _, m := range regexp.MustCompile(expr).FindAllStringSubmatch(text, -1) {
		got := map[string]string{}
		ok := true
		for i, v := range vars {
			val := m[i+1]
			if b, bound := bind[v]; bound && b != val {
				ok = false
			}
			if g, seen := got[v]; seen && g != val {
				ok = false
			}
			got[v] = val
		}
		if ok {
			for v, val := range got {
				bind[v] = val
			}
			return true
		}
	}
	return false
}

// collections/consistent/consistent.go: ReplicaCount, the FNV-1a literals and step order of hashKey, the
// replica-key format of AddNode/RemoveNode, the comparison of the binary search, and whether RemoveNode's
// delete is guarded by an ownership test.
// Every method is read in its alpha-normalised form (`normalise`, c07.go) and its locals are identified by the role they
// play (c17match), so the names chosen for receivers, parameters and locals do not matter; fields (circle, nodes,
// sortedHash), methods, functions and constants are matched by their own names.
func extractC17(repo string, o *Out) {
	p, err := load(repo, "collections/consistent")
	if err != nil {
		o.problem("load: %v", err)
		return
	}
	o.nat("replicaCount", p.ConstU(o, "ReplicaCount"), "consistent.go const ReplicaCount")

	// hashKey: `var hash = uint32(<offset>)`; loop body `hash ^= uint32(c)` then `hash *= <prime>`
	offset, prime, bits, order := uint64(0), uint64(0), 0, "?"
	if fd := p.Func("Consistent", "hashKey"); fd == nil {
		o.problem("method Consistent.hashKey not found")
	} else {
		restore := p.normalise(fd)
		// `hash` is the local the function returns
		hash := map[string]string{}
		nret := 0
		ast.Inspect(fd.Body, func(n ast.Node) bool {
			if _, lit := n.(*ast.FuncLit); lit {
				return false
			}
			if r, ok := n.(*ast.ReturnStmt); ok {
				nret++
				if len(r.Results) != 1 || !c17match(p.Src(r.Results[0]), "$hash", true, hash) {
					nret = -100
				}
			}
			return true
		})
		if nret < 1 {
			o.problem("hashKey: does not return one local variable (the running `hash`)")
			hash["hash"] = "?"
		}
		var steps []string
		ast.Inspect(fd.Body, func(n ast.Node) bool {
			switch x := n.(type) {
			case *ast.ValueSpec:
				if len(x.Names) == 1 && x.Names[0].Name == hash["hash"] && len(x.Values) == 1 {
					if v, ok := p.ConstOf(x.Values[0]); ok {
						offset, _ = constant.Uint64Val(constant.ToInt(v))
					}
					_, bits, _ = p.IntType(x.Values[0])
				}
			case *ast.AssignStmt:
				if len(x.Lhs) == 1 && p.Src(x.Lhs[0]) == hash["hash"] && len(x.Rhs) == 1 {
					switch x.Tok {
					case token.XOR_ASSIGN:
						steps = append(steps, "xor")
						if s := p.Src(x.Rhs[0]); !c17match(s, "uint32($c)", true, map[string]string{}) {
							o.problem("hashKey: xor operand is %s, expected uint32(c)", renumberDecl(s))
						}
					case token.MUL_ASSIGN:
						steps = append(steps, "mul")
						if v, ok := p.ConstOf(x.Rhs[0]); ok {
							prime, _ = constant.Uint64Val(constant.ToInt(v))
						} else {
							o.problem("hashKey: multiplier is not a constant")
						}
					default:
						steps = append(steps, x.Tok.String())
					}
				}
			}
			return true
		})
		order = strings.Join(steps, "-")
		restore()
	}
	o.nat("fnvOffset", offset, "initial value of `hash` in Consistent.hashKey")
	o.nat("fnvPrime", prime, "multiplier of `hash *=` in Consistent.hashKey")
	o.nat("hashBits", uint64(bits), "width of the static type of `hash` in Consistent.hashKey")
	o.str("fnvOrder", order, "order of the update steps in the loop of Consistent.hashKey (FNV-1a = xor-mul)")

	// replica key formats + loop shape of AddNode / RemoveNode. AddNode: one fmt.Sprintf(format, node, i); RemoveNode:
	// one with `node` (the points it deletes) and at most one with `name` (the points it gives back to the
	// remaining members); every index loop is `for i := 0; i < ReplicaCount; i++`, and the `i` of each Sprintf is the
	// index of the loop around it. `node` is the method's parameter (_p0), `name` the variable of the give-back loop.
	formats := func(recv, name string) (byArg map[string]string, fd *ast.FuncDecl) {
		byArg = map[string]string{}
		fd = p.Func(recv, name)
		if fd == nil || fd.Body == nil {
			o.problem("method %s.%s not found", recv, name)
			fd = nil
			return
		}
		defer p.normalise(fd)()
		var loops []*ast.ForStmt
		index := map[*ast.ForStmt]string{}
		ast.Inspect(fd.Body, func(n ast.Node) bool {
			if fs, ok := n.(*ast.ForStmt); ok {
				b := map[string]string{}
				if fs.Init == nil || fs.Cond == nil || fs.Post == nil || !c17match(p.Src(fs.Init), "$i := 0", true, b) ||
					!c17match(p.Src(fs.Cond), "$i < ReplicaCount", true, b) || !c17match(p.Src(fs.Post), "$i++", true, b) {
					o.problem("%s: replica loop is not `for i := 0; i < ReplicaCount; i++`", name)
				}
				loops = append(loops, fs)
				index[fs] = b["i"]
			}
			return true
		})
		for _, c := range p.Calls(fd, "fmt.Sprintf") {
			inner := "" // the index of the innermost loop around the call
			for _, fs := range loops {
				if fs.Body.Pos() <= c.Pos() && c.End() <= fs.Body.End() {
					inner = index[fs]
				}
			}
			if len(c.Args) != 3 || inner == "" || p.Src(c.Args[2]) != inner {
				o.problem("%s: fmt.Sprintf call is not (format, <member>, i): %s", name, renumberDecl(p.rawLine(c)))
				continue
			}
			arg := p.Src(c.Args[1])
			if _, dup := byArg[arg]; dup {
				o.problem("%s: more than one fmt.Sprintf(format, %s, i)", name, arg)
			}
			f := "?"
			if v, ok := p.ConstOf(c.Args[0]); ok && v.Kind() == constant.String {
				f = constant.StringVal(v)
			} else if lit, ok := c.Args[0].(*ast.BasicLit); ok {
				f, _ = strconv.Unquote(lit.Value)
			} else {
				o.problem("%s: replica format is not a constant string", name)
			}
			byArg[arg] = f
		}
		return
	}
	get := func(m map[string]string, arg, show, where string, required bool) string {
		if f, ok := m[arg]; ok {
			return f
		}
		if required {
			o.problem("%s: no fmt.Sprintf(format, %s, i)", where, show)
		}
		return "?"
	}
	fa, _ := formats("Consistent", "AddNode")
	if len(fa) != 1 {
		o.problem("AddNode: expected exactly one fmt.Sprintf(format, node, i)")
	}
	fr, rm := formats("Consistent", "RemoveNode")
	o.str("replicaFormatAdd", get(fa, "_p0", "node", "AddNode", true), "format literal of fmt.Sprintf in Consistent.AddNode")
	o.str("replicaFormatRemove", get(fr, "_p0", "node", "RemoveNode", true), "format literal of fmt.Sprintf(…, node, i) in Consistent.RemoveNode")
	if rm != nil {
		defer p.normalise(rm)()
	}

	// RemoveNode gives points back: after `delete(c.nodes, node)`, the names of c.nodes are collected, sorted with
	// sort.Strings, and for every name and replica `if _, found := c.circle[key]; !found { c.circle[key] = name }`.
	restores := false
	giveBack := map[string]string{} // $names: the collected list, $name: the variable of the give-back loop
	if rm != nil {
		collect, sorted, put := 0, len(p.Calls(rm, "sort.Strings")), 0
		ast.Inspect(rm.Body, func(n ast.Node) bool {
			switch x := n.(type) {
			case *ast.RangeStmt:
				b := map[string]string{}
				if p.Src(x.X) == "_r.nodes" && x.Key != nil && c17match(p.Src(x.Key), "$k", true, b) && x.Value == nil {
					if c17match(p.Src(x.Body), "$names=append($names,$k)", false, b) {
						collect++
						giveBack["names"] = b["names"]
					}
				}
				if _, is := giveBack["names"]; is && x.Value != nil && c17match(p.Src(x.X), "$names", true, giveBack) && c17match(p.Src(x.Value), "$name", true, giveBack) {
					ast.Inspect(x.Body, func(m ast.Node) bool {
						b := map[string]string{"name": giveBack["name"]}
						if is, ok := m.(*ast.IfStmt); ok && is.Init != nil && is.Else == nil &&
							c17match(p.Src(is.Init), "_,$found:=_r.circle[$key]", true, b) && c17match(p.Src(is.Cond), "!$found", true, b) &&
							len(is.Body.List) == 1 && c17match(p.Src(is.Body.List[0]), "_r.circle[$key]=$name", true, b) {
							put++
						}
						return true
					})
				}
			}
			return true
		})
		for arg := range fr {
			if arg != "_p0" && arg != giveBack["name"] {
				o.problem("RemoveNode: unexpected fmt.Sprintf(format, %s, i)", renumberDecl(arg))
			}
		}
		_, hasFmt := fr[giveBack["name"]]
		switch {
		case collect == 0 && sorted == 0 && put == 0 && !hasFmt:
			restores = false
		case collect == 1 && sorted == 1 && put == 1 && hasFmt:
			restores = true
			// the order of the statements: delete(c.nodes, node) < collect < sort < restore loop < updateSortedHash
			var pos []string
			for _, st := range rm.Body.List {
				src := strings.ReplaceAll(p.Src(st), " ", "")
				b := map[string]string{"names": giveBack["names"], "name": giveBack["name"]}
				switch {
				case src == "delete(_r.nodes,_p0)":
					pos = append(pos, "delnode")
				case c17match(src, "for$k:=range_r.nodes", false, b) && strings.HasPrefix(src, "for"+b["k"]+":=range_r.nodes"):
					pos = append(pos, "collect")
				case c17match(src, "sort.Strings($names)", true, b):
					pos = append(pos, "sort")
				case strings.HasPrefix(src, "for_,"+b["name"]+":=range"+b["names"]):
					pos = append(pos, "restore")
				case src == "_r.updateSortedHash()":
					pos = append(pos, "update")
				}
			}
			if strings.Join(pos, ",") != "delnode,collect,sort,restore,update" {
				o.problem("RemoveNode: statement order is %s, expected delnode,collect,sort,restore,update", strings.Join(pos, ","))
			}
		default:
			o.problem("RemoveNode: the give-back loop is not of the expected shape (collect %d, sort.Strings %d, guarded put %d, Sprintf with name %v)", collect, sorted, put, hasFmt)
		}
	}
	o.bool("removeRestores", restores, "RemoveNode puts the replica points that the remaining members (sorted by name) lack back on the ring")
	nameArg := giveBack["name"]
	if nameArg == "" {
		nameArg = "?"
	}
	o.str("replicaFormatRestore", get(fr, nameArg, "name", "RemoveNode", restores), "format literal of fmt.Sprintf(…, name, i) in Consistent.RemoveNode (the give-back loop)")

	// RemoveNode: is `delete(c.circle, key)` inside `if c.circle[key] == node { ... }` ?
	guarded := false
	if rm != nil {
		dels, inIf := 0, 0
		ast.Inspect(rm.Body, func(n ast.Node) bool {
			if c, ok := n.(*ast.CallExpr); ok && p.Src(c.Fun) == "delete" && len(c.Args) == 2 && p.Src(c.Args[0]) == "_r.circle" {
				dels++
			}
			if is, ok := n.(*ast.IfStmt); ok {
				b := map[string]string{}
				if c17match(p.Src(is.Cond), "_r.circle[$key]==_p0", true, b) || c17match(p.Src(is.Cond), "_p0==_r.circle[$key]", true, b) {
					for _, c := range p.Calls(is.Body, "delete") {
						if len(c.Args) == 2 && p.Src(c.Args[0]) == "_r.circle" && p.Src(c.Args[1]) == b["key"] {
							inIf++
						}
					}
				}
			}
			return true
		})
		if dels != 1 {
			o.problem("RemoveNode: expected exactly one delete(c.circle, …), found %d", dels)
		}
		guarded = dels == 1 && inIf == 1
	}
	o.bool("removeGuarded", guarded, "RemoveNode deletes a ring point only under `if c.circle[key] == node`")

	// search: the comparison that moves `lo`
	cmp := "?"
	if fd := p.Func("Consistent", "search"); fd == nil {
		o.problem("method Consistent.search not found")
	} else {
		restore := p.normalise(fd)
		n := 0
		ast.Inspect(fd.Body, func(x ast.Node) bool {
			if is, ok := x.(*ast.IfStmt); ok {
				if be, ok := is.Cond.(*ast.BinaryExpr); ok && c17match(p.Src(be.X), "_r.sortedHash[$mid]", true, map[string]string{}) && p.Src(be.Y) == "_p0" {
					cmp = be.Op.String()
					n++
				}
			}
			return true
		})
		if n != 1 {
			o.problem("search: expected exactly one `c.sortedHash[mid] <op> hash` test, found %d", n)
		}
		restore()
	}
	o.str("searchCmp", cmp, "comparison `c.sortedHash[mid] <op> hash` that advances lo in Consistent.search")
}
