package main

import (
	"go/ast"
	"go/constant"
	"go/types"
	"strings"
)

func init() { extractors["C15"] = extractC15 }

// qnet/rpc.go, packet/packet.go, codes/code.go: time-to-live, the two codes the completion path uses,
// how Errno reads the code, whether makeCall skips outstanding sequence numbers, the counter width, the skeleton.
func extractC15(repo string, o *Out) {
	qp, err := load(repo, "qnet")
	if err != nil {
		o.problem("load qnet: %v", err)
		return
	}
	pp, err := load(repo, "packet")
	if err != nil {
		o.problem("load packet: %v", err)
		return
	}
	cp, err := load(repo, "codes")
	if err != nil {
		o.problem("load codes: %v", err)
		return
	}
	// makeCall: ctx.deadline = time.Now().Add(<ttl>)
	ttl := uint64(0)
	skips := false
	if fd := qp.Func("RpcClient", "makeCall"); fd == nil {
		o.problem("method RpcClient.makeCall not found")
	} else {
		found := false
		ast.Inspect(fd, func(n ast.Node) bool {
			c, ok := n.(*ast.CallExpr)
			if !ok || len(c.Args) != 1 {
				return true
			}
			if sel, ok := c.Fun.(*ast.SelectorExpr); ok && sel.Sel.Name == "Add" && qp.Src(sel.X) == "time.Now()" {
				if v, ok := qp.ConstOf(c.Args[0]); ok {
					ttl, _ = constant.Uint64Val(constant.ToInt(v))
					found = true
				}
			}
			return true
		})
		if !found {
			o.problem("makeCall: pattern `time.Now().Add(<constant>)` not found")
		}
		// a loop that tests both `!= 0` and absence from the pending table before it takes a number
		ast.Inspect(fd, func(n ast.Node) bool {
			f, ok := n.(*ast.ForStmt)
			if !ok {
				return true
			}
			ast.Inspect(f, func(m ast.Node) bool {
				if is, ok := m.(*ast.IfStmt); ok {
					src := qp.Src(is.Cond)
					if strings.Contains(src, "!= 0") && strings.Contains(src, "c.pendingCtx[") && strings.Contains(src, "== nil") {
						skips = true
					}
				}
				return true
			})
			return true
		})
	}
	o.nat("ttlNs", ttl, "qnet/rpc.go makeCall: time.Now().Add(...) in nanoseconds")
	o.nat("timeoutCode", cp.ConstU(o, "RequestTimeout"), "codes/code.go const RequestTimeout")
	o.nat("internalError", cp.ConstU(o, "InternalError"), "codes/code.go const InternalError")
	// Packet.Errno: returns the int64 body (type assertion on m.Body_), never the command
	reads := false
	if fd := pp.Func("Packet", "Errno"); fd == nil {
		o.problem("method Packet.Errno not found")
	} else {
		assertsBody, returnsCmd := false, false
		ast.Inspect(fd, func(n ast.Node) bool {
			switch x := n.(type) {
			case *ast.TypeAssertExpr:
				if pp.Src(x.X) == "m.Body_" && x.Type != nil && pp.Src(x.Type) == "int64" {
					assertsBody = true
				}
			case *ast.ReturnStmt:
				for _, r := range x.Results {
					if strings.Contains(pp.Src(r), "m.Cmd") {
						returnsCmd = true
					}
				}
			}
			return true
		})
		reads = assertsBody && !returnsCmd
	}
	o.bool("errnoReadsBody", reads, "packet/packet.go Errno(): reads m.Body_.(int64) and never returns m.Cmd")
	o.bool("seqSkipsPending", skips, "qnet/rpc.go makeCall: the sequence search tests `!= 0` and `c.pendingCtx[seq] == nil`")
	// width of the counter
	bits := uint64(0)
	if qp.Types != nil {
		if obj := qp.Types.Scope().Lookup("RpcClient"); obj != nil {
			if st, ok := obj.Type().Underlying().(*types.Struct); ok {
				for i := 0; i < st.NumFields(); i++ {
					if f := st.Field(i); f.Name() == "counter" {
						if b, ok := f.Type().Underlying().(*types.Basic); ok && b.Kind() == types.Uint16 {
							bits = 16
						}
					}
				}
			}
		}
	}
	if bits == 0 {
		o.problem("RpcClient.counter is not a uint16 field")
	}
	o.nat("seqBits", bits, "qnet/rpc.go RpcClient.counter: width of the sequence counter")
	// stripExpired: the live list is replaced by something fresh (make / nil / a literal), never by a slice of
	// the list it hands out — else a sweep during ReapTimeout's loop writes into the batch being completed
	fresh := false
	if fd := qp.Func("RpcClient", "stripExpired"); fd == nil {
		o.problem("method RpcClient.stripExpired not found")
	} else {
		good, bad := 0, 0
		ast.Inspect(fd, func(n ast.Node) bool {
			as, ok := n.(*ast.AssignStmt)
			if !ok {
				return true
			}
			for i, l := range as.Lhs {
				if qp.Src(l) != "c.expired" || i >= len(as.Rhs) {
					continue
				}
				switch r := as.Rhs[i].(type) {
				case *ast.CallExpr:
					if id, ok := r.Fun.(*ast.Ident); ok && id.Name == "make" {
						good++
					} else {
						bad++
					}
				case *ast.Ident:
					if r.Name == "nil" {
						good++
					} else {
						bad++
					}
				case *ast.CompositeLit:
					good++
				default:
					bad++
				}
			}
			return true
		})
		fresh = good == 1 && bad == 0
		if rp := qp.Func("RpcClient", "ReapTimeout"); rp == nil || len(qp.Calls(rp, "c.stripExpired")) != 1 {
			o.problem("ReapTimeout does not take its batch through exactly one call of c.stripExpired()")
			fresh = false
		}
	}
	o.bool("stripFresh", fresh, "qnet/rpc.go stripExpired: c.expired is replaced by a fresh slice (make/nil/literal), the batch handed to ReapTimeout shares no storage with it")
	c18writeSkeleton(qp, o, "rpc.go", "rpc.txt")
}
