package main

import (
	"flag"
	"go/ast"
	"go/constant"
	"go/types"
	"os"
	"path/filepath"
	"strings"
)

func init() { extractors["C15"] = extractC15 }

// qnet/rpc.go, packet/packet.go, codes/code.go: time-to-live, the two codes the completion path uses,
// how Errno reads the code, whether makeCall skips outstanding sequence numbers, the counter width, the skeleton.
// Every function is matched, and its skeleton printed, in its alpha-normalised form (`normalise`, c07.go: receiver _r,
// parameters _p0, _p1, … by position, locals _v0, _v1, … by order of declaration), so the names chosen for a receiver,
// a parameter or a local do not matter; fields, methods, constants and packages are matched by their own names.
func extractC15(repo string, o *Out) {
	qp, err := load(repo, "qnet")
	if err != nil {
		o.problem("load qnet: %v", err)
		return
	}
	pp, err := load(repo, "packet")
	if err != nil {
		o.problem("load packet: %v", err)
		return
	}
	cp, err := load(repo, "codes")
	if err != nil {
		o.problem("load codes: %v", err)
		return
	}
	// makeCall: ctx.deadline = time.Now().Add(<ttl>)
	ttl := uint64(0)
	skips := false
	if fd := qp.Func("RpcClient", "makeCall"); fd == nil {
		o.problem("method RpcClient.makeCall not found")
	} else {
		restore := qp.normalise(fd)
		found := false
		ast.Inspect(fd, func(n ast.Node) bool {
			c, ok := n.(*ast.CallExpr)
			if !ok || len(c.Args) != 1 {
				return true
			}
			if sel, ok := c.Fun.(*ast.SelectorExpr); ok && sel.Sel.Name == "Add" && qp.Src(sel.X) == "time.Now()" {
				if v, ok := qp.ConstOf(c.Args[0]); ok {
					ttl, _ = constant.Uint64Val(constant.ToInt(v))
					found = true
				}
			}
			return true
		})
		if !found {
			o.problem("makeCall: pattern `time.Now().Add(<constant>)` not found")
		}
		// a loop that tests both `!= 0` and absence from the pending table before it takes a number
		ast.Inspect(fd, func(n ast.Node) bool {
			f, ok := n.(*ast.ForStmt)
			if !ok {
				return true
			}
			ast.Inspect(f, func(m ast.Node) bool {
				if is, ok := m.(*ast.IfStmt); ok {
					src := qp.Src(is.Cond)
					if strings.Contains(src, "!= 0") && strings.Contains(src, "_r.pendingCtx[") && strings.Contains(src, "== nil") {
						skips = true
					}
				}
				return true
			})
			return true
		})
		restore()
	}
	o.nat("ttlNs", ttl, "qnet/rpc.go makeCall: time.Now().Add(...) in nanoseconds")
	o.nat("timeoutCode", cp.ConstU(o, "RequestTimeout"), "codes/code.go const RequestTimeout")
	o.nat("internalError", cp.ConstU(o, "InternalError"), "codes/code.go const InternalError")
	// Packet.Errno: returns the int64 body (type assertion on m.Body_), never the command
	reads := false
	if fd := pp.Func("Packet", "Errno"); fd == nil {
		o.problem("method Packet.Errno not found")
	} else {
		restore := pp.normalise(fd)
		assertsBody, returnsCmd := false, false
		ast.Inspect(fd, func(n ast.Node) bool {
			switch x := n.(type) {
			case *ast.TypeAssertExpr:
				if pp.Src(x.X) == "_r.Body_" && x.Type != nil && pp.Src(x.Type) == "int64" {
					assertsBody = true
				}
			case *ast.ReturnStmt:
				for _, r := range x.Results {
					if strings.Contains(pp.Src(r), "_r.Cmd") {
						returnsCmd = true
					}
				}
			}
			return true
		})
		reads = assertsBody && !returnsCmd
		restore()
	}
	o.bool("errnoReadsBody", reads, "packet/packet.go Errno(): reads m.Body_.(int64) and never returns m.Cmd")
	o.bool("seqSkipsPending", skips, "qnet/rpc.go makeCall: the sequence search tests `!= 0` and `c.pendingCtx[seq] == nil`")
	// width of the counter
	bits := uint64(0)
	if qp.Types != nil {
		if obj := qp.Types.Scope().Lookup("RpcClient"); obj != nil {
			if st, ok := obj.Type().Underlying().(*types.Struct); ok {
				for i := 0; i < st.NumFields(); i++ {
					if f := st.Field(i); f.Name() == "counter" {
						if b, ok := f.Type().Underlying().(*types.Basic); ok && b.Kind() == types.Uint16 {
							bits = 16
						}
					}
				}
			}
		}
	}
	if bits == 0 {
		o.problem("RpcClient.counter is not a uint16 field")
	}
	o.nat("seqBits", bits, "qnet/rpc.go RpcClient.counter: width of the sequence counter")
	// stripExpired: the live list is replaced by something fresh (make / nil / a literal), never by a slice of
	// the list it hands out — else a sweep during ReapTimeout's loop writes into the batch being completed
	fresh := false
	if fd := qp.Func("RpcClient", "stripExpired"); fd == nil {
		o.problem("method RpcClient.stripExpired not found")
	} else {
		restore := qp.normalise(fd)
		good, bad := 0, 0
		ast.Inspect(fd, func(n ast.Node) bool {
			as, ok := n.(*ast.AssignStmt)
			if !ok {
				return true
			}
			for i, l := range as.Lhs {
				if qp.Src(l) != "_r.expired" || i >= len(as.Rhs) {
					continue
				}
				switch r := as.Rhs[i].(type) {
				case *ast.CallExpr:
					if id, ok := r.Fun.(*ast.Ident); ok && id.Name == "make" {
						good++
					} else {
						bad++
					}
				case *ast.Ident:
					if r.Name == "nil" {
						good++
					} else {
						bad++
					}
				case *ast.CompositeLit:
					good++
				default:
					bad++
				}
			}
			return true
		})
		restore()
		fresh = good == 1 && bad == 0
		if rp := qp.Func("RpcClient", "ReapTimeout"); rp == nil {
			o.problem("method RpcClient.ReapTimeout not found")
			fresh = false
		} else {
			restore := qp.normalise(rp)
			if len(qp.Calls(rp, "_r.stripExpired")) != 1 {
				o.problem("ReapTimeout does not take its batch through exactly one call of c.stripExpired()")
				fresh = false
			}
			restore()
		}
	}
	o.bool("stripFresh", fresh, "qnet/rpc.go stripExpired: c.expired is replaced by a fresh slice (make/nil/literal), the batch handed to ReapTimeout shares no storage with it")
	c15writeSkeleton(qp, o, "rpc.go", "rpc.txt")
}

// c15writeSkeleton writes the synchronisation skeleton (syncSkel, c18.go) of every function of one source file to
// <facts dir>/skeletons/<name>.txt like c18writeSkeleton does, but prints each function from its alpha-normalised
// declaration: the receiver is _r, the parameters _p0, _p1, … by position, the locals _v0, _v1, … by order of
// declaration among the locals the function's skeleton mentions. Renaming any of them leaves the skeleton as it is;
// a lock, channel operation, call or condition that changes does not.
func c15writeSkeleton(p *Pkg, o *Out, file, name string) {
	var lines []string
	found := false
	for _, f := range p.Files {
		if filepath.Base(p.Fset.Position(f.Pos()).Filename) != file {
			continue
		}
		found = true
		for _, d := range f.Decls {
			if fd, ok := d.(*ast.FuncDecl); ok {
				restore := p.normalise(fd)
				sk := syncSkel(p, fd)
				restore()
				lines = append(lines, strings.Split(renumberDecl(strings.Join(sk, "\n")), "\n")...)
			}
		}
	}
	if !found {
		o.problem("skeleton: file %s not found", file)
		return
	}
	fl := flag.Lookup("facts")
	if fl == nil || fl.Value.String() == "" {
		return
	}
	dir := filepath.Join(fl.Value.String(), "skeletons")
	if err := os.MkdirAll(dir, 0o755); err != nil {
		o.problem("skeleton: %v", err)
		return
	}
	if err := os.WriteFile(filepath.Join(dir, name), []byte(strings.Join(lines, "\n")+"\n"), 0o644); err != nil {
		o.problem("skeleton: %v", err)
	}
}
