package main

import (
	"go/ast"
	"go/token"
	"sort"
	"strings"
)

func init() { extractors["C11"] = extractC11 }

func (o *Out) zlStrList(name string, v []string, from string) {
	parts := make([]string, len(v))
	for i, x := range v {
		parts[i] = leanString(x)
	}
	o.Facts = append(o.Facts, Fact{name, "List String", "[" + strings.Join(parts, ", ") + "]", from})
}

// zlComparisons lists, in source order, every comparison expression (== != < <= > >=) of a function body
// as source text: the table of decisions the model of that function mirrors.
func zlComparisons(p *Pkg, fd *ast.FuncDecl) []string {
	var out []string
	if fd == nil || fd.Body == nil {
		return out
	}
	ast.Inspect(fd.Body, func(n ast.Node) bool {
		if b, ok := n.(*ast.BinaryExpr); ok {
			switch b.Op {
			case token.EQL, token.NEQ, token.LSS, token.LEQ, token.GTR, token.GEQ:
				out = append(out, strings.Join(strings.Fields(p.Src(b)), " "))
			}
		}
		return true
	})
	return out
}

// zlExportedMethods lists the exported methods of a named type (without the Verif* probes), sorted.
func zlExportedMethods(p *Pkg, recv string) []string {
	var out []string
	for _, f := range p.Files {
		for _, d := range f.Decls {
			fd, ok := d.(*ast.FuncDecl)
			if !ok || fd.Recv == nil || len(fd.Recv.List) != 1 || !fd.Name.IsExported() {
				continue
			}
			t := fd.Recv.List[0].Type
			if s, ok := t.(*ast.StarExpr); ok {
				t = s.X
			}
			if id, ok := t.(*ast.Ident); ok && id.Name == recv && !strings.HasPrefix(fd.Name.Name, "Verif") {
				out = append(out, fd.Name.Name) // the Verif* probes of the hook commits are not part of the library
			}
		}
	}
	sort.Strings(out)
	return out
}

// collections/zset: the level bound, the exported method sets the model has to cover, and the
// comparison table of every function the model mirrors.
func extractC11(repo string, o *Out) {
	p, err := load(repo, "collections/zset")
	if err != nil {
		o.problem("load: %v", err)
		return
	}
	o.nat("maxLevel", p.ConstU(o, "ZSKIPLIST_MAXLEVEL"), "zskiplist.go const ZSKIPLIST_MAXLEVEL")
	o.zlStrList("skipListMethods", zlExportedMethods(p, "ZSkipList"), "exported methods of ZSkipList (zskiplist.go)")
	o.zlStrList("sortedSetMethods", zlExportedMethods(p, "SortedSet"), "exported methods of SortedSet (zset.go), without the verif probes")
	for _, m := range []string{"deleteNode", "randLevel"} {
		fd := p.Func("ZSkipList", m)
		if fd == nil {
			o.problem("method ZSkipList.%s not found", m)
		}
		o.zlStrList("cmpL"+strings.Title(m), zlComparisons(p, fd), "comparisons of ZSkipList."+m+" in source order")
	}
	for _, m := range []string{"Insert", "Delete", "DeleteRangeByRank", "DeleteRangeByScore", "GetRank", "GetElementByRank", "IsInRange", "FirstInRange", "LastInRange"} {
		fd := p.Func("ZSkipList", m)
		if fd == nil {
			o.problem("method ZSkipList.%s not found", m)
		}
		o.zlStrList("cmpL"+m, zlComparisons(p, fd), "comparisons of ZSkipList."+m+" in source order")
	}
	for _, m := range []string{"Add", "Remove", "RemoveRangeByScore", "RemoveRangeByRank", "Count", "GetRank", "GetScore", "GetRange", "GetRangeByScore"} {
		fd := p.Func("SortedSet", m)
		if fd == nil {
			o.problem("method SortedSet.%s not found", m)
		}
		o.zlStrList("cmpZ"+m, zlComparisons(p, fd), "comparisons of SortedSet."+m+" in source order")
	}
}
