package main

import (
	"fmt"
	"go/ast"
	"go/token"
	"sort"
	"strconv"
	"strings"
)

func init() { extractors["C11"] = extractC11 }

func (o *Out) zlStrList(name string, v []string, from string) {
	parts := make([]string, len(v))
	for i, x := range v {
		parts[i] = leanString(x)
	}
	o.Facts = append(o.Facts, Fact{name, "List String", "[" + strings.Join(parts, ", ") + "]", from})
}

// renumberDecl names the placeholders `normalise` (c07.go) put in for locally declared names _v0, _v1, … in the
// order in which those locals are DECLARED in the source (among the locals that occur in the text; the placeholder
// carries the position of the declaration). Numbering by first occurrence (`renumber`) would print `a < b` and
// `b < a` alike when both sides are locals; by declaration order a swapped comparison or a swapped pair of
// arguments prints differently, while the names themselves, and unrelated locals declared in between, do not matter.
func renumberDecl(text string) string {
	marks := localMark.FindAllString(text, -1)
	pos := func(m string) int { n, _ := strconv.Atoi(m[2 : len(m)-1]); return n }
	sort.Slice(marks, func(i, j int) bool { return pos(marks[i]) < pos(marks[j]) })
	num := map[string]string{}
	for _, m := range marks {
		if _, ok := num[m]; !ok {
			num[m] = fmt.Sprintf("_v%d", len(num))
		}
	}
	return localMark.ReplaceAllStringFunc(text, func(m string) string { return num[m] })
}

// fragments prints several nodes of ONE declaration that is currently normalised (`normalise`, c07.go), each with
// its white space collapsed, and numbers the locals consistently across all of them (so that two fragments that
// mention the same local say so).
func (p *Pkg) fragments(nodes []ast.Node) []string {
	if len(nodes) == 0 {
		return nil
	}
	raw := make([]string, len(nodes))
	for i, n := range nodes {
		raw[i] = p.rawLine(n)
	}
	return strings.Split(renumberDecl(strings.Join(raw, "\x00")), "\x00")
}

// zlComparisons lists, in source order, every comparison expression (== != < <= > >=) of a function body
// as source text: the table of decisions the model of that function mirrors. The text is printed from the
// alpha-normalised declaration (receiver _r, parameters _p0, _p1, … by position, locals _v0, _v1, … by order of
// declaration among the locals the table mentions; fields, methods, constants and package names keep theirs), so
// that renaming a receiver, parameter or local changes nothing and a changed operator, operand or field does.
func zlComparisons(p *Pkg, fd *ast.FuncDecl) []string {
	var out []string
	if fd == nil || fd.Body == nil {
		return out
	}
	defer p.normalise(fd)()
	var cmps []ast.Node
	ast.Inspect(fd.Body, func(n ast.Node) bool {
		if b, ok := n.(*ast.BinaryExpr); ok {
			switch b.Op {
			case token.EQL, token.NEQ, token.LSS, token.LEQ, token.GTR, token.GEQ:
				cmps = append(cmps, b)
			}
		}
		return true
	})
	return append(out, p.fragments(cmps)...)
}

// zlExportedMethods lists the exported methods of a named type (without the Verif* probes), sorted.
func zlExportedMethods(p *Pkg, recv string) []string {
	var out []string
	for _, f := range p.Files {
		for _, d := range f.Decls {
			fd, ok := d.(*ast.FuncDecl)
			if !ok || fd.Recv == nil || len(fd.Recv.List) != 1 || !fd.Name.IsExported() {
				continue
			}
			t := fd.Recv.List[0].Type
			if s, ok := t.(*ast.StarExpr); ok {
				t = s.X
			}
			if id, ok := t.(*ast.Ident); ok && id.Name == recv && !strings.HasPrefix(fd.Name.Name, "Verif") {
				out = append(out, fd.Name.Name) // the Verif* probes of the hook commits are not part of the library
			}
		}
	}
	sort.Strings(out)
	return out
}

// collections/zset: the level bound, the exported method sets the model has to cover, and the
// comparison table of every function the model mirrors.
func extractC11(repo string, o *Out) {
	p, err := load(repo, "collections/zset")
	if err != nil {
		o.problem("load: %v", err)
		return
	}
	o.nat("maxLevel", p.ConstU(o, "ZSKIPLIST_MAXLEVEL"), "zskiplist.go const ZSKIPLIST_MAXLEVEL")
	o.zlStrList("skipListMethods", zlExportedMethods(p, "ZSkipList"), "exported methods of ZSkipList (zskiplist.go)")
	o.zlStrList("sortedSetMethods", zlExportedMethods(p, "SortedSet"), "exported methods of SortedSet (zset.go), without the verif probes")
	for _, m := range []string{"deleteNode", "randLevel"} {
		fd := p.Func("ZSkipList", m)
		if fd == nil {
			o.problem("method ZSkipList.%s not found", m)
		}
		o.zlStrList("cmpL"+strings.Title(m), zlComparisons(p, fd), "comparisons of ZSkipList."+m+" in source order")
	}
	for _, m := range []string{"Insert", "Delete", "DeleteRangeByRank", "DeleteRangeByScore", "GetRank", "GetElementByRank", "IsInRange", "FirstInRange", "LastInRange"} {
		fd := p.Func("ZSkipList", m)
		if fd == nil {
			o.problem("method ZSkipList.%s not found", m)
		}
		o.zlStrList("cmpL"+m, zlComparisons(p, fd), "comparisons of ZSkipList."+m+" in source order")
	}
	for _, m := range []string{"Add", "Remove", "RemoveRangeByScore", "RemoveRangeByRank", "Count", "GetRank", "GetScore", "GetRange", "GetRangeByScore"} {
		fd := p.Func("SortedSet", m)
		if fd == nil {
			o.problem("method SortedSet.%s not found", m)
		}
		o.zlStrList("cmpZ"+m, zlComparisons(p, fd), "comparisons of SortedSet."+m+" in source order")
	}
}
