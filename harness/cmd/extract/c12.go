package main

import (
	"go/ast"
	"go/constant"
	"go/token"
	"sort"
	"strings"
)

func init() { extractors["C12"] = extractC12 }

// collections/queue: the deque's minimum capacity and the two shift amounts of its resize policy,
// the three slice sizes of the unbounded queue and where Push uses them, and the lock skeleton of
// the concurrent queue (every method is Lock…Unlock around exactly one call of the inner queue).
func extractC12(repo string, o *Out) {
	p, err := load(repo, "collections/queue")
	if err != nil {
		o.problem("load: %v", err)
		return
	}
	o.nat("minCapacity", p.ConstU(o, "minCapacity"), "deque.go const minCapacity")
	translateC12(p, o, 64, "Tr")   // translate.go: the deque's index arithmetic, int = 64 bits
	translateC12(p, o, 32, "Tr32") // … and int = 32 bits (the GOARCH=386 leg)

	// shift amounts: `q.count<<K` in resize (new buffer size) and in shrinkIfExcess (the quarter test)
	o.nat("growShift", c12Shift(p, o, "resize"), "deque.go resize: make([]interface{}, q.count<<K)")
	o.nat("shrinkShift", c12Shift(p, o, "shrinkIfExcess"), "deque.go shrinkIfExcess: (q.count<<K) == len(q.buf)")

	// the slice sizes are package variables ("so it is possible to run the bench tests"): read the
	// initialisers and make sure nothing outside the tests assigns them
	names := []string{"firstSliceSize", "maxFirstSliceSize", "maxInternalSliceSize"}
	vals := map[string]uint64{}
	for _, f := range p.Files {
		for _, d := range f.Decls {
			gd, ok := d.(*ast.GenDecl)
			if !ok || gd.Tok != token.VAR {
				continue
			}
			for _, s := range gd.Specs {
				vs := s.(*ast.ValueSpec)
				for i, n := range vs.Names {
					for _, want := range names {
						if n.Name != want {
							continue
						}
						if i >= len(vs.Values) {
							o.problem("var %s has no initialiser", want)
							continue
						}
						v, ok := p.ConstOf(vs.Values[i])
						if !ok {
							o.problem("initialiser of %s is not a constant expression", want)
							continue
						}
						u, exact := constant.Uint64Val(constant.ToInt(v))
						if !exact {
							o.problem("initialiser of %s is not an unsigned integer", want)
						}
						vals[want] = u
					}
				}
			}
		}
	}
	for _, n := range names {
		if _, ok := vals[n]; !ok {
			o.problem("package variable %s not found", n)
		}
	}
	o.nat("firstSliceSize", vals["firstSliceSize"], "unbounded.go var firstSliceSize")
	o.nat("maxFirstSliceSize", vals["maxFirstSliceSize"], "unbounded.go var maxFirstSliceSize")
	o.nat("maxInternalSliceSize", vals["maxInternalSliceSize"], "unbounded.go var maxInternalSliceSize")

	assigned := false
	for _, f := range p.Files {
		ast.Inspect(f, func(x ast.Node) bool {
			switch s := x.(type) {
			case *ast.AssignStmt:
				for _, l := range s.Lhs {
					if id, ok := l.(*ast.Ident); ok && vals != nil {
						if _, isOurs := vals[id.Name]; isOurs && s.Tok != token.DEFINE {
							assigned = true
						}
					}
				}
			case *ast.IncDecStmt:
				if id, ok := s.X.(*ast.Ident); ok {
					if _, isOurs := vals[id.Name]; isOurs {
						assigned = true
					}
				}
			case *ast.UnaryExpr:
				if id, ok := s.X.(*ast.Ident); ok && s.Op == token.AND {
					if _, isOurs := vals[id.Name]; isOurs {
						assigned = true
					}
				}
			}
			return true
		})
	}
	o.bool("sliceVarsConst", !assigned, "no statement outside the tests assigns or takes the address of the three slice-size variables")

	// where Push uses them: node capacities in order, lastSliceSize assignments in order
	pushShape := "?"
	if fd := p.Func("UnboundedQueue", "Push"); fd == nil {
		o.problem("method UnboundedQueue.Push not found")
	} else {
		var caps, lasts []string
		ast.Inspect(fd, func(x ast.Node) bool {
			switch s := x.(type) {
			case *ast.CallExpr:
				if p.Src(s.Fun) == "newQueueArrayNode" && len(s.Args) == 1 {
					caps = append(caps, p.Src(s.Args[0]))
				}
			case *ast.AssignStmt:
				if len(s.Lhs) == 1 && len(s.Rhs) == 1 && strings.HasSuffix(p.Src(s.Lhs[0]), ".lastSliceSize") {
					lasts = append(lasts, p.Src(s.Rhs[0]))
				}
			}
			return true
		})
		pushShape = "node:" + strings.Join(caps, ",") + " last:" + strings.Join(lasts, ",")
	}
	o.str("pushShape", pushShape, "unbounded.go Push: arguments of newQueueArrayNode and right-hand sides of q.lastSliceSize =, in source order")

	// lock skeleton of the concurrent queue
	o.str("cqMethods", c12Skeleton(p, o), "unbounded_concurrent.go: every method as name:lock-kind:inner-call (W = Lock..Unlock around a writing method, r = Lock..Unlock or RLock..RUnlock around a method that writes nothing), sorted")
}

// c12Shift finds the single `q.count << K` in a Deque method.
func c12Shift(p *Pkg, o *Out, method string) uint64 {
	fd := p.Func("Deque", method)
	if fd == nil {
		o.problem("method Deque.%s not found", method)
		return 0
	}
	var ks []uint64
	ast.Inspect(fd, func(x ast.Node) bool {
		if b, ok := x.(*ast.BinaryExpr); ok && b.Op == token.SHL && strings.HasSuffix(p.Src(b.X), ".count") {
			if v, ok := p.ConstOf(b.Y); ok {
				u, _ := constant.Uint64Val(constant.ToInt(v))
				ks = append(ks, u)
			} else {
				o.problem("Deque.%s: shift amount %s is not a constant", method, p.Src(b.Y))
			}
		}
		return true
	})
	if len(ks) != 1 {
		o.problem("Deque.%s: expected exactly one `q.count << K`, found %d", method, len(ks))
		return 0
	}
	return ks[0]
}

// writesReceiver reports whether a method of UnboundedQueue assigns through its receiver or calls
// anything on it (then it is not safe under a read lock).
func c12WritesReceiver(p *Pkg, fd *ast.FuncDecl) bool {
	if fd.Recv == nil || len(fd.Recv.List) != 1 || len(fd.Recv.List[0].Names) != 1 {
		return true
	}
	recv := fd.Recv.List[0].Names[0].Name
	rooted := func(e ast.Expr) bool {
		for {
			switch x := e.(type) {
			case *ast.SelectorExpr:
				e = x.X
			case *ast.IndexExpr:
				e = x.X
			case *ast.StarExpr:
				e = x.X
			case *ast.ParenExpr:
				e = x.X
			case *ast.Ident:
				return x.Name == recv
			default:
				return false
			}
		}
	}
	w := false
	ast.Inspect(fd.Body, func(x ast.Node) bool {
		switch s := x.(type) {
		case *ast.AssignStmt:
			for _, l := range s.Lhs {
				if rooted(l) {
					w = true
				}
			}
		case *ast.IncDecStmt:
			if rooted(s.X) {
				w = true
			}
		case *ast.CallExpr:
			if sel, ok := s.Fun.(*ast.SelectorExpr); ok && rooted(sel.X) {
				w = true
			}
		}
		return true
	})
	return w
}

// c12Skeleton checks every method of UnboundedConcurrentQueue:
//
//	q.guard.Lock() ; <one statement with exactly one call q.queue.M(...)> ; q.guard.Unlock() ; [return ...]
//
// (or `defer q.guard.Unlock()` as the second statement; RLock/RUnlock only around a method of the
// inner queue that writes nothing). Anything else is reported as a problem and spoils the fact.
func c12Skeleton(p *Pkg, o *Out) string {
	var rows []string
	ok := true
	bad := func(format string, a ...interface{}) {
		o.problem(format, a...)
		ok = false
	}
	for _, f := range p.Files {
		for _, d := range f.Decls {
			fd, isF := d.(*ast.FuncDecl)
			if !isF || fd.Recv == nil || len(fd.Recv.List) != 1 {
				continue
			}
			t := fd.Recv.List[0].Type
			if s, isS := t.(*ast.StarExpr); isS {
				t = s.X
			}
			if id, isI := t.(*ast.Ident); !isI || id.Name != "UnboundedConcurrentQueue" {
				continue
			}
			name := fd.Name.Name
			if len(fd.Recv.List[0].Names) != 1 || fd.Body == nil {
				bad("concurrent queue method %s: no receiver name / body", name)
				continue
			}
			r := fd.Recv.List[0].Names[0].Name
			stmts := fd.Body.List
			callOf := func(s ast.Stmt) string {
				es, isE := s.(*ast.ExprStmt)
				if !isE {
					return ""
				}
				c, isC := es.X.(*ast.CallExpr)
				if !isC || len(c.Args) != 0 {
					return ""
				}
				return p.Src(c.Fun)
			}
			if len(stmts) < 3 {
				bad("concurrent queue method %s: fewer than three statements", name)
				continue
			}
			kind := ""
			switch callOf(stmts[0]) {
			case r + ".guard.Lock":
				kind = "W"
			case r + ".guard.RLock":
				kind = "R"
			default:
				bad("concurrent queue method %s does not start with %s.guard.Lock()/RLock()", name, r)
				continue
			}
			unlock := r + ".guard.Unlock"
			if kind == "R" {
				unlock = r + ".guard.RUnlock"
			}
			var body []ast.Stmt
			rest := stmts[1:]
			if ds, isD := rest[0].(*ast.DeferStmt); isD {
				if p.Src(ds.Call.Fun) != unlock || len(ds.Call.Args) != 0 {
					bad("concurrent queue method %s: deferred call is not %s()", name, unlock)
					continue
				}
				body = rest[1:]
				// with a deferred unlock everything that follows is inside the lock: one statement (+ return)
				if n := len(body); n >= 1 {
					if _, isR := body[n-1].(*ast.ReturnStmt); isR && n == 2 {
						body = body[:1]
					}
				}
			} else {
				// Lock ; body ; Unlock ; [return of plain identifiers]
				k := -1
				for i, s := range rest {
					if callOf(s) == unlock {
						k = i
						break
					}
				}
				if k < 0 {
					bad("concurrent queue method %s: no %s()", name, unlock)
					continue
				}
				body = rest[:k]
				tail := rest[k+1:]
				if len(tail) > 1 {
					bad("concurrent queue method %s: statements after the unlock", name)
					continue
				}
				if len(tail) == 1 {
					rs, isR := tail[0].(*ast.ReturnStmt)
					if !isR {
						bad("concurrent queue method %s: a non-return statement after the unlock", name)
						continue
					}
					plain := true
					for _, e := range rs.Results {
						if _, isI := e.(*ast.Ident); !isI {
							plain = false
						}
					}
					if !plain {
						bad("concurrent queue method %s: the return after the unlock computes something", name)
						continue
					}
				}
			}
			if len(body) != 1 {
				bad("concurrent queue method %s: %d statements inside the lock, expected one", name, len(body))
				continue
			}
			var inner []string
			others := 0
			ast.Inspect(body[0], func(x ast.Node) bool {
				if c, isC := x.(*ast.CallExpr); isC {
					fn := p.Src(c.Fun)
					if strings.HasPrefix(fn, r+".queue.") {
						inner = append(inner, strings.TrimPrefix(fn, r+".queue."))
					} else {
						others++
					}
				}
				return true
			})
			if len(inner) != 1 || others != 0 {
				bad("concurrent queue method %s: the locked statement has %d calls of the inner queue and %d other calls", name, len(inner), others)
				continue
			}
			if _, isRet := body[0].(*ast.ReturnStmt); isRet && kind != "" {
				if _, deferred := rest[0].(*ast.DeferStmt); !deferred {
					bad("concurrent queue method %s returns inside the lock without a deferred unlock", name)
					continue
				}
			}
			in := p.Func("UnboundedQueue", inner[0])
			if in == nil {
				bad("concurrent queue method %s calls %s, which is not a method of UnboundedQueue", name, inner[0])
				continue
			}
			writes := c12WritesReceiver(p, in)
			if kind == "R" && writes {
				bad("concurrent queue method %s holds only the read lock around %s, which writes", name, inner[0])
				continue
			}
			// around a method that writes nothing either lock is enough: both are reported as "r",
			// so that switching Peek between Lock and RLock costs nothing
			if !writes {
				kind = "r"
			}
			rows = append(rows, name+":"+kind+":"+inner[0])
		}
	}
	// nothing else may touch the inner queue or the guard
	for _, f := range p.Files {
		for _, d := range f.Decls {
			fd, isF := d.(*ast.FuncDecl)
			if !isF || fd.Body == nil {
				continue
			}
			if fd.Recv != nil && len(fd.Recv.List) == 1 {
				t := fd.Recv.List[0].Type
				if s, isS := t.(*ast.StarExpr); isS {
					t = s.X
				}
				if id, isI := t.(*ast.Ident); isI && id.Name == "UnboundedConcurrentQueue" {
					continue
				}
			}
			ast.Inspect(fd.Body, func(x ast.Node) bool {
				if sel, isS := x.(*ast.SelectorExpr); isS && sel.Sel.Name == "guard" {
					bad("function %s touches a .guard field outside the concurrent queue's methods", fd.Name.Name)
				}
				return true
			})
		}
	}
	if !ok {
		return "BROKEN"
	}
	sort.Strings(rows)
	return strings.Join(rows, " ")
}

// translateC12 emits the deque's index arithmetic: `prev`, `next`, the buffer position read by At and written by Set,
// and the condition of shrinkIfExcess, as functions of the fields they read (head, count, minCap, len(buf)).
func translateC12(p *Pkg, o *Out, word int, ns string) {
	tr := newTr(p, o, word)
	defer tr.Emit(ns)
	tr.Func("Deque", "prev", "Deque_prev")
	tr.Func("Deque", "next", "Deque_next")
	index := func(fn string) (*ast.FuncDecl, ast.Expr) {
		fd := p.Func("Deque", fn)
		var e ast.Expr
		n := 0
		if fd != nil && fd.Body != nil {
			ast.Inspect(fd.Body, func(x ast.Node) bool {
				if ix, ok := x.(*ast.IndexExpr); ok {
					e = ix.Index
					n++
				}
				return true
			})
		}
		if n != 1 {
			return fd, nil
		}
		return fd, e
	}
	fd, e := index("At")
	tr.Expr("At_pos", fd, e, "Deque.At: the index of the only buffer access")
	fd, e = index("Set")
	tr.Expr("Set_pos", fd, e, "Deque.Set: the index of the only buffer access")
	fd = p.Func("Deque", "shrinkIfExcess")
	var cond ast.Expr
	if fd != nil && fd.Body != nil && len(fd.Body.List) == 1 {
		if is, ok := fd.Body.List[0].(*ast.IfStmt); ok && is.Init == nil {
			cond = is.Cond
		}
	}
	tr.Expr("shrink_cond", fd, cond, "Deque.shrinkIfExcess: the condition of its only statement")
}
