package main

import (
	"go/ast"
	"go/token"
	"strings"
)

func init() { extractors["C08"] = extractC08 }

// incrGuard: the body of the adapter's Incr contains, in this order,
//
//	if s.lastId != 0 && s.lastId >= X { return 0, <non-nil> }
//	s.lastId = X
//	return X, nil
//
// as consecutive top-level statements, for one expression X.
func incrGuard(p *Pkg, fd *ast.FuncDecl) bool {
	if fd == nil || fd.Body == nil {
		return false
	}
	l := fd.Body.List
	for i := 0; i+2 < len(l); i++ {
		ifs, ok := l[i].(*ast.IfStmt)
		if !ok || ifs.Init != nil || ifs.Else != nil {
			continue
		}
		cond := p.Src(ifs.Cond)
		const pre = "s.lastId != 0 && s.lastId >= "
		if !strings.HasPrefix(cond, pre) {
			continue
		}
		x := strings.TrimPrefix(cond, pre)
		if len(ifs.Body.List) != 1 {
			continue
		}
		ret, ok := ifs.Body.List[0].(*ast.ReturnStmt)
		if !ok || len(ret.Results) != 2 || p.Src(ret.Results[1]) == "nil" {
			continue
		}
		as, ok := l[i+1].(*ast.AssignStmt)
		if !ok || as.Tok != token.ASSIGN || len(as.Lhs) != 1 || p.Src(as.Lhs[0]) != "s.lastId" || p.Src(as.Rhs[0]) != x {
			continue
		}
		r2, ok := l[i+2].(*ast.ReturnStmt)
		if !ok || len(r2.Results) != 2 || p.Src(r2.Results[0]) != x || p.Src(r2.Results[1]) != "nil" {
			continue
		}
		// nothing else in the function may assign lastId
		n := 0
		ast.Inspect(fd.Body, func(nd ast.Node) bool {
			if a, ok := nd.(*ast.AssignStmt); ok {
				for _, lh := range a.Lhs {
					if p.Src(lh) == "s.lastId" {
						n++
					}
				}
			}
			return true
		})
		return n == 1
	}
	return false
}

// x/uuid: DefaultSeqStep, the shape of SeqIDGen.Next/reload/Init, the guard of each adapter's Incr,
// and that uuid.Init installs the generator only after a successful Init.
func extractC08(repo string, o *Out) {
	p, err := load(repo, "x/uuid")
	if err != nil {
		o.problem("load: %v", err)
		return
	}
	o.nat("defaultSeqStep", p.ConstU(o, "DefaultSeqStep"), "seq.go const DefaultSeqStep")
	for _, a := range []struct{ fact, typ, file string }{
		{"guardRedis", "RedisStore", "store_redis.go"}, {"guardEtcd", "EtcdStore", "store_etcd.go"},
		{"guardMongo", "MongoStore", "store_mongo.go"}, {"guardMysql", "MySQLStore", "store_mysql.go"}} {
		fd := p.Func(a.typ, "Incr")
		if fd == nil {
			o.problem("method %s.Incr not found", a.typ)
		}
		o.bool(a.fact, incrGuard(p, fd), a.file+" Incr: `if s.lastId != 0 && s.lastId >= c { return 0, err }; s.lastId = c; return c, nil`")
	}
	next := p.Func("SeqIDGen", "Next")
	if next == nil {
		o.problem("method SeqIDGen.Next not found")
	}
	o.bool("seqNextLocked", lockedWhole(p, next, "s.guard"), "seq.go Next: s.guard.Lock(); defer s.guard.Unlock() first")

	// reload: `counter, err := s.store.Incr()`; `if err != nil { return err }`; only then assignments to s.*
	after := false
	if rl := p.Func("SeqIDGen", "reload"); rl == nil || rl.Body == nil || len(rl.Body.List) < 3 {
		o.problem("method SeqIDGen.reload not found or too short")
	} else {
		l := rl.Body.List
		a0, ok0 := l[0].(*ast.AssignStmt)
		i1, ok1 := l[1].(*ast.IfStmt)
		if ok0 && ok1 && a0.Tok == token.DEFINE && len(a0.Rhs) == 1 && p.Src(a0.Rhs[0]) == "s.store.Incr()" &&
			len(a0.Lhs) == 2 && p.Src(a0.Lhs[1]) == "err" && p.Src(i1.Cond) == "err != nil" && len(i1.Body.List) == 1 {
			if r, ok := i1.Body.List[0].(*ast.ReturnStmt); ok && len(r.Results) == 1 && p.Src(r.Results[0]) == "err" {
				after = len(p.Calls(rl, "s.store.Incr")) == 1
			}
		}
	}
	o.bool("reloadAfterIncr", after, "seq.go reload: the store is called once, first, and an error returns before any assignment")

	// api.go Init: NewSeqIDGen(store, DefaultSeqStep); `if err := seq.Init(); err != nil { return err }` before `seqGen = seq`
	apiOK := false
	if in := p.Func("", "Init"); in == nil || in.Body == nil {
		o.problem("func Init not found")
	} else {
		stage := 0
		for _, st := range in.Body.List {
			src := p.Src(st)
			switch {
			case stage == 0 && strings.Contains(src, "NewSeqIDGen(store, DefaultSeqStep)"):
				stage = 1
			case stage == 1 && strings.HasPrefix(src, "if err := seq.Init(); err != nil {") && strings.Contains(src, "return err"):
				stage = 2
			case stage == 2 && src == "seqGen = seq":
				stage = 3
			case strings.Contains(src, "seqGen ="):
				stage = -1
			}
		}
		apiOK = stage == 3
	}
	o.bool("apiInitFirst", apiOK, "api.go Init: the generator is installed only after seq.Init() succeeded, with DefaultSeqStep")
}
