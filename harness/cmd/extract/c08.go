package main

import (
	"go/ast"
	"go/token"
	"strings"
)

func init() { extractors["C08"] = extractC08 }

// incrGuard: the body of the adapter's Incr contains, in this order,
//
//	if s.lastId != 0 && s.lastId >= X { return 0, <non-nil> }
//	s.lastId = X
//	return X, nil
//
// as consecutive top-level statements, for one expression X. The method is read in its alpha-normalised form
// (`normalise`, c07.go): its receiver prints as _r whatever it is called, every local as the placeholder of its
// declaration (so "the same X" means the same variables, not the same spelling).
func incrGuard(p *Pkg, fd *ast.FuncDecl) bool {
	if fd == nil || fd.Body == nil {
		return false
	}
	defer p.normalise(fd)()
	l := fd.Body.List
	for i := 0; i+2 < len(l); i++ {
		ifs, ok := l[i].(*ast.IfStmt)
		if !ok || ifs.Init != nil || ifs.Else != nil {
			continue
		}
		cond := p.Src(ifs.Cond)
		const pre = "_r.lastId != 0 && _r.lastId >= "
		if !strings.HasPrefix(cond, pre) {
			continue
		}
		x := strings.TrimPrefix(cond, pre)
		if len(ifs.Body.List) != 1 {
			continue
		}
		ret, ok := ifs.Body.List[0].(*ast.ReturnStmt)
		if !ok || len(ret.Results) != 2 || p.Src(ret.Results[1]) == "nil" {
			continue
		}
		as, ok := l[i+1].(*ast.AssignStmt)
		if !ok || as.Tok != token.ASSIGN || len(as.Lhs) != 1 || p.Src(as.Lhs[0]) != "_r.lastId" || p.Src(as.Rhs[0]) != x {
			continue
		}
		r2, ok := l[i+2].(*ast.ReturnStmt)
		if !ok || len(r2.Results) != 2 || p.Src(r2.Results[0]) != x || p.Src(r2.Results[1]) != "nil" {
			continue
		}
		// nothing else in the function may assign lastId
		n := 0
		ast.Inspect(fd.Body, func(nd ast.Node) bool {
			if a, ok := nd.(*ast.AssignStmt); ok {
				for _, lh := range a.Lhs {
					if p.Src(lh) == "_r.lastId" {
						n++
					}
				}
			}
			return true
		})
		return n == 1
	}
	return false
}

// x/uuid: DefaultSeqStep, the shape of SeqIDGen.Next/reload/Init, the guard of each adapter's Incr,
// and that uuid.Init installs the generator only after a successful Init.
func extractC08(repo string, o *Out) {
	p, err := load(repo, "x/uuid")
	if err != nil {
		o.problem("load: %v", err)
		return
	}
	o.nat("defaultSeqStep", p.ConstU(o, "DefaultSeqStep"), "seq.go const DefaultSeqStep")
	for _, a := range []struct{ fact, typ, file string }{
		{"guardRedis", "RedisStore", "store_redis.go"}, {"guardEtcd", "EtcdStore", "store_etcd.go"},
		{"guardMongo", "MongoStore", "store_mongo.go"}, {"guardMysql", "MySQLStore", "store_mysql.go"}} {
		fd := p.Func(a.typ, "Incr")
		if fd == nil {
			o.problem("method %s.Incr not found", a.typ)
		}
		o.bool(a.fact, incrGuard(p, fd), a.file+" Incr: `if s.lastId != 0 && s.lastId >= c { return 0, err }; s.lastId = c; return c, nil`")
	}
	// from here on every function is matched in its alpha-normalised form: receiver _r, parameters _p0, _p1, …, and a
	// local is identified by the placeholder of its declaration (what it is assigned from), not by its name
	next := p.Func("SeqIDGen", "Next")
	locked := false
	if next == nil {
		o.problem("method SeqIDGen.Next not found")
	} else {
		restore := p.normalise(next)
		locked = lockedWhole(p, next, "_r.guard")
		restore()
	}
	o.bool("seqNextLocked", locked, "seq.go Next: s.guard.Lock(); defer s.guard.Unlock() first")

	// reload: `counter, err := s.store.Incr()`; `if err != nil { return err }`; only then assignments to s.*
	after := false
	if rl := p.Func("SeqIDGen", "reload"); rl == nil || rl.Body == nil || len(rl.Body.List) < 3 {
		o.problem("method SeqIDGen.reload not found or too short")
	} else {
		restore := p.normalise(rl)
		l := rl.Body.List
		a0, ok0 := l[0].(*ast.AssignStmt)
		i1, ok1 := l[1].(*ast.IfStmt)
		if ok0 && ok1 && a0.Tok == token.DEFINE && len(a0.Rhs) == 1 && p.Src(a0.Rhs[0]) == "_r.store.Incr()" && len(a0.Lhs) == 2 {
			// `err`: the second variable the call defines
			if e, isId := a0.Lhs[1].(*ast.Ident); isId && localMark.MatchString(e.Name) && i1.Init == nil &&
				p.Src(i1.Cond) == e.Name+" != nil" && len(i1.Body.List) == 1 {
				if r, ok := i1.Body.List[0].(*ast.ReturnStmt); ok && len(r.Results) == 1 && p.Src(r.Results[0]) == e.Name {
					after = len(p.Calls(rl, "_r.store.Incr")) == 1
				}
			}
		}
		restore()
	}
	o.bool("reloadAfterIncr", after, "seq.go reload: the store is called once, first, and an error returns before any assignment")

	// api.go Init: NewSeqIDGen(store, DefaultSeqStep); `if err := seq.Init(); err != nil { return err }` before `seqGen = seq`
	apiOK := false
	if in := p.Func("", "Init"); in == nil || in.Body == nil {
		o.problem("func Init not found")
	} else {
		// Init(workerId, store): `seq` is the local initialised with NewSeqIDGen(<the store parameter>, DefaultSeqStep),
		// `err` the variable the if statement defines from seq.Init()
		restore := p.normalise(in)
		seq := localFrom(p, in, "NewSeqIDGen(_p1,DefaultSeqStep)")
		stage := 0
		for _, st := range in.Body.List {
			src := p.rawLine(st)
			initChecked := false // `if err := seq.Init(); err != nil { … return err … }`
			if is, isIf := st.(*ast.IfStmt); isIf && is.Init != nil {
				if as, ok := is.Init.(*ast.AssignStmt); ok && as.Tok == token.DEFINE && len(as.Lhs) == 1 && len(as.Rhs) == 1 && p.Src(as.Rhs[0]) == seq+".Init()" {
					e := p.Src(as.Lhs[0])
					initChecked = p.Src(is.Cond) == e+" != nil" && strings.Contains(p.rawLine(is.Body), "return "+e)
				}
			}
			switch {
			case stage == 0 && seq != "" && strings.Contains(src, seq) && strings.Contains(src, "NewSeqIDGen(_p1, DefaultSeqStep)"):
				stage = 1
			case stage == 1 && initChecked:
				stage = 2
			case stage == 2 && src == "seqGen = "+seq:
				stage = 3
			case strings.Contains(src, "seqGen ="):
				stage = -1
			}
		}
		apiOK = stage == 3
		restore()
	}
	o.bool("apiInitFirst", apiOK, "api.go Init: the generator is installed only after seq.Init() succeeded, with DefaultSeqStep")
}

func init() {
	inner := extractors["C08"]
	extractors["C08"] = func(repo string, o *Out) {
		inner(repo, o)
		if p, err := load(repo, "x/uuid"); err == nil {
			translateC08(p, o)
		} else {
			o.problem("translate: load: %v", err)
		}
	}
}

// translateC08 emits the int64 arithmetic of SeqIDGen.reload and SeqIDGen.Next (translate.go) as functions of the fields and
// locals it reads: what reload stores in lastID, its segment end and overflow test; the candidate id, segment end and
// in-segment test of Next. The expressions are found by their place, not by the names of the locals.
func translateC08(p *Pkg, o *Out) {
	tr := newTr(p, o, 64)
	defer tr.Emit("Tr")
	// initialisers of the single-name local declarations (var x = e / x := e) of a function, in source order
	inits := func(fd *ast.FuncDecl) []ast.Expr {
		var out []ast.Expr
		if fd == nil || fd.Body == nil {
			return nil
		}
		ast.Inspect(fd.Body, func(n ast.Node) bool {
			switch x := n.(type) {
			case *ast.ValueSpec:
				if len(x.Names) == 1 && len(x.Values) == 1 {
					out = append(out, x.Values[0])
				}
			case *ast.AssignStmt:
				if x.Tok == token.DEFINE && len(x.Lhs) == 1 && len(x.Rhs) == 1 {
					out = append(out, x.Rhs[0])
				}
			}
			return true
		})
		return out
	}
	// conditions of the plain `if` statements at the top level of the body, in source order
	conds := func(fd *ast.FuncDecl) []ast.Expr {
		var out []ast.Expr
		if fd == nil || fd.Body == nil {
			return nil
		}
		for _, s := range fd.Body.List {
			if is, ok := s.(*ast.IfStmt); ok && is.Init == nil {
				out = append(out, is.Cond)
			}
		}
		return out
	}
	at := func(l []ast.Expr, i int) ast.Expr {
		if i < len(l) {
			return l[i]
		}
		return nil
	}
	reload := p.Func("SeqIDGen", "reload")
	var stored ast.Expr
	n := 0
	if reload != nil && reload.Body != nil {
		ast.Inspect(reload.Body, func(x ast.Node) bool {
			if as, ok := x.(*ast.AssignStmt); ok && as.Tok == token.ASSIGN && len(as.Lhs) == len(as.Rhs) {
				for i, l := range as.Lhs {
					if sel, ok := l.(*ast.SelectorExpr); ok && sel.Sel.Name == "lastID" {
						stored = as.Rhs[i]
						n++
					}
				}
			}
			return true
		})
	}
	if n != 1 {
		stored = nil
	}
	// role-based lookup (so that an extra local or an extra early-return in front does not move the translated
	// expressions): the initialiser of the local a comparison's operand names, the top-level `if` whose condition is a
	// comparison `<local> op <other>` with that operator; the positional rule below is only the fallback.
	initOf := func(fd *ast.FuncDecl, id *ast.Ident) ast.Expr {
		if fd == nil || id == nil {
			return nil
		}
		obj := p.Info.Uses[id]
		if obj == nil {
			return nil
		}
		var out ast.Expr
		ast.Inspect(fd.Body, func(n ast.Node) bool {
			switch x := n.(type) {
			case *ast.ValueSpec:
				if len(x.Names) == 1 && len(x.Values) == 1 && p.Info.Defs[x.Names[0]] == obj {
					out = x.Values[0]
				}
			case *ast.AssignStmt:
				if x.Tok == token.DEFINE && len(x.Lhs) == 1 && len(x.Rhs) == 1 {
					if l, ok := x.Lhs[0].(*ast.Ident); ok && p.Info.Defs[l] == obj {
						out = x.Rhs[0]
					}
				}
			}
			return true
		})
		return out
	}
	// the unique top-level plain `if` whose condition is `<local ident> op <y>`; returns the condition and both sides
	cmpIf := func(fd *ast.FuncDecl, op token.Token, rhsIdent bool) (ast.Expr, *ast.Ident, ast.Expr) {
		if fd == nil || fd.Body == nil {
			return nil, nil, nil
		}
		var c ast.Expr
		var l *ast.Ident
		var r ast.Expr
		n := 0
		for _, st := range fd.Body.List {
			is, ok := st.(*ast.IfStmt)
			if !ok || is.Init != nil {
				continue
			}
			be, ok := is.Cond.(*ast.BinaryExpr)
			if !ok || be.Op != op {
				continue
			}
			li, ok := be.X.(*ast.Ident)
			if !ok {
				continue
			}
			if _, isIdent := be.Y.(*ast.Ident); isIdent != rhsIdent {
				continue
			}
			c, l, r = is.Cond, li, be.Y
			n++
		}
		if n != 1 {
			return nil, nil, nil
		}
		return c, l, r
	}
	tr.Expr("reload_lastID", reload, stored, "SeqIDGen.reload: the value assigned to s.lastID")
	// reload: the overflow test is the top-level `if <local> < s.lastID`; rangeEnd is that local's initialiser
	ovCond, ovLocal, _ := cmpIf(reload, token.LSS, false)
	rlEnd := initOf(reload, ovLocal)
	if ovCond == nil || rlEnd == nil {
		// reload's locals: [0] is the tuple `counter, err := s.store.Incr()` (not single-name), so the first single-name one is rangeEnd
		rlEnd, ovCond = at(inits(reload), 0), at(conds(reload), 1)
	}
	tr.Expr("reload_rangeEnd", reload, rlEnd, "SeqIDGen.reload: the initialiser of the local its overflow test compares with s.lastID (rangeEnd)")
	tr.Expr("reload_overflow", reload, ovCond, "SeqIDGen.reload: the condition of its top-level `if <local> < s.lastID` (the overflow test)")
	next := p.Func("SeqIDGen", "Next")
	// Next: the in-segment test is the top-level `if <local> <= <local>`; next and rangEnd are the two locals' initialisers
	inCond, inL, inR := cmpIf(next, token.LEQ, true)
	var nxInit, reInit ast.Expr
	if inCond != nil {
		nxInit = initOf(next, inL)
		if ri, ok := inR.(*ast.Ident); ok {
			reInit = initOf(next, ri)
		}
	}
	if inCond == nil || nxInit == nil || reInit == nil {
		nxInit, reInit, inCond = at(inits(next), 0), at(inits(next), 1), at(conds(next), 0)
	}
	tr.Expr("Next_next", next, nxInit, "SeqIDGen.Next: the initialiser of the left operand of its in-segment test (next)")
	tr.Expr("Next_rangeEnd", next, reInit, "SeqIDGen.Next: the initialiser of the right operand of its in-segment test (rangEnd)")
	tr.Expr("Next_inRange", next, inCond, "SeqIDGen.Next: the condition of its top-level `if <local> <= <local>` (still inside the segment)")
}
