package main

// Declaration shape of the files a property is anchored in (properties.jsonl -> anchors.files): every type
// declaration (struct fields with their types), every package-level var and const (names and declared types, not
// values — values that matter are regenerated facts) and every function/method signature. Function BODIES are not
// part of it. The models were written from these declarations; a new field, package-level variable, constant or
// helper is state or behaviour the model may not know about, so a difference from expected/shapes/<id>.txt is a
// broken correspondence (./check then searches for a failing input).

import (
	"encoding/json"
	"fmt"
	"go/ast"
	"go/parser"
	"go/printer"
	"go/token"
	"os"
	"path/filepath"
	"sort"
	"strings"
)

func anchorFiles(propsPath, id string) ([]string, error) {
	b, err := os.ReadFile(propsPath)
	if err != nil {
		return nil, err
	}
	for _, line := range strings.Split(string(b), "\n") {
		if strings.TrimSpace(line) == "" {
			continue
		}
		var p struct {
			ID      string `json:"id"`
			Anchors struct {
				Files []string `json:"files"`
			} `json:"anchors"`
		}
		if json.Unmarshal([]byte(line), &p) == nil && p.ID == id {
			return p.Anchors.Files, nil
		}
	}
	return nil, fmt.Errorf("property %s not found in %s", id, propsPath)
}

func nodeText(fs *token.FileSet, n ast.Node) string {
	var sb strings.Builder
	printer.Fprint(&sb, fs, n)
	return strings.Join(strings.Fields(sb.String()), " ")
}

// sigText prints a function type with the TYPES of its parameters and results only: renaming a parameter is
// not a change of the declaration shape.
func sigText(fs *token.FileSet, ft *ast.FuncType) string {
	list := func(fl *ast.FieldList) []string {
		var out []string
		if fl == nil {
			return out
		}
		for _, f := range fl.List {
			n := len(f.Names)
			if n == 0 {
				n = 1
			}
			for i := 0; i < n; i++ {
				out = append(out, nodeText(fs, f.Type))
			}
		}
		return out
	}
	res := list(ft.Results)
	s := "(" + strings.Join(list(ft.Params), ", ") + ")"
	switch len(res) {
	case 0:
	case 1:
		s += " " + res[0]
	default:
		s += " (" + strings.Join(res, ", ") + ")"
	}
	return s
}

func shapeOfFile(path string) ([]string, error) {
	fs := token.NewFileSet()
	f, err := parser.ParseFile(fs, path, nil, parser.SkipObjectResolution) // comments dropped
	if err != nil {
		return nil, err
	}
	var out []string
	for _, d := range f.Decls {
		switch d := d.(type) {
		case *ast.FuncDecl:
			recv := ""
			if d.Recv != nil && len(d.Recv.List) == 1 {
				recv = "(" + nodeText(fs, d.Recv.List[0].Type) + ") "
			}
			out = append(out, "func "+recv+d.Name.Name+sigText(fs, d.Type))
		case *ast.GenDecl:
			for _, s := range d.Specs {
				switch s := s.(type) {
				case *ast.TypeSpec:
					out = append(out, "type "+s.Name.Name+" "+nodeText(fs, s.Type))
				case *ast.ValueSpec:
					kind := "var"
					if d.Tok == token.CONST {
						kind = "const"
					}
					typ := ""
					if s.Type != nil {
						typ = " " + nodeText(fs, s.Type)
					}
					for _, n := range s.Names {
						if n.Name != "_" {
							out = append(out, kind+" "+n.Name+typ)
						}
					}
				}
			}
		}
	}
	sort.Strings(out)
	return out, nil
}

// shapePkgVars: also list every package-level VAR of the anchored packages (new process-wide state anywhere in the
// package); switched on per property by a "pkgvars" element in -shape-extra.
func pkgVarsOf(repo, dir string) []string {
	var out []string
	ents, _ := os.ReadDir(filepath.Join(repo, dir))
	for _, e := range ents {
		n := e.Name()
		if !strings.HasSuffix(n, ".go") || strings.HasSuffix(n, "_test.go") || strings.HasPrefix(n, "verif_") {
			continue
		}
		fs := token.NewFileSet()
		f, err := parser.ParseFile(fs, filepath.Join(repo, dir, n), nil, parser.SkipObjectResolution)
		if err != nil {
			continue
		}
		for _, d := range f.Decls {
			if gd, ok := d.(*ast.GenDecl); ok && gd.Tok == token.VAR {
				for _, sp := range gd.Specs {
					if vs, ok := sp.(*ast.ValueSpec); ok {
						for _, nm := range vs.Names {
							if nm.Name != "_" {
								out = append(out, "var "+nm.Name+"   [in "+n+"]")
							}
						}
					}
				}
			}
		}
	}
	sort.Strings(out)
	return out
}

func writeShape(repo, propsPath, id, outDir, extra string) error {
	files, err := anchorFiles(propsPath, id)
	if err != nil {
		return err
	}
	pkgVars := false
	for _, e := range strings.Split(extra, ",") {
		if e = strings.TrimSpace(e); e == "pkgvars" {
			pkgVars = true
		} else if e != "" {
			files = append(files, e)
		}
	}
	sort.Strings(files)
	var sb strings.Builder
	for _, rel := range files {
		if !strings.HasSuffix(rel, ".go") {
			continue
		}
		lines, err := shapeOfFile(filepath.Join(repo, rel))
		if err != nil {
			fmt.Fprintf(&sb, "== %s\n  MISSING OR UNPARSABLE: %v\n", rel, err)
			continue
		}
		fmt.Fprintf(&sb, "== %s\n", rel)
		for _, l := range lines {
			sb.WriteString("  " + l + "\n")
		}
	}
	// methods on types declared in the anchor files that live in OTHER files of the same package (a new file can
	// add or shadow methods of an anchored type, e.g. override a promoted method, without touching the anchor file)
	anchored := map[string]bool{}
	typesByDir := map[string]map[string]bool{}
	for _, rel := range files {
		anchored[filepath.Clean(rel)] = true
		if !strings.HasSuffix(rel, ".go") {
			continue
		}
		fs := token.NewFileSet()
		f, err := parser.ParseFile(fs, filepath.Join(repo, rel), nil, parser.SkipObjectResolution)
		if err != nil {
			continue
		}
		dir := filepath.Dir(rel)
		if typesByDir[dir] == nil {
			typesByDir[dir] = map[string]bool{}
		}
		for _, d := range f.Decls {
			if gd, ok := d.(*ast.GenDecl); ok {
				for _, sp := range gd.Specs {
					if ts, ok := sp.(*ast.TypeSpec); ok {
						typesByDir[dir][ts.Name.Name] = true
					}
				}
			}
		}
	}
	var dirs []string
	for d := range typesByDir {
		dirs = append(dirs, d)
	}
	sort.Strings(dirs)
	for _, dir := range dirs {
		ents, _ := os.ReadDir(filepath.Join(repo, dir))
		var extra []string
		for _, e := range ents {
			n := e.Name()
			rel := filepath.Join(dir, n)
			if !strings.HasSuffix(n, ".go") || strings.HasSuffix(n, "_test.go") || strings.HasPrefix(n, "verif_") || anchored[filepath.Clean(rel)] {
				continue
			}
			fs := token.NewFileSet()
			f, err := parser.ParseFile(fs, filepath.Join(repo, rel), nil, parser.SkipObjectResolution)
			if err != nil {
				continue
			}
			for _, d := range f.Decls {
				fd, ok := d.(*ast.FuncDecl)
				if !ok || fd.Recv == nil || len(fd.Recv.List) != 1 {
					continue
				}
				t := fd.Recv.List[0].Type
				if st, ok := t.(*ast.StarExpr); ok {
					t = st.X
				}
				if id, ok := t.(*ast.Ident); ok && typesByDir[dir][id.Name] {
					extra = append(extra, "func ("+nodeText(fs, fd.Recv.List[0].Type)+") "+fd.Name.Name+sigText(fs, fd.Type)+"   [in "+n+"]")
				}
			}
		}
		sort.Strings(extra)
		if len(extra) > 0 {
			fmt.Fprintf(&sb, "== methods of anchored types declared elsewhere in %s/\n", dir)
			for _, l := range extra {
				sb.WriteString("  " + l + "\n")
			}
		}
	}
	if pkgVars {
		for _, dir := range dirs {
			fmt.Fprintf(&sb, "== package-level variables of %s/\n", dir)
			for _, l := range pkgVarsOf(repo, dir) {
				sb.WriteString("  " + l + "\n")
			}
		}
	}
	os.MkdirAll(outDir, 0o755)
	return os.WriteFile(filepath.Join(outDir, "shape_"+id+".txt"), []byte(sb.String()), 0o644)
}
