package main

// Declaration shape of the files a property is anchored in (properties.jsonl -> anchors.files): every type
// declaration (struct fields with their types), every package-level var and const (names and declared types, not
// values — values that matter are regenerated facts) and every function/method signature. Function BODIES are not
// part of it. The models were written from these declarations; a new field, package-level variable, constant or
// helper is state or behaviour the model may not know about, so a difference from expected/shapes/<id>.txt is a
// broken correspondence (./check then searches for a failing input).

import (
	"encoding/json"
	"fmt"
	"go/ast"
	"go/parser"
	"go/printer"
	"go/token"
	"os"
	"path/filepath"
	"sort"
	"strings"
)

func anchorFiles(propsPath, id string) ([]string, error) {
	b, err := os.ReadFile(propsPath)
	if err != nil {
		return nil, err
	}
	for _, line := range strings.Split(string(b), "\n") {
		if strings.TrimSpace(line) == "" {
			continue
		}
		var p struct {
			ID      string `json:"id"`
			Anchors struct {
				Files []string `json:"files"`
			} `json:"anchors"`
		}
		if json.Unmarshal([]byte(line), &p) == nil && p.ID == id {
			return p.Anchors.Files, nil
		}
	}
	return nil, fmt.Errorf("property %s not found in %s", id, propsPath)
}

func nodeText(fs *token.FileSet, n ast.Node) string {
	var sb strings.Builder
	printer.Fprint(&sb, fs, n)
	return strings.Join(strings.Fields(sb.String()), " ")
}

func shapeOfFile(path string) ([]string, error) {
	fs := token.NewFileSet()
	f, err := parser.ParseFile(fs, path, nil, parser.SkipObjectResolution) // comments dropped
	if err != nil {
		return nil, err
	}
	var out []string
	for _, d := range f.Decls {
		switch d := d.(type) {
		case *ast.FuncDecl:
			recv := ""
			if d.Recv != nil && len(d.Recv.List) == 1 {
				recv = "(" + nodeText(fs, d.Recv.List[0].Type) + ") "
			}
			out = append(out, "func "+recv+d.Name.Name+strings.TrimPrefix(nodeText(fs, d.Type), "func"))
		case *ast.GenDecl:
			for _, s := range d.Specs {
				switch s := s.(type) {
				case *ast.TypeSpec:
					out = append(out, "type "+s.Name.Name+" "+nodeText(fs, s.Type))
				case *ast.ValueSpec:
					kind := "var"
					if d.Tok == token.CONST {
						kind = "const"
					}
					typ := ""
					if s.Type != nil {
						typ = " " + nodeText(fs, s.Type)
					}
					for _, n := range s.Names {
						if n.Name != "_" {
							out = append(out, kind+" "+n.Name+typ)
						}
					}
				}
			}
		}
	}
	sort.Strings(out)
	return out, nil
}

func writeShape(repo, propsPath, id, outDir, extra string) error {
	files, err := anchorFiles(propsPath, id)
	if err != nil {
		return err
	}
	for _, e := range strings.Split(extra, ",") {
		if e = strings.TrimSpace(e); e != "" {
			files = append(files, e)
		}
	}
	sort.Strings(files)
	var sb strings.Builder
	for _, rel := range files {
		if !strings.HasSuffix(rel, ".go") {
			continue
		}
		lines, err := shapeOfFile(filepath.Join(repo, rel))
		if err != nil {
			fmt.Fprintf(&sb, "== %s\n  MISSING OR UNPARSABLE: %v\n", rel, err)
			continue
		}
		fmt.Fprintf(&sb, "== %s\n", rel)
		for _, l := range lines {
			sb.WriteString("  " + l + "\n")
		}
	}
	os.MkdirAll(outDir, 0o755)
	return os.WriteFile(filepath.Join(outDir, "shape_"+id+".txt"), []byte(sb.String()), 0o644)
}
