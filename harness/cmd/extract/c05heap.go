package main

// c05heap.go: what the array model of the binary heap (Model/C05Heap…) was written from, re-read on every run:
// the five methods of sched.timerHeap, the call sites of container/heap in TimerQueue.addNode / delNode / trigger,
// and the bodies of container/heap itself in the Go tree this check is built with.

import (
	"bytes"
	"go/ast"
	"go/build"
	"go/parser"
	"go/printer"
	"go/token"
	"go/types"
	"os/exec"
	"path/filepath"
	"strings"
)

// expected alpha-normalised bodies (receiver _r, parameters _p0, _p1, locals _v0, … by order of declaration)
var expectedTimerHeap = [][2]string{
	{"Len", "{ return len(_r) }"},
	{"Less", "{ if _r[_p0].deadline == _r[_p1].deadline { return _r[_p0].id > _r[_p1].id } return _r[_p0].deadline < _r[_p1].deadline }"},
	{"Swap", "{ _r[_p0], _r[_p1] = _r[_p1], _r[_p0] _r[_p0].index = _p0 _r[_p1].index = _p1 }"},
	{"Push", "{ _v0 := _p0.(*timerNode) _v0.index = len(*_r) *_r = append(*_r, _v0) }"},
	{"Pop", "{ _v0 := *_r _v1 := len(_v0) if _v1 > 0 { _v2 := _v0[_v1-1] _v2.index = -1 *_r = _v0[:_v1-1] return _v2 } return nil }"},
}

var expectedHeapCalls = []string{
	"addNode:Push(&_r.timers,_p0)",
	"delNode:Remove(&_r.timers,_p0.index)",
	"trigger:Pop(&_r.timers)",
	"trigger:Fix(&_r.timers,_v0.index)",
	"trigger:Pop(&_r.timers)",
}

const expectedDelNode = "{ if _p0.index >= 0 { heap.Remove(&_r.timers, _p0.index) } }"

// container/heap of the Go tree (go1.23.5 when this was recorded), bodies printed by go/printer, white space collapsed
var expectedGoHeap = [][2]string{
	{"Init", "{ n := h.Len() for i := n/2 - 1; i >= 0; i-- { down(h, i, n) } }"},
	{"Push", "{ h.Push(x) up(h, h.Len()-1) }"},
	{"Pop", "{ n := h.Len() - 1 h.Swap(0, n) down(h, 0, n) return h.Pop() }"},
	{"Remove", "{ n := h.Len() - 1 if n != i { h.Swap(i, n) if !down(h, i, n) { up(h, i) } } return h.Pop() }"},
	{"Fix", "{ if !down(h, i, h.Len()) { up(h, i) } }"},
	{"up", "{ for { i := (j - 1) / 2 if i == j || !h.Less(j, i) { break } h.Swap(i, j) j = i } }"},
	{"down", "{ i := i0 for { j1 := 2*i + 1 if j1 >= n || j1 < 0 { break } j := j1 if j2 := j1 + 1; j2 < n && h.Less(j2, j1) { j = j2 } if !h.Less(j, i) { break } h.Swap(i, j) i = j } return i > i0 }"},
}

// heapCallsOf lists the calls of package container/heap in the body of fd, in source order: Name(arg,arg) with the
// arguments alpha-normalised and white space removed (the only local a call mentions prints as _v0).
func heapCallsOf(p *Pkg, fd *ast.FuncDecl) []string {
	defer p.normalise(fd)()
	var out []string
	ast.Inspect(fd.Body, func(n ast.Node) bool {
		call, ok := n.(*ast.CallExpr)
		if !ok {
			return true
		}
		sel, ok := call.Fun.(*ast.SelectorExpr)
		if !ok {
			return true
		}
		id, ok := sel.X.(*ast.Ident)
		if !ok {
			return true
		}
		pn, ok := p.Info.Uses[id].(*types.PkgName)
		if !ok || pn.Imported().Path() != "container/heap" {
			return true
		}
		args := make([]string, len(call.Args))
		for i, a := range call.Args {
			args[i] = strings.Join(strings.Fields(p.Src(a)), "")
		}
		out = append(out, renumberDecl(sel.Sel.Name+"("+strings.Join(args, ",")+")"))
		return true
	})
	return out
}

func goroot() string {
	if out, err := exec.Command("go", "env", "GOROOT").Output(); err == nil {
		if s := strings.TrimSpace(string(out)); s != "" {
			return s
		}
	}
	return build.Default.GOROOT
}

func heapArrayFacts(o *Out, p *Pkg) {
	// (a) the heap.Interface of timerHeap
	for _, e := range expectedTimerHeap {
		fd := p.Func("timerHeap", e[0])
		got := "?"
		if fd == nil || fd.Body == nil {
			o.problem("method timerHeap.%s not found", e[0])
		} else if got = c05body(p, fd); got != e[1] {
			o.problem("timerHeap.%s body is %s, the array model was written from %s", e[0], got, e[1])
		}
		o.str("pin_timerHeap_"+e[0], got, "sched/timerqueue.go timerHeap."+e[0]+", body alpha-normalised (receiver _r, parameters _pN, locals _vN)")
	}
	// (b) where TimerQueue calls container/heap
	var calls []string
	for _, name := range []string{"addNode", "delNode", "trigger"} {
		fd := p.Func("TimerQueue", name)
		if fd == nil || fd.Body == nil {
			o.problem("method TimerQueue.%s not found", name)
			continue
		}
		for _, c := range heapCallsOf(p, fd) {
			calls = append(calls, name+":"+c)
		}
	}
	if strings.Join(calls, " ") != strings.Join(expectedHeapCalls, " ") {
		o.problem("TimerQueue calls container/heap as [%s], the array model was written from [%s]", strings.Join(calls, " "), strings.Join(expectedHeapCalls, " "))
	}
	o.strList("heapCalls", calls, "sched/timerqueue.go: the calls of container/heap in TimerQueue.addNode, delNode, trigger, in source order (arguments alpha-normalised)")
	got := "?"
	if fd := p.Func("TimerQueue", "delNode"); fd != nil && fd.Body != nil {
		if got = c05body(p, fd); got != expectedDelNode {
			o.problem("TimerQueue.delNode body is %s, the array model was written from %s", got, expectedDelNode)
		}
	}
	o.str("pin_TimerQueue_delNode", got, "sched/timerqueue.go TimerQueue.delNode, body alpha-normalised: the guard `index >= 0` before heap.Remove")
	// (c) container/heap itself
	file := filepath.Join(goroot(), "src", "container", "heap", "heap.go")
	fs := token.NewFileSet()
	f, err := parser.ParseFile(fs, file, nil, 0)
	if err != nil {
		o.problem("container/heap: %v", err)
		return
	}
	bodies := map[string]string{}
	for _, d := range f.Decls {
		if fd, ok := d.(*ast.FuncDecl); ok && fd.Recv == nil && fd.Body != nil {
			var buf bytes.Buffer
			if err := printer.Fprint(&buf, fs, fd.Body); err == nil {
				bodies[fd.Name.Name] = strings.Join(strings.Fields(buf.String()), " ")
			}
		}
	}
	for _, e := range expectedGoHeap {
		got, ok := bodies[e[0]]
		if !ok {
			got = "?"
			o.problem("container/heap.%s not found in %s", e[0], file)
		} else if got != e[1] {
			o.problem("container/heap.%s of this Go tree is %s, the array model mirrors %s", e[0], got, e[1])
		}
		o.str("goheap_"+e[0], got, "$GOROOT/src/container/heap/heap.go func "+e[0]+", body printed by go/printer, white space collapsed")
	}
}
