package main

import (
	"fmt"
	"go/ast"
	"go/constant"
	"go/token"
	"go/types"
	"strconv"
	"strings"
)

func init() { extractors["C19"] = extractC19 }

// c19Types is the fixed order of the typed accessors of qnet.Buffer (suffix of Read*/Peek*; the
// write of the unsigned byte is spelled WriteUInt8 in the source).
var c19Types = []string{"Bool", "Uint8", "Int8", "Uint16", "Int16", "Uint32", "Int32", "Uint64", "Int64", "Uint", "Int", "Float32", "Float64"}

func c19WriteName(t string) string {
	if t == "Uint8" {
		return "WriteUInt8"
	}
	return "Write" + t
}

// bufEval is a tiny abstract interpreter of the method bodies of qnet/buffer.go: it follows the
// statements in order for one value of the platform constant is64Bit, stops at a return, and lists
// the byte counts of the primitive buffer accesses it meets (directly or through other methods of
// Buffer): WriteByte / Write(tmp[:]) for writers, ReadByte / Read(tmp[:]) for readers, the
// `len(data) < K` guard for peekers. Every binary.<Order>.<Fn> call on the way must be
// LittleEndian and of the width of the array / slice it is applied to.
type bufEval struct {
	p     *Pkg
	o     *Out
	is64  bool
	recv  string
	depth int
}

func (e *bufEval) method(name string) []uint64 {
	fd := e.p.Func("Buffer", name)
	if fd == nil || fd.Body == nil {
		e.o.problem("method Buffer.%s not found in qnet/buffer.go", name)
		return nil
	}
	if e.depth > 8 {
		e.o.problem("Buffer.%s: delegation too deep", name)
		return nil
	}
	sub := &bufEval{p: e.p, o: e.o, is64: e.is64, depth: e.depth + 1}
	if fd.Recv != nil && len(fd.Recv.List) == 1 && len(fd.Recv.List[0].Names) == 1 {
		sub.recv = fd.Recv.List[0].Names[0].Name
	}
	ch, _ := sub.block(name, fd.Body.List)
	return ch
}

func (e *bufEval) block(fn string, stmts []ast.Stmt) (chunks []uint64, returned bool) {
	for _, s := range stmts {
		ch, ret := e.stmt(fn, s)
		chunks = append(chunks, ch...)
		if ret {
			return chunks, true
		}
	}
	return chunks, false
}

func (e *bufEval) stmt(fn string, s ast.Stmt) (chunks []uint64, returned bool) {
	switch s := s.(type) {
	case *ast.ReturnStmt:
		for _, r := range s.Results {
			chunks = append(chunks, e.expr(fn, r)...)
		}
		return chunks, true
	case *ast.IfStmt:
		if id, ok := s.Cond.(*ast.Ident); ok && id.Name == "is64Bit" && s.Init == nil {
			if e.is64 {
				return e.block(fn, s.Body.List)
			}
			if s.Else != nil {
				return e.stmt(fn, s.Else)
			}
			return nil, false
		}
		if s.Init != nil {
			ch, _ := e.stmt(fn, s.Init)
			chunks = append(chunks, ch...)
		}
		// the peek guard: `if len(data) < K { panic(...) }`
		if be, ok := s.Cond.(*ast.BinaryExpr); ok && be.Op == token.LSS {
			if c, ok := be.X.(*ast.CallExpr); ok && e.p.Src(c.Fun) == "len" {
				if v, ok := e.p.ConstOf(be.Y); ok {
					k, _ := constant.Uint64Val(constant.ToInt(v))
					if !e.panics(s.Body) {
						e.o.problem("Buffer.%s: the length guard does not panic", fn)
					}
					return append(chunks, k), false
				}
			}
		}
		chunks = append(chunks, e.expr(fn, s.Cond)...)
		// other conditionals (error checks, `if v { c = 1 }`) must not touch the buffer
		if inner := e.expr(fn, s.Body); len(inner) != 0 {
			e.o.problem("Buffer.%s: buffer access inside a conditional the extractor does not understand", fn)
		}
		if s.Else != nil {
			if inner := e.expr(fn, s.Else); len(inner) != 0 {
				e.o.problem("Buffer.%s: buffer access inside an else branch the extractor does not understand", fn)
			}
		}
		return chunks, false
	case *ast.BlockStmt:
		return e.block(fn, s.List)
	case *ast.ForStmt, *ast.RangeStmt, *ast.SwitchStmt, *ast.TypeSwitchStmt, *ast.SelectStmt, *ast.GoStmt, *ast.DeferStmt:
		e.o.problem("Buffer.%s: statement kind %T is not expected in qnet/buffer.go", fn, s)
		return nil, false
	default:
		return e.expr(fn, s), false
	}
}

func (e *bufEval) panics(b *ast.BlockStmt) bool {
	if b == nil || len(b.List) != 1 {
		return false
	}
	es, ok := b.List[0].(*ast.ExprStmt)
	if !ok {
		return false
	}
	c, ok := es.X.(*ast.CallExpr)
	return ok && e.p.Src(c.Fun) == "panic"
}

// arrayLen is the length of the array behind `tmp[:]`.
func (e *bufEval) arrayLen(x ast.Expr) (uint64, bool) {
	se, ok := x.(*ast.SliceExpr)
	if !ok || se.Low != nil || se.High != nil {
		return 0, false
	}
	tv, ok := e.p.Info.Types[se.X]
	if !ok || tv.Type == nil {
		return 0, false
	}
	if a, ok := tv.Type.Underlying().(*types.Array); ok {
		return uint64(a.Len()), true
	}
	return 0, false
}

// sliceHigh is K of `data[:K]`.
func (e *bufEval) sliceHigh(x ast.Expr) (uint64, bool) {
	se, ok := x.(*ast.SliceExpr)
	if !ok || se.Low != nil || se.High == nil {
		return 0, false
	}
	v, ok := e.p.ConstOf(se.High)
	if !ok {
		return 0, false
	}
	k, exact := constant.Uint64Val(constant.ToInt(v))
	return k, exact
}

// expr lists the buffer accesses of every call below n, in source order.
func (e *bufEval) expr(fn string, n ast.Node) (chunks []uint64) {
	if n == nil {
		return nil
	}
	ast.Inspect(n, func(x ast.Node) bool {
		c, ok := x.(*ast.CallExpr)
		if !ok {
			return true
		}
		callee := e.p.Src(c.Fun)
		switch {
		case strings.HasPrefix(callee, "binary."):
			parts := strings.Split(callee, ".")
			if len(parts) != 3 || parts[1] != "LittleEndian" {
				e.o.problem("Buffer.%s: %s is not a little-endian access", fn, callee)
				return true
			}
			f := parts[2]
			put := strings.HasPrefix(f, "Put")
			bits, err := strconv.Atoi(strings.TrimPrefix(strings.TrimPrefix(f, "Put"), "Uint"))
			if err != nil || len(c.Args) == 0 {
				e.o.problem("Buffer.%s: unexpected binary call %s", fn, callee)
				return true
			}
			var k uint64
			var got bool
			if put {
				k, got = e.arrayLen(c.Args[0])
			} else if k, got = e.arrayLen(c.Args[0]); !got {
				k, got = e.sliceHigh(c.Args[0])
			}
			if !got || int(k)*8 != bits {
				e.o.problem("Buffer.%s: %s is applied to %s, which is not %d bytes", fn, callee, e.p.Src(c.Args[0]), bits/8)
			}
		case e.recv != "" && strings.HasPrefix(callee, e.recv+"."):
			m := strings.TrimPrefix(callee, e.recv+".")
			switch m {
			case "WriteByte", "ReadByte":
				chunks = append(chunks, 1)
			case "Write", "Read":
				if len(c.Args) == 1 {
					if k, ok := e.arrayLen(c.Args[0]); ok {
						chunks = append(chunks, k)
						return true
					}
				}
				e.o.problem("Buffer.%s: %s is not applied to a whole fixed-size array", fn, callee)
			case "Bytes", "Len":
				// inspection only
			default:
				if e.p.Func("Buffer", m) != nil {
					chunks = append(chunks, e.method(m)...)
				} else {
					e.o.problem("Buffer.%s: call of %s, which the extractor does not know", fn, callee)
				}
			}
		}
		return true
	})
	return chunks
}

func natLists(v [][]uint64) string {
	parts := make([]string, len(v))
	for i, l := range v {
		in := make([]string, len(l))
		for j, x := range l {
			in[j] = fmt.Sprint(x)
		}
		parts[i] = "[" + strings.Join(in, ", ") + "]"
	}
	return "[" + strings.Join(parts, ", ") + "]"
}

// qnet/buffer.go: the platform constant and, for both values of it, the (method, byte count) tables.
func extractC19(repo string, o *Out) {
	p, err := load(repo, "qnet")
	if err != nil {
		o.problem("load: %v", err)
		return
	}
	is64 := false
	if v, ok := p.Const("is64Bit"); !ok || v.Kind() != constant.Bool {
		o.problem("constant is64Bit not found in qnet/buffer.go")
	} else {
		is64 = constant.BoolVal(v)
	}
	if is64 != (strconv.IntSize == 64) {
		o.problem("is64Bit evaluates to %v but the platform of this run has %d-bit ints", is64, strconv.IntSize)
	}
	o.bool("is64Bit", strconv.IntSize == 64, "platform of the run (strconv.IntSize == 64); qnet/buffer.go const is64Bit must agree")
	names := make([]string, len(c19Types))
	for i, t := range c19Types {
		names[i] = leanString(t)
	}
	o.Facts = append(o.Facts, Fact{"typeNames", "List String", "[" + strings.Join(names, ", ") + "]", "order of the rows of the tables below (suffix of Write*/Read*/Peek* in qnet/buffer.go)"})
	for _, w := range []struct {
		suffix string
		is64   bool
	}{{"64", true}, {"32", false}} {
		ev := &bufEval{p: p, o: o, is64: w.is64}
		var wr [][]uint64
		var rd, pk []uint64
		single := func(kind, t string, ch []uint64) uint64 {
			if len(ch) != 1 {
				o.problem("Buffer.%s%s (is64Bit=%v): expected exactly one buffer access, found %v", kind, t, w.is64, ch)
				return 0
			}
			return ch[0]
		}
		for _, t := range c19Types {
			wr = append(wr, ev.method(c19WriteName(t)))
			rd = append(rd, single("Read", t, ev.method("Read"+t)))
			pk = append(pk, single("Peek", t, ev.method("Peek"+t)))
		}
		from := fmt.Sprintf("qnet/buffer.go with is64Bit=%v: ", w.is64)
		o.Facts = append(o.Facts, Fact{"wr" + w.suffix, "List (List Nat)", natLists(wr), from + "byte counts appended, in order, by each Write<T> (one entry expected)"})
		o.natList("rd"+w.suffix, rd, from+"bytes requested from the buffer by each Read<T>")
		o.natList("pk"+w.suffix, pk, from+"bytes a Peek<T> insists on (its `len(data) < K` guard) and decodes")
	}
	// a method reached through several delegations reports its problem once
	seen := map[string]bool{}
	var uniq []string
	for _, pr := range o.Problems {
		if !seen[pr] {
			seen[pr] = true
			uniq = append(uniq, pr)
		}
	}
	o.Problems = uniq
}
