package main

import (
	"go/ast"
	"go/constant"
	"strconv"
)

func init() { extractors["C20"] = extractC20 }

// nodeid.go: the four constants, the format and argument types of String(), base/bits of the parser.
func extractC20(repo string, o *Out) {
	p, err := load(repo, ".")
	if err != nil {
		o.problem("load: %v", err)
		return
	}
	o.nat("nodeServiceShift", p.ConstU(o, "NodeServiceShift"), "nodeid.go const NodeServiceShift")
	o.nat("nodeTypeShift", p.ConstU(o, "NodeTypeShift"), "nodeid.go const NodeTypeShift")
	o.nat("nodeServiceMask", p.ConstU(o, "NodeServiceMask"), "nodeid.go const NodeServiceMask")
	o.nat("nodeInstanceMask", p.ConstU(o, "NodeInstanceMask"), "nodeid.go const NodeInstanceMask")

	format, s0, b0, s1, b1 := "?", false, 0, false, 0
	if fd := p.Func("NodeID", "String"); fd == nil {
		o.problem("method NodeID.String not found")
	} else if calls := p.Calls(fd, "fmt.Sprintf"); len(calls) != 1 || len(calls[0].Args) != 3 {
		o.problem("NodeID.String: expected exactly one fmt.Sprintf with a format and two arguments")
	} else {
		c := calls[0]
		if v, ok := p.ConstOf(c.Args[0]); ok && v.Kind() == constant.String {
			format = constant.StringVal(v)
		} else if lit, ok := c.Args[0].(*ast.BasicLit); ok {
			format, _ = strconv.Unquote(lit.Value)
		} else {
			o.problem("NodeID.String: format is not a constant string")
		}
		var ok0, ok1 bool
		s0, b0, ok0 = p.IntType(c.Args[1])
		s1, b1, ok1 = p.IntType(c.Args[2])
		if !ok0 || !ok1 {
			o.problem("NodeID.String: argument types are not integer types (%s, %s)", p.Src(c.Args[1]), p.Src(c.Args[2]))
		}
	}
	o.str("stringFormat", format, "format literal of fmt.Sprintf in NodeID.String")
	o.bool("stringArg0Signed", s0, "static type of the first Sprintf argument in NodeID.String")
	o.nat("stringArg0Bits", uint64(b0), "static type of the first Sprintf argument in NodeID.String")
	o.bool("stringArg1Signed", s1, "static type of the second Sprintf argument in NodeID.String")
	o.nat("stringArg1Bits", uint64(b1), "static type of the second Sprintf argument in NodeID.String")

	base, bits := uint64(0), uint64(0)
	if fd := p.Func("", "MustParseNodeID"); fd == nil {
		o.problem("func MustParseNodeID not found")
	} else if calls := p.Calls(fd, "strconv.ParseUint"); len(calls) != 1 || len(calls[0].Args) != 3 {
		o.problem("MustParseNodeID: expected exactly one strconv.ParseUint(s, base, bits)")
	} else {
		if v, ok := p.ConstOf(calls[0].Args[1]); ok {
			base, _ = constant.Uint64Val(constant.ToInt(v))
		}
		if v, ok := p.ConstOf(calls[0].Args[2]); ok {
			bits, _ = constant.Uint64Val(constant.ToInt(v))
		}
	}
	tr := newTr(p, o, 64)
	tr.Func("", "MakeNodeID", "MakeNodeID")
	tr.Func("NodeID", "IsTypeBackend", "IsTypeBackend")
	tr.Func("NodeID", "Service", "Service")
	tr.Func("NodeID", "Instance", "Instance")
	defer tr.Emit("Tr")
	o.nat("parseBase", base, "base argument of strconv.ParseUint in MustParseNodeID")
	o.nat("parseBits", bits, "bitSize argument of strconv.ParseUint in MustParseNodeID")
}
