package main

import (
	"go/ast"
	"go/token"
	"strings"
)

func init() { extractors["C10"] = extractC10 }

// collections/treemap: the source facts the iterator part of the model depends on.
//   - Map.Clear bumps m.version (otherwise an iterator survives a Clear and walks the detached tree);
//   - EntryIterator.Remove re-targets it.next to it.lastReturned when that node has two children
//     (deleteEntry moves the successor into it) and does so before calling deleteEntry;
//   - the two descending iterators declare their own Remove which calls deleteEntry and never assigns it.next
//     (the inherited ascending Remove would make them revisit the successor).
//
// Every method is matched in its alpha-normalised form (`normalise`, c07.go: the receiver prints as _r, parameters as
// _p0, …, locals as placeholders), so the name chosen for a receiver, parameter or local does not matter; fields and
// methods (version, next, lastReturned, left, right, owner, deleteEntry, nextEntry, prevEntry) are matched by name.
func extractC10(repo string, o *Out) {
	p, err := load(repo, "collections/treemap")
	if err != nil {
		o.problem("load: %v", err)
		return
	}
	// does the body contain `<recv>.<field>++`
	incs := func(fd *ast.FuncDecl, text string) bool {
		defer p.normalise(fd)()
		found := false
		ast.Inspect(fd, func(n ast.Node) bool {
			if s, ok := n.(*ast.IncDecStmt); ok && s.Tok == token.INC && p.Src(s.X) == text {
				found = true
			}
			return true
		})
		return found
	}
	assigns := func(n ast.Node, lhs string) []*ast.AssignStmt {
		var out []*ast.AssignStmt
		ast.Inspect(n, func(x ast.Node) bool {
			if s, ok := x.(*ast.AssignStmt); ok {
				for _, l := range s.Lhs {
					if p.Src(l) == lhs {
						out = append(out, s)
					}
				}
			}
			return true
		})
		return out
	}

	clearBumps := false
	if fd := p.Func("Map", "Clear"); fd == nil {
		o.problem("method Map.Clear not found")
	} else {
		clearBumps = incs(fd, "_r.version")
	}
	o.bool("clearBumpsVersion", clearBumps, "treemap/map.go: Map.Clear increments m.version")

	for _, f := range []string{"Put", "deleteEntry"} {
		if fd := p.Func("Map", f); fd == nil {
			o.problem("method Map.%s not found", f)
		} else if !incs(fd, "_r.version") {
			o.problem("Map.%s no longer increments m.version", f)
		}
	}

	retargets := false
	if fd := p.Func("EntryIterator", "Remove"); fd == nil {
		o.problem("method EntryIterator.Remove not found")
	} else {
		restore := p.normalise(fd)
		var ifPos, delPos token.Pos
		ast.Inspect(fd, func(n ast.Node) bool {
			if s, ok := n.(*ast.IfStmt); ok {
				cond := strings.Join(strings.Fields(p.Src(s.Cond)), " ")
				if cond == "_r.lastReturned.left != nil && _r.lastReturned.right != nil" {
					for _, a := range assigns(s.Body, "_r.next") {
						if len(a.Rhs) == 1 && p.Src(a.Rhs[0]) == "_r.lastReturned" {
							ifPos = s.Pos()
						}
					}
				}
			}
			return true
		})
		for _, c := range p.Calls(fd, "_r.owner.deleteEntry") {
			delPos = c.Pos()
		}
		retargets = ifPos.IsValid() && delPos.IsValid() && ifPos < delPos
		if len(assigns(fd, "_r.next")) > 1 {
			o.problem("EntryIterator.Remove assigns it.next more than once")
			retargets = false
		}
		restore()
	}
	o.bool("ascRemoveRetargets", retargets, "treemap/iterator.go: EntryIterator.Remove re-targets it.next to it.lastReturned when that node has two children, before deleteEntry")

	own := func(recv string) bool {
		fd := p.Func(recv, "Remove")
		if fd == nil {
			return false // inherits EntryIterator.Remove through the embedded struct
		}
		defer p.normalise(fd)()
		calls := p.Calls(fd, "_r.owner.deleteEntry")
		if len(calls) != 1 || len(calls[0].Args) != 1 || p.Src(calls[0].Args[0]) != "_r.lastReturned" {
			o.problem("%s.Remove does not call it.owner.deleteEntry(it.lastReturned) exactly once", recv)
			return false
		}
		return len(assigns(fd, "_r.next")) == 0
	}
	o.bool("descEntryOwnRemove", own("DescendingEntryIterator"), "treemap/iterator.go: DescendingEntryIterator declares its own Remove, which never assigns it.next")
	o.bool("descKeyOwnRemove", own("DescendingKeyIterator"), "treemap/iterator.go: DescendingKeyIterator declares its own Remove, which never assigns it.next")

	// which walk each iterator's Next uses (the model ties kind -> direction)
	for recv, want := range map[string]string{"EntryIterator": "nextEntry", "KeyIterator": "nextEntry", "ValueIterator": "nextEntry",
		"DescendingEntryIterator": "prevEntry", "DescendingKeyIterator": "prevEntry"} {
		fd := p.Func(recv, "Next")
		if fd == nil {
			o.problem("method %s.Next not found", recv)
			continue
		}
		restore := p.normalise(fd)
		if len(p.Calls(fd, "_r."+want)) != 1 {
			o.problem("%s.Next no longer calls it.%s()", recv, want)
		}
		restore()
	}
}
