package main

// Sync-op skeletons (DESIGN.md §3.2 "X skeleton"): for one Go source file, the ordered, nested list of the
// synchronisation-relevant statements of every function —
//
//	send / recv / close on channels, select (with its cases and default), Lock/Unlock/RLock/RUnlock,
//	WaitGroup Add/Done/Wait, sync.Once/Cond, atomic operations (sync/atomic calls and module-local
//	methods that only wrap them, e.g. fatchoy.State.CAS), go and defer statements, assignments to channel
//	variables, calls to functions of the same package (`call`) and of other packages of the module
//	(`xcall`, except log), socket calls (`io`: net, bufio), and the control flow that orders them
//	(for, if, switch, return, break, continue, panic).
//
// Operands are printed alpha-normalised (receiver _r, parameters _p0, _p1, … by position, locals _v0, _v1, … by
// order of declaration within the function), so renaming a receiver, a parameter or a local changes nothing;
// fields, methods, functions, constants and packages print under their own names.
//
// The hand-written LTS models were built from these lists; `./check` diffs the re-extracted skeleton
// with the committed one (`expected/skeletons/<name>.txt`, listed in conf `"skeletons"`), so a reordered
// close/CAS, a removed `default`, a lock that no longer covers a region, or a changed loop shape is
// reported even if no sampled schedule shows it.
//
// API for the per-property extractors:
//
//	writeSkeleton(repo, "qnet/tcp_conn.go", outDir)   // writes <outDir>/skeletons/qnet_tcp_conn.txt
//	skeletonDir()                                      // <facts dir>/skeletons of this run ("" if -facts is unset)
//	skeletonOf(repo, relFile) (string, error)          // the text itself
//
// Types are resolved with go/types: standard library from source, packages of the module itself from
// the working tree, everything else leniently (unknown). Without type information an op is classified
// by its method name only when that is unambiguous (Lock/Unlock/RLock/RUnlock).

import (
	"flag"
	"fmt"
	"go/ast"
	"go/build"
	"go/parser"
	"go/printer"
	"go/token"
	"go/types"
	"os"
	"path/filepath"
	"regexp"
	"sort"
	"strings"
)

// skeletonDir is where the skeletons of this run go: <facts dir>/skeletons.
func skeletonDir() string {
	f := flag.Lookup("facts")
	if f == nil || f.Value.String() == "" {
		return ""
	}
	return f.Value.String()
}

// skeletonName maps "qnet/tcp_conn.go" to "qnet_tcp_conn.txt".
func skeletonName(relFile string) string {
	n := strings.TrimSuffix(filepath.ToSlash(relFile), ".go")
	return strings.ReplaceAll(n, "/", "_") + ".txt"
}

// writeSkeleton extracts the skeleton of repo/relFile and writes it to outDir/skeletons/<name>.txt.
// outDir == "" (no -facts directory) is a no-op.
func writeSkeleton(repo, relFile string, outDir string) error {
	if outDir == "" {
		return nil
	}
	txt, err := skeletonOf(repo, relFile)
	if err != nil {
		return err
	}
	dir := filepath.Join(outDir, "skeletons")
	if err := os.MkdirAll(dir, 0o755); err != nil {
		return err
	}
	return os.WriteFile(filepath.Join(dir, skeletonName(relFile)), []byte(txt), 0o644)
}

// ---- module-aware lenient loader (records Selections, resolves the module's own packages) -------

type skPkg struct {
	fset  *token.FileSet
	files map[string]*ast.File // base name -> file
	info  *types.Info
	tpkg  *types.Package
	decls map[types.Object]*ast.FuncDecl
}

type skLoader struct {
	repo   string
	module string
	fset   *token.FileSet
	pkgs   map[string]*skPkg // import path -> package
	busy   map[string]bool
}

var skLoaders = map[string]*skLoader{}

func skLoaderFor(repo string) *skLoader {
	if l, ok := skLoaders[repo]; ok {
		return l
	}
	l := &skLoader{repo: repo, fset: fset, pkgs: map[string]*skPkg{}, busy: map[string]bool{}}
	if b, err := os.ReadFile(filepath.Join(repo, "go.mod")); err == nil {
		if m := regexp.MustCompile(`(?m)^module\s+(\S+)`).FindSubmatch(b); m != nil {
			l.module = string(m[1])
		}
	}
	skLoaders[repo] = l
	return l
}

func (l *skLoader) Import(path string) (*types.Package, error) {
	if l.module != "" && (path == l.module || strings.HasPrefix(path, l.module+"/")) && !l.busy[path] {
		if p, err := l.load(path); err == nil && p.tpkg != nil {
			return p.tpkg, nil
		}
	}
	return imp.Import(path) // standard library from source, the rest as empty packages
}

func (l *skLoader) load(path string) (*skPkg, error) {
	if p, ok := l.pkgs[path]; ok {
		return p, nil
	}
	l.busy[path] = true
	defer delete(l.busy, path)
	rel := strings.TrimPrefix(strings.TrimPrefix(path, l.module), "/")
	dir := filepath.Join(l.repo, rel)
	ctx := build.Default
	ctx.BuildTags = append(ctx.BuildTags, "verif")
	ents, err := os.ReadDir(dir)
	if err != nil {
		return nil, err
	}
	p := &skPkg{fset: l.fset, files: map[string]*ast.File{}, decls: map[types.Object]*ast.FuncDecl{}}
	var files []*ast.File
	for _, e := range ents {
		n := e.Name()
		if !strings.HasSuffix(n, ".go") || strings.HasSuffix(n, "_test.go") {
			continue
		}
		if ok, _ := ctx.MatchFile(dir, n); !ok {
			continue
		}
		f, err := parser.ParseFile(l.fset, filepath.Join(dir, n), nil, parser.SkipObjectResolution)
		if err != nil {
			return nil, err
		}
		p.files[n] = f
		files = append(files, f)
	}
	p.info = &types.Info{Types: map[ast.Expr]types.TypeAndValue{}, Defs: map[*ast.Ident]types.Object{},
		Uses: map[*ast.Ident]types.Object{}, Selections: map[*ast.SelectorExpr]*types.Selection{}}
	conf := types.Config{Importer: l, Error: func(error) {}, FakeImportC: true}
	p.tpkg, _ = conf.Check(path, l.fset, files, p.info)
	for _, f := range files {
		for _, d := range f.Decls {
			if fd, ok := d.(*ast.FuncDecl); ok {
				if obj := p.info.Defs[fd.Name]; obj != nil {
					p.decls[obj] = fd
				}
			}
		}
	}
	l.pkgs[path] = p
	return p, nil
}

// declOf finds the declaration of a module-local function or method.
func (l *skLoader) declOf(fn *types.Func) (*skPkg, *ast.FuncDecl) {
	if fn == nil || fn.Pkg() == nil {
		return nil, nil
	}
	p, ok := l.pkgs[fn.Pkg().Path()]
	if !ok {
		return nil, nil
	}
	if o := fn.Origin(); o != nil {
		fn = o
	}
	return p, p.decls[fn]
}

// isAtomicWrapper: a module-local function whose only calls are sync/atomic calls, conversions, builtins
// or other such wrappers (fatchoy.State.CAS/Get/Set/IsRunning, stats.Stats.Add, ...).
func (l *skLoader) isAtomicWrapper(fn *types.Func, depth int) bool {
	p, fd := l.declOf(fn)
	if fd == nil || fd.Body == nil || depth > 3 {
		return false
	}
	hasAtomic, other := false, false
	ast.Inspect(fd.Body, func(n ast.Node) bool {
		c, ok := n.(*ast.CallExpr)
		if !ok {
			return true
		}
		if tv, ok := p.info.Types[c.Fun]; ok && (tv.IsType() || tv.IsBuiltin()) {
			return true
		}
		switch callee := calleeOf(p, c).(type) {
		case *types.Func:
			switch {
			case callee.Pkg() != nil && callee.Pkg().Path() == "sync/atomic":
				hasAtomic = true
			case l.isAtomicWrapper(callee, depth+1):
				hasAtomic = true
			default:
				other = true
			}
		default:
			other = true
		}
		return true
	})
	return hasAtomic && !other
}

func calleeOf(p *skPkg, c *ast.CallExpr) types.Object {
	switch f := c.Fun.(type) {
	case *ast.Ident:
		return p.info.Uses[f]
	case *ast.SelectorExpr:
		if s, ok := p.info.Selections[f]; ok {
			return s.Obj()
		}
		return p.info.Uses[f.Sel] // package-qualified
	case *ast.ParenExpr:
		return calleeOf(p, &ast.CallExpr{Fun: f.X})
	}
	return nil
}

// ---- the walk ------------------------------------------------------------------------------------

type skWalker struct {
	l    *skLoader
	p    *skPkg
	self string // import path of the file's package
}

func (w *skWalker) src(n ast.Node) string {
	var sb strings.Builder
	printer.Fprint(&sb, w.p.fset, n)
	return strings.Join(strings.Fields(sb.String()), " ")
}

type skItem struct {
	text string
	kids []*skItem
	keep bool // a sync-relevant op (or contains one)
}

func (it *skItem) add(k *skItem) { it.kids = append(it.kids, k) }

func (it *skItem) render(sb *strings.Builder, depth int) {
	fmt.Fprintf(sb, "%s%s\n", strings.Repeat("  ", depth), it.text)
	for _, k := range it.kids {
		k.render(sb, depth+1)
	}
}

// classify a call expression: ("lock"|"wg"|"once"|"cond"|"atomic"|"io"|"call"|"close"|"panic"|"", text)
func (w *skWalker) classify(c *ast.CallExpr) (string, string) {
	if id, ok := c.Fun.(*ast.Ident); ok {
		if obj, isB := w.p.info.Uses[id].(*types.Builtin); isB || (w.p.info.Uses[id] == nil && (id.Name == "close" || id.Name == "panic")) {
			name := id.Name
			if obj != nil {
				name = obj.Name()
			}
			switch name {
			case "close":
				return "close", w.src(c.Args[0])
			case "panic":
				return "panic", ""
			}
			return "", ""
		}
	}
	obj := calleeOf(w.p, c)
	fn, _ := obj.(*types.Func)
	text := w.src(c)
	if fn != nil && fn.Pkg() != nil {
		path := fn.Pkg().Path()
		recv := ""
		if sig, ok := fn.Type().(*types.Signature); ok && sig.Recv() != nil {
			t := sig.Recv().Type()
			if pt, ok := t.(*types.Pointer); ok {
				t = pt.Elem()
			}
			if nt, ok := t.(*types.Named); ok {
				recv = nt.Obj().Name()
			}
		}
		switch {
		case path == "sync" && (recv == "Mutex" || recv == "RWMutex"):
			return "lock", text
		case path == "sync" && recv == "WaitGroup":
			return "wg", text
		case path == "sync" && recv == "Once":
			return "once", text
		case path == "sync" && recv == "Cond":
			return "cond", text
		case path == "sync" && recv == "": // sync.Locker interface etc.
			return "lock", text
		case path == "sync/atomic":
			return "atomic", text
		case path == "net" || path == "bufio":
			return "io", text
		case w.l.isAtomicWrapper(fn, 0):
			return "atomic", text
		case path == w.self:
			return "call", text
		case w.l.module != "" && strings.HasPrefix(path, w.l.module) && !strings.HasSuffix(path, "/log"):
			return "xcall", text // another package of the module (codec, packet, ...): may block on I/O
		}
		return "", ""
	}
	// no type information: fall back on unambiguous method names
	if sel, ok := c.Fun.(*ast.SelectorExpr); ok {
		switch sel.Sel.Name {
		case "Lock", "Unlock", "RLock", "RUnlock":
			return "lock", text
		}
	}
	return "", ""
}

// exprOps lists the ops inside an expression in evaluation (source) order.
func (w *skWalker) exprOps(parent *skItem, e ast.Node, prefix string) {
	if e == nil {
		return
	}
	ast.Inspect(e, func(n ast.Node) bool {
		switch x := n.(type) {
		case *ast.FuncLit:
			it := &skItem{text: prefix + "func"}
			w.block(it, x.Body)
			parent.add(it)
			return false
		case *ast.UnaryExpr:
			if x.Op == token.ARROW {
				w.exprOps(parent, x.X, prefix)
				parent.add(&skItem{text: prefix + "recv " + w.src(x.X), keep: true})
				return false
			}
		case *ast.CallExpr:
			// arguments first
			for _, a := range x.Args {
				w.exprOps(parent, a, prefix)
			}
			if fl, ok := x.Fun.(*ast.FuncLit); ok {
				it := &skItem{text: prefix + "func"}
				w.block(it, fl.Body)
				parent.add(it)
				return false
			}
			w.exprOps(parent, x.Fun, prefix)
			if kind, text := w.classify(x); kind != "" {
				parent.add(&skItem{text: strings.TrimSpace(prefix + kind + " " + text), keep: true})
			}
			return false
		}
		return true
	})
}

func (w *skWalker) block(parent *skItem, b *ast.BlockStmt) {
	if b == nil {
		return
	}
	for _, s := range b.List {
		w.stmt(parent, s)
	}
}

func (w *skWalker) commText(s ast.Stmt) string {
	switch c := s.(type) {
	case nil:
		return "default"
	case *ast.SendStmt:
		return "case send " + w.src(c.Chan)
	case *ast.ExprStmt:
		if u, ok := c.X.(*ast.UnaryExpr); ok && u.Op == token.ARROW {
			return "case recv " + w.src(u.X)
		}
	case *ast.AssignStmt:
		if len(c.Rhs) == 1 {
			if u, ok := c.Rhs[0].(*ast.UnaryExpr); ok && u.Op == token.ARROW {
				return "case recv " + w.src(u.X)
			}
		}
	}
	return "case " + w.src(s)
}

func (w *skWalker) stmt(parent *skItem, s ast.Stmt) {
	switch x := s.(type) {
	case nil:
	case *ast.BlockStmt:
		w.block(parent, x)
	case *ast.SendStmt:
		w.exprOps(parent, x.Value, "")
		parent.add(&skItem{text: "send " + w.src(x.Chan), keep: true})
	case *ast.GoStmt:
		if fl, ok := x.Call.Fun.(*ast.FuncLit); ok {
			it := &skItem{text: "go func", keep: true}
			w.block(it, fl.Body)
			parent.add(it)
		} else {
			parent.add(&skItem{text: "go " + w.src(x.Call), keep: true})
		}
	case *ast.DeferStmt:
		if fl, ok := x.Call.Fun.(*ast.FuncLit); ok {
			it := &skItem{text: "defer func"}
			w.block(it, fl.Body)
			parent.add(it)
		} else {
			w.exprOps(parent, x.Call, "defer ")
		}
	case *ast.SelectStmt:
		it := &skItem{text: "select", keep: true}
		for _, cc := range x.Body.List {
			c := cc.(*ast.CommClause)
			ci := &skItem{text: w.commText(c.Comm), keep: true}
			for _, b := range c.Body {
				w.stmt(ci, b)
			}
			it.add(ci)
		}
		parent.add(it)
	case *ast.ForStmt:
		hdr := "for"
		if x.Init != nil || x.Cond != nil || x.Post != nil {
			hdr = "for " + w.src(x.Init) + "; " + w.src(x.Cond) + "; " + w.src(x.Post)
			if x.Init == nil && x.Post == nil {
				hdr = "for " + w.src(x.Cond)
			}
		}
		it := &skItem{text: hdr}
		w.stmt(it, x.Init)
		w.exprOps(it, x.Cond, "")
		w.block(it, x.Body)
		w.stmt(it, x.Post)
		parent.add(it)
	case *ast.RangeStmt:
		it := &skItem{text: "for range " + w.src(x.X)}
		if tv, ok := w.p.info.Types[x.X]; ok && tv.Type != nil {
			if _, isChan := tv.Type.Underlying().(*types.Chan); isChan {
				it.text = "for range-recv " + w.src(x.X)
				it.keep = true
			}
		}
		w.exprOps(it, x.X, "")
		w.block(it, x.Body)
		parent.add(it)
	case *ast.IfStmt:
		w.stmt(parent, x.Init)
		w.exprOps(parent, x.Cond, "")
		it := &skItem{text: "if " + w.src(x.Cond)}
		w.block(it, x.Body)
		parent.add(it)
		if x.Else != nil {
			el := &skItem{text: "else"}
			w.stmt(el, x.Else)
			parent.add(el)
		}
	case *ast.SwitchStmt:
		w.stmt(parent, x.Init)
		w.exprOps(parent, x.Tag, "")
		it := &skItem{text: "switch " + w.src(x.Tag)}
		for _, cc := range x.Body.List {
			c := cc.(*ast.CaseClause)
			txt := "default"
			if len(c.List) > 0 {
				parts := make([]string, len(c.List))
				for i, e := range c.List {
					parts[i] = w.src(e)
				}
				txt = "case " + strings.Join(parts, ", ")
			}
			ci := &skItem{text: txt}
			for _, e := range c.List {
				w.exprOps(ci, e, "")
			}
			for _, b := range c.Body {
				w.stmt(ci, b)
			}
			it.add(ci)
		}
		parent.add(it)
	case *ast.TypeSwitchStmt:
		it := &skItem{text: "typeswitch"}
		for _, cc := range x.Body.List {
			c := cc.(*ast.CaseClause)
			ci := &skItem{text: "case"}
			for _, b := range c.Body {
				w.stmt(ci, b)
			}
			it.add(ci)
		}
		parent.add(it)
	case *ast.LabeledStmt:
		w.stmt(parent, x.Stmt)
	case *ast.ReturnStmt:
		for _, r := range x.Results {
			w.exprOps(parent, r, "")
		}
		parent.add(&skItem{text: "return"})
	case *ast.BranchStmt:
		parent.add(&skItem{text: x.Tok.String()})
	case *ast.ExprStmt:
		w.exprOps(parent, x.X, "")
	case *ast.AssignStmt:
		for _, r := range x.Rhs {
			w.exprOps(parent, r, "")
		}
		for i, lh := range x.Lhs {
			w.exprOps(parent, lh, "")
			// a channel variable/field is re-pointed (e.g. `t.outbound = nil`): later channel ops see another channel
			if tv, ok := w.p.info.Types[lh]; ok && tv.Type != nil && x.Tok == token.ASSIGN && len(x.Lhs) == len(x.Rhs) {
				if _, isChan := tv.Type.Underlying().(*types.Chan); isChan {
					parent.add(&skItem{text: "chan-assign " + w.src(lh) + " = " + w.src(x.Rhs[i]), keep: true})
				}
			}
		}
	case *ast.DeclStmt:
		w.exprOps(parent, x.Decl, "")
	case *ast.IncDecStmt:
		w.exprOps(parent, x.X, "")
	}
}

// An item is retained when it is a real op (keep), a control transfer (return/break/continue/goto/panic)
// or has a retained descendant; a function without any real op is rendered as its header only.
func isFlow(it *skItem) bool {
	switch it.text {
	case "return", "break", "continue", "goto", "fallthrough", "panic":
		return true
	}
	return false
}

func hasOp(it *skItem) bool {
	if it.keep {
		return true
	}
	for _, k := range it.kids {
		if hasOp(k) {
			return true
		}
	}
	return false
}

func retained(it *skItem) bool {
	if it.keep || isFlow(it) {
		return true
	}
	for _, k := range it.kids {
		if retained(k) {
			return true
		}
	}
	return false
}

func filterItems(it *skItem) {
	var ks []*skItem
	for _, k := range it.kids {
		if retained(k) {
			filterItems(k)
			ks = append(ks, k)
		}
	}
	it.kids = ks
}

func skeletonOf(repo, relFile string) (string, error) {
	l := skLoaderFor(repo)
	rel := filepath.ToSlash(filepath.Dir(relFile))
	path := l.module
	if rel != "." && rel != "" {
		path = l.module + "/" + rel
	}
	p, err := l.load(path)
	if err != nil {
		return "", err
	}
	f, ok := p.files[filepath.Base(relFile)]
	if !ok {
		return "", fmt.Errorf("%s: no such file in package %s (build tag verif)", relFile, path)
	}
	w := &skWalker{l: l, p: p, self: path}
	var sb strings.Builder
	fmt.Fprintf(&sb, "# sync-op skeleton of %s (generated by harness/cmd/extract; compared with expected/skeletons/%s)\n", filepath.ToSlash(relFile), skeletonName(relFile))
	var decls []*ast.FuncDecl
	for _, d := range f.Decls {
		if fd, ok := d.(*ast.FuncDecl); ok {
			decls = append(decls, fd)
		}
	}
	sort.SliceStable(decls, func(i, j int) bool { return decls[i].Pos() < decls[j].Pos() })
	for _, fd := range decls {
		name := fd.Name.Name
		if fd.Recv != nil && len(fd.Recv.List) == 1 {
			name = "(" + w.src(fd.Recv.List[0].Type) + ") " + name
		}
		root := &skItem{text: "func " + name, keep: true}
		// the body is walked and printed in its alpha-normalised form (`normalise`, c07.go): every operand prints
		// the receiver as _r, the parameters as _p0, _p1, … by position and the locals as _v0, _v1, … by order of
		// declaration among the locals this function's skeleton mentions (`renumberDecl`, c11.go); fields, methods,
		// functions, constants and packages keep their names. The ops are classified by go/types objects, which hang
		// on the identifier nodes, not on their names, so the rewrite changes the operands' spelling only.
		restore := (&Pkg{Fset: p.fset, Info: p.info}).normalise(fd)
		w.block(root, fd.Body)
		restore()
		if hasOp(&skItem{kids: root.kids}) {
			filterItems(root)
		} else {
			root.kids = nil
		}
		var fb strings.Builder
		root.render(&fb, 0)
		sb.WriteString(renumberDecl(fb.String()))
	}
	return sb.String(), nil
}
