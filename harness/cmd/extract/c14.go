package main

import (
	"go/ast"
	"go/constant"
	"strings"
)

func init() { extractors["C14"] = extractC14 }

// collections/trie/hashtrie.go: the wildcard rune, the rune Filter masks with, and whether the
// membership walk of Remove (getTailCharNode) is exact or wildcard-aware.
func extractC14(repo string, o *Out) {
	p, err := load(repo, "collections/trie")
	if err != nil {
		o.problem("load: %v", err)
		return
	}
	o.nat("wildCard", p.ConstU(o, "WildCardStar"), "hashtrie.go const WildCardStar")

	mask := uint64(0)
	if fd := p.Func("HashTrie", "Filter"); fd == nil {
		o.problem("method HashTrie.Filter not found")
	} else if calls := p.Calls(fd, "strings.Repeat"); len(calls) != 1 || len(calls[0].Args) != 2 {
		o.problem("Filter: expected exactly one strings.Repeat(mask, n)")
	} else if v, ok := p.ConstOf(calls[0].Args[0]); !ok || v.Kind() != constant.String {
		o.problem("Filter: the mask is not a constant string")
	} else if rs := []rune(constant.StringVal(v)); len(rs) != 1 {
		o.problem("Filter: the mask %q is not a single rune", constant.StringVal(v))
	} else {
		mask = uint64(rs[0])
	}
	o.nat("maskRune", mask, "first argument of strings.Repeat in HashTrie.Filter")

	exact := false
	if fd := p.Func("HashTrie", "getTailCharNode"); fd == nil {
		o.problem("method HashTrie.getTailCharNode not found")
	} else {
		wild, idx := len(p.Calls(fd, "node.contains")), 0
		ast.Inspect(fd.Body, func(n ast.Node) bool {
			if ie, ok := n.(*ast.IndexExpr); ok && strings.ReplaceAll(p.Src(ie), " ", "") == "node.children[ch]" {
				idx++
			}
			return true
		})
		switch {
		case wild == 1 && idx == 0:
			exact = false
		case wild == 0 && idx == 1:
			exact = true
		default:
			o.problem("getTailCharNode: expected exactly one of node.contains(ch) / node.children[ch] (found %d / %d)", wild, idx)
		}
	}
	o.bool("tailWalkExact", exact, "getTailCharNode (membership test of Remove) walks node.children[ch] (exact) rather than node.contains(ch) (wildcard-aware)")
}
