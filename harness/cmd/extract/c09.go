package main

import (
	"go/ast"
	"go/constant"
	"go/token"
	"strings"
)

func init() { extractors["C09"] = extractC09 }

// lockedWhole reports whether the body of fd starts with `<mu>.Lock()` immediately followed by
// `defer <mu>.Unlock()` (so that everything after it runs under the mutex).
func lockedWhole(p *Pkg, fd *ast.FuncDecl, mu string) bool {
	if fd == nil || fd.Body == nil || len(fd.Body.List) < 2 {
		return false
	}
	es, ok := fd.Body.List[0].(*ast.ExprStmt)
	if !ok || p.Src(es.X) != mu+".Lock()" {
		return false
	}
	ds, ok := fd.Body.List[1].(*ast.DeferStmt)
	return ok && p.Src(ds.Call) == mu+".Unlock()"
}

func unparen(e ast.Expr) ast.Expr {
	for {
		pe, ok := e.(*ast.ParenExpr)
		if !ok {
			return e
		}
		e = pe.X
	}
}

// localInit finds `var name = <expr>` or `name := <expr>` inside a function body.
func localInit(fd *ast.FuncDecl, name string) ast.Expr {
	var found ast.Expr
	ast.Inspect(fd.Body, func(n ast.Node) bool {
		switch x := n.(type) {
		case *ast.ValueSpec:
			for i, id := range x.Names {
				if id.Name == name && i < len(x.Values) {
					found = x.Values[i]
				}
			}
		case *ast.AssignStmt:
			if x.Tok == token.DEFINE {
				for i, l := range x.Lhs {
					if id, ok := l.(*ast.Ident); ok && id.Name == name && i < len(x.Rhs) {
						found = x.Rhs[i]
					}
				}
			}
		}
		return true
	})
	return found
}

// cmpConst finds the comparison `<lhs> <op> C` in fd and evaluates C.
func cmpConst(p *Pkg, o *Out, fd *ast.FuncDecl, lhs string, op token.Token) uint64 {
	return cmpConstAs(p, o, fd, lhs, lhs, op)
}

// localFrom finds the local variable of fd that is declared with the initialiser `init` (`var x = <init>` or
// `x := <init>`, text compared after white space is removed) and returns the name it currently prints as, "" when there is none or
// more than one. With fd alpha-normalised (`normalise`, c07.go) the name is the placeholder of that declaration, so
// a comparison against it identifies the variable, whatever it is called in the source.
func localFrom(p *Pkg, fd *ast.FuncDecl, init string) string {
	var names []string
	same := func(e ast.Expr) bool { return strings.Join(strings.Fields(p.Src(e)), "") == init }
	ast.Inspect(fd.Body, func(n ast.Node) bool {
		switch x := n.(type) {
		case *ast.ValueSpec:
			for i, id := range x.Names {
				if i < len(x.Values) && len(x.Names) == len(x.Values) && same(x.Values[i]) {
					names = append(names, id.Name)
				}
			}
		case *ast.AssignStmt:
			if x.Tok == token.DEFINE && len(x.Lhs) == len(x.Rhs) {
				for i, l := range x.Lhs {
					if id, ok := l.(*ast.Ident); ok && same(x.Rhs[i]) {
						names = append(names, id.Name)
					}
				}
			}
		}
		return true
	})
	if len(names) != 1 {
		return ""
	}
	return names[0]
}

// cmpConstAs is cmpConst with the name the left-hand side has in the messages (and had in the source the model was
// written from) given separately from the text it is matched by.
func cmpConstAs(p *Pkg, o *Out, fd *ast.FuncDecl, lhs, show string, op token.Token) uint64 {
	var vals []uint64
	ast.Inspect(fd.Body, func(n ast.Node) bool {
		if b, ok := n.(*ast.BinaryExpr); ok && b.Op == op && p.Src(b.X) == lhs {
			if v, ok := p.ConstOf(b.Y); ok {
				u, _ := constant.Uint64Val(constant.ToInt(v))
				vals = append(vals, u)
			}
		}
		return true
	})
	if len(vals) == 0 {
		o.problem("%s: no comparison `%s %s <constant>`", fd.Name.Name, show, op)
		return 0
	}
	for _, v := range vals[1:] {
		if v != vals[0] {
			o.problem("%s: comparisons `%s %s <constant>` disagree", fd.Name.Name, show, op)
		}
	}
	return vals[0]
}

// x/uuid/snowflake.go: declared widths, the limits the code compares against, the mask applied to
// the machine id, and the shift of every operand of the `|` expression that builds the id.
func extractC09(repo string, o *Out) {
	p, err := load(repo, "x/uuid")
	if err != nil {
		o.problem("load: %v", err)
		return
	}
	o.nat("sequenceBits", p.ConstU(o, "SequenceBits"), "snowflake.go const SequenceBits")
	o.nat("machineIDBits", p.ConstU(o, "MachineIDBits"), "snowflake.go const MachineIDBits")
	o.nat("timeUnitBits", p.ConstU(o, "TimeUnitBits"), "snowflake.go const TimeUnitBits")
	o.int("timeUnitNanos", p.ConstI(o, "TimeUnit"), "snowflake.go const TimeUnit (ns per time unit)")
	o.int("customEpochNanos", p.ConstI(o, "CustomEpoch"), "snowflake.go const CustomEpoch (ns)")

	translateC09(p, o) // translate.go: the id expression of Next and the machine-id expression of NewSnowflake, before any renaming
	var maxSeq, maxTime, maxBack, mask uint64
	shift := map[string]uint64{}
	seqUnshifted := false
	// Next and NewSnowflake are read in their alpha-normalised form (`normalise`, c07.go: receiver _r, parameters
	// _p0, …, every local a placeholder of its declaration), and the two locals that matter are found by what they
	// are, not by what they are called: the time stamp is the local initialised with `currentTimeUnit()`, the id is
	// what is assigned to the receiver's lastID. Fields, functions and constants are matched by their own names.
	next := p.Func("Snowflake", "Next")
	if next == nil || next.Body == nil {
		o.problem("method Snowflake.Next not found")
		next = nil
	} else {
		defer p.normalise(next)()
		ts := localFrom(p, next, "currentTimeUnit()")
		if ts == "" {
			o.problem("Snowflake.Next: no single local initialised with currentTimeUnit() (the time stamp `currentTs`)")
			ts = "?"
		}
		maxSeq = cmpConstAs(p, o, next, "_r.seq", "sf.seq", token.GTR)
		maxTime = cmpConstAs(p, o, next, ts, "currentTs", token.GTR)
		maxBack = cmpConstAs(p, o, next, "_r.backwardsCount", "sf.backwardsCount", token.GEQ)
		// var uuid = backwardsMask | (currentTs << TimestampShift) | (sf.machineID << SequenceBits) | sf.seq
		// … sf.lastID = uuid
		var e ast.Expr
		nLast := 0
		ast.Inspect(next.Body, func(n ast.Node) bool {
			if as, ok := n.(*ast.AssignStmt); ok && as.Tok == token.ASSIGN && len(as.Lhs) == len(as.Rhs) {
				for i, l := range as.Lhs {
					if p.Src(l) == "_r.lastID" {
						nLast++
						e = unparen(as.Rhs[i])
					}
				}
			}
			return true
		})
		if nLast != 1 {
			o.problem("Snowflake.Next: expected exactly one assignment to sf.lastID (%d found)", nLast)
			e = nil
		}
		if id, ok := e.(*ast.Ident); ok {
			e = localInit(next, id.Name)
		}
		if e == nil {
			o.problem("Snowflake.Next: definition of `uuid` not found")
		}
		var operands []ast.Expr
		var flat func(e ast.Expr)
		flat = func(e ast.Expr) {
			e = unparen(e)
			if b, ok := e.(*ast.BinaryExpr); ok && b.Op == token.OR {
				flat(b.X)
				flat(b.Y)
				return
			}
			operands = append(operands, e)
		}
		if e != nil {
			flat(e)
		}
		if len(operands) != 4 {
			o.problem("Snowflake.Next: the id is not an OR of four operands (%d found)", len(operands))
		}
		show := map[string]string{"_r.backwardsCount": "sf.backwardsCount", ts: "currentTs", "_r.machineID": "sf.machineID", "_r.seq": "sf.seq"}
		for _, op := range operands {
			if id, ok := op.(*ast.Ident); ok && id.Name != ts {
				if d := localInit(next, id.Name); d != nil {
					op = unparen(d)
				}
			}
			name, sh := p.Src(op), uint64(0)
			if b, ok := op.(*ast.BinaryExpr); ok && b.Op == token.SHL {
				name = p.Src(b.X)
				if v, ok := p.ConstOf(b.Y); ok {
					sh, _ = constant.Uint64Val(constant.ToInt(v))
				} else {
					o.problem("Snowflake.Next: shift of %s is not a constant", name)
				}
			} else if name == "_r.seq" {
				seqUnshifted = true
			}
			if s, ok := show[name]; ok {
				name = s
			}
			if _, dup := shift[name]; dup {
				o.problem("Snowflake.Next: operand %s occurs twice in the id", name)
			}
			shift[name] = sh
		}
		for _, f := range []string{"sf.backwardsCount", "currentTs", "sf.machineID", "sf.seq"} {
			if _, ok := shift[f]; !ok {
				o.problem("Snowflake.Next: operand %s not found in the id expression", f)
			}
		}
	}
	if nw := p.Func("", "NewSnowflake"); nw == nil {
		o.problem("func NewSnowflake not found")
	} else {
		restore := p.normalise(nw)
		n := 0
		ast.Inspect(nw.Body, func(x ast.Node) bool {
			if b, ok := x.(*ast.BinaryExpr); ok && b.Op == token.AND && p.Src(b.X) == "int64(_p0)" {
				if v, ok := p.ConstOf(b.Y); ok {
					mask, _ = constant.Uint64Val(constant.ToInt(v))
					n++
				}
			}
			return true
		})
		if n != 1 {
			o.problem("NewSnowflake: expected exactly one `int64(machineId) & <constant>`")
		}
		if s, bits, ok := p.IntType(nw.Type.Params.List[0].Type); !ok || s || bits != 16 {
			o.problem("NewSnowflake: the machine id parameter is not a uint16")
		}
		restore()
	}
	o.nat("maxSeq", maxSeq, "snowflake.go Next: constant in `sf.seq > C`")
	o.nat("maxTime", maxTime, "snowflake.go Next: constant in `currentTs > C`")
	o.nat("maxBack", maxBack, "snowflake.go Next: constant in `sf.backwardsCount >= C`")
	o.nat("midMask", mask, "snowflake.go NewSnowflake: constant in `int64(machineId) & C`")
	o.nat("shiftBc", shift["sf.backwardsCount"], "snowflake.go Next: shift of sf.backwardsCount in the id")
	o.nat("shiftTs", shift["currentTs"], "snowflake.go Next: shift of currentTs in the id")
	o.nat("shiftMid", shift["sf.machineID"], "snowflake.go Next: shift of sf.machineID in the id")
	o.bool("seqUnshifted", seqUnshifted, "snowflake.go Next: sf.seq enters the id without a shift")
	o.bool("nextLocked", lockedWhole(p, next, "_r.guard"), "snowflake.go Next: sf.guard.Lock(); defer sf.guard.Unlock() first")
}

// translateC09 emits `Tr.uuid` (what Next assigns to sf.lastID, as a function of the fields and locals it reads, locals
// with a single definition inlined) and `Tr.machineID` (what NewSnowflake stores in the machineID field).
func translateC09(p *Pkg, o *Out) {
	tr := newTr(p, o, 64)
	defer tr.Emit("Tr")
	next := p.Func("Snowflake", "Next")
	var idExpr ast.Expr
	n := 0
	if next != nil && next.Body != nil {
		ast.Inspect(next.Body, func(x ast.Node) bool {
			if as, ok := x.(*ast.AssignStmt); ok && as.Tok == token.ASSIGN && len(as.Lhs) == len(as.Rhs) {
				for i, l := range as.Lhs {
					if sel, ok := l.(*ast.SelectorExpr); ok && sel.Sel.Name == "lastID" {
						idExpr = as.Rhs[i]
						n++
					}
				}
			}
			return true
		})
	}
	if n != 1 {
		idExpr = nil
	}
	tr.Expr("uuid", next, idExpr, "Snowflake.Next: the value assigned to sf.lastID")
	nw := p.Func("", "NewSnowflake")
	var midExpr ast.Expr
	n = 0
	if nw != nil && nw.Body != nil {
		ast.Inspect(nw.Body, func(x ast.Node) bool {
			if kv, ok := x.(*ast.KeyValueExpr); ok {
				if id, ok := kv.Key.(*ast.Ident); ok && id.Name == "machineID" {
					midExpr = kv.Value
					n++
				}
			}
			return true
		})
	}
	if n != 1 {
		midExpr = nil
	}
	tr.Expr("machineID", nw, midExpr, "NewSnowflake: the value of the machineID field")
}
