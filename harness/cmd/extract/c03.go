package main

func init() {
	extractors["C03"] = extractConn("C03")
	extractors["C04"] = extractConn("C04")
}

// connSkeletonFiles: the files whose sync-op skeletons the LTS of Model/Conn.lean was built from.
var connSkeletonFiles = []string{"qnet/tcp_conn.go", "qnet/stream_conn.go", "qnet/tcp_server.go", "state.go"}

// C03/C04: the state constants of state.go (the LTS uses the four that TcpConn goes through) and the
// sync-op skeletons of the connection code.
func extractConn(id string) extractor {
	return func(repo string, o *Out) {
		p, err := load(repo, ".")
		if err != nil {
			o.problem("load: %v", err)
			return
		}
		o.nat("stateInit", p.ConstU(o, "StateInit"), "state.go const StateInit")
		o.nat("stateRunning", p.ConstU(o, "StateRunning"), "state.go const StateRunning")
		o.nat("stateShutdown", p.ConstU(o, "StateShutdown"), "state.go const StateShutdown")
		o.nat("stateTerminated", p.ConstU(o, "StateTerminated"), "state.go const StateTerminated")
		for _, f := range connSkeletonFiles {
			if err := writeSkeleton(repo, f, skeletonDir()); err != nil {
				o.problem("skeleton of %s: %v", f, err)
			}
		}
	}
}
