package main

import (
	"go/ast"
	"go/constant"
)

func init() {
	extractors["C03"] = extractConn("C03")
	extractors["C04"] = extractConn("C04")
}

// connSkeletonFiles: the files whose sync-op skeletons the LTS of Model/Conn.lean was built from.
var connSkeletonFiles = []string{"qnet/tcp_conn.go", "qnet/stream_conn.go", "qnet/tcp_server.go", "state.go"}

// C03/C04: the state constants of state.go (the LTS uses the four that TcpConn goes through) and the
// sync-op skeletons of the connection code.
func extractConn(id string) extractor {
	return func(repo string, o *Out) {
		p, err := load(repo, ".")
		if err != nil {
			o.problem("load: %v", err)
			return
		}
		o.nat("stateInit", p.ConstU(o, "StateInit"), "state.go const StateInit")
		o.nat("stateRunning", p.ConstU(o, "StateRunning"), "state.go const StateRunning")
		o.nat("stateShutdown", p.ConstU(o, "StateShutdown"), "state.go const StateShutdown")
		o.nat("stateTerminated", p.ConstU(o, "StateTerminated"), "state.go const StateTerminated")
		if id == "C04" {
			serverChanCaps(repo, o)
		}
		if id == "C03" {
			startupFacts(repo, o)
		}
		for _, f := range connSkeletonFiles {
			if err := writeSkeleton(repo, f, skeletonDir()); err != nil {
				o.problem("skeleton of %s: %v", f, err)
			}
		}
	}
}

// serverChanCaps: the capacities of the hand-off queue and of the shared error channel, from the composite literal
// of NewTcpServer (`backlog: make(chan fatchoy.Endpoint, 128)`, `errors: make(chan error, 16)`).
func serverChanCaps(repo string, o *Out) {
	q, err := load(repo, "qnet")
	if err != nil {
		o.problem("load qnet: %v", err)
		return
	}
	fd := q.Func("", "NewTcpServer")
	caps := map[string]uint64{}
	if fd == nil {
		o.problem("func NewTcpServer not found")
	} else {
		ast.Inspect(fd, func(n ast.Node) bool {
			kv, ok := n.(*ast.KeyValueExpr)
			if !ok {
				return true
			}
			key, ok := kv.Key.(*ast.Ident)
			call, ok2 := kv.Value.(*ast.CallExpr)
			if !ok || !ok2 || q.Src(call.Fun) != "make" || len(call.Args) < 1 {
				return true
			}
			if _, isChan := call.Args[0].(*ast.ChanType); !isChan {
				return true
			}
			c := uint64(0) // unbuffered
			if len(call.Args) >= 2 {
				v, ok := q.ConstOf(call.Args[1])
				if !ok {
					o.problem("NewTcpServer: capacity of %s is not a constant", key.Name)
					return true
				}
				c, _ = constant.Uint64Val(constant.ToInt(v))
			}
			caps[key.Name] = c
			return true
		})
	}
	for _, k := range []string{"backlog", "errors"} {
		if _, ok := caps[k]; !ok {
			o.problem("NewTcpServer: no `%s: make(chan ..., N)` in the composite literal", k)
		}
	}
	o.nat("serverBacklogCap", caps["backlog"], "qnet/tcp_server.go NewTcpServer: capacity of the hand-off queue `backlog`")
	o.nat("serverErrorsCap", caps["errors"], "qnet/tcp_server.go NewTcpServer: capacity of the shared error channel `errors`")
}
