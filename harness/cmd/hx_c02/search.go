// search.go: the legs of hx_c02 that aim at defects invisible to the ordinary generators (DESIGN.md 3.4).
// Cheap legs run in every tier (a change that keeps every regenerated fact intact never triggers the
// failing-input search, so the quick tier itself has to reach these inputs); the 10-60 s variants run
// from the thorough tier on; the largest sizes only with -search.
//
// The judge is runCase's: no panic, nothing awaited beyond the maximum, out-of-range lengths refused,
// damaged frames not delivered:
//
//	inflate     compressed-flag frames (checksum re-sealed) whose zlib body inflates to 1 MiB .. 64 MiB + 1 and is
//	            damaged in its tail (trailer bits, last deflate bytes, cut short), judged damaged by compress/zlib itself
//	bigflip     single-bit damage at and around offsets 512, 4 KiB, 32 KiB, 64 KiB, 1 MiB and the end of frames of
//	            600 B .. 8 MiB
//	extremes    40-100 frames inflating 1000:1 (all-zero megabytes) / incompressible read first on the same codec
//	            instance, then valid and damaged compressed frames
//	period      a valid frame, then exactly 2^16-1, 2^16, 2^17, 2^18, 2^20 other valid frames on one codec instance,
//	            then the damaged twin of the first frame
//	unaligned   header and payload handed to UnmarshalPacket at odd addresses: every bit flip of small frames,
//	            reference-count and flag mismatches
//	backpressure a live TcpConn whose inbound channel holds 1-2 packets and whose consumer is stalled for 30-60 ms
//	            (the reader pump sits in its channel send) receives valid frames followed by a damaged one: one
//	            error, nothing delivered from the damaged frame on, connection closed
//
// Second round (third red-team wave, body-only changes keyed on what the generators did not vary): legs2.go —
// connstats (TcpConn built with every counter set / queue size, one child process per connection), zlibshapes (every
// shape of zlib stream at every inflated size 0..256 and exact ratios inflated = k x compressed), forgedcrc (frames
// whose CRC-32 is 0 / ffffffff / 1: flips, cuts, replaced checksum fields). All in the normal tiers.
package main

import (
	"bytes"
	"compress/zlib"
	"fmt"
	"io"
	"runtime/debug"
	"time"

	"verifharness/hxcodec"
	"verifharness/hxlib"
)

// Pre is a batch of frames read (and judged for "no panic" only) before the case's own stream.
type Pre struct {
	Kind string `json:"kind"`           // zeros: compressed frames of Size zero bytes | noise: compressed-flag frames of Size incompressible bytes | small: small plain frames | data: the frames of Data
	N    int    `json:"n,omitempty"`    // how many
	Size int    `json:"size,omitempty"` // inflated size
	Seed uint64 `json:"seed,omitempty"`
	Data string `json:"data,omitempty"` // SPEC
}

func zlibOf(b []byte) []byte {
	var buf bytes.Buffer
	w := zlib.NewWriter(&buf)
	w.Write(b)
	w.Close()
	return buf.Bytes()
}

// inflates: does compress/zlib accept the whole stream?
func inflates(z []byte) bool {
	zr, err := zlib.NewReader(bytes.NewReader(z))
	if err != nil {
		return false
	}
	_, err = io.Copy(io.Discard, zr)
	return err == nil
}

func sealed(c *Case, flag uint8, body []byte) []byte {
	if c.Key != "" {
		body = hxcodec.Cryptor(c.Key).Encrypt(body)
		flag |= 2
	}
	return hxcodec.Forge(c.v(), 1, flag, 0, 9, 5, 77, body)
}

// readAfterHistory reads the Pre frames and then the case's stream, all on one codec instance.
func readAfterHistory(r *hxlib.Run, c *Case, data []byte) (o obs, ok bool) {
	enc := hxcodec.Encoder(c.v(), 0)
	dec := hxcodec.Cryptor(c.Key)
	bad := func(i int, what string, d *hxcodec.DecObs) bool {
		if d.Panic != "" {
			r.Fail("panic:"+c.Kind, fmt.Sprintf("%s: reading frame %d of the history (%s) ends in %s (%s)", c.Why, i, what, d.Kind(), d.Panic), c)
			return true
		}
		return false
	}
	n := 0
	for _, p := range c.Pre {
		R := hxlib.NewRand(p.Seed)
		var frame []byte
		switch p.Kind {
		case "zeros":
			frame = sealed(c, 1, zlibOf(make([]byte, p.Size)))
		case "data":
			frame = hxcodec.Expand(p.Data)
		}
		for i := 0; i < p.N; i++ {
			switch p.Kind {
			case "noise":
				frame = sealed(c, 1, zlibOf(hxcodec.Gen(p.Size, uint32(R.U64()>>40))))
			case "small":
				frame = hxcodec.Forge(c.v(), uint8(R.Intn(3)), uint8(R.Pick(0, 0x20, 0x40)), 0, uint16(n), uint32(R.U64()), uint32(R.U64()), R.Bytes(R.Pick(0, 1, R.Intn(16), R.Intn(64), R.Intn(200))))
			}
			d := hxcodec.DecodeWith(enc, dec, hxcodec.NewReader(frame, "all"), c.Split, c.UOff)
			r.Count("history:" + p.Kind + ":" + d.Kind())
			if bad(n, p.Kind, &d) {
				return o, false
			}
			n++
		}
	}
	rd := hxcodec.NewReader(data, c.Ck)
	var a0 uint64
	if !c.NoAlloc {
		a0 = totalAlloc()
	}
	d := hxcodec.DecodeWith(enc, dec, rd, c.Split, c.UOff)
	if !c.NoAlloc {
		o.Alloc = totalAlloc() - a0
	}
	_, o.Impl = hxcodec.RdLine(rd, 0, c.v(), c.Key, &d)
	o.Kind, o.Reqs, o.Pos = d.Kind(), d.Reqs, d.Pos
	return o, true
}

func legs(r *hxlib.Run) {
	level := 0 // 0 quick, 1 thorough, 2 -search
	if r.Thorough() {
		level = 1
	}
	if r.Search {
		level = 2
	}
	R := hxlib.NewRand(r.Seed ^ 0x5ea7c2) // own stream: the tiers' generators draw what they drew before
	saved := r.R
	r.R = R // validFrames draws from r.R
	defer func() { r.R = saved }()
	leg := func(name string, min int, f func()) {
		if level < min || (r.Search && r.Failed()) { // with -search one failing input is what is looked for
			return
		}
		t0 := time.Now()
		f()
		if level > 0 {
			debug.FreeOSMemory()
		}
		r.Note("leg %s: %.1fs", name, time.Since(t0).Seconds())
	}
	run := func(c Case) {
		if r.Search && r.Failed() {
			return
		}
		if c.Ck == "" {
			c.Ck = "all"
		}
		runCase(r, &c)
	}

	leg("unaligned", 0, func() {
		n := 0
		for _, f := range validFrames(r, true) {
			k := kindOf(f.v)
			for bit := 0; bit < len(f.b)*8; bit++ {
				lenBits := 16
				if f.v == 2 {
					lenBits = 24
				}
				cls := "bitflip:covered"
				if bit < lenBits {
					cls = "bitflip:length-field"
				}
				run(Case{Kind: k, Key: f.key, Data: hxcodec.SpecHex(flip(f.b, bit)), Split: true, UOff: 1 + bit%15, Expect: "error",
					Why: fmt.Sprintf("bit %d of byte %d of frame %s flipped, header and payload handed over at an odd address", bit%8, bit/8, f.name), Class: cls})
				n++
			}
		}
		for i := 0; i < []int{500, 3000, 3000}[level]; i++ {
			v := 1 + i%2
			k := kindOf(v)
			body := R.Bytes(1 + R.Intn(700))
			base := uint8(R.Intn(64)) << 2
			uo := 1 + R.Intn(15)
			run(Case{Kind: k, Data: hxcodec.SpecHex(hxcodec.Forge(v, 0, base|2, 0, 1, 2, 3, body)), Split: true, UOff: uo, Expect: "error",
				Why: "valid checksum, encrypted bit set, no decryptor, odd address", Class: "flags:undecryptable"})
			run(Case{Kind: k, Key: pickS(R, "", toyKey), Data: hxcodec.SpecHex(hxcodec.Forge(v, 0, base|1, 0, 1, 2, 3, body)), Split: true, UOff: uo, Expect: "error",
				Why: "valid checksum, compressed bit set, body is not a zlib stream, odd address", Class: "flags:not-decompressible"})
			if v == 2 {
				nref := 1 + R.Intn(255)
				pl := R.Bytes(R.Intn(4 * nref))
				run(Case{Kind: k, Data: hxcodec.SpecHex(hxcodec.Forge(2, 0, base, uint8(nref), 1, 2, 3, pl)), Split: true, UOff: uo, Expect: "error",
					Why: fmt.Sprintf("valid checksum, %d references announced, payload has %d bytes, odd address", nref, len(pl)), Class: "refcount"})
				pl = R.Bytes(4*nref + R.Pick(0, 0, 1, 5, 600))
				run(Case{Kind: k, Data: hxcodec.SpecHex(hxcodec.Forge(2, 0, base, uint8(nref), 1, 2, 3, pl)), Split: true, UOff: uo, Expect: "any",
					Why: fmt.Sprintf("forged frame with %d references and a payload of %d bytes, odd address", nref, len(pl)), Class: "forged-valid"})
			}
			n += 3
		}
		r.CountN("leg:unaligned", n)
		r.Note("leg unaligned: %d frames decoded from header/payload slices at addresses 1..15 mod 16 (every bit flip of the small frames, flag and reference-count mismatches)", n)
	})

	leg("backpressure", 0, func() {
		n := 0
		for i, cfg := range []struct {
			v, cp, good, stall int
			class              string
		}{{1, 1, 5, 40, "checksum"}, {2, 2, 6, 30, "flags:undecryptable"}, {2, 1, 3, 60, "checksum"}, {1, 2, 12, 30, "length-below-header"}, {1, 1, 1, 30, "checksum"}, {2, 1, 200, 50, "checksum"}} {
			if level == 0 && i >= 2 {
				break
			}
			var data []byte
			for k := 0; k < cfg.good; k++ {
				data = append(data, hxcodec.Forge(cfg.v, 0, 0, 0, uint16(k), 0, 3, R.Bytes(1+R.Intn(20)))...)
			}
			bad := hxcodec.Forge(cfg.v, 0, 0, 0, 99, 0, 3, []byte("damaged frame"))
			switch cfg.class {
			case "checksum":
				bad[len(bad)-2] ^= 0x10
			case "flags:undecryptable":
				bad = hxcodec.Forge(cfg.v, 0, 2, 0, 99, 0, 3, []byte("secret"))
			default:
				bad[0], bad[1], bad[2] = 0, 0, 5
			}
			data = append(append(data, bad...), R.Bytes(30)...)
			run(Case{Kind: fmt.Sprintf("conn%d", cfg.v), Data: hxcodec.SpecHex(data), Good: cfg.good, Cap: cfg.cp, Stall: cfg.stall, Class: cfg.class,
				Why: fmt.Sprintf("live V%d connection, inbound channel of %d, consumer stalled for %d ms: %d valid frames, then a damaged one (%s)", cfg.v, cfg.cp, cfg.stall, cfg.good, cfg.class)})
			n++
		}
		r.CountN("leg:backpressure", n)
		r.Note("leg backpressure: %d live connections with an inbound channel of 1-2 and a stalled consumer fed valid frames and then a damaged one", n)
	})

	leg("bigflip", 0, func() {
		n := 0
		for _, cfg := range []struct{ v, size int }{{1, 600}, {2, 600}, {1, 5000}, {2, 5000}, {1, 61000}, {2, 70000}, {2, 1<<20 + 100}, {2, 8<<20 - 20 - 1}} {
			k := kindOf(cfg.v)
			L := cfg.size
			if level == 0 && L > 70000 {
				continue
			}
			offs := []int{0, 1, 511, 512, 513, 4095, 4096, 4097, 32767, 32768, 65535, 65536, 65537, 1<<20 - 1, 1 << 20, L - 1, L - 2, R.Intn(L), R.Intn(L), R.Intn(L)}
			hs := hsOf(k)
			for _, a := range offs {
				if a < 0 || a >= L {
					continue
				}
				s1, s2 := uint32(R.U64()>>40), uint32(R.U64()>>40)
				mid := byte(R.U64())
				body := append(append(hxcodec.Gen(a, s1), mid), hxcodec.Gen(L-a-1, s2)...)
				f := hxcodec.Forge(cfg.v, 1, 0x20, 0, 3, 4, 5, body)
				spec := func(m byte) string {
					return hxcodec.Join(hxcodec.SpecHex(f[:hs]), hxcodec.SpecGen(a, s1), hxcodec.SpecHex([]byte{m}), hxcodec.SpecGen(L-a-1, s2))
				}
				if n%7 == 0 {
					run(Case{Kind: k, Data: spec(mid), Ck: "n:65536", Quiet: L > 70000, Expect: "any", Why: fmt.Sprintf("valid frame with a %d-byte body", L), Class: "valid"})
				}
				run(Case{Kind: k, Data: spec(mid ^ (1 << uint(R.Intn(8)))), Ck: pickS(R, "all", "n:4096", "n:65536"), Split: n%2 == 0, Quiet: L > 70000, Expect: "error",
					Why: fmt.Sprintf("one bit of body byte %d of a frame with a %d-byte body flipped", a, L), Class: "bitflip:covered"})
				n++
			}
		}
		r.CountN("leg:bigflip", n)
		r.Note("leg bigflip: %d single-bit flips at and around body offsets 512, 4096, 32768, 65536, 2^20 and the last bytes of frames with 600 B .. 8 MiB bodies", n)
	})

	leg("extremes", 0, func() {
		n := 0
		good := zlibOf(bytes.Repeat([]byte("ordinary body, compresses about 10:1. "), 40))
		for _, cfg := range []struct {
			kind, key, pre string
			k, size        int
		}{{"v2", "", "zeros", 64, 1 << 20}, {"v1", toyKey, "zeros", 64, 1 << 20}, {"v2", toyKey, "zeros", 100, 1 << 20}, {"v2", "", "zeros", 24, 4 << 20}, {"v2", "", "noise", 40, 1 << 20}, {"v1", "", "noise", 64, 50000}} {
			if level == 0 && n > 0 {
				break // quick: the first configuration
			}
			pre := []Pre{{Kind: cfg.pre, N: cfg.k, Size: cfg.size, Seed: R.U64()}}
			c := Case{Kind: cfg.kind, Key: cfg.key}
			hist := fmt.Sprintf("after %d frames inflating to %d %s bytes each", cfg.k, cfg.size, cfg.pre)
			run(Case{Kind: cfg.kind, Key: cfg.key, Pre: pre, Data: hxcodec.SpecHex(sealed(&c, 1, good)), Expect: "any", Class: "forged-valid", Why: hist + ": a frame with an ordinary zlib body"})
			run(Case{Kind: cfg.kind, Key: cfg.key, Pre: pre, Data: hxcodec.SpecHex(sealed(&c, 1, good[:len(good)-3])), Split: true, Expect: "error", Class: "flags:not-decompressible", Why: hist + ": valid checksum, compressed bit set, zlib stream cut short"})
			n += 2
			if level > 0 {
				run(Case{Kind: cfg.kind, Key: cfg.key, Pre: pre, Data: hxcodec.SpecHex(sealed(&c, 0, []byte("plain"))), Split: true, Expect: "any", Class: "forged-valid", Why: hist + ": a plain frame"})
				run(Case{Kind: cfg.kind, Key: cfg.key, Pre: pre, Data: hxcodec.SpecHex(sealed(&c, 1, R.Bytes(50))), Expect: "error", Class: "flags:not-decompressible", Why: hist + ": valid checksum, compressed bit set, body is not a zlib stream"})
				n += 2
			}
			debug.FreeOSMemory()
		}
		r.CountN("leg:extremes", n)
		r.Note("leg extremes: %d cases read after 24-100 frames inflating to all-zero / incompressible 1-4 MiB on the same codec instance", n)
	})

	leg("period", 0, func() {
		n, frames := 0, 0
		for _, w := range [][]int{{1<<16 - 1, 1 << 16}, {1<<16 - 1, 1 << 16, 1 << 17, 1 << 18}, {1<<16 - 1, 1 << 16, 1 << 17, 1 << 18, 1 << 20}}[level] {
			for vi, v := range []int{1, 2} {
				k := kindOf(v)
				key := []string{"", toyKey}[(vi+n)%2]
				c := Case{Kind: k, Key: key}
				body := R.Bytes(40)
				first := sealed(&c, 0x20, body)
				twin := flip(first, 8*(len(first)-1-R.Intn(30))+R.Intn(8))
				variants := []Case{
					{Data: hxcodec.SpecHex(twin), Expect: "error", Class: "bitflip:covered", Why: "a body bit of the first frame flipped"},
					{Data: hxcodec.SpecHex(first[:len(first)-1]), Expect: "error", Class: "truncated", Why: "the first frame cut by one byte"},
					{Data: hxcodec.SpecHex(sealed(&c, 1, body)), Expect: "error", Class: "flags:not-decompressible", Why: "the first frame's body under the compressed bit, checksum re-sealed"},
				}
				if w >= 1<<20 || level == 0 {
					variants = variants[:1]
				}
				for _, x := range variants {
					x.Kind, x.Key, x.Split = k, key, n%2 == 0
					x.Pre = []Pre{{Kind: "data", N: 1, Data: hxcodec.SpecHex(first)}, {Kind: "small", N: w, Seed: R.U64()}}
					x.Why = fmt.Sprintf("a valid frame, %d other valid frames on the same codec instance, then: %s", w, x.Why)
					run(x)
					n++
					frames += w
				}
			}
		}
		r.CountN("leg:period", n)
		r.Note("leg period: %d cases (%d frames read): a valid frame, exactly 2^16-1 / 2^16 / 2^17 / 2^18 / 2^20 other valid frames on one codec instance, then the damaged twin of the first", n, frames)
	})

	leg("inflate", 0, func() {
		n, judged := 0, 0
		for _, cfg := range []struct {
			kind, key string
			size      int
		}{{"v2", "", 1 << 20}, {"v2", "", 32 << 20}, {"v1", "", 32<<20 + 1}, {"v2", toyKey, 40<<20 + 7}, {"v2", "", 64<<20 + 1}} {
			if level < 2 && cfg.size > 32<<20+1 || level == 0 && cfg.size != 32<<20+1 {
				continue // thorough: up to 32 MiB + 1; quick: that size only, damage in the trailer and a cut
			}
			src := append(append(hxcodec.Gen(1000, 5), make([]byte, cfg.size-2000)...), hxcodec.Gen(1000, 6)...)
			z := zlibOf(src)
			src = nil
			c := Case{Kind: cfg.kind, Key: cfg.key}
			type dmg struct {
				why string
				b   []byte
			}
			var ds []dmg
			for _, back := range []int{1, 4, 5, 9, 200, 1100} { // trailer bytes, then the last deflate bytes (the part that inflates past every earlier megabyte)
				if back < len(z) {
					ds = append(ds, dmg{fmt.Sprintf("one bit of byte %d from the end of the zlib body flipped", back), flip(z, 8*(len(z)-back)+R.Intn(8))})
				}
			}
			for _, cut := range []int{1, 5, 64} {
				ds = append(ds, dmg{fmt.Sprintf("zlib body cut by its last %d byte(s)", cut), append([]byte{}, z[:len(z)-cut]...)})
			}
			ds = append(ds, dmg{"one bit in the middle of the zlib body flipped", flip(z, 8*(len(z)/2)+3)})
			if level == 0 {
				ds = []dmg{ds[0]}
			} else {
				run(Case{Kind: cfg.kind, Key: cfg.key, Data: hxcodec.SpecHex(sealed(&c, 1, z)), Quiet: true, Expect: "any", Class: "forged-valid",
					Why: fmt.Sprintf("forged frame whose zlib body inflates to %d bytes", cfg.size)})
			}
			for _, d := range ds {
				expect := "any"
				if !inflates(d.b) {
					expect = "error"
					judged++
				}
				run(Case{Kind: cfg.kind, Key: cfg.key, Data: hxcodec.SpecHex(sealed(&c, 1, d.b)), Split: n%2 == 0, Quiet: true, Expect: expect, Class: "flags:not-decompressible",
					Why: fmt.Sprintf("valid checksum, compressed bit set, zlib body inflating to %d bytes: %s", cfg.size, d.why)})
				n++
			}
			debug.FreeOSMemory()
		}
		r.CountN("leg:inflate", n)
		r.Note("leg inflate: %d re-sealed frames with a damaged zlib body inflating to 1 MiB .. 64 MiB + 1 (damage in the trailer / last bytes / cut / middle); %d of them are refused by compress/zlib and must be refused by the decoder", n, judged)
	})
}
