// legs2.go: second round of legs of hx_c02. They run in the NORMAL tiers (a change that edits only function
// bodies — possibly outside the anchored files — and keys its misbehaviour on something the generators do not vary
// never triggers -search). The judge is runCase's / judgeConn's: no panic, nothing awaited beyond the maximum,
// out-of-range lengths refused, damaged frames not delivered.
//
//	connstats   "whatever bytes arrive … it never panics" on the production path TcpConn.readPacket, for every way the
//	            connection can legally be BUILT: counter set nil, stats.New(0) .. stats.New(NumStat+1), outbound queue of
//	            0 / 1 / 8, inbound channel of 1 / 8, both formats, with and without a decryptor; valid frames followed by
//	            a damaged one. Each connection lives in a CHILD process (a panic in the reader goroutine is process
//	            death); the children of a run work in parallel.
//	zlibshapes  compressed-flag frames (checksum re-sealed, with and without the toy cipher) whose body is a zlib stream
//	            of every SHAPE: closed; sync-flushed 1..n times and never closed; flushed in the middle; closed after a
//	            flush; Adler-32 trailer cut by 1..5 bytes, bit-flipped, zeroed, replaced; final-block bit cleared; final
//	            block dropped with the trailer kept; trailer appended to an unterminated stream; trailing garbage; two
//	            members; preset-dictionary header; wrong method / window / header check — for EVERY inflated size 0..256
//	            (zeros, text, noise+zeros; default and Huffman-only level), tuned so that inflated == k x compressed for
//	            k = 1..8 wherever padding flushes allow, and for inflated sizes that are multiples of the 32 KiB window
//	            with inflated == k x compressed exactly. compress/zlib itself is the judge of "damaged": what it refuses
//	            must be refused.
//	forgedcrc   frames whose CRC-32 is exactly 0, 0xFFFFFFFF, 1, 0x80000000 (last four body bytes solved for): every
//	            single-bit flip, every truncation, and the checksum field replaced by 0 / all-ones / the complement /
//	            neighbours of the true value must be refused
package main

import (
	"bytes"
	"compress/flate"
	"compress/zlib"
	"encoding/binary"
	"encoding/json"
	"fmt"
	"hash/adler32"
	"os"
	"os/exec"
	"strconv"
	"strings"
	"sync"
	"time"

	"verifharness/hxcodec"
	"verifharness/hxlib"

	"qchen.fun/fatchoy/qnet"
	"qchen.fun/fatchoy/x/stats"
)

type connObs struct {
	Errs  int    `json:"errs"`
	Pkts  int    `json:"pkts"`
	First string `json:"first"`
}

func statsOf(c *Case) *stats.Stats {
	if c.Stats == "" || c.Stats == "nil" {
		return nil
	}
	n, err := strconv.Atoi(c.Stats)
	if err != nil {
		panic("bad stats " + c.Stats)
	}
	return stats.New(n)
}

func outOf(c *Case) int {
	if c.Out > 0 {
		return c.Out - 1
	}
	return 8
}

// connChild runs the connection of the case in a child process. crash != "": the child died.
func connChild(c *Case) (o connObs, crash string) {
	self, err := os.Executable()
	if err != nil {
		return o, "cannot find the harness binary: " + err.Error()
	}
	cmd := exec.Command(self)
	cmd.Env = append(os.Environ(), "HX_C02_CHILD=1")
	in, _ := json.Marshal(c)
	cmd.Stdin = bytes.NewReader(in)
	var errb bytes.Buffer
	cmd.Stderr = &errb
	out, err := cmd.Output()
	if err != nil || json.Unmarshal(out, &o) != nil {
		msg := ""
		for _, ln := range strings.Split(errb.String(), "\n") {
			if strings.HasPrefix(ln, "panic:") || strings.HasPrefix(ln, "fatal error:") {
				msg = ln
				break
			}
		}
		if msg == "" {
			msg = strings.SplitN(errb.String(), "\n", 2)[0]
		}
		return o, fmt.Sprintf("%v: %s", err, msg)
	}
	return o, ""
}

func judgeConnChild(r *hxlib.Run, c *Case, data []byte, o connObs, crash string) {
	if crash != "" {
		r.Count(c.Kind + ":crash")
		r.Fail("panic:"+c.Kind, fmt.Sprintf("%s: the process died while the connection was reading %s: %s", c.Why, hxcodec.Digest(data), crash), c)
		return
	}
	judgeConn(r, c, data, o.Errs, o.Pkts, o.First)
}

func runConnChild(r *hxlib.Run, c *Case, data []byte) {
	o, crash := connChild(c)
	judgeConnChild(r, c, data, o, crash)
}

// ---- zlib stream shapes --------------------------------------------------------------------------------

// zwrite: content through a zlib writer of the given level; mid: a Flush in the middle; flushes: Flush calls at the
// end; closed: Close at the end.
func zwrite(content []byte, level int, mid bool, flushes int, closed bool) []byte {
	var buf bytes.Buffer
	w := zwriters[level] // a compressor is ~1 MiB of tables: one per level, Reset for every stream
	if w == nil {
		var err error
		if w, err = zlib.NewWriterLevel(&buf, level); err != nil {
			panic(err)
		}
		zwriters[level] = w
	} else {
		w.Reset(&buf)
	}
	if mid && len(content) > 1 {
		w.Write(content[:len(content)/2])
		w.Flush()
		w.Write(content[len(content)/2:])
	} else {
		w.Write(content)
	}
	for i := 0; i < flushes; i++ {
		w.Flush()
	}
	if closed {
		w.Close()
	}
	return append([]byte{}, buf.Bytes()...)
}

var zwriters = map[int]*zlib.Writer{}

type zshape struct {
	name string
	b    []byte
}

func adlerOf(b []byte) []byte {
	var t [4]byte
	binary.BigEndian.PutUint32(t[:], adler32.Checksum(b))
	return t[:]
}

func cat(parts ...[]byte) []byte {
	var out []byte
	for _, p := range parts {
		out = append(out, p...)
	}
	return out
}

// shapesOf: every shape of a zlib stream carrying content. pad: extra Flush calls (they lengthen the stream by an
// empty stored block each without changing what it inflates to).
func shapesOf(content []byte, level, pad int) []zshape {
	z := zwrite(content, level, false, pad, true)
	var out []zshape
	add := func(name string, b []byte) { out = append(out, zshape{name, b}) }
	add("closed", z)
	for cut := 1; cut <= 5 && cut < len(z); cut++ {
		add(fmt.Sprintf("trailer cut by %d", cut), z[:len(z)-cut])
	}
	if len(z) >= 6 {
		n := len(z)
		add("trailer bit 0 flipped", flip(z, 8*(n-1)))
		add("trailer top bit flipped", flip(z, 8*(n-4)+7))
		add("trailer zeroed", cat(z[:n-4], []byte{0, 0, 0, 0}))
		add("trailer of the empty string", cat(z[:n-4], []byte{0, 0, 0, 1}))
		add("trailer byte-swapped", cat(z[:n-4], []byte{z[n-1], z[n-2], z[n-3], z[n-4]}))
		add("final-block bit of the first block flipped", flip(z, 8*2))
		add("trailing garbage", cat(z, []byte{0xde, 0xad, 0xbe, 0xef, 0x01}))
		add("two members", cat(z, zwrite([]byte("second member"), level, false, 0, true)))
		// preset dictionary: FDICT set, header check redone, a dictionary id inserted
		flg := (z[1] | 0x20) &^ 0x1f
		if rem := (uint16(z[0])<<8 | uint16(flg)) % 31; rem != 0 {
			flg += byte(31 - rem)
		}
		add("preset-dictionary header", cat([]byte{z[0], flg, 0x12, 0x34, 0x56, 0x78}, z[2:]))
		add("method 15", cat([]byte{z[0]&0xf0 | 0x0f}, z[1:]))
		add("window bits 15+8", cat([]byte{0x88}, z[1:]))
		add("header check off by one", cat([]byte{z[0], z[1] ^ 1}, z[2:]))
	}
	u := zwrite(content, level, false, 1+pad, false)
	add("sync-flushed, never closed", u)
	add("sync-flushed, never closed, trailer appended", cat(u, adlerOf(content)))
	if len(u) > 4 {
		add("sync-flushed, marker cut by 1", u[:len(u)-1])
	}
	add("flushed in the middle and at the end, never closed", zwrite(content, level, true, 1+pad, false))
	fc := zwrite(content, level, false, 1+pad, true) // content, sync marker(s), empty final block, trailer
	add("flushed, then closed", fc)
	if len(fc) >= 6 {
		add("flushed, then closed; final block dropped, trailer kept", cat(u, fc[len(fc)-4:]))
		add("flushed, then closed; trailer missing", fc[:len(fc)-4])
	}
	if len(content) > 0 {
		add("written, never flushed nor closed", zwrite(content, level, false, 0, false))
	}
	return out
}

func zfamily(R *hxlib.Rand, fam string, n int) []byte {
	b := make([]byte, n)
	switch fam {
	case "zeros":
	case "text":
		copy(b, strings.Repeat("the quick brown fox jumps over the lazy dog. ", n/40+1))
	case "noise+zeros":
		copy(b, R.Bytes(n/3))
	case "noise":
		copy(b, R.Bytes(n))
	}
	return b
}

// tune looks for content of n bytes (noise prefix + zeros) for which len(build(content)) == want.
func tune(R *hxlib.Rand, n, want int, build func([]byte) []byte) []byte {
	noise := R.Bytes(n)
	mk := func(p int) []byte {
		b := make([]byte, n)
		copy(b, noise[:p])
		return b
	}
	lo, hi := 0, n
	for hi-lo > 1 {
		mid := (lo + hi) / 2
		if len(build(mk(mid))) <= want {
			lo = mid
		} else {
			hi = mid
		}
	}
	for d := 0; d <= 64; d++ {
		for _, p := range []int{lo - d, lo + d} {
			if p >= 0 && p <= n {
				if c := mk(p); len(build(c)) == want {
					return c
				}
			}
		}
	}
	return nil
}

func legs2(r *hxlib.Run) {
	level := 0 // 0 quick, 1 thorough, 2 -search
	if r.Thorough() {
		level = 1
	}
	if r.Search {
		level = 2
	}
	R := hxlib.NewRand(r.Seed ^ 0x2ea7c02)
	stop := func() bool { return r.Search && r.Failed() }
	leg := func(name string, f func()) {
		if stop() {
			return
		}
		t0 := time.Now()
		f()
		r.Note("leg %s: %.1fs", name, time.Since(t0).Seconds())
	}
	run := func(c Case) {
		if stop() {
			return
		}
		if c.Ck == "" {
			c.Ck = "all"
		}
		runCase(r, &c)
	}

	leg("connstats", func() {
		var cases []*Case
		n := 0
		for _, v := range []int{1, 2} {
			for _, st := range append([]string{"nil"}, func() (s []string) {
				for k := 0; k <= qnet.NumStat+1; k++ {
					s = append(s, strconv.Itoa(k))
				}
				return
			}()...) {
				good := 1 + n%4
				var data []byte
				key := []string{"", toyKey}[n%2]
				for k := 0; k < good; k++ {
					body, flag := R.Bytes(1+R.Intn(20)), uint8(0)
					if key != "" {
						body, flag = hxcodec.Cryptor(key).Encrypt(body), 2
					}
					data = append(data, hxcodec.Forge(v, 0, flag, 0, uint16(k), 0, 1234, body)...)
				}
				bad := hxcodec.Forge(v, 0, 0, 0, 99, 0, 3, []byte("damaged frame"))
				bad[len(bad)-2] ^= 0x10
				data = append(append(data, bad...), R.Bytes(20)...)
				c := &Case{Kind: fmt.Sprintf("conn%d", v), Key: key, Data: hxcodec.SpecHex(data), Good: good, Cap: []int{8, 1}[n%2], Stats: st, Out: []int{1, 2, 9}[n%3], Class: "checksum",
					Why: fmt.Sprintf("live V%d connection built with counter set %s, outbound queue %d, inbound channel %d: %d valid frame(s), then a frame with a damaged body", v, statsName(st), []int{0, 1, 8}[n%3], []int{8, 1}[n%2], good)}
				cases = append(cases, c)
				n++
			}
		}
		type res struct {
			o     connObs
			crash string
		}
		out := make([]res, len(cases))
		var wg sync.WaitGroup
		sem := make(chan struct{}, 6)
		for i := range cases {
			if stop() {
				break
			}
			wg.Add(1)
			go func(i int) {
				defer wg.Done()
				sem <- struct{}{}
				out[i].o, out[i].crash = connChild(cases[i])
				<-sem
			}(i)
		}
		wg.Wait()
		for i, c := range cases {
			r.Case()
			r.Count("class:" + c.Class)
			judgeConnChild(r, c, hxcodec.Expand(c.Data), out[i].o, out[i].crash)
		}
		r.CountN("leg:connstats", len(cases))
		r.Note("leg connstats: %d live connections, one child process each, built with the counter set nil / stats.New(0..%d), outbound queue 0/1/8, inbound channel 1/8: valid frames then a damaged one", len(cases), qnet.NumStat+1)
	})

	leg("zlibshapes", func() {
		n, judged := 0, 0
		seen := map[string]bool{}
		ratio := map[int]int{}
		emit := func(inflated int, sh zshape, why string) {
			if seen[string(sh.b)] {
				return
			}
			seen[string(sh.b)] = true
			expect := "any"
			if !inflates(sh.b) {
				expect = "error"
				judged++
			}
			for k := 1; k <= 8; k++ {
				if len(sh.b) > 0 && inflated == k*len(sh.b) {
					ratio[k]++
				}
			}
			v := 1 + n%2
			if len(sh.b) > 60000 {
				v = 2
			}
			c := Case{Kind: kindOf(v), Key: []string{"", toyKey}[(n/2)%2]}
			cls := "flags:not-decompressible"
			if expect == "any" {
				cls = "forged-valid"
			}
			run(Case{Kind: c.Kind, Key: c.Key, Data: hxcodec.SpecHex(sealed(&c, 1, sh.b)), Split: n%3 == 0, Quiet: true, NoAlloc: true, Expect: expect, Class: cls,
				Why: fmt.Sprintf("valid checksum, compressed bit set, body is a %d-byte zlib stream (%s) of %s: %s", len(sh.b), hxcodec.Digest(sh.b), why, sh.name)})
			n++
		}
		fams := []string{"zeros", "text", "noise+zeros"}
		levels := []int{flate.DefaultCompression, flate.HuffmanOnly}
		if level >= 1 {
			fams = append(fams, "noise")
			levels = append(levels, flate.BestSpeed, flate.NoCompression)
		}
		for size := 0; size <= 256; size++ {
			for _, fam := range fams {
				for _, lv := range levels {
					if stop() {
						return
					}
					if level == 0 && lv == flate.HuffmanOnly && fam != "zeros" && size%4 != 0 {
						continue // quick: the second level for zeros at every size, for the other families at every fourth
					}
					content := zfamily(R, fam, size)
					why := fmt.Sprintf("%d bytes (%s, level %d)", size, fam, lv)
					for _, sh := range shapesOf(content, lv, 0) {
						emit(size, sh, why)
					}
					// padding flushes: the stream grows by an empty stored block per Flush; keep the shapes that hit inflated == k x compressed
					if fam == "noise" || level == 0 && (lv != flate.DefaultCompression || fam == "text") {
						continue
					}
					for pad := 1; pad <= []int{8, 12, 12}[level]; pad++ {
						for _, sh := range shapesOf(content, lv, pad) {
							if l := len(sh.b); l > 0 && size%l == 0 && size/l <= 8 {
								emit(size, sh, why+fmt.Sprintf(", %d padding flushes", pad))
							}
						}
					}
				}
			}
		}
		// multiples of the 32 KiB window, inflated == k x compressed exactly
		type wk struct{ n, k int }
		wks := []wk{{32768, 4}, {65536, 4}, {32768, 2}, {32768, 8}, {32768, 1}}
		if level >= 1 {
			wks = append(wks, wk{65536, 1}, wk{65536, 2}, wk{65536, 8}, wk{98304, 3}, wk{98304, 6}, wk{163840, 5}, wk{229376, 7}, wk{131072, 4}, wk{32768 + 1024, 4}, wk{40000, 4})
		}
		for _, x := range wks {
			damages := []struct {
				name  string
				build func([]byte) []byte
			}{
				{"trailer bit 0 flipped", func(c []byte) []byte { z := zwrite(c, -1, false, 0, true); return flip(z, 8*(len(z)-1)) }},
				{"trailer zeroed", func(c []byte) []byte {
					z := zwrite(c, -1, false, 0, true)
					return cat(z[:len(z)-4], []byte{0, 0, 0, 0})
				}},
				{"trailer cut by 4", func(c []byte) []byte { z := zwrite(c, -1, false, 0, true); return z[:len(z)-4] }},
				{"trailer cut by 1", func(c []byte) []byte { z := zwrite(c, -1, false, 0, true); return z[:len(z)-1] }},
				{"sync-flushed, never closed", func(c []byte) []byte { return zwrite(c, -1, false, 1, false) }},
				{"flushed, then closed; final block dropped, trailer kept", func(c []byte) []byte {
					u, fc := zwrite(c, -1, false, 1, false), zwrite(c, -1, false, 1, true)
					return cat(u, fc[len(fc)-4:])
				}},
				{"closed", func(c []byte) []byte { return zwrite(c, -1, false, 0, true) }},
			}
			for _, dm := range damages {
				if stop() {
					return
				}
				content := tune(R, x.n, x.n/x.k, dm.build)
				for try := 0; content == nil && try < 4; try++ { // another noise prefix
					content = tune(R, x.n, x.n/x.k, dm.build)
				}
				if content == nil {
					r.Count("zlib:tuning-missed")
					continue
				}
				emit(x.n, zshape{dm.name, dm.build(content)}, fmt.Sprintf("%d bytes (noise then zeros, tuned so that inflated = %d x compressed)", x.n, x.k))
			}
		}
		for k := 1; k <= 8; k++ {
			r.CountN(fmt.Sprintf("zlib:inflated=%dxcompressed", k), ratio[k])
		}
		r.CountN("leg:zlibshapes", n)
		r.Note("leg zlibshapes: %d re-sealed compressed-flag frames over zlib streams of every shape, inflated sizes 0..256 and window multiples; %d of them are refused by compress/zlib and must be refused by the decoder; exact ratios inflated = k x compressed hit: %v", n, judged, ratio)
	})

	leg("forgedcrc", func() {
		n := 0
		for _, v := range []int{1, 2} {
			k := kindOf(v)
			hs := hsOf(k)
			for ti, target := range []uint32{0, 0xffffffff, 1, 0x80000000} {
				for _, bl := range []int{4, 9, 40} {
					if level == 0 && bl == 40 && ti >= 2 {
						continue
					}
					nref := uint8(0)
					payload := R.Bytes(bl)
					if v == 2 && bl == 9 {
						nref, payload = 1, append([]byte{0x80, 0, 0, 5}, payload...)
					}
					f := hxcodec.Forge(v, 1, uint8(R.Pick(0, 0x20)), nref, uint16(77+n), 0x020003, 20301, payload)
					if !hxcodec.ForgeFrameCrc(v, f, target) {
						r.Note("forging CRC-32 %08x failed", target)
						continue
					}
					name := fmt.Sprintf("a frame whose CRC-32 is exactly %08x", target)
					run(Case{Kind: k, Data: hxcodec.SpecHex(f), Expect: "any", Why: name, Class: "forged-valid"})
					for bit := 0; bit < 8*len(f); bit++ {
						cls := "bitflip:covered"
						if bit < 8*(v+1) { // the length field: 2 bytes (V1), 3 bytes (V2)
							cls = "bitflip:length-field"
						}
						run(Case{Kind: k, Data: hxcodec.SpecHex(flip(f, bit)), Split: bit%2 == 0, Expect: "error", Why: fmt.Sprintf("bit %d of byte %d of %s flipped", bit%8, bit/8, name), Class: cls})
						n++
					}
					for cut := 0; cut < len(f); cut++ {
						run(Case{Kind: k, Data: hxcodec.SpecHex(f[:cut]), Split: cut%2 == 0, Expect: "error", Why: fmt.Sprintf("%s cut after %d of %d bytes", name, cut, len(f)), Class: "truncated"})
						n++
					}
					for _, field := range []uint32{0, 0xffffffff, ^target, target + 1, target - 1, target ^ 0x80000000, target<<8 | target>>24, 0x00000001, 0xfffffffe} {
						if field == target {
							continue
						}
						g := append([]byte{}, f...)
						binary.BigEndian.PutUint32(g[hs-4:], field)
						run(Case{Kind: k, Data: hxcodec.SpecHex(g), Split: n%2 == 0, Expect: "error", Class: "checksum-field",
							Why: fmt.Sprintf("%s with the checksum field replaced by %08x", name, field)})
						n++
					}
				}
			}
		}
		r.CountN("leg:forgedcrc", n)
		r.Note("leg forgedcrc: %d damaged twins (every bit flip, every truncation, replaced checksum fields) of frames whose CRC-32 is exactly 0, ffffffff, 1, 80000000", n)
	})
}

func statsName(st string) string {
	if st == "nil" {
		return "nil"
	}
	return "stats.New(" + st + ")"
}
