// hx_c02: correspondence harness + oracle for C02 (decoders refuse malformed or corrupted frames).
//
// A case is a byte string fed to one of the REAL readers (V1 / V2 ReadPacket or
// ReadHeadBody+UnmarshalPacket, ReadLenData) through a reader that records the size of every
// io.ReadFull, plus what the property demands of it: always "no panic, nothing awaited or allocated
// beyond the format's maximum"; for damaged frames "an error, not a packet"; for a length field
// outside [header, max] "refused before anything else is awaited".  The oracle is this file, written
// from the protocol description; it does not consult the Lean model.
//
// A V2 stream whose length field is below the header size is run in a child process: without the
// range guard (defect D1) the real code asks the runtime for ~4 GiB.
package main

import (
	"encoding/json"
	"fmt"
	"io"
	"log"
	"net"
	"os"
	"os/exec"
	"runtime"
	"runtime/debug"
	"strings"
	"time"

	"verifharness/hxcodec"
	"verifharness/hxlib"

	fatchoy "qchen.fun/fatchoy"
	"qchen.fun/fatchoy/qnet"
)

type Case struct {
	Kind   string `json:"kind"`            // v1 | v2 | ld | conn1 | conn2
	Key    string `json:"key"`             // toy cipher key of the decoder ("" = nil decryptor)
	Data   string `json:"data"`            // SPEC of the stream
	Ck     string `json:"ck"`              // chunking
	Split  bool   `json:"split"`           // ReadHeadBody+UnmarshalPacket instead of ReadPacket
	Expect string `json:"expect"`          // any | error | refuse-len
	Why    string `json:"why"`             // what was done to the stream
	Class  string `json:"class"`           // stable class of the damage (part of the failure key)
	Pre    []Pre  `json:"pre,omitempty"`   // search legs: frames read before Data on the same codec instance (search.go)
	UOff   int    `json:"uoff,omitempty"`  // search legs (split): header and payload reach UnmarshalPacket at addresses UOff mod 16
	Quiet  bool   `json:"quiet,omitempty"` // no model lines (frames too large for the line protocol to be worth it)
	// live connection with a stalled consumer (search.go, leg backpressure): Data starts with Good valid frames; the inbound
	// channel holds Cap packets and nobody receives from it for Stall ms, so the reader pump sits in its channel send
	Good  int `json:"good,omitempty"`
	Cap   int `json:"cap,omitempty"`
	Stall int `json:"stall,omitempty"`
	// legs2.go, leg connstats: the connection is built with this counter set and outbound queue size and runs in a CHILD
	// process (a panic in the reader goroutine is process death). Stats: "" = as before (nil, in-process) | nil | 0 | 1 | … (stats.New(n))
	Stats   string `json:"stats,omitempty"`
	NoAlloc bool   `json:"noalloc,omitempty"` // legs2.go: the allocation of the call is not measured (compressed-flag frames: runCase does not judge it, and measuring stops the world twice per case)
	Out     int    `json:"out,omitempty"`     // outbound queue size is Out-1 when Out > 0 (so that 0 can be asked for); 8 otherwise
}

func (c *Case) v() int {
	if c.Kind == "v2" || c.Kind == "conn2" {
		return 2
	}
	return 1
}

func hsOf(kind string) int {
	switch kind {
	case "v1", "conn1":
		return 14
	case "v2", "conn2":
		return 20
	}
	return 2
}

// the format's maximum frame size (for the length-prefixed reader: the largest value of its 16-bit field)
func maxOf(kind string) int {
	switch kind {
	case "v1", "conn1":
		return 60 * 1024
	case "v2", "conn2":
		return 8 * 1024 * 1024
	}
	return 65535
}

func lenField(kind string, data []byte) (int, bool) {
	w := 2
	if kind == "v2" || kind == "conn2" {
		w = 3
	}
	if len(data) < hsOf(kind) {
		return 0, false
	}
	n := 0
	for i := 0; i < w; i++ {
		n = n<<8 | int(data[i])
	}
	return n, true
}

// obs is the outcome of one read by the real code, in-process or in the child.
type obs struct {
	Op    string `json:"op"`
	Impl  string `json:"impl"`
	Kind  string `json:"kind"` // ok | err:.. | panic:.. | crash
	Reqs  []int  `json:"reqs"`
	Pos   int    `json:"pos"`
	Alloc uint64 `json:"alloc"` // TotalAlloc delta of the call
	Flag  uint8  `json:"flag"`
	Crash string `json:"crash,omitempty"`
}

func totalAlloc() uint64 {
	var m runtime.MemStats
	runtime.ReadMemStats(&m)
	return m.TotalAlloc
}

// readOnce runs the real reader once at the reader's position.
func readOnce(c *Case, rd *hxcodec.Reader, measure bool) obs {
	var o obs
	before := rd.Pos
	var a0 uint64
	if measure {
		a0 = totalAlloc()
	}
	if c.Kind == "ld" {
		l := hxcodec.ReadLen(rd)
		if measure {
			o.Alloc = totalAlloc() - a0
		}
		o.Op, o.Impl = hxcodec.LdLine(rd, &l)
		o.Kind, o.Reqs, o.Pos = l.Kind(), l.Reqs, l.Pos
		return o
	}
	d := hxcodec.Decode(rd, c.v(), c.Key, c.Split)
	if measure {
		o.Alloc = totalAlloc() - a0
	}
	o.Op, o.Impl = hxcodec.RdLine(rd, before, c.v(), c.Key, &d)
	o.Kind, o.Reqs, o.Pos = d.Kind(), d.Reqs, d.Pos
	return o
}

// risky: a V2 stream whose length field is below the header size (see the file comment).
func risky(c *Case, data []byte) bool {
	if c.Kind != "v2" {
		return false
	}
	n, ok := lenField(c.Kind, data)
	return ok && n < 20
}

func childMain() {
	debug.SetMemoryLimit(1 << 30)
	var c Case
	if err := json.NewDecoder(os.Stdin).Decode(&c); err != nil {
		os.Exit(3)
	}
	if strings.HasPrefix(c.Kind, "conn") { // legs2.go
		log.SetOutput(io.Discard)
		var o connObs
		o.Errs, o.Pkts, o.First = connTry(&c, hxcodec.Expand(c.Data), 3*time.Second)
		if o.Errs == 0 {
			o.Errs, o.Pkts, o.First = connTry(&c, hxcodec.Expand(c.Data), 10*time.Second)
		}
		json.NewEncoder(os.Stdout).Encode(&o)
		return
	}
	data := hxcodec.Expand(c.Data)
	rd := hxcodec.NewReader(data, c.Ck)
	o := readOnce(&c, rd, true)
	json.NewEncoder(os.Stdout).Encode(&o)
}

func readInChild(c *Case) obs {
	self, err := os.Executable()
	if err != nil {
		return obs{Kind: "crash", Crash: err.Error()}
	}
	cmd := exec.Command(self)
	cmd.Env = append(os.Environ(), "HX_C02_CHILD=1")
	in, _ := json.Marshal(c)
	cmd.Stdin = strings.NewReader(string(in))
	var errb strings.Builder
	cmd.Stderr = &errb
	out, err := cmd.Output()
	var o obs
	if err != nil || json.Unmarshal(out, &o) != nil {
		msg := errb.String()
		if i := strings.Index(msg, "\n"); i > 0 {
			msg = msg[:i]
		}
		// the op line is still needed for the model
		rd := hxcodec.NewReader(hxcodec.Expand(c.Data), c.Ck)
		op, _ := hxcodec.RdLine(rd, 0, c.v(), c.Key, &hxcodec.DecObs{})
		return obs{Op: op, Impl: "crash", Kind: "crash", Crash: fmt.Sprintf("%v: %s", err, msg)}
	}
	return o
}

func runCase(r *hxlib.Run, c *Case) {
	r.Case()
	if strings.HasPrefix(c.Kind, "conn") {
		runConn(r, c)
		return
	}
	data := hxcodec.Expand(c.Data)
	hs, max := hsOf(c.Kind), maxOf(c.Kind)
	var o obs
	if len(c.Pre) > 0 || c.UOff != 0 || c.Quiet {
		var ok bool
		if o, ok = readAfterHistory(r, c, data); !ok {
			return
		}
	} else {
		r.Op(hxcodec.StreamLine(c.Data, c.Ck, len(data)))
		if risky(c, data) {
			o = readInChild(c)
			r.Count("ran-in-child")
		} else {
			rd := hxcodec.NewReader(data, c.Ck)
			o = readOnce(c, rd, true)
		}
		r.Op(o.Op, o.Impl)
	}
	r.Count(c.Kind + ":" + o.Kind)
	r.Count("class:" + c.Class)
	key := func(what string) string { return what + ":" + c.Kind }
	// (1) whatever arrives: a packet or an error
	if strings.HasPrefix(o.Kind, "panic") || o.Kind == "crash" {
		r.Fail(key("panic"), fmt.Sprintf("%s: reading %s ends in %s %s", c.Why, hxcodec.Digest(data), o.Kind, o.Crash), c)
		return
	}
	// (2) never waits for / allocates more payload than the maximum frame size
	for i, q := range o.Reqs {
		lim := max - hs
		if i == 0 {
			lim = hs
		}
		if q > lim {
			r.Fail(key("awaited"), fmt.Sprintf("%s: the reader asks for %d bytes at once (format maximum %d, header %d)", c.Why, q, max, hs), c)
		}
	}
	n, haveLen := lenField(c.Kind, data)
	compressed := false
	if haveLen && c.Kind != "ld" {
		fb := data[3]
		if c.Kind == "v2" {
			fb = data[4]
		}
		compressed = fb&1 != 0
	}
	if !compressed && o.Alloc > uint64(max)+64*1024 {
		r.Fail(key("allocated"), fmt.Sprintf("%s: %d bytes were allocated during the call (format maximum %d)", c.Why, o.Alloc, max), c)
	}
	// (3) a length field outside [header, max] is refused, before anything else is awaited
	if haveLen && (n < hs || n > max) {
		if o.Kind == "ok" {
			r.Fail(key("len-accepted"), fmt.Sprintf("%s: length field %d (header %d, max %d) was accepted", c.Why, n, hs, max), c)
		} else if len(o.Reqs) != 1 {
			r.Fail(key("len-not-refused"), fmt.Sprintf("%s: length field %d is outside [%d, %d] but the reader went on to ask for %v bytes (%s)", c.Why, n, hs, max, o.Reqs[1:], o.Kind), c)
		}
	} else if len(data) > 0 && o.Kind != "ok" {
		// not a valid frame, and not rejected by the very first length test
		r.NonTrivial(fmt.Sprintf("%s/%s/%v/%s", c.Kind, c.Key, c.Split, hxcodec.Key(data)))
	}
	// (4) damaged frames are not delivered
	if c.Expect == "error" && o.Kind == "ok" {
		r.Fail(key("delivered")+":"+c.Class, fmt.Sprintf("%s: the damaged frame %s was delivered as a packet (%s)", c.Why, hxcodec.Digest(data), o.Impl), c)
	}
}

// connTry: one live connection fed data (see runConn).
func connTry(c *Case, data []byte, wait time.Duration) (errs int, pkts int, first string) {
	ln, err := net.Listen("tcp", "127.0.0.1:0")
	if err != nil {
		return -1, 0, err.Error()
	}
	defer ln.Close()
	acc := make(chan net.Conn, 1)
	go func() {
		s, err := ln.Accept()
		if err == nil {
			acc <- s
		}
	}()
	peer, err := net.Dial("tcp", ln.Addr().String())
	if err != nil {
		return -1, 0, err.Error()
	}
	defer peer.Close()
	var srv net.Conn
	select {
	case srv = <-acc:
	case <-time.After(5 * time.Second):
		return -1, 0, "accept timed out"
	}
	defer srv.Close()
	errChan := make(chan error, 8)
	capIn := 8
	if c.Cap > 0 {
		capIn = c.Cap
	}
	inbound := make(chan fatchoy.IPacket, capIn)
	tc := qnet.NewTcpConn(fatchoy.NodeID(1), srv, hxcodec.Encoder(c.v(), 0), errChan, inbound, outOf(c), statsOf(c))
	tc.SetEncryptPair(hxcodec.Cryptor(c.Key), hxcodec.Cryptor(c.Key))
	tc.Go(fatchoy.EndpointReader)
	peer.Write(data)
	deadline := time.After(wait)
	if c.Good > 0 {
		time.Sleep(time.Duration(c.Stall) * time.Millisecond) // the consumer is stalled (this makes the schedule; it is not an oracle)
		for errs == 0 {
			select {
			case <-inbound:
				pkts++
			case e := <-errChan:
				errs, first = 1, e.Error()
			case <-deadline:
				return 0, pkts, ""
			}
		}
		for grace := time.After(150 * time.Millisecond); grace != nil; {
			select {
			case <-inbound:
				pkts++
			case <-errChan:
				errs++
			case <-grace:
				grace = nil
			}
		}
		if tc.IsRunning() {
			first += " (connection still running)"
			errs = -2
		}
		return errs, pkts, first
	}
	select {
	case e := <-errChan:
		errs, first = 1, e.Error()
	case <-deadline:
		return 0, len(inbound), ""
	}
	// a second error or a delivery would be wrong; give them a moment to show up
	select {
	case <-errChan:
		errs++
	case <-time.After(100 * time.Millisecond):
	}
	running := tc.IsRunning()
	if running {
		first += " (connection still running)"
		errs = -2
	}
	return errs, len(inbound), first
}

// runConn feeds the stream to a live TcpConn reader over loopback TCP: exactly one error must
// surface and nothing may be delivered (the deadline is generous and a suspected hang is re-run).
func runConn(r *hxlib.Run, c *Case) {
	data := hxcodec.Expand(c.Data)
	if c.Stats != "" {
		runConnChild(r, c, data) // legs2.go
		return
	}
	try := func(wait time.Duration) (int, int, string) { return connTry(c, data, wait) }
	errs, pkts, first := try(3 * time.Second)
	if errs == 0 {
		errs, pkts, first = try(10 * time.Second) // re-run a suspected hang before believing it
	}
	judgeConn(r, c, data, errs, pkts, first)
}

func judgeConn(r *hxlib.Run, c *Case, data []byte, errs, pkts int, first string) {
	r.Count(fmt.Sprintf("%s:errors=%d", c.Kind, errs))
	key := "conn:" + c.Kind + ":" + c.Class
	switch {
	case errs == -1:
		r.Note("loopback connection could not be set up: %s", first)
	case errs == 0:
		r.Fail(key, fmt.Sprintf("%s: TcpConn fed %s reports no error within 10 s (reader keeps waiting), %d packet(s) delivered", c.Why, hxcodec.Digest(data), pkts), c)
	case errs != 1 || pkts > c.Good:
		r.Fail(key, fmt.Sprintf("%s: TcpConn fed %s surfaced %d error(s) [%s] and delivered %d packet(s); expected one error, no packet beyond the %d valid frames, connection closed", c.Why, hxcodec.Digest(data), errs, first, pkts, c.Good), c)
	default:
		r.NonTrivial("conn/" + c.Kind + "/" + hxcodec.Key(data))
	}
}

// ---- generators --------------------------------------------------------------------------------

const toyKey = "a1b2c3d4e5"

type frame struct {
	v    int
	key  string
	name string
	b    []byte
}

// validFrames: encoder-produced frames (the REAL encoder: the property quantifies over valid frames).
func validFrames(r *hxlib.Run, small bool) []frame {
	R := r.R
	var out []frame
	add := func(name string, d hxcodec.Pkt) {
		o := hxcodec.Encode(&d)
		if o.Err != nil || o.Panic != "" {
			r.Note("frame %s could not be produced: %v %s", name, o.Err, o.Panic)
			return
		}
		w := hxcodec.RecWriter{Writes: o.Writes}
		out = append(out, frame{d.V, d.Key, name, w.Bytes()})
	}
	for _, v := range []int{1, 2} {
		refs := []uint32(nil)
		if v == 2 {
			refs = []uint32{0x01020304, 0xfffefdfc}
		}
		add(fmt.Sprintf("v%d-empty", v), hxcodec.Pkt{V: v, Cmd: 7, Seq: 1, Typ: 1, Node: 9, Body: "b:-"})
		add(fmt.Sprintf("v%d-plain", v), hxcodec.Pkt{V: v, Cmd: -2, Seq: 513, Typ: 2, Flag: 0x20, Node: 0xdeadbeef, Refs: refs, Body: "b:" + hxcodec.SpecHex(R.Bytes(11))})
		add(fmt.Sprintf("v%d-toy", v), hxcodec.Pkt{V: v, Key: toyKey, Cmd: 300, Seq: 65535, Typ: 0, Node: 1, Refs: refs, Body: "b:" + hxcodec.SpecHex(R.Bytes(23))})
		add(fmt.Sprintf("v%d-zip", v), hxcodec.Pkt{V: v, Thr: 8, Cmd: 1, Seq: 2, Node: 3, Body: "b:" + hxcodec.SpecRun(40, 0x61)})
		add(fmt.Sprintf("v%d-zip-toy", v), hxcodec.Pkt{V: v, Thr: 8, Key: toyKey, Cmd: 1, Seq: 2, Node: 3, Body: "b:" + hxcodec.SpecRun(30, 0x62)})
		add(fmt.Sprintf("v%d-errno", v), hxcodec.Pkt{V: v, Cmd: 1, Seq: 2, Flag: 0x10, Node: 3, Body: "i:-70000"})
		if !small {
			add(fmt.Sprintf("v%d-1k", v), hxcodec.Pkt{V: v, Key: toyKey, Cmd: 4, Seq: 4, Node: 4, Refs: refs, Body: "b:" + hxcodec.SpecGen(1000, 3)})
			add(fmt.Sprintf("v%d-20k-zip", v), hxcodec.Pkt{V: v, Cmd: 4, Seq: 4, Node: 4, Body: "b:" + hxcodec.Join(hxcodec.SpecGen(3000, 4), hxcodec.SpecRun(17000, 0))})
		}
	}
	return out
}

func kindOf(v int) string { return fmt.Sprintf("v%d", v) }

func flip(b []byte, bit int) []byte {
	out := append([]byte{}, b...)
	out[bit/8] ^= 1 << uint(bit%8)
	return out
}

func generate(r *hxlib.Run) {
	R := r.R.Fork() // seeds of hxlib.NewRand are shifted copies of one stream; Fork lands far away on it
	r.R = R
	nrun := 0
	run := func(c Case) {
		if c.Ck == "" {
			c.Ck = "all"
		}
		if nrun++; nrun%1200 == 7 && len(c.Data) < 400 {
			r.Sample(c)
		}
		runCase(r, &c)
	}
	tail := R.Bytes(40) // what follows a damaged frame on the stream
	// 1. every single-bit flip and every truncation point of small valid frames; sampled ones of larger frames
	for _, f := range validFrames(r, false) {
		k := kindOf(f.v)
		run(Case{Kind: k, Key: f.key, Data: hxcodec.SpecHex(f.b), Expect: "any", Why: "valid frame " + f.name, Class: "valid"})
		lenBits := 16
		if f.v == 2 {
			lenBits = 24
		}
		bits := len(f.b) * 8
		every := len(f.b) <= 96 || r.Thorough() && len(f.b) <= 1200
		for bit := 0; bit < bits; bit++ {
			if !every && bit >= 8*hsOf(k)+64 && !R.Chance(1, 200) {
				continue
			}
			cls := "bitflip:covered"
			if bit < lenBits {
				cls = "bitflip:length-field"
			}
			why := fmt.Sprintf("bit %d of byte %d of frame %s flipped", bit%8, bit/8, f.name)
			run(Case{Kind: k, Key: f.key, Data: hxcodec.SpecHex(flip(f.b, bit)), Split: bit%2 == 0, Expect: "error", Why: why, Class: cls})
			if bit < lenBits || R.Chance(1, 16) { // the same damage with more data following on the stream
				run(Case{Kind: k, Key: f.key, Data: hxcodec.SpecHex(append(flip(f.b, bit), tail...)), Ck: "n:9", Expect: "error", Why: why + ", more data following", Class: cls})
			}
		}
		for cut := 0; cut < len(f.b); cut++ {
			if !every && cut > hsOf(k)+8 && cut < len(f.b)-8 && !R.Chance(1, 50) {
				continue
			}
			run(Case{Kind: k, Key: f.key, Data: hxcodec.SpecHex(f.b[:cut]), Ck: pickS(R, "all", "n:1", "n:5"), Split: cut%2 == 0, Expect: "error",
				Why: fmt.Sprintf("frame %s cut after %d of %d bytes", f.name, cut, len(f.b)), Class: "truncated"})
		}
	}
	// 2. every value of the length field (quick: the boundaries and a sample)
	lens16 := []int{}
	if r.Thorough() {
		for n := 0; n < 65536; n++ {
			lens16 = append(lens16, n)
		}
	} else {
		for n := 0; n <= 40; n++ {
			lens16 = append(lens16, n)
		}
		for n := 61430; n <= 61450; n++ {
			lens16 = append(lens16, n)
		}
		for n := 65525; n <= 65535; n++ {
			lens16 = append(lens16, n)
		}
		for i := 0; i < 300; i++ {
			lens16 = append(lens16, R.Intn(65536))
		}
	}
	for _, n := range lens16 {
		// V1: a header announcing n bytes, followed by fewer / exactly as many bytes as announced
		h := hxcodec.Forge(1, 1, 0, 0, 7, 0, 9, nil)
		h[0], h[1] = byte(n>>8), byte(n)
		follow := 0
		if n >= 14 && n <= 14+64 && n%2 == 0 {
			follow = n - 14
		} else if n%3 == 0 {
			follow = R.Intn(30)
		}
		f := append(h, R.Bytes(follow)...)
		if follow == n-14 && n%4 == 0 {
			hxcodec.FixCrc(1, f)
		}
		run(Case{Kind: "v1", Data: hxcodec.SpecHex(f), Split: n%2 == 1, Expect: "any", Why: fmt.Sprintf("V1 header with length field %d followed by %d bytes", n, follow), Class: "length-value"})
		// length-prefixed data
		g := append([]byte{byte(n >> 8), byte(n)}, R.Bytes(follow)...)
		run(Case{Kind: "ld", Data: hxcodec.SpecHex(g), Expect: "any", Why: fmt.Sprintf("length prefix %d followed by %d bytes", n, follow), Class: "length-value"})
	}
	lens24 := []int{1<<24 - 1, 1<<24 - 2, 1 << 23, 1<<23 - 1, 1<<23 + 1, 1<<23 + 2, 1<<23 - 2}
	for n := 0; n <= 40; n++ {
		lens24 = append(lens24, n)
	}
	for i := r.Scale(40, 3000); i > 0; i-- {
		lens24 = append(lens24, R.Pick(R.Intn(1<<24), R.Intn(1<<24), R.Intn(70000), 1<<23+R.Intn(1<<23)))
	}
	for _, n := range lens24 {
		h := hxcodec.Forge(2, 1, 0, 0, 7, 5, 9, nil)
		h[0], h[1], h[2] = byte(n>>16), byte(n>>8), byte(n)
		follow := 0
		if n >= 20 && n <= 20+64 && n%2 == 0 {
			follow = n - 20
		} else if n%3 == 0 {
			follow = R.Intn(30)
		}
		f := append(h, R.Bytes(follow)...)
		if follow == n-20 && n%4 == 0 {
			hxcodec.FixCrc(2, f)
		}
		run(Case{Kind: "v2", Data: hxcodec.SpecHex(f), Split: n%2 == 1, Expect: "any", Why: fmt.Sprintf("V2 header with length field %d followed by %d bytes", n, follow), Class: "length-value"})
	}
	// 3. garbage
	for i := r.Scale(600, 20000); i > 0; i-- {
		n := R.Pick(0, 1, 2, 3, 13, 14, 15, 19, 20, 21, R.Intn(60), R.Intn(300))
		b := R.Bytes(n)
		kind := pickS(R, "v1", "v2", "ld")
		if n >= 3 && R.Chance(2, 3) { // make the length field plausible so that the later checks are reached
			l := n
			if R.Chance(1, 3) {
				l = R.Intn(n + 20)
			}
			if kind == "v2" {
				b[0], b[1], b[2] = 0, byte(l>>8), byte(l)
			} else {
				b[0], b[1] = byte(l>>8), byte(l)
			}
		}
		run(Case{Kind: kind, Key: pickS(R, "", toyKey), Data: hxcodec.SpecHex(b), Ck: pickS(R, "all", "n:1", "n:3", "n:16"), Split: R.Bool(), Expect: "any",
			Why: fmt.Sprintf("%d random bytes", n), Class: "garbage"})
	}
	// 4. forged frames with a valid checksum whose body does not match the flags / reference count
	for _, v := range []int{1, 2} {
		k := kindOf(v)
		for i := r.Scale(60, 2000); i > 0; i-- {
			body := R.Bytes(1 + R.Intn(40))
			base := uint8(R.Intn(64)) << 2
			// encrypted bit, no decryptor
			run(Case{Kind: k, Key: "", Data: hxcodec.SpecHex(hxcodec.Forge(v, 0, base|2, 0, 1, 2, 3, body)), Split: R.Bool(), Expect: "error",
				Why: "valid checksum, encrypted bit set, decoder has no decryptor", Class: "flags:undecryptable"})
			// compressed bit, body is not a zlib stream (before or after decryption)
			run(Case{Kind: k, Key: pickS(R, "", toyKey), Data: hxcodec.SpecHex(hxcodec.Forge(v, 0, base|1, 0, 1, 2, 3, body)), Split: R.Bool(), Expect: "error",
				Why: "valid checksum, compressed bit set, body is not a zlib stream", Class: "flags:not-decompressible"})
			run(Case{Kind: k, Key: toyKey, Data: hxcodec.SpecHex(hxcodec.Forge(v, 0, base|3, 0, 1, 2, 3, body)), Split: R.Bool(), Expect: "error",
				Why: "valid checksum, compressed+encrypted bits set, body is not a zlib stream after decryption", Class: "flags:not-decompressible"})
			// a truncated zlib stream
			z := []byte{0x78, 0x9c, 0x4b, 0x4c, 0x4a, 0x06, 0x00, 0x02, 0x4d, 0x01, 0x27}
			run(Case{Kind: k, Data: hxcodec.SpecHex(hxcodec.Forge(v, 0, base&^0x10|1, 0, 1, 2, 3, z[:1+R.Intn(len(z)-1)])), Expect: "error",
				Why: "valid checksum, compressed bit set, zlib stream cut short", Class: "flags:not-decompressible"})
			if i%10 == 0 {
				run(Case{Kind: k, Data: hxcodec.SpecHex(hxcodec.Forge(v, 0, base&^0x10|1, 0, 1, 2, 3, z)), Expect: "any", Why: "forged frame with a proper zlib body", Class: "forged-valid"})
			}
			// the same mismatches on a frame without body bytes: nothing to inflate / no key to decrypt with
			if i%6 == 0 {
				run(Case{Kind: k, Key: pickS(R, "", toyKey), Data: hxcodec.SpecHex(hxcodec.Forge(v, 0, base|1, 0, 1, 2, 3, nil)), Split: R.Bool(), Expect: "error",
					Why: "valid checksum, compressed bit set, empty body (not a zlib stream)", Class: "flags:not-decompressible"})
				run(Case{Kind: k, Key: "", Data: hxcodec.SpecHex(hxcodec.Forge(v, 0, base|2, 0, 1, 2, 3, nil)), Split: R.Bool(), Expect: "error",
					Why: "valid checksum, encrypted bit set, empty body, decoder has no decryptor", Class: "flags:undecryptable"})
				run(Case{Kind: k, Key: toyKey, Data: hxcodec.SpecHex(hxcodec.Forge(v, 0, base|2, 0, 1, 2, 3, nil)), Split: R.Bool(), Expect: "any",
					Why: "forged frame: encrypted bit set, empty body, decoder has the key", Class: "forged-valid"})
			}
			// the error flag with an arbitrary body: any bytes are acceptable, nothing may panic
			run(Case{Kind: k, Data: hxcodec.SpecHex(hxcodec.Forge(v, 0, 0x10, 0, 1, 2, 3, R.Bytes(R.Intn(14)))), Expect: "any", Why: "error flag with arbitrary body bytes", Class: "forged-valid"})
			if v == 2 {
				// reference count larger than the payload
				nref := 1 + R.Intn(255)
				pl := R.Bytes(R.Intn(4 * nref))
				run(Case{Kind: k, Data: hxcodec.SpecHex(hxcodec.Forge(2, 0, base, uint8(nref), 1, 2, 3, pl)), Split: R.Bool(), Expect: "error",
					Why: fmt.Sprintf("valid checksum, %d references announced, payload has %d bytes", nref, len(pl)), Class: "refcount"})
				pl = R.Bytes(4*nref + R.Pick(0, 0, 1, 5))
				run(Case{Kind: k, Data: hxcodec.SpecHex(hxcodec.Forge(2, 0, base, uint8(nref), 1, 2, 3, pl)), Expect: "any",
					Why: fmt.Sprintf("forged frame with %d references and a payload of %d bytes", nref, len(pl)), Class: "forged-valid"})
			}
		}
		// an over-long varint and the ten-byte boundary under the error flag
		for _, b := range [][]byte{{0x80}, {0xff, 0xff, 0xff, 0xff, 0xff, 0xff, 0xff, 0xff, 0xff, 0x01}, {0xff, 0xff, 0xff, 0xff, 0xff, 0xff, 0xff, 0xff, 0xff, 0x02},
			{0x80, 0x80, 0x80, 0x80, 0x80, 0x80, 0x80, 0x80, 0x80, 0x80, 0x01}, {0x01, 0xff}, {0x00}} {
			run(Case{Kind: k, Data: hxcodec.SpecHex(hxcodec.Forge(v, 0, 0x10, 0, 1, 2, 3, b)), Expect: "any", Why: "error flag with a boundary varint", Class: "forged-valid"})
		}
		// frames at the top of the range: the largest acceptable announcement, cut short
		max := maxOf(k)
		h := hxcodec.Forge(v, 0, 0, 0, 1, 2, 3, nil)
		if v == 1 {
			h[0], h[1] = byte(max>>8), byte(max)
		} else {
			h[0], h[1], h[2] = byte(max>>16), byte(max>>8), byte(max)
		}
		run(Case{Kind: k, Data: hxcodec.Join(hxcodec.SpecHex(h), hxcodec.SpecGen(max-hsOf(k)-1, 3)), Expect: "error", Why: "header announcing the maximum frame, one byte missing", Class: "truncated"})
	}
	// 5. a live TcpConn: garbage must surface one error and close the connection
	good := hxcodec.Forge(1, 0, 0, 0, 1, 0, 3, []byte("hello"))
	badcrc := append([]byte{}, good...)
	badcrc[len(badcrc)-1] ^= 0x40
	small1 := hxcodec.Forge(1, 0, 0, 0, 1, 0, 3, nil)
	small1[0], small1[1] = 0, 5
	big1 := hxcodec.Forge(1, 0, 0, 0, 1, 0, 3, nil)
	big1[0], big1[1] = 0xff, 0xf0
	run(Case{Kind: "conn1", Data: hxcodec.SpecHex(append(badcrc, R.Bytes(30)...)), Why: "live V1 connection, frame with a damaged body", Class: "checksum"})
	run(Case{Kind: "conn1", Data: hxcodec.SpecHex(append(big1, R.Bytes(30)...)), Why: "live V1 connection, length field above the maximum", Class: "length-above-max"})
	run(Case{Kind: "conn1", Data: hxcodec.SpecHex(append(small1, R.Bytes(30)...)), Why: "live V1 connection, length field 5 below the header size", Class: "length-below-header"})
	run(Case{Kind: "conn2", Data: hxcodec.SpecHex(hxcodec.Forge(2, 0, 2, 0, 1, 0, 3, []byte("secret"))), Why: "live V2 connection without decryptor, encrypted bit set", Class: "flags:undecryptable"})
}

func pickS(r *hxlib.Rand, vs ...string) string { return vs[r.Intn(len(vs))] }

func main() {
	if os.Getenv("HX_C02_CHILD") != "" {
		childMain()
		return
	}
	r := hxlib.Start("C02", "a byte string fed to a reader; non-trivial when it is not a valid frame and is not rejected by the very first length test; distinct by reader, configuration and bytes")
	defer r.Finish()
	log.SetOutput(io.Discard)
	if r.Replay != "" {
		var c Case
		r.LoadReplay(&c)
		runCase(r, &c)
		r.Sample(c)
		return
	}
	if os.Getenv("HX_LEGS_ONLY") != "" { // development: the legs of search.go alone
		legs(r)
		legs2(r)
		return
	}
	generate(r)
	legs2(r) // legs2.go: second round (connection constructor arguments in a child process, zlib stream shapes, forged checksum values)
	legs(r)  // search.go (after the generators, so that the smallest failing case of a kind is recorded first): cheap legs in every tier, the 10-60 s ones from thorough on, the rest with -search only
}
