package main

import (
	"fmt"
	"sort"
	"strings"
	"time"

	"google.golang.org/protobuf/proto"
	"google.golang.org/protobuf/types/known/wrapperspb"

	"verifharness/hxlib"

	"qchen.fun/fatchoy/packet"
)

func (s *sim) totalEvents() int {
	s.mu.Lock()
	defer s.mu.Unlock()
	n := 0
	for _, c := range s.calls {
		n += len(c.events)
	}
	return n
}

func (s *sim) eventsOf(id int) []event {
	s.mu.Lock()
	defer s.mu.Unlock()
	return append([]event{}, s.calls[id].events...)
}

// outstanding: made, not refused, nothing decided yet about its completion
func (s *sim) outstanding() []*callRec {
	var v []*callRec
	for _, c := range s.calls {
		if !c.refused && c.seq != 0 && c.expect == nil {
			v = append(v, c)
		}
	}
	return v
}

func evStr(c *callRec, e event) string {
	if e.kind == "cb" {
		rc := "ok"
		if c.id%5 == 0 {
			rc = "err"
		}
		return fmt.Sprintf("cb id=%d msg=%s ec=%d rc=%s", c.id, e.msg, e.ec, rc)
	}
	return fmt.Sprintf("ret id=%d errno=%d dec=%s", c.id, e.ec, e.msg)
}

// awaitCompletion waits for the event of a call that the real code has just completed (a blocking
// caller is woken asynchronously) and checks it against what the property demands.
func (s *sim) awaitCompletion(c *callRec, how string) string {
	if c.block {
		select {
		case e := <-c.retCh:
			c.retCh <- e
		case <-time.After(s.tmo):
			s.hung = true
			s.failf("blocking-caller-not-released", "the blocking caller of call %d was not released within %v after %s", c.id, s.tmo, how)
			return fmt.Sprintf("ret id=%d hang", c.id)
		}
	}
	evs := s.eventsOf(c.id)
	if len(evs) == 0 {
		s.failf("no-completion", "call %d (seq %d) was not completed by %s", c.id, c.seq, how)
		return fmt.Sprintf("none id=%d", c.id)
	}
	got := evs[len(evs)-1]
	if len(evs) > 1 {
		s.failf("completed-twice", "call %d (seq %d) was completed %d times, the last time by %s", c.id, c.seq, len(evs), how)
	}
	if c.expect != nil && got != *c.expect {
		key := "wrong-completion"
		switch {
		case c.expect.ec == codeTimeout && how == "the timeout reap":
			key = "timeout-code"
		case c.expect.ec > 0:
			key = "errno-code"
		}
		s.failf(key, "call %d (seq %d, %s) completed by %s: got (%s, msg=%s, ec=%d), the property demands (msg=%s, ec=%d)", c.id, c.seq, map[bool]string{true: "blocking", false: "async"}[c.block], how, got.kind, got.msg, got.ec, c.expect.msg, c.expect.ec)
	}
	return evStr(c, got)
}

// do executes one op line on the real client, returns (possibly completed) op line and canonical answer.
func (s *sim) do(op string) (string, string) {
	ws := strings.Fields(op)
	if len(ws) == 0 {
		return op, "bad-op"
	}
	switch ws[0] {
	case "new":
		s.newClient()
		return op, "ok"
	case "setcounter":
		v, ok := kvInt(ws, "v")
		if !ok || s.cli == nil {
			return op, "bad-op"
		}
		s.cli.VerifSetCounter(uint16(v))
		return op, "ok"
	case "call":
		mode := kvStr(ws, "mode")
		if s.cli == nil || (mode != "async" && mode != "block") {
			return op, "bad-op"
		}
		if len(s.cli.PendingQueue()) >= s.cap {
			return op, "bad-op" // would block holding the client's mutex: the sequential leg never does that
		}
		out := s.outstanding()
		c := s.startCall(mode == "block")
		if s.hung {
			s.failf("hang:call", "call %d did not queue its request within %v although the queue had room", c.id, s.tmo)
			return fmt.Sprintf("call mode=%s dl=0", mode), "hang"
		}
		if c.refused {
			if len(out) < 65535 {
				s.failf("call-refused", "call %d was refused with only %d call(s) outstanding", c.id, len(out))
			}
			return fmt.Sprintf("call mode=%s dl=0", mode), fmt.Sprintf("refused id=%d", c.id)
		}
		if c.seq == 0 {
			s.failf("seq-zero", "call %d was given sequence number 0", c.id)
		}
		for _, o := range out {
			if o.seq == c.seq {
				s.failf("seq-reuse", "call %d was given sequence number %d, which the outstanding call %d still holds (%d calls outstanding)", c.id, c.seq, o.id, len(out))
			}
		}
		return fmt.Sprintf("call mode=%s dl=%d", mode, c.dl), fmt.Sprintf("ok id=%d", c.id)
	case "pop":
		if s.cli == nil {
			return op, "bad-op"
		}
		select {
		case pkt := <-s.cli.PendingQueue():
			if len(s.fifo) == 0 {
				s.failf("queue-extra", "a request packet appeared on PendingQueue with no call made")
				return op, "extra"
			}
			id := s.fifo[0]
			s.fifo = s.fifo[1:]
			c := s.calls[id]
			c.seqPop = int(pkt.Seq())
			body := "?"
			if sv, ok := pkt.Body().(*wrapperspb.StringValue); ok {
				body = sv.Value
			}
			if body != fmt.Sprintf("req-%d", id) || pkt.Seq() != c.seq {
				s.failf("queue-order", "request packet seq=%d body=%q where call %d (seq %d) was due", pkt.Seq(), body, id, c.seq)
			}
			return op, fmt.Sprintf("seq=%d id=%s", pkt.Seq(), strings.TrimPrefix(body, "req-"))
		default:
			return op, "empty"
		}
	case "dispatch":
		seq, ok1 := kvInt(ws, "seq")
		isErr, ok2 := kvInt(ws, "err")
		code, _ := kvInt(ws, "code")
		cmd, ok3 := kvInt(ws, "cmd")
		dec := kvStr(ws, "dec")
		if !ok1 || !ok2 || !ok3 || s.cli == nil {
			return op, "bad-op"
		}
		pkt := packet.New(int32(cmd), uint16(seq), 0, nil)
		want := event{}
		switch {
		case isErr == 1:
			pkt.SetErrno(int32(code))
			want = event{msg: "nil", ec: int32(code)}
		case dec == "fail" && cmd == cmdMsg:
			pkt.SetBody([]byte{0xff, 0xff, 0xff}) // not a StringValue
			want = event{msg: "nil", ec: codeInternal}
		case dec == "fail":
			pkt.SetBody([]byte("x"))
			want = event{msg: "nil", ec: codeInternal}
		default:
			b, _ := proto.Marshal(wrapperspb.String("ack-" + dec))
			pkt.SetBody(b)
			want = event{msg: dec, ec: 0}
		}
		var target *callRec
		for _, o := range s.outstanding() {
			if o.seq == uint16(seq) {
				target = o
			}
		}
		before := s.totalEvents()
		var err error
		if p := hxlib.Guard(func() { err = s.cli.Dispatch(pkt) }); p != "" {
			s.failf("panic:dispatch", "Dispatch panicked: %s", p)
			return op, "panic"
		}
		if target == nil {
			if err == nil || (s.blk == nil && s.totalEvents() != before) {
				s.failf("unmatched-response-completed", "a response with sequence number %d matches no outstanding call, yet Dispatch returned %v and %d completion(s) happened", seq, err, s.totalEvents()-before)
				return op, "ok ?"
			}
			return op, "unmatched"
		}
		if target.block {
			// a blocking caller sees the reply through DecodeAck: the error code, the message, or a decode failure
			switch {
			case isErr == 1:
				want = event{kind: "ret", msg: "-", ec: int32(code)}
			case dec == "fail":
				want = event{kind: "ret", msg: "fail", ec: 0}
			default:
				want.kind = "ret"
			}
		} else {
			want.kind = "cb"
		}
		target.expect = &want
		ans := s.awaitCompletion(target, fmt.Sprintf("its response (err=%d code=%d dec=%s)", isErr, code, dec))
		if n := s.totalEvents() - before; n > 1 && s.blk == nil {
			s.failf("response-completed-several", "one response (seq %d) produced %d completions", seq, n)
		}
		if err != nil && !(target.id%5 == 0 && !target.block) && strings.Contains(err.Error(), "not found") {
			s.failf("matched-response-reported-unmatched", "Dispatch reported seq %d as unmatched although call %d holds it", seq, target.id)
			return op, "unmatched"
		}
		return op, "ok " + ans
	case "sweep":
		now, ok := kvInt(ws, "now")
		if !ok || s.cli == nil {
			return op, "bad-op"
		}
		// `ref=<id>:<delta>`: the instant is the (re-read) deadline of call <id> plus delta — keeps replays exact
		if ref := kvStr(ws, "ref"); ref != "" {
			var id int
			var delta int64
			if _, err := fmt.Sscanf(ref, "%d:%d", &id, &delta); err == nil && id >= 0 && id < len(s.calls) && s.calls[id].dl != 0 {
				now = s.calls[id].dl + delta
				op = fmt.Sprintf("sweep now=%d ref=%s", now, ref)
			}
		}
		for _, o := range s.outstanding() {
			if now > o.dl {
				e := event{kind: "cb", msg: "nil", ec: codeTimeout}
				if o.block {
					e = event{kind: "ret", msg: "-", ec: codeTimeout}
				}
				o.expect = &e
				o.swept = true
			}
		}
		s.cli.VerifSweep(s.base.Add(time.Duration(now)))
		return op, "ok"
	case "reap":
		if s.cli == nil {
			return op, "bad-op"
		}
		var due []*callRec
		for _, c := range s.calls {
			if c.expect != nil && c.expect.ec == codeTimeout && len(s.eventsOf(c.id)) == 0 && c.timingOut() && !c.batch {
				due = append(due, c)
				c.batch = true
			}
		}
		before := s.totalEvents()
		n := -1
		if p := hxlib.Guard(func() { n = s.cli.ReapTimeout() }); p != "" {
			s.failf("panic:reap", "ReapTimeout panicked: %s", p)
			return op, "panic"
		}
		var parts []string
		for _, c := range due {
			parts = append(parts, s.awaitCompletion(c, "the timeout reap"))
		}
		// (inside an interleaved ReapTimeout the blocking callers of the outer batch report concurrently: no event counting)
		if n != len(due) || (s.blk == nil && s.totalEvents()-before != len(due)) {
			s.failf("reap-count", "ReapTimeout returned %d and %d completion(s) happened where %d overdue call(s) were swept", n, s.totalEvents()-before, len(due))
		}
		sort.Strings(parts)
		return op, strings.TrimSpace(fmt.Sprintf("n=%d %s", n, strings.Join(parts, " ; ")))
	case "state":
		if s.cli == nil {
			return op, "bad-op"
		}
		seqs, nexp := s.cli.VerifPending()
		ss := make([]string, len(seqs))
		for i, x := range seqs {
			ss[i] = fmt.Sprint(x)
		}
		p := strings.Join(ss, ",")
		if p == "" {
			p = "-"
		}
		return op, fmt.Sprintf("counter=%d pending=%s expired=%d queue=%d", s.cli.VerifCounter(), p, nexp, len(s.cli.PendingQueue()))
	}
	return op, "bad-op"
}

// a call whose expectation was set by a sweep (not by a response)
func (c *callRec) timingOut() bool { return c.expect != nil && c.expect.ec == codeTimeout && c.swept }
