package main

import (
	"context"
	"errors"
	"fmt"
	"sort"
	"strconv"
	"strings"
	"sync"
	"time"

	"google.golang.org/protobuf/proto"
	"google.golang.org/protobuf/types/known/wrapperspb"

	"verifharness/hxlib"

	fatchoy "qchen.fun/fatchoy"
	"qchen.fun/fatchoy/codes"
	"qchen.fun/fatchoy/packet"
	"qchen.fun/fatchoy/qnet"
)

const (
	cmdMsg     = 1001 // registered: wrapperspb.StringValue (request and reply type of the harness)
	cmdUnknown = 7777 // not registered: Decode fails
	codeTimeout  = 8  // codes.RequestTimeout  (the oracle's own copy of the documented values)
	codeInternal = 23 // codes.InternalError
)

var errCb = errors.New("callback failed on purpose")

// Case is what a replay file holds.
type Case struct {
	Kind string   `json:"kind"` // "det" (sequential, compared with the model) | "exhaust" | "blocked" | "conc"
	Cap  int      `json:"cap"`
	Ops  []string `json:"ops,omitempty"`
	N    int      `json:"calls,omitempty"`
	G    int      `json:"goroutines,omitempty"`
	Seed uint64   `json:"seed,omitempty"`
	// failing-input search legs: kind "typed" | "period" | "scale" | "aged"; "conc" with a slow queue consumer
	Typed  *typedCase `json:"typed,omitempty"`
	SlowUS int        `json:"slow_us,omitempty"`
	// every-tier legs over reply fields, lifecycle orders and re-entrant callbacks: kind "fields" | "lifecycle" | "reentrant" (Seed)
	Fields *fieldsCase `json:"fields,omitempty"`
	Life   *lifeCase   `json:"life,omitempty"`
}

type event struct {
	kind string // "cb" | "ret"
	msg  string // decoded reply ("nil" when absent)
	ec   int32
}

type callRec struct {
	id     int
	block  bool
	seq    uint16 // as read back through the hook right after the call (0 = unknown / refused)
	seqPop int    // as seen on the request packet taken from PendingQueue (-1 = not popped yet)
	dl     int64  // deadline, ns since base
	refused bool
	events []event
	swept  bool
	batch  bool // taken by a ReapTimeout that is under way (or done)
	expect *event // what the property says this call must be completed with (nil = still outstanding)
	retCh  chan event
}

type fail struct{ key, what string }

type sim struct {
	blk    *block // the interleaved ReapTimeout under way, if any
	nested int    // depth of harness ops running inside a callback of that ReapTimeout
	cap    int
	cli    *qnet.RpcClient
	base   time.Time
	mu     sync.Mutex
	calls  []*callRec
	fifo   []int // ids whose request packet is still in the queue
	fails  []fail
	hung   bool
	tmo    time.Duration
}

func (s *sim) failf(key, format string, a ...interface{}) {
	s.mu.Lock()
	s.fails = append(s.fails, fail{key, fmt.Sprintf(format, a...)})
	s.mu.Unlock()
}

func newSim(cap int, tmo time.Duration) *sim {
	return &sim{cap: cap, tmo: tmo}
}

func reqOf(id int) proto.Message { return wrapperspb.String("req-" + strconv.Itoa(id)) }

func (s *sim) record(id int, e event) {
	s.mu.Lock()
	s.calls[id].events = append(s.calls[id].events, e)
	s.mu.Unlock()
}

func msgText(m proto.Message) string {
	if m == nil {
		return "nil"
	}
	if sv, ok := m.(*wrapperspb.StringValue); ok {
		return strings.TrimPrefix(sv.Value, "ack-")
	}
	return "?"
}

// startCall issues one call on the real client. The caller made sure the queue has room.
func (s *sim) startCall(block bool) *callRec {
	id := len(s.calls)
	c := &callRec{id: id, block: block, seqPop: -1, retCh: make(chan event, 4)}
	s.mu.Lock()
	s.calls = append(s.calls, c)
	s.mu.Unlock()
	node := fatchoy.MakeNodeID(1, uint16(id))
	before := len(s.cli.PendingQueue())
	if block {
		go func() {
			var e event
			if p := hxlib.Guard(func() {
				rc := s.cli.Call(node, reqOf(id))
				e = summarize(rc)
			}); p != "" {
				e = event{kind: "ret", msg: "panic", ec: -1}
			}
			s.record(id, e)
			c.retCh <- e
		}()
		// the call is "made" once its request packet is queued (or it has returned: refused)
		deadline := time.Now().Add(s.tmo)
		for len(s.cli.PendingQueue()) == before {
			select {
			case e := <-c.retCh:
				c.retCh <- e
				c.refused = true
				return c
			default:
			}
			if time.Now().After(deadline) {
				s.hung = true
				return c
			}
			time.Sleep(20 * time.Microsecond)
		}
	} else {
		var err error
		cb := func(m proto.Message, ec int32) error {
			e := event{kind: "cb", msg: msgText(m), ec: ec}
			s.record(id, e)
			if s.blk != nil && s.nested == 0 {
				s.blk.onAsync(c, e) // a completion made by the interleaved ReapTimeout: the script runs here
			}
			if id%5 == 0 {
				return errCb
			}
			return nil
		}
		if p := hxlib.Guard(func() { err = s.cli.AsyncCall(node, reqOf(id), cb) }); p != "" {
			s.failf("panic:call", "AsyncCall panicked: %s", p)
			c.refused = true
			return c
		}
		if err != nil || len(s.cli.PendingQueue()) == before {
			c.refused = true
			return c
		}
	}
	c.seq = s.cli.VerifCounter()
	if dl, ok := s.cli.VerifDeadline(c.seq); ok {
		c.dl = dl.Sub(s.base).Nanoseconds()
	}
	s.fifo = append(s.fifo, id)
	return c
}

// summarize: what a blocking caller sees in the context Call returned
func summarize(rc *qnet.RpcContext) event {
	e := event{kind: "ret", msg: "-"}
	var m proto.Message
	var err error
	if p := hxlib.Guard(func() { m, err = rc.DecodeAck() }); p != "" {
		return event{kind: "ret", msg: "panic", ec: -1}
	}
	if err != nil {
		// either the reply's error code or a decode failure
		e.msg = "fail"
		txt := err.Error()
		for code := int32(1); code <= 23; code++ {
			if txt == codes.Code(code).String() {
				e.ec = code
				e.msg = "-"
				break
			}
		}
		return e
	}
	e.msg = msgText(m)
	return e
}

func sortedIDs(m map[int]bool) []int {
	var v []int
	for k := range m {
		v = append(v, k)
	}
	sort.Ints(v)
	return v
}

func kvInt(ws []string, key string) (int64, bool) {
	for _, w := range ws {
		if strings.HasPrefix(w, key+"=") {
			v, err := strconv.ParseInt(w[len(key)+1:], 10, 64)
			return v, err == nil
		}
	}
	return 0, false
}

func kvStr(ws []string, key string) string {
	for _, w := range ws {
		if strings.HasPrefix(w, key+"=") {
			return w[len(key)+1:]
		}
	}
	return ""
}

func (s *sim) newClient() {
	s.cli = qnet.NewRpcClient(context.Background(), s.cap)
	s.base = time.Now()
}

func init() {
	packet.VerifRegister(cmdMsg, &wrapperspb.StringValue{})
}
