package main

// Legs over dimensions the ordinary generators do not vary. They run in EVERY tier (a change that edits only function
// bodies never triggers -search) and are oracle-only: the Lean LTS has no packet fields, contexts or callback bodies.
//
//	fields     (field relations)   the reply's node / type / flag / refers fields in every combination with the call's
//	                               destination (same node, another instance, another service, 0, all ones; every
//	                               packet type; every flag bit), acks and error replies (codes 1 .. MaxInt32), async
//	                               and blocking, queue capacities 0 (unbuffered) and 1, one request object shared by
//	                               all calls, callbacks returning errors wrapped 20 deep: a reply with the call's
//	                               sequence number completes it exactly once whatever else it carries; its duplicate
//	                               is unmatched; the timeout sweep finds nothing left
//	lifecycle  (lifecycle)         a cancellable context, Go() / cancel() / calls in every order (Go twice, cancel
//	                               before Go, cancel without Go, a context whose deadline passes), the main loop going
//	                               on afterwards: calls outstanding at the cancel stay outstanding (not expired, not
//	                               reaped), their replies complete them, calls made after it work, and what is never
//	                               answered is completed once by the sweep past its time to live
//	reentrant  (re-entrancy)       callbacks run by Dispatch (and by ReapTimeout) that themselves make calls, dispatch
//	                               other replies, dispatch their own reply again, sweep and reap — nested up to 4 deep
//	held       (held outputs)      the context a blocking Call returned and the message a callback received are kept
//	                               and read AGAIN after 1, 2, 8, 64 further calls / replies / sweeps on the same
//	                               client: what a call was completed with must not change behind the caller's back

import (
	"context"
	"errors"
	"fmt"
	"runtime"
	"strings"
	"time"

	"google.golang.org/protobuf/proto"
	"google.golang.org/protobuf/types/known/wrapperspb"

	"verifharness/hxlib"

	fatchoy "qchen.fun/fatchoy"
	"qchen.fun/fatchoy/packet"
	"qchen.fun/fatchoy/qnet"
)

type fieldsCase struct {
	Dest  uint32 `json:"dest"`  // node the call goes to
	Node  uint32 `json:"node"`  // node field of the reply
	Type  int8   `json:"type"`  // type field of the reply
	Flag  uint8  `json:"flag"`  // flag bits of the reply (the error bit is added by SetErrno)
	Refs  int    `json:"refs"`  // refers carried by the reply
	Errno int32  `json:"errno"` // 0: an ack
	Block bool   `json:"block"`
	Cap   int    `json:"cap"`
}

func deepErr(n int) error {
	err := errCb
	for i := 0; i < n; i++ {
		err = fmt.Errorf("layer %d: %w", i, err)
	}
	return err
}

var sharedReq = wrapperspb.String("req-shared") // ONE request object for every call of the fields leg

// runFields: one call, one reply carrying the call's sequence number and the given other fields.
func runFields(fc fieldsCase, tmo time.Duration) (fails []fail) {
	failf := func(key, format string, a ...interface{}) { fails = append(fails, fail{key, fmt.Sprintf(format, a...)}) }
	cli := qnet.NewRpcClient(context.Background(), fc.Cap)
	base := time.Now()
	type comp struct {
		msg string
		ec  int32
	}
	got := make(chan comp, 8)
	dest := fatchoy.NodeID(fc.Dest)
	desc := fmt.Sprintf("call to node %06x (%s, queue capacity %d) answered with seq=its own, node=%06x type=%d flag=%#02x refers=%d errno=%d",
		fc.Dest, map[bool]string{true: "blocking", false: "async"}[fc.Block], fc.Cap, fc.Node, fc.Type, fc.Flag, fc.Refs, fc.Errno)
	callDone := make(chan struct{})
	go func() { // (capacity 0: the call stands in its send until the request is taken)
		defer close(callDone)
		if fc.Block {
			var c comp
			if p := hxlib.Guard(func() {
				rc := cli.Call(dest, sharedReq)
				var m proto.Message
				var err error
				m, err = rc.DecodeAck()
				switch {
				case err != nil && rc != nil:
					c = comp{"error:" + err.Error(), -2}
				default:
					c = comp{msgText(m), 0}
				}
			}); p != "" {
				c = comp{"panic:" + p, -1}
			}
			got <- c
			return
		}
		if p := hxlib.Guard(func() {
			cli.AsyncCall(dest, sharedReq, func(m proto.Message, ec int32) error {
				got <- comp{msgText(m), ec}
				return deepErr(20)
			})
		}); p != "" {
			failf("panic:call", "%s: AsyncCall panicked: %s", desc, p)
		}
	}()
	var req fatchoy.IPacket
	select {
	case req = <-cli.PendingQueue():
	case <-time.After(tmo):
		failf("hang:call", "%s: the request did not reach the queue within %v", desc, tmo)
		return
	}
	if !fc.Block {
		select {
		case <-callDone:
		case <-time.After(tmo):
			failf("hang:call", "%s: AsyncCall did not return within %v after its request was taken from the queue", desc, tmo)
			return
		}
	}
	if len(fails) > 0 {
		return
	}
	seq := req.Seq()
	if seq == 0 || req.Node() != dest {
		failf("request-packet", "%s: the request packet carries seq=%d node=%06x", desc, seq, uint32(req.Node()))
	}
	mk := func() fatchoy.IPacket {
		reply := packet.New(cmdMsg, seq, fatchoy.PacketFlag(fc.Flag), nil)
		reply.SetType(fatchoy.PacketType(fc.Type))
		reply.SetNode(fatchoy.NodeID(fc.Node))
		for i := 0; i < fc.Refs; i++ {
			reply.AddRefers(fatchoy.NodeID(0x010000 + uint32(i)))
		}
		if fc.Errno != 0 {
			reply.SetErrno(fc.Errno)
		} else {
			b, _ := proto.Marshal(wrapperspb.String("ack-77"))
			reply.SetBody(b)
		}
		return reply
	}
	want := comp{"77", 0}
	switch {
	case fc.Errno != 0 && fc.Block:
		want = comp{"error", -2}
	case fc.Errno != 0:
		want = comp{"nil", fc.Errno}
	}
	var derr error
	if p := hxlib.Guard(func() { derr = cli.Dispatch(mk()) }); p != "" {
		failf("panic:dispatch", "%s: Dispatch panicked: %s", desc, p)
		return
	}
	completed := false
	judge := func(c comp) {
		completed = true
		if strings.HasPrefix(c.msg, "error:") {
			c.msg = "error"
		}
		if c != want {
			failf("wrong-completion:fields", "%s: completed with (%s, ec=%d), the property demands (%s, ec=%d)", desc, c.msg, c.ec, want.msg, want.ec)
		}
	}
	if fc.Block { // the caller is woken asynchronously
		wait := tmo
		if derr != nil {
			wait = 100 * time.Millisecond // Dispatch itself said it completed nothing
		}
		select {
		case c := <-got:
			judge(c)
		case <-time.After(wait):
		}
	} else { // the callback runs inside Dispatch
		select {
		case c := <-got:
			judge(c)
		default:
		}
	}
	if !completed {
		// the reply carried the sequence number of the outstanding call: it must have completed it. Does the timeout at least?
		cli.VerifSweep(base.Add(2 * time.Hour))
		n := -1
		hxlib.Guard(func() { n = cli.ReapTimeout() })
		later := "and the sweep 2 h later + ReapTimeout did not complete it either: the call is never completed"
		select {
		case c := <-got:
			later = fmt.Sprintf("the sweep 2 h later + ReapTimeout then completed it with (%s, ec=%d)", c.msg, c.ec)
		case <-time.After(20 * time.Millisecond):
		}
		failf("no-completion", "%s: Dispatch returned %v and the call was NOT completed by this reply, which carries its sequence number %d; %s (ReapTimeout=%d)", desc, derr, seq, later, n)
		return
	}
	if !fc.Block && derr != nil && !errors.Is(derr, errCb) {
		failf("dispatch-result", "%s: Dispatch returned %v for a matched reply whose callback returned an error wrapped 20 deep", desc, derr)
	}
	// the duplicate is unmatched; nothing is left for the timeout
	var derr2 error
	hxlib.Guard(func() { derr2 = cli.Dispatch(mk()) })
	if derr2 == nil {
		failf("unmatched-response-completed", "%s: a duplicate of the reply was matched again", desc)
	}
	cli.VerifSweep(base.Add(2 * time.Hour))
	n := -1
	if p := hxlib.Guard(func() { n = cli.ReapTimeout() }); p != "" {
		failf("panic:reap", "%s: ReapTimeout panicked: %s", desc, p)
	}
	if n != 0 {
		failf("reap-count", "%s: after the call was completed by its reply ReapTimeout still returned %d", desc, n)
	}
	select {
	case c := <-got:
		failf("completed-twice", "%s: completed a second time with (%s, ec=%d)", desc, c.msg, c.ec)
	default:
	}
	return
}

func fieldsLeg(r *hxlib.Run, tmo time.Duration) {
	n1, n2 := uint32(fatchoy.MakeNodeID(1, 7)), uint32(fatchoy.MakeNodeID(200, 65535))
	dests := []uint32{0, n1, n2}
	types := []int8{0, 1, 2, -1, 127, -128}
	flags := []uint8{0, 0x20, 0x01, 0x02, 0x04, 0x08, 0x40, 0x80, 0x20 | 0x01 | 0x02 | 0xCC}
	errnos := []int32{0, 0, 9, 1, 23, 24, 255, 65535, 1<<31 - 1}
	k := 0
	bad := 0
	for _, dest := range dests {
		nodes := []uint32{0, dest, uint32(fatchoy.MakeNodeID(1, 8)), uint32(fatchoy.MakeNodeID(2, 7)), uint32(fatchoy.MakeNodeID(3, 0)), 0xFFFFFF, 0xFFFFFFFF}
		for _, node := range nodes {
			for _, typ := range types {
				for _, flag := range flags {
					k++
					if !r.Thorough() && k%3 != int(r.R.Intn(3)) && !(typ == 0 && flag <= 0x20) {
						continue // quick: a third of the type x flag grid per (dest, node), the plain replies always
					}
					fc := fieldsCase{Dest: dest, Node: node, Type: typ, Flag: flag, Errno: errnos[k%len(errnos)], Block: k%4 == 1, Refs: []int{0, 0, 1, 3}[k%4], Cap: []int{4, 1, 0}[k%3]}
					r.Case()
					r.Count("fields:cases")
					if fc.Node != 0 && fc.Dest != 0 && fc.Node != fc.Dest {
						r.Count("fields:reply-from-another-non-zero-node")
						r.NonTrivial(fmt.Sprintf("fields/%x/%x/%d/%x/%d/%v", fc.Dest, fc.Node, fc.Type, fc.Flag, fc.Errno, fc.Block))
					}
					c := Case{Kind: "fields", Fields: &fc}
					fs := runFields(fc, tmo)
					for _, f := range fs {
						r.Fail(f.key, f.what, c)
					}
					if len(fs) > 0 {
						if bad++; bad >= 6 {
							return
						}
					}
				}
			}
		}
	}
}

// ---- lifecycle ------------------------------------------------------------------------------------------------------

type lifeCase struct {
	// Steps: go | cancel | call (an async and a blocking call) | expire (the context's own deadline passes) | settle
	Steps []string `json:"steps"`
	Cap   int      `json:"cap"`
}

func reapersAlive() bool {
	buf := make([]byte, 1<<20)
	n := runtime.Stack(buf, true)
	return strings.Contains(string(buf[:n]), "(*RpcClient).reaper")
}

// waitReapers: after the context is done every reaper goroutine leaves; whatever it does on its way out is done then.
func waitReapers(d time.Duration) bool {
	end := time.Now().Add(d)
	for reapersAlive() {
		if time.Now().After(end) {
			return false
		}
		time.Sleep(200 * time.Microsecond)
	}
	return true
}

type lifeCall struct {
	id    int
	block bool
	seq   uint16
	evs   chan string
	want  string
}

func runLifecycle(lc lifeCase, tmo time.Duration) (fails []fail) {
	failf := func(key, format string, a ...interface{}) {
		fails = append(fails, fail{key, fmt.Sprintf("steps %v (queue capacity %d): ", lc.Steps, lc.Cap) + fmt.Sprintf(format, a...)})
	}
	ctx, cancel := context.WithCancel(context.Background())
	defer cancel()
	var expire context.CancelFunc
	for _, s := range lc.Steps {
		if s == "expire" {
			ctx, expire = context.WithDeadline(ctx, time.Now().Add(3*time.Millisecond))
			defer expire()
			break
		}
	}
	cli := qnet.NewRpcClient(ctx, lc.Cap)
	base := time.Now()
	var calls []*lifeCall
	mkCall := func(block bool) {
		c := &lifeCall{id: len(calls), block: block, evs: make(chan string, 8)}
		calls = append(calls, c)
		node := fatchoy.MakeNodeID(1, uint16(c.id))
		if block {
			go func() {
				e := summarize(cli.Call(node, reqOf(c.id)))
				c.evs <- fmt.Sprintf("%s/%d", e.msg, e.ec)
			}()
		} else {
			go cli.AsyncCall(node, reqOf(c.id), func(m proto.Message, ec int32) error {
				c.evs <- fmt.Sprintf("%s/%d", msgText(m), ec)
				return nil
			})
		}
		select {
		case pkt := <-cli.PendingQueue():
			c.seq = pkt.Seq()
		case <-time.After(tmo):
			failf("hang:call", "call %d did not queue its request within %v", c.id, tmo)
		}
	}
	outstanding := func() (v []*lifeCall) {
		for _, c := range calls {
			if c.want == "" && c.seq != 0 {
				v = append(v, c)
			}
		}
		return
	}
	// the calls that are outstanding must be in the pending table, unexpired, and no completion may have happened
	checkUntouched := func(after string) {
		seqs, nexp := cli.VerifPending()
		in := map[uint16]bool{}
		for _, s := range seqs {
			in[s] = true
		}
		for _, c := range outstanding() {
			if !in[c.seq] {
				failf("expired-before-ttl", "after %s, call %d (seq %d), made %v ago with a time to live of 60 s, is no longer outstanding (pending table %v, expired list %d): its reply can no longer complete it", after, c.id, c.seq, time.Since(base).Round(time.Millisecond), seqs, nexp)
			}
			select {
			case e := <-c.evs:
				c.want = "?"
				failf("wrong-completion", "after %s, call %d (seq %d) was completed with %s although no reply was dispatched and its time to live has not passed", after, c.id, c.seq, e)
			default:
			}
		}
		n := -1
		hxlib.Guard(func() { n = cli.ReapTimeout() })
		if n != 0 {
			failf("reap-count", "after %s, ReapTimeout returned %d although no call is past its time to live (60 s; the oldest is %v old)", after, n, time.Since(base).Round(time.Millisecond))
			for _, c := range outstanding() {
				select {
				case e := <-c.evs:
					c.want = "?"
					failf("timeout-code", "after %s, call %d (seq %d, %v old) was completed with %s by that ReapTimeout", after, c.id, c.seq, time.Since(base).Round(time.Millisecond), e)
				case <-time.After(2 * time.Millisecond):
				}
			}
		}
	}
	goes := 0
	for _, s := range lc.Steps {
		if len(fails) > 0 {
			break
		}
		switch s {
		case "go":
			cli.Go()
			goes++
			if ctx.Err() != nil && !waitReapers(3*time.Second) { // started on a finished context: it leaves at once
				failf("hang:reaper", "a reaper goroutine started on a cancelled context had not left after 3 s")
			}
		case "call":
			mkCall(false)
			mkCall(true)
		case "cancel":
			cancel()
			if goes > 0 && !waitReapers(3*time.Second) {
				failf("hang:reaper", "the reaper goroutine had not left 3 s after the context was cancelled")
			}
			checkUntouched("the context was cancelled")
		case "expire":
			<-ctx.Done()
			if goes > 0 && !waitReapers(3*time.Second) {
				failf("hang:reaper", "the reaper goroutine had not left 3 s after the context's deadline passed")
			}
			checkUntouched("the context's deadline passed")
		case "settle":
			time.Sleep(2 * time.Millisecond)
			checkUntouched("2 ms of nothing")
		}
	}
	if len(fails) > 0 {
		return
	}
	// the main loop goes on: every second outstanding call is answered now, the others are left to the timeout
	for i, c := range outstanding() {
		if i%2 == 1 {
			continue
		}
		reply := packet.New(cmdMsg, c.seq, 0, nil)
		b, _ := proto.Marshal(wrapperspb.String(fmt.Sprintf("ack-%d", 500+c.id)))
		reply.SetBody(b)
		c.want = fmt.Sprintf("%d/0", 500+c.id)
		if err := cli.Dispatch(reply); err != nil {
			failf("matched-response-reported-unmatched", "the reply to call %d (seq %d, %v old, time to live 60 s) was reported as unmatched: %v", c.id, c.seq, time.Since(base).Round(time.Millisecond), err)
		}
	}
	cli.VerifSweep(base.Add(2 * time.Hour))
	for _, c := range outstanding() {
		c.want = fmt.Sprintf("nil/%d", codeTimeout)
		if c.block {
			c.want = fmt.Sprintf("-/%d", codeTimeout)
		}
	}
	hxlib.Guard(func() { cli.ReapTimeout() })
	for _, c := range calls {
		if c.seq == 0 || c.want == "?" {
			continue
		}
		select {
		case e := <-c.evs:
			if e != c.want {
				failf("wrong-completion", "call %d (seq %d) was completed with %s, the property demands %s", c.id, c.seq, e, c.want)
			}
		case <-time.After(tmo):
			failf("never-completed", "call %d (seq %d) was never completed: neither by its reply nor by the sweep 2 h later + ReapTimeout", c.id, c.seq)
		}
		select {
		case e := <-c.evs:
			failf("completed-twice", "call %d (seq %d) was completed a second time with %s", c.id, c.seq, e)
		default:
		}
	}
	cancel()
	if goes > 0 && !waitReapers(3*time.Second) {
		failf("hang:reaper", "the reaper goroutine had not left 3 s after the context was cancelled")
	}
	return
}

func lifecycleLeg(r *hxlib.Run, tmo time.Duration) {
	orders := [][]string{
		{"go", "call", "cancel"},
		{"call", "go", "cancel"},
		{"go", "call", "cancel", "call", "settle"},
		{"call", "cancel", "go", "settle"},
		{"cancel", "go", "call", "settle"},
		{"cancel", "call", "go", "settle"},
		{"go", "go", "call", "cancel"},
		{"go", "call", "cancel", "cancel", "go", "settle"},
		{"call", "cancel"},
		{"go", "cancel", "call", "settle"},
		{"go", "call", "settle", "call", "cancel", "call"},
		{"go", "call", "expire"},
		{"call", "expire", "go", "call", "settle"},
	}
	for i, steps := range orders {
		for _, cp := range []int{8, 1, 0} {
			if !r.Thorough() && cp != 8 && i%3 != cp {
				continue
			}
			lc := lifeCase{Steps: steps, Cap: cp}
			r.Case()
			r.Count("lifecycle:cases")
			r.NonTrivial("lifecycle/" + strings.Join(steps, ",") + fmt.Sprint(cp))
			for _, f := range runLifecycle(lc, tmo) {
				r.Fail(f.key, f.what, Case{Kind: "lifecycle", Life: &lc})
			}
			if r.Failed() {
				return
			}
		}
	}
}

// ---- re-entrancy ------------------------------------------------------------------------------------------------------

type reCall struct {
	id     int
	seq    uint16
	events []string
	want   string // "" = outstanding
	script []string
}

type reRun struct {
	cli   *qnet.RpcClient
	base  time.Time
	R     *hxlib.Rand
	calls []*reCall
	fails []fail
	depth int
	trace []string
}

func (x *reRun) failf(key, format string, a ...interface{}) {
	x.fails = append(x.fails, fail{key, fmt.Sprintf(format, a...)})
}

func (x *reRun) call() {
	c := &reCall{id: len(x.calls)}
	x.calls = append(x.calls, c)
	for k := x.R.Intn(3); k > 0; k-- {
		c.script = append(c.script, []string{"call", "dispatch", "dup", "sweep-reap", "reap", "dispatch", "late"}[x.R.Intn(7)])
	}
	err := x.cli.AsyncCall(fatchoy.MakeNodeID(1, uint16(c.id)), reqOf(c.id), func(m proto.Message, ec int32) error {
		c.events = append(c.events, fmt.Sprintf("%s/%d", msgText(m), ec))
		if x.depth < 4 {
			x.depth++
			for _, a := range c.script {
				x.act(a, c)
			}
			x.depth--
		}
		if c.id%3 == 0 {
			return deepErr(20)
		}
		return nil
	})
	if err != nil {
		x.failf("call-refused", "call %d was refused", c.id)
		return
	}
	select {
	case pkt := <-x.cli.PendingQueue():
		c.seq = pkt.Seq()
	default:
		x.failf("queue-order", "call %d queued no request", c.id)
	}
	x.trace = append(x.trace, fmt.Sprintf("%*scall %d (seq %d)", 2*x.depth, "", c.id, c.seq))
}

func (x *reRun) reply(c *reCall, code int32) fatchoy.IPacket {
	p := packet.New(cmdMsg, c.seq, 0, nil)
	if code != 0 {
		p.SetErrno(code)
	} else {
		b, _ := proto.Marshal(wrapperspb.String(fmt.Sprintf("ack-%d", 900+c.id)))
		p.SetBody(b)
	}
	return p
}

func (x *reRun) act(a string, self *reCall) {
	var out []*reCall
	var gone []*reCall
	for _, c := range x.calls {
		if c.seq == 0 {
			continue
		}
		if c.want == "" {
			out = append(out, c)
		} else {
			gone = append(gone, c)
		}
	}
	ind := fmt.Sprintf("%*s", 2*x.depth, "")
	switch a {
	case "call":
		if len(x.calls) < 40 {
			x.call()
		}
	case "dispatch":
		if len(out) == 0 {
			return
		}
		c := out[x.R.Intn(len(out))]
		code := int32(0)
		c.want = fmt.Sprintf("%d/0", 900+c.id)
		if x.R.Chance(1, 3) {
			code = int32(x.R.Range(1, 23))
			c.want = fmt.Sprintf("nil/%d", code)
		}
		x.trace = append(x.trace, fmt.Sprintf("%sdispatch reply of call %d (code %d)", ind, c.id, code))
		before := len(c.events)
		if p := hxlib.Guard(func() { x.cli.Dispatch(x.reply(c, code)) }); p != "" {
			x.failf("panic:dispatch", "Dispatch (nesting depth %d) panicked: %s", x.depth, p)
		}
		if len(c.events) != before+1 {
			x.failf("no-completion", "call %d (seq %d): its reply, dispatched at nesting depth %d (from inside %s), produced %d completion(s)", c.id, c.seq, x.depth, whose(self), len(c.events)-before)
		}
	case "dup", "late":
		c := self
		if a == "late" && len(gone) > 0 {
			c = gone[x.R.Intn(len(gone))]
		}
		if c == nil {
			return
		}
		x.trace = append(x.trace, fmt.Sprintf("%sdispatch a second reply for call %d (already completed or expired)", ind, c.id))
		before := len(c.events)
		var err error
		hxlib.Guard(func() { err = x.cli.Dispatch(x.reply(c, 0)) })
		if err == nil || len(c.events) != before {
			x.failf("unmatched-response-completed", "a reply for call %d (seq %d), which is already completed or expired, dispatched from inside %s, was matched (err=%v, %d completion(s))", c.id, c.seq, whose(self), err, len(c.events)-before)
		}
	case "sweep-reap", "reap":
		if a == "sweep-reap" {
			x.trace = append(x.trace, ind+"sweep at +2h")
			x.cli.VerifSweep(x.base.Add(2 * time.Hour))
			for _, c := range out {
				c.want = fmt.Sprintf("nil/%d", codeTimeout)
			}
		}
		x.trace = append(x.trace, ind+"ReapTimeout")
		if p := hxlib.Guard(func() { x.cli.ReapTimeout() }); p != "" {
			x.failf("panic:reap", "ReapTimeout (nesting depth %d) panicked: %s", x.depth, p)
		}
	}
}

func whose(c *reCall) string {
	if c == nil {
		return "the main loop"
	}
	return fmt.Sprintf("the callback of call %d", c.id)
}

func runReentrant(seed uint64) (fails []fail, trace []string) {
	x := &reRun{cli: qnet.NewRpcClient(context.Background(), 64), base: time.Now(), R: hxlib.NewRand(seed)}
	x.cli.VerifSetCounter(uint16(x.R.Pick(0, 65530, 65534, 30000)))
	for i := x.R.Range(3, 8); i > 0; i-- {
		x.call()
	}
	for i := x.R.Range(2, 8); i > 0 && len(x.fails) == 0; i-- {
		x.act([]string{"dispatch", "dispatch", "dispatch", "sweep-reap", "call", "late", "reap"}[x.R.Intn(7)], nil)
	}
	x.depth = 99 // the final sweep: callbacks run, their scripts do not
	x.cli.VerifSweep(x.base.Add(3 * time.Hour))
	for _, c := range x.calls {
		if c.want == "" && c.seq != 0 {
			c.want = fmt.Sprintf("nil/%d", codeTimeout)
		}
	}
	hxlib.Guard(func() { x.cli.ReapTimeout() })
	for _, c := range x.calls {
		if c.seq == 0 {
			continue
		}
		switch {
		case len(c.events) == 0:
			x.failf("never-completed", "call %d (seq %d) was never completed: neither by a reply nor by the sweeps + reaps (callbacks re-entering the client)", c.id, c.seq)
		case len(c.events) > 1:
			x.failf("completed-twice", "call %d (seq %d) was completed %d times: %v (callbacks re-entering the client)", c.id, c.seq, len(c.events), c.events)
		case c.events[0] != c.want:
			x.failf("wrong-completion", "call %d (seq %d) was completed with %s, the property demands %s (callbacks re-entering the client)", c.id, c.seq, c.events[0], c.want)
		}
	}
	if seqs, nexp := x.cli.VerifPending(); len(seqs) != 0 || nexp != 0 {
		x.failf("pending-table", "with every call completed the pending table holds %v and the expired list %d", seqs, nexp)
	}
	return x.fails, x.trace
}

func reentrantLeg(r *hxlib.Run) {
	n := r.Scale(400, 8000)
	for i := 0; i < n; i++ {
		seed := r.R.U64()
		fs, trace := runReentrant(seed)
		r.Case()
		r.Count("reentrant:cases")
		nested := 0
		for _, t := range trace {
			if strings.HasPrefix(t, "  ") {
				nested++
			}
		}
		r.CountN("reentrant:client-calls-from-inside-a-callback", nested)
		if nested > 0 {
			r.NonTrivial(fmt.Sprintf("reentrant/%d", seed))
		}
		for _, f := range fs {
			r.Fail(f.key, f.what+" — history: "+strings.Join(trace, " | "), Case{Kind: "reentrant", Seed: seed})
		}
		if len(fs) > 0 {
			return
		}
	}
}

// ---- held outputs ---------------------------------------------------------------------------------------------------------

func runHeld(c Case, tmo time.Duration) (fails []fail) {
	failf := func(key, format string, a ...interface{}) { fails = append(fails, fail{key, fmt.Sprintf(format, a...)}) }
	R := hxlib.NewRand(c.Seed)
	cli := qnet.NewRpcClient(context.Background(), c.Cap)
	base := time.Now()
	cli.VerifSetCounter(uint16(R.Pick(0, 65500, 65534)))
	type held struct {
		id   int
		rc   *qnet.RpcContext // blocking
		msg  proto.Message    // async
		want string
		ec   int32
	}
	var keep []*held
	read := func(h *held) string {
		if h.rc != nil {
			e := summarize(h.rc)
			return fmt.Sprintf("%s/%d", e.msg, e.ec)
		}
		return fmt.Sprintf("%s/%d", msgText(h.msg), h.ec)
	}
	id := 0
	one := func(hold bool) {
		id++
		me := id
		h := &held{id: me}
		block := R.Chance(1, 2)
		done := make(chan struct{})
		if block {
			go func() { h.rc = cli.Call(fatchoy.MakeNodeID(1, uint16(me)), reqOf(me)); close(done) }()
		} else {
			go func() {
				cli.AsyncCall(fatchoy.MakeNodeID(1, uint16(me)), reqOf(me), func(m proto.Message, ec int32) error { h.msg, h.ec = m, ec; close(done); return nil })
			}()
		}
		var seq uint16
		select {
		case pkt := <-cli.PendingQueue():
			seq = pkt.Seq()
		case <-time.After(tmo):
			failf("hang:call", "call %d did not queue its request within %v", me, tmo)
			return
		}
		switch x := R.Intn(8); {
		case x < 5:
			reply := packet.New(cmdMsg, seq, 0, nil)
			b, _ := proto.Marshal(wrapperspb.String(fmt.Sprintf("ack-%d", 7000+me)))
			reply.SetBody(b)
			h.want = fmt.Sprintf("%d/0", 7000+me)
			cli.Dispatch(reply)
		case x < 7:
			reply := packet.New(cmdMsg, seq, 0, nil)
			code := int32(R.Range(1, 23))
			reply.SetErrno(code)
			h.want = fmt.Sprintf("nil/%d", code)
			if block {
				h.want = fmt.Sprintf("-/%d", code)
			}
			cli.Dispatch(reply)
		default:
			cli.VerifSweep(base.Add(2 * time.Hour))
			cli.ReapTimeout()
			h.want = fmt.Sprintf("nil/%d", codeTimeout)
			if block {
				h.want = fmt.Sprintf("-/%d", codeTimeout)
			}
		}
		select {
		case <-done:
		case <-time.After(tmo):
			failf("no-completion", "call %d (seq %d) was not completed within %v", me, seq, tmo)
			return
		}
		if got := read(h); got != h.want {
			failf("wrong-completion", "call %d (seq %d) was completed with %s, the property demands %s", me, seq, got, h.want)
			return
		}
		if hold {
			keep = append(keep, h)
		}
	}
	for _, k := range []int{1, 2, 8, 64} {
		one(true)
		for i := 0; i < k && len(fails) == 0; i++ {
			one(i%16 == 3)
		}
		for _, h := range keep {
			if got := read(h); got != h.want && len(fails) < 3 {
				failf("held-completion-changed", "call %d was completed with %s; read again after further calls on the same client (%d calls made by now) its completion reads %s", h.id, h.want, id, got)
			}
		}
		if len(fails) > 0 {
			return
		}
	}
	return
}

func heldLeg(r *hxlib.Run, tmo time.Duration) {
	for i := 0; i < r.Scale(6, 120); i++ {
		c := Case{Kind: "held", Cap: r.R.Pick(0, 1, 8), Seed: r.R.U64()}
		r.Case()
		r.Count("held:cases")
		fs := runHeld(c, tmo)
		for _, f := range fs {
			r.Fail(f.key, f.what, c)
		}
		if len(fs) > 0 {
			return
		}
	}
}
