// hx_c15: correspondence harness + oracle for C15 (every RPC is completed exactly once).
//
// Leg 1 (det): one goroutine drives the real RpcClient through generated op lists (calls, request
// packets taken from PendingQueue, responses in any order with duplicates / unknown / zero sequence
// numbers, expiry sweeps at chosen instants through hook H4, reaps, counter pre-positioned around the
// 16-bit wrap); the same lines go to the Lean LTS and the answers are diffed by ./check. The deadline
// of each call is read back through the hook and travels in the op line (the clock is a parameter of
// the model). Leg 2: all 65 535 sequence numbers outstanding. Leg 3: a call blocked on the full queue.
// Leg 4: many caller goroutines against one dispatcher (oracle only).
package main

import (
	"fmt"
	"io"
	"log"
	"strings"
	"time"

	"verifharness/hxlib"
)

const farFuture = int64(3600e9)

type detRun struct {
	s     *sim
	lines [][2]string
	ops   []string
}

func (d *detRun) step(op string) string {
	full, a := d.s.do(op)
	d.lines = append(d.lines, [2]string{full, a})
	d.ops = append(d.ops, full)
	return a
}

// final: everything still outstanding must now time out, and every call must have exactly one completion
func (d *detRun) finish() {
	if d.s.cli == nil || d.s.hung {
		return
	}
	d.step(fmt.Sprintf("sweep now=%d", farFuture))
	d.step("reap")
	d.step("state")
	for _, c := range d.s.calls {
		if c.refused {
			continue
		}
		switch n := len(d.s.eventsOf(c.id)); {
		case n == 0:
			d.s.failf("never-completed", "call %d (seq %d) was never completed: neither by a response nor by the timeout sweep at +1h (%d calls made)", c.id, c.seq, len(d.s.calls))
		case n > 1:
			d.s.failf("completed-twice", "call %d (seq %d) was completed %d times", c.id, c.seq, n)
		}
	}
}

func genDet(rr *hxlib.Rand, cap, length int, wrap bool, tmo time.Duration) *detRun {
	d := &detRun{s: newSim(cap, tmo)}
	s := d.s
	d.step(fmt.Sprintf("new cap=%d", cap))
	switch rr.Intn(4) {
	case 0:
		d.step(fmt.Sprintf("setcounter v=%d", rr.Range(65520, 65535)))
	case 1:
		d.step(fmt.Sprintf("setcounter v=%d", rr.Intn(65536)))
	}
	call := func() {
		mode := "async"
		if rr.Chance(3, 10) {
			mode = "block"
		}
		d.step("call mode=" + mode)
	}
	completed := func() []*callRec {
		var v []*callRec
		for _, c := range s.calls {
			if !c.refused && c.expect != nil {
				v = append(v, c)
			}
		}
		return v
	}
	reply := func(seq int) string {
		switch x := rr.Intn(10); {
		case x < 5:
			return fmt.Sprintf("dispatch seq=%d err=0 code=0 cmd=%d dec=%d", seq, cmdMsg, rr.Intn(1000))
		case x < 8:
			return fmt.Sprintf("dispatch seq=%d err=1 code=%d cmd=%d dec=fail", seq, rr.Range(1, 23), cmdMsg)
		case x < 9:
			return fmt.Sprintf("dispatch seq=%d err=0 code=0 cmd=%d dec=fail", seq, cmdUnknown)
		}
		return fmt.Sprintf("dispatch seq=%d err=0 code=0 cmd=%d dec=fail", seq, cmdMsg)
	}
	for i := 0; i < length && !s.hung; i++ {
		out := s.outstanding()
		switch x := rr.Intn(20); {
		case x < 7:
			if len(s.fifo) < cap {
				call()
			} else {
				d.step("pop")
			}
		case x < 9:
			d.step("pop")
		case x < 15:
			switch y := rr.Intn(20); {
			case y < 11 && len(out) > 0:
				d.step(reply(int(out[rr.Intn(len(out))].seq)))
			case y < 14 && len(completed()) > 0: // duplicate or late response
				cs := completed()
				d.step(reply(int(cs[rr.Intn(len(cs))].seq)))
			case y < 17:
				d.step(reply(rr.Intn(65536)))
			case y < 18:
				d.step(reply(0))
			default:
				if len(out) > 0 {
					d.step(reply(int(out[rr.Intn(len(out))].seq)))
				}
			}
		case x < 17:
			switch y := rr.Intn(4); {
			case y == 0 || len(out) == 0:
				d.step("sweep now=-1")
			case y == 1:
				d.step(fmt.Sprintf("sweep now=%d", farFuture))
			default:
				o := out[rr.Intn(len(out))]
				d.step(fmt.Sprintf("sweep now=0 ref=%d:%d", o.id, rr.Pick(0, 1))) // resolved to the call's deadline (+1)
			}
		case x < 19:
			if nAsync := s.dueAsync(); nAsync > 0 && rr.Chance(1, 2) {
				d.runBlock(randomBlock(rr, s, nAsync))
			} else {
				d.step("reap")
			}
		default:
			d.step("state")
		}
		// the 16-bit wrap with calls outstanding: move the counter just below an outstanding call's number
		if wrap && i == length/2 {
			if out := s.outstanding(); len(out) > 0 {
				o := out[rr.Intn(len(out))]
				d.step(fmt.Sprintf("setcounter v=%d", (int(o.seq)+65536-1-rr.Intn(3))%65536))
				for k := 0; k < 4 && len(s.fifo) < cap; k++ {
					call()
				}
			}
		}
	}
	d.finish()
	return d
}

// dueAsync: asynchronous calls a ReapTimeout begun now would complete
func (s *sim) dueAsync() int {
	n := 0
	for _, c := range s.calls {
		if c.expect != nil && c.timingOut() && !c.batch && !c.block && len(s.eventsOf(c.id)) == 0 {
			n++
		}
	}
	return n
}

func scriptOp(rr *hxlib.Rand, s *sim) string {
	out := s.outstanding()
	switch x := rr.Intn(10); {
	case x < 4:
		return fmt.Sprintf("sweep now=%d", farFuture)
	case x < 5 && len(out) > 0:
		return fmt.Sprintf("sweep now=0 ref=%d:%d", out[rr.Intn(len(out))].id, rr.Pick(0, 1))
	case x < 7:
		if len(s.fifo) < s.cap-2 {
			return "call mode=" + []string{"async", "async", "block"}[rr.Intn(3)]
		}
		return "pop"
	case x < 8 && len(out) > 0:
		return fmt.Sprintf("dispatch seq=%d err=1 code=%d cmd=%d dec=fail", out[rr.Intn(len(out))].seq, rr.Range(1, 23), cmdMsg)
	case x < 9:
		return "reap"
	}
	return "state"
}

// randomBlock: a ReapTimeout with random scripts in some of its callbacks
func randomBlock(rr *hxlib.Rand, s *sim, nAsync int) []string {
	tpl := []string{"strip"}
	if rr.Chance(1, 3) {
		tpl[0] = "strip other=1"
	}
	for j := 0; j < nAsync; j++ {
		tpl = append(tpl, "complete")
		if rr.Chance(1, 2) {
			for k := rr.Range(1, 3); k > 0; k-- {
				tpl = append(tpl, scriptOp(rr, s))
			}
		}
	}
	return append(tpl, "reap-end")
}

// genMidReap: a batch of nA expired calls is being reaped; inside the callback of one of them a sweep expires
// nB >= 2 further calls (and, sometimes, more happens: calls, responses, a nested ReapTimeout). Every call of
// both groups must be completed exactly once, with the timeout code.
func genMidReap(rr *hxlib.Rand, nA, nB int, tmo time.Duration) *detRun {
	d := &detRun{s: newSim(128, tmo)}
	s := d.s
	d.step("new cap=128")
	if rr.Chance(1, 3) {
		d.step(fmt.Sprintf("setcounter v=%d", rr.Range(65500, 65535)))
	}
	nAsync := 0
	for i := 0; i < nA; i++ {
		if i >= 2 && rr.Chance(1, 4) {
			d.step("call mode=block")
		} else {
			d.step("call mode=async")
			nAsync++
		}
	}
	lastA := len(s.calls) - 1
	for i := 0; i < nB; i++ {
		d.step("call mode=" + []string{"async", "async", "async", "block"}[rr.Intn(4)])
	}
	for k := rr.Intn(3); k > 0; k-- {
		d.step("pop")
	}
	d.step(fmt.Sprintf("sweep now=0 ref=%d:1", lastA))
	tpl := []string{"strip"}
	if rr.Chance(1, 3) {
		tpl[0] = "strip other=1"
	}
	at := 0
	if rr.Chance(1, 3) {
		at = rr.Intn(nAsync)
	}
	for j := 0; j < nAsync; j++ {
		tpl = append(tpl, "complete")
		if j == at {
			tpl = append(tpl, fmt.Sprintf("sweep now=%d", farFuture))
			for k := rr.Intn(3); k > 0; k-- {
				tpl = append(tpl, scriptOp(rr, s))
			}
		} else if rr.Chance(1, 6) {
			tpl = append(tpl, scriptOp(rr, s))
		}
	}
	d.runBlock(append(tpl, "reap-end"))
	d.step("state")
	d.step("reap")
	d.finish()
	return d
}

func replayDet(c Case, tmo time.Duration) *detRun {
	d := &detRun{s: newSim(c.Cap, tmo)}
	clean := func(op string) string {
		ws := strings.Fields(op)
		if len(ws) > 0 && ws[0] == "call" {
			return "call mode=" + kvStr(ws, "mode") // the deadline is read back again
		}
		return op
	}
	for i := 0; i < len(c.Ops) && !d.s.hung; i++ {
		op := clean(c.Ops[i])
		if strings.HasPrefix(op, "strip") {
			j := i
			var tpl []string
			for ; j < len(c.Ops); j++ {
				tpl = append(tpl, clean(c.Ops[j]))
				if c.Ops[j] == "reap-end" {
					break
				}
			}
			if j == len(c.Ops) {
				tpl = append(tpl, "reap-end")
			}
			d.runBlock(tpl)
			i = j
			continue
		}
		d.step(op)
	}
	// the recorded list already ends with the final sweep/reap/state; run the final check only
	for _, cc := range d.s.calls {
		if cc.refused {
			continue
		}
		switch n := len(d.s.eventsOf(cc.id)); {
		case n == 0 && strings.HasPrefix(lastOp(c.Ops), "state"):
			d.s.failf("never-completed", "call %d (seq %d) was never completed: neither by a response nor by the timeout sweep at +1h (%d calls made)", cc.id, cc.seq, len(d.s.calls))
		case n > 1:
			d.s.failf("completed-twice", "call %d (seq %d) was completed %d times", cc.id, cc.seq, n)
		}
	}
	return d
}

func lastOp(ops []string) string {
	if len(ops) == 0 {
		return ""
	}
	return ops[len(ops)-1]
}

func report(r *hxlib.Run, d *detRun, c Case, emit bool) bool {
	if emit {
		for _, l := range d.lines {
			r.Op(l[0], l[1])
		}
	}
	r.Case()
	nt := false
	seen := map[string]bool{}
	inBlock := false
	for _, l := range d.lines {
		w := strings.Fields(l[0])[0]
		r.Count("op:" + w)
		switch {
		case w == "strip":
			inBlock = true
		case w == "reap-end":
			inBlock = false
		case inBlock && w == "sweep":
			r.Count("mid-reap:sweep-inside-reap")
			nt = true
		case inBlock && w == "reap":
			r.Count("mid-reap:nested-reap")
		}
		switch {
		case w == "dispatch" && l[1] == "unmatched":
			r.Count("dispatch:unmatched")
			nt = true
		case w == "dispatch" && strings.Contains(l[1], "ec=") && !strings.Contains(l[1], "ec=0"):
			r.Count("dispatch:error-reply")
		case w == "dispatch" && strings.HasPrefix(l[1], "ok ret"):
			r.Count("dispatch:released-blocking-caller")
		case w == "reap" && !strings.HasPrefix(l[1], "n=0"):
			r.Count("reap:overdue-calls")
			nt = true
		case w == "call" && strings.HasPrefix(l[1], "refused"):
			r.Count("call:refused")
		}
		seen[w] = true
	}
	if nt {
		r.NonTrivial(fmt.Sprintf("%s/%d/%s", c.Kind, c.Cap, strings.Join(c.Ops, ";")))
	}
	for _, f := range d.s.fails {
		r.Fail(f.key, f.what, c)
	}
	return len(d.s.fails) > 0
}

func main() {
	r := hxlib.Start("C15", "an op list on one RpcClient (or a many-goroutine run); non-trivial when a response was unmatched (duplicate, unknown, zero or expired sequence number) or a sweep found an overdue call; distinct by op list")
	defer r.Finish()
	log.SetOutput(io.Discard)
	tmo := 3 * time.Second
	if r.Replay != "" {
		var c Case
		r.LoadReplay(&c)
		switch c.Kind {
		case "det":
			d := replayDet(c, tmo)
			report(r, d, c, true)
		case "exhaust":
			runExhaust(r)
		case "blocked":
			runBlocked(r, tmo)
		case "mutex-held":
			runMutexHeld(r, tmo)
		case "typed":
			r.Case()
			for _, f := range runTyped(*c.Typed, tmo) {
				r.Fail(f.key, f.what, c)
			}
		case "fields":
			r.Case()
			for _, f := range runFields(*c.Fields, tmo) {
				r.Fail(f.key, f.what, c)
			}
		case "lifecycle":
			r.Case()
			for _, f := range runLifecycle(*c.Life, tmo) {
				r.Fail(f.key, f.what, c)
			}
		case "held":
			r.Case()
			for _, f := range runHeld(c, tmo) {
				r.Fail(f.key, f.what, c)
			}
		case "reentrant":
			r.Case()
			fs, trace := runReentrant(c.Seed)
			for _, f := range fs {
				r.Fail(f.key, f.what+" — history: "+strings.Join(trace, " | "), c)
			}
		case "period":
			r.Case()
			for _, f := range runPeriod(c) {
				r.Fail(f.key, f.what, c)
			}
		case "scale":
			r.Case()
			for _, f := range runScale(c, tmo) {
				r.Fail(f.key, f.what, c)
			}
		case "aged":
			r.Case()
			for _, f := range startAged().finish(tmo) {
				r.Fail(f.key, f.what, c)
			}
		default:
			runConc(r, c, tmo)
		}
		r.Sample(c)
		return
	}
	typedLeg(r, tmo)
	// every tier: reply fields x call destination, lifecycle orders, callbacks re-entering the client (diversity.go)
	fieldsLeg(r, tmo)
	lifecycleLeg(r, tmo)
	reentrantLeg(r)
	heldLeg(r, tmo)
	if r.Search {
		aged := startAged()
		searchLegs(r, tmo)
		if r.Failed() {
			r.Note("the search legs found a failing input; the ordinary generators were not run again")
			return
		}
		defer agedLeg(r, aged, tmo) // after the ordinary generators: by then the calls are older than 60 s
	}
	bad := 0
	n := r.Scale(400, 8000)
	for i := 0; i < n && bad < 4; i++ {
		cap := r.R.Pick(1, 2, 4, 8, 16, 64)
		rr := r.R.Fork()
		d := genDet(rr, cap, r.R.Range(5, 120), i%2 == 0, tmo)
		c := Case{Kind: "det", Cap: cap, Ops: d.ops}
		if report(r, d, c, true) {
			bad++
		}
		if i < 3 {
			r.Sample(c)
		}
	}
	// a sweep (and more) inside a ReapTimeout that is still completing its batch: batches of 2..8 and of more
	// than 8 expired calls (the expired list starts with capacity 8), 2..10 further calls expiring meanwhile
	for i := 0; i < r.Scale(150, 3000) && bad < 4; i++ {
		nA := r.R.Range(2, 8)
		if i%3 == 2 {
			nA = r.R.Range(9, 24)
		}
		d := genMidReap(r.R.Fork(), nA, r.R.Range(2, 10), tmo)
		c := Case{Kind: "det", Cap: 128, Ops: d.ops}
		r.Count("mid-reap:scenarios")
		if report(r, d, c, true) {
			bad++
		}
		if i == 0 {
			r.Sample(c)
		}
	}
	if bad == 0 || r.Search {
		runExhaust(r)
		runBlocked(r, tmo)
		for i := r.Scale(3, 25); i > 0; i-- {
			if runMutexHeld(r, tmo) {
				break
			}
		}
		m := r.Scale(30, 400)
		for i := 0; i < m; i++ {
			c := Case{Kind: "conc", Cap: r.R.Pick(1, 4, 64, 1024), N: r.R.Pick(10, 100, 1000), G: r.R.Range(2, 8), Seed: r.R.U64()}
			if runConc(r, c, tmo) {
				break
			}
		}
	}
}
