package main

// Failing-input search legs of C15 (only with -search). Classes they are aimed at:
//
//	typed     (unusual parameters)  request types that follow the library's naming rule (XxxReq with a registered XxxAck,
//	                                XxxReq without one, a type without suffix) crossed with replies whose command is
//	                                the pairing ack, ANOTHER registered type, a well-known type or unknown; bodies
//	                                of 0 B, 600 B, 5 KiB, 70 KiB; async and blocking; timeouts of typed calls. The
//	                                callback / DecodeAck must show the reply decoded by the reply's own command
//	period    (period)              one call stays outstanding while EXACTLY 2^16, 2^17, 2^18, 2^20 further calls are made
//	                                and answered (the 16-bit counter wraps 1, 2, 4, 16 times); then its reply arrives
//	scale     (scale)               129 .. 60000 calls outstanding at once, all expired by ONE sweep (the expired list
//	                                starts with capacity 8), reaped, late replies unmatched
//	slow      (schedule)            many callers on a queue of capacity 1..2 whose consumer takes a packet only every
//	                                0.2 .. 3 ms (callers stand blocked in the send, holding the client's mutex) while the
//	                                dispatcher answers and a third goroutine sweeps
//	aged      (schedule)            calls that are REALLY older than their 60 s time to live (wall clock) and not yet
//	                                swept: a reply must still complete its call; the sweep at the real time and the
//	                                reap then complete the others exactly once, with the timeout
import (
	"context"
	"fmt"
	"strings"
	"sync"
	"time"

	"google.golang.org/protobuf/proto"
	"google.golang.org/protobuf/types/known/wrapperspb"

	"verifharness/hxlib"

	fatchoy "qchen.fun/fatchoy"
	"qchen.fun/fatchoy/packet"
	"qchen.fun/fatchoy/qnet"
)

// Go types whose NAMES follow the library's rule (the registry keys on the Go type name); each is a well-known
// protobuf message underneath, so no protoc step is needed.
type EchoReq struct{ wrapperspb.StringValue }
type EchoAck struct{ wrapperspb.StringValue }
type LoneReq struct{ wrapperspb.StringValue } // no LoneAck is registered
type CountAck struct{ wrapperspb.Int64Value }
type NoteNtf struct{ wrapperspb.StringValue }

const (
	cmdEchoReq  = 2001
	cmdEchoAck  = 2002
	cmdLoneReq  = 2003
	cmdCountAck = 2004
	cmdNoteNtf  = 2005
)

func init() {
	packet.VerifRegister(cmdEchoReq, &EchoReq{})
	packet.VerifRegister(cmdEchoAck, &EchoAck{})
	packet.VerifRegister(cmdLoneReq, &LoneReq{})
	packet.VerifRegister(cmdCountAck, &CountAck{})
	packet.VerifRegister(cmdNoteNtf, &NoteNtf{})
}

// describe: the Go type and content of a decoded reply
func describe(m proto.Message) string {
	switch v := m.(type) {
	case nil:
		return "nil"
	case *EchoAck:
		return "EchoAck:" + digest(v.Value)
	case *CountAck:
		return fmt.Sprintf("CountAck:%d", v.Value)
	case *NoteNtf:
		return "NoteNtf:" + digest(v.Value)
	case *EchoReq:
		return "EchoReq:" + digest(v.Value)
	case *LoneReq:
		return "LoneReq:" + digest(v.Value)
	case *wrapperspb.StringValue:
		return "StringValue:" + digest(v.Value)
	}
	return fmt.Sprintf("%T", m)
}

func digest(s string) string {
	if len(s) <= 16 {
		return s
	}
	return fmt.Sprintf("%s..(%d bytes)", s[:8], len(s))
}

type typedCase struct {
	Req   string `json:"req"`   // echo | lone | plain
	Reply string `json:"reply"` // echo-ack | count-ack | note | plain | unknown | errno | timeout
	Block bool   `json:"block"`
	Size  int    `json:"size"`
}

func runTyped(tc typedCase, tmo time.Duration) (fails []fail) {
	failf := func(key, format string, a ...interface{}) { fails = append(fails, fail{key, fmt.Sprintf(format, a...)}) }
	cli := qnet.NewRpcClient(context.Background(), 4)
	base := time.Now()
	text := strings.Repeat("q", tc.Size)
	var req proto.Message
	switch tc.Req {
	case "echo":
		req = &EchoReq{StringValue: wrapperspb.StringValue{Value: "req" + text}}
	case "lone":
		req = &LoneReq{StringValue: wrapperspb.StringValue{Value: "req" + text}}
	default:
		req = wrapperspb.String("req" + text)
	}
	type comp struct {
		msg string
		ec  int32
	}
	got := make(chan comp, 4)
	node := fatchoy.MakeNodeID(1, 7)
	if tc.Block {
		go func() {
			var c comp
			if p := hxlib.Guard(func() {
				rc := cli.Call(node, req)
				e := summarize2(rc)
				c = comp{e.msg, e.ec}
			}); p != "" {
				c = comp{"panic:" + p, -1}
			}
			got <- c
		}()
	} else {
		if p := hxlib.Guard(func() {
			cli.AsyncCall(node, req, func(m proto.Message, ec int32) error { got <- comp{describe(m), ec}; return nil })
		}); p != "" {
			failf("panic:call", "AsyncCall(%s request) panicked: %s", tc.Req, p)
			return
		}
	}
	var pkt fatchoy.IPacket
	select {
	case pkt = <-cli.PendingQueue():
	case <-time.After(tmo):
		failf("hang:call", "the %s request did not reach the queue within %v", tc.Req, tmo)
		return
	}
	seq := pkt.Seq()
	body := strings.Repeat("r", tc.Size)
	var want comp
	var reply fatchoy.IPacket
	switch tc.Reply {
	case "echo-ack":
		b, _ := proto.Marshal(wrapperspb.String("ack" + body))
		reply = packet.New(cmdEchoAck, seq, 0, nil)
		reply.SetBody(b)
		want = comp{"EchoAck:" + digest("ack"+body), 0}
	case "count-ack":
		b, _ := proto.Marshal(wrapperspb.Int64(int64(4200 + tc.Size)))
		reply = packet.New(cmdCountAck, seq, 0, nil)
		reply.SetBody(b)
		want = comp{fmt.Sprintf("CountAck:%d", 4200+tc.Size), 0}
	case "note":
		b, _ := proto.Marshal(wrapperspb.String("ntf" + body))
		reply = packet.New(cmdNoteNtf, seq, 0, nil)
		reply.SetBody(b)
		want = comp{"NoteNtf:" + digest("ntf"+body), 0}
	case "plain":
		b, _ := proto.Marshal(wrapperspb.String("ack-" + body))
		reply = packet.New(cmdMsg, seq, 0, nil)
		reply.SetBody(b)
		want = comp{"StringValue:" + digest("ack-"+body), 0}
	case "unknown":
		reply = packet.New(cmdUnknown, seq, 0, nil)
		reply.SetBody([]byte("x" + body))
		want = comp{"nil", codeInternal}
		if tc.Block {
			want = comp{"decode-failed", 0}
		}
	case "errno":
		reply = packet.New(cmdEchoAck, seq, 0, nil)
		reply.SetErrno(9)
		want = comp{"nil", 9}
	case "timeout":
		cli.VerifSweep(base.Add(2 * time.Hour))
		if p := hxlib.Guard(func() { cli.ReapTimeout() }); p != "" {
			failf("panic:reap", "ReapTimeout of a %s request panicked: %s", tc.Req, p)
			return
		}
		want = comp{"nil", codeTimeout}
	}
	if reply != nil {
		if p := hxlib.Guard(func() { cli.Dispatch(reply) }); p != "" {
			failf("panic:dispatch", "Dispatch of a %s reply to a %s request panicked: %s", tc.Reply, tc.Req, p)
			return
		}
	}
	select {
	case c := <-got:
		if c != want {
			key := "wrong-completion:typed"
			if tc.Reply == "timeout" {
				key = "timeout-code"
			}
			failf(key, "%s request (%s, %d-byte texts), reply %s: completed with (%s, ec=%d), the property demands the reply decoded by its own command: (%s, ec=%d)",
				tc.Req, map[bool]string{true: "blocking", false: "async"}[tc.Block], tc.Size, tc.Reply, c.msg, c.ec, want.msg, want.ec)
		}
	case <-time.After(tmo):
		failf("no-completion", "%s request, reply %s: no completion within %v", tc.Req, tc.Reply, tmo)
		return
	}
	select {
	case c := <-got:
		failf("completed-twice", "%s request, reply %s: completed a second time with (%s, ec=%d)", tc.Req, tc.Reply, c.msg, c.ec)
	case <-time.After(200 * time.Microsecond):
	}
	return
}

// summarize2: what a blocking caller sees, with the Go type of the decoded reply
func summarize2(rc *qnet.RpcContext) event {
	e := summarize(rc)
	if e.msg == "fail" {
		return event{kind: "ret", msg: "decode-failed"}
	}
	if e.ec != 0 {
		return event{kind: "ret", msg: "nil", ec: e.ec}
	}
	var m proto.Message
	if p := hxlib.Guard(func() { m, _ = rc.DecodeAck() }); p != "" {
		return event{kind: "ret", msg: "panic", ec: -1}
	}
	return event{kind: "ret", msg: describe(m)}
}

// ---- period -----------------------------------------------------------------------------------------------------

func runPeriod(c Case) (fails []fail) {
	failf := func(key, format string, a ...interface{}) { fails = append(fails, fail{key, fmt.Sprintf(format, a...)}) }
	R := hxlib.NewRand(c.Seed)
	cli := qnet.NewRpcClient(context.Background(), 4)
	cli.VerifSetCounter(uint16(R.Intn(65536)))
	node := fatchoy.MakeNodeID(1, 1)
	firstN, curN := 0, 0
	var firstMsg, curMsg string
	cli.AsyncCall(node, reqOf(0), func(m proto.Message, ec int32) error { firstN++; firstMsg = fmt.Sprintf("%s/%d", msgText(m), ec); return nil })
	first := (<-cli.PendingQueue()).Seq()
	cb := func(m proto.Message, ec int32) error { curN++; curMsg = fmt.Sprintf("%s/%d", msgText(m), ec); return nil }
	ackBody, _ := proto.Marshal(wrapperspb.String("ack-1"))
	for k := 1; k <= c.N && len(fails) == 0; k++ {
		curN = 0
		if err := cli.AsyncCall(node, reqOf(1), cb); err != nil {
			failf("call-refused", "call %d of exactly %d was refused with 1 call outstanding", k, c.N)
			break
		}
		seq := (<-cli.PendingQueue()).Seq()
		if seq == 0 {
			failf("seq-zero", "call %d of exactly %d was given sequence number 0", k, c.N)
		}
		if seq == first {
			failf("seq-reuse", "call %d of exactly %d was given sequence number %d, which the first call (still outstanding) holds", k, c.N, seq)
		}
		if k%4099 == 0 { // a stray reply now and then
			stray := packet.New(cmdMsg, seq+1, 0, nil)
			stray.SetErrno(22)
			if seq+1 != first && seq+1 != 0 && cli.Dispatch(stray) == nil {
				failf("unmatched-response-completed", "a reply with the unused sequence number %d was matched", seq+1)
			}
		}
		reply := packet.New(cmdMsg, seq, 0, nil)
		reply.SetBody(ackBody)
		cli.Dispatch(reply)
		if curN != 1 || curMsg != "1/0" || firstN != 0 {
			failf("wrong-completion", "call %d of exactly %d (seq %d): its reply produced %d completion(s) of it (%s) and %d of the first call (seq %d)", k, c.N, seq, curN, curMsg, firstN, first)
		}
	}
	if len(fails) > 0 {
		return
	}
	seqs, _ := cli.VerifPending()
	if len(seqs) != 1 || seqs[0] != first {
		failf("pending-table", "after exactly %d answered calls the pending table holds %v, the first call holds %d", c.N, seqs, first)
	}
	reply := packet.New(cmdMsg, first, 0, nil)
	b, _ := proto.Marshal(wrapperspb.String("ack-77"))
	reply.SetBody(b)
	if err := cli.Dispatch(reply); err != nil || firstN != 1 || firstMsg != "77/0" {
		failf("no-completion", "after exactly %d further calls the reply to the first call (seq %d) gave err=%v and %d completion(s) (%s)", c.N, first, err, firstN, firstMsg)
	}
	if cli.Dispatch(reply) == nil || firstN != 1 {
		failf("completed-twice", "a duplicate of the first call's reply was matched again")
	}
	return
}

// ---- scale --------------------------------------------------------------------------------------------------------

func runScale(c Case, tmo time.Duration) (fails []fail) {
	failf := func(key, format string, a ...interface{}) {
		if len(fails) < 4 {
			fails = append(fails, fail{key, fmt.Sprintf(format, a...)})
		}
	}
	R := hxlib.NewRand(c.Seed)
	cli := qnet.NewRpcClient(context.Background(), c.Cap)
	base := time.Now()
	cli.VerifSetCounter(uint16(R.Intn(65536)))
	n := c.N
	var mu sync.Mutex
	count := make([]int, n)
	codes := make([]int32, n)
	seqOf := make([]uint16, n)
	nBlock := 0
	var wg sync.WaitGroup
	for id := 0; id < n; id++ {
		id := id
		node := fatchoy.MakeNodeID(1, uint16(id))
		if id%97 == 5 && nBlock < 200 {
			nBlock++
			wg.Add(1)
			go func() {
				defer wg.Done()
				rc := cli.Call(node, reqOf(id))
				e := summarize(rc)
				mu.Lock()
				count[id]++
				codes[id] = e.ec
				mu.Unlock()
			}()
			// its packet must be the next one
		} else {
			cli.AsyncCall(node, reqOf(id), func(m proto.Message, ec int32) error {
				mu.Lock()
				count[id]++
				codes[id] = ec
				mu.Unlock()
				return nil
			})
		}
		select {
		case pkt := <-cli.PendingQueue():
			var got int
			if sv, ok := pkt.Body().(*wrapperspb.StringValue); ok {
				fmt.Sscanf(sv.Value, "req-%d", &got)
			}
			if got != id {
				failf("queue-order", "request packet of call %d where call %d was due", got, id)
				return
			}
			seqOf[id] = pkt.Seq()
		case <-time.After(tmo):
			failf("hang:call", "call %d of %d did not queue its request within %v", id, n, tmo)
			return
		}
	}
	seen := map[uint16]int{}
	for id, s := range seqOf {
		if o, dup := seen[s]; dup || s == 0 {
			failf("seq-reuse", "call %d was given sequence number %d, held by the outstanding call %d (%d outstanding)", id, s, o, n)
			return
		}
		seen[s] = id
	}
	// a tenth is answered, everything else expires in ONE sweep
	answered := map[int]bool{}
	ackBody, _ := proto.Marshal(wrapperspb.String("ack-5"))
	for id := 0; id < n; id += 10 {
		reply := packet.New(cmdMsg, seqOf[id], 0, nil)
		reply.SetBody(ackBody)
		cli.Dispatch(reply)
		answered[id] = true
	}
	cli.VerifSweep(base.Add(2 * time.Hour))
	reaped := -1
	if p := hxlib.Guard(func() { reaped = cli.ReapTimeout() }); p != "" {
		failf("panic:reap", "ReapTimeout of %d expired calls panicked: %s", n-len(answered), p)
		return
	}
	done := make(chan struct{})
	go func() { wg.Wait(); close(done) }()
	select {
	case <-done:
	case <-time.After(tmo):
		failf("blocking-caller-not-released", "blocking callers were still waiting %v after the reap of %d expired calls", tmo, n-len(answered))
		return
	}
	if reaped != n-len(answered) {
		failf("reap-count", "ReapTimeout returned %d where %d overdue calls had been swept", reaped, n-len(answered))
	}
	// late replies: unmatched
	for id := 1; id < n; id += 1013 {
		reply := packet.New(cmdMsg, seqOf[id], 0, nil)
		reply.SetBody(ackBody)
		if !answered[id] && cli.Dispatch(reply) == nil {
			failf("unmatched-response-completed", "a reply to call %d, which had timed out, was matched", id)
		}
	}
	mu.Lock()
	defer mu.Unlock()
	for id := 0; id < n; id++ {
		want := int32(codeTimeout)
		if answered[id] {
			want = 0
		}
		switch {
		case count[id] == 0:
			failf("never-completed", "call %d (seq %d) of %d was never completed: neither by its response nor by the sweep + reap", id, seqOf[id], n)
		case count[id] > 1:
			failf("completed-twice", "call %d (seq %d) was completed %d times", id, seqOf[id], count[id])
		case codes[id] != want:
			failf("timeout-code", "call %d (seq %d) was completed with code %d, want %d", id, seqOf[id], codes[id], want)
		}
	}
	return
}

// ---- aged: calls really older than their time to live ---------------------------------------------------------------

type agedRun struct {
	cli   *qnet.RpcClient
	made  time.Time
	seqs  []uint16
	mu    sync.Mutex
	comps [][]string
	wg    sync.WaitGroup
}

func startAged() *agedRun {
	a := &agedRun{cli: qnet.NewRpcClient(context.Background(), 8), made: time.Now(), comps: make([][]string, 4)}
	for id := 0; id < 4; id++ {
		id := id
		node := fatchoy.MakeNodeID(1, uint16(id))
		if id == 3 {
			a.wg.Add(1)
			go func() {
				defer a.wg.Done()
				e := summarize(a.cli.Call(node, reqOf(id)))
				a.mu.Lock()
				a.comps[id] = append(a.comps[id], fmt.Sprintf("%s/%d", e.msg, e.ec))
				a.mu.Unlock()
			}()
		} else {
			a.cli.AsyncCall(node, reqOf(id), func(m proto.Message, ec int32) error {
				a.mu.Lock()
				a.comps[id] = append(a.comps[id], fmt.Sprintf("%s/%d", msgText(m), ec))
				a.mu.Unlock()
				return nil
			})
		}
		a.seqs = append(a.seqs, (<-a.cli.PendingQueue()).Seq())
	}
	return a
}

func (a *agedRun) finish(tmo time.Duration) (fails []fail) {
	failf := func(key, format string, x ...interface{}) { fails = append(fails, fail{key, fmt.Sprintf(format, x...)}) }
	if d := time.Until(a.made.Add(61500 * time.Millisecond)); d > 0 {
		time.Sleep(d)
	}
	age := time.Since(a.made).Round(time.Second)
	reply := func(id int, txt string) error {
		p := packet.New(cmdMsg, a.seqs[id], 0, nil)
		b, _ := proto.Marshal(wrapperspb.String("ack-" + txt))
		p.SetBody(b)
		return a.cli.Dispatch(p)
	}
	get := func(id int) []string {
		a.mu.Lock()
		defer a.mu.Unlock()
		return append([]string{}, a.comps[id]...)
	}
	// a reply to a call that is older than its time to live but has not been swept: it is still outstanding
	if err := reply(0, "11"); err != nil || len(get(0)) != 1 || get(0)[0] != "11/0" {
		failf("no-completion", "a call %v old (time to live 60 s) that no sweep had expired yet: its reply gave err=%v and completions %v, the property demands exactly one completion with the reply", age, err, get(0))
	}
	a.cli.VerifSweep(time.Now())
	n := a.cli.ReapTimeout()
	if n != 3 {
		failf("reap-count", "the sweep at the real time and the reap, %v after 4 calls were made and one of them answered: ReapTimeout returned %d, want 3", age, n)
	}
	done := make(chan struct{})
	go func() { a.wg.Wait(); close(done) }()
	select {
	case <-done:
	case <-time.After(tmo):
		failf("blocking-caller-not-released", "the blocking caller was not released by the reap")
	}
	if reply(1, "12") == nil {
		failf("unmatched-response-completed", "a reply to a call that had timed out was matched")
	}
	a.cli.VerifSweep(time.Now().Add(time.Hour))
	a.cli.ReapTimeout()
	for id := 0; id < 4; id++ {
		want := fmt.Sprintf("nil/%d", codeTimeout)
		if id == 3 {
			want = fmt.Sprintf("-/%d", codeTimeout)
		}
		if id == 0 {
			want = "11/0"
		}
		switch c := get(id); {
		case len(c) == 0:
			failf("never-completed", "call %d (%v old) was never completed", id, age)
		case len(c) > 1:
			failf("completed-twice", "call %d (%v old when its reply / the sweep came) was completed %d times: %v", id, age, len(c), c)
		case c[0] != want:
			failf("wrong-completion", "call %d (%v old) was completed with %s, want %s", id, age, c[0], want)
		}
	}
	return
}

// ---- the legs -----------------------------------------------------------------------------------------------------

func searchLegs(r *hxlib.Run, tmo time.Duration) {
	t0 := time.Now()
	defer func() { r.Note("search legs took %.1f s", time.Since(t0).Seconds()) }()
	report := func(fails []fail, c Case) {
		for _, f := range fails {
			r.Fail(f.key, f.what, c)
		}
	}
	// (typed: typedLeg runs in every tier)
	// period
	for _, n := range []int{1 << 16, 1 << 17, 1 << 18, 1 << 20} {
		if r.Failed() {
			break
		}
		c := Case{Kind: "period", Cap: 4, N: n, Seed: r.R.U64()}
		r.Case()
		r.Count("search:period")
		r.CountN("search:period:calls", n)
		report(runPeriod(c), c)
	}
	// scale
	for _, n := range []int{129, 513, 4097, 20000, 60000} {
		if r.Failed() {
			break
		}
		c := Case{Kind: "scale", Cap: r.R.Pick(1, 8, 1024), N: n, Seed: r.R.U64()}
		r.Case()
		r.Count("search:scale")
		report(runScale(c, tmo), c)
	}
	// slow consumer
	for k := 0; k < 10 && !r.Failed(); k++ {
		c := Case{Kind: "conc", Cap: r.R.Pick(1, 1, 2), N: r.R.Pick(20, 40), G: r.R.Range(3, 8), Seed: r.R.U64(), SlowUS: r.R.Pick(200, 1000, 3000)}
		runConc(r, c, tmo)
		r.Count("search:slow")
	}
	r.Note("search legs: typed 3 request kinds x 7 reply kinds x async/blocking x texts of 0/600/5000/70000 bytes; period: exactly 2^16/2^17/2^18/2^20 answered calls with one call outstanding; scale: 129..60000 calls outstanding, expired by one sweep; slow: 10 many-goroutine runs on a queue of capacity 1..2 with a consumer taking a packet every 0.2..3 ms; aged: 4 calls really older than 61 s (made before the legs, judged after the ordinary generators)")
}

// typedLeg: cheap, every tier.
func typedLeg(r *hxlib.Run, tmo time.Duration) {
	report := func(fails []fail, c Case) {
		for _, f := range fails {
			r.Fail(f.key, f.what, c)
		}
	}
	// typed
	for _, req := range []string{"echo", "lone", "plain"} {
		for _, rep := range []string{"echo-ack", "count-ack", "note", "plain", "unknown", "errno", "timeout"} {
			for _, block := range []bool{false, true} {
				for _, size := range []int{0, 600, 5000, 70000} {
					if size > 0 && (rep == "errno" || rep == "timeout") {
						continue
					}
					tc := typedCase{Req: req, Reply: rep, Block: block, Size: size}
					r.Case()
					r.Count("typed:cases")
					report(runTyped(tc, tmo), Case{Kind: "typed", Typed: &tc})
				}
			}
		}
	}
}

// agedLeg: judged when the calls made by startAged are older than their time to live.
func agedLeg(r *hxlib.Run, aged *agedRun, tmo time.Duration) {
	r.Case()
	r.Count("search:aged")
	for _, f := range aged.finish(tmo) {
		r.Fail(f.key, f.what, Case{Kind: "aged"})
	}
}
