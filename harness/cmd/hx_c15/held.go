package main

// Enabledness tie for the observation "makeCall blocks on a full queue while holding the mutex" (stepHeld in
// Model/C15.lean, C15_no_stuck): fill the queue, start one more call, a Dispatch, a ReapTimeout and a sweep, wait
// until all four goroutines are parked (goroutine dump, twice, identical; the oracle is the wait state the
// runtime reports, never a duration) and report where: the call in its channel send, the other three in
// sync.Mutex.Lock.  The Lean driver answers the same line from `stepHeld params true`.  Then the queue consumer
// takes a packet and all four must return.

import (
	"fmt"
	"regexp"
	"runtime"
	"strings"
	"time"

	"verifharness/hxlib"

	"qchen.fun/fatchoy"
	"qchen.fun/fatchoy/packet"
	"google.golang.org/protobuf/proto"
)

const rpcT = "qnet.(*RpcClient)."

var goHdr = regexp.MustCompile(`^goroutine (\d+) \[([^\],]+)`)

func rpcGoroutines(skip map[string]bool) map[string]string { // goroutine id -> where
	buf := make([]byte, 1<<20)
	for {
		n := runtime.Stack(buf, true)
		if n < len(buf) {
			buf = buf[:n]
			break
		}
		buf = make([]byte, 2*len(buf))
	}
	out := map[string]string{}
	for _, blk := range strings.Split(string(buf), "\n\n") {
		m := goHdr.FindStringSubmatch(blk)
		if m == nil || skip[m[1]] || !strings.Contains(blk, rpcT) {
			continue
		}
		who := "other"
		switch {
		case strings.Contains(blk, rpcT+"makeCall("):
			who = "call"
		case strings.Contains(blk, rpcT+"Dispatch("):
			who = "dispatch"
		case strings.Contains(blk, rpcT+"ReapTimeout("):
			who = "strip"
		case strings.Contains(blk, rpcT+"VerifSweep("):
			who = "sweep"
		}
		where := "enabled" // not parked: it is moving
		switch {
		case m[2] == "chan send" && who == "call":
			where = "blocked"
		case strings.Contains(blk, "sync.(*Mutex).Lock"):
			where = "blocked"
		case m[2] == "running" || m[2] == "runnable" || m[2] == "syscall":
			where = "moving"
		}
		out[m[1]] = who + "=" + where
	}
	return out
}

func runMutexHeld(r *hxlib.Run, tmo time.Duration) bool {
	c := Case{Kind: "mutex-held", Cap: 1}
	d := &detRun{s: newSim(1, tmo)}
	s := d.s
	base := map[string]bool{}
	for id := range rpcGoroutines(nil) {
		base[id] = true
	}
	d.step("new cap=1")
	d.step("call mode=async")
	done := make(chan string, 4)
	spawn := func(name string, f func()) {
		go func() { hxlib.Guard(f); done <- name }()
	}
	spawn("call", func() {
		s.cli.AsyncCall(fatchoy.MakeNodeID(1, 2), reqOf(1), func(proto.Message, int32) error { return nil })
	})
	// the others only after the call is parked in its send: it must be the one that holds the mutex
	deadline := time.Now().Add(tmo)
	wait := func(want int) map[string]string {
		for {
			g1 := rpcGoroutines(base)
			time.Sleep(4 * time.Millisecond)
			g2 := rpcGoroutines(base)
			ok := len(g2) == want && fmt.Sprint(g1) == fmt.Sprint(g2)
			for _, w := range g2 {
				ok = ok && !strings.HasSuffix(w, "=moving")
			}
			if ok || time.Now().After(deadline) {
				return g2
			}
			time.Sleep(5 * time.Millisecond)
		}
	}
	wait(1)
	spawn("dispatch", func() { s.cli.Dispatch(packet.New(cmdMsg, 0, 0, nil)) })
	spawn("strip", func() { s.cli.ReapTimeout() })
	spawn("sweep", func() { s.cli.VerifSweep(s.base.Add(-time.Hour)) })
	g := wait(4)
	obs := map[string]string{"call": "enabled", "dispatch": "enabled", "strip": "enabled", "sweep": "enabled"}
	for _, w := range g {
		kv := strings.SplitN(w, "=", 2)
		obs[kv[0]] = kv[1]
	}
	pop := "blocked"
	if len(s.cli.PendingQueue()) > 0 {
		pop = "enabled"
	}
	heldok := len(s.cli.PendingQueue()) >= 1
	ans := fmt.Sprintf("heldok=%v call=%s dispatch=%s sweep=%s strip=%s pop=%s complete=0", heldok, obs["call"], obs["dispatch"], obs["sweep"], obs["strip"], pop)
	d.lines = append(d.lines, [2]string{"enabled held=1", ans})
	d.ops = append(d.ops, "enabled held=1")
	// the consumer takes the first request: everything resumes
	d.step("pop")
	for i := 0; i < 4; i++ {
		select {
		case <-done:
		case <-time.After(tmo):
			s.failf("hang:held-release", "after the queue consumer took a packet, %d of the 4 goroutines (a blocked call, Dispatch, ReapTimeout, a sweep) had not returned within %v", 4-i, tmo)
			i = 4
		}
	}
	for _, l := range d.lines {
		r.Op(l[0], l[1])
	}
	r.Case()
	r.Count("held:runs")
	r.NonTrivial("held/" + ans)
	for _, f := range s.fails {
		r.Fail(f.key, f.what, c)
	}
	return len(s.fails) > 0
}
