package main

import (
	"fmt"
	"strings"

	"verifharness/hxlib"
)

// block is one ReapTimeout whose loop is interleaved with other operations: the harness's own timeout
// callback (ReapTimeout runs callbacks outside the client's mutex, so this re-entrancy is legal) executes
// a script of ops — on this goroutine, or on a second one while the callback waits — before the loop goes
// on to the next expired call.
//
// Recorded (and replayed) form:   strip / complete id=<k> / <script ops> / complete id=<k> / ... / reap-end
// `complete` lines are written as the completions happen (their order within a batch comes from a map
// iteration); the j-th asynchronous completion runs the script that follows the j-th `complete` of an
// asynchronous call in the template.
type block struct {
	d       *detRun
	scripts [][]string // by index of asynchronous completion
	async   int
	other   bool // run the scripts on a second goroutine
	due     map[int]bool
}

func (b *block) onAsync(c *callRec, e event) {
	d, s := b.d, b.d.s
	if !b.due[c.id] {
		s.failf("reap-foreign-call", "ReapTimeout completed call %d (seq %d), which was not in the batch it had taken (%d call(s)); the batch and the client's expired list must not share storage", c.id, c.seq, len(b.due))
	}
	d.lines = append(d.lines, [2]string{fmt.Sprintf("complete id=%d", c.id), evStr(c, e)})
	d.ops = append(d.ops, fmt.Sprintf("complete id=%d", c.id))
	j := b.async
	b.async++
	if j >= len(b.scripts) || len(b.scripts[j]) == 0 {
		return
	}
	run := func() {
		s.nested++
		for _, op := range b.scripts[j] {
			d.step(op)
		}
		s.nested--
	}
	if b.other {
		done := make(chan struct{})
		go func() { defer close(done); run() }()
		<-done
	} else {
		run()
	}
}

// runBlock executes a template `strip ... reap-end` (the two end lines included).
func (d *detRun) runBlock(tpl []string) {
	s := d.s
	b := &block{d: d, other: strings.Contains(tpl[0], "other=1"), due: map[int]bool{}}
	// scripts: ops after each `complete` marker
	cur := -1
	for _, op := range tpl[1 : len(tpl)-1] {
		if strings.HasPrefix(op, "complete") {
			if strings.Contains(op, "mode=block") {
				cur = -2 // a blocking call's completion cannot host a script
				continue
			}
			b.scripts = append(b.scripts, nil)
			cur = len(b.scripts) - 1
			continue
		}
		if cur >= 0 {
			b.scripts[cur] = append(b.scripts[cur], op)
		}
	}
	var due []*callRec
	for _, c := range s.calls {
		if c.expect != nil && c.expect.ec == codeTimeout && len(s.eventsOf(c.id)) == 0 && c.timingOut() && !c.batch {
			due = append(due, c)
			c.batch = true
			b.due[c.id] = true
		}
	}
	stripAt := len(d.lines)
	d.lines = append(d.lines, [2]string{tpl[0], "?"})
	d.ops = append(d.ops, tpl[0])
	s.blk = b
	n := -1
	p := hxlib.Guard(func() { n = s.cli.ReapTimeout() })
	s.blk = nil
	if p != "" {
		s.failf("panic:reap", "ReapTimeout panicked: %s", p)
	}
	d.lines[stripAt][1] = fmt.Sprintf("n=%d", n)
	for _, c := range due {
		a := s.awaitCompletion(c, "the timeout reap")
		if c.block {
			op := fmt.Sprintf("complete id=%d mode=block", c.id)
			d.lines = append(d.lines, [2]string{op, a})
			d.ops = append(d.ops, op)
		}
	}
	if n != len(due) {
		s.failf("reap-count", "ReapTimeout returned %d where %d overdue call(s) had been swept before it began", n, len(due))
	}
	d.lines = append(d.lines, [2]string{"reap-end", "ok"})
	d.ops = append(d.ops, "reap-end")
}
