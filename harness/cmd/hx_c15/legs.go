package main

import (
	"fmt"
	"sync"
	"sync/atomic"
	"time"

	"google.golang.org/protobuf/proto"
	"google.golang.org/protobuf/types/known/wrapperspb"

	"verifharness/hxlib"

	fatchoy "qchen.fun/fatchoy"
	"qchen.fun/fatchoy/packet"
)

// runExhaust: every one of the 65 535 non-zero sequence numbers outstanding (oracle only: the model's
// list-based tables would need ~10^9 steps for this; the model side is theorem C15_seq_fresh).
func runExhaust(r *hxlib.Run) bool {
	c := Case{Kind: "exhaust", Cap: 70000}
	d := &detRun{s: newSim(c.Cap, 3*time.Second)}
	s := d.s
	s.newClient()
	s.cli.VerifSetCounter(uint16(r.R.Intn(65536)))
	seen := make(map[uint16]int, 65536)
	for i := 0; i < 65535 && len(s.fails) == 0; i++ {
		cr := s.startCall(false)
		if cr.refused {
			s.failf("call-refused", "call %d was refused with only %d call(s) outstanding", cr.id, i)
			break
		}
		if cr.seq == 0 {
			s.failf("seq-zero", "call %d was given sequence number 0", cr.id)
		}
		if o, dup := seen[cr.seq]; dup {
			s.failf("seq-reuse", "call %d was given sequence number %d, which the outstanding call %d still holds (%d calls outstanding)", cr.id, cr.seq, o, i)
		}
		seen[cr.seq] = cr.id
	}
	if len(s.fails) == 0 {
		// no number is free: the next call must be refused, not overwrite an outstanding one
		before, _ := s.cli.VerifPending()
		cr := s.startCall(false)
		after, _ := s.cli.VerifPending()
		if !cr.refused || len(after) != len(before) {
			s.failf("seq-reuse:exhausted", "with all 65535 sequence numbers outstanding a further call was accepted (seq %d) instead of refused", cr.seq)
		}
		r.Count("exhaust:call-refused-when-full")
		// one response frees one number: exactly that one is handed out next
		victim := s.calls[r.R.Intn(65535)]
		d.step(fmt.Sprintf("dispatch seq=%d err=0 code=0 cmd=%d dec=7", victim.seq, cmdMsg))
		cr2 := s.startCall(false)
		if cr2.refused || cr2.seq != victim.seq {
			s.failf("seq-after-exhaustion", "after call %d (seq %d) was answered the next call got seq %d (refused=%v)", victim.id, victim.seq, cr2.seq, cr2.refused)
		}
		for len(s.fifo) > 0 {
			d.step("pop")
		}
		d.lines, d.ops = nil, nil
		d.finish()
	}
	r.Case()
	r.Count("exhaust:runs")
	r.NonTrivial("exhaust")
	for _, f := range s.fails {
		r.Fail(f.key, f.what, c)
	}
	return len(s.fails) > 0
}

// runBlocked: a call blocks on the full queue (holding the client's mutex) and resumes when a packet is taken.
func runBlocked(r *hxlib.Run, tmo time.Duration) bool {
	c := Case{Kind: "blocked", Cap: 1}
	d := &detRun{s: newSim(1, tmo)}
	s := d.s
	s.newClient()
	a := s.startCall(false)
	done := make(chan *callRec, 1)
	go func() {
		// startCall polls the queue length, which does not change while the queue is full: do it by hand
		id := len(s.calls)
		cr := &callRec{id: id, seqPop: -1, retCh: make(chan event, 4)}
		s.mu.Lock()
		s.calls = append(s.calls, cr)
		s.mu.Unlock()
		cb := func(m proto.Message, ec int32) error {
			s.record(id, event{kind: "cb", msg: msgText(m), ec: ec})
			return nil
		}
		hxlib.Guard(func() { s.cli.AsyncCall(fatchoy.MakeNodeID(1, 2), reqOf(id), cb) })
		done <- cr
	}()
	select {
	case <-done:
		s.failf("queue-overrun", "a call returned although the queue (capacity 1) was full")
	case <-time.After(20 * time.Millisecond):
	}
	pkt := <-s.cli.PendingQueue()
	if pkt.Seq() != a.seq {
		s.failf("queue-order", "first packet has seq %d, call 0 has %d", pkt.Seq(), a.seq)
	}
	select {
	case cr := <-done:
		cr.seq = s.cli.VerifCounter()
		p2 := <-s.cli.PendingQueue()
		if p2.Seq() != cr.seq || cr.seq == a.seq || cr.seq == 0 {
			s.failf("seq-reuse", "blocked call got seq %d (packet %d), first call holds %d", cr.seq, p2.Seq(), a.seq)
		}
		s.fifo = nil
		d.step(fmt.Sprintf("dispatch seq=%d err=0 code=0 cmd=%d dec=1", cr.seq, cmdMsg))
		d.step(fmt.Sprintf("dispatch seq=%d err=1 code=9 cmd=%d dec=fail", a.seq, cmdMsg))
		d.lines, d.ops = nil, nil
		d.finish()
	case <-time.After(tmo):
		s.failf("hang:call", "a call blocked on the full queue did not resume within %v after a packet was taken", tmo)
	}
	r.Case()
	r.Count("blocked:runs")
	for _, f := range s.fails {
		r.Fail(f.key, f.what, c)
	}
	return len(s.fails) > 0
}

// runConc: G caller goroutines, one dispatcher ("main thread") that answers in any order, sometimes twice,
// sometimes never, sweeps from a third goroutine. Oracle: every call is completed exactly once, by its own
// response or by the timeout.
func runConc(r *hxlib.Run, c Case, tmo time.Duration) bool {
	rr := hxlib.NewRand(c.Seed)
	s := newSim(c.Cap, tmo)
	s.newClient()
	s.cli.VerifSetCounter(uint16(rr.Pick(0, 65000, 65500, 30000)))
	type rec struct {
		mu     sync.Mutex
		events []event
		block  bool
		sent   map[string]bool // replies dispatched for it: "msg/ec"
	}
	total := c.N * c.G
	recs := make([]*rec, total)
	for i := range recs {
		recs[i] = &rec{sent: map[string]bool{}}
	}
	var wg sync.WaitGroup
	var made int32
	for g := 0; g < c.G; g++ {
		wg.Add(1)
		seed := rr.U64()
		go func(g int) {
			defer wg.Done()
			lr := hxlib.NewRand(seed)
			var inner sync.WaitGroup
			for k := 0; k < c.N; k++ {
				id := g*c.N + k
				rc := recs[id]
				node := fatchoy.MakeNodeID(1, uint16(id))
				if lr.Chance(1, 4) {
					rc.block = true
					inner.Add(1)
					atomic.AddInt32(&made, 1)
					go func() {
						defer inner.Done()
						x := s.cli.Call(node, reqOf(id))
						e := summarize(x)
						rc.mu.Lock()
						rc.events = append(rc.events, e)
						rc.mu.Unlock()
					}()
				} else {
					s.cli.AsyncCall(node, reqOf(id), func(m proto.Message, ec int32) error {
						rc.mu.Lock()
						rc.events = append(rc.events, event{kind: "cb", msg: msgText(m), ec: ec})
						rc.mu.Unlock()
						return nil
					})
					atomic.AddInt32(&made, 1)
				}
			}
			inner.Wait()
		}(g)
	}
	callersDone := make(chan struct{})
	go func() { wg.Wait(); close(callersDone) }()
	// sweeper: instants before every deadline (nothing is overdue) — checks that a sweep never completes a live call
	stopSweep := make(chan struct{})
	go func() {
		for {
			select {
			case <-stopSweep:
				return
			default:
				s.cli.VerifSweep(s.base.Add(30 * time.Second))
				time.Sleep(50 * time.Microsecond)
			}
		}
	}()
	// dispatcher
	type held struct {
		seq uint16
		id  int
	}
	var later []held
	respond := func(h held) {
		rc := recs[h.id]
		pkt := packet.New(cmdMsg, h.seq, 0, nil)
		key := ""
		if rr.Chance(1, 3) {
			code := int32(rr.Range(1, 23))
			pkt.SetErrno(code)
			key = fmt.Sprintf("-/%d", code)
			if !rc.block {
				key = fmt.Sprintf("nil/%d", code)
			}
		} else {
			m := fmt.Sprint(rr.Intn(1000))
			b, _ := proto.Marshal(wrapperspb.String("ack-" + m))
			pkt.SetBody(b)
			key = m + "/0"
		}
		rc.mu.Lock()
		rc.sent[key] = true
		rc.mu.Unlock()
		s.cli.Dispatch(pkt)
	}
	// the consumer of PendingQueue is a goroutine of its own (as the sender of a connection would be): a
	// caller blocked on the full queue holds the client's mutex, so the dispatcher must never be the one
	// the queue waits for
	feed := make(chan fatchoy.IPacket, total+1)
	stopFeed := make(chan struct{})
	go func() {
		for {
			select {
			case pkt := <-s.cli.PendingQueue():
				feed <- pkt
				if c.SlowUS > 0 { // the slow consumer of the failing-input search
					time.Sleep(time.Duration(c.SlowUS) * time.Microsecond)
				}
			case <-stopFeed:
				return
			}
		}
	}()
	defer close(stopFeed)
	popped := 0
	deadline := time.After(tmo * 4)
	hung := false
loop:
	for popped < total {
		select {
		case pkt := <-feed:
			popped++
			id := -1
			if sv, ok := pkt.Body().(*wrapperspb.StringValue); ok {
				fmt.Sscanf(sv.Value, "req-%d", &id)
			}
			if id < 0 || id >= total {
				s.failf("queue-garbage", "request packet with body %v", pkt.Body())
				continue
			}
			h := held{pkt.Seq(), id}
			switch x := rr.Intn(10); {
			case x < 5:
				respond(h)
			case x < 6:
				respond(h)
				respond(h) // duplicate: must be unmatched
			case x < 8:
				later = append(later, h)
			default: // never answered: times out at the end
			}
			if rr.Chance(1, 10) {
				stray := packet.New(cmdMsg, uint16(rr.Intn(65536)), 0, nil) // most likely unknown
				stray.SetErrno(22)
				s.cli.Dispatch(stray)
			}
			if len(later) > 8 {
				k := rr.Intn(len(later))
				respond(later[k])
				later = append(later[:k], later[k+1:]...)
			}
		case <-deadline:
			hung = true
			break loop
		}
	}
	close(stopSweep)
	if hung {
		s.failf("hang:conc", "only %d of %d request packets appeared within %v (%d goroutines, capacity %d)", popped, total, tmo*4, c.G, c.Cap)
	} else {
		for _, h := range later {
			if rr.Bool() {
				respond(h)
			}
		}
		s.cli.VerifSweep(s.base.Add(time.Hour))
		s.cli.ReapTimeout()
		select {
		case <-callersDone:
		case <-time.After(tmo):
			s.failf("blocking-caller-not-released", "some blocking callers were still waiting %v after the final timeout reap", tmo)
		}
		nLost, nTwice := 0, 0
		for id, rc := range recs {
			rc.mu.Lock()
			evs := append([]event{}, rc.events...)
			rc.mu.Unlock()
			switch {
			case len(evs) == 0:
				if nLost == 0 {
					s.failf("never-completed", "call %d was never completed: neither by a response nor by the final timeout reap (%d calls from %d goroutines)", id, total, c.G)
				}
				nLost++
			case len(evs) > 1:
				if nTwice == 0 {
					s.failf("completed-twice", "call %d was completed %d times: %v", id, len(evs), evs)
				}
				nTwice++
			default:
				e := evs[0]
				key := fmt.Sprintf("%s/%d", e.msg, e.ec)
				if !(rc.sent[key] || e.ec == codeTimeout || e.ec == 22) { // 22: the stray response happened to carry its number
					s.failf("wrong-completion", "call %d was completed with (msg=%s, ec=%d), which is neither one of the responses dispatched for it %v nor the timeout", id, e.msg, e.ec, rc.sent)
				}
			}
		}
	}
	r.Case()
	r.Count("conc:runs")
	r.CountN("conc:calls", total)
	r.NonTrivial(fmt.Sprintf("conc/%d/%d/%d/%d", c.Cap, c.N, c.G, c.Seed))
	for _, f := range s.fails {
		r.Fail(f.key, f.what, c)
	}
	return len(s.fails) > 0
}
