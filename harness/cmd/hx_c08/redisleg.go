// Redis leg (extension session): the REAL `*uuid.RedisStore` in the adapter's place.
//
// The model's `Adapter.incr` (Model/C08.lean) describes the "did not grow" guard every store adapter puts in front of
// its database. Until this leg the tie of store_redis.go to that model was the regenerated guard fact only (the
// differential histories ran a Go re-statement of the guard). Here every adapter of a history is a RedisStore built
// by the public constructor `uuid.NewRedisStore`, connected over loopback TCP to a scripted RESP server that answers
// INCR with exactly the raw move the history prescribes (`ok:<n>` -> ":<n>", `fb`/`fa` -> "-ERR injected …"). The
// operation lines are the ones of the in-memory histories, so the Lean model answers them unchanged and the
// independent oracle judges the ids: a RedisStore.Incr that passes a counter that did not grow, swallows or invents
// an error, calls the server twice, or remembers the wrong value shows up as a model/implementation difference or as
// an oracle failure with the history as replay.
//
// Not covered (stated in DESIGN): go-redis itself (connection pool, its retry policy for LOADING/READONLY/timeouts),
// a real Redis server's INCR.
package main

import (
	"bufio"
	"context"
	"fmt"
	"io"
	"net"
	"strconv"
	"strings"
	"sync"

	"verifharness/hxlib"

	"qchen.fun/fatchoy/x/uuid"
)

// adIface is what a generator's store wrapper (genStore) calls: the in-memory adapter or a real RedisStore.
type adIface interface {
	incr(g int) (int64, error)
	close()
}

func (a *adapter) close() {}

type fakeRedis struct {
	ln    net.Listener
	be    *backend
	mu    sync.Mutex
	incrs int // INCR commands served
	other []string
	conns []net.Conn
}

func startFakeRedis(be *backend) (*fakeRedis, error) {
	ln, err := net.Listen("tcp", "127.0.0.1:0")
	if err != nil {
		return nil, err
	}
	f := &fakeRedis{ln: ln, be: be}
	go func() {
		for {
			c, err := ln.Accept()
			if err != nil {
				return
			}
			f.mu.Lock()
			f.conns = append(f.conns, c)
			f.mu.Unlock()
			go f.serve(c)
		}
	}()
	return f, nil
}

func (f *fakeRedis) stop() {
	f.ln.Close()
	f.mu.Lock()
	for _, c := range f.conns {
		c.Close()
	}
	f.mu.Unlock()
}

// readCmd reads one RESP array of bulk strings.
func readCmd(br *bufio.Reader) ([]string, error) {
	line, err := br.ReadString('\n')
	if err != nil {
		return nil, err
	}
	line = strings.TrimRight(line, "\r\n")
	if !strings.HasPrefix(line, "*") {
		return strings.Fields(line), nil // inline command
	}
	n, err := strconv.Atoi(line[1:])
	if err != nil || n < 0 || n > 64 {
		return nil, fmt.Errorf("bad array header %q", line)
	}
	out := make([]string, 0, n)
	for i := 0; i < n; i++ {
		h, err := br.ReadString('\n')
		if err != nil {
			return nil, err
		}
		h = strings.TrimRight(h, "\r\n")
		if !strings.HasPrefix(h, "$") {
			return nil, fmt.Errorf("bad bulk header %q", h)
		}
		l, err := strconv.Atoi(h[1:])
		if err != nil || l < 0 || l > 1<<20 {
			return nil, fmt.Errorf("bad bulk length %q", h)
		}
		buf := make([]byte, l+2)
		if _, err := io.ReadFull(br, buf); err != nil {
			return nil, err
		}
		out = append(out, string(buf[:l]))
	}
	return out, nil
}

func (f *fakeRedis) serve(c net.Conn) {
	defer c.Close()
	br := bufio.NewReader(c)
	for {
		cmd, err := readCmd(br)
		if err != nil || len(cmd) == 0 {
			return
		}
		var reply string
		switch strings.ToUpper(cmd[0]) {
		case "PING":
			reply = "+PONG\r\n"
		case "INCR":
			f.mu.Lock()
			f.incrs++
			f.mu.Unlock()
			w := f.be.incr(-1)
			if w.K == "ok" {
				reply = fmt.Sprintf(":%d\r\n", w.C)
			} else {
				reply = fmt.Sprintf("-ERR injected failure (%s %s)\r\n", w.K, w.E)
			}
		default:
			f.mu.Lock()
			f.other = append(f.other, strings.Join(cmd, " "))
			f.mu.Unlock()
			reply = "-ERR unknown command\r\n"
		}
		if _, err := io.WriteString(c, reply); err != nil {
			return
		}
	}
}

// redisAdapter: a real RedisStore and the server it talks to.
type redisAdapter struct {
	st  uuid.Storage
	srv *fakeRedis
}

func newRedisAdapter(be *backend) (*redisAdapter, string) {
	srv, err := startFakeRedis(be)
	if err != nil {
		return nil, "listen: " + err.Error()
	}
	var st uuid.Storage
	if pan := hxlib.Guard(func() { st = uuid.NewRedisStore(context.Background(), srv.ln.Addr().String(), "hx:c08") }); pan != "" {
		srv.stop()
		return nil, "NewRedisStore panicked: " + pan
	}
	return &redisAdapter{st: st, srv: srv}, ""
}

func (a *redisAdapter) incr(g int) (int64, error) { return a.st.Incr() }

func (a *redisAdapter) close() {
	hxlib.Guard(func() { a.st.Close() })
	a.srv.stop()
}

// redisInjected: the error a RedisStore returns when the scripted server answered INCR with its injected failure.
func redisInjected(err error) bool {
	return err != nil && strings.Contains(err.Error(), "ERR injected failure")
}

// redisLegs re-runs scripted histories with every adapter being a real RedisStore.
func redisLegs(r *hxlib.Run) {
	probe, why := newRedisAdapter(&backend{})
	if probe == nil {
		r.Count("redis-store:skipped")
		r.Note("redis-store leg SKIPPED: %s", why)
		return
	}
	probe.close()
	directed := []qcase{repeatedCounter(), differentSteps()}
	for k := 0; k < 4; k++ {
		directed = append(directed, overflowEdge(r.R))
	}
	for _, c := range directed {
		c.Store = "redis"
		do(r, c)
	}
	n := r.Scale(250, 4000)
	for k := 0; k < n; k++ {
		c := randomHistory(r, r.R.Pick(12, 40, 90))
		c.Store = "redis"
		if k == 0 {
			r.Sample(c)
		}
		do(r, c)
	}
	r.Count("kind:redis-store")
	r.Note("redis-store leg: %d scripted histories with every adapter a real *uuid.RedisStore (public constructor) on a scripted loopback RESP server", n+len(directed))
}
