package main

// Third-wave legs of C08 (NORMAL tiers: a change that edits only function bodies never triggers -search). Oracle only
// (the Lean model has no pre-positioned generators and no concrete store types).
//
//	step-extremes  (K5) every step the constructor takes — 1, 2, 3, 1999, 2000, 2001, 2^15±1, 2^16±1, 2^30, MaxInt32−1,
//	               MaxInt32, and the int32 images of MaxInt32+1 = 2^31, 2^32, 2^40, −1, 0, MinInt32 (all ≤ 0: the
//	               default step) — on two generators sharing one store, with the generator's state PRE-POSITIONED k = 0..3
//	               ids before the end of its segment (unexported field lastID set through reflect/unsafe; the leg is
//	               skipped with a Note if the fields are gone), so that segment exhaustion is reached within four calls
//	               instead of 2^31: the next k ids must be the last k of the segment, the call after them must lease a
//	               fresh counter and issue the first id of that segment; ids of both generators stay distinct,
//	               increasing, inside leased segments; no call fails. Counters start at 1, near 2^31/step and near
//	               2^32 (products crossing 2^31, 2^32, 2^62).
//	               Steps ABOVE MaxInt32 (2^31, 2^32, 2^40 written into the int64 field directly) cannot be produced by
//	               NewSeqIDGen(store, step int32): they are run the same way but recorded as OBSERVATIONS only.
//	mysql-store    (K4) concrete store type: *uuid.MySQLStore objects (built through reflect/unsafe — NewMySQLStore dials
//	               a server — around an in-memory database/sql driver that plays the `UPDATE … LAST_INSERT_ID` statement
//	               of Incr on one shared counter row), each configured with its OWN step argument (1, 500, 1000, 2000,
//	               5000, 0), handed to the package-level uuid.Init by several "services" in turn and to NewSeqIDGen
//	               directly: every id of uuid.NextID lies in the DefaultSeqStep segment of a counter that service's
//	               store was handed, ids never repeat across services. (*uuid.MongoStore needs a live wire-protocol
//	               server — there is no in-memory seam under *mongo.Client —: not run.)
//
// Wall time: < 0.2 s in both tiers.

import (
	"context"
	"database/sql"
	"database/sql/driver"
	"fmt"
	"math"
	"reflect"
	"strings"
	"sync"
	"time"
	"unsafe"

	"verifharness/hxlib"

	"qchen.fun/fatchoy/x/uuid"
)

// ---- poking unexported fields ---------------------------------------------------------------------------------------

func fieldOf(obj interface{}, name string) (reflect.Value, bool) {
	v := reflect.ValueOf(obj)
	if v.Kind() != reflect.Ptr || v.Elem().Kind() != reflect.Struct {
		return reflect.Value{}, false
	}
	f := v.Elem().FieldByName(name)
	if !f.IsValid() || !f.CanAddr() {
		return reflect.Value{}, false
	}
	return reflect.NewAt(f.Type(), unsafe.Pointer(f.UnsafeAddr())).Elem(), true
}

func getInt(obj interface{}, name string) (int64, bool) {
	f, ok := fieldOf(obj, name)
	if !ok || f.Kind() != reflect.Int64 && f.Kind() != reflect.Int32 && f.Kind() != reflect.Int {
		return 0, false
	}
	return f.Int(), true
}

func setInt(obj interface{}, name string, v int64) bool {
	f, ok := fieldOf(obj, name)
	if !ok || f.Kind() != reflect.Int64 && f.Kind() != reflect.Int32 && f.Kind() != reflect.Int {
		return false
	}
	f.SetInt(v)
	return true
}

// ---- step extremes --------------------------------------------------------------------------------------------------

type extCase struct {
	Kind    string  `json:"kind"` // step-extreme
	StepArg int32   `json:"step_arg"`
	Poke    int64   `json:"poke_step,omitempty"` // > 0: written into the int64 step field after construction (observation only)
	Start   int64   `json:"start"`               // first counter the store hands out
	Gap     int64   `json:"gap"`                 // counters advance by 1..Gap
	K       []int64 `json:"k"`                   // per generator: ids left in its segment when the calls begin
	Calls   int     `json:"calls"`
	Seed    uint64  `json:"seed"`
}

type seqStore struct {
	mu     sync.Mutex
	next   int64
	gap    int64
	r      *hxlib.Rand
	leased map[int][]int64 // generator -> counters
}

type seqStoreView struct {
	s *seqStore
	g int
}

func (v seqStoreView) Incr() (int64, error) {
	v.s.mu.Lock()
	defer v.s.mu.Unlock()
	c := v.s.next
	v.s.next += 1 + int64(v.s.r.Intn(int(v.s.gap)))
	v.s.leased[v.g] = append(v.s.leased[v.g], c)
	return c, nil
}
func (seqStoreView) Close() error { return nil }

// runExt returns the findings; skip != "" when the unexported fields cannot be reached.
func runExt(c extCase) (fails []fail, skip string) {
	add := func(key, format string, a ...interface{}) {
		if len(fails) < 6 {
			fails = append(fails, fail{key, fmt.Sprintf(format, a...)})
		}
	}
	step := effStep(c.StepArg)
	if c.Poke > 0 {
		step = c.Poke
	}
	st := &seqStore{next: c.Start, gap: c.Gap, r: hxlib.NewRand(c.Seed), leased: map[int][]int64{}}
	gens := make([]*uuid.SeqIDGen, len(c.K))
	expNext := make([]int64, len(c.K)) // the id the next call must return (0: the call must lease first)
	left := make([]int64, len(c.K))    // ids left in the current segment
	last := make([]int64, len(c.K))
	issued := map[int64]int{}
	for g := range gens {
		gens[g] = uuid.NewSeqIDGen(seqStoreView{st, g}, c.StepArg)
		if c.Poke > 0 && !setInt(gens[g], "step", c.Poke) {
			return nil, "SeqIDGen has no int field `step`"
		}
		if got, ok := getInt(gens[g], "step"); !ok {
			return nil, "SeqIDGen has no int field `step`"
		} else if got != step {
			add("step-extreme:constructor", "NewSeqIDGen(store, %d) made a generator with step %d, the documented step is %d", c.StepArg, got, step)
			return
		}
		var err error
		if p := hxlib.Guard(func() { err = gens[g].Init() }); p != "" || err != nil {
			add("fault:spurious-error", "step %d: Init on a working store (counter %d) failed: %v %s", step, st.next, err, p)
			return
		}
		cnt := st.leased[g][len(st.leased[g])-1]
		if ctr, ok := getInt(gens[g], "counter"); !ok {
			return nil, "SeqIDGen has no int field `counter`"
		} else if ctr != cnt {
			return nil, fmt.Sprintf("SeqIDGen.counter holds %d after leasing counter %d: the field does not mean what the leg assumes", ctr, cnt)
		}
		if lid, ok := getInt(gens[g], "lastID"); !ok || lid != cnt*step {
			return nil, fmt.Sprintf("SeqIDGen.lastID holds %d after leasing counter %d with step %d: the field does not mean what the leg assumes", lid, cnt, step)
		}
		// pre-position: K ids are left in the segment (cnt*step, (cnt+1)*step]
		k := c.K[g]
		if k > step {
			k = step
		}
		setInt(gens[g], "lastID", (cnt+1)*step-k)
		left[g], expNext[g], last[g] = k, (cnt+1)*step-k+1, (cnt+1)*step-k
	}
	R := hxlib.NewRand(c.Seed ^ 0x5EED)
	for n := 0; n < c.Calls; n++ {
		g := R.Intn(len(gens))
		if n < len(gens) {
			g = n
		}
		before := len(st.leased[g])
		var id int64
		var err error
		if p := hxlib.Guard(func() { id, err = gens[g].Next() }); p != "" {
			add("panic", "step %d: Next panicked: %s", step, p)
			return
		}
		leasedNow := len(st.leased[g]) - before
		if err != nil {
			add("fault:spurious-error", "step %d: call %d on generator %d failed with %q although no store call failed (%d ids were left in its segment)", step, n, g, err, left[g])
			return
		}
		want := expNext[g]
		if left[g] == 0 {
			// the segment is used up: exactly one lease, then the first id of the new segment
			if leasedNow != 1 {
				add("in-segment", "step %d: generator %d had used up the segment of counter %d (last id %d = its end) and the next call returned %d WITHOUT leasing a new counter: that id belongs to another counter's segment",
					step, g, st.leased[g][before-1], last[g], id)
				return
			}
			cnt := st.leased[g][len(st.leased[g])-1]
			want, left[g] = cnt*step+1, step
		} else if leasedNow != 0 {
			add("complete:abandoned", "step %d: generator %d leased counter %d although %d ids were left in its segment", step, g, st.leased[g][len(st.leased[g])-1], left[g])
			return
		}
		if id != want {
			add("in-segment", "step %d: call %d on generator %d returned %d, want %d (counters leased by it: %v)", step, n, g, id, want, st.leased[g])
			return
		}
		if prev, dup := issued[id]; dup {
			add("distinct", "step %d: id %d issued twice (generators %d and %d)", step, id, prev, g)
			return
		}
		if id <= last[g] {
			add("increasing", "step %d: generator %d issued %d after %d", step, g, id, last[g])
			return
		}
		in := false
		for _, cc := range st.leased[g] {
			if cc*step < id && id <= (cc+1)*step {
				in = true
			}
		}
		if !in {
			add("in-segment", "step %d: generator %d issued %d, outside every segment it leased (counters %v)", step, g, id, st.leased[g])
			return
		}
		issued[id] = g
		last[g] = id
		left[g]--
		expNext[g] = id + 1
	}
	return
}

var extNoted = map[string]bool{}

func doExt(r *hxlib.Run, c extCase) {
	r.Case()
	fails, skip := runExt(c)
	if skip != "" {
		r.Count("step-extreme:skipped")
		if !extNoted[skip] {
			extNoted[skip] = true
			r.Note("step-extremes leg SKIPPED: %s", skip)
		}
		return
	}
	r.Count("kind:step-extreme")
	eff := effStep(c.StepArg)
	if c.Poke > 0 {
		eff = c.Poke
	}
	r.Count(fmt.Sprintf("step-extreme:step=%d", eff))
	r.NonTrivial(fmt.Sprintf("ext-%d-%d-%d-%v", c.StepArg, c.Poke, c.Start, c.K))
	for _, f := range fails {
		if c.Poke > 0 {
			r.Count("observation:step>MaxInt32:" + f.key)
			if k := "poke:" + f.key; !extNoted[k] {
				extNoted[k] = true
				r.Note("observation (a step above MaxInt32 cannot be produced by NewSeqIDGen(store, int32): not a violation): %s", f.what)
			}
			continue
		}
		r.Fail(f.key, f.what, c)
	}
}

func stepExtremeLegs(r *hxlib.Run) {
	R := hxlib.NewRand(r.Seed ^ 0xC08E)
	big := func(v int64) int32 { return int32(v) } // the int32 image of a wider value (what a careless caller passes)
	args := []int32{1, 2, 3, 1999, 2000, 2001, 1<<15 - 1, 1 << 15, 1<<16 - 1, 1 << 16, 1<<16 + 1, 1 << 30, math.MaxInt32 - 1, math.MaxInt32,
		big(math.MaxInt32 + 1), big(1 << 32), big(1 << 40), -1, 0, math.MinInt32, math.MinInt32 + 1}
	rounds := r.Scale(3, 20)
	for _, a := range args {
		step := effStep(a)
		for round := 0; round < rounds; round++ {
			starts := []int64{1, 2, (1<<31)/step - 1, (1<<32)/step - 1, 1<<32 - 2, (1<<62)/step - 3}
			start := starts[(round+int(a&7))%len(starts)]
			if start < 1 {
				start = 1
			}
			if start > (maxInt64-1)/step-64 { // (c+1)*step must stay below 2^63 for every counter of the run
				start = (maxInt64-1)/step - 64
			}
			c := extCase{Kind: "step-extreme", StepArg: a, Start: start, Gap: int64(R.Pick(1, 1, 3)), Calls: R.Range(8, 16), Seed: R.U64(),
				K: []int64{int64(R.Intn(4)), int64(R.Intn(4))}}
			if round%3 == 2 {
				c.K = append(c.K, int64(R.Intn(3)))
			}
			doExt(r, c)
		}
	}
	for _, poke := range []int64{math.MaxInt32 + 1, 1 << 32, 1 << 40} {
		for round := 0; round < 2; round++ {
			doExt(r, extCase{Kind: "step-extreme", StepArg: 7, Poke: poke, Start: int64(R.Pick(1, 5, 1000)), Gap: 1, Calls: 10, Seed: R.U64(), K: []int64{int64(R.Intn(4)), int64(R.Intn(4))}})
		}
	}
}

// ---- *uuid.MySQLStore on an in-memory database/sql driver -------------------------------------------------------------

type fakeDB struct {
	mu   sync.Mutex
	seq  map[string]int64   // label -> seq_id column
	gave map[string][]int64 // connection name (one per store) -> LAST_INSERT_ID()+1 values it was handed
}

var (
	fakeOnce sync.Once
	fakeDBs  sync.Map // dsn prefix -> *fakeDB
)

type fakeDriver struct{}

func (fakeDriver) Open(name string) (driver.Conn, error) {
	// name = "<db>/<store>"
	i := strings.IndexByte(name, '/')
	if i < 0 {
		return nil, fmt.Errorf("bad dsn")
	}
	v, ok := fakeDBs.Load(name[:i])
	if !ok {
		return nil, fmt.Errorf("no such database")
	}
	return &fakeConn{db: v.(*fakeDB), who: name[i+1:]}, nil
}

type fakeConn struct {
	db  *fakeDB
	who string
}

func (c *fakeConn) Prepare(q string) (driver.Stmt, error) { return nil, fmt.Errorf("prepare not supported") }
func (c *fakeConn) Close() error                          { return nil }
func (c *fakeConn) Begin() (driver.Tx, error)             { return nil, fmt.Errorf("transactions not supported") }

type fakeResult struct{ last, n int64 }

func (r fakeResult) LastInsertId() (int64, error) { return r.last, nil }
func (r fakeResult) RowsAffected() (int64, error) { return r.n, nil }

// ExecContext plays "UPDATE `t` SET `seq_id` = LAST_INSERT_ID(`seq_id`) + 1 WHERE `label`=? LIMIT 1".
func (c *fakeConn) ExecContext(ctx context.Context, q string, args []driver.NamedValue) (driver.Result, error) {
	if !strings.HasPrefix(strings.TrimSpace(q), "UPDATE") || !strings.Contains(q, "LAST_INSERT_ID") || len(args) != 1 {
		return nil, fmt.Errorf("statement not understood by the in-memory driver: %s", q)
	}
	label, _ := args[0].Value.(string)
	c.db.mu.Lock()
	defer c.db.mu.Unlock()
	old, ok := c.db.seq[label]
	if !ok {
		return fakeResult{0, 0}, nil
	}
	c.db.seq[label] = old + 1
	c.db.gave[c.who] = append(c.db.gave[c.who], old+1)
	return fakeResult{old, 1}, nil
}

type myCase struct {
	Kind  string  `json:"kind"` // mysql-store
	Steps []int   `json:"steps"` // the step argument of each service's store
	Start int64   `json:"start"`
	Turns [][2]int `json:"turns"` // (service, number of NextID calls after its uuid.Init)
	Direct int32  `json:"direct,omitempty"` // > 0: instead of uuid.Init, NewSeqIDGen(store, Direct) per service
}

var mySeq int

// newMySQLStore builds what NewMySQLStore(ctx, dsn, table, label, step) builds, minus the dial.
func newMySQLStore(db *sql.DB, label string, step int) (uuid.Storage, string) {
	st := &uuid.MySQLStore{}
	set := func(name string, v interface{}) bool {
		f, ok := fieldOf(st, name)
		if !ok || !reflect.TypeOf(v).AssignableTo(f.Type()) {
			return false
		}
		f.Set(reflect.ValueOf(v))
		return true
	}
	var ctx context.Context = context.Background()
	if f, ok := fieldOf(st, "ctx"); !ok {
		return nil, "MySQLStore has no field `ctx`"
	} else {
		f.Set(reflect.ValueOf(&ctx).Elem())
	}
	if !set("db", db) {
		return nil, "MySQLStore has no *sql.DB field `db`"
	}
	if !set("table", "uuid") || !set("label", label) {
		return nil, "MySQLStore has no string fields `table` / `label`"
	}
	if !setInt(st, "step", int64(int32(step))) {
		return nil, "MySQLStore has no int field `step`"
	}
	return st, ""
}

func runMy(c myCase) (fails []fail, skip string) {
	add := func(key, format string, a ...interface{}) {
		if len(fails) < 6 {
			fails = append(fails, fail{key, fmt.Sprintf(format, a...)})
		}
	}
	fakeOnce.Do(func() { sql.Register("hxc08mem", fakeDriver{}) })
	mySeq++
	dbName := fmt.Sprintf("db%d", mySeq)
	fdb := &fakeDB{seq: map[string]int64{"svc": c.Start}, gave: map[string][]int64{}}
	fakeDBs.Store(dbName, fdb)
	defer fakeDBs.Delete(dbName)
	stores := make([]uuid.Storage, len(c.Steps))
	for i, stp := range c.Steps {
		db, err := sql.Open("hxc08mem", fmt.Sprintf("%s/s%d", dbName, i))
		if err != nil {
			return nil, "sql.Open: " + err.Error()
		}
		defer db.Close()
		st, why := newMySQLStore(db, "svc", stp)
		if why != "" {
			return nil, why
		}
		stores[i] = st
	}
	issued := map[int64]int{}
	gens := make([]*uuid.SeqIDGen, len(c.Steps))
	genStep := int64(oDefaultStep)
	if c.Direct > 0 {
		genStep = int64(c.Direct)
	}
	lastOf := map[int]int64{}
	sawOut := false
	for t, turn := range c.Turns {
		svc, n := turn[0], turn[1]
		if svc < 0 || svc >= len(stores) {
			continue
		}
		who := fmt.Sprintf("s%d", svc)
		var err error
		var p string
		fresh := false
		if c.Direct > 0 {
			if gens[svc] == nil {
				gens[svc] = uuid.NewSeqIDGen(stores[svc], c.Direct)
				p = hxlib.Guard(func() { err = gens[svc].Init() })
				fresh = true
			}
		} else {
			// the service (re)starts: the package-level generator is now this service's
			p = hxlib.Guard(func() { err = uuid.Init(uint16(100+svc), stores[svc]) })
			fresh = true
		}
		if p != "" || err != nil {
			if strings.Contains(fmt.Sprint(err, p), "not understood") {
				return nil, "MySQLStore.Incr sends a statement the in-memory driver does not play: " + fmt.Sprint(err, p)
			}
			add("api:init", "turn %d: initialising service %d on its MySQL store (step argument %d) failed: %v %s", t, svc, c.Steps[svc], err, p)
			return
		}
		if fresh {
			delete(lastOf, svc)
		}
		for k := 0; k < n; k++ {
			var id int64
			p := hxlib.Guard(func() {
				if c.Direct > 0 {
					id, err = gens[svc].Next()
				} else {
					id = uuid.NextID()
				}
			})
			if p != "" || err != nil {
				add("fault:spurious-error", "turn %d: id call %d of service %d failed on a working store: %v %s", t, k, svc, err, p)
				return
			}
			in := false
			for _, cc := range fdb.gave[who] {
				if cc*genStep < id && id <= (cc+1)*genStep {
					in = true
				}
			}
			switch {
			case !in && !sawOut:
				sawOut = true // (reported once; the run goes on: what matters most is whether ids REPEAT)
				add("api:in-segment", "turn %d: service %d (its MySQL store was built with step argument %d; generator step %d) was issued id %d, which lies in no %d-wide segment of a counter its store was handed (%v)",
					t, svc, c.Steps[svc], genStep, id, genStep, fdb.gave[who])
			case id <= lastOf[svc]:
				add("api:increasing", "turn %d: service %d was issued %d after %d", t, svc, id, lastOf[svc])
			}
			if prev, dup := issued[id]; dup {
				add("api:distinct", "turn %d: id %d issued to service %d (MySQL store built with step argument %d) had been issued to service %d (step argument %d): both share the counter row `svc`",
					t, id, svc, c.Steps[svc], prev, c.Steps[prev])
			}
			if len(fails) > 0 && fails[len(fails)-1].key != "api:in-segment" {
				return
			}
			issued[id] = svc
			lastOf[svc] = id
		}
	}
	return
}

func doMy(r *hxlib.Run, c myCase) {
	r.Case()
	fails, skip := runMy(c)
	if skip != "" {
		r.Count("mysql-store:skipped")
		if !extNoted[skip] {
			extNoted[skip] = true
			r.Note("mysql-store leg SKIPPED: %s", skip)
		}
		return
	}
	r.Count("kind:mysql-store")
	if len(c.Steps) >= 2 {
		r.NonTrivial(fmt.Sprintf("my-%v-%d-%d", c.Steps, c.Start, len(c.Turns)))
	}
	seen := map[string]bool{}
	for _, f := range fails {
		if !seen[f.key] {
			seen[f.key] = true
			r.Fail(f.key, f.what, c)
		}
	}
}

func mysqlStoreLegs(r *hxlib.Run) {
	R := hxlib.NewRand(r.Seed ^ 0xC085C)
	stepArgs := []int{1, 500, 1000, 2000, 5000, 0, 3, 4000}
	// the plain case first: two services, store steps 1000 and 2000, one counter row
	doMy(r, myCase{Kind: "mysql-store", Steps: []int{1000, 2000}, Start: 1, Turns: [][2]int{{0, 5}, {1, 5}, {0, 3}, {1, 2001}, {0, 3001}}})
	for k := 0; k < r.Scale(60, 600); k++ {
		n := R.Range(1, 4)
		c := myCase{Kind: "mysql-store", Start: []int64{0, 1, 7, 1<<31/oDefaultStep - 2, 1 << 40}[R.Intn(5)]}
		for i := 0; i < n; i++ {
			c.Steps = append(c.Steps, stepArgs[R.Intn(len(stepArgs))])
		}
		if R.Chance(1, 4) {
			c.Direct = int32(R.Pick(1, 2, 3, 2000, 777))
		}
		for t, m := 0, R.Range(2, 8); t < m; t++ {
			calls := R.Pick(0, 1, 2, 7, 50)
			if R.Chance(1, 6) {
				calls = int(effStep(c.Direct)) + R.Range(0, 2) // across a segment end
				if calls > 2100 {
					calls = 2100
				}
			}
			c.Turns = append(c.Turns, [2]int{R.Intn(n), calls})
		}
		doMy(r, c)
	}
}

func diversityLegs(r *hxlib.Run) {
	t0 := time.Now()
	stepExtremeLegs(r)
	mysqlStoreLegs(r)
	r.Note("third-wave legs (diversity.go): step extremes with pre-positioned generators and *uuid.MySQLStore objects on an in-memory database/sql driver took %.2f s; *uuid.MongoStore not run (no in-memory seam under *mongo.Client)", time.Since(t0).Seconds())
}
