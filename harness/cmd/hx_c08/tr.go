package main

// tr.go: X for the translator. Gen/C08.lean `Tr` holds the Lean translation of the int64 arithmetic of SeqIDGen.reload
// (the stored lastID, the overflow test) and SeqIDGen.Next (the candidate id, the in-segment test). Here the REAL Init
// and Next are run on generators put into chosen field states (hook VerifSetState; a store that answers a chosen
// counter, or fails and records that it was asked) — every int64 for step, counter and lastID, so that the products and
// sums wrap — and the model driver evaluates the generated definitions on the same arguments. This checks the
// translator's semantics (signed comparison, wrap-around) against Go, not the property.

import (
	"errors"
	"fmt"

	"verifharness/hxlib"

	"qchen.fun/fatchoy/x/uuid"
)

type trStore struct {
	answer int64
	fail   bool
	asked  int
}

func (s *trStore) Incr() (int64, error) {
	s.asked++
	if s.fail {
		return 0, errors.New("tr: store refuses")
	}
	return s.answer, nil
}
func (s *trStore) Close() error { return nil }

// trReload: one real Init (= reload) of a generator with the given step, the store answering counter c.
func trReload(r *hxlib.Run, step, c int64) {
	st := &trStore{answer: c}
	g := uuid.NewSeqIDGen(st, 1)
	g.VerifSetState(step, 0, 0)
	var err error
	if p := hxlib.Guard(func() { err = g.Init() }); p != "" {
		r.Count("tr-reload-panic")
		return
	}
	_, _, lastID := g.VerifState()
	r.Op(fmt.Sprintf("tr reload_lastID %d %d", step, c), fmt.Sprint(lastID))
	r.Op(fmt.Sprintf("tr reload_overflow %d %d %d", step, lastID, c), fmt.Sprint(err != nil))
	r.Count("tr-reload")
}

// trNext: one real Next of a generator in the state (step, counter, lastID); the store fails, so the call either
// stays inside the segment (store not asked, the id is the candidate) or asks the store and returns its error.
func trNext(r *hxlib.Run, step, counter, lastID int64) {
	st := &trStore{fail: true}
	g := uuid.NewSeqIDGen(st, 1)
	g.VerifSetState(step, counter, lastID)
	var id int64
	if p := hxlib.Guard(func() { id, _ = g.Next() }); p != "" {
		r.Count("tr-next-panic")
		return
	}
	in := st.asked == 0
	next := lastID + 1 // (wraps like the code's; when the call stayed in the segment it is also the id it returned)
	if in {
		r.Op(fmt.Sprintf("tr Next_next %d", lastID), fmt.Sprint(id))
		next = id
	}
	r.Op(fmt.Sprintf("tr Next_inRange %d %d %d", step, counter, next), fmt.Sprint(in))
	r.Count("tr-next")
}

func trLeg(r *hxlib.Run) {
	R := hxlib.NewRand(r.Seed ^ 0x7A08) // a stream of its own: the cases of the other sections stay what they were
	const maxI, minI = int64(1<<63 - 1), int64(-1 << 63)
	edge := []int64{0, 1, 2, 3, 7, 1999, 2000, 2001, 1 << 31, 1<<31 - 1, 1 << 32, 3037000499, 3037000500, 1 << 62, maxI - 1, maxI,
		-1, -2, -2000, -1 << 31, -1 << 62, minI + 1, minI, maxI / 2000, maxI/2000 + 1, maxI / 3, 4611686018427387904}
	for _, s := range edge {
		for _, c := range edge {
			trReload(r, s, c)
			for _, l := range []int64{0, c * s, c*s + 1, (c+1)*s - 1, (c + 1) * s, (c+1)*s + 1, maxI, minI, -1} {
				trNext(r, s, c, l)
			}
		}
	}
	pick := func() int64 {
		switch R.Intn(4) {
		case 0:
			return edge[R.Intn(len(edge))]
		case 1:
			return int64(R.U64() >> uint(R.Intn(64)))
		case 2:
			return -int64(R.U64() >> uint(1+R.Intn(63)))
		}
		return int64(R.U64())
	}
	for k := 0; k < r.Scale(3000, 60000); k++ {
		s, c := pick(), pick()
		trReload(r, s, c)
		l := pick()
		if R.Intn(2) == 0 {
			l = (c+1)*s + int64(R.Intn(5)) - 2 // around the segment end
		}
		trNext(r, s, c, l)
	}
	r.Count("translated-function-evaluations")
}
