package main

// Failing-input search legs of C08 (only with -search). Classes they are aimed at:
//
//	fault-class   (unusual parameters)  the store fails with errors of the TIMEOUT class (net.Error with Timeout(),
//	                                    context.DeadlineExceeded plain and wrapped, os.ErrDeadlineExceeded, url.Error)
//	                                    and other non-sentinel errors, before and after the counter moved, with other
//	                                    generators leasing in between — the ordinary random histories, other errors
//	api           (unusual parameters)  the package-level path uuid.Init / uuid.NextID: re-initialisation that fails
//	                                    (every error class, before / after the counter moved) or succeeds, NextID
//	                                    called on across it; judged like any generator: ids lie in segments the
//	                                    store handed to this process, and never repeat
//	long          (scale / period)      one generator observed, then EXACTLY 2^16, 2^17, 2^18, 2^20 further calls of Next
//	                                    by 1..4 generators with steps 1..7 (up to 2^20 leases), counters crossing
//	                                    2^31, 2^32 and 2^53/step, then all of them observed again
//	stalled-store (schedule)            concurrent callers while the store call (made under the generator's mutex)
//	                                    stalls for 10..50 ms
//
// The oracle is the ordinary one (in-segment, increasing, distinct, complete, fault clauses).

import (
	"context"
	"errors"
	"fmt"
	"io"
	"net"
	"net/url"
	"os"
	"time"

	"verifharness/hxlib"

	"qchen.fun/fatchoy/x/uuid"
)

type timeoutErr struct{}

func (timeoutErr) Error() string   { return "i/o timeout" }
func (timeoutErr) Timeout() bool   { return true }
func (timeoutErr) Temporary() bool { return true }

var (
	errNetTimeout = &net.OpError{Op: "read", Net: "tcp", Err: timeoutErr{}}
	errURLTimeout = &url.Error{Op: "Get", URL: "http://store/incr", Err: timeoutErr{}}
	errCtxWrapped = fmt.Errorf("store incr: %w", context.DeadlineExceeded)
	errTemporary  = &net.DNSError{Err: "server misbehaving", Name: "store", IsTemporary: true}
)

var errClasses = []string{"net-timeout", "ctx-deadline", "ctx-deadline-wrapped", "os-deadline", "url-timeout", "ctx-canceled", "eof", "dns-temporary", "conn-closed"}

func storeError(class string) error {
	switch class {
	case "net-timeout":
		return errNetTimeout
	case "ctx-deadline":
		return context.DeadlineExceeded
	case "ctx-deadline-wrapped":
		return errCtxWrapped
	case "os-deadline":
		return os.ErrDeadlineExceeded
	case "url-timeout":
		return errURLTimeout
	case "ctx-canceled":
		return context.Canceled
	case "eof":
		return io.ErrUnexpectedEOF
	case "dns-temporary":
		return errTemporary
	case "conn-closed":
		return net.ErrClosed
	}
	return errStoreDown
}

// injected: err is (or wraps) one of the errors the in-memory store fails with
func injected(err error) bool {
	for _, c := range errClasses {
		if errors.Is(err, storeError(c)) {
			return true
		}
	}
	var t timeoutErr
	return errors.As(err, &t)
}

// ---- api: uuid.Init / uuid.NextID across re-initialisation ------------------------------------------------------

type apiAct struct {
	Op  string `json:"op"` // init | next
	Raw raw    `json:"raw,omitempty"`
	N   int    `json:"n,omitempty"`
}

// runAPI plays the history on the package-level API and returns the findings.
func runAPI(acts []apiAct, count func(string)) (fails []fail) {
	add := func(key, format string, a ...interface{}) { fails = append(fails, fail{key, fmt.Sprintf(format, a...)}) }
	be := &backend{}
	ad := &adapter{be: be}
	var stores []*genStore
	leased := func(id int64) bool {
		for _, st := range stores {
			for _, c := range st.leases {
				if c*oDefaultStep < id && id <= (c+1)*oDefaultStep {
					return true
				}
			}
		}
		return false
	}
	issued := map[int64]bool{}
	inited := false
	last := int64(0) // last id of the current generator (a successful Init begins a new one)
	for i, a := range acts {
		switch a.Op {
		case "init":
			st := &genStore{ad: ad}
			stores = append(stores, st)
			be.offer = a.Raw
			var err error
			if p := hxlib.Guard(func() { err = uuid.Init(4321, st) }); p != "" {
				add("api:panic", "act %d: uuid.Init panicked: %s", i, p)
				return
			}
			failed := st.fails > 0
			count("api:init:" + a.Raw.K + "/" + a.Raw.E)
			switch {
			case failed && err == nil:
				add("api:init-swallowed-error", "act %d: uuid.Init returned nil although its store call failed (%s)", i, a.Raw)
			case !failed && err != nil:
				add("api:init", "act %d: uuid.Init failed on a working store: %v", i, err)
			case err == nil:
				inited = true
				last = 0
			}
		case "next":
			if !inited {
				continue // NextID before any successful Init: outside the hypotheses
			}
			runStart := be.calls
			for k := 0; k < a.N; k++ {
				be.offer = a.Raw
				if a.Raw.K != "fb" {
					be.offer.C = a.Raw.C + int64(be.calls-runStart) // a fresh counter for every lease of this run
				}
				var id int64
				callsBefore := be.calls
				p := hxlib.Guard(func() { id = uuid.NextID() })
				if p != "" {
					// MustNext panics with the store's error: that is how this API reports a failed lease
					if be.calls == callsBefore || a.Raw.K == "ok" {
						add("api:panic", "act %d: uuid.NextID panicked although no store call failed: %s", i, p)
						return
					}
					count("api:next-reported-store-fault")
					continue
				}
				switch {
				case !leased(id):
					add("api:in-segment", "act %d: uuid.NextID returned %d, which lies in no segment the store handed to this process (counters leased: %v)", i, id, allLeases(stores))
				case issued[id]:
					add("api:distinct", "act %d: uuid.NextID returned %d twice", i, id)
				case id <= last:
					add("api:increasing", "act %d: uuid.NextID returned %d after %d", i, id, last)
				}
				if len(fails) > 0 {
					return
				}
				issued[id] = true
				last = id
			}
		}
	}
	return
}

func allLeases(stores []*genStore) []int64 {
	var v []int64
	for _, st := range stores {
		v = append(v, st.leases...)
	}
	return v
}

func apiHistory(R *hxlib.Rand) []apiAct {
	next := []int64{1, 5, 1000, 1<<31/oDefaultStep - 2, 1 << 40}[R.Intn(5)]
	fresh := func() int64 { next += int64(R.Range(1, 3)); return next }
	fault := func() raw {
		w := raw{K: []string{"fb", "fa"}[R.Intn(2)], E: errClasses[R.Intn(len(errClasses))]}
		if R.Chance(1, 5) {
			w.E = ""
		}
		if w.K == "fa" {
			w.C = fresh()
		}
		return w
	}
	var acts []apiAct
	nextN := func() {
		n := R.Pick(0, 1, 2, 7, oDefaultStep-1, oDefaultStep, oDefaultStep+1)
		w := raw{K: "ok", C: fresh()}
		next += 4 // the run may lease up to two counters
		if R.Chance(1, 6) {
			w = fault()
		}
		acts = append(acts, apiAct{Op: "next", N: n, Raw: w})
	}
	if R.Chance(1, 4) {
		acts = append(acts, apiAct{Op: "init", Raw: fault()})
	}
	acts = append(acts, apiAct{Op: "init", Raw: raw{K: "ok", C: fresh()}})
	for i, n := 0, R.Range(2, 8); i < n; i++ {
		nextN()
		switch x := R.Intn(10); {
		case x < 5: // a re-initialisation that fails, perhaps several times
			for k := R.Range(1, 3); k > 0; k-- {
				acts = append(acts, apiAct{Op: "init", Raw: fault()})
				if R.Bool() {
					nextN()
				}
			}
		case x < 7:
			acts = append(acts, apiAct{Op: "init", Raw: raw{K: "ok", C: fresh()}})
		}
	}
	nextN()
	return acts
}

// ---- long: exact numbers of calls, many leases, large counters ---------------------------------------------------

// runLong: generator 0 leases and issues one id (the observation); then exactly c.Each calls of Next are made
// round-robin-at-random on the generators 1..G (or on generator 0 itself when G = 1); then every generator is
// called again. Judged directly: every id lies in a segment leased by its generator, per generator increasing,
// never issued before.
func runLong(c qcase) (fails []fail, leases int) {
	add := func(key, format string, a ...interface{}) {
		if len(fails) < 4 {
			fails = append(fails, fail{key, fmt.Sprintf(format, a...)})
		}
	}
	R := hxlib.NewRand(c.Seed)
	step := effStep(c.Step)
	be := &backend{}
	cur := c.Start
	be.auto = func() raw { cur += int64(1 + R.Intn(c.Gap+1)); return raw{K: "ok", C: cur} }
	ad := &adapter{be: be}
	ng := c.Generators
	gens := make([]*uuid.SeqIDGen, ng)
	stores := make([]*genStore, ng)
	owned := make([]map[int64]bool, ng)
	seen := make([]int, ng)
	lastID := make([]int64, ng)
	issued := make(map[int64]int32, c.Each+64)
	for g := range gens {
		stores[g] = &genStore{ad: ad, g: g}
		gens[g] = uuid.NewSeqIDGen(stores[g], c.Step)
		owned[g] = map[int64]bool{}
		if err := gens[g].Init(); err != nil {
			add("long:init", "Init of generator %d failed on a working store: %v", g, err)
			return
		}
	}
	call := func(g int, phase string) {
		id, err := gens[g].Next()
		if err != nil {
			add("fault:spurious-error", "%s: Next on generator %d failed with %q although no store call failed", phase, g, err)
			return
		}
		st := stores[g]
		for ; seen[g] < len(st.leases); seen[g]++ {
			owned[g][st.leases[seen[g]]] = true
		}
		if id < 1 || !owned[g][(id-1)/step] {
			add("in-segment", "%s: generator %d (step %d) issued %d, outside every segment it leased (%d leases, the last ones %v)", phase, g, step, id, len(st.leases), tail(st.leases, 3))
		}
		if id <= lastID[g] {
			add("increasing", "%s: generator %d issued %d after %d", phase, g, id, lastID[g])
		}
		if prev, dup := issued[id]; dup {
			add("distinct", "%s: id %d issued twice (generators %d and %d)", phase, id, prev, g)
		}
		issued[id] = int32(g)
		lastID[g] = id
	}
	call(0, "observation before")
	for k := 0; k < c.Each && len(fails) == 0; k++ {
		g := 0
		if ng > 1 {
			g = 1 + R.Intn(ng-1)
		}
		call(g, fmt.Sprintf("call %d of exactly %d", k+1, c.Each))
	}
	for g := 0; g < ng && len(fails) == 0; g++ {
		for k := 0; k < int(step)+2; k++ {
			call(g, fmt.Sprintf("observation after exactly %d calls", c.Each))
		}
	}
	return fails, be.calls
}

func tail(v []int64, n int) []int64 {
	if len(v) > n {
		return v[len(v)-n:]
	}
	return v
}

// ---- the legs ----------------------------------------------------------------------------------------------------

func searchLegs(r *hxlib.Run) {
	t0 := time.Now()
	defer func() { r.Note("search legs took %.1f s", time.Since(t0).Seconds()) }()
	R := r.R
	// api
	nAPI := 4000
	for k := 0; k < nAPI && !r.Failed(); k++ {
		c := qcase{Kind: "api-history", API: apiHistory(R)}
		doAPI(r, c)
	}
	// fault-class: the ordinary random histories with the store failing in every error class
	nFault := 25000
	for k := 0; k < nFault && !r.Failed(); k++ {
		searchClasses = errClasses
		if R.Chance(1, 3) {
			searchClasses = []string{errClasses[R.Intn(len(errClasses))]}
		}
		c := randomHistory(r, R.Pick(12, 40, 120))
		searchClasses = nil
		c.Kind = "random-fault-class"
		do(r, c)
		r.Count("search:fault-class")
	}
	// long
	maxLeases := 0
	for _, each := range []int{1 << 16, 1 << 17, 1 << 18, 1 << 20} {
		for _, step := range []int32{1, 2, 3, 7} {
			if (each == 1<<20 && step > 2) || r.Failed() {
				continue
			}
			starts := []int64{0, 1<<16 - 40, 1<<31 - int64(each)/2/int64(step), 1<<32 - 100, (1<<53)/int64(step) - 50}
			c := qcase{Kind: "long", Generators: R.Range(1, 4), Each: each, Step: step, Seed: R.U64(), Start: starts[R.Intn(len(starts))], Gap: R.Pick(0, 0, 1, 5)}
			r.Case()
			fails, n := runLong(c)
			if n > maxLeases {
				maxLeases = n
			}
			r.Count("search:long")
			r.CountN("search:long:calls", each)
			for _, f := range fails {
				r.Fail(f.key, f.what, c)
			}
		}
	}
	// stalled store
	for k := 0; k < 8 && !r.Failed(); k++ {
		concurrentStall(r, R.U64(), R.Range(1, 3), R.Range(3, 8), 300, int32(R.Pick(20, 50)), R.Range(10, 50))
		r.Count("search:stalled-store")
	}
	r.Note("search legs: api %d histories over uuid.Init/NextID with failing and succeeding re-initialisation; fault-class %d random histories with %d error classes (timeout class and others); long: exactly 2^16/2^17/2^18/2^20 calls with steps 1,2,3,7 (most leases in one run: %d), counters from 0, 2^16, 2^31, 2^32, 2^53/step; stalled-store 8 concurrent runs with store calls stalling 10..50 ms",
		nAPI, nFault, len(errClasses), maxLeases)
}

var searchClasses []string

func doAPI(r *hxlib.Run, c qcase) {
	r.Case()
	r.Count("search:api")
	fails := runAPI(c.API, r.Count)
	if len(fails) == 0 {
		return
	}
	key := fails[0].key
	has := func(acts []apiAct) (string, bool) {
		for _, f := range runAPI(acts, func(string) {}) {
			if f.key == key {
				return f.what, true
			}
		}
		return "", false
	}
	keep := hxlib.DDMin(len(c.API), func(keep []int) bool {
		var acts []apiAct
		for _, i := range keep {
			acts = append(acts, c.API[i])
		}
		_, ok := has(acts)
		return ok
	})
	small := qcase{Kind: c.Kind}
	for _, i := range keep {
		small.API = append(small.API, c.API[i])
	}
	what, ok := has(small.API)
	if !ok {
		small, what = c, fails[0].what
	}
	r.Fail(key, what, small)
}
