// hx_c08: correspondence harness + oracle for C08 (segment id generators).
//
// The real SeqIDGen runs on an in-memory Storage: one `backend` (the database counter, played by an
// adversary: fresh values in any order, with gaps, failing before or after it moved) and `adapter`s
// that carry the same "did not grow" guard as the four real adapters.
package main

import (
	"errors"
	"fmt"
	"hash/fnv"
	"io"
	"log"
	"sort"
	"strings"
	"sync"
	"time"

	"verifharness/hxlib"

	"qchen.fun/fatchoy/x/uuid"
)

const oDefaultStep = 2000 // the oracle's own copy of the documented default

type raw struct {
	K string `json:"k"` // ok | fb (failed before moving) | fa (failed after moving)
	C int64  `json:"c,omitempty"`
	E string `json:"e,omitempty"` // failing-input search: the class of error the store fails with ("" = a plain sentinel)
}

func (w raw) String() string {
	e := ""
	if w.E != "" && w.K != "ok" {
		e = "/" + w.E
	}
	if w.K == "fb" {
		return "fb" + e
	}
	return fmt.Sprintf("%s:%d%s", w.K, w.C, e)
}

type act struct {
	Op   string `json:"op"` // adapter | create | init | next | nextn | crash
	G    int    `json:"g,omitempty"`
	Step int32  `json:"step,omitempty"`
	Ad   int    `json:"ad,omitempty"`
	Raw  raw    `json:"raw,omitempty"`
	N    int    `json:"n,omitempty"`
}

type qcase struct {
	Kind string `json:"kind"`
	// kind "concurrent": real goroutines on generators sharing an automatic adversarial store
	Generators int    `json:"generators,omitempty"`
	Workers    int    `json:"workers,omitempty"`
	Each       int    `json:"each,omitempty"`
	Step       int32  `json:"step,omitempty"`
	Seed       uint64 `json:"seed,omitempty"`
	// Excluded names the hypothesis of the property this history deliberately leaves ("" = none):
	// the oracle's findings on it are recorded as observations.
	Excluded string `json:"excluded,omitempty"`
	Acts     []act  `json:"acts,omitempty"`
	// failing-input search legs
	API   []apiAct `json:"api,omitempty"`   // kind "api-history"
	Start int64    `json:"start,omitempty"` // kind "long": counter the store starts from
	Gap   int      `json:"gap,omitempty"`   // kind "long": largest gap between two counters
	Stall int      `json:"stall_ms,omitempty"`
	// Store selects what stands behind the `adapter` actions of a scripted history: "" = the in-memory re-statement of
	// the guard, "redis" = a real *uuid.RedisStore on a scripted loopback RESP server (redisleg.go)
	Store string `json:"store,omitempty"`
}

// ---- the in-memory store ------------------------------------------------------------------------

var errStoreDown = errors.New("store: injected failure")

type storeEvt struct {
	g int // generator whose call this is
	w raw
}

type backend struct {
	mu    sync.Mutex
	offer raw // scripted mode: the answer to the next call
	auto  func() raw
	calls int
	log   []storeEvt // automatic mode: every call in the order the database served them
}

func (b *backend) incr(g int) raw {
	b.mu.Lock()
	defer b.mu.Unlock()
	b.calls++
	if b.auto != nil {
		w := b.auto()
		b.log = append(b.log, storeEvt{g, w})
		return w
	}
	return b.offer
}

// adapter: the guard of store_redis.go & co., on top of the backend.
type adapter struct {
	be     *backend
	mu     sync.Mutex
	lastId int64
}

func (a *adapter) incr(g int) (int64, error) {
	a.mu.Lock()
	defer a.mu.Unlock()
	w := a.be.incr(g)
	if w.K != "ok" {
		return 0, storeError(w.E)
	}
	if a.lastId != 0 && a.lastId >= w.C {
		return 0, uuid.ErrIDOutOfRange
	}
	a.lastId = w.C
	return w.C, nil
}

// genStore is the Storage value handed to one generator: it records what that generator was told.
type genStore struct {
	ad      adIface
	g       int // index of the generator (concurrent leg)
	mu      sync.Mutex
	leases  []int64
	results []string // per call: "ok" or the error kind returned to the generator
	fails   int
	calls   int
}

func (s *genStore) Incr() (int64, error) {
	c, err := s.ad.incr(s.g)
	s.mu.Lock()
	s.calls++
	if err != nil {
		s.fails++
		s.results = append(s.results, errKind(err))
	} else {
		s.leases = append(s.leases, c)
		s.results = append(s.results, "ok")
	}
	s.mu.Unlock()
	return c, err
}
func (s *genStore) Close() error { return nil }

func errKind(err error) string {
	switch {
	case errors.Is(err, errStoreDown) || injected(err) || redisInjected(err):
		return "err:store"
	case errors.Is(err, uuid.ErrIDOutOfRange):
		return "err:range"
	case strings.HasPrefix(err.Error(), "SeqID: integer overflow"):
		return "err:overflow"
	}
	return "err:other"
}

// ---- the oracle ----------------------------------------------------------------------------------

type fail struct{ key, what string }

type ogen struct {
	step    int64
	st      *genStore
	ids     []int64
	inited  bool
	viaNext []bool // parallel to st.leases: the lease was taken by Next (not by Init)
}

type oracle struct {
	gens   []*ogen
	issued map[int64]int
	fails  []fail
}

func (o *oracle) add(key, format string, a ...interface{}) {
	o.fails = append(o.fails, fail{key, fmt.Sprintf(format, a...)})
}

// onID: generator g returned id from Next.
func (o *oracle) onID(g int, id int64) {
	og := o.gens[g]
	if prev, dup := o.issued[id]; dup {
		o.add("distinct", "id %d issued twice (generators %d and %d)", id, prev, g)
	}
	o.issued[id] = g
	if n := len(og.ids); n > 0 && id <= og.ids[n-1] {
		o.add("increasing", "generator %d issued %d after %d", g, id, og.ids[n-1])
	}
	og.ids = append(og.ids, id)
	in := false
	for _, c := range og.st.leases {
		if c*og.step < id && id <= (c+1)*og.step {
			in = true
		}
	}
	if !in {
		o.add("in-segment", "generator %d (step %d) issued %d, outside every segment it leased (counters %v)", g, og.step, id, og.st.leases)
	}
}

// final: "without consuming ids" — the ids a generator issued from a leased segment are exactly the
// first m of it (nothing skipped), and a segment that Next left for a new one was issued completely.
func (o *oracle) final() {
	for g, og := range o.gens {
		set := make(map[int64]bool, len(og.ids))
		perSeg := map[int64]int64{}
		for _, id := range og.ids {
			set[id] = true
			if id >= 1 {
				perSeg[(id-1)/og.step]++
			}
		}
		for i, c := range og.st.leases {
			if c < 0 || c > (maxInt64-1)/og.step-1 {
				continue // outside the no-overflow range (excluded points only)
			}
			m := int64(0)
			for m < og.step && set[c*og.step+m+1] {
				m++
			}
			if perSeg[c] != m {
				o.add("complete:skipped", "generator %d (step %d): segment of counter %d has %d ids issued but only the first %d are consecutive", g, og.step, c, perSeg[c], m)
			}
			if i+1 < len(og.st.leases) && i+1 < len(og.viaNext) && og.viaNext[i+1] && m != og.step {
				o.add("complete:abandoned", "generator %d (step %d): Next leased counter %d although only %d ids of counter %d were issued", g, og.step, og.st.leases[i+1], m, c)
			}
		}
	}
}

// ---- running one history -------------------------------------------------------------------------

type world struct {
	be   *backend
	ads  []adIface
	gens []*uuid.SeqIDGen
	dead []bool
	o    *oracle
}

type result struct {
	excluded        string // the hypothesis of the property this history leaves ("" = none)
	fails           []fail
	reloads, faults int
	crashes, ngens  int
	hash            string
}

func effStep(s int32) int64 {
	if s <= 0 {
		return oDefaultStep
	}
	return int64(s)
}

func runCase(c qcase, rec *hxlib.Run) (res result) {
	w := &world{be: &backend{}, o: &oracle{issued: map[int64]int{}}}
	h := fnv.New64a()
	if rec != nil {
		rec.Op("reset", "ok")
	}
	op := func(line, ans string) {
		if rec != nil {
			rec.Op(line, ans)
		}
	}
	count := func(k string) {
		if rec != nil {
			rec.Count(k)
		}
	}
	exclude := func(why string) {
		if res.excluded == "" {
			res.excluded = why
		}
	}
	moved := map[int64]bool{}
	defer func() {
		for _, ad := range w.ads {
			ad.close()
		}
	}()
	for _, a := range c.Acts {
		fmt.Fprintf(h, "%s,%d,%d,%d,%s,%d;", a.Op, a.G, a.Step, a.Ad, a.Raw, a.N)
		// the hypotheses of the property, decided on the history itself
		switch a.Op {
		case "create":
			if len(w.o.gens) > 0 && w.o.gens[0].step != effStep(a.Step) {
				exclude("generators with different steps on one store")
			}
		case "init", "next":
			if a.Raw.K != "fb" {
				if moved[a.Raw.C] {
					exclude("a store that hands out a counter twice")
				}
				if a.Raw.C < 0 || (len(w.o.gens) > 0 && a.Raw.C > (maxInt64-1)/w.o.gens[0].step-1) {
					exclude("counter*step beyond int64")
				}
			}
			fallthrough
		case "nextn":
			if a.Op != "init" && a.G >= 0 && a.G < len(w.o.gens) && !w.o.gens[a.G].inited {
				exclude("Next without a successful Init")
			}
		}
		switch a.Op {
		case "adapter":
			if c.Store == "redis" {
				ra, why := newRedisAdapter(w.be)
				if ra == nil {
					w.o.add("harness:redis-store", "cannot build a RedisStore on the scripted server: %s", why)
					w.ads = append(w.ads, &adapter{be: w.be})
				} else {
					w.ads = append(w.ads, ra)
				}
			} else {
				w.ads = append(w.ads, &adapter{be: w.be})
			}
			op("adapter", "ok")
		case "create":
			if a.Ad < 0 || a.Ad >= len(w.ads) {
				op(fmt.Sprintf("create step=%d ad=%d", a.Step, a.Ad), "bad-op")
				continue
			}
			st := &genStore{ad: w.ads[a.Ad]}
			w.gens = append(w.gens, uuid.NewSeqIDGen(st, a.Step))
			w.dead = append(w.dead, false)
			w.o.gens = append(w.o.gens, &ogen{step: effStep(a.Step), st: st})
			res.ngens++
			op(fmt.Sprintf("create step=%d ad=%d", a.Step, a.Ad), "ok")
		case "crash":
			if a.G < 0 || a.G >= len(w.gens) || w.dead[a.G] {
				op(fmt.Sprintf("crash g=%d", a.G), "bad-op")
				continue
			}
			w.dead[a.G] = true // the process is gone: nobody calls this generator again
			res.crashes++
			count("crash")
			op(fmt.Sprintf("crash g=%d", a.G), "ok")
		case "init", "next":
			line := fmt.Sprintf("%s g=%d raw=%s", a.Op, a.G, a.Raw)
			if a.G < 0 || a.G >= len(w.gens) || w.dead[a.G] {
				op(line, "bad-op")
				continue
			}
			gen, og := w.gens[a.G], w.o.gens[a.G]
			w.be.offer = a.Raw
			before, failsBefore := og.st.calls, og.st.fails
			var id int64
			var err error
			pan := hxlib.Guard(func() {
				if a.Op == "init" {
					err = gen.Init()
				} else {
					id, err = gen.Next()
				}
			})
			called := og.st.calls - before
			if called > 0 && a.Raw.K != "fb" {
				moved[a.Raw.C] = true
			}
			storeFailed := og.st.fails > failsBefore
			for len(og.viaNext) < len(og.st.leases) {
				og.viaNext = append(og.viaNext, a.Op == "next")
			}
			var ans string
			switch {
			case pan != "":
				ans = "panic"
				w.o.add("panic", "%s on generator %d panicked: %s", a.Op, a.G, pan)
			case err != nil:
				ans = errKind(err)
				count(ans)
				if !storeFailed && ans != "err:overflow" {
					w.o.add("fault:spurious-error", "%s on generator %d failed with %q although no store call failed", a.Op, a.G, err)
				}
			case a.Op == "init":
				ans = "ok"
				og.inited = true
				res.reloads++
			default:
				ans = fmt.Sprintf("id %d", id)
				w.o.onID(a.G, id)
				if called > 0 {
					res.reloads++
					count("next-with-reload")
				}
			}
			if storeFailed {
				res.faults++
				count("store-fault:" + a.Raw.K)
				if err == nil && pan == "" {
					w.o.add("fault:swallowed", "%s on generator %d returned no error although its store call failed", a.Op, a.G)
				}
			}
			if called > 1 {
				w.o.add("fault:store-called-twice", "%s on generator %d called the store %d times", a.Op, a.G, called)
			}
			op(line, fmt.Sprintf("%s called=%d", ans, called))
		case "nextn":
			line := fmt.Sprintf("nextn g=%d n=%d", a.G, a.N)
			if a.G < 0 || a.G >= len(w.gens) || w.dead[a.G] {
				op(line, "bad-op")
				continue
			}
			gen, og := w.gens[a.G], w.o.gens[a.G]
			w.be.offer = raw{K: "fb"}
			nok, nerr := 0, 0
			first, last := "-", "-"
			var sum uint64
			for k := 0; k < a.N; k++ {
				id, err := gen.Next()
				if err != nil {
					nerr++
					if errKind(err) != "err:store" {
						w.o.add("fault:spurious-error", "Next on generator %d failed with %q", a.G, err)
					}
					continue
				}
				w.o.onID(a.G, id)
				nok++
				if first == "-" {
					first = fmt.Sprint(id)
				}
				last = fmt.Sprint(id)
				sum += uint64(id)
			}
			if nerr > 0 {
				res.faults++
			}
			for len(og.viaNext) < len(og.st.leases) {
				og.viaNext = append(og.viaNext, true)
			}
			op(line, fmt.Sprintf("ok=%d err=%d first=%s last=%s sum=%d", nok, nerr, first, last, sum))
		}
	}
	w.o.final()
	res.fails = w.o.fails
	res.hash = fmt.Sprintf("%016x", h.Sum64())
	return res
}

func shrink(c qcase, key string) qcase {
	orig := runCase(c, nil).excluded
	has := func(cc qcase) bool {
		res := runCase(cc, nil)
		if res.excluded != orig {
			return false // shrinking must not leave the hypotheses of the property
		}
		for _, f := range res.fails {
			if f.key == key {
				return true
			}
		}
		return false
	}
	if len(c.Acts) > 600 || !has(c) {
		return c
	}
	keep := hxlib.DDMin(len(c.Acts), func(keep []int) bool {
		cc := qcase{Kind: c.Kind, Excluded: c.Excluded, Store: c.Store}
		for _, i := range keep {
			cc.Acts = append(cc.Acts, c.Acts[i])
		}
		return has(cc)
	})
	out := qcase{Kind: c.Kind, Excluded: c.Excluded, Store: c.Store}
	for _, i := range keep {
		out.Acts = append(out.Acts, c.Acts[i])
	}
	return out
}

var noted = map[string]bool{}

func do(r *hxlib.Run, c qcase) {
	r.Case()
	res := runCase(c, r)
	r.Count("kind:" + c.Kind)
	if c.Excluded != "" && res.excluded == "" {
		r.Fail("harness:excluded-point-not-reached", "the history built for the excluded point "+c.Excluded+" stays inside the hypotheses", c)
	}
	if res.excluded != "" {
		r.Count("excluded:" + res.excluded)
	}
	if res.reloads > 1 && (res.faults > 0 || res.crashes > 0 || res.ngens >= 2) {
		r.NonTrivial(res.hash)
	}
	seen := map[string]bool{}
	for _, f := range res.fails {
		if seen[f.key] {
			continue
		}
		seen[f.key] = true
		if res.excluded != "" {
			// outside the property's hypotheses: an observation, not a violation
			r.Count("observation:" + res.excluded + ":" + f.key)
			if k := res.excluded + ":" + f.key; !noted[k] {
				noted[k] = true
				r.Note("observation (excluded point %q, not a violation): %s", res.excluded, f.what)
			}
			continue
		}
		small := shrink(c, f.key)
		what := f.what
		for _, g := range runCase(small, nil).fails {
			if g.key == f.key {
				what = g.what
				break
			}
		}
		r.Fail(f.key, what, small)
	}
}

// ---- history generator ---------------------------------------------------------------------------

type source struct {
	R    *hxlib.Rand
	mode int // 0 sequential, 1 gaps, 2 any order in a small range, 3 large values
	cur  int64
	used map[int64]bool
	step int64
}

const maxInt64 = int64(^uint64(0) >> 1)

// fresh returns a counter value never returned before (and inside the no-overflow range).
func (s *source) fresh() int64 {
	limit := (maxInt64-1)/s.step - 1 // (c+1)*step+1 <= MaxInt64
	for {
		var c int64
		switch s.mode {
		case 0:
			c = s.cur + 1
		case 1:
			c = s.cur + int64(s.R.Range(1, 40))
		case 2:
			c = int64(s.R.Intn(60))
			if len(s.used) > 40 {
				c = s.cur + 1
			}
		default:
			c = limit - int64(s.R.Intn(1000))
		}
		if c < 0 || c > limit || s.used[c] {
			if s.mode == 3 || s.mode == 2 {
				if len(s.used) > 900 {
					s.mode = 0
				}
				if c > s.cur {
					s.cur = c
				}
				continue
			}
			s.cur++
			continue
		}
		s.used[c] = true
		if c > s.cur {
			s.cur = c
		}
		return c
	}
}

func (s *source) draw(faultPct int) raw {
	x := s.R.Intn(100)
	e := ""
	if len(searchClasses) > 0 && x < faultPct {
		e = searchClasses[s.R.Intn(len(searchClasses))]
	}
	switch {
	case x < faultPct/2:
		return raw{K: "fb", E: e}
	case x < faultPct:
		return raw{K: "fa", C: s.fresh(), E: e}
	}
	return raw{K: "ok", C: s.fresh()}
}

type hist struct {
	c      qcase
	src    *source
	step   int32
	remain []int64 // ids the generator can still issue without the store (generator-side bookkeeping)
	alive  []int
	adOf   []int   // adapter of each generator
	adLast []int64 // what each adapter's guard remembers
	nad    int
	fault  int
}

func (h *hist) add(a act) { h.c.Acts = append(h.c.Acts, a) }

// storeAct plays one store-calling action and reports whether the generator gets a counter
// (the store answered and the adapter's guard let the value through).
func (h *hist) storeAct(opName string, g int) bool {
	w := h.src.draw(h.fault)
	h.add(act{Op: opName, G: g, Raw: w})
	if w.K != "ok" {
		return false
	}
	ad := h.adOf[g]
	if h.adLast[ad] != 0 && h.adLast[ad] >= w.C {
		return false
	}
	h.adLast[ad] = w.C
	return true
}

func (h *hist) adapter() {
	h.add(act{Op: "adapter"})
	h.adLast = append(h.adLast, 0)
	h.nad++
}

func (h *hist) create(ad int) int {
	h.add(act{Op: "create", Step: h.step, Ad: ad})
	g := len(h.remain)
	h.remain = append(h.remain, 0)
	h.adOf = append(h.adOf, ad)
	// Init, retried until the store lets it through (as a caller of uuid.Init would)
	for k := 0; k < 200; k++ {
		if h.storeAct("init", g) {
			h.remain[g] = effStep(h.step)
			h.alive = append(h.alive, g)
			break
		}
	}
	return g
}

func randomHistory(r *hxlib.Run, maxActs int) qcase {
	R := r.R
	steps := []int32{1, 2, 3, 2000, 1, 2, 3, 0, 5, 64, 1, 2, 3, -7, 2, 3}
	step := steps[R.Intn(len(steps))]
	h := &hist{step: step, fault: R.Pick(0, 10, 30, 60)}
	h.c.Kind = "random"
	h.src = &source{R: R, mode: R.Intn(4), used: map[int64]bool{}, step: effStep(step)}
	if h.src.mode == 0 || h.src.mode == 1 {
		h.src.cur = []int64{-1, 0, 1, 100, 1 << 40}[R.Intn(5)]
	}
	for i, n := 0, R.Range(1, 3); i < n; i++ {
		h.adapter()
	}
	ng := R.Range(1, 5)
	for i := 0; i < ng; i++ {
		h.create(R.Intn(h.nad))
	}
	n := R.Range(5, maxActs)
	for len(h.c.Acts) < n && len(h.alive) > 0 {
		g := h.alive[R.Intn(len(h.alive))]
		x := R.Intn(100)
		switch {
		case x < 50: // one call
			if h.remain[g] > 0 {
				h.remain[g]--
				h.add(act{Op: "next", G: g, Raw: raw{K: "fb"}})
			} else if h.storeAct("next", g) {
				h.remain[g] = effStep(h.step) - 1
			}
		case x < 75: // run to (or near, or over) the end of the segment
			k := h.remain[g] - int64(R.Pick(0, 0, 1, 2, -1))
			if k > 0 {
				h.add(act{Op: "nextn", G: g, N: int(k)})
				h.remain[g] -= k
				if h.remain[g] < 0 {
					h.remain[g] = 0
				}
			}
		case x < 85: // crash after any call, and re-creation
			h.add(act{Op: "crash", G: g})
			for i, v := range h.alive {
				if v == g {
					h.alive = append(h.alive[:i], h.alive[i+1:]...)
					break
				}
			}
			ad := R.Intn(h.nad)
			if R.Chance(1, 3) { // the new process connects anew
				ad = h.nad
				h.adapter()
			}
			h.create(ad)
		case x < 90: // Init again on a live generator (abandons the rest of its segment)
			if h.storeAct("init", g) {
				h.remain[g] = effStep(h.step)
			}
		case x < 94 && len(h.remain) < 8:
			h.create(R.Intn(h.nad))
		default:
			if h.remain[g] > 0 {
				h.remain[g]--
			}
			h.add(act{Op: "next", G: g, Raw: raw{K: "fb"}})
		}
	}
	return h.c
}

// ---- excluded points (outside the hypotheses; observations only) ---------------------------------------

func differentSteps() qcase {
	c := qcase{Kind: "excluded", Excluded: "generators with different steps on one store"}
	c.Acts = []act{{Op: "adapter"}, {Op: "create", Step: 2, Ad: 0}, {Op: "create", Step: 3, Ad: 0},
		{Op: "init", G: 0, Raw: raw{K: "ok", C: 3}}, // step 2: (6, 8]
		{Op: "init", G: 1, Raw: raw{K: "ok", C: 2}}, // step 3: (6, 9]   (refused by a shared adapter's guard)
		{Op: "init", G: 1, Raw: raw{K: "ok", C: 4}}, // step 3: (12, 15]
		{Op: "next", G: 0, Raw: raw{K: "fb"}}, {Op: "next", G: 0, Raw: raw{K: "fb"}},
		{Op: "next", G: 0, Raw: raw{K: "ok", C: 6}}, // step 2: (12, 14]
		{Op: "next", G: 1, Raw: raw{K: "fb"}}, {Op: "next", G: 1, Raw: raw{K: "fb"}}}
	return c
}

func nextWithoutInit() qcase {
	c := qcase{Kind: "excluded", Excluded: "Next without a successful Init"}
	c.Acts = []act{{Op: "adapter"}, {Op: "create", Step: 3, Ad: 0}, {Op: "create", Step: 3, Ad: 0},
		{Op: "init", G: 0, Raw: raw{K: "fb"}}, // Init failed; the caller goes on regardless
		{Op: "next", G: 0, Raw: raw{K: "fb"}}, {Op: "next", G: 1, Raw: raw{K: "fb"}},
		{Op: "nextn", G: 0, N: 3}, {Op: "nextn", G: 1, N: 3}}
	return c
}

func overflowEdge(R *hxlib.Rand) qcase {
	c := qcase{Kind: "excluded", Excluded: "counter*step beyond int64"}
	step := int32(R.Pick(1, 2, 3, 2000))
	lim := maxInt64 / int64(step)
	c.Acts = []act{{Op: "adapter"}, {Op: "create", Step: step, Ad: 0},
		{Op: "init", G: 0, Raw: raw{K: "ok", C: lim - int64(R.Intn(3))}},
		{Op: "nextn", G: 0, N: int(step) + 2},
		{Op: "next", G: 0, Raw: raw{K: "ok", C: lim + int64(R.Intn(3))}},
		{Op: "next", G: 0, Raw: raw{K: "ok", C: lim + 3 + int64(R.Intn(1<<30))}},
		{Op: "nextn", G: 0, N: 3},
		{Op: "next", G: 0, Raw: raw{K: "ok", C: maxInt64 - int64(R.Intn(2))}},
		{Op: "nextn", G: 0, N: 3}}
	return c
}

func repeatedCounter() qcase {
	c := qcase{Kind: "excluded", Excluded: "a store that hands out a counter twice"}
	c.Acts = []act{{Op: "adapter"}, {Op: "adapter"}, {Op: "create", Step: 2, Ad: 0}, {Op: "create", Step: 2, Ad: 1},
		{Op: "init", G: 0, Raw: raw{K: "ok", C: 5}}, {Op: "init", G: 1, Raw: raw{K: "ok", C: 5}},
		{Op: "next", G: 0, Raw: raw{K: "fb"}}, {Op: "next", G: 1, Raw: raw{K: "fb"}},
		{Op: "init", G: 0, Raw: raw{K: "ok", C: 5}}, {Op: "init", G: 0, Raw: raw{K: "ok", C: 4}}, {Op: "init", G: 0, Raw: raw{K: "ok", C: -4}}}
	return c
}

// ---- concurrent callers ------------------------------------------------------------------------------

func concurrent(r *hxlib.Run, seed uint64, ngen, workers, each int, step int32) {
	concurrentStall(r, seed, ngen, workers, each, step, 0)
}

// stallMs > 0 (failing-input search): about every fourth store call made by Next stalls for 10..stallMs ms —
// inside the generator's mutex, while the other callers keep calling.
func concurrentStall(r *hxlib.Run, seed uint64, ngen, workers, each int, step int32, stallMs int) {
	r.Case()
	R := hxlib.NewRand(seed)
	src := &source{R: R, mode: R.Intn(3), used: map[int64]bool{}, step: effStep(step)}
	faultPct := R.Pick(0, 20, 50)
	be := &backend{}
	stalling := false
	be.auto = func() raw { // under be.mu
		if stalling && stallMs > 0 && R.Chance(1, 4) {
			time.Sleep(time.Duration(R.Range(10, stallMs)) * time.Millisecond)
		}
		return src.draw(faultPct)
	}
	nad := R.Range(1, 2)
	ads := make([]*adapter, nad)
	for i := range ads {
		ads[i] = &adapter{be: be}
	}
	o := &oracle{issued: map[int64]int{}}
	gens := make([]*uuid.SeqIDGen, ngen)
	var initFails []int
	adOf := make([]int, ngen)
	for g := range gens {
		adOf[g] = R.Intn(nad)
		st := &genStore{ad: ads[adOf[g]], g: g}
		gens[g] = uuid.NewSeqIDGen(st, step)
		for gens[g].Init() != nil {
		}
		og := &ogen{step: effStep(step), st: st, inited: true}
		for range st.leases {
			og.viaNext = append(og.viaNext, false)
		}
		o.gens = append(o.gens, og)
		initFails = append(initFails, st.fails)
	}
	type rec struct {
		g   int
		id  int64
		err bool
	}
	out := make([][]rec, workers)
	picks := make([][]int, workers)
	for w := range picks {
		fixed := R.Intn(ngen)
		for k := 0; k < each; k++ {
			g := fixed
			if R.Chance(1, 3) {
				g = R.Intn(ngen)
			}
			picks[w] = append(picks[w], g)
		}
	}
	initCalls := len(be.log) // the store calls made by the Init retries, in order
	stalling = true
	var wg sync.WaitGroup
	for w := 0; w < workers; w++ {
		wg.Add(1)
		go func(w int) {
			defer wg.Done()
			for _, g := range picks[w] {
				id, err := gens[g].Next()
				out[w] = append(out[w], rec{g, id, err != nil})
			}
		}(w)
	}
	wg.Wait()
	c := qcase{Kind: "concurrent", Generators: ngen, Workers: workers, Each: each, Step: step, Seed: seed, Stall: stallMs}
	// per worker and generator: increasing in the worker's own order; globally: the oracle's checks
	errsByGen := make([]int, ngen)
	for w := range out {
		last := map[int]int64{}
		for _, e := range out[w] {
			if e.err {
				errsByGen[e.g]++
				continue
			}
			if p, ok := last[e.g]; ok && e.id <= p {
				o.add("concurrent:increasing", "worker %d received %d after %d from generator %d", w, e.id, p, e.g)
			}
			last[e.g] = e.id
		}
	}
	// feed ids per generator in increasing order (the order Next's mutex served them)
	per := make([][]int64, ngen)
	for w := range out {
		for _, e := range out[w] {
			if !e.err {
				per[e.g] = append(per[e.g], e.id)
			}
		}
	}
	total := 0
	for g := range per {
		sort.Slice(per[g], func(i, j int) bool { return per[g][i] < per[g][j] })
		for i, id := range per[g] {
			if i > 0 && per[g][i-1] == id {
				o.add("distinct", "generator %d handed id %d to two callers", g, id)
				continue
			}
			o.onID(g, id)
		}
		total += len(per[g])
		og := o.gens[g]
		for len(og.viaNext) < len(og.st.leases) {
			og.viaNext = append(og.viaNext, true)
		}
		// every failed store call surfaced as exactly one failed Next, and nothing else failed
		if want := og.st.fails - initFails[g]; errsByGen[g] != want {
			o.add("fault:count", "generator %d: %d store calls failed during Next but %d calls of Next returned an error", g, want, errsByGen[g])
		}
	}
	o.final()
	seen := map[string]bool{}
	for _, f := range o.fails {
		if !seen[f.key] {
			seen[f.key] = true
			r.Fail("concurrent:"+strings.TrimPrefix(f.key, "concurrent:"), f.what, c)
		}
	}
	linearise(r, be.log, initCalls, nad, adOf, step, o, per)
	r.Count("kind:concurrent")
	r.CountN("concurrent-ids", total)
	r.NonTrivial(fmt.Sprintf("conc-%d-%d-%d-%d-%d", ngen, workers, each, step, be.calls))
}

// linearise turns the observed concurrent run into one sequential history for the model. Next runs
// under the generator's mutex, the adapter's guard under the adapter's mutex and the database serves
// one call at a time, so: the database log orders all store calls; a generator's calls were served
// in the order of its ids; a call that did not go to the store commutes with everything of other
// generators. The k-th store call of a generator happened exactly when its current segment was used
// up. The model must reproduce every id at its position.
func linearise(r *hxlib.Run, log []storeEvt, initCalls, nad int, adOf []int, step int32, o *oracle, per [][]int64) {
	r.Op("reset", "ok")
	for i := 0; i < nad; i++ {
		r.Op("adapter", "ok")
	}
	for g := range adOf {
		r.Op(fmt.Sprintf("create step=%d ad=%d", step, adOf[g]), "ok")
	}
	ng := len(adOf)
	callNo := make([]int, ng) // store calls of g seen so far
	pos := make([]int, ng)    // ids of g emitted so far
	cur := make([]int64, ng)  // current lease of g
	stp := effStep(step)
	flush := func(g int, all bool) {
		n := 0
		var sum uint64
		first, last := "-", "-"
		for pos[g]+n < len(per[g]) && (all || per[g][pos[g]+n] <= (cur[g]+1)*stp) {
			id := per[g][pos[g]+n]
			if n == 0 {
				first = fmt.Sprint(id)
			}
			last = fmt.Sprint(id)
			sum += uint64(id)
			n++
		}
		if n > 0 {
			r.Op(fmt.Sprintf("nextn g=%d n=%d", g, n), fmt.Sprintf("ok=%d err=0 first=%s last=%s sum=%d", n, first, last, sum))
			pos[g] += n
		}
	}
	for i, e := range log {
		g := e.g
		if g < 0 || g >= ng || callNo[g] >= len(o.gens[g].st.results) {
			r.Op("next g=999 raw=fb", "unattributed store call")
			continue
		}
		res := o.gens[g].st.results[callNo[g]]
		callNo[g]++
		if i < initCalls {
			ans := res
			if res == "ok" {
				cur[g] = e.w.C
			}
			r.Op(fmt.Sprintf("init g=%d raw=%s", g, e.w), ans+" called=1")
			continue
		}
		flush(g, false)
		if res == "ok" {
			cur[g] = e.w.C
			if pos[g] < len(per[g]) {
				r.Op(fmt.Sprintf("next g=%d raw=%s", g, e.w), fmt.Sprintf("id %d called=1", per[g][pos[g]]))
				pos[g]++
			} else {
				r.Op(fmt.Sprintf("next g=%d raw=%s", g, e.w), "no id observed for a successful lease")
			}
		} else {
			r.Op(fmt.Sprintf("next g=%d raw=%s", g, e.w), res+" called=1")
		}
	}
	for g := 0; g < ng; g++ {
		flush(g, true)
	}
	r.Count("concurrent-linearised")
}

// ---- api.go ----------------------------------------------------------------------------------------------

func apiCase(r *hxlib.Run) {
	r.Case()
	r.Count("kind:api")
	be := &backend{}
	st := &genStore{ad: &adapter{be: be}}
	c := qcase{Kind: "api"}
	r.Op("reset", "ok")
	r.Op("adapter", "ok")
	r.Op("create step=2000 ad=0", "ok")
	be.offer = raw{K: "fb"}
	if err := uuid.Init(1234, st); err == nil {
		r.Fail("api:init-swallowed-error", "uuid.Init returned nil although the store failed", c)
	}
	r.Op("init g=0 raw=fb", "err:store called=1")
	be.offer = raw{K: "ok", C: 7}
	if err := uuid.Init(1234, st); err != nil {
		r.Fail("api:init", fmt.Sprintf("uuid.Init failed on a working store: %v", err), c)
		return
	}
	r.Op("init g=0 raw=ok:7", "ok called=1")
	be.offer = raw{K: "ok", C: 9}
	var sum uint64
	first, last := "-", "-"
	for k := 0; k < oDefaultStep; k++ {
		id := uuid.NextID()
		if id != 7*oDefaultStep+1+int64(k) {
			r.Fail("api:in-segment", fmt.Sprintf("NextID call %d after leasing counter 7 returned %d", k, id), c)
		}
		if k == 0 {
			first = fmt.Sprint(id)
		}
		last = fmt.Sprint(id)
		sum += uint64(id)
	}
	r.Op(fmt.Sprintf("nextn g=0 n=%d", oDefaultStep), fmt.Sprintf("ok=%d err=0 first=%s last=%s sum=%d", oDefaultStep, first, last, sum))
	id := uuid.NextID()
	if id != 9*oDefaultStep+1 {
		r.Fail("api:in-segment", fmt.Sprintf("NextID after the segment of counter 7 was used up and counter 9 leased returned %d", id), c)
	}
	r.Op("next g=0 raw=ok:9", fmt.Sprintf("id %d called=1", id))
}

func main() {
	r := hxlib.Start("C08", "a history of create/init/next/crash actions with scripted store answers; non-trivial when it contains a reload and (a store fault or a crash or >= 2 generators); distinct by the action list")
	defer r.Finish()
	log.SetOutput(io.Discard)
	if r.Replay != "" {
		var c qcase
		r.LoadReplay(&c)
		if c.Kind == "step-extreme" {
			var e extCase
			r.LoadReplay(&e)
			doExt(r, e)
			r.Sample(e)
			return
		}
		if c.Kind == "mysql-store" {
			var m myCase
			r.LoadReplay(&m)
			doMy(r, m)
			r.Sample(m)
			return
		}
		if c.Kind == "api-history" {
			doAPI(r, c)
		} else if c.Kind == "long" {
			r.Case()
			fails, _ := runLong(c)
			for _, f := range fails {
				r.Fail(f.key, f.what, c)
			}
		} else if c.Kind == "concurrent" && c.Stall > 0 {
			for k := 0; k < 5 && !r.Failed(); k++ {
				concurrentStall(r, c.Seed, c.Generators, c.Workers, c.Each, c.Step, c.Stall)
			}
		} else if c.Kind == "concurrent" {
			concurrent(r, c.Seed, c.Generators, c.Workers, c.Each, c.Step)
		} else if c.Kind != "api" {
			do(r, c)
		} else {
			apiCase(r)
		}
		r.Sample(c)
		return
	}
	if r.Search {
		searchLegs(r)
		if r.Failed() {
			r.Note("the search legs found a failing input; the ordinary generators were not run again")
			return
		}
	}
	// excluded points: run once, recorded as observations
	do(r, differentSteps())
	do(r, nextWithoutInit())
	do(r, repeatedCounter())
	for k := 0; k < 8; k++ {
		do(r, overflowEdge(r.R))
	}
	apiCase(r)
	diversityLegs(r)
	redisLegs(r)
	trLeg(r) // tr.go: the translated arithmetic against the real reload / Next
	n := r.Scale(3000, 60000)
	for k := 0; k < n; k++ {
		c := randomHistory(r, r.R.Pick(12, 40, 120))
		if k < 3 {
			r.Sample(c)
		}
		do(r, c)
	}
	for k := 0; k < r.Scale(40, 400); k++ {
		step := int32(r.R.Pick(1, 2, 3, 2000, 7))
		concurrent(r, r.R.U64(), r.R.Range(1, 5), r.R.Range(1, 8), r.Scale(400, 3000), step)
	}
}
