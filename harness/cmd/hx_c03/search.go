package main

// Failing-input search legs of C03 (only with -search). Classes they are aimed at (schedules the ordinary
// scenarios do not produce):
//
//	late-peer  a peer that reads slowly or only after Close was called / has returned, WHILE this side has left inbound
//	           frames unread (the reader stands parked on a full, undrained inbound queue of capacity 1..2) and a
//	           backlog of accepted packets sits in the outbound queue when the graceful Close begins: every one of them
//	           must still reach the peer, then end-of-stream; counters read after the close equal what crossed the wire
//	stall      a peer that stalls in the MIDDLE of a frame for longer than the read timeout (set to 1 s for this leg),
//	           the rest of the frame being itself a valid encoded message: nothing of it may be delivered
import (
	"time"

	"verifharness/hxconn"
	"verifharness/hxlib"

	"qchen.fun/fatchoy/qnet"
)

func searchLegs(r *hxlib.Run) {
	t0 := time.Now()
	defer func() { r.Note("search legs took %.1f s", time.Since(t0).Seconds()) }()
	nLate := 150
	for k := 0; k < nLate && !r.Failed(); k++ {
		runOne(r, hxconn.GenLatePeer(r.R), false)
		r.Count("search:late-peer")
	}
	// the same while the peer is STILL WRITING when the graceful Close begins (a Close that shuts the receive side down
	// first loses the tail of the flushed backlog: a frame of the peer that arrives after the FIN makes the Linux
	// kernel reset the connection): key delivery:lost-at-close:peer-still-writing
	for k := 0; k < 80 && !r.Failed(); k++ {
		runOne(r, hxconn.GenPeerStillWriting(r.R), false)
		r.Count("search:peer-still-writing")
	}
	for k := 0; k < 40 && !r.Failed(); k++ {
		runOne(r, hxconn.GenPeerWritesThroughClose(r.R), false)
		r.Count("search:peer-writes-through-close")
	}
	old := qnet.TConnReadTimeout
	qnet.TConnReadTimeout = 1
	for k := 0; k < 6 && !r.Failed(); k++ {
		runOne(r, hxconn.GenStall(r.R), false)
		r.Count("search:stall")
	}
	qnet.TConnReadTimeout = old
	r.Note("search legs: late-peer %d runs (reader parked on an undrained inbound queue of capacity 1..2, peer reading slowly / after Close, backlog of 3..40 packets at the graceful Close); stall: 6 runs with the peer stalling 1.4 s in the middle of a frame (read timeout 1 s) whose remainder is a valid nested frame", nLate)
}
