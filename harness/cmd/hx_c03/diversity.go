package main

// Third-wave legs of C03 (NORMAL tiers: a change that edits only function bodies never triggers -search). They vary
// what the scenario families of main.go never varied; every scenario runs in a CHILD process (hxconn/iso.go: a panic
// in a pump goroutine is process death and becomes a finding; children that mostly wait run several at a time).
// The oracle is hxconn.CheckC03, unchanged: every accepted, encodable packet reaches the peer once and in order, then
// the stream ends; counters equal what crossed the wire.
//
//	transports   (K4)  the net.Conn handed to NewTcpConn is a net.Pipe end, a *net.UnixConn (abstract socket; dialling
//	                   or accepted end), a *tls.Conn with a completed handshake (TLS server or TLS client side):
//	                   backlog + graceful Close with prompt / slow / late peers, inbound frames with FIN / garbage
//	                   tails, senders racing closers. quick ≈ 24 scenarios, thorough ≈ 200. Oracle only (the LTS models
//	                   the TCP half-close).
//	rejected     a packet SendPacket accepts and the ENCODER refuses (V1: > 60 KiB incompressible; V2: > 255 node
//	                   references; V2: > 8 MiB, one per quick run) alone, in the middle, exactly at the TAIL of a burst,
//	                   two at the tail, and at the tail followed by further good packets after a pause — then a
//	                   graceful Close (sometimes a second closer). Traces are validated against the LTS too.
//	stats        (K4)  NewTcpConn with stats.New(n), n = 0 .. NumStat+1 (nil is what every other scenario uses):
//	                   delivery as usual; the counters that exist must be right, the missing ones read 0.
//	cryptors     (K4)  salsa20, twofish and two BlockCryptor implementations of the application's own ("new": returns NEW
//	                   slices, never touches its argument; "pad": output 3 bytes longer than the input) on both
//	                   directions, bodies below and above the compression threshold.
//	held-inbound (K8)  the peer writes 40..120 frames (several read buffers' worth), whole or in pieces of 1/3/7/100/4096
//	                   bytes; the consumer KEEPS every packet and compares them all AGAIN at the end of the run (every
//	                   scenario of hxconn.Run does that now): a delivered body must not change while later frames are read.
//	smallest     (K4/K5) outbound queue 0 or 1, inbound channel 0 or 1, error channel 0 or 1.
//	writer-only  (K10) Go(EndpointWriter).
//	shared-body  (K2)  all packets of a sender carry ONE body slice object (compressed or not; cipher off). With a cipher the
//	                   run is an OBSERVATION only: HEAD encrypts an uncompressed []byte body in place in the sender's
//	                   slice, so the shared body arrives garbled from the second packet on (C07/C16's subject, see record).
//	stall        a backlog far larger than the socket buffers (16 MiB of incompressible 1 MiB packets; the peer's receive
//	                   buffer pinned at 256 KiB) is accepted, the graceful Close begins, the peer reads NOTHING for 1.5 s
//	                   and for 11.x s (quick), for 11, 12, 13, 31 and 61 s (thorough), then reads everything: nothing
//	                   may be lost, the stream ends cleanly, Close returns only then. The children of the long stalls are
//	                   started FIRST and collected LAST: they wait in the background while the other legs of the run
//	                   work, so the quick tier pays only what is left of the 11 s when everything else is done.
//
// Wall time: quick ≈ 2.5 s plus at most ≈ 3 s of waiting for the 11 s stall at the end; thorough ≈ 20 s (the 61 s
// stall ends long before the other thorough legs do).

import (
	"fmt"
	"os"
	"time"

	"verifharness/hxconn"
	"verifharness/hxlib"

	"qchen.fun/fatchoy/qnet"
)

func check03(s sc, o *hxconn.Outcome) []hxconn.Finding {
	fs := hxconn.CheckC03(s, o)
	for _, h := range o.Hangs {
		fs = append(fs, hxconn.Finding{Key: "hang", What: h, Soft: true})
	}
	return fs
}

// record judges one isolated result the way runOne does.
func record(r *hxlib.Run, res hxconn.IsoResult, emit bool) {
	s, o := res.Scenario, res.Outcome
	r.Case()
	r.Count("family:" + s.Name)
	if s.Transport != "" {
		r.Count("transport:" + s.Transport)
	}
	if res.Attempts > 1 {
		r.Count("re-run-after-suspected-hang")
		if os.Getenv("HX_DEBUG") != "" {
			fmt.Fprintf(os.Stderr, "re-run (%d attempts) %s\n", res.Attempts, s.Describe())
		}
	}
	maxBacklog := 0
	for _, c := range o.Closes {
		if c.Backlog > maxBacklog {
			maxBacklog = c.Backlog
		}
	}
	if maxBacklog >= 2 {
		r.NonTrivial(fmt.Sprintf("%s backlog=%d", s.Describe(), maxBacklog))
		r.Count("backlog>=2-at-close")
	}
	for _, x := range o.Sends {
		r.Count("send:" + x.Res)
		if x.Res == "ok" && x.Wire == 0 {
			r.Count("accepted-but-not-encodable")
		}
		if x.Wire >= 1<<20 {
			r.Count("frame>=1MiB")
		}
	}
	r.CountN("frames-at-peer", len(o.PeerGot))
	r.CountN("frames-inbound", len(o.InbGot))
	if o.PeerEOF {
		r.Count("peer-read-to-eof")
	}
	for _, f := range res.Findings {
		if f.Key == "hang" {
			r.Count("abandoned-run(hang; judged by C04)")
			continue
		}
		if f.Key == "peer-stream:integrity" && s.Cipher && len(s.Senders) > 0 && s.Senders[0].Share {
			// HEAD encrypts a []byte body IN PLACE (codec/marshal.go: encryptor.Encrypt(body) on the caller's slice when the
			// body was not compressed first): one body object carried by several packets is encrypted again and again.
			// Recorded, not judged here: body faithfulness under a cipher is C07/C16's (dst = src is their stated caller
			// contract); C03's quantifier has no shared bodies.
			r.Count("observation:shared-body-encrypted-in-place")
			if !notedShared {
				notedShared = true
				r.Note("observation (not a C03 violation): with a cipher set, an uncompressed []byte body is encrypted in place in the sender's slice; one body object shared by several packets arrives garbled from the second packet on (%s)", f.What)
			}
			continue
		}
		r.Fail(f.Key, f.What, s)
	}
	if emit && (s.Transport == "" || s.Transport == "tcp") && s.Stats == nil && s.Flag == "" && s.Cap >= 1 {
		hxconn.Emit(r, o)
	}
}

var notedShared bool

func diversityLegs(r *hxlib.Run) {
	t0 := time.Now()
	R := hxlib.NewRand(r.Seed ^ 0xC03D1)
	rep := r.Scale(1, 8)
	var batch []sc
	emit := map[int]bool{}
	add := func(s sc, e bool) {
		s.Iso = true
		emit[len(batch)] = e
		batch = append(batch, s)
	}
	// transports
	for _, tr := range hxconn.DataTransports {
		for k := 0; k < 3*rep; k++ {
			add(hxconn.GenTransport(R, tr, "backlog", false), false)
		}
		for k := 0; k < 2*rep; k++ {
			add(hxconn.GenTransport(R, tr, "inbound", false), false)
		}
		for k := 0; k < rep; k++ {
			add(hxconn.GenTransport(R, tr, "race", k%4 == 3), false)
		}
	}
	// rejected packets
	for k := 0; k < 2*rep; k++ {
		for _, pos := range []string{"alone", "mid", "tail", "tail", "tail2", "tail+more"} {
			add(hxconn.GenRejected(R, pos, false), true)
		}
	}
	for k := 0; k < r.Scale(1, 4); k++ {
		add(hxconn.GenRejected(R, []string{"tail", "mid", "tail+more", "alone"}[k%4], true), false)
	}
	// counter sets, smallest sizes, writer only, one body object
	for k := 0; k < rep; k++ {
		for n := 0; n <= qnet.NumStat+1; n++ {
			add(hxconn.GenStats(R, n), false)
		}
	}
	for k := 0; k < rep; k++ {
		for _, cr := range []string{"new", "pad", "salsa20", "twofish"} {
			add(hxconn.GenCryptor(R, cr), k%2 == 0)
		}
	}
	for k := 0; k < 3*rep; k++ {
		add(hxconn.GenHeldInbound(R), false)
	}
	for k := 0; k < 4*rep; k++ {
		add(hxconn.GenSmallest(R), false)
	}
	for k := 0; k < 3*rep; k++ {
		add(hxconn.GenWriterOnly(R), false)
	}
	for k := 0; k < 4*rep; k++ {
		add(hxconn.GenSharedBody(R), k%2 == 0)
	}
	add(hxconn.GenLongStall(R, 1500, 16), false)

	for i, res := range hxconn.RunIsolatedBatch(batch, 6, check03) {
		record(r, res, emit[i])
	}
	r.Note("third-wave legs (diversity.go): %d scenarios in child processes (transports pipe/unix/tls/tlsc, encoder-rejected packets at chosen burst positions, counter sets of 0..%d counters, smallest queue sizes, writer-only, one shared body object, peer stalls) took %.1f s",
		len(batch), qnet.NumStat+1, time.Since(t0).Seconds())
}

// startStalls starts the long-stall children (see the header) and returns the function that waits for them and
// judges them. Between the two calls the parent creates no goroutine for them (the in-process scenarios measure
// goroutine baselines).
func startStalls(r *hxlib.Run) (collect func()) {
	R := hxlib.NewRand(r.Seed ^ 0xC035A11)
	holds := []int{11000 + R.Intn(700)}
	if r.Thorough() {
		holds = []int{11000 + R.Intn(900), 12000 + R.Intn(900), 13000 + R.Intn(900), 31000, 61000}
	}
	type pending struct {
		s   sc
		out chan hxconn.IsoResult
	}
	var ps []pending
	for _, ms := range holds {
		s := hxconn.GenLongStall(R, ms, 16)
		s.Iso = true
		p := pending{s, make(chan hxconn.IsoResult, 1)}
		ps = append(ps, p)
		go func() { p.out <- hxconn.RunIsolatedBelievably(p.s, check03) }()
	}
	time.Sleep(30 * time.Millisecond) // the children are running (and the parent's helper goroutines exist) before anything is measured
	t0 := time.Now()
	return func() {
		w0 := time.Now()
		for _, p := range ps {
			record(r, <-p.out, false)
			r.Count("long-stall:children")
		}
		r.Note("long stalls: %d children (peer silent for %v ms while 16 MiB wait behind a graceful Close) ran in the background for %.1f s; the run waited %.1f s for them at its end",
			len(ps), holds, time.Since(t0).Seconds(), time.Since(w0).Seconds())
	}
}
