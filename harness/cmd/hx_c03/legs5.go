package main

// Fifth-wave legs of C03 (NORMAL tiers; implementation and descriptions in hxconn/legs5.go). They run FIRST in main (child
// processes only) and a failure ends the run there: a late pump touching a torn-down connection kills the process it
// runs in, which for the in-process scenarios is the harness itself (no result file, hence no failing input).
//
//	startup      start-up races: Go(flag), N x SendPacket (N <= capacity: all accepted), Close issued back to back by one
//	             goroutine on a fresh connection (net.Pipe, loopback TCP) — in a child process with GOMAXPROCS=1, where
//	             no pump has executed a statement when Close begins, and in one with the default setting; one child per
//	             endpoint flag (w, rw, r; a reader-only endpoint sends nothing). Oracle: Close returns only after the N
//	             packets are written (sent counter read right after it = N), the peer reads exactly them in order and
//	             then end-of-stream; the pumps exit and nothing crashes afterwards (a dead child is a finding).
//	             quick 6 children x 60 connections, thorough/search x 600.
//	unread-tail  descriptor lifetime vs unread inbound data (hxconn.GenUnreadTail; why the late-peer leg of search.go
//	             does not reach it is said there): 10..22 MiB of 32 KiB packets accepted while the peer reads nothing,
//	             graceful Close, the peer writes 1..3 frames 60..200 ms after the close began and starts reading
//	             150..350 ms after it: every packet, then a clean end-of-stream. Child processes (quick 2,
//	             thorough/search 8).

import (
	"fmt"
	"sort"
	"sync"
	"time"

	"verifharness/hxconn"
	"verifharness/hxlib"
)

// replay5: hx_c03 replays a connection scenario or a fifth-wave case.
type replay5 struct {
	hxconn.Scenario
	Legs5 *hxconn.L5Case `json:"legs5,omitempty"`
}

func recordL5(r *hxlib.Run, c hxconn.L5Case, res hxconn.L5Result) {
	r.Case()
	r.Count("family:legs5:" + c.Leg)
	r.CountN("legs5:"+c.Leg+":trials", res.Trials)
	for k, v := range res.Counts {
		r.CountN("legs5:"+k, v)
	}
	if res.Attempts > 1 {
		r.Count("re-run-after-suspected-hang")
	}
	for _, f := range res.Failures {
		fc := f.Case
		r.Fail(f.Key, f.What, replay5{Legs5: &fc})
	}
	emitStartup(r, res)
}

// emitStartup: every distinct observation of the startup leg (flags, accepted packets n, capacity, sent counter k right
// after Close returned, packets p the peer read before end-of-stream) becomes an op line; the model driver explores ALL
// interleavings of the start-up LTS (Model/ConnStart.lean: Go / pumps / Close at the level of wg.Add, `go`, wg.Done,
// wg.Wait) and must find one that ends with exactly these numbers. Negative control: the same run with one packet
// missing at Close's return must be rejected.
func emitStartup(r *hxlib.Run, res hxconn.L5Result) {
	keys := make([]string, 0, len(res.Startup))
	for k := range res.Startup {
		keys = append(keys, k)
	}
	sort.Strings(keys)
	for _, k := range keys {
		r.Op("startup "+k, "accept")
		r.CountN("legs5:startup:model-explained", res.Startup[k])
		var w, rd, n, qcap, sent, peer int
		if c, _ := fmt.Sscanf(k, "w=%d r=%d n=%d cap=%d k=%d p=%d", &w, &rd, &n, &qcap, &sent, &peer); c == 6 && w == 1 && n >= 1 && sent == n {
			r.Op(fmt.Sprintf("startup w=%d r=%d n=%d cap=%d k=%d p=%d mutant=lost-at-close", w, rd, n, qcap, n-1, n-1), "reject")
			r.Op(fmt.Sprintf("startup w=%d r=%d n=%d cap=%d k=%d p=%d mutant=late-flush", w, rd, n, qcap, n-1, n), "reject")
			r.Count("mutant:startup")
		}
	}
}

// legs5 runs the children and judges them (synchronously: the in-process scenarios measure goroutine baselines).
func legs5(r *hxlib.Run) {
	t0 := time.Now()
	seed := r.Seed ^ 0xC0355
	R := hxlib.NewRand(seed)
	var cases []hxconn.L5Case
	for _, procs := range []int{1, 0} {
		for _, flag := range []string{"w", "rw", "r"} {
			cases = append(cases, hxconn.L5Case{Leg: "startup", Seed: seed, Trials: r.Scale(60, 600), Flag: flag, Procs: procs})
		}
	}
	var tails []sc
	for k := 0; k < r.Scale(2, 8); k++ {
		tails = append(tails, hxconn.GenUnreadTail(R))
	}
	l5out := make([]hxconn.L5Result, len(cases))
	var tailOut []hxconn.IsoResult
	var wg sync.WaitGroup
	wg.Add(2)
	go func() {
		defer wg.Done()
		for i := range cases { // (cheap: one after the other)
			l5out[i] = hxconn.RunL5Believably(cases[i])
		}
	}()
	go func() {
		defer wg.Done()
		tailOut = hxconn.RunIsolatedBatch(tails, 2, check03)
	}()
	{
		wg.Wait()
		n := 0
		for i := range cases {
			recordL5(r, cases[i], l5out[i])
			n += l5out[i].Trials
		}
		for _, res := range tailOut {
			record(r, res, false)
			r.Count("legs5:unread-tail")
			if o := res.Outcome; len(res.Findings) == 0 && len(o.Hangs) == 0 && !o.PeerEOF && o.PeerErr != "" {
				// every packet arrived, but the stream did not END: the peer's read broke off with an error
				r.Fail("delivery:no-clean-end-of-stream", fmt.Sprintf("the connection was only ever closed gracefully and the peer sent nothing wrong, but after the %d accepted packets its stream ended with %q instead of end-of-stream (%s)", len(o.PeerGot), o.PeerErr, res.Scenario.Describe()), res.Scenario)
			}
		}
		r.Note("fifth-wave legs (legs5.go): start-up races (%d fresh connections in %d child processes, half of them with GOMAXPROCS=1: Go, N sends, Close back to back; flags w / rw / r) and %d unread-tail runs (10..22 MiB backlog, peer frames after the close began, late reader) took %.1f s",
			n, len(cases), len(tails), time.Since(t0).Seconds())
	}
}

func replayLegs5(r *hxlib.Run, c hxconn.L5Case) {
	c.Dump = ""
	for k := 0; k < 3 && !r.Failed(); k++ {
		recordL5(r, c, hxconn.RunL5Believably(c))
		c.Seed++
	}
}
