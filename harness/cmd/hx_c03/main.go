// hx_c03: correspondence harness + oracle for C03 (a connection delivers every accepted packet exactly
// once, in order, up to Close).  Real qnet.TcpConn over loopback TCP; every run is linearised into a
// trace the Lean LTS must explain, and the independent oracle (hxconn.CheckC03) evaluates the property.
package main

import (
	"fmt"
	"io"
	"log"
	"os"
	"sort"
	"time"

	"verifharness/hxconn"
	"verifharness/hxlib"

	"qchen.fun/fatchoy/qnet"
)

type sc = hxconn.Scenario

func sizes(r *hxlib.Rand, n, lo, hi int) []int {
	out := make([]int, n)
	for i := range out {
		out[i] = r.Range(lo, hi)
	}
	return out
}

// backlog: one sender bursts n packets, then a graceful Close; the peer reads to end-of-stream.
func genBacklog(r *hxlib.Rand, big bool) sc {
	caps := []int{1, 2, 3, 4, 5, 8, 16, 64, 1024}
	s := sc{Name: "backlog", Codec: r.Pick(1, 2), Cipher: r.Chance(1, 4), Cap: caps[r.Intn(len(caps))], ICap: 4, ECap: 2,
		Inb: "prompt", Err: "prompt", Jitter: r.U64()}
	n := r.Range(1, 24)
	if r.Chance(1, 3) {
		n = r.Range(s.Cap, s.Cap+6) // around the capacity
		if n > 40 {
			n = 40
		}
	}
	hi := 64
	if r.Chance(1, 5) {
		hi = 5000 // crosses the V1 compression threshold
	}
	z := sizes(r, n, 0, hi)
	if big {
		s.Codec = 2
		n = r.Range(20, 48)
		z = sizes(r, n, -300000, -100000) // incompressible: fills the socket buffers, the writer lags
		s.Cap = r.Pick(8, 64, 1024)
	}
	if !big && len(z) > 0 && r.Chance(1, 6) {
		k := r.Intn(len(z))
		switch {
		case s.Codec == 1 && r.Chance(1, 2):
			z[k] = -70000 // incompressible and over the V1 frame limit: accepted by SendPacket, refused by the codec
		case s.Codec == 1:
			z[k] = 61440 - 14 - r.Intn(3) // at the V1 frame limit
			z[k] = -z[k]
		case r.Chance(1, 2):
			z[k] = 1 << 20 // 1 MiB, compressible
		default:
			z[k] = -(1 << 20) // 1 MiB, incompressible
		}
	}
	s.Senders = []hxconn.Sender{{Sizes: z, When: "start", Retry: 200, Burst: r.Chance(3, 4)}}
	s.Closers = []hxconn.Closer{{Graceful: true, When: "senders"}}
	reads := []string{"prompt", "slow", "ccall", "cret"}
	s.Peer.Read = reads[r.Intn(len(reads))]
	total := 0
	for _, v := range z {
		if v < 0 {
			v = -v
		}
		total += v
	}
	if (big || total > 32*1024) && s.Peer.Read == "cret" {
		s.Peer.Read = "ccall" // more data than the socket buffers hold: Close must wait for the peer
	}
	if big && s.Peer.Read == "slow" {
		s.Peer.Read = "prompt"
	}
	if r.Chance(1, 3) {
		s.Late = r.Range(1, 2)
	}
	return s
}

// race: several senders, closers racing them.
func genRace(r *hxlib.Rand) sc {
	s := sc{Name: "race", Codec: r.Pick(1, 2), Cipher: r.Chance(1, 5), Cap: r.Pick(1, 2, 4, 16), ICap: 4, ECap: 2,
		Inb: "prompt", Err: "prompt", Jitter: r.U64()}
	for i, n := 0, r.Range(1, 3); i < n; i++ {
		s.Senders = append(s.Senders, hxconn.Sender{Sizes: sizes(r, r.Range(1, 6), 0, 40), When: "start", Retry: r.Pick(0, 3)})
	}
	whens := []string{"start", "senders", "start"}
	for j, n := 0, r.Range(1, 2); j < n; j++ {
		s.Closers = append(s.Closers, hxconn.Closer{Graceful: r.Chance(2, 3), When: whens[r.Intn(len(whens))]})
	}
	reads := []string{"prompt", "slow", "ccall", "cret"}
	s.Peer.Read = reads[r.Intn(len(reads))]
	s.Late = r.Intn(2)
	return s
}

// inbound: the peer writes frames; they must reach the inbound queue once, in order.
func genInbound(r *hxlib.Rand) sc {
	s := sc{Name: "inbound", Codec: r.Pick(1, 2), Cipher: r.Chance(1, 4), Cap: 8, ICap: r.Pick(1, 2, 3, 8, 64), ECap: 2,
		Err: "prompt", Jitter: r.U64()}
	hi := 48
	if r.Chance(1, 6) {
		hi = 6000
	}
	s.Peer = hxconn.Peer{Read: "prompt", Frames: sizes(r, r.Range(1, 14), 0, hi), WriteWhen: "start"}
	switch r.Intn(4) {
	case 0:
		s.Peer.Tail = "fin"
	case 1:
		s.Peer.Tail = "garbage"
	}
	s.Inb = []string{"prompt", "prompt", "ccall"}[r.Intn(3)]
	s.Senders = []hxconn.Sender{{Sizes: sizes(r, r.Range(0, 4), 0, 30), When: "start", Retry: 20}}
	if s.Inb == "prompt" && r.Chance(2, 3) {
		s.Closers = []hxconn.Closer{{Graceful: r.Chance(3, 4), When: "inball"}}
	} else if s.Inb == "prompt" {
		s.Closers = []hxconn.Closer{{Graceful: true, When: "pwrote"}}
	}
	return s
}

// forced: the sender is parked between the running check and the queue send while the connection is closed.
func genForced(r *hxlib.Rand) sc {
	s := sc{Name: "forced", Codec: r.Pick(1, 2), Cap: r.Pick(1, 2, 4, 16), ICap: 4, ECap: 2, Inb: "prompt", Err: "prompt",
		Forced: []string{"park-send", "park-send-race"}[r.Intn(2)], Jitter: r.U64()}
	n := r.Range(1, 4)
	if n > s.Cap {
		n = s.Cap
	}
	s.Senders = []hxconn.Sender{{Sizes: sizes(r, n, 0, 32), When: "start"}}
	s.Closers = []hxconn.Closer{{Graceful: r.Chance(1, 2)}}
	if s.Forced == "park-send-race" {
		s.Closers[0].Graceful = false
	}
	s.Peer.Read = "prompt"
	s.Late = 1
	return s
}

func runOne(r *hxlib.Run, s sc, mutants bool) {
	if hxconn.GiveUp() && r.Replay == "" {
		r.Count("skipped-after-confirmed-hangs")
		return
	}
	r.Case()
	o, fs, attempts := hxconn.RunBelievably(s, func(s sc, o *hxconn.Outcome) []hxconn.Finding {
		// a run that was abandoned (deadline) cannot be judged for delivery; C04 reports hangs
		fs := hxconn.CheckC03(s, o)
		for _, h := range o.Hangs {
			fs = append(fs, hxconn.Finding{Key: "hang", What: h, Soft: true})
		}
		return fs
	})
	if attempts > 1 {
		r.Count("re-run-after-suspected-hang")
	}
	r.Count("family:" + s.Name)
	r.Count("peer-read:" + s.Peer.Read)
	r.Count(fmt.Sprintf("codec:v%d", s.Codec))
	if s.Cipher {
		r.Count("cipher:on")
	}
	maxBacklog := 0
	for _, c := range o.Closes {
		if c.Backlog > maxBacklog {
			maxBacklog = c.Backlog
		}
	}
	if maxBacklog >= 2 {
		r.NonTrivial(fmt.Sprintf("%s backlog=%d", s.Describe(), maxBacklog))
		r.Count("backlog>=2-at-close")
	}
	for _, x := range o.Sends {
		r.Count("send:" + x.Res)
		if x.Res == "ok" && x.Wire == 0 {
			r.Count("accepted-but-not-encodable")
		}
		if x.Wire >= 1<<20 {
			r.Count("frame>=1MiB")
		}
	}
	r.CountN("frames-at-peer", len(o.PeerGot))
	r.CountN("frames-inbound", len(o.InbGot))
	if o.PeerEOF {
		r.Count("peer-read-to-eof")
	}
	for _, f := range fs {
		if f.Key == "hang" {
			r.Count("abandoned-run(hang; judged by C04)")
			continue
		}
		r.Fail(f.Key, f.What, s)
	}
	hxconn.Emit(r, o)
	if mutants {
		// a few negative controls per selected run (a rejected trace costs an exhaustive search)
		ms := hxconn.Mutants(r.R, s, o)
		kinds := make([]string, 0, len(ms))
		for kind := range ms {
			kinds = append(kinds, kind)
		}
		sort.Strings(kinds)
		for n := 0; n < 3 && len(kinds) > 0; n++ {
			k := r.R.Intn(len(kinds))
			hxconn.EmitMutant(r, kinds[k], ms[kinds[k]])
			kinds = append(kinds[:k], kinds[k+1:]...)
		}
	}
	r.Sample(map[string]interface{}{"scenario": s.Describe(), "accepted": len(o.Accepted()), "peer_got": len(o.PeerGot), "backlog_at_close": maxBacklog, "inbound": len(o.InbGot)})
}

func main() {
	if hxconn.IsL5Child() {
		hxconn.L5ChildMain()
		return
	}
	if hxconn.IsChild() {
		hxconn.ChildMain()
		return
	}
	r := hxlib.Start("C03", "one run of a real TcpConn over loopback TCP (scenario: codec, cipher, queue capacity, packets, peer policy, who closes when); non-trivial when a backlog of >= 2 packets sat in the outbound queue when a close began; distinct by scenario shape and backlog")
	defer r.Finish()
	log.SetOutput(io.Discard)
	hxconn.Deadline = 5 * time.Second
	if r.Thorough() {
		hxconn.Deadline = 10 * time.Second
	}
	if r.Replay != "" {
		var c5 replay5
		r.LoadReplay(&c5)
		if c5.Legs5 != nil {
			replayLegs5(r, *c5.Legs5)
			return
		}
		s := c5.Scenario
		reps := 5 // (a free-running scenario is not a function of its description alone: look again before giving up)
		if s.Peer.Tail == "stall" {
			qnet.TConnReadTimeout = 1 // the peer stalls 1.4 s in the middle of a frame
			reps = 3                  // (real time decides where the read deadline falls: look again before giving up)
		}
		if s.Peer.Hold >= 5000 {
			reps = 1 // (a stall of many seconds decides by wall-clock time, not by the schedule)
		}
		for k := 0; k < reps && !r.Failed(); k++ {
			if s.Iso {
				record(r, hxconn.RunIsolatedBelievably(s, check03), false)
				continue
			}
			runOne(r, s, false)
		}
		return
	}
	// fifth-wave legs first (child processes only): a pump that starts late and touches a torn-down connection kills
	// the process it runs in — in the in-process scenarios below that is this harness, and the result file with it
	legs5(r)
	if r.Failed() {
		r.Note("the fifth-wave legs (child processes) found a failing input; the in-process generators were not run")
		return
	}
	if r.Search {
		searchLegs(r)
		if r.Failed() {
			r.Note("the search legs found a failing input; the ordinary generators were not run again")
			return
		}
	}
	// the smallest counter-example of the flush defect first: 2 queued packets at Close
	fixed := []sc{
		{Name: "backlog", Codec: 1, Cap: 8, ICap: 4, ECap: 2, Inb: "prompt", Err: "prompt",
			Senders: []hxconn.Sender{{Sizes: []int{8, 8, 8, 8, 8, 8}, When: "start", Burst: true}}, Closers: []hxconn.Closer{{Graceful: true, When: "senders"}},
			Peer: hxconn.Peer{Read: "cret"}},
		{Name: "backlog", Codec: 2, Cap: 64, ICap: 4, ECap: 2, Inb: "prompt", Err: "prompt",
			Senders: []hxconn.Sender{{Sizes: sizes(hxlib.NewRand(7), 40, 0, 64), When: "start", Burst: true}}, Closers: []hxconn.Closer{{Graceful: true, When: "senders"}},
			Peer: hxconn.Peer{Read: "ccall"}},
	}
	collectStalls := startStalls(r) // (children that wait in the background; judged at the very end)
	defer collectStalls()
	for _, s := range fixed {
		runOne(r, s, true)
	}
	diversityLegs(r)
	if os.Getenv("HX_ONLY") == "diversity" { // (development aid: only the third-wave legs)
		return
	}
	n := r.Scale(150, 1500)
	for k := 0; k < n; k++ {
		runOne(r, genBacklog(r.R, false), k%4 == 0)
	}
	for k := 0; k < r.Scale(4, 24); k++ {
		runOne(r, genBacklog(r.R, true), false)
	}
	for k := 0; k < r.Scale(100, 1000); k++ {
		runOne(r, genRace(r.R), k%4 == 0)
	}
	for k := 0; k < r.Scale(100, 1000); k++ {
		runOne(r, genInbound(r.R), k%4 == 0)
	}
	for k := 0; k < r.Scale(16, 80); k++ {
		runOne(r, genForced(r.R), false)
	}
	// a graceful Close while the peer is still writing (and reads only after Close returned): every accepted packet
	// must still arrive. (The Close that shut the receive side first lost the tail of the backlog here, ≈ 9 runs in 10.)
	for k := 0; k < r.Scale(8, 60); k++ {
		runOne(r, hxconn.GenPeerWritesThroughClose(r.R), false)
	}
	for k := 0; k < r.Scale(6, 60); k++ {
		runOne(r, hxconn.GenPeerStillWriting(r.R), false)
	}
}
