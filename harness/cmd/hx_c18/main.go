// hx_c18: correspondence harness + oracle for C18 (the pool executor).
//
// Leg 1 (det): forced schedules. Every task is gated by the harness, every real call runs under a
// watchdog, so the answers are a function of the op list; the same op list goes to the Lean LTS
// (Drv/C18.lean runs the LTS under a canonical scheduler) and the answers are diffed by ./check.
// Leg 2 (stress): free-running goroutines, oracle only (per-task run counters, order for one
// worker, goroutine count).  Leg 3 (probe): a panicking task in a child process, because a panic
// that escapes a worker goroutine cannot be recovered in-process.
package main

import (
	"fmt"
	"io"
	"log"
	"os"
	"os/exec"
	"strings"
	"time"

	"verifharness/hxlib"
)

var panicOK = true // in-process panicking tasks are used only when the child-process probe survived one

func emit(r *hxlib.Run, d *det) {
	for _, l := range d.lines {
		r.Op(l[0], l[1])
	}
}

func (d *det) step(op string) string {
	a := d.do(op)
	d.lines = append(d.lines, [2]string{op, a})
	return a
}

func pickKind(rr *hxlib.Rand) string {
	switch x := rr.Intn(5); {
	case x == 3:
		return kErr
	case x == 4 && panicOK:
		return kPanic
	}
	return kOK
}

// genDet generates a forced schedule online (choices depend only on the seed and on the plain
// arithmetic of the runner, never on timing) and runs it.
func genDet(rr *hxlib.Rand, w, cap int, tmo time.Duration, length int) (*det, Case) {
	d := newDet(w, cap, tmo)
	c := Case{Kind: "det", W: w, Cap: cap}
	next := 0
	blocked := -1
	do := func(op string) string {
		c.Ops = append(c.Ops, op)
		return d.step(op)
	}
	do(fmt.Sprintf("new w=%d cap=%d", w, cap))
	if rr.Chance(1, 12) {
		do("shutdown") // before the first Execute: no effect
	}
	running := func() []int { d.settle(); return d.b.snap().running }
	quiet := func() { // enabledness tie (quiet.go), a bounded number per run
		if quietBudget > 0 && !d.hung {
			quietBudget--
			do("quiet")
		}
	}
	for i := 0; i < length && !d.hung; i++ {
		if blocked >= 0 {
			if d.inflight <= d.wn+d.cap {
				do(fmt.Sprintf("await t=%d", blocked))
				blocked = -1
				continue
			}
			// only a fin can make room
			if rs := running(); len(rs) > 0 {
				do(fmt.Sprintf("fin t=%d k=%s", rs[rr.Intn(len(rs))], pickKind(rr)))
			} else {
				break
			}
			continue
		}
		switch x := rr.Intn(11); {
		case x < 5:
			if d.inflight < d.wn+d.cap {
				do(fmt.Sprintf("exec t=%d", next))
				next++
			} else if rr.Chance(1, 2) {
				do(fmt.Sprintf("spawn t=%d", next))
				blocked = next
				next++
				quiet() // an Execute parked in its send, every worker inside a task
			}
		case x < 8:
			if rs := running(); len(rs) > 0 {
				do(fmt.Sprintf("fin t=%d k=%s", rs[rr.Intn(len(rs))], pickKind(rr)))
			}
		default:
			do("obs")
			if i%4 == 0 {
				quiet()
			}
		}
	}
	if d.hung {
		return d, c
	}
	finAll := func() {
		for d.inflight > 0 && !d.hung {
			if blocked >= 0 && d.inflight <= d.wn+d.cap {
				do(fmt.Sprintf("await t=%d", blocked))
				blocked = -1
			}
			rs := running()
			if len(rs) == 0 {
				break
			}
			do(fmt.Sprintf("fin t=%d k=%s", rs[rr.Intn(len(rs))], pickKind(rr)))
		}
		if blocked >= 0 && !d.hung {
			do(fmt.Sprintf("await t=%d", blocked))
			blocked = -1
		}
	}
	// a blocked Execute is let through first: how far its goroutine has got is not observable, so a
	// Shutdown next to it would not be a forced schedule (the free-running leg covers that race)
	for blocked >= 0 && !d.hung {
		if d.inflight <= d.wn+d.cap {
			do(fmt.Sprintf("await t=%d", blocked))
			blocked = -1
		} else if rs := running(); len(rs) > 0 {
			do(fmt.Sprintf("fin t=%d k=%s", rs[rr.Intn(len(rs))], pickKind(rr)))
		} else {
			break
		}
	}
	if d.hung {
		return d, c
	}
	if !d.started {
		do(fmt.Sprintf("exec t=%d", next))
		next++
	}
	switch rr.Intn(3) {
	case 0: // Shutdown meets a backlog and gated tasks
		do("obs")
		do("shutdown-async")
		do("obs")
		quiet() // Shutdown parked in wg.Wait (or returned), workers inside tasks
		finAll()
		if !d.hung {
			do("await-shutdown")
		}
	case 1: // tasks run freely, Shutdown right behind
		do("openall k=" + pickKind(rr))
		if blocked >= 0 {
			do(fmt.Sprintf("await t=%d", blocked))
			blocked = -1
		}
		if rr.Bool() {
			do("shutdown")
		} else {
			do("shutdown-async")
			do("await-shutdown")
		}
	default:
		finAll()
		if !d.hung {
			do("shutdown")
		}
	}
	if !d.hung {
		do("obs")
		do(fmt.Sprintf("exec t=%d", next))
		next++
		do("shutdown")
		do("obs")
		quiet() // everything has returned
	}
	return d, c
}

// lockWaitLeg: forced schedules in which Shutdown waits in guard.Lock() behind an Execute that is parked in its
// send (it holds the read lock), and a further Execute arrives meanwhile: Go's RWMutex parks it in RLock (writer
// preference), so when room is made the first call gets through, Shutdown flips the state and the late call is
// refused.  The notion of "internal action" of C18_no_stuck and the driver's scheduler say the same.
func lockWaitLeg(r *hxlib.Run, tmo time.Duration) int {
	bad := 0
	for _, wc := range [][2]int{{1, 1}, {1, 0}, {2, 1}, {2, 0}, {3, 2}} {
		w, cp := wc[0], wc[1]
		c := Case{Kind: "det", W: w, Cap: cp, Ops: []string{fmt.Sprintf("new w=%d cap=%d", w, cp)}}
		n := 0
		for ; n < w+cp; n++ {
			c.Ops = append(c.Ops, fmt.Sprintf("exec t=%d", n))
		}
		c.Ops = append(c.Ops, "obs", fmt.Sprintf("spawn t=%d", n), "quiet", "shutdown-async", "quiet",
			fmt.Sprintf("spawn t=%d", n+1), "quiet", "fin t=0 k=ok", fmt.Sprintf("await t=%d", n), fmt.Sprintf("await t=%d", n+1), "quiet", "obs")
		for i := 1; i <= n; i++ {
			c.Ops = append(c.Ops, "obs")
			// tasks are started in submission order for one worker only; finish whatever runs
		}
		c.Ops = append(c.Ops, "openall k=ok", "await-shutdown", "quiet", "obs")
		bad += runDet(r, &c, r.R.Fork(), tmo, 0)
		r.Count("det:lock-wait")
	}
	return bad
}

func replayDet(c Case, tmo time.Duration) *det {
	d := newDet(c.W, c.Cap, tmo)
	for _, op := range c.Ops {
		d.step(op)
		if d.hung {
			break
		}
	}
	return d
}

// runDet runs one forced schedule; a run that hung is repeated once before it is believed.
func runDet(r *hxlib.Run, c *Case, rr *hxlib.Rand, tmo time.Duration, length int) int {
	var d *det
	if c.Ops == nil {
		d, *c = genDet(rr, c.W, c.Cap, tmo, length)
	} else {
		d = replayDet(*c, tmo)
	}
	if d.hung {
		r.Count("det:hang-first-run")
		d2 := replayDet(*c, 2*tmo)
		if !d2.hung {
			r.Count("det:hang-not-reproduced")
			r.Note("a forced schedule hung once and passed when repeated with a doubled deadline (not reported)")
		}
		d = d2
	}
	d.checkAlways()
	emit(r, d)
	r.Case()
	r.CountN("det:ops", len(d.lines))
	nt := d.failedK
	for _, l := range d.lines {
		r.Count("op:" + strings.Fields(l[0])[0])
		if strings.HasPrefix(l[0], "shutdown") && d.started {
			// backlog at Shutdown: more accepted than finished
		}
	}
	if d.failedK {
		r.Count("det:failing-or-panicking-task")
	}
	for i, op := range c.Ops {
		if op == "shutdown-async" && i > 0 && strings.HasPrefix(d.answerAt(i-1), "started=") {
			r.Count("det:shutdown-with-gated-backlog")
			nt = true
		}
	}
	if nt {
		r.NonTrivial(fmt.Sprintf("det/%d/%d/%s", c.W, c.Cap, strings.Join(c.Ops, ";")))
	}
	for _, f := range d.fails {
		r.Fail(f.key, f.what, *c)
	}
	return cost(len(d.fails) > 0, d.hung)
}

// cost of a failing case against the budget of a leg: hangs are expensive to wait for
func cost(failed, hung bool) int {
	switch {
	case failed && hung: // one confirmed hang ends the leg
		return 6
	case failed:
		return 1
	}
	return 0
}

func (d *det) answerAt(i int) string {
	if i < len(d.lines) {
		return d.lines[i][1]
	}
	return ""
}

// probe: child process; a panicking task must not take the process down, and a later task must run.
func probeChild() {
	log.SetOutput(io.Discard)
	d := newDet(2, 4, 5*time.Second)
	d.do("new w=2 cap=4")
	a := d.do("exec t=0")
	if a != "ok" {
		fmt.Println("PROBE-INCONCLUSIVE first Execute: " + a)
		return
	}
	d.do("fin t=0 k=panic")
	d.do("exec t=1")
	d.do("exec t=2")
	if !d.b.waitFor(5*time.Second, func(s snap) bool { return len(s.running) == 2 }) {
		fmt.Println("PROBE-STALL")
		return
	}
	fmt.Println("PROBE-OK")
}

func probe(r *hxlib.Run) {
	self, err := os.Executable()
	if err != nil {
		r.Note("probe skipped: %v", err)
		return
	}
	cmd := exec.Command(self)
	cmd.Env = append(os.Environ(), "HX_C18_PROBE=1")
	out, err := cmd.CombinedOutput()
	s := string(out)
	r.Case()
	c := Case{Kind: "probe", W: 2, Cap: 4}
	switch {
	case strings.Contains(s, "PROBE-OK"):
		r.Count("probe:survived-panicking-task")
		r.NonTrivial("probe/panic")
	case strings.Contains(s, "PROBE-INCONCLUSIVE"):
		panicOK = false
		r.Count("probe:inconclusive")
		r.Note("panic probe inconclusive (%s); panicking tasks are not used in-process in this run", strings.TrimSpace(s[strings.Index(s, "PROBE-INCONCLUSIVE"):]))
	case strings.Contains(s, "PROBE-STALL"):
		panicOK = false
		r.Fail("stall:after-panicking-task", "after a task panicked the two later tasks were not both started by the 2 workers within 5 s", c)
	default:
		panicOK = false
		tail := s
		if len(tail) > 300 {
			tail = tail[len(tail)-300:]
		}
		r.Fail("worker-killed-by-panic", fmt.Sprintf("a panicking task took the process down (child: %v): …%s", err, tail), c)
	}
}

func main() {
	if v := os.Getenv("HX_C18_PROBE"); v != "" {
		if v == "values" {
			valuesChild()
		} else if v == "env" {
			envChild()
		} else {
			probeChild()
		}
		return
	}
	r := hxlib.Start("C18", "a forced schedule or a free-running configuration; non-trivial when a task ends in error/panic or Shutdown meets a non-empty queue; distinct by configuration and op list")
	defer r.Finish()
	log.SetOutput(io.Discard)
	if null, err := os.OpenFile(os.DevNull, os.O_WRONLY, 0); err == nil {
		os.Stderr = null // debug.CatchPanic prints a trace per recovered panic
	}
	tmo := 3 * time.Second
	if r.Thorough() {
		tmo = 6 * time.Second
	}
	if r.Replay != "" {
		var c Case
		r.LoadReplay(&c)
		switch c.Kind {
		case "det":
			// the real scheduler is free where the forced schedule leaves a choice (e.g. which ready case a
			// select takes): repeat until the failure shows
			for i := 0; i < 25; i++ {
				if runDet(r, &c, r.R.Fork(), tmo, 0) > 0 {
					break
				}
			}
		case "probe":
			probe(r)
		case "probe-values":
			probeValues(r)
		case "backlog":
			runBacklog(r, c, tmo)
		case "errvals":
			runErrVals(r, c, tmo)
		case "probe-env":
			probeEnv(r, c.Env)
		case "reuse", "nest", "sizes":
			for i := 0; i < 10 && !r.Failed(); i++ { // free-running for several workers: repeat until it shows
				r.Case()
				var fs []fail
				switch c.Kind {
				case "reuse":
					fs = runReuse(c, tmo)
				case "nest":
					fs = runNest(c, tmo)
				default:
					fs = runSizes(c, tmo)
				}
				for _, f := range fs {
					r.Fail(f.key, f.what, c)
				}
			}
		default:
			runStress(r, c, tmo)
		}
		r.Sample(c)
		return
	}
	probe(r)
	if panicOK {
		probeValues(r) // awkward panic values and error values, in a child process of their own
	}
	// every tier: error values by class, one object per value (legs4.go); the panic probe under runtime environment variables
	errValsLeg(r, tmo)
	if panicOK && !r.Failed() {
		probeEnv(r, nil)
	}
	// every tier: one task object submitted again and again, tasks submitting tasks, constructors and sizes (diversity.go)
	reuseLeg(r, tmo)
	if !r.Failed() {
		nestLeg(r, tmo)
		sizesLeg(r, tmo)
	}
	if r.Search {
		searchLegs(r, tmo)
		if r.Failed() {
			r.Note("the search legs found a failing input; the ordinary generators were not run again")
			return
		}
	}
	// ---- leg 1: forced schedules --------------------------------------------------------------
	bad := 0
	fixed := [][2]int{{1, 0}, {1, 1}, {1, 4}, {2, 0}, {2, 1}, {3, 2}, {0, 2}, {-1, 1}, {4, 8}, {8, 64}}
	n := r.Scale(400, 6000)
	quietBudget = r.Scale(160, 2500)
	bad += lockWaitLeg(r, tmo)
	for i := 0; i < n && bad < 6; i++ {
		var w, cp int
		if i < len(fixed) {
			w, cp = fixed[i][0], fixed[i][1]
		} else {
			w, cp = r.R.Pick(1, 1, 1, 2, 2, 3, 4, 8, 0), r.R.Pick(0, 0, 1, 1, 2, 3, 4, 8, 16, 64)
		}
		c := Case{Kind: "det", W: w, Cap: cp}
		bad += runDet(r, &c, r.R.Fork(), tmo, r.R.Range(4, 40))
		if i < 3 {
			r.Sample(c)
		}
	}
	// ---- leg 2: free-running ------------------------------------------------------------------
	bad = 0
	m := r.Scale(1200, 30000)
	for i := 0; i < m && bad < 6; i++ {
		c := Case{Kind: "stress", W: r.R.Range(1, 8), Cap: r.R.Pick(0, 0, 1, 2, 4, 16, 64), N: r.R.Pick(0, 1, 2, 5, 20, 60, 200, 500), G: r.R.Range(1, 8)}
		if r.R.Chance(1, 3) {
			c.W = 1
		}
		c.Kinds = make([]string, c.N)
		for j := range c.Kinds {
			c.Kinds[j] = pickKind(r.R)
		}
		if c.N > 0 && r.R.Chance(2, 3) {
			c.ShutAfter = r.R.Range(1, c.N)
		}
		bad += runStress(r, c, tmo)
		if i < 2 {
			cc := c
			cc.Kinds = nil
			r.Sample(cc)
		}
	}
}
