package main

// Enabledness tie (op `quiet`): when the real executor is quiescent — every goroutine that is inside a
// method of THIS executor is parked (goroutine dump, twice, identical, all in a wait state, as many
// Execute/Shutdown goroutines as there are unreturned calls) — report where each of them is parked.
// The Lean driver answers the same line from the settled LTS state plus the list of internal actions
// (Act.internal, the notion of C18_no_stuck) it finds enabled by full enumeration: a real quiescent
// state in which the model has an enabled internal action, or a goroutine parked elsewhere, is a
// differing line.  The oracle is the wait state the runtime reports, never a duration.

import (
	"fmt"
	"regexp"
	"runtime"
	"sort"
	"strings"
	"time"
)

var quietBudget = 0

const tpe = "sched.(*ThreadPoolExecutor)."

var goHdr = regexp.MustCompile(`^goroutine (\d+) \[([^\],]+)`)

type gobs struct {
	id, state, kind string
}

func dumpAll() string {
	buf := make([]byte, 1<<20)
	for {
		n := runtime.Stack(buf, true)
		if n < len(buf) {
			return string(buf[:n])
		}
		buf = make([]byte, 2*len(buf))
	}
}

// poolGoroutines lists the goroutines that are inside a method of a pool executor, except those in skip.
func poolGoroutines(skip map[string]bool) []gobs {
	var out []gobs
	for _, blk := range strings.Split(dumpAll(), "\n\n") {
		if !strings.Contains(blk, tpe) {
			continue
		}
		m := goHdr.FindStringSubmatch(blk)
		if m == nil || skip[m[1]] {
			continue
		}
		g := gobs{id: m[1], state: m[2]}
		switch {
		case strings.Contains(blk, tpe+"worker("):
			switch {
			case strings.Contains(blk, tpe+"run("):
				g.kind = "w:task"
			case g.state == "select":
				g.kind = "w:select"
			default:
				g.kind = "w:other"
			}
		case strings.Contains(blk, tpe+"Execute("):
			switch {
			case strings.Contains(blk, "sync.(*RWMutex).RLock"):
				g.kind = "e:rlock"
			case g.state == "chan send":
				g.kind = "e:send"
			default:
				g.kind = "e:other"
			}
		case strings.Contains(blk, tpe+"Shutdown("):
			switch {
			case strings.Contains(blk, "sync.(*RWMutex).Lock"):
				g.kind = "s:lock"
			case strings.Contains(blk, "sync.(*WaitGroup).Wait"):
				g.kind = "s:wait"
			default:
				g.kind = "s:other"
			}
		default:
			g.kind = "other"
		}
		out = append(out, g)
	}
	sort.Slice(out, func(i, j int) bool { return out[i].id < out[j].id })
	return out
}

func parked(state string) bool {
	switch state {
	case "running", "runnable", "syscall":
		return false
	}
	return true
}

func (d *det) pendingCalls() (execs int, shut bool) {
	for _, c := range d.calls {
		if c.poll() == "" {
			execs++
		}
	}
	return execs, d.shut != nil && d.shut.poll() == ""
}

// quiet waits until the executor's goroutines are all parked and stay as they are, and says where.
func (d *det) quiet() string {
	d.settle()
	deadline := time.Now().Add(d.tmo)
	for {
		b1 := d.b.snap()
		g1 := poolGoroutines(d.base)
		time.Sleep(4 * time.Millisecond)
		g2 := poolGoroutines(d.base)
		b2 := d.b.snap()
		execs, shut := d.pendingCalls()
		ok := fmt.Sprint(g1) == fmt.Sprint(g2) && len(b1.started) == len(b2.started) && len(b1.finished) == len(b2.finished)
		cnt := map[string]int{}
		for _, g := range g2 {
			ok = ok && parked(g.state)
			cnt[g.kind]++
		}
		nshut := cnt["s:lock"] + cnt["s:wait"] + cnt["s:other"]
		ok = ok && cnt["e:send"]+cnt["e:rlock"]+cnt["e:other"] == execs && (nshut == 1) == shut && nshut <= 1
		if ok {
			sh := "none"
			switch {
			case d.shut == nil:
			case !shut:
				sh = "ret"
			case cnt["s:lock"] == 1:
				sh = "lock"
			case cnt["s:wait"] == 1:
				sh = "wait"
			default:
				sh = "other"
			}
			return fmt.Sprintf("exec-send=%d exec-rlock=%d exec-other=%d workers-select=%d workers-task=%d workers-other=%d shutdown=%s enabled=-",
				cnt["e:send"], cnt["e:rlock"], cnt["e:other"], cnt["w:select"], cnt["w:task"], cnt["w:other"]+cnt["other"], sh)
		}
		if time.Now().After(deadline) {
			d.hung = true
			return "unstable " + fmt.Sprint(g2)
		}
		time.Sleep(5 * time.Millisecond)
	}
}

// baseline: goroutines of earlier executors that are still around (idle workers of pools nobody shut down)
func poolBaseline() map[string]bool {
	m := map[string]bool{}
	for _, g := range poolGoroutines(nil) {
		m[g.id] = true
	}
	return m
}
