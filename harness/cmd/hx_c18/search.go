package main

// Failing-input search legs of C18 (only with -search). Classes they are aimed at:
//
//	many-tasks  (scale / period)  2^16+3 .. 5*2^16+3 tasks through ONE executor instance (1..3 workers; more than
//	                              (workers+1)*2^16), Shutdown after exactly k*2^16 accepted tasks or after all
//	backlog     (scale)           a queue of capacity 2^16+8 / 2^17+8 filled completely behind one gated task of a single
//	                              worker, then released: every task once, in submission order; Shutdown with 2^16+
//	                              tasks still queued
//	stalled     (schedule)        tasks that hold their worker for 10..50 ms, queue capacity 0..2, 4..8 submitters that
//	                              keep calling (they stand blocked in the send, holding the shared lock), Shutdown
//	                              called meanwhile
//
// The oracle is the ordinary one of the free-running leg (per-task run counters, nothing lost / twice / unaccepted,
// FIFO for one worker, Shutdown returns, workers gone).
//
// Every-tier legs over dimensions the generators do not vary: diversity.go (reuse, nest, sizes, deep), values.go (awkward panic /
// error values), legs4.go (errvals: returned error VALUES by errno / sentinel class, one task object per value, exactly once;
// probe-env: the panic probe in children started with GOTRACEBACK / GODEBUG / GOMAXPROCS / GOGC / GOMEMLIMIT settings).

import (
	"fmt"
	"time"

	"verifharness/hxlib"

	"qchen.fun/fatchoy/sched"
)

// runBacklog: kind "backlog": W = 1, Cap = N + 8.
func runBacklog(r *hxlib.Run, c Case, tmo time.Duration) {
	r.Case()
	r.Count("search:backlog")
	ex := sched.NewThreadPoolExecutor(1, c.Cap)
	b := newBook()
	gate := make(chan struct{})
	failf := func(key, format string, a ...interface{}) { r.Fail(key, fmt.Sprintf(format, a...), c) }
	if err := ex.Execute(&valTask{b: b, id: 0, v: noValue, gate: gate}); err != nil {
		failf("backlog:refused", "the first Execute returned %v", err)
		return
	}
	subDone := make(chan int, 1)
	go func() {
		for id := 1; id <= c.N; id++ {
			if err := ex.Execute(&valTask{b: b, id: id, v: noValue}); err != nil {
				subDone <- id
				return
			}
		}
		subDone <- 0
	}()
	select {
	case bad := <-subDone:
		if bad != 0 {
			failf("backlog:refused", "Execute(task %d) was refused on a running executor with room in its queue", bad)
			close(gate)
			return
		}
	case <-time.After(tmo):
		failf("hang:execute-with-room", "%d Execute calls did not all return within %v although the queue (capacity %d) has room for every one of them", c.N, tmo, c.Cap)
		close(gate)
		return
	}
	if s := b.snap(); len(s.started) != 1 {
		failf("fifo", "with the single worker held by task 0, %d tasks have been started", len(s.started))
	}
	shut := make(chan struct{})
	if c.ShutAfter > 0 { // Shutdown meets the whole backlog
		go func() { ex.(shutdowner).Shutdown(); close(shut) }()
		time.Sleep(2 * time.Millisecond)
	}
	close(gate)
	if c.ShutAfter <= 0 {
		if !b.waitFor(tmo, func(s snap) bool { return len(s.finished) == c.N+1 }) {
			failf("stall", "the single worker finished only %d of %d accepted tasks within %v", len(b.snap().finished), c.N+1, tmo)
			return
		}
		go func() { ex.(shutdowner).Shutdown(); close(shut) }()
	}
	select {
	case <-shut:
	case <-time.After(tmo):
		failf("hang:shutdown", "Shutdown had not returned after %v (backlog of %d tasks)", tmo, c.N)
		return
	}
	s := b.snap()
	if len(s.running) > 0 {
		failf("running-after-shutdown", "task(s) %v were running when Shutdown returned", s.running)
	}
	lost, twice := 0, 0
	for id := 0; id <= c.N; id++ {
		switch n := s.runs[id]; {
		case n == 0:
			lost++
		case n > 1:
			twice++
		}
	}
	if lost > 0 {
		failf("lost-at-shutdown", "%d of %d accepted task(s) had not been run when Shutdown returned (1 worker, capacity %d)", lost, c.N+1, c.Cap)
	}
	if twice > 0 {
		failf("ran-twice", "%d task(s) were run more than once", twice)
	}
	for i, id := range s.started {
		if id != i {
			failf("fifo", "single worker: the %d-th task started is task %d (submission order is 0, 1, 2, ...)", i, id)
			break
		}
	}
	r.NonTrivial(fmt.Sprintf("backlog/%d/%d", c.N, c.ShutAfter))
}

func searchLegs(r *hxlib.Run, tmo time.Duration) {
	t0 := time.Now()
	defer func() { r.Note("search legs took %.1f s", time.Since(t0).Seconds()) }()
	R := r.R
	// many tasks through one instance
	most := 0
	for _, wn := range [][2]int{{1, 1<<16 + 3}, {1, 2<<16 + 3}, {1, 3<<16 + 3}, {2, 4<<16 + 3}, {3, 5<<16 + 3}} {
		for _, shut := range []int{0, 1} {
			if r.Failed() {
				break
			}
			c := Case{Kind: "stress", W: wn[0], Cap: R.Pick(0, 1, 64, 1024), N: wn[1], G: R.Range(1, 4)}
			if shut == 1 {
				c.ShutAfter = (wn[1] >> 16) << 16 // Shutdown once exactly k*2^16 calls were accepted
			}
			runStress(r, c, 2*tmo)
			r.Count("search:many-tasks")
			if c.N > most {
				most = c.N
			}
		}
	}
	// a completely filled large queue behind one gated task
	for _, n := range []int{1<<16 + 1, 1<<17 + 1} {
		for _, shut := range []int{0, 1} {
			if !r.Failed() {
				runBacklog(r, Case{Kind: "backlog", W: 1, Cap: n + 8, N: n, ShutAfter: shut}, 2*tmo)
			}
		}
	}
	// stalled tasks, tiny queues, Shutdown while submitters stand blocked in the send
	nStall := 30
	for k := 0; k < nStall && !r.Failed(); k++ {
		c := Case{Kind: "stress", W: R.Pick(1, 1, 2, 3), Cap: R.Pick(0, 0, 1, 2), N: R.Range(12, 40), G: R.Range(4, 8), StallMs: R.Range(10, 50), StallEvery: R.Pick(1, 2, 3)}
		c.Kinds = make([]string, c.N)
		for j := range c.Kinds {
			c.Kinds[j] = pickKind(R)
		}
		if R.Chance(3, 4) {
			c.ShutAfter = R.Range(1, c.N)
		}
		runStress(r, c, 2*tmo)
		r.Count("search:stalled")
	}
	r.Note("search legs: many-tasks up to %d tasks through one executor instance (1..3 workers, Shutdown after exactly k*2^16 accepted or after all); backlog: queues of capacity 2^16+9 and 2^17+9 filled behind one gated task (with and without Shutdown meeting the backlog); stalled: %d free-running cases with tasks holding a worker 10..50 ms, capacity 0..2, 4..8 submitters", most, nStall)
}
