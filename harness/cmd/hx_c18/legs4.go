package main

// Fourth round of every-tier legs (oracle only; the Lean LTS knows a task's end as ok / err / panic, not the error VALUE
// and not the process environment).
//
//	errvals   (error values by    tasks that RETURN every syscall.Errno 0..133 (EINTR, EAGAIN/EWOULDBLOCK, ETIMEDOUT, ECONNRESET,
//	           errno class)       EPIPE ... among them), io.EOF / ErrUnexpectedEOF / ErrShortWrite / ErrNoProgress / ErrClosedPipe,
//	                              context.Canceled / DeadlineExceeded, os.ErrDeadlineExceeded / ErrNotExist / ErrExist /
//	                              ErrPermission / ErrClosed, net.ErrClosed, the executor's own ErrExecutorNotRunning, net.Error
//	                              values with Timeout() / Temporary() true, an error whose Is() says yes to everything — bare and
//	                              wrapped by %w (1, 2, 20 deep), *os.SyscallError, *os.PathError, *net.OpError over a SyscallError,
//	                              errors.Join (first and last member), a custom Unwrap type. One task OBJECT per value with its
//	                              own run counter; pool of 1 worker (FIFO trace without a repeated entry) and of 3 workers; after
//	                              Shutdown every accepted object ran EXACTLY once.
//	probe-env (process            the panic probe in child processes started with GOTRACEBACK = crash | all | system | single |
//	           environment)       none | 0 | 1 | 2 | wer | odd spellings, GODEBUG odd values, GOMAXPROCS=1, GOGC=off|1, GOMEMLIMIT:
//	                              tasks panicking with a string / an error / a runtime.Error / 40 frames down, each followed by a
//	                              later task that must run (1 worker and 2 workers), Shutdown must return, the child must exit 0.
//	                              (The child sets RLIMIT_CORE to 0 first: a failing run must not litter core files.)

import (
	"context"
	"errors"
	"fmt"
	"io"
	"io/fs"
	"log"
	"net"
	"os"
	"os/exec"
	"sort"
	"strings"
	"sync"
	"syscall"
	"time"

	"verifharness/hxlib"

	"qchen.fun/fatchoy/sched"
)

// ---- error values ------------------------------------------------------------------------------------------------------

type netishErr struct{ timeout, temporary bool }

func (e netishErr) Error() string {
	return fmt.Sprintf("netish(timeout=%v,temporary=%v)", e.timeout, e.temporary)
}
func (e netishErr) Timeout() bool   { return e.timeout }
func (e netishErr) Temporary() bool { return e.temporary }

type isEverything struct{}

func (isEverything) Error() string       { return "Is() answers yes to every target" }
func (isEverything) Is(error) bool       { return true }
func (isEverything) As(interface{}) bool { return false }

type unwrapper struct{ inner error }

func (u *unwrapper) Error() string { return "custom wrapper: " + u.inner.Error() }
func (u *unwrapper) Unwrap() error { return u.inner }

type namedErr struct {
	name string
	err  error
}

func baseErrs() []namedErr {
	v := []namedErr{
		{"io.EOF", io.EOF}, {"io.ErrUnexpectedEOF", io.ErrUnexpectedEOF}, {"io.ErrShortWrite", io.ErrShortWrite},
		{"io.ErrNoProgress", io.ErrNoProgress}, {"io.ErrClosedPipe", io.ErrClosedPipe}, {"io.ErrShortBuffer", io.ErrShortBuffer},
		{"context.Canceled", context.Canceled}, {"context.DeadlineExceeded", context.DeadlineExceeded},
		{"os.ErrDeadlineExceeded", os.ErrDeadlineExceeded}, {"os.ErrNotExist", os.ErrNotExist}, {"os.ErrExist", os.ErrExist},
		{"os.ErrPermission", os.ErrPermission}, {"os.ErrClosed", os.ErrClosed}, {"os.ErrInvalid", os.ErrInvalid}, {"os.ErrNoDeadline", os.ErrNoDeadline},
		{"os.ErrProcessDone", os.ErrProcessDone}, {"fs.ErrInvalid", fs.ErrInvalid},
		{"net.ErrClosed", net.ErrClosed}, {"net.ErrWriteToConnected", net.ErrWriteToConnected},
		{"sched.ErrExecutorNotRunning", sched.ErrExecutorNotRunning},
		{"net.Error(timeout)", netishErr{true, false}}, {"net.Error(temporary)", netishErr{false, true}}, {"net.Error(timeout,temporary)", netishErr{true, true}},
		{"net.DNSError(timeout,temporary)", &net.DNSError{Err: "lookup", Name: "h", IsTimeout: true, IsTemporary: true}},
		{"net.UnknownNetworkError", net.UnknownNetworkError("x")},
		{"exec.ErrNotFound", exec.ErrNotFound},
	}
	for e := 0; e <= 133; e++ {
		v = append(v, namedErr{fmt.Sprintf("syscall.Errno(%d)", e), syscall.Errno(e)})
	}
	v = append(v, namedErr{"is-everything", isEverything{}})
	return v
}

// the errno values every wrapper is applied to (the others only bare and under one %w)
var retriedErrnos = map[syscall.Errno]bool{
	syscall.EINTR: true, syscall.EAGAIN: true /* = EWOULDBLOCK */, syscall.ETIMEDOUT: true, syscall.ECONNRESET: true,
	syscall.EPIPE: true, syscall.ECONNREFUSED: true, syscall.ECONNABORTED: true, syscall.EINPROGRESS: true, syscall.EALREADY: true,
	syscall.EBUSY: true, syscall.ENOMEM: true, syscall.ENOENT: true, syscall.EMFILE: true, syscall.ENFILE: true, syscall.ENOSPC: true,
	syscall.EDEADLK: true, syscall.ENOBUFS: true, syscall.EHOSTUNREACH: true, syscall.ENETUNREACH: true, syscall.Errno(0): true,
}

type errWrapper struct {
	name string
	f    func(error) error
}

func errWrappers() []errWrapper {
	return []errWrapper{
		{"bare", func(e error) error { return e }},
		{"%w", func(e error) error { return fmt.Errorf("flock journal: %w", e) }},
		{"%w%w", func(e error) error { return fmt.Errorf("commit: %w", fmt.Errorf("flock journal: %w", e)) }},
		{"%w x20", wrap20},
		{"*os.SyscallError", func(e error) error { return os.NewSyscallError("read", e) }},
		{"*os.PathError", func(e error) error { return &os.PathError{Op: "open", Path: "/var/x", Err: e} }},
		{"*os.LinkError", func(e error) error { return &os.LinkError{Op: "rename", Old: "a", New: "b", Err: e} }},
		{"*net.OpError(*os.SyscallError)", func(e error) error {
			return &net.OpError{Op: "read", Net: "tcp", Err: os.NewSyscallError("read", e)}
		}},
		{"errors.Join(first)", func(e error) error { return errors.Join(e, errors.New("and another")) }},
		{"errors.Join(last)", func(e error) error { return errors.Join(errors.New("one"), errors.New("two"), e) }},
		{"custom Unwrap", func(e error) error { return &unwrapper{e} }},
		{"%w over *os.PathError", func(e error) error { return fmt.Errorf("load: %w", &os.PathError{Op: "read", Path: "/x", Err: e}) }},
	}
}

type errValue struct {
	name string
	err  error
}

// errValues: every (base, wrapper) combination of the header; `only` (replay) keeps the named ones.
func errValues(only []string) []errValue {
	keep := map[string]bool{}
	for _, n := range only {
		keep[n] = true
	}
	var out []errValue
	for _, b := range baseErrs() {
		all := true
		if en, ok := b.err.(syscall.Errno); ok && !retriedErrnos[en] {
			all = false
		}
		for wi, w := range errWrappers() {
			if !all && wi > 1 {
				break
			}
			name := w.name + " of " + b.name
			if len(keep) > 0 && !keep[name] {
				continue
			}
			out = append(out, errValue{name, w.f(b.err)})
		}
	}
	return out
}

type countTask struct {
	mu   *sync.Mutex
	idx  int
	runs *[]int // per object
	seq  *[]int // object indices in the order Run was entered
	err  error
}

func (t *countTask) Run() error {
	t.mu.Lock()
	(*t.runs)[t.idx]++
	*t.seq = append(*t.seq, t.idx)
	t.mu.Unlock()
	return t.err
}

// runErrVals: kind "errvals"; c.W workers, c.Cap slots, c.Errs (replay) restricts the values.
func runErrVals(r *hxlib.Run, c Case, tmo time.Duration) bool {
	vals := errValues(c.Errs)
	var mu sync.Mutex
	runs := make([]int, len(vals))
	var seq []int
	ex := sched.NewThreadPoolExecutor(c.W, c.Cap)
	accepted := make([]bool, len(vals))
	cfg := fmt.Sprintf("pool of %d worker(s), capacity %d", c.W, c.Cap)
	narrowed := func(names ...string) Case {
		cc := c
		cc.Errs = names
		return cc
	}
	for i, v := range vals {
		t := &countTask{mu: &mu, idx: i, runs: &runs, seq: &seq, err: v.err}
		res := goCall(func() error { return ex.Execute(t) }).wait(tmo)
		r.Case()
		switch res {
		case "ok":
			accepted[i] = true
		case "hang":
			r.Fail("errvals:execute-hang", fmt.Sprintf("%s: Execute of the task after %d failing tasks did not return within %v (the previous task returned %s)", cfg, i, tmo, prevName(vals, i)), narrowed(namesUpTo(vals, i)...))
			return false
		default:
			r.Fail("errvals:execute-"+res, fmt.Sprintf("%s: Execute on a running executor answered %s after a task that returned %s", cfg, res, prevName(vals, i)), narrowed(namesUpTo(vals, i)...))
			return false
		}
	}
	if res := goCall(func() error { ex.(shutdowner).Shutdown(); return nil }).wait(tmo + 2*time.Second); res != "ok" {
		r.Fail("errvals:shutdown-"+res, fmt.Sprintf("%s: Shutdown after %d tasks that returned error values: %s", cfg, len(vals), res), c)
		return false
	}
	time.Sleep(2 * time.Millisecond)
	mu.Lock()
	defer mu.Unlock()
	ok := true
	for i, v := range vals {
		if !accepted[i] {
			continue
		}
		r.Count("errvals:tasks")
		if runs[i] != 1 {
			ok = false
			is := ""
			var en syscall.Errno
			if errors.As(v.err, &en) {
				is = fmt.Sprintf(" (errors.As finds syscall.Errno %d)", int(en))
			}
			r.Fail(fmt.Sprintf("errvals:ran-%d-times", runs[i]), fmt.Sprintf("%s: the accepted task object whose Run returns [%s]%s was run %d times, want exactly once", cfg, v.name, is, runs[i]), narrowed(v.name))
			break
		}
	}
	if ok && c.W <= 1 {
		for i := range seq {
			if seq[i] != i {
				r.Fail("errvals:order", fmt.Sprintf("%s: the %d-th run was of submission %d [%s]; one worker runs in submission order, each once", cfg, i, seq[i], vals[seq[i]].name), c)
				ok = false
				break
			}
		}
	}
	if ok {
		r.NonTrivial(fmt.Sprintf("errvals/%d/%d/%d", c.W, c.Cap, len(vals)))
	}
	return ok
}

func prevName(vals []errValue, i int) string {
	if i == 0 {
		return "(nothing: it is the first)"
	}
	return "[" + vals[i-1].name + "]"
}

func namesUpTo(vals []errValue, i int) []string {
	var out []string
	for j := 0; j <= i && j < len(vals); j++ {
		out = append(out, vals[j].name)
	}
	return out
}

func errValsLeg(r *hxlib.Run, tmo time.Duration) {
	for _, wc := range [][2]int{{1, 4}, {3, 0}, {2, 64}} {
		c := Case{Kind: "errvals", W: wc[0], Cap: wc[1]}
		if !runErrVals(r, c, tmo) {
			return
		}
	}
}

// ---- process environment -----------------------------------------------------------------------------------------------

func envSets() [][]string {
	sets := [][]string{}
	for _, v := range []string{"crash", "all", "system", "single", "none", "0", "1", "2", "wer", "", "CRASH", "crash,all", "all,crash", "bogus", "-1", "99999999999999999999"} {
		sets = append(sets, []string{"GOTRACEBACK=" + v})
	}
	for _, v := range []string{"", "panicnil=1", "tracebackancestors=10", "asyncpreemptoff=1", "invalidptr=0", "cgocheck=0", "madvdontneed=1",
		"gctrace=0,scavtrace=0", "nosuchsetting=1", "=", ",,,", "panicnil", "tracebackancestors=-1", "dontfreezetheworld=1", "traceback=crash"} {
		sets = append(sets, []string{"GODEBUG=" + v})
	}
	sets = append(sets,
		[]string{"GOMAXPROCS=1"}, []string{"GOMAXPROCS=0"}, []string{"GOMAXPROCS=bogus"}, []string{"GOGC=off"}, []string{"GOGC=1"},
		[]string{"GOMEMLIMIT=64MiB"},
		[]string{"GOTRACEBACK=crash", "GODEBUG=tracebackancestors=10", "GOMAXPROCS=1"},
		[]string{"GOTRACEBACK=system", "GODEBUG=panicnil=1", "GOGC=off"},
		[]string{"GOTRACEBACK=none", "GODEBUG=asyncpreemptoff=1", "GOMAXPROCS=1"},
	)
	return sets
}

type envPanicker struct {
	b     *book
	id    int
	what  string
	depth int
}

func (t *envPanicker) Run() error {
	t.b.enter(t.id)
	t.b.leave(t.id)
	return descend(t.depth, func() error {
		switch t.what {
		case "string":
			panic("boom")
		case "error":
			panic(errors.New("boom"))
		case "runtime":
			var m map[int]int
			m[1] = 1
		case "custom":
			panic(struct{ a, b int }{1, 2})
		}
		return nil
	})
}

// envChild: HX_C18_PROBE=env. Progress lines on stdout; the parent judges.
func envChild() {
	var zero = syscall.Rlimit{}
	syscall.Setrlimit(syscall.RLIMIT_CORE, &zero)
	log.SetOutput(io.Discard)
	if null, err := os.OpenFile(os.DevNull, os.O_WRONLY, 0); err == nil {
		os.Stderr = null
	}
	for _, w := range []int{1, 2} {
		ex := sched.NewThreadPoolExecutor(w, 4)
		b := newBook()
		id := 0
		for _, p := range []struct {
			what  string
			depth int
		}{{"string", 0}, {"error", 0}, {"runtime", 0}, {"custom", 0}, {"string", 40}} {
			fmt.Printf("ENV w=%d %s/%d begin\n", w, p.what, p.depth)
			pt := &envPanicker{b: b, id: id, what: p.what, depth: p.depth}
			lt := &valTask{b: b, id: id + 1, v: noValue}
			lt2 := &valTask{b: b, id: id + 2, v: noValue}
			id += 3
			if ex.Execute(pt) != nil || ex.Execute(lt) != nil || ex.Execute(lt2) != nil {
				fmt.Printf("ENV w=%d %s/%d refused\n", w, p.what, p.depth)
				return
			}
			if !b.waitFor(5*time.Second, func(s snap) bool {
				return s.runs[pt.id] == 1 && s.runs[lt.id] == 1 && s.runs[lt2.id] == 1 && len(s.running) == 0
			}) {
				fmt.Printf("ENV w=%d %s/%d stall\n", w, p.what, p.depth)
				return
			}
			fmt.Printf("ENV w=%d %s/%d ok\n", w, p.what, p.depth)
		}
		done := make(chan struct{})
		go func() { ex.(shutdowner).Shutdown(); close(done) }()
		select {
		case <-done:
		case <-time.After(5 * time.Second):
			fmt.Println("ENV-SHUTDOWN-HANG")
			return
		}
	}
	fmt.Println("ENV-DONE")
}

// withEnv: the parent's environment without the variables that `set` defines, plus `set`.
func withEnv(set []string) []string {
	drop := map[string]bool{"HX_C18_PROBE": true}
	for _, kv := range set {
		drop[strings.SplitN(kv, "=", 2)[0]] = true
	}
	var env []string
	for _, kv := range os.Environ() {
		if !drop[strings.SplitN(kv, "=", 2)[0]] {
			env = append(env, kv)
		}
	}
	return append(append(env, set...), "HX_C18_PROBE=env")
}

type envResult struct {
	set  []string
	out  string
	err  error
	skip bool
}

func runEnvChild(self string, set []string) envResult {
	ctx, cancel := context.WithTimeout(context.Background(), 60*time.Second)
	defer cancel()
	cmd := exec.CommandContext(ctx, self)
	cmd.Env = withEnv(set)
	cmd.Dir = os.TempDir()
	out, err := cmd.CombinedOutput()
	return envResult{set: set, out: string(out), err: err}
}

func judgeEnv(r *hxlib.Run, res envResult) bool {
	c := Case{Kind: "probe-env", W: 2, Cap: 4, Env: res.set}
	env := strings.Join(res.set, " ")
	r.Case()
	r.Count("probe-env:children")
	s := res.out
	if strings.Contains(s, "ENV-DONE") && res.err == nil {
		r.Count("probe-env:survived")
		r.NonTrivial("env/" + env)
		return true
	}
	// where did it stop?
	at := "before the first task"
	st := ""
	for _, line := range strings.Split(s, "\n") {
		f := strings.Fields(line)
		if len(f) == 4 && f[0] == "ENV" {
			at = f[1] + " panic kind " + f[2]
			st = f[3]
		}
	}
	switch {
	case strings.Contains(s, "ENV-SHUTDOWN-HANG"):
		r.Fail("env:shutdown-hang", fmt.Sprintf("process started with %s: after panicking tasks Shutdown did not return within 5 s", env), c)
	case st == "stall" || st == "refused":
		r.Fail("env:stall-after-panicking-task", fmt.Sprintf("process started with %s: after a panicking task (%s) the later tasks were not run within 5 s (%s)", env, at, st), c)
	case st == "begin":
		r.Fail("env:worker-killed-by-panic", fmt.Sprintf("process started with %s: a panicking task (%s) took the worker and the whole process down (child: %v): …%s", env, at, res.err, tailOf(s, 300)), c)
	default:
		if !strings.Contains(s, "ENV ") && res.err != nil && !strings.Contains(s, "goroutine ") {
			// the runtime refused the setting before main ran: not a statement about the executor
			r.Count("probe-env:child-did-not-start")
			r.Note("probe-env: child with %s did not start (%v): %s", env, res.err, tailOf(strings.TrimSpace(s), 120))
			return true
		}
		r.Fail("env:child-ended-early", fmt.Sprintf("process started with %s: the child ended early at %s (%v): …%s", env, at, res.err, tailOf(s, 300)), c)
	}
	return false
}

func probeEnv(r *hxlib.Run, only []string) {
	self, err := os.Executable()
	if err != nil {
		r.Note("environment probe skipped: %v", err)
		return
	}
	sets := envSets()
	if only != nil {
		sets = [][]string{only}
	}
	results := make([]envResult, len(sets))
	sem := make(chan struct{}, 6)
	var wg sync.WaitGroup
	for i := range sets {
		wg.Add(1)
		sem <- struct{}{}
		go func(i int) {
			defer wg.Done()
			defer func() { <-sem }()
			results[i] = runEnvChild(self, sets[i])
		}(i)
	}
	wg.Wait()
	bad := 0
	keys := make([]int, len(results))
	for i := range keys {
		keys[i] = i
	}
	sort.Ints(keys)
	for _, i := range keys {
		if !judgeEnv(r, results[i]) {
			bad++
			if bad >= 3 {
				return
			}
		}
	}
}
