package main

import (
	"fmt"
	"strconv"
	"strings"
	"time"

	"verifharness/hxlib"

	"qchen.fun/fatchoy/sched"
)

// Case is what a replay file holds.
type Case struct {
	Kind string   `json:"kind"` // "det" (forced schedule, compared with the model) | "stress" | "probe"
	W    int      `json:"workers"`
	Cap  int      `json:"cap"`
	Ops  []string `json:"ops,omitempty"`
	// stress
	N         int      `json:"tasks,omitempty"`
	G         int      `json:"submitters,omitempty"`
	Kinds     []string `json:"kinds,omitempty"`
	ShutAfter int      `json:"shutdown_after,omitempty"` // Shutdown is called once this many Execute calls returned (<=0: after all)
	Reps      int      `json:"reps,omitempty"`
	// failing-input search: every StallEvery-th task holds its worker for StallMs ms
	StallMs    int `json:"stall_ms,omitempty"`
	StallEvery int `json:"stall_every,omitempty"`
	// every-tier legs of diversity.go: kind "reuse" | "nest" | "sizes"
	Reuse *reuseCase `json:"reuse,omitempty"`
	Nest  *nestCase  `json:"nest,omitempty"`
	Sizes string     `json:"sizes,omitempty"` // pool | async
	// legs4.go: kind "errvals" (Errs restricts the error values; empty = all) | "probe-env" (Env = the child's variables)
	Errs []string `json:"errs,omitempty"`
	Env  []string `json:"env,omitempty"`
}

type fail struct{ key, what string }

// det is one forced-schedule run on a fresh executor. Every task is gated: it starts when a worker
// takes it and ends when the harness says so (with the kind the harness chooses), so the observable
// state after each op is a function of the op list.
type det struct {
	w, cap   int // as given (w may be <= 0); wn = effective number of workers
	wn       int
	ex       sched.Executor
	b        *book
	gates    map[int]chan string
	open     string           // "" = gated; otherwise every task ends at once with this kind
	calls    map[int]*pending // Execute calls by task id
	accepted []int            // ids in the order Execute returned nil (sync) — submission order
	acc      map[int]bool
	rejected map[int]bool
	shut     *pending // the Shutdown call, if any
	shutEff  bool     // a Shutdown was issued after the executor had been started
	shutRet  bool     // ... and has returned
	started  bool     // some Execute returned ok
	inflight int      // submitted (accepted or blocked) and not yet finished
	failedK  bool     // a task already ended with err/panic
	lines    [][2]string
	fails    []fail
	hung     bool
	tmo      time.Duration
	base     map[string]bool // goroutines of other executors, alive when this one was made (quiet.go)
}

func newDet(w, cap int, tmo time.Duration) *det {
	d := &det{w: w, cap: cap, wn: w, b: newBook(), gates: map[int]chan string{}, calls: map[int]*pending{},
		acc: map[int]bool{}, rejected: map[int]bool{}, tmo: tmo}
	if d.wn <= 0 {
		d.wn = 1
	}
	return d
}

func (d *det) failf(key, format string, a ...interface{}) {
	d.fails = append(d.fails, fail{key, fmt.Sprintf(format, a...)})
}

func (d *det) task(id int) *gated {
	if d.open != "" {
		return &gated{id: id, b: d.b, kind: d.open}
	}
	g := make(chan string, 1)
	d.gates[id] = g
	return &gated{id: id, b: d.b, gate: g}
}

// expected number of running tasks once the pool has settled (plain arithmetic, no model)
func (d *det) expRunning() int {
	if d.open != "" {
		return 0
	}
	if d.inflight < d.wn {
		return d.inflight
	}
	return d.wn
}

func (d *det) settle() bool {
	want := d.expRunning()
	if d.open != "" {
		return d.b.waitFor(d.tmo, func(s snap) bool { return len(s.running) == 0 && len(s.finished) >= len(d.accepted) })
	}
	return d.b.waitFor(d.tmo, func(s snap) bool { return len(s.running) == want })
}

func (d *det) outcome(id int, res string) {
	switch {
	case res == "ok":
		d.accepted = append(d.accepted, id)
		d.acc[id] = true
		d.started = true
	case res == "hang":
	default:
		d.rejected[id] = true
		d.inflight--
	}
	if strings.HasPrefix(res, "panic") {
		d.failf(res+":execute", "Execute(task %d) panicked (%s)", id, res)
	}
	if res == "ok" && d.shutRet {
		d.failf("accepted-after-shutdown", "Execute(task %d) returned nil after Shutdown had returned", id)
	}
}

func kvInt(ws []string, key string) (int, bool) {
	for _, w := range ws {
		if strings.HasPrefix(w, key+"=") {
			v, err := strconv.Atoi(w[len(key)+1:])
			return v, err == nil
		}
	}
	return 0, false
}

func kvStr(ws []string, key string) string {
	for _, w := range ws {
		if strings.HasPrefix(w, key+"=") {
			return w[len(key)+1:]
		}
	}
	return ""
}

// do executes one op line on the real executor and returns the canonical answer.
func (d *det) do(op string) string {
	ws := strings.Fields(op)
	if len(ws) == 0 {
		return "bad-op"
	}
	switch ws[0] {
	case "new":
		d.base = poolBaseline()
		if p := hxlib.Guard(func() { d.ex = sched.NewThreadPoolExecutor(d.w, d.cap) }); p != "" {
			return "panic"
		}
		return "ok"
	case "exec", "spawn":
		id, ok := kvInt(ws, "t")
		if !ok || d.ex == nil || d.calls[id] != nil {
			return "bad-op"
		}
		room := d.inflight < d.wn+d.cap
		t := d.task(id)
		d.inflight++
		c := goCall(func() error { return d.ex.Execute(t) })
		d.calls[id] = c
		if ws[0] == "spawn" {
			return "-"
		}
		res := c.wait(d.tmo)
		d.outcome(id, res)
		if res == "hang" {
			d.hung = true
			if room && d.shut == nil {
				d.failf("hang:execute-with-room", "Execute(task %d) did not return within %v although the pool (%d workers, capacity %d) held only %d unfinished task(s)", id, d.tmo, d.wn, d.cap, d.inflight-1)
			}
		}
		return res
	case "await":
		id, ok := kvInt(ws, "t")
		if !ok || d.calls[id] == nil {
			return "bad-op"
		}
		if d.acc[id] || d.rejected[id] {
			return d.calls[id].poll()
		}
		res := d.calls[id].wait(d.tmo)
		d.outcome(id, res)
		if res == "hang" {
			d.hung = true
			if d.inflight <= d.wn+d.cap && d.shut == nil {
				d.failf("hang:execute-with-room", "Execute(task %d) still blocked after %v although the queue has room again", id, d.tmo)
			}
		}
		return res
	case "fin":
		id, ok := kvInt(ws, "t")
		k := kvStr(ws, "k")
		if !ok || (k != kOK && k != kErr && k != kPanic) {
			return "bad-op"
		}
		d.settle()
		s := d.b.snap()
		isRunning := false
		for _, x := range s.running {
			isRunning = isRunning || x == id
		}
		if !isRunning || d.gates[id] == nil {
			return "not-running"
		}
		d.gates[id] <- k
		d.inflight--
		if k != kOK {
			d.failedK = true
		}
		if !d.b.waitFor(d.tmo, func(s snap) bool { return !contains(s.running, id) }) {
			d.hung = true
			return "hang"
		}
		return "ok"
	case "openall":
		k := kvStr(ws, "k")
		if k != kOK && k != kErr && k != kPanic {
			return "bad-op"
		}
		d.settle()
		d.open = k
		if k != kOK {
			d.failedK = true
		}
		// running tasks, then every task that starts later while still holding a gate
		for id, g := range d.gates {
			select {
			case g <- k:
			default:
			}
			_ = id
		}
		d.inflight = 0
		return "ok"
	case "obs":
		if !d.settle() {
			s := d.b.snap()
			key := "stall"
			if d.failedK {
				key = "stall:after-failing-task"
			}
			if d.shut != nil {
				key = "stall:during-shutdown"
			}
			if d.open != "" {
				d.failf(key, "with all gates open the pool (%d workers, capacity %d) finished only %d of %d accepted task(s) within %v", d.wn, d.cap, len(s.finished), len(d.accepted), d.tmo)
			} else {
				d.failf(key, "the pool (%d workers, capacity %d) settled with %d task(s) running where %d are due (%d accepted, %d finished)", d.wn, d.cap, len(s.running), d.expRunning(), len(d.accepted), len(s.finished))
			}
		}
		s := d.b.snap()
		st := s.started
		if d.wn != 1 {
			st = sorted(st)
		}
		return fmt.Sprintf("started=%s running=%s finished=%s", intsStr(st), intsStr(s.running), intsStr(sorted(s.finished)))
	case "shutdown", "shutdown-async":
		sd, ok := d.ex.(shutdowner)
		if !ok || d.shut != nil && d.shut.poll() == "" {
			return "bad-op"
		}
		eff := d.started && !d.shutEff
		c := goCall(func() error { sd.Shutdown(); return nil })
		d.shut = c
		if eff {
			d.shutEff = true
		}
		if ws[0] == "shutdown-async" {
			return "-"
		}
		return d.awaitShutdown(eff)
	case "quiet":
		if d.ex == nil {
			return "bad-op"
		}
		return d.quiet()
	case "await-shutdown":
		if d.shut == nil {
			return "bad-op"
		}
		return d.awaitShutdown(d.shutEff && !d.shutRet)
	}
	return "bad-op"
}

func contains(v []int, x int) bool {
	for _, y := range v {
		if y == x {
			return true
		}
	}
	return false
}

func (d *det) awaitShutdown(eff bool) string {
	res := d.shut.wait(d.tmo)
	if res == "hang" {
		d.hung = true
		s := d.b.snap()
		if len(s.running) == 0 || d.open != "" {
			d.failf("hang:shutdown", "Shutdown did not return within %v with no gated task running (%d accepted, %d finished)", d.tmo, len(d.accepted), len(s.finished))
		}
		return res
	}
	if strings.HasPrefix(res, "panic") {
		d.failf(res+":shutdown", "Shutdown panicked (%s)", res)
	}
	if eff {
		d.shutRet = true
		d.checkAfterShutdown("when Shutdown returned")
	}
	return res
}

// the property, stated on the book: every accepted task ran once, nothing is running
func (d *det) checkAfterShutdown(when string) {
	s := d.b.snap()
	if len(s.running) != 0 {
		d.failf("running-after-shutdown", "%s task(s) %v were still running", when, s.running)
	}
	var lost []int
	for _, id := range d.accepted {
		if s.runs[id] == 0 {
			lost = append(lost, id)
		}
	}
	if len(lost) > 0 {
		d.failf("lost-at-shutdown", "%s %d of %d accepted task(s) had never been run (%d workers, capacity %d): %v", when, len(lost), len(d.accepted), d.wn, d.cap, lost)
	}
}

// end-of-run checks that hold at any time
func (d *det) checkAlways() {
	s := d.b.snap()
	for id, n := range s.runs {
		if n > 1 {
			d.failf("ran-twice", "task %d was run %d times", id, n)
		}
		if !d.acc[id] && d.calls[id] != nil && d.calls[id].poll() != "" {
			d.failf("ran-unaccepted", "task %d was run although Execute did not return nil", id)
		}
	}
	if d.wn == 1 {
		// started must be a prefix of the submission order
		for i, id := range s.started {
			if i < len(d.accepted) && d.accepted[i] != id {
				d.failf("fifo", "single worker started %v, submission order %v", s.started, d.accepted)
				break
			}
		}
	}
}
