package main

import (
	"fmt"
	"hash/fnv"
	"runtime"
	"strings"
	"sync"
	"sync/atomic"
	"time"

	"verifharness/hxlib"

	"qchen.fun/fatchoy/sched"
)

type free struct {
	id    int
	b     *book
	kind  string
	stall time.Duration
}

func (t *free) Run() error {
	t.b.enter(t.id)
	if t.id%7 == 0 {
		runtime.Gosched()
	}
	if t.stall > 0 {
		time.Sleep(t.stall) // failing-input search: a task that holds its worker for 10..50 ms
	}
	t.b.leave(t.id)
	switch t.kind {
	case kErr:
		return errTask
	case kPanic:
		panic(fmt.Sprintf("task %d panics on purpose", t.id))
	}
	return nil
}

// stressOnce: G goroutines submit N tasks, Shutdown is called once ShutAfter calls were accepted
// (or after all of them); then the property is evaluated on the book.
func stressOnce(c Case, tmo time.Duration) (fails []fail, hung bool) {
	failf := func(key, format string, a ...interface{}) { fails = append(fails, fail{key, fmt.Sprintf(format, a...)}) }
	baseline := runtime.NumGoroutine()
	ex := sched.NewThreadPoolExecutor(c.W, c.Cap)
	sd := ex.(shutdowner)
	b := newBook()
	g := c.G
	if g < 1 {
		g = 1
	}
	var mu sync.Mutex
	out := make([]string, c.N) // "" = Execute has not returned
	var okCount int32
	trigger := make(chan struct{})
	var once sync.Once
	var wg sync.WaitGroup
	for k := 0; k < g; k++ {
		wg.Add(1)
		go func(k int) {
			defer wg.Done()
			for id := k; id < c.N; id += g {
				kind := kOK
				if id < len(c.Kinds) {
					kind = c.Kinds[id]
				}
				t := &free{id: id, b: b, kind: kind}
				if c.StallMs > 0 && c.StallEvery > 0 && id%c.StallEvery == 0 {
					t.stall = time.Duration(c.StallMs) * time.Millisecond
				}
				var err error
				res := "ok"
				if p := hxlib.Guard(func() { err = ex.Execute(t) }); p != "" {
					res = classify(p)
				} else if err != nil {
					res = "err"
				}
				mu.Lock()
				out[id] = res
				mu.Unlock()
				if res == "ok" && c.ShutAfter > 0 && int(atomic.AddInt32(&okCount, 1)) >= c.ShutAfter {
					once.Do(func() { close(trigger) })
				}
			}
		}(k)
	}
	subsDone := make(chan struct{})
	go func() { wg.Wait(); close(subsDone) }()
	type shutInfo struct {
		res string
		at  snap
	}
	shutCh := make(chan shutInfo, 1)
	var shutCalled int32
	subsDone2 := subsDone
	go func() {
		select {
		case <-trigger:
		case <-subsDone2:
		}
		atomic.StoreInt32(&shutCalled, 1)
		res := "ok"
		if p := hxlib.Guard(func() { sd.Shutdown() }); p != "" {
			res = classify(p)
		}
		shutCh <- shutInfo{res, b.snap()}
	}()
	deadline := time.After(tmo)
	var si *shutInfo
	subs := false
	for si == nil || !subs {
		select {
		case x := <-shutCh:
			si = &x
		case <-subsDone:
			subs = true
			subsDone = nil
		case <-deadline:
			mu.Lock()
			stuck := 0
			for _, o := range out {
				if o == "" {
					stuck++
				}
			}
			mu.Unlock()
			if stuck > 0 {
				failf("hang:execute", "%d of %d Execute call(s) had not returned after %v (%d workers, capacity %d, %d submitters, Shutdown returned: %v)", stuck, c.N, tmo, c.W, c.Cap, g, si != nil)
			}
			if si == nil && atomic.LoadInt32(&shutCalled) == 1 {
				failf("hang:shutdown", "Shutdown had not returned after %v (%d workers, capacity %d, %d tasks)", tmo, c.W, c.Cap, c.N)
			}
			return fails, true
		}
	}
	// ---- the property on the book ----
	if strings.HasPrefix(si.res, "panic") {
		failf(si.res+":shutdown", "Shutdown panicked (%s)", si.res)
	}
	accepted := map[int]bool{}
	nacc := 0
	for id, o := range out {
		switch {
		case o == "ok":
			accepted[id] = true
			nacc++
		case strings.HasPrefix(o, "panic"):
			failf(o+":execute", "Execute(task %d) panicked (%s) with Shutdown called after %d accepted call(s) (%d workers, capacity %d, %d submitters)", id, o, c.ShutAfter, c.W, c.Cap, g)
		}
	}
	effective := nacc > 0 // Shutdown was called after a call had been accepted, i.e. on a started executor
	if effective {
		if len(si.at.running) > 0 {
			failf("running-after-shutdown", "task(s) %v were running when Shutdown returned", si.at.running)
		}
		var lost []int
		for id := range out {
			if accepted[id] && si.at.runs[id] == 0 {
				lost = append(lost, id)
			}
		}
		if len(lost) > 0 {
			show := lost
			if len(show) > 12 {
				show = show[:12]
			}
			failf("lost-at-shutdown", "%d of %d accepted task(s) had not been run when Shutdown returned (%d workers, capacity %d, %d submitters, Shutdown after %d accepted): %v", len(lost), nacc, c.W, c.Cap, g, c.ShutAfter, show)
		}
	}
	time.Sleep(200 * time.Microsecond)
	fin := b.snap()
	if effective && len(fin.started) != len(si.at.started) {
		failf("started-after-shutdown", "%d task(s) were started after Shutdown had returned", len(fin.started)-len(si.at.started))
	}
	for id, n := range fin.runs {
		if n > 1 {
			failf("ran-twice", "task %d was run %d times", id, n)
		}
		if !accepted[id] {
			failf("ran-unaccepted", "task %d was run although Execute returned %q", id, out[id])
		}
	}
	if c.W <= 1 {
		last := make([]int, g)
		for i := range last {
			last[i] = -1
		}
		for _, id := range fin.started {
			if id < last[id%g] {
				failf("fifo", "single worker started task %d after task %d of the same submitter", id, last[id%g])
				break
			}
			last[id%g] = id
		}
	}
	// all workers have exited: the goroutine count returns to what it was before the executor existed
	ok := false
	for end := time.Now().Add(tmo); ; {
		if runtime.NumGoroutine() <= baseline {
			ok = true
			break
		}
		if time.Now().After(end) {
			break
		}
		time.Sleep(time.Millisecond)
	}
	if !ok && effective {
		failf("workers-alive-after-shutdown", "%d goroutine(s) more than before the executor was created are still alive %v after Shutdown returned (%d workers)", runtime.NumGoroutine()-baseline, tmo, c.W)
	}
	return fails, false
}

func runStress(r *hxlib.Run, c Case, tmo time.Duration) int {
	reps := c.Reps
	if reps < 1 {
		reps = 1
	}
	if r.Replay != "" && reps < 30 {
		reps = 30 // a free-running case is not deterministic: repeat it
	}
	any, pts := false, 0
	for i := 0; i < reps && !any; i++ {
		fails, hung := stressOnce(c, tmo)
		pts = cost(len(fails) > 0, hung)
		if hung {
			r.Count("stress:hang-first-run")
			f2, h2 := stressOnce(c, 2*tmo)
			if !h2 {
				r.Count("stress:hang-not-reproduced")
				r.Note("a free-running case hung once and passed when repeated with a doubled deadline (not reported)")
			}
			fails = f2
		}
		r.Case()
		r.Count("stress:runs")
		r.CountN("stress:tasks", c.N)
		h := fnv.New32a()
		bad := false
		for _, k := range c.Kinds {
			h.Write([]byte(k))
			bad = bad || k != kOK
		}
		if bad {
			r.Count("stress:with-failing-or-panicking-tasks")
		}
		if c.ShutAfter > 0 && c.ShutAfter < c.N {
			r.Count("stress:shutdown-racing-submitters")
		}
		if bad || (c.ShutAfter > 0 && c.ShutAfter < c.N) {
			r.NonTrivial(fmt.Sprintf("stress/%d/%d/%d/%d/%d/%x", c.W, c.Cap, c.N, c.G, c.ShutAfter, h.Sum32()))
		}
		for _, f := range fails {
			r.Fail(f.key, f.what, c)
			any = true
		}
	}
	return pts
}
