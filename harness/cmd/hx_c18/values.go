package main

// Awkward panic values and error values (child process). The property says a panicking or failing task neither
// kills its worker nor keeps later tasks from running — whatever it panics with or returns. A panic raised while
// the recovered value is being reported escapes the worker's recovery and takes the whole process down, so these
// tasks run in a child process; the parent reads its progress lines.

import (
	"errors"
	"fmt"
	"io"
	"log"
	"os"
	"os/exec"
	"strings"
	"time"

	"verifharness/hxlib"

	"qchen.fun/fatchoy/sched"
)

type errPanicsInError struct{}

func (errPanicsInError) Error() string { panic("Error() of the panic value panics") }

type strPanics struct{}

func (strPanics) String() string { panic("String() of the panic value panics") }

type goStrPanics struct{}

func (goStrPanics) GoString() string { panic("GoString() of the panic value panics") }

type fmtPanics struct{}

func (fmtPanics) Format(f fmt.State, c rune) { panic("Format() of the panic value panics") }

type errNilDeref struct{ p *int }

func (e *errNilDeref) Error() string { return fmt.Sprint(*e.p) } // nil receiver or nil field: runtime error inside Error()

type multiErr struct{ errs []error }

func (m multiErr) Error() string   { return "several errors" }
func (m multiErr) Unwrap() []error { return m.errs }

type selfRef struct {
	Name string
	Next *selfRef
	M    map[string]interface{}
}

type awkward struct {
	name  string
	make  func() interface{}
	depth int // the panic is raised (the error is returned from) this many frames below the task's Run
}

// descend calls f `n` frames further down (never inlined: the frames are real).
//
//go:noinline
func descend(n int, f func() error) error {
	if n <= 0 {
		return f()
	}
	err := descend(n-1, f)
	return err // (not a tail call)
}

func runtimeErr(f func()) interface{} {
	var v interface{}
	func() {
		defer func() { v = recover() }()
		f()
	}()
	return v
}

func awkwardValues() []awkward {
	var nilPath *os.PathError
	return []awkward{
		{name: "a plain string", make: func() interface{} { return "boom" }},
		{name: "a plain string, 22 frames below Run", make: func() interface{} { return "boom" }, depth: 22},
		{name: "a plain string, 40 frames below Run", make: func() interface{} { return "boom" }, depth: 40},
		{name: "an error, 200 frames below Run", make: func() interface{} { return errors.New("deep") }, depth: 200},
		{name: "a runtime.Error (nil map write), 2000 frames below Run", make: func() interface{} { return runtimeErr(func() { var m map[int]int; m[1] = 1 }) }, depth: 2000},
		{name: "a chain of 20 wrapped errors, 31 frames below Run", make: func() interface{} {
			err := errors.New("root")
			for i := 0; i < 20; i++ {
				err = fmt.Errorf("l%d: %w", i, err)
			}
			return err
		}, depth: 31},
		{name: "an error wrapping a typed-nil *os.PathError (the cause's Error() panics)", make: func() interface{} { return fmt.Errorf("open config: %w", nilPath) }},
		{name: "a doubly wrapped typed-nil *os.PathError", make: func() interface{} { return fmt.Errorf("start: %w", fmt.Errorf("open config: %w", nilPath)) }},
		{name: "a typed-nil *os.PathError in an error interface", make: func() interface{} { return error(nilPath) }},
		{name: "an error whose Error() panics", make: func() interface{} { return errPanicsInError{} }},
		{name: "an error wrapping an error whose Error() panics", make: func() interface{} { return &os.PathError{Op: "open", Path: "/x", Err: errPanicsInError{}} }},
		{name: "an error whose Error() dereferences nil", make: func() interface{} { return &errNilDeref{} }},
		{name: "a typed-nil error whose Error() dereferences the receiver", make: func() interface{} { return (*errNilDeref)(nil) }},
		{name: "a Stringer whose String() panics", make: func() interface{} { return strPanics{} }},
		{name: "a GoStringer whose GoString() panics", make: func() interface{} { return goStrPanics{} }},
		{name: "a Formatter whose Format() panics", make: func() interface{} { return fmtPanics{} }},
		{name: "a runtime.Error (nil map write)", make: func() interface{} { return runtimeErr(func() { var m map[int]int; m[1] = 1 }) }},
		{name: "a runtime.Error (index out of range)", make: func() interface{} { return runtimeErr(func() { var s []int; i := 3; _ = s[i] }) }},
		{name: "a runtime.Error (nil dereference)", make: func() interface{} { return runtimeErr(func() { var p *selfRef; _ = p.Name }) }},
		{name: "a runtime.Error (failed type assertion)", make: func() interface{} { return runtimeErr(func() { var x interface{} = 1; _ = x.(string) }) }},
		{name: "nil (panic(nil))", make: func() interface{} { return nil }},
		{name: "a 4 MiB string", make: func() interface{} { return strings.Repeat("x", 4<<20) }},
		{name: "a slice of 10^6 ints", make: func() interface{} { return make([]int, 1000000) }},
		{name: "a chain of 2000 wrapped errors", make: func() interface{} {
			err := errors.New("root")
			for i := 0; i < 2000; i++ {
				err = fmt.Errorf("l%d: %w", i, err)
			}
			return err
		}},
		{name: "an errors.Join tree with a typed-nil leaf", make: func() interface{} {
			return errors.Join(io.EOF, fmt.Errorf("a: %w", errors.Join(os.ErrNotExist, error(nilPath))), errors.New("b"))
		}},
		{name: "a multi-error (Unwrap() []error) with nil and panicking members", make: func() interface{} {
			return multiErr{[]error{nil, errPanicsInError{}, error(nilPath)}}
		}},
		{name: "an error wrapping a multi-error with a panicking member", make: func() interface{} {
			return fmt.Errorf("outer: %w", multiErr{[]error{errPanicsInError{}}})
		}},
		{name: "a self-referential struct pointer", make: func() interface{} {
			s := &selfRef{Name: "s", M: map[string]interface{}{}}
			s.Next = s
			s.M["me"] = s
			return s
		}},
		{name: "a func value", make: func() interface{} { return func() {} }},
		{name: "a channel", make: func() interface{} { return make(chan int) }},
		{name: "an error value that is itself a panicking error wrapped by %w twice over errors.Join", make: func() interface{} {
			return fmt.Errorf("x: %w", errors.Join(fmt.Errorf("y: %w", errPanicsInError{})))
		}},
	}
}

type valTask struct {
	b       *book
	id      int
	v       interface{}
	asPanic bool
	gate    chan struct{}
	depth   int
}

func (t *valTask) Run() error {
	t.b.enter(t.id)
	if t.gate != nil {
		<-t.gate
	}
	t.b.leave(t.id)
	if t.v == noValue {
		return nil
	}
	return descend(t.depth, func() error {
		if t.asPanic {
			panic(t.v)
		}
		if err, ok := t.v.(error); ok {
			return err
		}
		return fmt.Errorf("task failed: %v", "x")
	})
}

var noValue interface{} = &struct{ x int }{1}

// valuesChild: one pool of two workers; for every value a task panics with it and (if it is an error) a task returns
// it; after each, two gated tasks must be running at the same time (both workers are alive), and are finished.
func valuesChild() {
	log.SetOutput(io.Discard)
	if null, err := os.OpenFile(os.DevNull, os.O_WRONLY, 0); err == nil {
		os.Stderr = null
	}
	ex := sched.NewThreadPoolExecutor(2, 4)
	b := newBook()
	id := 0
	alive := func() bool {
		g := make(chan struct{})
		a, c := id, id+1
		id += 2
		if ex.Execute(&valTask{b: b, id: a, v: noValue, gate: g}) != nil || ex.Execute(&valTask{b: b, id: c, v: noValue, gate: g}) != nil {
			return false
		}
		ok := b.waitFor(5*time.Second, func(s snap) bool { return contains(s.running, a) && contains(s.running, c) })
		close(g)
		return ok && b.waitFor(5*time.Second, func(s snap) bool { return len(s.running) == 0 })
	}
	if !alive() {
		fmt.Println("VALUES-INCONCLUSIVE the pool does not run two plain tasks at once")
		return
	}
	for i, a := range awkwardValues() {
		for _, mode := range []string{"panic", "return"} {
			v := a.make()
			if _, isErr := v.(error); mode == "return" && !isErr {
				continue
			}
			fmt.Printf("VALUE %d %s begin\n", i, mode)
			t := &valTask{b: b, id: id, v: v, asPanic: mode == "panic", depth: a.depth}
			id++
			if err := ex.Execute(t); err != nil {
				fmt.Printf("VALUE %d %s refused\n", i, mode)
				return
			}
			if !b.waitFor(5*time.Second, func(s snap) bool { return s.runs[t.id] == 1 && !contains(s.running, t.id) }) || !alive() {
				fmt.Printf("VALUE %d %s stall\n", i, mode)
				return
			}
			fmt.Printf("VALUE %d %s ok\n", i, mode)
		}
	}
	done := make(chan struct{})
	go func() { ex.(shutdowner).Shutdown(); close(done) }()
	select {
	case <-done:
		fmt.Println("VALUES-DONE")
	case <-time.After(5 * time.Second):
		fmt.Println("VALUES-SHUTDOWN-HANG")
	}
}

// probeValues runs the child and turns its progress lines into verdicts.
func probeValues(r *hxlib.Run) {
	self, err := os.Executable()
	if err != nil {
		r.Note("panic-value probe skipped: %v", err)
		return
	}
	cmd := exec.Command(self)
	cmd.Env = append(os.Environ(), "HX_C18_PROBE=values")
	out, cerr := cmd.CombinedOutput()
	s := string(out)
	c := Case{Kind: "probe-values", W: 2, Cap: 4}
	vals := awkwardValues()
	if strings.Contains(s, "VALUES-INCONCLUSIVE") {
		r.Count("panic-values:inconclusive")
		return
	}
	begun := map[string]bool{}
	for _, line := range strings.Split(s, "\n") {
		var i int
		var mode, st string
		if n, _ := fmt.Sscanf(line, "VALUE %d %s %s", &i, &mode, &st); n != 3 || i < 0 || i >= len(vals) {
			continue
		}
		what := map[string]string{"panic": "panics with", "return": "returns"}[mode]
		k := fmt.Sprintf("%d/%s", i, mode)
		switch st {
		case "begin":
			begun[k] = true
			r.Case()
		case "ok":
			delete(begun, k)
			r.Count("panic-values:survived:" + mode)
			r.NonTrivial("value/" + k)
		case "stall", "refused":
			delete(begun, k)
			r.Fail("stall:after-awkward-"+mode+"-value", fmt.Sprintf("after a task that %s %s, two later tasks were not both started by the 2 workers within 5 s (%s)", what, vals[i].name, st), c)
		}
	}
	for k := range begun { // begun and never answered: the child died there
		var i int
		var mode string
		fmt.Sscanf(strings.Replace(k, "/", " ", 1), "%d %s", &i, &mode)
		what := map[string]string{"panic": "panics with", "return": "returns"}[mode]
		tail := s
		if len(tail) > 400 {
			tail = tail[len(tail)-400:]
		}
		r.Fail("worker-killed-by-"+mode+"-value", fmt.Sprintf("a task that %s %s took the whole process down (child: %v): …%s", what, vals[i].name, cerr, tail), c)
	}
	if len(begun) == 0 && strings.Contains(s, "VALUES-SHUTDOWN-HANG") {
		r.Fail("hang:shutdown", "after the tasks with awkward panic / error values Shutdown did not return within 5 s", c)
	}
	if len(begun) == 0 && !strings.Contains(s, "VALUES-DONE") && !strings.Contains(s, "VALUES-SHUTDOWN-HANG") && !r.Failed() {
		r.Fail("worker-killed-by-panic-value", fmt.Sprintf("the child process running the awkward values ended early (%v): …%s", cerr, tailOf(s, 300)), c)
	}
}

func tailOf(s string, n int) string {
	if len(s) > n {
		return s[len(s)-n:]
	}
	return s
}
