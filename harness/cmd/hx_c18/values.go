package main

// Awkward panic values and error values (child process). The property says a panicking or failing task neither
// kills its worker nor keeps later tasks from running — whatever it panics with or returns. A panic raised while
// the recovered value is being reported escapes the worker's recovery and takes the whole process down, so these
// tasks run in a child process; the parent reads its progress lines.

import (
	"errors"
	"fmt"
	"io"
	"log"
	"os"
	"os/exec"
	"strings"
	"time"

	"verifharness/hxlib"

	"qchen.fun/fatchoy/sched"
)

type errPanicsInError struct{}

func (errPanicsInError) Error() string { panic("Error() of the panic value panics") }

type strPanics struct{}

func (strPanics) String() string { panic("String() of the panic value panics") }

type goStrPanics struct{}

func (goStrPanics) GoString() string { panic("GoString() of the panic value panics") }

type fmtPanics struct{}

func (fmtPanics) Format(f fmt.State, c rune) { panic("Format() of the panic value panics") }

type errNilDeref struct{ p *int }

func (e *errNilDeref) Error() string { return fmt.Sprint(*e.p) } // nil receiver or nil field: runtime error inside Error()

type multiErr struct{ errs []error }

func (m multiErr) Error() string   { return "several errors" }
func (m multiErr) Unwrap() []error { return m.errs }

type selfRef struct {
	Name string
	Next *selfRef
	M    map[string]interface{}
}

type awkward struct {
	name string
	make func() interface{}
}

func runtimeErr(f func()) interface{} {
	var v interface{}
	func() {
		defer func() { v = recover() }()
		f()
	}()
	return v
}

func awkwardValues() []awkward {
	var nilPath *os.PathError
	return []awkward{
		{"a plain string", func() interface{} { return "boom" }},
		{"an error wrapping a typed-nil *os.PathError (the cause's Error() panics)", func() interface{} { return fmt.Errorf("open config: %w", nilPath) }},
		{"a doubly wrapped typed-nil *os.PathError", func() interface{} { return fmt.Errorf("start: %w", fmt.Errorf("open config: %w", nilPath)) }},
		{"a typed-nil *os.PathError in an error interface", func() interface{} { return error(nilPath) }},
		{"an error whose Error() panics", func() interface{} { return errPanicsInError{} }},
		{"an error wrapping an error whose Error() panics", func() interface{} { return &os.PathError{Op: "open", Path: "/x", Err: errPanicsInError{}} }},
		{"an error whose Error() dereferences nil", func() interface{} { return &errNilDeref{} }},
		{"a typed-nil error whose Error() dereferences the receiver", func() interface{} { return (*errNilDeref)(nil) }},
		{"a Stringer whose String() panics", func() interface{} { return strPanics{} }},
		{"a GoStringer whose GoString() panics", func() interface{} { return goStrPanics{} }},
		{"a Formatter whose Format() panics", func() interface{} { return fmtPanics{} }},
		{"a runtime.Error (nil map write)", func() interface{} { return runtimeErr(func() { var m map[int]int; m[1] = 1 }) }},
		{"a runtime.Error (index out of range)", func() interface{} { return runtimeErr(func() { var s []int; i := 3; _ = s[i] }) }},
		{"a runtime.Error (nil dereference)", func() interface{} { return runtimeErr(func() { var p *selfRef; _ = p.Name }) }},
		{"a runtime.Error (failed type assertion)", func() interface{} { return runtimeErr(func() { var x interface{} = 1; _ = x.(string) }) }},
		{"nil (panic(nil))", func() interface{} { return nil }},
		{"a 4 MiB string", func() interface{} { return strings.Repeat("x", 4<<20) }},
		{"a slice of 10^6 ints", func() interface{} { return make([]int, 1000000) }},
		{"a chain of 2000 wrapped errors", func() interface{} {
			err := errors.New("root")
			for i := 0; i < 2000; i++ {
				err = fmt.Errorf("l%d: %w", i, err)
			}
			return err
		}},
		{"an errors.Join tree with a typed-nil leaf", func() interface{} {
			return errors.Join(io.EOF, fmt.Errorf("a: %w", errors.Join(os.ErrNotExist, error(nilPath))), errors.New("b"))
		}},
		{"a multi-error (Unwrap() []error) with nil and panicking members", func() interface{} {
			return multiErr{[]error{nil, errPanicsInError{}, error(nilPath)}}
		}},
		{"an error wrapping a multi-error with a panicking member", func() interface{} {
			return fmt.Errorf("outer: %w", multiErr{[]error{errPanicsInError{}}})
		}},
		{"a self-referential struct pointer", func() interface{} {
			s := &selfRef{Name: "s", M: map[string]interface{}{}}
			s.Next = s
			s.M["me"] = s
			return s
		}},
		{"a func value", func() interface{} { return func() {} }},
		{"a channel", func() interface{} { return make(chan int) }},
		{"an error value that is itself a panicking error wrapped by %w twice over errors.Join", func() interface{} {
			return fmt.Errorf("x: %w", errors.Join(fmt.Errorf("y: %w", errPanicsInError{})))
		}},
	}
}

type valTask struct {
	b       *book
	id      int
	v       interface{}
	asPanic bool
	gate    chan struct{}
}

func (t *valTask) Run() error {
	t.b.enter(t.id)
	if t.gate != nil {
		<-t.gate
	}
	t.b.leave(t.id)
	if t.v == noValue {
		return nil
	}
	if t.asPanic {
		panic(t.v)
	}
	if err, ok := t.v.(error); ok {
		return err
	}
	return fmt.Errorf("task failed: %v", "x")
}

var noValue interface{} = &struct{ x int }{1}

// valuesChild: one pool of two workers; for every value a task panics with it and (if it is an error) a task returns
// it; after each, two gated tasks must be running at the same time (both workers are alive), and are finished.
func valuesChild() {
	log.SetOutput(io.Discard)
	if null, err := os.OpenFile(os.DevNull, os.O_WRONLY, 0); err == nil {
		os.Stderr = null
	}
	ex := sched.NewThreadPoolExecutor(2, 4)
	b := newBook()
	id := 0
	alive := func() bool {
		g := make(chan struct{})
		a, c := id, id+1
		id += 2
		if ex.Execute(&valTask{b: b, id: a, v: noValue, gate: g}) != nil || ex.Execute(&valTask{b: b, id: c, v: noValue, gate: g}) != nil {
			return false
		}
		ok := b.waitFor(5*time.Second, func(s snap) bool { return contains(s.running, a) && contains(s.running, c) })
		close(g)
		return ok && b.waitFor(5*time.Second, func(s snap) bool { return len(s.running) == 0 })
	}
	if !alive() {
		fmt.Println("VALUES-INCONCLUSIVE the pool does not run two plain tasks at once")
		return
	}
	for i, a := range awkwardValues() {
		for _, mode := range []string{"panic", "return"} {
			v := a.make()
			if _, isErr := v.(error); mode == "return" && !isErr {
				continue
			}
			fmt.Printf("VALUE %d %s begin\n", i, mode)
			t := &valTask{b: b, id: id, v: v, asPanic: mode == "panic"}
			id++
			if err := ex.Execute(t); err != nil {
				fmt.Printf("VALUE %d %s refused\n", i, mode)
				return
			}
			if !b.waitFor(5*time.Second, func(s snap) bool { return s.runs[t.id] == 1 && !contains(s.running, t.id) }) || !alive() {
				fmt.Printf("VALUE %d %s stall\n", i, mode)
				return
			}
			fmt.Printf("VALUE %d %s ok\n", i, mode)
		}
	}
	done := make(chan struct{})
	go func() { ex.(shutdowner).Shutdown(); close(done) }()
	select {
	case <-done:
		fmt.Println("VALUES-DONE")
	case <-time.After(5 * time.Second):
		fmt.Println("VALUES-SHUTDOWN-HANG")
	}
}

// probeValues runs the child and turns its progress lines into verdicts.
func probeValues(r *hxlib.Run) {
	self, err := os.Executable()
	if err != nil {
		r.Note("panic-value probe skipped: %v", err)
		return
	}
	cmd := exec.Command(self)
	cmd.Env = append(os.Environ(), "HX_C18_PROBE=values")
	out, cerr := cmd.CombinedOutput()
	s := string(out)
	c := Case{Kind: "probe-values", W: 2, Cap: 4}
	vals := awkwardValues()
	if strings.Contains(s, "VALUES-INCONCLUSIVE") {
		r.Count("panic-values:inconclusive")
		return
	}
	begun := map[string]bool{}
	for _, line := range strings.Split(s, "\n") {
		var i int
		var mode, st string
		if n, _ := fmt.Sscanf(line, "VALUE %d %s %s", &i, &mode, &st); n != 3 || i < 0 || i >= len(vals) {
			continue
		}
		what := map[string]string{"panic": "panics with", "return": "returns"}[mode]
		k := fmt.Sprintf("%d/%s", i, mode)
		switch st {
		case "begin":
			begun[k] = true
			r.Case()
		case "ok":
			delete(begun, k)
			r.Count("panic-values:survived:" + mode)
			r.NonTrivial("value/" + k)
		case "stall", "refused":
			delete(begun, k)
			r.Fail("stall:after-awkward-"+mode+"-value", fmt.Sprintf("after a task that %s %s, two later tasks were not both started by the 2 workers within 5 s (%s)", what, vals[i].name, st), c)
		}
	}
	for k := range begun { // begun and never answered: the child died there
		var i int
		var mode string
		fmt.Sscanf(strings.Replace(k, "/", " ", 1), "%d %s", &i, &mode)
		what := map[string]string{"panic": "panics with", "return": "returns"}[mode]
		tail := s
		if len(tail) > 400 {
			tail = tail[len(tail)-400:]
		}
		r.Fail("worker-killed-by-"+mode+"-value", fmt.Sprintf("a task that %s %s took the whole process down (child: %v): …%s", what, vals[i].name, cerr, tail), c)
	}
	if len(begun) == 0 && strings.Contains(s, "VALUES-SHUTDOWN-HANG") {
		r.Fail("hang:shutdown", "after the tasks with awkward panic / error values Shutdown did not return within 5 s", c)
	}
	if len(begun) == 0 && !strings.Contains(s, "VALUES-DONE") && !strings.Contains(s, "VALUES-SHUTDOWN-HANG") && !r.Failed() {
		r.Fail("worker-killed-by-panic-value", fmt.Sprintf("the child process running the awkward values ended early (%v): …%s", cerr, tailOf(s, 300)), c)
	}
}

func tailOf(s string, n int) string {
	if len(s) > n {
		return s[len(s)-n:]
	}
	return s
}
