package main

import (
	"errors"
	"fmt"
	"sort"
	"strings"
	"sync"
	"time"

	"verifharness/hxlib"

	"qchen.fun/fatchoy/sched"
)

// shutdowner is what the pool offers besides sched.Executor.
type shutdowner interface{ Shutdown() }

// kinds a task can end with
const (
	kOK    = "ok"
	kErr   = "err"
	kPanic = "panic"
)

var errTask = errors.New("task failed on purpose")

// book is the observation log of one executor instance: what the submitted tasks did.
type book struct {
	mu       sync.Mutex
	runs     map[int]int // task id -> number of times Run was entered
	started  []int       // ids in the order Run was entered
	finished []int       // ids in the order Run was left
	running  map[int]bool
	ch       chan struct{} // poked on every change
}

func newBook() *book {
	return &book{runs: map[int]int{}, running: map[int]bool{}, ch: make(chan struct{}, 1)}
}

func (b *book) poke() {
	select {
	case b.ch <- struct{}{}:
	default:
	}
}

func (b *book) enter(id int) {
	b.mu.Lock()
	b.runs[id]++
	b.started = append(b.started, id)
	b.running[id] = true
	b.mu.Unlock()
	b.poke()
}

func (b *book) leave(id int) {
	b.mu.Lock()
	b.finished = append(b.finished, id)
	delete(b.running, id)
	b.mu.Unlock()
	b.poke()
}

type snap struct {
	started, finished, running []int
	runs                       map[int]int
}

func (b *book) snap() snap {
	b.mu.Lock()
	defer b.mu.Unlock()
	s := snap{started: append([]int{}, b.started...), finished: append([]int{}, b.finished...), runs: map[int]int{}}
	for k := range b.running {
		s.running = append(s.running, k)
	}
	sort.Ints(s.running)
	for k, v := range b.runs {
		s.runs[k] = v
	}
	return s
}

// waitFor polls cond (a monotone condition on the book) until it holds or the deadline passes.
func (b *book) waitFor(d time.Duration, cond func(s snap) bool) bool {
	deadline := time.Now().Add(d)
	for {
		if cond(b.snap()) {
			return true
		}
		left := time.Until(deadline)
		if left <= 0 {
			return false
		}
		if left > 20*time.Millisecond {
			left = 20 * time.Millisecond
		}
		select {
		case <-b.ch:
		case <-time.After(left):
		}
	}
}

// gated is a task that records itself and ends the way its gate tells it to.
type gated struct {
	id   int
	b    *book
	gate chan string // receives the kind to end with; nil = end with `kind` at once
	kind string
}

func (t *gated) Run() error {
	t.b.enter(t.id)
	k := t.kind
	if t.gate != nil {
		k = <-t.gate
	}
	t.b.leave(t.id)
	switch k {
	case kErr:
		return errTask
	case kPanic:
		panic(fmt.Sprintf("task %d panics on purpose", t.id))
	}
	return nil
}

// call runs f in its own goroutine under a watchdog. Outcome: "ok", "err", "panic:<class>", "hang".
type pending struct {
	done chan string
}

func classify(p string) string {
	switch {
	case strings.Contains(p, "send on closed channel"):
		return "panic:send-on-closed"
	case strings.Contains(p, "close of closed channel"):
		return "panic:close-of-closed"
	case strings.Contains(p, "invalid executor state"):
		return "panic:state"
	case strings.Contains(p, "negative WaitGroup"):
		return "panic:waitgroup"
	}
	return "panic:other"
}

func goCall(f func() error) *pending {
	p := &pending{done: make(chan string, 1)}
	go func() {
		var err error
		if pv := hxlib.Guard(func() { err = f() }); pv != "" {
			p.done <- classify(pv)
			return
		}
		if err != nil {
			if errors.Is(err, sched.ErrExecutorNotRunning) {
				p.done <- "err"
			} else {
				p.done <- "err:other"
			}
			return
		}
		p.done <- "ok"
	}()
	return p
}

func (p *pending) wait(d time.Duration) string {
	select {
	case r := <-p.done:
		p.done <- r // keep it for a later wait
		return r
	case <-time.After(d):
		return "hang"
	}
}

// poll returns the outcome if the call has returned, "" otherwise.
func (p *pending) poll() string {
	select {
	case r := <-p.done:
		p.done <- r
		return r
	default:
		return ""
	}
}

func intsStr(v []int) string {
	if len(v) == 0 {
		return "-"
	}
	s := make([]string, len(v))
	for i, x := range v {
		s[i] = fmt.Sprint(x)
	}
	return strings.Join(s, ",")
}

func sorted(v []int) []int {
	w := append([]int{}, v...)
	sort.Ints(w)
	return w
}
