package main

// Legs over dimensions the ordinary generators do not vary. They run in EVERY tier (a change that edits only function
// bodies never triggers -search) and are oracle-only (the Lean LTS knows tasks by id, not by object).
//
//	reuse     (shared objects)     ONE task object submitted again and again — after a run that succeeded, failed or
//	                               PANICKED, and twice in a row (two queue entries of one object) — as a *sched.Task
//	                               (which carries a state word), a plain pointer type, a func type and an uncomparable
//	                               struct value; nil and typed-nil Runnables in between; errors wrapped 20 deep. Every
//	                               accepted submission must run the action once more: runs == Execute calls that
//	                               returned nil, per object, judged behind a fence task (single worker) or by count
//	nest      (re-entrancy)        tasks that submit tasks to the same executor from inside Run (fan-out 1..4, two
//	                               levels, fresh and shared child objects), with Shutdown after everything ran or
//	                               racing the nested submissions: every accepted task once, none after Shutdown
//	sizes     (constructors and    NewAsyncExecutor, NewImmediateExecutor and NewThreadPoolExecutor with nworker in
//	           word extremes)      {MinInt, MinInt+1, -1, 0} (one worker: FIFO) and {62, 63, 64, 65}, capacity in
//	                               {0, 1, 62..65}: w gated tasks run at once, cap more are accepted without blocking
//	                               (2^31+-1 / MaxInt workers or slots are not constructed: they would be goroutines / memory)
//	deep      (deep call stacks)   in the child process of the awkward values (values.go): panics raised 22, 40, 200
//	                               and 2000 frames below the task's Run, errors wrapped 20 deep

import (
	"fmt"
	"math"
	"sync"
	"time"

	"verifharness/hxlib"

	"qchen.fun/fatchoy/sched"
)

// ---- task objects of several dynamic types ----------------------------------------------------------------------

type ptrTask struct{ f func() error }

func (t *ptrTask) Run() error { return t.f() }

type fnTask func() error // uncomparable

func (f fnTask) Run() error { return f() }

type valueTask struct { // uncomparable (holds a slice), handed in by value
	f   func() error
	pad []int
}

func (t valueTask) Run() error { return t.f() }

func wrap20(err error) error {
	for i := 0; i < 20; i++ {
		err = fmt.Errorf("layer %d: %w", i, err)
	}
	return err
}

type reuseCase struct {
	Ctor    string   `json:"ctor"` // pool | async | immediate
	Obj     string   `json:"obj"`  // task | ptr | func | value
	Objects int      `json:"objects"`
	Rounds  int      `json:"rounds"`
	Kinds   []string `json:"kinds"` // how the j-th run of an object ends (per object: Kinds[(o+j) % len]): ok | err | deep-err | panic
	Twice   bool     `json:"twice"` // every object is submitted twice in a row
	Nils    bool     `json:"nils"`  // a nil and a typed-nil Runnable are submitted in every round as well
}

type reuseObj struct {
	mu       sync.Mutex
	runs     int
	accepted int
	ends     []string // how each run ended
	r        sched.Runnable
}

func (c Case) exec() (sched.Executor, int) {
	switch c.Reuse.Ctor {
	case "async":
		return sched.NewAsyncExecutor(c.Cap), 1
	case "immediate":
		return sched.NewImmediateExecutor(), 0
	}
	w := c.W
	if w <= 0 {
		w = 1
	}
	return sched.NewThreadPoolExecutor(c.W, c.Cap), w
}

// runReuse: see the header. c.W / c.Cap configure the pool.
func runReuse(c Case, tmo time.Duration) (fails []fail) {
	rc := c.Reuse
	failf := func(key, format string, a ...interface{}) {
		if len(fails) < 4 {
			fails = append(fails, fail{key, fmt.Sprintf(format, a...)})
		}
	}
	ex, workers := c.exec()
	cfg := fmt.Sprintf("%s executor (%d workers, capacity %d), %d %s object(s) submitted %d round(s)", rc.Ctor, workers, c.Cap, rc.Objects, rc.Obj, rc.Rounds)
	objs := make([]*reuseObj, rc.Objects)
	for i := range objs {
		o := &reuseObj{}
		i := i
		action := func() error {
			o.mu.Lock()
			k := rc.Kinds[(i+o.runs)%len(rc.Kinds)]
			o.runs++
			o.ends = append(o.ends, k)
			o.mu.Unlock()
			switch k {
			case kErr:
				return errTask
			case "deep-err":
				return wrap20(errTask)
			case kPanic:
				panic(fmt.Sprintf("object %d panics on purpose", i))
			}
			return nil
		}
		switch rc.Obj {
		case "task":
			o.r = sched.NewTask(action)
		case "func":
			o.r = fnTask(action)
		case "value":
			o.r = valueTask{f: action, pad: []int{i}}
		default:
			o.r = &ptrTask{f: action}
		}
		objs[i] = o
	}
	submit := func(r sched.Runnable) (ok bool, hung bool) {
		res := make(chan string, 1)
		go func() {
			var err error
			if p := hxlib.Guard(func() { err = ex.Execute(r) }); p != "" {
				if workers == 0 {
					res <- "ok" // the immediate executor runs the task in the caller: its panic is the caller's
					return
				}
				res <- classify(p)
				return
			}
			if err != nil && workers > 0 {
				res <- "err"
				return
			}
			res <- "ok" // (the immediate executor returns the task's own error)
		}()
		select {
		case s := <-res:
			if s != "ok" {
				failf("reuse:refused", "%s: Execute returned %s on a running executor", cfg, s)
			}
			return s == "ok", false
		case <-time.After(tmo):
			failf("hang:execute", "%s: an Execute call did not return within %v", cfg, tmo)
			return false, true
		}
	}
	describe := func(o *reuseObj, i int) string {
		o.mu.Lock()
		defer o.mu.Unlock()
		return fmt.Sprintf("object %d (%T): Execute returned nil %d times but its action ran %d times (its runs ended %v)", i, o.r, o.accepted, o.runs, o.ends)
	}
	total := func() (runs, acc int) {
		for _, o := range objs {
			o.mu.Lock()
			runs += o.runs
			acc += o.accepted
			o.mu.Unlock()
		}
		return
	}
	for round := 0; round < rc.Rounds && len(fails) == 0; round++ {
		for _, o := range objs {
			n := 1
			if rc.Twice {
				n = 2
			}
			for k := 0; k < n; k++ {
				ok, hung := submit(o.r)
				if hung {
					return
				}
				if ok {
					o.mu.Lock()
					o.accepted++
					o.mu.Unlock()
				}
			}
		}
		if rc.Nils && panicOK && workers > 0 {
			submit(nil)
			submit((*sched.Task)(nil))
			submit((*ptrTask)(nil))
		}
		// everything accepted so far must have run by the time a task submitted afterwards has run (single
		// worker: the queue is FIFO); with several workers: by count, under the generous deadline
		if workers == 1 {
			fence := make(chan struct{})
			if ok, hung := submit(&ptrTask{f: func() error { close(fence); return nil }}); hung || !ok {
				return
			}
			select {
			case <-fence:
			case <-time.After(tmo):
				failf("stall", "%s: a plain task submitted after round %d was not run within %v", cfg, round, tmo)
				return
			}
		} else if workers > 1 {
			end := time.Now().Add(tmo)
			for {
				if runs, acc := total(); runs >= acc || time.Now().After(end) {
					break
				}
				time.Sleep(50 * time.Microsecond)
			}
		}
		for i, o := range objs {
			o.mu.Lock()
			bad := o.runs != o.accepted
			o.mu.Unlock()
			if bad {
				key := "reuse:accepted-not-run"
				if o.runs > o.accepted {
					key = "ran-twice"
				}
				failf(key, "%s: after round %d: %s", cfg, round, describe(o, i))
				break
			}
		}
	}
	if sd, ok := ex.(shutdowner); ok {
		done := make(chan struct{})
		go func() { sd.Shutdown(); close(done) }()
		select {
		case <-done:
		case <-time.After(tmo):
			failf("hang:shutdown", "%s: Shutdown did not return within %v", cfg, tmo)
			return
		}
		for i, o := range objs {
			o.mu.Lock()
			bad := o.runs != o.accepted
			o.mu.Unlock()
			if bad && len(fails) == 0 {
				failf("lost-at-shutdown", "%s: when Shutdown returned: %s", cfg, describe(o, i))
			}
		}
	}
	return
}

func reuseLeg(r *hxlib.Run, tmo time.Duration) {
	kindSets := [][]string{
		{kOK},
		{kOK, kErr, "deep-err"},
		{kPanic, kOK, kOK},
		{kOK, kPanic, kErr, kOK, "deep-err", kPanic, kPanic, kOK},
	}
	n := 0
	for _, ctor := range []string{"pool", "async", "immediate"} {
		for _, obj := range []string{"task", "ptr", "func", "value"} {
			for ki, kinds := range kindSets {
				if !panicOK && ki >= 2 {
					continue
				}
				for _, twice := range []bool{false, true} {
					ws := []int{1, 3}
					if ctor != "pool" {
						ws = []int{1}
					}
					for _, w := range ws {
						n++
						if !r.Thorough() && obj != "task" && n%3 != 0 {
							continue
						}
						rc := reuseCase{Ctor: ctor, Obj: obj, Objects: r.R.Pick(1, 2, 5), Rounds: r.R.Pick(3, 6, 9), Kinds: kinds, Twice: twice, Nils: n%2 == 0}
						c := Case{Kind: "reuse", W: w, Cap: r.R.Pick(0, 1, 4, 64), Reuse: &rc}
						if ctor == "immediate" {
							c.W, c.Cap = 0, 0
						}
						r.Case()
						r.Count("reuse:cases")
						r.Count("reuse:" + obj)
						if ki >= 2 {
							r.Count("reuse:object-resubmitted-after-a-panicking-run")
							r.NonTrivial(fmt.Sprintf("reuse/%s/%s/%d/%v/%d", ctor, obj, ki, twice, w))
						}
						fs := runReuse(c, tmo)
						for _, f := range fs {
							r.Fail(f.key, f.what, c)
						}
						if len(fs) > 0 {
							return
						}
					}
				}
			}
		}
	}
}

// ---- tasks that submit tasks ---------------------------------------------------------------------------------------

type nestCase struct {
	Roots    int  `json:"roots"`
	Fan      int  `json:"fan"`
	Shared   bool `json:"shared"`    // all children of a root are ONE *sched.Task object
	RaceShut bool `json:"race_shut"` // Shutdown is called as soon as the roots are accepted
}

func runNest(c Case, tmo time.Duration) (fails []fail) {
	nc := c.Nest
	failf := func(key, format string, a ...interface{}) {
		if len(fails) < 4 {
			fails = append(fails, fail{key, fmt.Sprintf(format, a...)})
		}
	}
	ex := sched.NewThreadPoolExecutor(c.W, c.Cap)
	cfg := fmt.Sprintf("pool (%d workers, capacity %d), %d root task(s) each submitting %d task(s) from inside Run, those %d more each", c.W, c.Cap, nc.Roots, nc.Fan, nc.Fan)
	var mu sync.Mutex
	accepted, runs, refused, finished := 0, 0, 0, 0
	afterShut := 0
	shutReturned := false
	var panics []string
	sub := func(t sched.Runnable) {
		var err error
		if p := hxlib.Guard(func() { err = ex.Execute(t) }); p != "" {
			mu.Lock()
			panics = append(panics, classify(p))
			mu.Unlock()
			return
		}
		mu.Lock()
		if err == nil {
			accepted++
		} else {
			refused++
		}
		mu.Unlock()
	}
	ran := func() {
		mu.Lock()
		runs++
		if shutReturned {
			afterShut++
		}
		mu.Unlock()
	}
	fin := func() { // the task has made all its submissions
		mu.Lock()
		finished++
		mu.Unlock()
	}
	leaf := func() *sched.Task { return sched.NewTask(func() error { ran(); fin(); return nil }) }
	mid := func() *sched.Task {
		shared := leaf()
		return sched.NewTask(func() error {
			ran()
			for i := 0; i < nc.Fan; i++ {
				if nc.Shared {
					sub(shared)
				} else {
					sub(leaf())
				}
			}
			fin()
			return nil
		})
	}
	root := func() *sched.Task {
		shared := mid()
		return sched.NewTask(func() error {
			ran()
			for i := 0; i < nc.Fan; i++ {
				if nc.Shared {
					sub(shared)
				} else {
					sub(mid())
				}
			}
			fin()
			return nil
		})
	}
	subDone := make(chan struct{})
	go func() {
		for i := 0; i < nc.Roots; i++ {
			sub(root())
		}
		close(subDone)
	}()
	select {
	case <-subDone:
	case <-time.After(tmo):
		failf("hang:execute", "%s: the root submissions did not all return within %v", cfg, tmo)
		return
	}
	if !nc.RaceShut {
		end := time.Now().Add(tmo)
		for {
			mu.Lock()
			done := finished >= accepted // every accepted task has run to its end: nobody is left to submit more
			mu.Unlock()
			if done || time.Now().After(end) {
				break
			}
			time.Sleep(50 * time.Microsecond)
		}
	}
	done := make(chan struct{})
	go func() { ex.(shutdowner).Shutdown(); close(done) }()
	select {
	case <-done:
	case <-time.After(tmo):
		mu.Lock()
		failf("hang:shutdown", "%s: Shutdown did not return within %v (%d accepted, %d run, %d refused)", cfg, tmo, accepted, runs, refused)
		mu.Unlock()
		return
	}
	mu.Lock()
	shutReturned = true
	a, n := accepted, runs
	mu.Unlock()
	if n < a {
		failf("lost-at-shutdown", "%s: when Shutdown returned %d of %d accepted task(s) had not been run (%d refused)", cfg, a-n, a, refused)
	}
	if n > a {
		failf("ran-twice", "%s: %d runs for %d accepted submissions", cfg, n, a)
	}
	time.Sleep(300 * time.Microsecond)
	mu.Lock()
	if afterShut > 0 {
		failf("started-after-shutdown", "%s: %d task(s) were run after Shutdown had returned", cfg, afterShut)
	}
	for _, p := range panics {
		failf(p+":execute", "%s: an Execute call made from inside a running task panicked (%s)", cfg, p)
		break
	}
	if !nc.RaceShut && refused > 0 {
		failf("reuse:refused", "%s: %d submission(s) made from inside running tasks were refused although Shutdown had not been called", cfg, refused)
	}
	mu.Unlock()
	return
}

func nestLeg(r *hxlib.Run, tmo time.Duration) {
	for k := 0; k < r.Scale(40, 800); k++ {
		nc := nestCase{Roots: r.R.Range(1, 6), Fan: r.R.Range(1, 4), Shared: k%2 == 1, RaceShut: k%4 >= 2}
		total := nc.Roots * (1 + nc.Fan + nc.Fan*nc.Fan)
		// the queue holds everything: a task that submits from inside Run must never wait for its own worker
		c := Case{Kind: "nest", W: r.R.Pick(1, 1, 2, 4), Cap: total + r.R.Intn(4), Nest: &nc}
		r.Case()
		r.Count("nest:cases")
		r.CountN("nest:tasks", total)
		r.NonTrivial(fmt.Sprintf("nest/%d/%d/%d/%v/%v", c.W, nc.Roots, nc.Fan, nc.Shared, nc.RaceShut))
		fs := runNest(c, tmo)
		for _, f := range fs {
			r.Fail(f.key, f.what, c)
		}
		if len(fs) > 0 {
			return
		}
	}
}

// ---- constructors and word extremes ------------------------------------------------------------------------------------

// runSizes: `w` as given to the constructor (effective workers = max(w,1)); w gated tasks must run at once and cap
// more must be accepted without blocking; all run once, in submission order for one worker.
func runSizes(c Case, tmo time.Duration) (fails []fail) {
	failf := func(key, format string, a ...interface{}) {
		if len(fails) < 4 {
			fails = append(fails, fail{key, fmt.Sprintf(format, a...)})
		}
	}
	var ex sched.Executor
	eff := c.W
	if eff <= 0 {
		eff = 1
	}
	name := fmt.Sprintf("NewThreadPoolExecutor(%d, %d)", c.W, c.Cap)
	if c.Sizes == "async" {
		ex, eff = sched.NewAsyncExecutor(c.Cap), 1
		name = fmt.Sprintf("NewAsyncExecutor(%d)", c.Cap)
	} else if p := hxlib.Guard(func() { ex = sched.NewThreadPoolExecutor(c.W, c.Cap) }); p != "" {
		failf("panic:constructor", "%s panicked: %s", name, p)
		return
	}
	b := newBook()
	gate := make(chan struct{})
	n := eff + c.Cap
	subDone := make(chan int, 1)
	go func() {
		for id := 0; id < n; id++ {
			if err := ex.Execute(&valTask{b: b, id: id, v: noValue, gate: gate}); err != nil {
				subDone <- id + 1
				return
			}
		}
		subDone <- 0
	}()
	select {
	case badID := <-subDone:
		if badID != 0 {
			failf("reuse:refused", "%s: Execute(task %d) was refused on a running executor", name, badID-1)
			close(gate)
			return
		}
	case <-time.After(tmo):
		failf("hang:execute-with-room", "%s: %d Execute calls (%d workers + %d queue slots) did not all return within %v with every task gated: only %d task(s) were started", name, n, eff, c.Cap, tmo, len(b.snap().started))
		close(gate)
		return
	}
	if !b.waitFor(tmo, func(s snap) bool { return len(s.running) == eff }) {
		failf("stall", "%s: %d gated task(s) are running where %d workers are due", name, len(b.snap().running), eff)
	}
	if s := b.snap(); len(s.running) > eff {
		failf("fifo", "%s: %d tasks run at once on %d worker(s)", name, len(s.running), eff)
	}
	close(gate)
	if !b.waitFor(tmo, func(s snap) bool { return len(s.finished) == n }) {
		failf("stall", "%s: only %d of %d accepted tasks finished within %v", name, len(b.snap().finished), n, tmo)
		return
	}
	done := make(chan struct{})
	go func() { ex.(shutdowner).Shutdown(); close(done) }()
	select {
	case <-done:
	case <-time.After(tmo):
		failf("hang:shutdown", "%s: Shutdown did not return within %v", name, tmo)
		return
	}
	s := b.snap()
	for id := 0; id < n; id++ {
		if s.runs[id] != 1 {
			failf("ran-twice", "%s: task %d was run %d times", name, id, s.runs[id])
			break
		}
	}
	if eff == 1 {
		for i, id := range s.started {
			if id != i {
				failf("fifo", "%s: single worker: the %d-th task started is task %d", name, i, id)
				break
			}
		}
	}
	return
}

func sizesLeg(r *hxlib.Run, tmo time.Duration) {
	var cases []Case
	for _, w := range []int{math.MinInt, math.MinInt + 1, -1, 0, 1, 62, 63, 64, 65} {
		for _, cp := range []int{0, 1, 62, 63, 64, 65} {
			if !r.Thorough() && w >= 62 && cp >= 62 && (w+cp)%3 != 0 {
				continue
			}
			cases = append(cases, Case{Kind: "sizes", W: w, Cap: cp, Sizes: "pool"})
		}
	}
	for _, cp := range []int{0, 1, 2, 62, 63, 64, 65} {
		cases = append(cases, Case{Kind: "sizes", W: 1, Cap: cp, Sizes: "async"})
	}
	for _, c := range cases {
		r.Case()
		r.Count("sizes:cases")
		fs := runSizes(c, tmo)
		for _, f := range fs {
			r.Fail(f.key, f.what, c)
		}
		if len(fs) > 0 {
			return
		}
	}
}
