// Package hxcodec is the code shared by the C01 and C02 harnesses: byte-string specs and digests of
// the line protocol of Drv/WireCodec.lean, the toy cipher, recording reader/writer, and the
// observation of the REAL codec (WritePacket / ReadPacket / ReadLenData) as protocol lines.
package hxcodec

import (
	"encoding/binary"
	"encoding/hex"
	"fmt"
	"hash/adler32"
	"hash/crc32"
	"io"
	"strconv"
	"strings"
	"unsafe"

	fatchoy "qchen.fun/fatchoy"
	"qchen.fun/fatchoy/codec"
	"qchen.fun/fatchoy/packet"
	"qchen.fun/fatchoy/x/cipher"
	"qchen.fun/fatchoy/x/fsutil"

	"verifharness/hxlib"
)

// ---- byte-string specs -------------------------------------------------------------------------

// Gen is the generator behind `g<len>.<seed>` (same recurrence in the Lean driver).
func Gen(n int, seed uint32) []byte {
	x := uint64(seed) % 2147483648
	out := make([]byte, n)
	for i := range out {
		x = (x*1103515245 + 12345) % 2147483648
		out[i] = byte(x / 65536)
	}
	return out
}

func SpecHex(b []byte) string {
	if len(b) == 0 {
		return "-"
	}
	return "x" + hex.EncodeToString(b)
}
func SpecGen(n int, seed uint32) string { return fmt.Sprintf("g%d.%d", n, seed) }
func SpecRun(n int, b byte) string      { return fmt.Sprintf("r%d.%d", n, b) }

// Join concatenates specs.
func Join(parts ...string) string {
	var keep []string
	for _, p := range parts {
		if p != "-" && p != "" {
			keep = append(keep, p)
		}
	}
	if len(keep) == 0 {
		return "-"
	}
	return strings.Join(keep, "+")
}

// Expand turns a spec into bytes (panics on a malformed spec: specs are produced by the harness itself).
func Expand(spec string) []byte {
	if spec == "-" {
		return []byte{}
	}
	var out []byte
	for _, p := range strings.Split(spec, "+") {
		switch p[0] {
		case 'x':
			b, err := hex.DecodeString(p[1:])
			if err != nil {
				panic(err)
			}
			out = append(out, b...)
		case 'g', 'r':
			ab := strings.Split(p[1:], ".")
			n, err1 := strconv.Atoi(ab[0])
			v, err2 := strconv.ParseUint(ab[1], 10, 32)
			if err1 != nil || err2 != nil {
				panic("bad spec " + p)
			}
			if p[0] == 'g' {
				out = append(out, Gen(n, uint32(v))...)
			} else {
				for i := 0; i < n; i++ {
					out = append(out, byte(v))
				}
			}
		default:
			panic("bad spec " + p)
		}
	}
	if out == nil {
		out = []byte{}
	}
	return out
}

// Digest is the canonical form of a byte string in answers.
func Digest(b []byte) string {
	if len(b) <= 48 {
		return hxlib.Hex(b)
	}
	return fmt.Sprintf("#%d:%08x:%s", len(b), adler32.Checksum(b), hex.EncodeToString(b[:16]))
}

// Key identifies the argument of an oracle column.
func Key(b []byte) string { return fmt.Sprintf("%d:%08x", len(b), adler32.Checksum(b)) }

// ---- toy cipher --------------------------------------------------------------------------------

// Toy is a length-preserving cipher: byte i is shifted by key[i mod |key|] + i (mod 256).
// It is not an involution, so using Encrypt where Decrypt belongs is visible.
type Toy struct{ K []byte }

func (t *Toy) Key() []byte { return t.K }
func (t *Toy) IV() []byte  { return nil }
func (t *Toy) Encrypt(src []byte) []byte {
	out := make([]byte, len(src))
	for i, b := range src {
		out[i] = b + t.K[i%len(t.K)] + byte(i)
	}
	return out
}
func (t *Toy) Decrypt(src []byte) []byte {
	out := make([]byte, len(src))
	for i, b := range src {
		out[i] = b - (t.K[i%len(t.K)] + byte(i))
	}
	return out
}

// Cryptor returns the toy cipher of a hex key ("" = nil cryptor).
func Cryptor(keyHex string) cipher.BlockCryptor {
	if keyHex == "" {
		return nil
	}
	k, err := hex.DecodeString(keyHex)
	if err != nil || len(k) == 0 {
		panic("bad key")
	}
	return &Toy{k}
}

func keyCol(keyHex string) string {
	if keyHex == "" {
		return "-"
	}
	return keyHex
}

// ---- errors and panics -------------------------------------------------------------------------

// ErrKind maps an error of the codec to the enum of the line protocol.
func ErrKind(err error) string {
	if err == io.EOF {
		return "err:eof"
	}
	if err == io.ErrUnexpectedEOF {
		return "err:short"
	}
	m := err.Error()
	switch {
	case strings.Contains(m, "refer count"):
		return "err:refcount"
	case strings.Contains(m, "payload size"):
		return "err:range"
	case strings.Contains(m, "checksum mismatch"):
		return "err:crc"
	case strings.Contains(m, "must be decrypted"):
		return "err:need-decrypt"
	case strings.Contains(m, "decompress packet"):
		return "err:decompress"
	case strings.Contains(m, "compress packet"):
		return "err:compress"
	}
	return "err:other(" + strings.ReplaceAll(m, " ", "_") + ")"
}

func PanicKind(p string) string {
	switch {
	case strings.Contains(p, "cannot convert"):
		return "panic:body"
	case strings.Contains(p, "out of range"):
		return "panic:index"
	}
	return "panic:other(" + strings.ReplaceAll(p, " ", "_") + ")"
}

// ---- packets -----------------------------------------------------------------------------------

// Pkt describes a packet to encode and the codec configuration (JSON-able: it is the replay case).
type Pkt struct {
	V    int      `json:"v"`   // 1 | 2
	Thr  int      `json:"thr"` // argument of New?Encoder
	Key  string   `json:"key"` // hex key of the toy cipher, "" = nil cryptor
	Cmd  int32    `json:"cmd"`
	Seq  uint16   `json:"seq"`
	Typ  uint8    `json:"typ"`
	Flag uint8    `json:"flag"`
	Node uint32   `json:"node"`
	Refs []uint32 `json:"refs"`
	Body string   `json:"body"`          // nil | b:SPEC | i:<int64>
	Off  int      `json:"off,omitempty"` // search legs: a byte body is handed over as a sub-slice whose address is Off mod 16
}

// AtOffset returns a copy of b whose first byte sits at an address that is off modulo 16
// (a sub-slice of a larger array: what a caller who cuts a body out of a receive buffer hands over).
func AtOffset(b []byte, off int) []byte {
	back := make([]byte, len(b)+32)
	base := int(uintptr(unsafe.Pointer(&back[0])) % 16)
	skip := ((off-base)%16 + 16) % 16
	out := back[skip : skip+len(b) : skip+len(b)]
	copy(out, b)
	return out
}

func Encoder(v, thr int) codec.Encoder {
	if v == 1 {
		return codec.NewV1Encoder(thr)
	}
	return codec.NewV2Encoder(thr)
}

// Build makes the real packet.
func (d *Pkt) Build() *packet.Packet {
	p := packet.Make()
	p.SetCommand(d.Cmd)
	p.SetSeq(d.Seq)
	p.SetType(fatchoy.PacketType(int8(d.Typ)))
	p.SetFlag(fatchoy.PacketFlag(d.Flag))
	p.SetNode(fatchoy.NodeID(d.Node))
	if d.Refs != nil {
		rs := make([]fatchoy.NodeID, len(d.Refs))
		for i, r := range d.Refs {
			rs[i] = fatchoy.NodeID(r)
		}
		p.SetRefers(rs)
	}
	switch {
	case d.Body == "nil":
	case strings.HasPrefix(d.Body, "b:"):
		if d.Off != 0 {
			p.SetBody(AtOffset(Expand(d.Body[2:]), d.Off))
		} else {
			p.SetBody(Expand(d.Body[2:]))
		}
	case strings.HasPrefix(d.Body, "i:"):
		v, err := strconv.ParseInt(d.Body[2:], 10, 64)
		if err != nil {
			panic(err)
		}
		p.SetBody(v)
	default:
		panic("bad body " + d.Body)
	}
	return p
}

// BodyBytes is what the body travels as, computed without the code under test
// (ok=false: a nil body, which has no byte form).
func (d *Pkt) BodyBytes() (b []byte, ok bool) {
	switch {
	case strings.HasPrefix(d.Body, "b:"):
		return Expand(d.Body[2:]), true
	case strings.HasPrefix(d.Body, "i:"):
		v, _ := strconv.ParseInt(d.Body[2:], 10, 64)
		var tmp [binary.MaxVarintLen64]byte
		return tmp[:binary.PutVarint(tmp[:], v)], true
	}
	return nil, false
}

// the documented defaults of the two constructors (only used to decide when the zlib column is needed)
func effThreshold(v, thr int) int {
	if thr > 0 {
		return thr
	}
	if v == 1 {
		return 4096
	}
	return 8192
}

func natList(refs []fatchoy.NodeID) string {
	if len(refs) == 0 {
		return "-"
	}
	parts := make([]string, len(refs))
	for i, r := range refs {
		parts[i] = strconv.FormatUint(uint64(uint32(r)), 10)
	}
	return strings.Join(parts, ",")
}

func u32List(refs []uint32) string {
	if len(refs) == 0 {
		return "-"
	}
	parts := make([]string, len(refs))
	for i, r := range refs {
		parts[i] = strconv.FormatUint(uint64(r), 10)
	}
	return strings.Join(parts, ",")
}

// RecWriter records every Write call.
type RecWriter struct{ Writes [][]byte }

func (w *RecWriter) Write(p []byte) (int, error) {
	w.Writes = append(w.Writes, append([]byte{}, p...))
	return len(p), nil
}
func (w *RecWriter) Bytes() []byte {
	var out []byte
	for _, x := range w.Writes {
		out = append(out, x...)
	}
	return out
}

// EncObs is what the real encoder did.
type EncObs struct {
	N      int
	Err    error
	Panic  string
	Writes [][]byte
	After  *packet.Packet
}

// Encode runs the real WritePacket on a fresh packet built from d.
func Encode(d *Pkt) EncObs {
	var o EncObs
	p := d.Build()
	w := &RecWriter{}
	enc := Encoder(d.V, d.Thr)
	o.Panic = hxlib.Guard(func() { o.N, o.Err = enc.WritePacket(w, Cryptor(d.Key), p) })
	o.Writes, o.After = w.Writes, p
	return o
}

// EncLine is the protocol line of an encode and the real code's answer.
func EncLine(d *Pkt, o *EncObs) (op, impl string) {
	z, zk := "-", "-"
	if b, ok := d.BodyBytes(); ok && len(b) > effThreshold(d.V, d.Thr) {
		zk = Key(b)
		if c, err := fsutil.CompressBytes(b); err != nil {
			z = "err"
		} else {
			z = SpecHex(c)
		}
	}
	op = fmt.Sprintf("enc v=%d thr=%d key=%s cmd=%d seq=%d typ=%d flag=%d node=%d refs=%s body=%s zk=%s z=%s",
		d.V, d.Thr, keyCol(d.Key), d.Cmd, d.Seq, d.Typ, d.Flag, d.Node, u32List(d.Refs), d.Body, zk, z)
	ret := ""
	switch {
	case o.Panic != "":
		ret = "ret=" + PanicKind(o.Panic)
	case o.Err != nil:
		ret = "ret=" + ErrKind(o.Err)
	default:
		ret = fmt.Sprintf("ret=%d", o.N)
	}
	w := "none"
	if len(o.Writes) > 0 {
		ds := make([]string, len(o.Writes))
		for i, x := range o.Writes {
			ds[i] = Digest(x)
		}
		w = strings.Join(ds, "|")
	}
	a := o.After
	impl = fmt.Sprintf("%s w=%s after=%d,%d,%d,%d,%d,%s", ret, w, a.Command(), a.Seq(), uint8(a.Type()), uint8(a.Flag()), uint32(a.Node()), natList(a.Refers()))
	return
}

// ---- reader ------------------------------------------------------------------------------------

// Reader serves a byte string in chunks and records the size of every io.ReadFull.
type Reader struct {
	Data        []byte
	Pos         int
	bounds      []int // chunk ends (absolute offsets), ascending; implicit final bound len(Data)
	Reqs        []int // size of every ReadFull (reconstructed: a Read with nothing outstanding starts one)
	out         int
	MaxReq      int
	eofTogether bool // the read that delivers the last byte returns io.EOF with it (legal for an io.Reader)
}

// NewReader: ck = "all" | "n:<k>" | "l:<sizes>" | "e:<k>" (as n:<k>; the read delivering the last byte also returns io.EOF).
func NewReader(data []byte, ck string) *Reader {
	r := &Reader{Data: data}
	if strings.HasPrefix(ck, "e:") {
		r.eofTogether = true
		ck = "n:" + ck[2:]
	}
	switch {
	case ck == "all":
	case strings.HasPrefix(ck, "n:"):
		k, _ := strconv.Atoi(ck[2:])
		for e := k; e < len(data); e += k {
			r.bounds = append(r.bounds, e)
		}
	case strings.HasPrefix(ck, "l:"):
		e := 0
		for _, s := range strings.Split(ck[2:], ",") {
			n, _ := strconv.Atoi(s)
			e += n
			if e > len(data) {
				e = len(data)
			}
			r.bounds = append(r.bounds, e)
		}
	default:
		panic("bad chunking " + ck)
	}
	return r
}

func (r *Reader) Read(p []byte) (int, error) {
	if r.out == 0 {
		r.Reqs = append(r.Reqs, len(p))
		r.out = len(p)
		if len(p) > r.MaxReq {
			r.MaxReq = len(p)
		}
	}
	if r.Pos >= len(r.Data) {
		r.out = 0
		return 0, io.EOF
	}
	end := len(r.Data)
	if len(r.bounds) > 0 {
		end = r.bounds[0]
	}
	if end == r.Pos { // an empty chunk: a Read that returns nothing
		r.bounds = r.bounds[1:]
		return 0, nil
	}
	n := end - r.Pos
	if n > len(p) {
		n = len(p)
	}
	copy(p, r.Data[r.Pos:r.Pos+n])
	r.Pos += n
	r.out -= n
	if len(r.bounds) > 0 && r.bounds[0] == r.Pos {
		r.bounds = r.bounds[1:]
	}
	if r.eofTogether && r.Pos == len(r.Data) {
		return n, io.EOF
	}
	return n, nil
}

func (r *Reader) reqList() string {
	if len(r.Reqs) == 0 {
		return "-"
	}
	parts := make([]string, len(r.Reqs))
	for i, q := range r.Reqs {
		parts[i] = strconv.Itoa(q)
	}
	return strings.Join(parts, ",")
}

// StreamLine installs a stream: the op line and its (trivial) answer.
func StreamLine(spec, ck string, n int) (op, impl string) {
	return fmt.Sprintf("stream ck=%s data=%s", ck, spec), fmt.Sprintf("len=%d", n)
}

// unzColumns: what fsutil.UncompressBytes answers on the body of the frame at data[pos:], found
// with a deliberately naive parse (no range checks beyond slice safety).
func unzColumns(v int, keyHex string, rest []byte) (unzk, unz string) {
	hs, lenW, flagAt := 14, 2, 3
	if v == 2 {
		hs, lenW, flagAt = 20, 3, 4
	}
	if len(rest) < hs {
		return "-", "-"
	}
	n := 0
	for i := 0; i < lenW; i++ {
		n = n<<8 | int(rest[i])
	}
	if n < hs || n > len(rest) {
		return "-", "-"
	}
	body := rest[hs:n]
	if v == 2 {
		k := 4 * int(rest[5])
		if k > len(body) {
			return "-", "-"
		}
		body = body[k:]
	}
	flag := rest[flagAt]
	if flag&1 == 0 || len(body) == 0 {
		return "-", "-"
	}
	if flag&2 != 0 {
		if keyHex == "" {
			return "-", "-"
		}
		body = Cryptor(keyHex).Decrypt(body)
	}
	unzk = Key(body)
	u, err := fsutil.UncompressBytes(append([]byte{}, body...))
	if err != nil {
		return unzk, "err"
	}
	return unzk, SpecHex(u)
}

// DecObs is what the real decoder did with the bytes at the reader's position.
type DecObs struct {
	Pkt   *packet.Packet
	Err   error
	Panic string
	Reqs  []int
	Pos   int
}

func bodyText(b interface{}) string {
	switch v := b.(type) {
	case nil:
		return "nil"
	case []byte:
		return "b:" + Digest(v)
	case int64:
		return fmt.Sprintf("i:%d", v)
	}
	return fmt.Sprintf("?%T", b)
}

// Decode runs the real reader once. split=true uses ReadHeadBody + UnmarshalPacket (as TcpConn does),
// otherwise ReadPacket.
func Decode(r *Reader, v int, keyHex string, split bool) DecObs {
	return DecodeWith(Encoder(v, 0), Cryptor(keyHex), r, split, 0)
}

// DecodeWith is Decode with a caller-owned codec instance and decryptor (search legs: state kept by an
// instance across calls is part of the history). uoff != 0 (split only): header and payload are handed
// to UnmarshalPacket as sub-slices whose addresses are uoff modulo 16.
func DecodeWith(enc codec.Encoder, dec cipher.BlockCryptor, r *Reader, split bool, uoff int) DecObs {
	var o DecObs
	pkt := packet.Make()
	r.Reqs = nil
	r.out = 0
	o.Panic = hxlib.Guard(func() {
		if split {
			head, body, err := enc.ReadHeadBody(r)
			if err != nil {
				o.Err = err
				return
			}
			if uoff != 0 {
				head, body = AtOffset(head, uoff), AtOffset(body, uoff)
			}
			o.Err = enc.UnmarshalPacket(head, body, dec, pkt)
		} else {
			o.Err = enc.ReadPacket(r, dec, pkt)
		}
	})
	o.Pkt, o.Reqs, o.Pos = pkt, append([]int{}, r.Reqs...), r.Pos
	return o
}

// RdLine: the `rd` op for the frame at `before` (the reader's position before the call) and the answer.
func RdLine(r *Reader, before int, v int, keyHex string, o *DecObs) (op, impl string) {
	unzk, unz := unzColumns(v, keyHex, r.Data[before:])
	op = fmt.Sprintf("rd v=%d key=%s unzk=%s unz=%s", v, keyCol(keyHex), unzk, unz)
	tail := fmt.Sprintf("pos=%d req=%s", o.Pos, r.reqList())
	switch {
	case o.Panic != "":
		impl = PanicKind(o.Panic) + " " + tail
	case o.Err != nil:
		impl = ErrKind(o.Err) + " " + tail
	default:
		p := o.Pkt
		impl = fmt.Sprintf("ok cmd=%d seq=%d typ=%d flag=%d node=%d refs=%s body=%s %s", p.Command(), p.Seq(), uint8(p.Type()),
			uint8(p.Flag()), uint32(p.Node()), natList(p.Refers()), bodyText(p.Body()), tail)
	}
	return
}

// LdObs / ReadLen: the length-prefixed reader.
type LdObs struct {
	Data  []byte
	Err   error
	Panic string
	Reqs  []int
	Pos   int
}

func ReadLen(r *Reader) LdObs {
	var o LdObs
	r.Reqs = nil
	r.out = 0
	o.Panic = hxlib.Guard(func() { o.Data, o.Err = codec.ReadLenData(r) })
	o.Reqs, o.Pos = append([]int{}, r.Reqs...), r.Pos
	return o
}

func LdLine(r *Reader, o *LdObs) (op, impl string) {
	tail := fmt.Sprintf("pos=%d req=%s", o.Pos, r.reqList())
	switch {
	case o.Panic != "":
		impl = PanicKind(o.Panic) + " " + tail
	case o.Err != nil:
		impl = ErrKind(o.Err) + " " + tail
	default:
		impl = fmt.Sprintf("ok data=%s %s", Digest(o.Data), tail)
	}
	return "ld", impl
}

// Kind is the outcome class of a decode: "ok", "err:<kind>", "panic:<kind>".
func (o *DecObs) Kind() string {
	switch {
	case o.Panic != "":
		return PanicKind(o.Panic)
	case o.Err != nil:
		return ErrKind(o.Err)
	}
	return "ok"
}

func (o *LdObs) Kind() string {
	switch {
	case o.Panic != "":
		return PanicKind(o.Panic)
	case o.Err != nil:
		return ErrKind(o.Err)
	}
	return "ok"
}

// Forge builds a frame by hand from the protocol description (independent of the encoder):
// the length field and the checksum are computed unless overridden afterwards by the caller.
func Forge(v int, typ, flag, nref uint8, seq uint16, node uint32, cmd uint32, payload []byte) []byte {
	hs := 14
	if v == 2 {
		hs = 20
	}
	f := make([]byte, hs, hs+len(payload))
	n := hs + len(payload)
	if v == 1 {
		binary.BigEndian.PutUint16(f, uint16(n))
		f[2], f[3] = typ, flag
		binary.BigEndian.PutUint16(f[4:], seq)
		binary.BigEndian.PutUint32(f[6:], cmd)
	} else {
		f[0], f[1], f[2] = byte(n>>16), byte(n>>8), byte(n)
		f[3], f[4], f[5] = typ, flag, nref
		binary.BigEndian.PutUint16(f[6:], seq)
		binary.BigEndian.PutUint32(f[8:], node)
		binary.BigEndian.PutUint32(f[12:], cmd)
	}
	f = append(f, payload...)
	FixCrc(v, f)
	return f
}

// FixCrc recomputes the checksum field of a frame in place.
func FixCrc(v int, f []byte) {
	hs := 14
	if v == 2 {
		hs = 20
	}
	h := crc32.NewIEEE()
	h.Write(f[:hs-4])
	h.Write(f[hs:])
	binary.BigEndian.PutUint32(f[hs-4:], h.Sum32())
}

// WldObs / WriteLen: the length-prefixed writer (codec.WriteLenData) on a recording writer.
type WldObs struct {
	N      int
	Err    error
	Panic  string
	Writes [][]byte
}

func WriteLen(data []byte) WldObs {
	var o WldObs
	w := &RecWriter{}
	o.Panic = hxlib.Guard(func() { o.N, o.Err = codec.WriteLenData(w, data) })
	o.Writes = w.Writes
	return o
}

// WldLine: the `wld` op and the real code's answer.
func WldLine(spec string, o *WldObs) (op, impl string) {
	ret := ""
	switch {
	case o.Panic != "":
		ret = "ret=" + PanicKind(o.Panic)
	case o.Err != nil:
		ret = "ret=" + ErrKind(o.Err)
	default:
		ret = fmt.Sprintf("ret=%d", o.N)
	}
	w := "none"
	if len(o.Writes) > 0 {
		ds := make([]string, len(o.Writes))
		for i, x := range o.Writes {
			ds[i] = Digest(x)
		}
		w = strings.Join(ds, "|")
	}
	return "wld data=" + spec, ret + " w=" + w
}

// ---- second round (third red-team wave): forged checksums, a reference decoder, custom cryptors ------------

var crcTable = crc32.MakeTable(crc32.IEEE)

// ForgeTail returns the four bytes X for which CRC-32(P || X) == target, given crc = CRC-32(P)
// (CRC-32 is a bijection of the last 32 bits of its input).
func ForgeTail(crc, target uint32) [4]byte {
	var rev [256]byte // top byte of a table entry -> its index (the 256 top bytes are distinct)
	for i := 0; i < 256; i++ {
		rev[crcTable[i]>>24] = byte(i)
	}
	var idx [4]byte
	w := ^target
	for i := 3; i >= 0; i-- {
		t := rev[w>>24]
		idx[i] = t
		w = (w ^ crcTable[t]) << 8
	}
	var out [4]byte
	s := ^crc
	for i := 0; i < 4; i++ {
		out[i] = byte(s) ^ idx[i]
		s = crcTable[idx[i]] ^ (s >> 8)
	}
	return out
}

// ForgeFrameCrc overwrites the LAST FOUR BYTES of the frame (which must lie behind the header: references or
// body) so that the CRC-32 over header-without-checksum + rest equals target, and stores target in the
// checksum field. ok=false: the frame has fewer than four bytes behind the header.
func ForgeFrameCrc(v int, f []byte, target uint32) bool {
	hs := 14
	if v == 2 {
		hs = 20
	}
	if len(f) < hs+4 {
		return false
	}
	h := crc32.NewIEEE()
	h.Write(f[:hs-4])
	h.Write(f[hs : len(f)-4])
	x := ForgeTail(h.Sum32(), target)
	copy(f[len(f)-4:], x[:])
	binary.BigEndian.PutUint32(f[hs-4:], target)
	h = crc32.NewIEEE()
	h.Write(f[:hs-4])
	h.Write(f[hs:])
	return h.Sum32() == target
}

// RefFrame is a frame as the protocol description lays it out, parsed by RefDecode.
type RefFrame struct {
	Len            int
	Typ, Flag, Cnt uint8
	Seq            uint16
	Node, Cmd, Crc uint32
	Refs           []uint32
	Wire           []byte // body bytes as they travel (after compression / encryption)
}

// RefDecode is an independently written decoder of the documented layout (v1_header.go / v2_header.go
// comments): it does not call the codec. It checks the length field and the checksum.
func RefDecode(v int, f []byte) (RefFrame, error) {
	var x RefFrame
	hs := 14
	if v == 2 {
		hs = 20
	}
	if len(f) < hs {
		return x, fmt.Errorf("frame of %d bytes is shorter than the header", len(f))
	}
	if v == 1 {
		x.Len = int(f[0])<<8 | int(f[1])
		x.Typ, x.Flag = f[2], f[3]
		x.Seq = uint16(f[4])<<8 | uint16(f[5])
		x.Cmd = uint32(f[6])<<24 | uint32(f[7])<<16 | uint32(f[8])<<8 | uint32(f[9])
		x.Crc = uint32(f[10])<<24 | uint32(f[11])<<16 | uint32(f[12])<<8 | uint32(f[13])
	} else {
		x.Len = int(f[0])<<16 | int(f[1])<<8 | int(f[2])
		x.Typ, x.Flag, x.Cnt = f[3], f[4], f[5]
		x.Seq = uint16(f[6])<<8 | uint16(f[7])
		x.Node = uint32(f[8])<<24 | uint32(f[9])<<16 | uint32(f[10])<<8 | uint32(f[11])
		x.Cmd = uint32(f[12])<<24 | uint32(f[13])<<16 | uint32(f[14])<<8 | uint32(f[15])
		x.Crc = uint32(f[16])<<24 | uint32(f[17])<<16 | uint32(f[18])<<8 | uint32(f[19])
	}
	if x.Len != len(f) {
		return x, fmt.Errorf("length field %d, frame has %d bytes", x.Len, len(f))
	}
	sum := crc32.ChecksumIEEE(append(append([]byte{}, f[:hs-4]...), f[hs:]...))
	if sum != x.Crc {
		return x, fmt.Errorf("checksum field %08x, CRC-32 over header, references and body is %08x", x.Crc, sum)
	}
	rest := f[hs:]
	if 4*int(x.Cnt) > len(rest) {
		return x, fmt.Errorf("%d references announced, %d bytes follow the header", x.Cnt, len(rest))
	}
	for i := 0; i < int(x.Cnt); i++ {
		x.Refs = append(x.Refs, uint32(rest[4*i])<<24|uint32(rest[4*i+1])<<16|uint32(rest[4*i+2])<<8|uint32(rest[4*i+3]))
	}
	x.Wire = rest[4*int(x.Cnt):]
	return x, nil
}

// DecodeReader runs the real reader once on any io.Reader (a *bufio.Reader, a bytes.Reader, ...): Pos and Reqs
// are not filled in. head / payload: the slices ReadHeadBody returned (split only).
func DecodeReader(enc codec.Encoder, dec cipher.BlockCryptor, r io.Reader, split bool) (o DecObs) {
	pkt := packet.Make()
	o.Panic = hxlib.Guard(func() {
		if split {
			head, body, err := enc.ReadHeadBody(r)
			if err != nil {
				o.Err = err
				return
			}
			o.Err = enc.UnmarshalPacket(head, body, dec, pkt)
		} else {
			o.Err = enc.ReadPacket(r, dec, pkt)
		}
	})
	o.Pkt = pkt
	return o
}

// Custom BlockCryptor implementations: the interface is exported and installed per connection through
// SetEncryptPair; nothing says an implementation works in place or preserves the length.
//
//	x:tag    Encrypt returns a NEW slice: keystream-xored body followed by a 16-byte tag; Decrypt checks and strips it (new slice)
//	x:seal   the AEAD idiom Seal(src[:0], …): xors src in place and APPENDS the tag to it (the result aliases src when its capacity allows); Decrypt works in place and returns src[:n-16]
//	x:nonce  stateful sender: an 8-byte message counter is PREPENDED and keys the keystream; Decrypt is stateless (new slices)
//	x:chain  stateful on both sides, in place, length preserving: the keystream position runs on from message to message (a stream cipher over the connection); frames must be decrypted exactly once, in order
type XCrypt struct {
	Kind      string
	K         []byte
	ctr       uint64 // x:nonce: messages sent; x:chain: keystream position
	Calls     int
	BadTag    int // x:tag / x:seal: Decrypt calls whose tag did not match
	Malformed int
}

// NewXCrypt: kind as above ("x:tag" ...); Overhead is what Encrypt adds to the length.
func NewXCrypt(kind string) *XCrypt {
	return &XCrypt{Kind: kind, K: []byte("custom-cryptor-key-0123456789")}
}

func (x *XCrypt) Overhead() int {
	switch x.Kind {
	case "x:tag", "x:seal":
		return 16
	case "x:nonce":
		return 8
	}
	return 0
}

func (x *XCrypt) Key() []byte { return x.K }
func (x *XCrypt) IV() []byte  { return nil }

func (x *XCrypt) ks(pos uint64) byte {
	z := pos*0x9E3779B97F4A7C15 + uint64(x.K[pos%uint64(len(x.K))])
	z = (z ^ (z >> 29)) * 0xBF58476D1CE4E5B9
	return byte(z >> 32)
}

func (x *XCrypt) tag(plain []byte) [16]byte {
	var t [16]byte
	a, b := uint64(adler32.Checksum(plain)), uint64(crc32.ChecksumIEEE(plain))
	binary.BigEndian.PutUint64(t[:], a<<32|b)
	binary.BigEndian.PutUint64(t[8:], uint64(len(plain))*0x100000001b3^a)
	return t
}

func (x *XCrypt) Encrypt(src []byte) []byte {
	x.Calls++
	switch x.Kind {
	case "x:tag":
		t := x.tag(src)
		out := make([]byte, len(src), len(src)+16)
		for i, b := range src {
			out[i] = b ^ x.ks(uint64(i))
		}
		return append(out, t[:]...)
	case "x:seal":
		t := x.tag(src)
		for i := range src {
			src[i] ^= x.ks(uint64(i))
		}
		return append(src, t[:]...)
	case "x:nonce":
		x.ctr++
		out := make([]byte, 8+len(src))
		binary.BigEndian.PutUint64(out, x.ctr)
		for i, b := range src {
			out[8+i] = b ^ x.ks(x.ctr<<20+uint64(i))
		}
		return out
	case "x:chain":
		for i := range src {
			src[i] ^= x.ks(x.ctr)
			x.ctr++
		}
		return src
	}
	panic("unknown custom cryptor " + x.Kind)
}

func (x *XCrypt) Decrypt(src []byte) []byte {
	x.Calls++
	switch x.Kind {
	case "x:tag", "x:seal":
		if len(src) < 16 {
			x.Malformed++
			return nil
		}
		n := len(src) - 16
		var out []byte
		if x.Kind == "x:seal" {
			out = src[:n]
		} else {
			out = make([]byte, n)
		}
		for i := 0; i < n; i++ {
			out[i] = src[i] ^ x.ks(uint64(i))
		}
		if t := x.tag(out); string(t[:]) != string(src[n:]) {
			x.BadTag++
			return nil
		}
		return out
	case "x:nonce":
		if len(src) < 8 {
			x.Malformed++
			return nil
		}
		c := binary.BigEndian.Uint64(src)
		out := make([]byte, len(src)-8)
		for i := range out {
			out[i] = src[8+i] ^ x.ks(c<<20+uint64(i))
		}
		return out
	case "x:chain":
		for i := range src {
			src[i] ^= x.ks(x.ctr)
			x.ctr++
		}
		return src
	}
	panic("unknown custom cryptor " + x.Kind)
}

// XKinds lists the custom cryptors.
var XKinds = []string{"x:tag", "x:seal", "x:nonce", "x:chain"}
