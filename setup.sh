#!/bin/sh
# Build the framework offline from files on disk: fact extractor, Gen/*.lean from /repo, the Lean
# library (all proofs) + model driver, and every harness binary (warms the Go build cache).
set -e
cd "$(dirname "$0")"
export GOFLAGS=-mod=mod GOPROXY=off GOSUMDB=off GOTOOLCHAIN=local
REPO="${VERIF_REPO:-/repo}"
mkdir -p harness/bin .work
(cd harness && go build -o bin/extract ./cmd/extract && ./bin/extract -repo "$REPO" -lean ../lean/Fatchoy/Gen -prop all || true)
(cd lean && lake build 2>&1 | tail -5)
(cd harness && for d in cmd/hx_*; do go build -tags verif -o bin/$(basename $d) ./$d || echo "harness $d does not build"; done)
echo "setup done"
