"""Per-property configuration of ./check (see DESIGN.md §6)."""

PROPS = {
    "C20": {
        "harness": "hx_c20",
        "partial": [],
        "trusted": ["fmt.Sprintf %0Nx and strconv.ParseUint are modelled (Model/C20.lean: fmtHex, parse) and compared on every generated case"],
        "assumptions": ["node ids are built with MakeNodeID from a uint8 service and a uint16 instance"],
    },
}
