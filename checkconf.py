"""Per-property configuration of ./check: one JSON file per property under conf/."""
import os, json, glob
_here = os.path.dirname(os.path.abspath(__file__))
PROPS = {}
for _p in sorted(glob.glob(os.path.join(_here, "conf", "C*.json"))):
    PROPS[os.path.basename(_p)[:-5]] = json.load(open(_p))
