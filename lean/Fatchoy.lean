-- root of the library: every property file (models, lemmas and drivers are pulled in transitively)
import Fatchoy.Props.C20
import Fatchoy.Drv.C20
