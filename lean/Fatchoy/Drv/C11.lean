import Fatchoy.Model.C11ZS
import Fatchoy.Drv.Util
namespace Fatchoy.C11
open Fatchoy.Drv

/-
The driver runs the STRUCTURAL model: a sorted set over S (`z…` commands, layer ZS) or a bare
structural skip list (`l…` commands).  Every answer is also computed by the content-level layers
(Z over L, resp. L) on the abstraction of the current structure; a difference is appended as
` !L=<answer>` (the refinement theorems say this never happens).  After every mutating command — and on
`zshape`/`lshape` — the answer carries ` # <shape>`: level, length, header spans and per node
score/height: spans, in the format of the probe `VerifShape` of hook H6, so the structure itself
(tower heights, every span) is compared with the real code.
-/

/-- what the driver holds: a sorted set over S, a bare structural skip list, or nothing yet -/
inductive DrvState
  | none
  | z (s : ZS)
  | l (s : S.SList)

def showNode (n : Node) : String := s!"{n.score}:{n.ele}"
def showNodeOpt : Option Node → String
  | some n => showNode n
  | none => "nil"
def showNodes (l : List Node) : String :=
  if l.isEmpty then "-" else ",".intercalate (l.map showNode)
def showBool (b : Bool) : String := if b then "true" else "false"

def showOut : Out → String
  | .int n => toString n
  | .bool b => showBool b
  | .eles l => showNatList l
  | .panic => "panic"

def sortNat (l : List Nat) : List Nat := (l.toArray.qsort (· < ·)).toList

def flag? (s : String) : Option Bool :=
  if s == "0" then some false else if s == "1" then some true else none

/-- `ZSkipList.VerifShape()` -/
def showShape (s : S.SList) : String :=
  let head := " ".intercalate ((List.range s.level).map (fun i => toString (S.cell s 0 i).span))
  let nodes := (S.ids s).map (fun x =>
    s!" | {(S.nd s x).score}/{S.height s x}: " ++ " ".intercalate ((S.nd s x).lv.map (fun c => toString c.span)))
  s!"level={s.level} len={s.length} | {head}" ++ String.join nodes

/-- a node pointer as the harness prints it -/
def showPtr (s : S.SList) : Option Nat → String
  | none => "nil"
  | some 0 => "head"
  | some x => showNode (S.nodeOf s x)

/-- layer Z commands: `z<method> args`; `zadd` carries the tower height drawn (0 = no node inserted) -/
def parseZ : List String → Option (Op × Nat)
  | ["zlen"] => some (.len, 0)
  | ["zadd", e, s, h] => do some (.add (← e.toNat?) (← s.toInt?), ← h.toNat?)
  | ["zrem", e] => do some (.remove (← e.toNat?), 0)
  | ["zrrs", a, b] => do some (.removeRangeByScore (← a.toInt?) (← b.toInt?), 0)
  | ["zrrr", a, b] => do some (.removeRangeByRank (← a.toInt?) (← b.toInt?), 0)
  | ["zcount", a, b] => do some (.count (← a.toInt?) (← b.toInt?), 0)
  | ["zrank", e, r] => do some (.getRank (← e.toNat?) (← flag? r), 0)
  | ["zscore", e] => do some (.getScore (← e.toNat?), 0)
  | ["zrange", a, b, r] => do some (.getRange (← a.toInt?) (← b.toInt?) (← flag? r), 0)
  | ["zrbs", a, b, r] => do some (.getRangeByScore (← a.toInt?) (← b.toInt?) (← flag? r), 0)
  | _ => none

def mutatesZ : Op → Bool
  | .add .. | .remove .. | .removeRangeByScore .. | .removeRangeByRank .. => true
  | _ => false

/-- answer of the structural model, checked against the content-level answer `viaL` -/
def both (viaS viaL : String) : String := if viaS == viaL then viaS else s!"{viaS} !L={viaL}"

def showGone (gone : List Node) : String := s!"{gone.length} del={showNatList (sortNat (gone.map (·.ele)))}"

/-- one `l…` command on the structural skip list: (list after, answer, mutating?) -/
def stepL (s : S.SList) : List String → Option (S.SList × String × Bool)
  | ["llen"] => some (s, both (toString s.length) (toString (S.abs s).length), false)
  | ["lhead"] => some (s, both (showPtr s (S.cell s 0 0).fwd) (showNodeOpt (S.abs s).head?), false)
  | ["ltail"] => some (s, both (showPtr s s.tail) (showNodeOpt (S.abs s).getLast?), false)
  | ["ldump"] =>
    let back := (S.chainBack s s.nodes.length s.tail).map (S.nodeOf s)
    some (s, both s!"{showNodes (S.abs s)} | {showNodes back}" s!"{showNodes (S.abs s)} | {showNodes (S.abs s).reverse}", false)
  | ["lshape"] => some (s, "ok", true)
  | ["linsert", sc, e, h] => do
    let sc ← sc.toInt?; let e ← e.toNat?; let h ← h.toNat?
    match S.insert s sc e h with
    | some (s', id) =>
      let viaL := L.insert (S.abs s) sc e
      let ans := both (showPtr s' (some id)) (showNode ⟨sc, e⟩)
      some (s', if S.abs s' == viaL then ans else ans ++ s!" !Labs={showNodes viaL}", true)
    | none => some (s, "diverge", true)
  | ["ldelete", sc, e] => do
    let sc ← sc.toInt?; let e ← e.toNat?
    match S.delete s sc e with
    | some (s', r) =>
      let viaL := L.delete (S.abs s) sc e
      let ans := both (showPtr s r) (showNodeOpt viaL.2)
      some (s', if S.abs s' == viaL.1 then ans else ans ++ s!" !Labs={showNodes viaL.1}", true)
    | none => some (s, "diverge", true)
  | ["lrank", sc, e] => do
    let sc ← sc.toInt?; let e ← e.toNat?
    match S.getRank s sc e with
    | some r => some (s, both (toString r) (toString (L.getRank (S.abs s) sc e)), false)
    | none => some (s, "diverge", false)
  | ["lbyrank", r] => do
    let r ← r.toInt?
    let viaL := match L.getElementByRank (S.abs s) r with
      | .head => "head"
      | .node n => showNode n
      | .none => "nil"
    match S.getElementByRank s r with
    | some p => some (s, both (showPtr s p) viaL, false)
    | none => some (s, "diverge", false)
  | ["linrange", a, b] => do
    let a ← a.toInt?; let b ← b.toInt?
    some (s, both (showBool (S.isInRange s a b)) (showBool (L.isInRange (S.abs s) a b)), false)
  | ["lfirst", a, b] => do
    let a ← a.toInt?; let b ← b.toInt?
    match S.firstInRange s a b with
    | some p => some (s, both (showPtr s p) (showNodeOpt (L.firstInRange (S.abs s) a b)), false)
    | none => some (s, "diverge", false)
  | ["llast", a, b] => do
    let a ← a.toInt?; let b ← b.toInt?
    match S.lastInRange s a b with
    | some p => some (s, both (showPtr s p) (showNodeOpt (L.lastInRange (S.abs s) a b)), false)
    | none => some (s, "diverge", false)
  | ["ldrs", a, b] => do
    let a ← a.toInt?; let b ← b.toInt?
    match S.deleteRangeByScore s a b with
    | some (s', gone) =>
      let viaL := L.deleteRangeByScore (S.abs s) a b
      let ans := both (showGone gone) (showGone viaL.2)
      some (s', if S.abs s' == viaL.1 then ans else ans ++ s!" !Labs={showNodes viaL.1}", true)
    | none => some (s, "diverge", true)
  | ["ldrr", a, b] => do
    let a ← a.toInt?; let b ← b.toInt?
    match S.deleteRangeByRank s a b with
    | some (s', gone) =>
      let viaL := L.deleteRangeByRank (S.abs s) a b
      let ans := both (showGone gone) (showGone viaL.2)
      some (s', if S.abs s' == viaL.1 then ans else ans ++ s!" !Labs={showNodes viaL.1}", true)
    | none => some (s, "diverge", true)
  | _ => none

/-- `zdump`: what the public API shows of the whole set: `GetRange(0,-1,false)` and `GetScore` of each -/
def zdump (z : ZS) : String :=
  match stepS z 0 (.getRange 0 (-1) false) with
  | some (_, .eles es) =>
    if es.isEmpty then "-" else ",".intercalate (es.map (fun e => s!"{(dget z.dict e).getD 0}:{e}"))
  | some (_, o) => showOut o
  | none => "diverge"

def drvStep (st : DrvState) (line : String) : DrvState × String :=
  match words line with
  | ["znew", ml] =>
    match ml.toNat? with
    | some ml => (.z (ZS.empty ml), "ok")
    | none => (st, "bad-op")
  | ["lnew", ml] =>
    match ml.toNat? with
    | some ml => (.l (S.new ml), "ok")
    | none => (st, "bad-op")
  | ws =>
    match st with
    | .none =>
      (st, if (parseZ ws).isSome || (stepL (S.new 1) ws).isSome || ws == ["zdump"] || ws == ["zshape"] then "no-state" else "bad-op")
    | .z z =>
      if ws == ["zdump"] then (st, zdump z)
      else if ws == ["zshape"] then (st, s!"ok # {showShape z.sl}")
      else
        match parseZ ws with
        | some (op, h) =>
          let viaL := showOut (step { dict := z.dict, zsl := S.abs z.sl } op).2
          match stepS z h op with
          | some (z', o) =>
            let ans := both (showOut o) viaL
            (.z z', if mutatesZ op then s!"{ans} # {showShape z'.sl}" else ans)
          | none => (st, "diverge")
        | none => (st, "bad-op")
    | .l l =>
      match stepL l ws with
      | some (l', out, shp) => (.l l', if shp then s!"{out} # {showShape l'}" else out)
      | none => (st, "bad-op")

def drvMain : IO Unit := Fatchoy.Drv.run DrvState.none drvStep

end Fatchoy.C11
