import Fatchoy.Model.C11
import Fatchoy.Drv.Util
namespace Fatchoy.C11
open Fatchoy.Drv

/-- what the driver holds: a sorted set (layer Z), a bare skip list (layer L), or nothing yet -/
inductive DrvState
  | none
  | z (s : ZSet)
  | l (s : SL)

def showNode (n : Node) : String := s!"{n.score}:{n.ele}"
def showNodeOpt : Option Node → String
  | some n => showNode n
  | none => "nil"
def showNodes (l : List Node) : String :=
  if l.isEmpty then "-" else ",".intercalate (l.map showNode)
def showBool (b : Bool) : String := if b then "true" else "false"

def showOut : Out → String
  | .int n => toString n
  | .bool b => showBool b
  | .eles l => showNatList l
  | .panic => "panic"

def sortNat (l : List Nat) : List Nat := (l.toArray.qsort (· < ·)).toList

def flag? (s : String) : Option Bool :=
  if s == "0" then some false else if s == "1" then some true else none

/-- layer Z commands: `z<method> args` -/
def parseZ : List String → Option Op
  | ["zlen"] => some .len
  | ["zadd", e, s] => do some (.add (← e.toNat?) (← s.toInt?))
  | ["zrem", e] => do some (.remove (← e.toNat?))
  | ["zrrs", a, b] => do some (.removeRangeByScore (← a.toInt?) (← b.toInt?))
  | ["zrrr", a, b] => do some (.removeRangeByRank (← a.toInt?) (← b.toInt?))
  | ["zcount", a, b] => do some (.count (← a.toInt?) (← b.toInt?))
  | ["zrank", e, r] => do some (.getRank (← e.toNat?) (← flag? r))
  | ["zscore", e] => do some (.getScore (← e.toNat?))
  | ["zrange", a, b, r] => do some (.getRange (← a.toInt?) (← b.toInt?) (← flag? r))
  | ["zrbs", a, b, r] => do some (.getRangeByScore (← a.toInt?) (← b.toInt?) (← flag? r))
  | _ => none

/-- layer L commands: one per exported `ZSkipList` method, answered from the content list -/
def stepL (l : SL) : List String → Option (SL × String)
  | ["llen"] => some (l, toString l.length)
  | ["lhead"] => some (l, showNodeOpt l.head?)
  | ["ltail"] => some (l, showNodeOpt l.getLast?)
  | ["ldump"] => some (l, s!"{showNodes l} | {showNodes l.reverse}")
  | ["linsert", s, e] => do
    let s ← s.toInt?; let e ← e.toNat?
    some (L.insert l s e, showNode ⟨s, e⟩)
  | ["ldelete", s, e] => do
    let s ← s.toInt?; let e ← e.toNat?
    let r := L.delete l s e
    some (r.1, showNodeOpt r.2)
  | ["lrank", s, e] => do
    let s ← s.toInt?; let e ← e.toNat?
    some (l, toString (L.getRank l s e))
  | ["lbyrank", r] => do
    let r ← r.toInt?
    some (l, match L.getElementByRank l r with
      | .head => "head"
      | .node n => showNode n
      | .none => "nil")
  | ["linrange", a, b] => do
    let a ← a.toInt?; let b ← b.toInt?
    some (l, showBool (L.isInRange l a b))
  | ["lfirst", a, b] => do
    let a ← a.toInt?; let b ← b.toInt?
    some (l, showNodeOpt (L.firstInRange l a b))
  | ["llast", a, b] => do
    let a ← a.toInt?; let b ← b.toInt?
    some (l, showNodeOpt (L.lastInRange l a b))
  | ["ldrs", a, b] => do
    let a ← a.toInt?; let b ← b.toInt?
    let r := L.deleteRangeByScore l a b
    some (r.1, s!"{r.2.length} del={showNatList (sortNat (r.2.map (·.ele)))}")
  | ["ldrr", a, b] => do
    let a ← a.toInt?; let b ← b.toInt?
    let r := L.deleteRangeByRank l a b
    some (r.1, s!"{r.2.length} del={showNatList (sortNat (r.2.map (·.ele)))}")
  | _ => none

/-- `zdump`: what the public API shows of the whole set: `GetRange(0,-1,false)` and `GetScore` of each -/
def zdump (z : ZSet) : String :=
  match (step z (.getRange 0 (-1) false)).2 with
  | .eles es =>
    if es.isEmpty then "-" else ",".intercalate (es.map (fun e => s!"{(dget z.dict e).getD 0}:{e}"))
  | o => showOut o

def drvStep (st : DrvState) (line : String) : DrvState × String :=
  match words line with
  | ["znew"] => (.z ZSet.empty, "ok")
  | ["lnew"] => (.l [], "ok")
  | ws =>
    match st with
    | .none => (st, if (parseZ ws).isSome || (stepL [] ws).isSome || ws == ["zdump"] then "no-state" else "bad-op")
    | .z z =>
      if ws == ["zdump"] then (st, zdump z) else
      match parseZ ws with
      | some op => let r := step z op; (.z r.1, showOut r.2)
      | none => (st, "bad-op")
    | .l l =>
      match stepL l ws with
      | some (l', out) => (.l l', out)
      | none => (st, "bad-op")

def drvMain : IO Unit := Fatchoy.Drv.run DrvState.none drvStep

end Fatchoy.C11
