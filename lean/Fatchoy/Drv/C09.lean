import Fatchoy.Model.C09
import Fatchoy.Drv.Util
namespace Fatchoy.C09
open Fatchoy.Drv

abbrev DSt := List (Nat × St)

def dget (d : DSt) (g : Nat) : Option St := (d.find? (fun e => e.1 == g)).map (·.2)
def dput (d : DSt) (g : Nat) (s : St) : DSt := (g, s) :: d.filter (fun e => e.1 != g)

def showSt (s : St) : String := s!"st={s.seq},{s.lastTs},{s.lastID},{s.bc}"

def showOut : Out → String
  | .ok id => s!"ok {id}"
  | .errTime => "err:time"
  | .errBack => "err:backwards"
  | .errOverflow => "err:overflow"
  | .starved => "starved"

structure Acc where
  nok : Nat := 0
  nerr : Nat := 0
  first : Option Nat := none
  last : Option Nat := none
  sum : Nat := 0
  wsum : Nat := 0

def Acc.add (a : Acc) : Out → Acc
  | .ok id => { a with nok := a.nok + 1, first := a.first.orElse (fun _ => some id), last := some id,
                       sum := (a.sum + id) % 2^64, wsum := (a.wsum + (a.nok + 1) * id) % 2^64 }
  | _ => { a with nerr := a.nerr + 1 }

def showOpt : Option Nat → String
  | some v => toString v
  | none => "-"

def Acc.show (a : Acc) : String :=
  s!"ok={a.nok} err={a.nerr} first={showOpt a.first} last={showOpt a.last} sum={a.sum} wsum={a.wsum}"

/-- `n` calls, each reading the same time unit once -/
def burst (P : Params) : Nat → St → Nat → Acc → St × Acc
  | 0, s, _, a => (s, a)
  | n + 1, s, r, a =>
    let (o, s', _) := next P s [r]
    burst P n s' r (a.add o)

/-- `n` calls reading from one shared stream of readings -/
def stream (P : Params) : Nat → St → List Nat → Acc → St × Acc × List Nat
  | 0, s, rs, a => (s, a, rs)
  | n + 1, s, rs, a =>
    let (o, s', rest) := next P s rs
    stream P n s' rest (a.add o)

def left (rest : List Nat) : String := if rest.isEmpty then "" else s!" left={rest.length}"

/--
`new g=<i> m=<machine id used> t0=<reading>`        → `mid=<masked id>`
`next g=<i> r=<r1,r2,..>`                            → outcome and state
`burst g=<i> n=<calls> r=<reading>`                  → digest of `n` calls reading `r`
`stream g=<i> n=<calls> r=<r1,r2,..>`                → digest of `n` calls sharing the readings
`tr <fn> <args…>`                                    → value of the translated `Gen.C09.Tr.<fn>`
-/
def drvStep (d : DSt) (line : String) : DSt × String :=
  let ws := words line
  match ws with
  | "new" :: _ =>
    match kvNat? ws "g", kvNat? ws "m", kvNat? ws "t0" with
    | some g, some m, some t0 =>
      if m < 65536 then
        let s := new params m t0
        (dput d g s, s!"mid={s.mid} {showSt s}")
      else (d, "bad-op")
    | _, _, _ => (d, "bad-op")
  | "next" :: _ =>
    match kvNat? ws "g", (kv? ws "r").bind natList? with
    | some g, some rs =>
      match dget d g with
      | some s =>
        let (o, s', rest) := next params s rs
        (dput d g s', s!"{showOut o} {showSt s'}{left rest}")
      | none => (d, "bad-op")
    | _, _ => (d, "bad-op")
  | "burst" :: _ =>
    match kvNat? ws "g", kvNat? ws "n", kvNat? ws "r" with
    | some g, some n, some r =>
      match dget d g with
      | some s =>
        let (s', a) := burst params n s r {}
        (dput d g s', s!"{a.show} {showSt s'}")
      | none => (d, "bad-op")
    | _, _, _ => (d, "bad-op")
  | "stream" :: _ =>
    match kvNat? ws "g", kvNat? ws "n", (kv? ws "r").bind natList? with
    | some g, some n, some rs =>
      match dget d g with
      | some s =>
        let (s', a, rest) := stream params n s rs {}
        (dput d g s', s!"{a.show} {showSt s'}{left rest}")
      | none => (d, "bad-op")
    | _, _, _ => (d, "bad-op")
  | "tr" :: fn :: args =>
    -- the translated source (Gen/C09.lean `Tr`) evaluated on the given arguments
    match args.mapM int? with
    | some a => (match Gen.C09.Tr.eval fn a with | some s => (d, s) | none => (d, "bad-op"))
    | none => (d, "bad-op")
  | _ => (d, "bad-op")

def drvMain : IO Unit := run ([] : DSt) drvStep

end Fatchoy.C09
