import Fatchoy.Model.C19
import Fatchoy.Drv.Util
namespace Fatchoy.C19
open Fatchoy.Drv

def errName : Err → String
  | .eof => "panic:eof"
  | .range => "panic:range"

/-- the widest value the line protocol accepts for a type: the bit patterns of the Go type (bool: 0/1) -/
def inDomain (P : Params) (t : Ty) (v : Nat) : Bool :=
  match t with
  | .bool => v < 2
  | .u8 | .i8 => v < 2^8
  | .u16 | .i16 => v < 2^16
  | .u32 | .i32 | .f32 => v < 2^32
  | .u64 | .i64 | .f64 => v < 2^64
  | .uint | .int => v < 2^(8 * P.word)

/-- state of the driver: the tables of the word size of the run, and the unread bytes -/
structure DrvState where
  P : Params
  b : Buf

/--
`arch bits=32|64` → `ok`                        the word size of the build that produced the op stream: selects the
                                                tables extracted for is64Bit = false / true (`mkParams`); without this
                                                line the platform of the extractor run (`params`) is assumed
`new`            → `ok`                         fresh buffer
`w <T> <bits>`   → `len=<n>`                    Write<T>, then Len()
`r <T>`          → `v=<bits> len=<n>` | `panic:eof`
`p <T>`          → `v=<bits> len=<n>` | `panic:range`     (Len() after the peek)
`bytes`          → hex of the unread bytes
`info`           → the word size and the row names the tables were extracted for
-/
def drvStep (s : DrvState) (line : String) : DrvState × String :=
  let P := s.P
  let b := s.b
  match words line with
  | ["arch", a] =>
    if a == "bits=64" then ({ P := mkParams true, b := [] }, "ok")
    else if a == "bits=32" then ({ P := mkParams false, b := [] }, "ok")
    else (s, "bad-op")
  | ["new"] => ({ s with b := [] }, "ok")
  | ["info"] => (s, s!"word={P.word} types={",".intercalate P.names}")
  | ["bytes"] => (s, hex b)
  | ["w", t, v] =>
    match Ty.ofName? t, v.toNat? with
    | some t, some v =>
      if inDomain P t v then
        let b' := write P b t v
        ({ s with b := b' }, s!"len={b'.length}")
      else (s, "bad-op")
    | _, _ => (s, "bad-op")
  | ["r", t] =>
    match Ty.ofName? t with
    | some t =>
      match read P b t with
      | .ok (v, b') => ({ s with b := b' }, s!"v={v} len={b'.length}")
      | .error e => (s, errName e)
    | none => (s, "bad-op")
  | ["p", t] =>
    match Ty.ofName? t with
    | some t =>
      match peek P b t with
      | .ok v => (s, s!"v={v} len={b.length}")
      | .error e => (s, errName e)
    | none => (s, "bad-op")
  | _ => (s, "bad-op")

def drvMain : IO Unit := run ({ P := params, b := [] } : DrvState) drvStep

end Fatchoy.C19
