import Fatchoy.Model.C19
import Fatchoy.Drv.Util
namespace Fatchoy.C19
open Fatchoy.Drv

def errName : Err → String
  | .eof => "panic:eof"
  | .range => "panic:range"

/-- the widest value the line protocol accepts for a type: the bit patterns of the Go type (bool: 0/1) -/
def inDomain (t : Ty) (v : Nat) : Bool :=
  match t with
  | .bool => v < 2
  | .u8 | .i8 => v < 2^8
  | .u16 | .i16 => v < 2^16
  | .u32 | .i32 | .f32 => v < 2^32
  | .u64 | .i64 | .f64 => v < 2^64
  | .uint | .int => v < 2^(8 * params.word)

/--
`new`            → `ok`                         fresh buffer
`w <T> <bits>`   → `len=<n>`                    Write<T>, then Len()
`r <T>`          → `v=<bits> len=<n>` | `panic:eof`
`p <T>`          → `v=<bits> len=<n>` | `panic:range`     (Len() after the peek)
`bytes`          → hex of the unread bytes
`info`           → the platform word size and the row names the tables were extracted for
-/
def drvStep (b : Buf) (line : String) : Buf × String :=
  match words line with
  | ["new"] => ([], "ok")
  | ["info"] => (b, s!"word={params.word} types={",".intercalate params.names}")
  | ["bytes"] => (b, hex b)
  | ["w", t, v] =>
    match Ty.ofName? t, v.toNat? with
    | some t, some v =>
      if inDomain t v then
        let b' := write params b t v
        (b', s!"len={b'.length}")
      else (b, "bad-op")
    | _, _ => (b, "bad-op")
  | ["r", t] =>
    match Ty.ofName? t with
    | some t =>
      match read params b t with
      | .ok (v, b') => (b', s!"v={v} len={b'.length}")
      | .error e => (b, errName e)
    | none => (b, "bad-op")
  | ["p", t] =>
    match Ty.ofName? t with
    | some t =>
      match peek params b t with
      | .ok v => (b, s!"v={v} len={b.length}")
      | .error e => (b, errName e)
    | none => (b, "bad-op")
  | _ => (b, "bad-op")

def drvMain : IO Unit := run ([] : Buf) drvStep

end Fatchoy.C19
