import Fatchoy.Model.C16
import Fatchoy.Drv.Util
namespace Fatchoy.C16
open Fatchoy.Drv

def showOut : Option (Bytes × Bytes) → String
  | some (out, buf) => s!"ok out={hex out} buf={hex buf}"
  | none => "panic"

/--
`enc bs=<n> key=<hex> iv=<hex> buf=<hex> m=<hex>` / `dec …`: one call of the CFB core through the
  dispatcher, block function = `toyE key`; answer: the packet and the scratch buffer afterwards, or `panic`.
`salsa ks=<hex> m=<hex>` / `salsad …`: Encrypt / Decrypt of the salsa20 cryptor given its keystream prefix.
`none m=<hex>` / `noned …`.
-/
def drvStep (_ : Unit) (line : String) : Unit × String :=
  let ws := words line
  match ws.head? with
  | some verb =>
    if verb == "enc" || verb == "dec" then
      match kvNat? ws "bs", (kv? ws "key").bind unhex?, (kv? ws "iv").bind unhex?,
            (kv? ws "buf").bind unhex?, (kv? ws "m").bind unhex? with
      | some bs, some key, some iv, some buf, some m =>
        if ws.length ≠ 6 then ((), "bad-op") else
        if verb == "enc" then ((), showOut (encrypt params (toyE key) bs iv buf m))
        else ((), showOut (decrypt params (toyE key) bs iv buf m))
      | _, _, _, _, _ => ((), "bad-op")
    else if verb == "salsa" || verb == "salsad" then
      match (kv? ws "ks").bind unhex?, (kv? ws "m").bind unhex? with
      | some ks, some m =>
        if ws.length ≠ 3 || ks.length < m.length then ((), "bad-op") else
        let ksa := ks.toArray
        let f := fun i => ksa.getD i 0
        if verb == "salsa" then ((), s!"ok out={hex (salsaEncrypt f m)}")
        else match salsaDecrypt params f m with
          | some out => ((), s!"ok out={hex out}")
          | none => ((), "unknown")
      | _, _ => ((), "bad-op")
    else if verb == "none" || verb == "noned" then
      match (kv? ws "m").bind unhex? with
      | some m =>
        if ws.length ≠ 2 then ((), "bad-op") else
        match noneCrypt params m with
        | some out => ((), s!"ok out={hex out}")
        | none => ((), "unknown")
      | none => ((), "bad-op")
    else ((), "bad-op")
  | none => ((), "bad-op")

def drvMain : IO Unit := Fatchoy.Drv.run () drvStep

end Fatchoy.C16
