import Fatchoy.Model.C01Params
import Fatchoy.Drv.WireCodec
namespace Fatchoy.C01

/-- the shared codec driver (Drv/WireCodec.lean) on the parameters regenerated for C01 -/
def drvMain : IO Unit := Fatchoy.Codec.Drv.drvMainWith params

end Fatchoy.C01
