import Fatchoy.Model.C05Sched
import Fatchoy.Drv.Util
/-!
Line-protocol driver of the timer models (C05 and C06 share it).

  new wheel pos=P time=T | new heap time=T      fresh scheduler                         -> ok
  after D | every P                             client RunAfter / RunEvery (D, P: Int)  -> id=N | full
  cancel ID                                     client Cancel                           -> true | false | full
  add | del                                     worker handles one start / cancel       -> ok | none | panic
  advance N     wheel: N ticks (one `update`); heap: N units pass, then one tick        -> fired=ids | panic
  clock N       heap: N units pass, no tick                                             -> ok
  size | sched ID | links                       Size(), IsScheduled(ID), where the back end holds which id

The consumer of `C` is the driver: it empties the delivery log before every `advance` and prints what
the step put there.
-/
namespace Fatchoy.C05
open Fatchoy.Drv

inductive Sim
  | off
  | wheel (s : WS)
  | heap (s : HS)

def showOut : Out → String
  | .id n => s!"id={n}"
  | .bool b => if b then "true" else "false"
  | .idle => "none"
  | .done => "ok"

def firedOf (f : Front) : String := "fired=" ++ showNatList (f.log.reverse.map (·.2))

def insertSorted (x : Nat) : List Nat → List Nat
  | [] => [x]
  | y :: ys => if x ≤ y then x :: y :: ys else y :: insertSorted x ys
def sortNat (l : List Nat) : List Nat := l.foldr insertSorted []

def wheelTicks (G : Geom) : Nat → WS → WS
  | 0, s => s
  | n + 1, s => wheelTicks G n (WS.tick G s)

def linksW (G : Geom) (s : WS) : String :=
  " ".intercalate ((List.range (G.levels + 1)).map fun k =>
    s!"{k}:" ++ showNatList (sortNat ((s.w.nodes.filter (·.level == k)).map (·.id))))

def clampInt (lo : Nat) (i : Int) : Nat := if i < 0 then lo else i.toNat

def act? (ws : List String) : Option Act :=
  match ws with
  | ["after", d] => (int? d).map fun d => .after (clampInt 0 d)
  | ["every", p] => (int? p).map fun p => .every (clampInt 1 p)
  | ["add"] => some .add
  | ["del"] => some .del
  | _ => none

def drvStep (G : Geom) (sim : Sim) (line : String) : Sim × String :=
  let ws := words line
  match ws with
  | ["new", "wheel", p, t] =>
    match (kvNat? [p] "pos"), (kvNat? [t] "time") with
    | some p, some t =>
      if p < G.wrap then (.wheel (WS.init ((p + G.wrap - t % G.wrap) % G.wrap) t), "ok") else (sim, "bad-op")
    | _, _ => (sim, "bad-op")
  | ["new", "heap", t] =>
    match kvNat? [t] "time" with
    | some t => (.heap (HS.init t), "ok")
    | none => (sim, "bad-op")
  | _ =>
  match sim with
  | .off => (sim, "bad-op")
  | .wheel s =>
    match ws with
    | ["cancel", i] =>
      match int? i with
      | some i =>
        if i < 0 then (sim, "false") else
        match WS.step G s (.cancel i.toNat) with
        | .ok s' o => (.wheel s', showOut o)
        | .blocked => (sim, "full")
        | .panic => (.off, "panic")
      | none => (sim, "bad-op")
    | ["advance", n] =>
      match nat? n with
      | some n =>
        let s0 := { s with f := { s.f with log := [], dues := [] } }
        let s' := wheelTicks G n s0
        (.wheel s', firedOf s'.f)
      | none => (sim, "bad-op")
    | ["size"] => (sim, toString s.f.refer.length)
    | ["sched", i] =>
      match int? i with
      | some i => (sim, if i ≥ 0 ∧ i.toNat ∈ s.f.refer then "true" else "false")
      | none => (sim, "bad-op")
    | ["links"] => (sim, linksW G s)
    | _ =>
      match act? ws with
      | some a =>
        match WS.step G s a with
        | .ok s' o => (.wheel s', showOut o)
        | .blocked => (sim, "full")
        | .panic => (.off, "panic")
      | none => (sim, "bad-op")
  | .heap s =>
    match ws with
    | ["cancel", i] =>
      match int? i with
      | some i =>
        if i < 0 then (sim, "false") else
        match HS.step G s (.cancel i.toNat) with
        | .ok s' o => (.heap s', showOut o)
        | .blocked => (sim, "full")
        | .panic => (.off, "panic")
      | none => (sim, "bad-op")
    | ["advance", n] =>
      match nat? n with
      | some n =>
        let s0 := { s with now := s.now + n, f := { s.f with log := [], dues := [] } }
        match HS.step G s0 .tick with
        | .ok s' _ => (.heap s', firedOf s'.f)
        | _ => (.off, "panic")
      | none => (sim, "bad-op")
    | ["clock", n] =>
      match nat? n with
      | some n => (.heap { s with now := s.now + n }, "ok")
      | none => (sim, "bad-op")
    | ["size"] => (sim, toString s.f.refer.length)
    | ["sched", i] =>
      match int? i with
      | some i => (sim, if i ≥ 0 ∧ i.toNat ∈ s.f.refer then "true" else "false")
      | none => (sim, "bad-op")
    | ["links"] => (sim, "0:" ++ showNatList (sortNat (s.heap.map (·.id))))
    | _ =>
      match act? ws with
      | some a =>
        match HS.step G s a with
        | .ok s' o => (.heap s', showOut o)
        | .blocked => (sim, "full")
        | .panic => (.off, "panic")
      | none => (sim, "bad-op")

def drvMain : IO Unit := run Sim.off (drvStep geom)

end Fatchoy.C05
