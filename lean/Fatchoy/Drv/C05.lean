import Fatchoy.Model.C06Fine
import Fatchoy.Model.C05BinHeap
import Fatchoy.Drv.Util
/-!
Line-protocol driver of the timer models (C05 and C06 share it).

  new wheel pos=P time=T | new heap time=T      fresh scheduler                         -> ok
  after D | every P                             client RunAfter / RunEvery (D, P: Int)  -> id=N | full
  cancel ID                                     client Cancel                           -> true | false | full
  add | del                                     worker handles one start / cancel       -> ok | none | panic
  advance N     wheel: N ticks (one `update`); heap: N units pass, then one tick        -> fired=ids | panic
  clock N       heap: N units pass, no tick                                             -> ok
  size | sched ID | links                       Size(), IsScheduled(ID), where the back end holds which id
  harr          heap: the ARRAY of the structural model (Model/C05BinHeap.lean), `ID@INDEX:DEADLINE` in array order
                (the structural heap runs beside the sorted list; `arr-mismatch` if its sorted contents differ from it)
  fbegin N      a tick in steps (Model/C06Fine.lean): wheel: enter tick; heap: N units pass, enter tick  -> ok
  yield         run the worker to its next schedule point inside the tick              -> decide ID | send ID | none
                (client lines after it are calls made AT that point: after / every / cancel / size / sched)
  fend          run the worker to the end of the tick (no further schedule point may come: bad-sched)   -> fired=ids

The consumer of `C` is the driver: it empties the delivery log before every `advance` and prints what
the step put there.
-/
namespace Fatchoy.C05
open Fatchoy.Drv

/-- `ann`: the worker is paused AT a schedule point that has been announced (the step behind it runs with
the next `yield` / `fend`) -/
inductive Sim
  | off
  | wheel (x : WF) (ann : Bool)
  | heap (x : HF) (ann : Bool) (b : BHeap)

def showOut : Out → String
  | .id n => s!"id={n}"
  | .bool b => if b then "true" else "false"
  | .idle => "none"
  | .done => "ok"

def firedOf (f : Front) : String := "fired=" ++ showNatList (f.log.reverse.map (·.2))

def insertSorted (x : Nat) : List Nat → List Nat
  | [] => [x]
  | y :: ys => if x ≤ y then x :: y :: ys else y :: insertSorted x ys
def sortNat (l : List Nat) : List Nat := l.foldr insertSorted []

def wheelTicks (G : Geom) : Nat → WS → WS
  | 0, s => s
  | n + 1, s => wheelTicks G n (WS.tick G s)

def linksW (G : Geom) (s : WS) : String :=
  " ".intercalate ((List.range (G.levels + 1)).map fun k =>
    s!"{k}:" ++ showNatList (sortNat ((s.w.nodes.filter (·.level == k)).map (·.id))))

def clampInt (lo : Nat) (i : Int) : Nat := if i < 0 then lo else i.toNat

def act? (ws : List String) : Option Act :=
  match ws with
  | ["after", d] => (int? d).map fun d => .after (clampInt 0 d)
  | ["every", p] => (int? p).map fun p => .every (clampInt 1 p)
  | ["add"] => some .add
  | ["del"] => some .del
  | _ => none

/-- schedule point the wheel's worker is at, if any: (kind, id) -/
def wPoint (x : WF) : Option (String × Nat) :=
  match x.pc with
  | .pass _ (n :: _) => some ("decide", n.id)
  | .send _ n _ => some ("send", n.id)
  | _ => none

/-- schedule point the heap's worker is at, if any -/
def hPoint (x : HF) : Option (String × Nat) :=
  match x.pc with
  | .trig now maxId _ =>
    match x.s.heap with
    | n :: _ => if now < n.deadline then none else if n.id > maxId then none else some ("decide", n.id)
    | [] => none
  | .sends _ (p :: _) => some ("send", p.1)
  | _ => none

def wIdle (x : WF) : Bool := match x.pc with | .idle => true | _ => false
def hIdle (x : HF) : Bool := match x.pc with | .idle => true | _ => false

/-- run the worker's silent steps (no schedule point) until a schedule point or the end of the tick;
`none` = a step panicked -/
def wSilent (G : Geom) : Nat → WF → Option WF
  | 0, x => some x
  | fuel + 1, x =>
    if wIdle x || (wPoint x).isSome then some x else
    match WF.step G x .next with
    | .ok x' _ => wSilent G fuel x'
    | _ => none

def hSilent (G : Geom) : Nat → HF → Option HF
  | 0, x => some x
  | fuel + 1, x =>
    if hIdle x || (hPoint x).isSome then some x else
    match HF.step G x .next with
    | .ok x' _ => hSilent G fuel x'
    | _ => none

/-- the structural heap after the worker step `a` (add / del / tick) taken from sorted-list state `s` -/
def shadowAct (G : Geom) (s : HS) (b : BHeap) (a : Act) : BHeap :=
  match BS.step G { now := s.now, arr := b, f := s.f } a with
  | .ok s' _ => s'.arr
  | _ => b

/-- the structural heap after one fine-grained worker step -/
def shadowNext (x : HF) (b : BHeap) : BHeap :=
  match x.pc with
  | .trig now maxId _ =>
    match BS.trigOne now maxId { now := x.s.now, arr := b, f := x.s.f } with
    | .cont s' _ => s'.arr
    | _ => b
  | _ => b

def hNextB (G : Geom) (x : HF) (b : BHeap) : Option (HF × BHeap) :=
  match HF.step G x .next with
  | .ok x' _ => some (x', shadowNext x b)
  | _ => none

def hSilentB (G : Geom) : Nat → HF × BHeap → Option (HF × BHeap)
  | 0, p => some p
  | fuel + 1, (x, b) =>
    if hIdle x || (hPoint x).isSome then some (x, b) else
    match hNextB G x b with
    | some p => hSilentB G fuel p
    | none => none

def showArr (b : BHeap) : String :=
  if b.isEmpty then "arr=-" else
  "arr=" ++ ",".intercalate (b.toList.map fun x => s!"{x.n.id}@{x.index}:{x.n.deadline}")

def showPoint : Option (String × Nat) → String
  | some (k, id) => s!"{k} {id}"
  | none => "none"

def drvStep (G : Geom) (sim : Sim) (line : String) : Sim × String :=
  let ws := words line
  match ws with
  | ["new", "wheel", p, t] =>
    match (kvNat? [p] "pos"), (kvNat? [t] "time") with
    | some p, some t =>
      if p < G.wrap then (.wheel (WF.init ((p + G.wrap - t % G.wrap) % G.wrap) t) false, "ok") else (sim, "bad-op")
    | _, _ => (sim, "bad-op")
  | ["new", "heap", t] =>
    match kvNat? [t] "time" with
    | some t => (.heap (HF.init t) false #[], "ok")
    | none => (sim, "bad-op")
  | _ =>
  match sim with
  | .off => (sim, "bad-op")
  | .wheel x ann =>
    let s := x.s
    let put (s' : WS) : Sim := .wheel { x with s := s' } ann
    match ws with
    | ["cancel", i] =>
      match int? i with
      | some i =>
        if i < 0 then (sim, "false") else
        match WS.step G s (.cancel i.toNat) with
        | .ok s' o => (put s', showOut o)
        | .blocked => (sim, "full")
        | .panic => (.off, "panic")
      | none => (sim, "bad-op")
    | ["advance", n] =>
      match nat? n with
      | some n =>
        if !wIdle x then (sim, "bad-op") else
        let s0 := { s with f := { s.f with log := [], dues := [] } }
        let s' := wheelTicks G n s0
        (put s', firedOf s'.f)
      | none => (sim, "bad-op")
    | ["fbegin", _] =>
      if !wIdle x then (sim, "bad-op") else
      let x0 : WF := { x with s := { s with f := { s.f with log := [], dues := [] } } }
      match WF.step G x0 .begin with
      | .ok x' _ => (.wheel x' false, "ok")
      | _ => (sim, "bad-op")
    | ["yield"] =>
      let x1 := if ann then (match WF.step G x .next with | .ok x' _ => some x' | _ => none) else some x
      match x1.bind (wSilent G 8) with
      | some x' => (.wheel x' (wPoint x').isSome, showPoint (wPoint x'))
      | none => (.off, "panic")
    | ["fend"] =>
      let x1 := if ann then (match WF.step G x .next with | .ok x' _ => some x' | _ => none) else some x
      match x1.bind (wSilent G 8) with
      | some x' => if wIdle x' then (.wheel x' false, firedOf x'.s.f) else (.wheel x' false, "bad-sched")
      | none => (.off, "panic")
    | ["size"] => (sim, toString s.f.refer.length)
    | ["sched", i] =>
      match int? i with
      | some i => (sim, if i ≥ 0 ∧ i.toNat ∈ s.f.refer then "true" else "false")
      | none => (sim, "bad-op")
    | ["links"] => (sim, linksW G s)
    | _ =>
      match act? ws with
      | some a =>
        if (a == .add || a == .del) && !wIdle x then (sim, "bad-op") else
        match WS.step G s a with
        | .ok s' o => (put s', showOut o)
        | .blocked => (sim, "full")
        | .panic => (.off, "panic")
      | none => (sim, "bad-op")
  | .heap x ann b =>
    let s := x.s
    let put (s' : HS) : Sim := .heap { x with s := s' } ann b
    match ws with
    | ["cancel", i] =>
      match int? i with
      | some i =>
        if i < 0 then (sim, "false") else
        match HS.step G s (.cancel i.toNat) with
        | .ok s' o => (put s', showOut o)
        | .blocked => (sim, "full")
        | .panic => (.off, "panic")
      | none => (sim, "bad-op")
    | ["advance", n] =>
      match nat? n with
      | some n =>
        if !hIdle x then (sim, "bad-op") else
        let s0 := { s with now := s.now + n, f := { s.f with log := [], dues := [] } }
        match HS.step G s0 .tick with
        | .ok s' _ => (.heap { x with s := s' } ann (shadowAct G s0 b .tick), firedOf s'.f)
        | _ => (.off, "panic")
      | none => (sim, "bad-op")
    | ["fbegin", n] =>
      match nat? n with
      | some n =>
        if !hIdle x then (sim, "bad-op") else
        let x0 : HF := { x with s := { s with now := s.now + n, f := { s.f with log := [], dues := [] } } }
        match HF.step G x0 .begin with
        | .ok x' _ => (.heap x' false b, "ok")
        | _ => (sim, "bad-op")
      | none => (sim, "bad-op")
    | ["yield"] =>
      let x1 := if ann then hNextB G x b else some (x, b)
      match x1.bind (hSilentB G 8) with
      | some (x', b') => (.heap x' (hPoint x').isSome b', showPoint (hPoint x'))
      | none => (.off, "panic")
    | ["fend"] =>
      let x1 := if ann then hNextB G x b else some (x, b)
      match x1.bind (hSilentB G 8) with
      | some (x', b') => if hIdle x' then (.heap x' false b', firedOf x'.s.f) else (.heap x' false b', "bad-sched")
      | none => (.off, "panic")
    | ["clock", n] =>
      match nat? n with
      | some n => (put { s with now := s.now + n }, "ok")
      | none => (sim, "bad-op")
    | ["size"] => (sim, toString s.f.refer.length)
    | ["sched", i] =>
      match int? i with
      | some i => (sim, if i ≥ 0 ∧ i.toNat ∈ s.f.refer then "true" else "false")
      | none => (sim, "bad-op")
    | ["links"] => (sim, "0:" ++ showNatList (sortNat (s.heap.map (·.id))))
    | ["harr"] => (sim, if (b.toList.map (·.n)).foldr hinsert [] == s.heap then showArr b else "arr-mismatch")
    | _ =>
      match act? ws with
      | some a =>
        if (a == .add || a == .del) && !hIdle x then (sim, "bad-op") else
        match HS.step G s a with
        | .ok s' o => (.heap { x with s := s' } ann (shadowAct G s b a), showOut o)
        | .blocked => (sim, "full")
        | .panic => (.off, "panic")
      | none => (sim, "bad-op")

def drvMain : IO Unit := run Sim.off (drvStep geom)

end Fatchoy.C05
