import Fatchoy.Model.C02Params
import Fatchoy.Drv.WireCodec
namespace Fatchoy.C02

/-- the shared codec driver (Drv/WireCodec.lean) on the parameters regenerated for C02 -/
def drvMain : IO Unit := Fatchoy.Codec.Drv.drvMainWith params

end Fatchoy.C02
