import Fatchoy.Model.C20
import Fatchoy.Drv.Util
namespace Fatchoy.C20
open Fatchoy.Drv

/-- `node <service> <instance>` → every observable of the id; `parse <text>` → value or `err` -/
def drvStep (_ : Unit) (line : String) : Unit × String :=
  match words line with
  | ["node", s, i] =>
    match s.toNat?, i.toNat? with
    | some s, some i =>
      if s < 256 ∧ i < 65536 then
        let n := make params s i
        let str := toStringL params n
        let strS := match str with | some cs => String.ofList cs | none => "?"
        let back := match str with
          | some cs => (match parse params cs with | some v => toString v | none => "err")
          | none => "err"
        ((), s!"id={n} svc={service params n} inst={inst n} backend={isBackend params n} str={strS} parse={back}")
      else ((), "bad-op")
    | _, _ => ((), "bad-op")
  | ["parse", t] =>
    match parse params t.toList with
    | some v => ((), s!"ok {v}")
    | none => ((), "err")
  | ["parse"] => ((), "err")
  | _ => ((), "bad-op")

def drvMain : IO Unit := run () drvStep

end Fatchoy.C20
