import Fatchoy.Model.C20
import Fatchoy.Drv.Util
namespace Fatchoy.C20
open Fatchoy.Drv

/-- `node <service> <instance>` → every observable of the id; `parse <text>` → value or `err`;
`tr <fn> <args…>` → value of the translated function `Gen.C20.Tr.<fn>` -/
def drvStep (_ : Unit) (line : String) : Unit × String :=
  match words line with
  | ["node", s, i] =>
    match s.toNat?, i.toNat? with
    | some s, some i =>
      if s < 256 ∧ i < 65536 then
        let n := make params s i
        let str := toStringL params n
        let strS := match str with | some cs => String.ofList cs | none => "?"
        let back := match str with
          | some cs => (match parse params cs with | some v => toString v | none => "err")
          | none => "err"
        ((), s!"id={n} svc={service params n} inst={inst n} backend={isBackend params n} str={strS} parse={back}")
      else ((), "bad-op")
    | _, _ => ((), "bad-op")
  | ["parse", t] =>
    match parse params t.toList with
    | some v => ((), s!"ok {v}")
    | none => ((), "err")
  | ["parse"] => ((), "err")
  | "tr" :: fn :: args =>
    -- the translated source (Gen/C20.lean `Tr`) evaluated on the given arguments
    match args.mapM int? with
    | some a => (match Gen.C20.Tr.eval fn a with | some s => ((), s) | none => ((), "bad-op"))
    | none => ((), "bad-op")
  | _ => ((), "bad-op")

def drvMain : IO Unit := run () drvStep

end Fatchoy.C20
