/-
Shared helpers of the model drivers (line protocol: one op per line on stdin, one answer per line on stdout).
A line is `verb k=v k=v ...` or `verb arg arg ...`; bytes travel as lower-case hex.  Core-only.
-/
namespace Fatchoy.Drv

def words (line : String) : List String :=
  (line.splitOn " ").filter (· ≠ "") |>.map (fun s => (s.dropEndWhile (fun c => c == '\n' || c == '\r')).toString) |>.filter (· ≠ "")

/-- value of `key=` among the words, if present -/
def kv? (ws : List String) (key : String) : Option String :=
  let pre := key ++ "="
  match ws.find? (fun w => w.startsWith pre) with
  | some w => some (w.drop pre.length).toString
  | none => none

def nat? (s : String) : Option Nat := s.toNat?
def int? (s : String) : Option Int := s.toInt?

def kvNat? (ws : List String) (key : String) : Option Nat := (kv? ws key).bind nat?
def kvInt? (ws : List String) (key : String) : Option Int := (kv? ws key).bind int?

def hexVal? (c : Char) : Option Nat :=
  if '0' ≤ c ∧ c ≤ '9' then some (c.toNat - 48)
  else if 'a' ≤ c ∧ c ≤ 'f' then some (c.toNat - 87)
  else none

/-- decode lower-case hex (`-` stands for the empty byte string) -/
def unhex? (s : String) : Option (List UInt8) :=
  if s == "-" then some [] else
  let rec go : List Char → List UInt8 → Option (List UInt8)
    | [], acc => some acc.reverse
    | [_], _ => none
    | a :: b :: rest, acc =>
      match hexVal? a, hexVal? b with
      | some x, some y => go rest (UInt8.ofNat (x * 16 + y) :: acc)
      | _, _ => none
  go s.toList []

def hexChar (n : Nat) : Char := if n < 10 then Char.ofNat (48 + n) else Char.ofNat (87 + n)

def hex (bs : List UInt8) : String :=
  if bs.isEmpty then "-" else
  String.ofList (bs.foldr (fun b acc => hexChar (b.toNat / 16) :: hexChar (b.toNat % 16) :: acc) [])

def natList? (s : String) : Option (List Nat) :=
  if s == "-" then some [] else (s.splitOn ",").mapM nat?

def showNatList (l : List Nat) : String :=
  if l.isEmpty then "-" else ",".intercalate (l.map toString)

/-- stateful line loop -/
partial def loop {σ : Type} (h : IO.FS.Stream) (out : IO.FS.Stream) (s : σ) (step : σ → String → σ × String) : IO Unit := do
  let line ← h.getLine
  if line.isEmpty then
    out.flush
    return ()
  let (s', o) := step s line
  out.putStrLn o
  loop h out s' step

def run {σ : Type} (init : σ) (step : σ → String → σ × String) : IO Unit := do
  let stdin ← IO.getStdin
  let stdout ← IO.getStdout
  loop stdin stdout init step

end Fatchoy.Drv
