import Fatchoy.Model.C14
import Fatchoy.Drv.Util
namespace Fatchoy.C14
open Fatchoy.Drv

/-- runes travel as comma-separated code points, `-` = the empty string.
  `new` | `reset` → `ok`; `add w` → `size=n`; `remove w` → `true|false size=n`;
  `obs text` → `exact=… contains=… filter=<runes>` -/
def drvStep (t : Trie) (line : String) : Trie × String :=
  match words line with
  | ["new"] => (Trie.empty, "ok")
  | ["reset"] => (Trie.empty, "ok")
  | ["add", w] =>
    match natList? w with
    | some w => let t' := addWord t w; (t', s!"size={t'.size}")
    | none => (t, "bad-op")
  | ["remove", w] =>
    match natList? w with
    | some w => let r := remove params t w; (r.1, s!"{r.2} size={r.1.size}")
    | none => (t, "bad-op")
  | ["obs", w] =>
    match natList? w with
    | some w =>
      (t, s!"exact={exactMatch params t w} contains={contains params t w} filter={showNatList (filter params t w)}")
    | none => (t, "bad-op")
  | _ => (t, "bad-op")

def drvMain : IO Unit := Fatchoy.Drv.run Trie.empty drvStep

end Fatchoy.C14
