import Fatchoy.Model.C12Params
import Fatchoy.Drv.Util
namespace Fatchoy.C12
open Fatchoy.Drv

/-- values on the wire: an integer or `nil` -/
abbrev V := Option Int

structure DrvState where
  dq : Deque V := Deque.zero
  uq : UQ V := UQ.zero
  cq : UQ V := UQ.zero

def val? (s : String) : Option V :=
  if s == "nil" then some none else (s.toInt?).map some

def showV : V → String
  | none => "nil"
  | some i => toString i

def dTail (d : Deque V) : String := s!"len={d.count} cap={d.buf.length}"

def showOut (d : Deque V) : Out V → String
  | .ok => s!"ok {dTail d}"
  | .val v => s!"v={showV v} {dTail d}"
  | .panic => s!"panic {dTail d}"

/-- one deque call: the answer carries Len() and Cap() after the call; `fault` = the model met a
  run-time fault (index out of range) that the real code would have crashed on -/
def dOp (s : DrvState) (op : Op V) : DrvState × String :=
  match step params s.dq op with
  | some (d', o) => ({ s with dq := d' }, showOut d' o)
  | none => (s, "fault")

def uShow (q : UQ V) : UOut V → String
  | .ok => s!"ok len={q.len}"
  | .val v => s!"v={showV v} len={q.len}"
  | .empty => s!"empty len={q.len}"
  | .num n => s!"n={n} len={q.len}"

def drvStep (s : DrvState) (line : String) : DrvState × String :=
  match words line with
  -- deque
  | ["dzero"] => let d : Deque V := Deque.zero; ({ s with dq := d }, s!"ok {dTail d}")
  | "dnew" :: args =>
    match args.mapM String.toInt? with
    | some size =>
      if size.length ≤ 2 then
        match (Deque.new params size : Option (Deque V)) with
        | some d => ({ s with dq := d }, s!"ok {dTail d}")
        | none => (s, "fault")
      else (s, "bad-op")
    | none => (s, "bad-op")
  | ["pb", v] => match val? v with | some v => dOp s (.pushBack v) | none => (s, "bad-op")
  | ["pf", v] => match val? v with | some v => dOp s (.pushFront v) | none => (s, "bad-op")
  | ["popf"] => dOp s .popFront
  | ["popb"] => dOp s .popBack
  | ["front"] => dOp s .front
  | ["back"] => dOp s .back
  | ["at", i] => match i.toInt? with | some i => dOp s (.at i) | none => (s, "bad-op")
  | ["set", i, v] => match i.toInt?, val? v with | some i, some v => dOp s (.set i v) | _, _ => (s, "bad-op")
  | ["clear"] => dOp s .clear
  | ["rot", n] => match n.toInt? with | some n => dOp s (.rotate n) | none => (s, "bad-op")
  | ["smc", e] => match e.toNat? with | some e => dOp s (.setMinCap e) | none => (s, "bad-op")
  | ["dump"] =>
    let items := abs s.dq
    let body := if items.isEmpty then "-" else ",".intercalate (items.map showV)
    (s, s!"items={body} {dTail s.dq}")
  -- unbounded queue
  | ["unew"] => ({ s with uq := UQ.zero }, "ok len=0")
  | ["upush", v] => match val? v with
    | some v => (match s.uq.step params (.push v) with
      | some (q, o) => ({ s with uq := q }, uShow q o) | none => (s, "fault"))
    | none => (s, "bad-op")
  | ["upop"] => (match s.uq.step params .pop with
      | some (q, o) => ({ s with uq := q }, uShow q o) | none => (s, "fault"))
  | ["ufront"] => (match s.uq.step params .front with
      | some (q, o) => ({ s with uq := q }, uShow q o) | none => (s, "fault"))
  | ["ulen"] => (match s.uq.step params .len with
      | some (q, o) => ({ s with uq := q }, uShow q o) | none => (s, "fault"))
  | ["uinit"] => (match s.uq.step params .init with
      | some (q, o) => ({ s with uq := q }, uShow q o) | none => (s, "fault"))
  -- concurrent queue: one line = one atomic action of goroutine g
  | ["cnew"] => ({ s with cq := UQ.zero }, "ok len=0")
  | "cq" :: g :: rest =>
    match g.toNat? with
    | none => (s, "bad-op")
    | some g =>
      let act : Option (CAct V) := match rest with
        | ["enq", v] => (val? v).map (CAct.enqueue g)
        | ["deq"] => some (.dequeue g)
        | ["peek"] => some (.peek g)
        | ["len"] => some (.len g)
        | _ => none
      match act with
      | none => (s, "bad-op")
      | some a => match cstep params s.cq a with
        | some (q, o) => ({ s with cq := q }, uShow q o)
        | none => (s, "fault")
  | "tr" :: fn :: args =>
    -- the translated source (Gen/C12.lean `Tr`, int = 64 bits) evaluated on the given arguments
    match args.mapM Fatchoy.Drv.int? with
    | some a => (match Gen.C12.Tr.eval fn a with | some o => (s, o) | none => (s, "bad-op"))
    | none => (s, "bad-op")
  | "tr32" :: fn :: args =>
    -- … and `Tr32` (int = 32 bits, the GOARCH=386 leg)
    match args.mapM Fatchoy.Drv.int? with
    | some a => (match Gen.C12.Tr32.eval fn a with | some o => (s, o) | none => (s, "bad-op"))
    | none => (s, "bad-op")
  | _ => (s, "bad-op")

def drvMain : IO Unit := Fatchoy.Drv.run ({} : DrvState) drvStep

end Fatchoy.C12
