/-
Line-protocol driver shared by C03 and C04: collects the visible events of one run of the real connection
(`cfg …` starts a run, one event per line, each answered `-`) and, on `verdict`, answers whether the LTS of
Model/Conn.lean has an execution that explains them (`accept` / `reject`).  Core-only.
-/
import Fatchoy.Model.ConnTrace
import Fatchoy.Drv.Util
namespace Fatchoy.Conn
open Fatchoy.Drv

structure DState where
  cfg : Cfg := ⟨0, 0, 0, 0⟩
  evs : Array Ev := #[]
  ni : Nat := 0          -- inbound receives returned so far
  ne : Nat := 0          -- error receives returned so far
  active : Bool := false
  bad : Bool := false
  timeouts : Bool := false
  cmap : List Nat := []  -- closer ids in order of their calls
  smap : List Nat := []  -- sender ids in order of first appearance (the LTS numbers callers densely)

def DState.closer (d : DState) (j : Nat) : Nat × DState :=
  match d.cmap.findIdx? (· == j) with
  | some k => (k, d)
  | none => (d.cmap.length, { d with cmap := d.cmap ++ [j] })

/-- dense index of a sender id -/
def DState.sender (d : DState) (i : Nat) : Nat × DState :=
  match d.smap.findIdx? (· == i) with
  | some k => (k, d)
  | none => (d.smap.length, { d with smap := d.smap ++ [i] })

def sres? : String → Option SRes
  | "ok" => some .ok | "closing" => some .closing | "overflow" => some .overflow | "panic" => some .panic
  | _ => none

def err? : String → Option Err
  | "closed" => some .closed | "forced" => some .forced | "eof" => some .eof | "read" => some .read
  | "pre" => some .pre
  | _ => none

def bool? : String → Option Bool
  | "0" => some false | "1" => some true | _ => none

/-- parse one event line (the counters number the receive-returns) -/
def parseEv (d : DState) (ws : List String) : Option (Ev × DState) :=
  match ws with
  | ["go"] => some (.go, d)
  | "scall" :: _ => do
    let i ← kvNat? ws "i"; let p ← kvNat? ws "p"; let z ← kvNat? ws "z"; let e ← (kv? ws "e").bind bool?
    let (k, d) := d.sender i
    some (.scall k ⟨p, z, e⟩, d)
  | "sret" :: _ => do
    let i ← kvNat? ws "i"; let r ← (kv? ws "r").bind sres?
    let (k, d) := d.sender i
    some (.sret k r, d)
  | "spark" :: _ => do
    let i ← kvNat? ws "i"
    let (k, d) := d.sender i
    some (.spark k, d)
  | "ccall" :: _ => do
    let j ← kvNat? ws "j"; let g ← (kv? ws "g").bind bool?
    let (k, d) := d.closer j
    some (.ccall k g, d)
  | "cret" :: _ => do
    let j ← kvNat? ws "j"; let r ← kv? ws "r"
    let (j, d) := d.closer j
    if r == "ok" then some (.cret j true, d) else if r == "panic" then some (.cret j false, d) else none
  | ["fpark"] => some (.fpark, d)
  | "pframe" :: _ => do
    let p ← kvNat? ws "p"; let z ← kvNat? ws "z"
    some (.psend (.frame ⟨p, z, true⟩), d)
  | ["pfin"] => some (.psend .fin, d)
  | ["prst"] => some (.psend .rst, d)
  | ["pgarbage"] => some (.psend .garbage, d)
  | ["icall"] => some (.icall, d)
  | "iret" :: _ => do
    let p ← kvNat? ws "p"
    some (.iret d.ni p, { d with ni := d.ni + 1 })
  | ["ecall"] => some (.ecall, d)
  | "eret" :: _ => do
    let e ← (kv? ws "e").bind err?
    some (.eret d.ne e, { d with ne := d.ne + 1 })
  | "wgot" :: _ => do
    let k ← kvNat? ws "k"; let p ← kvNat? ws "p"
    some (.wgot k p, d)
  | "weof" :: _ => do
    let k ← kvNat? ws "k"
    some (.weof k, d)
  | "werr" :: _ => some (.werr, d)
  | "stats" :: _ => do
    let ps ← kvNat? ws "ps"; let bs ← kvNat? ws "bs"; let pr ← kvNat? ws "pr"; let br ← kvNat? ws "br"
    some (.stats ps bs pr br, d)
  | ["end"] => some (.quiet, d)
  | _ => none

def searchBudget : Nat := 3000000

def drvStep (d : DState) (line : String) : DState × String :=
  let ws := words line
  match ws with
  | "cfg" :: _ =>
    match kvNat? ws "cap", kvNat? ws "icap", kvNat? ws "ecap", kvNat? ws "pre" with
    | some c, some i, some e, some p =>
      ({ cfg := ⟨c, i, e, p⟩, active := true, timeouts := (kvNat? ws "to") == some 1 }, "-")
    | _, _, _, _ => ({ d with bad := true }, "bad-op")
  | "verdict" :: _ =>
    if !d.active || d.bad then ({}, "bad-trace")
    else
      match validate d.cfg d.evs d.timeouts searchBudget with
      | .accept _ => ({}, "accept")
      | .reject _ _ => ({}, "reject")
      | .budget _ => ({}, "budget")
  | "why" :: _ =>
    -- diagnostic (not used by ./check): the deepest event index any execution reached
    if !d.active || d.bad then (d, "bad-trace")
    else
      match validate d.cfg d.evs d.timeouts searchBudget with
      | .accept v => (d, s!"accept events={d.evs.size} visited={v}")
      | .reject k v => (d, s!"reject at={k} events={d.evs.size} visited={v}")
      | .budget k => (d, s!"budget at={k} events={d.evs.size}")
  | _ =>
    if !d.active then (d, "bad-op")
    else match parseEv d ws with
      | some (ev, d') => ({ d' with evs := d'.evs.push ev }, "-")
      | none => ({ d with bad := true }, "bad-op")

end Fatchoy.Conn
