import Fatchoy.Drv.C05
/-! C06 runs the same two scheduler models through the same line protocol as C05. -/
namespace Fatchoy.C06
def drvMain : IO Unit := Fatchoy.C05.drvMain
end Fatchoy.C06
