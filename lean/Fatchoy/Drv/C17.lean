import Fatchoy.Model.C17
import Fatchoy.Drv.Util
namespace Fatchoy.C17
open Fatchoy.Drv

/-- members and keys are byte strings (hex on the wire) -/
abbrev Member := List UInt8

structure DrvState where
  ring : Ring Member

/-- `new` → empty ring; `add <hex>` / `remove <hex>` → `ok`; `get <hex>` → `node=<hex>` | `panic` -/
def drvStep (s : DrvState) (line : String) : DrvState × String :=
  match concreteCfg? params with
  | none => (s, "bad-params")
  | some K =>
    match words line with
    | ["new"] => ({ ring := Ring.empty }, "ok")
    | ["add", m] =>
      match unhex? m with
      | some m => ({ ring := addNode K.pts s.ring m }, "ok")
      | none => (s, "bad-op")
    | ["remove", m] =>
      match unhex? m with
      | some m => ({ ring := removeNode K s.ring m }, "ok")
      | none => (s, "bad-op")
    | ["get", k] =>
      match unhex? k with
      | some k =>
        match lookup s.ring (fnv params k).toNat with
        | .panic => (s, "panic")
        | .absent => (s, "node=" ++ hex [])
        | .node m => (s, "node=" ++ hex m)
      | none => (s, "bad-op")
    | _ => (s, "bad-op")

def drvMain : IO Unit := Fatchoy.Drv.run (σ := DrvState) { ring := Ring.empty } drvStep

end Fatchoy.C17
