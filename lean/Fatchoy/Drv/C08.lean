import Fatchoy.Model.C08
import Fatchoy.Drv.Util
namespace Fatchoy.C08
open Fatchoy.Drv

def showOut : Out → String
  | .id n => s!"id {n}"
  | .done => "ok"
  | .errStore => "err:store"
  | .errRange => "err:range"
  | .errOverflow => "err:overflow"

/-- `ok:<c>` | `fb` | `fa:<c>` -/
def raw? (s : String) : Option Raw :=
  if s == "fb" then some .failBefore
  else if s.startsWith "ok:" then (int? (s.drop 3).toString).map .ok
  else if s.startsWith "fa:" then (int? (s.drop 3).toString).map .failAfter
  else none

structure Acc where
  nok : Nat := 0
  nerr : Nat := 0
  first : Option Int := none
  last : Option Int := none
  sum : Int := 0

def Acc.add (a : Acc) : Out → Acc
  | .id n => { a with nok := a.nok + 1, first := a.first.orElse (fun _ => some n), last := some n,
                      sum := (a.sum + n) % two64 }
  | _ => { a with nerr := a.nerr + 1 }

def showOpt : Option Int → String
  | some v => toString v
  | none => "-"

/-- `n` calls of `Next` on generator `g`, the store failing (before moving) whenever it is asked -/
def nextN (P : Params) : Nat → Sys → Nat → Acc → Option (Sys × Acc)
  | 0, s, _, a => some (s, a)
  | n + 1, s, g, a =>
    match step P s (.next g .failBefore) with
    | none => none
    | some (s', o, _) => nextN P n s' g (a.add o)

def called (b : Bool) : String := if b then "called=1" else "called=0"

/--
`adapter`                              → `ok`       a new Storage value on the database
`create step=<int32> ad=<j>`           → `ok`       NewSeqIDGen(adapter j, step)
`init g=<i> raw=<ok:c|fb|fa:c>`        → outcome, `called=1`
`next g=<i> raw=<ok:c|fb|fa:c>`        → outcome, whether the store was called
`nextn g=<i> n=<k>`                    → digest of k calls with a store that fails before moving
`crash g=<i>`                          → `ok`
-/
def drvStep (s : Sys) (line : String) : Sys × String :=
  let ws := words line
  let act : Option Action :=
    match ws with
    | ["adapter"] => some .newAdapter
    | "create" :: _ =>
      match kvInt? ws "step", kvNat? ws "ad" with
      | some st, some ad => if -2147483648 ≤ st ∧ st ≤ 2147483647 then some (.create st ad) else none
      | _, _ => none
    | "init" :: _ =>
      match kvNat? ws "g", (kv? ws "raw").bind raw? with
      | some g, some raw => some (.init g raw)
      | _, _ => none
    | "next" :: _ =>
      match kvNat? ws "g", (kv? ws "raw").bind raw? with
      | some g, some raw => some (.next g raw)
      | _, _ => none
    | "crash" :: _ => (kvNat? ws "g").map .crash
    | _ => none
  match act with
  | some a =>
    match step params s a with
    | none => (s, "bad-op")
    | some (s', o, c) =>
      -- the ghost log is not needed to answer: keep the driver's memory flat
      let s' := { s' with log := [] }
      match a with
      | .init _ _ => (s', s!"{showOut o} {called c}")
      | .next _ _ => (s', s!"{showOut o} {called c}")
      | _ => (s', showOut o)
  | none =>
    match ws with
    | "nextn" :: _ =>
      match kvNat? ws "g", kvNat? ws "n" with
      | some g, some n =>
        match nextN params n s g {} with
        | some (s', a) =>
          ({ s' with log := [] }, s!"ok={a.nok} err={a.nerr} first={showOpt a.first} last={showOpt a.last} sum={a.sum}")
        | none => (s, "bad-op")
      | _, _ => (s, "bad-op")
    | ["reset"] => (Sys.empty, "ok")
    | "tr" :: fn :: args =>
      -- the translated source (Gen/C08.lean `Tr`) evaluated on the given arguments
      match args.mapM int? with
      | some a => (match Fatchoy.Gen.C08.Tr.eval fn a with | some o => (s, o) | none => (s, "bad-op"))
      | none => (s, "bad-op")
    | _ => (s, "bad-op")

def drvMain : IO Unit := run Sys.empty drvStep

end Fatchoy.C08
