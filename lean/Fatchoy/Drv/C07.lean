import Fatchoy.Model.C07
import Fatchoy.Drv.Util
namespace Fatchoy.C07
open Fatchoy.Drv Fatchoy.Varint

def sInt? (w : Nat) (s : String) : Option (BitVec w) :=
  match s.toInt? with
  | some x => if -(2 ^ (w - 1) : Int) ≤ x ∧ x < (2 ^ (w - 1) : Int) then some (BitVec.ofInt w x) else none
  | none => none

def uInt? (w : Nat) (s : String) : Option (BitVec w) :=
  match s.toNat? with
  | some x => if x < 2 ^ w then some (BitVec.ofNat w x) else none
  | none => none

/-- `k=<kind> v=<value>`: integers in decimal (signed kinds signed), floats as their bits, text and bytes in hex -/
def parseVal (P : Params) (k : String) (v : Option String) : Option GoVal :=
  match k, v with
  | "nil", none => some .nil
  | "msg", none => some .msg
  | "unsupported", none => some .unsupported
  | "bool", some "true" => some (.bool true)
  | "bool", some "false" => some (.bool false)
  | "int", some s => (sInt? P.intSize s).map (fun x => .int (x.signExtend 64))
  | "i8", some s => (sInt? 8 s).map .i8
  | "i16", some s => (sInt? 16 s).map .i16
  | "i32", some s => (sInt? 32 s).map .i32
  | "i64", some s => (sInt? 64 s).map .i64
  | "uint", some s => (uInt? P.intSize s).map (fun x => .uint (x.setWidth 64))
  | "u8", some s => (uInt? 8 s).map .u8
  | "u16", some s => (uInt? 16 s).map .u16
  | "u32", some s => (uInt? 32 s).map .u32
  | "u64", some s => (uInt? 64 s).map .u64
  | "f32", some s => (uInt? 32 s).map .f32
  | "f64", some s => (uInt? 64 s).map .f64
  | "str", some s => (unhex? s).map .str
  | "bytes", some s => (unhex? s).map .bytes
  | _, _ => none

def showVal : GoVal → String
  | .nil => "nil"
  | .bool b => s!"bool:{b}"
  | .int v => s!"int:{v.toInt}" | .i8 v => s!"i8:{v.toInt}" | .i16 v => s!"i16:{v.toInt}"
  | .i32 v => s!"i32:{v.toInt}" | .i64 v => s!"i64:{v.toInt}"
  | .uint v => s!"uint:{v.toNat}" | .u8 v => s!"u8:{v.toNat}" | .u16 v => s!"u16:{v.toNat}"
  | .u32 v => s!"u32:{v.toNat}" | .u64 v => s!"u64:{v.toNat}"
  | .f32 b => s!"f32:{b.toNat}" | .f64 b => s!"f64:{b.toNat}"
  | .str s => s!"str:{hex s}" | .bytes b => s!"bytes:{hex b}"
  | .msg => "msg"
  | .unsupported => "unsupported"

def showRes {α : Type} (f : α → String) : Res α → String
  | .ok a => f a
  | .panic => "panic"
  | .unmodelled => "n/a"

def showText : Text → String
  | .lit s => s!"lit:{hex s}"
  | .fmtFloat b => s!"fmtfloat:{b.toNat}"

/-- every observation of a body -/
def observe (P : Params) (b : GoVal) : String :=
  s!"body={showVal b} int={showRes (fun (v : BitVec 64) => toString v.toInt) (bodyToInt P b)} float={showRes (fun (v : BitVec 64) => toString v.toNat) (bodyToFloat P b)} str={showRes showText (bodyToString P b)} bytes={showRes hex (bodyToBytes P b)}"

def showPacket (P : Params) (p : Packet) : String :=
  s!"cmd={p.cmd.toInt} seq={p.seq.toNat} typ={p.typ.toInt} flag={p.flg.toNat} node={p.node.toNat} refs={showNatList (p.refers.map BitVec.toNat)} body={showVal p.body} errno={(errno P p).toInt}"

def showSent (P : Params) : Res (Nat × Packet) → String
  | .ok (e, p) => s!"ep={e} {showPacket P p}"
  | .panic => "panic"
  | .unmodelled => "n/a"

def showRecv (P : Params) : Res Packet → String
  | .ok p => s!"flag={p.flg.toNat} body={showVal p.body} errno={(errno P p).toInt}"
  | .panic => "panic"
  | .unmodelled => "n/a"

/-- the wire ops leave compression and encryption to the codec model: those bits must be clear -/
def wireFlagOk (P : Params) (f : BitVec 8) : Bool :=
  f &&& BitVec.ofNat 8 (P.compressedFlag ||| P.encryptedFlag) == 0

def kvS? (ws : List String) (w : Nat) (key : String) : Option (BitVec w) := (kv? ws key).bind (sInt? w)
def kvU? (ws : List String) (w : Nat) (key : String) : Option (BitVec w) := (kv? ws key).bind (uInt? w)

def parseReq (ws : List String) : Option Packet := do
  let cmd ← kvS? ws 32 "cmd"
  let seq ← kvU? ws 16 "seq"
  let typ ← kvS? ws 8 "typ"
  let flg ← kvU? ws 8 "flag"
  let node ← kvU? ws 32 "node"
  let refs ← (kv? ws "refs").bind natList?
  let refs ← refs.mapM (fun r => if r < 2 ^ 32 then some (BitVec.ofNat 32 r) else none)
  let ep ← match kv? ws "ep" with
    | some "none" => some none
    | some s => s.toNat?.map some
    | none => none
  pure { cmd := cmd, seq := seq, typ := typ, flg := flg, node := node, body := .nil, refers := refs, endpoint := ep }

/-- `arch bits=32|64 nan=quiet|canon`: the word size and the NaN convention of the build that produced
the op stream (first line of every stream; without it the platform of the extractor run is assumed).
Every other line is answered under the parameters in force. -/
def drvStep (P : Params) (line : String) : Params × String :=
  let ws := words line
  match ws with
  | ["arch", b, n] =>
    let bits? : Option Nat := if b == "bits=64" then some 64 else if b == "bits=32" then some 32 else none
    let canon? : Option Bool := if n == "nan=canon" then some true else if n == "nan=quiet" then some false else none
    match bits?, canon? with
    | some bits, some canon => (archParams bits canon, "ok")
    | _, _ => (P, "bad-op")
  | _ =>
  let out : String :=
    match ws with
    | "set" :: _ =>
      match (kv? ws "k").bind (fun k => parseVal P k (kv? ws "v")) with
      | some v =>
        match setBody P v with
        | .ok b => observe P b
        | .panic => "panic"
        | .unmodelled => "n/a"
      | none => "bad-op"
    | "raw" :: _ =>
      match (kv? ws "k").bind (fun k => parseVal P k (kv? ws "v")) with
      | some v => observe P v
      | none => "bad-op"
    | "errno" :: _ =>
      match kvS? ws 32 "cmd", kvU? ws 8 "flag", kvS? ws 32 "ec" with
      | some cmd, some flag, some ec =>
        let p := setErrno P (mkNew P cmd 0 flag .nil) ec
        s!"flag={p.flg.toNat} body={showVal p.body} errno={(errno P p).toInt}"
      | _, _, _ => "bad-op"
    | "geterrno" :: _ =>
      match kvS? ws 32 "cmd", kvU? ws 8 "flag", (kv? ws "k").bind (fun k => parseVal P k (kv? ws "v")) with
      | some cmd, some flag, some v => s!"errno={(errno P (mkNew P cmd 0 flag v)).toInt}"
      | _, _, _ => "bad-op"
    | "wire" :: _ =>
      match kvS? ws 32 "cmd", kvU? ws 8 "flag", (kv? ws "k").bind (fun k => parseVal P k (kv? ws "v")) with
      | some cmd, some flag, some v =>
        if wireFlagOk P flag then
          match setBody P v with
          | .ok b => showRecv P (crossWire P (mkNew P cmd 0 flag b))
          | .panic => "panic:setbody"
          | .unmodelled => "n/a"
        else "bad-op"
      | _, _, _ => "bad-op"
    | "wireerr" :: _ =>
      match kvS? ws 32 "cmd", kvU? ws 8 "flag", kvS? ws 32 "ec" with
      | some cmd, some flag, some ec =>
        if wireFlagOk P flag then showRecv P (crossWire P (setErrno P (mkNew P cmd 0 flag .nil) ec))
        else "bad-op"
      | _, _, _ => "bad-op"
    | ["putvarint", s] =>
      match sInt? 64 s with
      | some x => hex (putVarint x)
      | none => "bad-op"
    | ["putuvarint", s] =>
      match uInt? 64 s with
      | some x => hex (putUvarint x)
      | none => "bad-op"
    | ["varint", s] =>
      match unhex? s with
      | some b => let r := varint b; s!"{r.1.toInt} {r.2}"
      | none => "bad-op"
    | ["uvarint", s] =>
      match unhex? s with
      | some b => let r := uvarint b; s!"{r.1.toNat} {r.2}"
      | none => "bad-op"
    | "reply" :: _ =>
      match parseReq ws, kv? ws "op" with
      | some m, some "replywith" =>
        match kvS? ws 32 "acmd", (kv? ws "k").bind (fun k => parseVal P k (kv? ws "v")) with
        | some acmd, some v => showSent P (replyWith P m acmd v)
        | _, _ => "bad-op"
      | some m, some "reply" =>
        match kvS? ws 32 "mid" with
        | some mid => showSent P (reply P m mid)
        | none => "bad-op"
      | some m, some "refusewith" =>
        match kvS? ws 32 "acmd", kvS? ws 32 "ec" with
        | some acmd, some ec => showSent P (refuseWith P m acmd ec)
        | _, _ => "bad-op"
      | some m, some "refuse" =>
        match kvS? ws 32 "pair", kvS? ws 32 "ec" with
        | some pair, some ec => showSent P (refuse P m pair ec)
        | _, _ => "bad-op"
      | _, _ => "bad-op"
    | _ => "bad-op"
  (P, out)

def drvMain : IO Unit := run params drvStep

end Fatchoy.C07
