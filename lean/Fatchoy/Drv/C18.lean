/-
Driver of the C18 LTS.  The harness forces a schedule on the real executor (every task is gated, every
call is awaited); the driver plays the same op list on the LTS under a canonical scheduler (`settle`:
fire every enabled action except task completions, which happen only when an op says so) and prints
the same observables.  The scheduler is one particular action sequence; the theorems of Props/C18.lean
hold for all of them.
-/
import Fatchoy.Model.C18
import Fatchoy.Drv.Util
namespace Fatchoy.C18
open Fatchoy.Drv

structure DS where
  s : Option St := none
  auto : Option Kind := none      -- `openall`: every task ends at once with this kind
  active : List Nat := []         -- Execute calls that have begun
  shut : Bool := false            -- a Shutdown call is in progress or has returned

def kind? : String → Option Kind
  | "ok" => some .ok
  | "err" => some .err
  | "panic" => some .panic
  | _ => none

def terminal : SPC → Bool
  | .retOk | .retErr | .panicked => true
  | _ => false

/-- the first enabled action in canonical order, if any -/
def pick (d : DS) (s : St) : Option St :=
  let P := params
  let subStep : Option St := d.active.findSome? (fun i =>
    -- Go's RWMutex prefers a waiting writer: no new reader while the Shutdown call waits in guard.Lock()
    if s.subs[i]? = some .rlock && d.shut && s.closer == .idle then none else
    match step P s (.sub i) with
    | some s' => some s'
    | none =>
      if s.subs[i]? = some .send then
        (List.range s.workers.length).findSome? (fun w => step P s (.handoff i w))
      else none)
  match subStep with
  | some s' => some s'
  | none =>
    match (if d.shut then step P s .closer else none) with
    | some s' => some s'
    | none =>
      (List.range s.workers.length).findSome? (fun w =>
        match (s.workers[w]? : Option WPC) with
        | some WPC.born => step P s (.wready w)
        | some WPC.idle => if s.queue ≠ [] then step P s (.take w) else step P s (.seeDone w)
        | some WPC.drain => if s.queue ≠ [] then step P s (.take w) else step P s (.exit w)
        | some (WPC.run _) | some (WPC.drun _) =>
          (match d.auto with | some k => step P s (.finish w k) | none => none)
        | _ => none)

def settle (d : DS) : Nat → St → St
  | 0, s => s
  | fuel + 1, s => match pick d s with
    | some s' => settle d fuel s'
    | none => s

/-- every internal action (`Act.internal`, the notion of `C18_no_stuck`) that is enabled, by full enumeration —
independent of `pick` -/
def enabledInternal (called : Bool) (s : St) : List String :=
  let P := params
  let en (a : Act) : Bool := Act.internal called s a && (step P s a).isSome
  let is := List.range s.subs.length
  let wsx := List.range s.workers.length
  (is.filter (fun i => en (.sub i))).map (fun i => s!"sub({i})") ++
  (is.flatMap (fun i => (wsx.filter (fun w => en (.handoff i w))).map (fun w => s!"handoff({i},{w})"))) ++
  (wsx.filter (fun w => en (.wready w))).map (fun w => s!"wready({w})") ++
  (wsx.filter (fun w => en (.take w))).map (fun w => s!"take({w})") ++
  (wsx.filter (fun w => en (.seeDone w))).map (fun w => s!"seeDone({w})") ++
  (wsx.filter (fun w => en (.exit w))).map (fun w => s!"exit({w})") ++
  (if en .closer then ["closer"] else [])

/-- where every goroutine of the settled LTS state is parked, in the vocabulary of a goroutine dump -/
def quietAnswer (d : DS) (s : St) : String :=
  let act := d.active.filterMap (fun i => s.subs[i]?)
  let cnt (p : SPC → Bool) : Nat := act.countP p
  let send := cnt (fun pc => pc == .send)
  let rlock := cnt (fun pc => pc == .rlock)
  let other := cnt (fun pc => !(terminal pc) && pc != .send && pc != .rlock && pc != .idle)
  let wsel := s.workers.countP (fun w => w == .idle)
  let wtask := s.workers.countP (fun w => w.task?.isSome)
  let wother := s.workers.countP (fun w => w != .idle && w.task?.isNone && w != .exited)
  let sh : String := if !d.shut then "none" else
    match s.closer with
    | .idle => "lock"
    | .wait => "wait"
    | .ret _ => "ret"
    | _ => "other"
  let en := enabledInternal d.shut s
  let ens := if en.isEmpty then "-" else ",".intercalate en
  s!"exec-send={send} exec-rlock={rlock} exec-other={other} workers-select={wsel} workers-task={wtask} workers-other={wother} shutdown={sh} enabled={ens}"

def insertSorted (x : Nat) : List Nat → List Nat
  | [] => [x]
  | y :: ys => if x ≤ y then x :: y :: ys else y :: insertSorted x ys
def sortNat (l : List Nat) : List Nat := l.foldr insertSorted []

def subAnswer (s : St) (i : Nat) : String :=
  match s.subs[i]? with
  | some .retOk => "ok"
  | some .retErr => "err"
  | some .panicked => "panic:send-on-closed"
  | _ => "hang"

def fuel : Nat := 1000000

def withSubs (s : St) (i : Nat) : St :=
  if i < s.subs.length then s else { s with subs := s.subs ++ List.replicate (i + 1 - s.subs.length) .idle }

def drvStep (d : DS) (line : String) : DS × String :=
  let ws := words line
  match ws.head?, d.s with
  | some "new", _ =>
    match kvInt? ws "w", kvNat? ws "cap" with
    | some w, some cap => ({ s := some (mkInit params w cap 0) }, "ok")
    | _, _ => (d, "bad-op")
  | some "exec", some s =>
    match kvNat? ws "t" with
    | some t =>
      if d.active.contains t then (d, "bad-op") else
      let d := { d with active := d.active ++ [t] }
      let s := settle d fuel (withSubs s t)
      ({ d with s := some s }, subAnswer s t)
    | none => (d, "bad-op")
  | some "spawn", some s =>
    match kvNat? ws "t" with
    | some t =>
      if d.active.contains t then (d, "bad-op") else
      let d := { d with active := d.active ++ [t] }
      let s := settle d fuel (withSubs s t)
      ({ d with s := some s }, "-")
    | none => (d, "bad-op")
  | some "await", some s =>
    match kvNat? ws "t" with
    | some t =>
      if !d.active.contains t then (d, "bad-op") else
      let s := settle d fuel s
      ({ d with s := some s }, subAnswer s t)
    | none => (d, "bad-op")
  | some "fin", some s =>
    match kvNat? ws "t", (kv? ws "k").bind kind? with
    | some t, some k =>
      let s := settle d fuel s
      match (List.range s.workers.length).find? (fun w => (s.workers[w]?.bind WPC.task?) = some t) with
      | some w =>
        if d.auto.isSome then ({ d with s := some s }, "not-running") else
        match step params s (.finish w k) with
        | some s' => ({ d with s := some (settle d fuel s') }, "ok")
        | none => ({ d with s := some s }, "not-running")
      | none => ({ d with s := some s }, "not-running")
    | _, _ => (d, "bad-op")
  | some "openall", some s =>
    match (kv? ws "k").bind kind? with
    | some k =>
      let s := settle d fuel s
      let d := { d with auto := some k }
      ({ d with s := some (settle d fuel s) }, "ok")
    | none => (d, "bad-op")
  | some "obs", some s =>
    let s := settle d fuel s
    let st := if s.n = 1 then s.started else sortNat s.started
    ({ d with s := some s },
      s!"started={showNatList st} running={showNatList (sortNat (s.workers.filterMap WPC.task?))} finished={showNatList (sortNat s.finished)}")
  | some "quiet", some s =>
    let s := settle d fuel s
    ({ d with s := some s }, quietAnswer d s)
  | some "shutdown", some s | some "shutdown-async", some s =>
    -- one Shutdown call at a time; a later call starts over (the LTS proper has a single call)
    let fresh : Option St :=
      if !d.shut then some s else
      match s.closer with
      | .ret _ => some { s with closer := .idle }
      | _ => none
    match fresh with
    | none => (d, "bad-op")
    | some s =>
      let d := { d with shut := true }
      let s := settle d fuel s
      let ans := if ws.head? = some "shutdown-async" then "-" else
        (match s.closer with | .ret _ => "ok" | .panicked => "panic:close-of-closed" | _ => "hang")
      ({ d with s := some s }, ans)
  | some "await-shutdown", some s =>
    if !d.shut then (d, "bad-op") else
    let s := settle d fuel s
    ({ d with s := some s }, match s.closer with | .ret _ => "ok" | .panicked => "panic:close-of-closed" | _ => "hang")
  | _, _ => (d, "bad-op")

def drvMain : IO Unit := run ({} : DS) drvStep

end Fatchoy.C18
