/-
Driver of the C15 LTS: one op line = one action (a blocking caller is woken right after the action that
completed it, as the harness waits for it), answers in the harness's canonical form.
-/
import Fatchoy.Model.C15
import Fatchoy.Drv.Util
namespace Fatchoy.C15
open Fatchoy.Drv

def insertStr (x : String) : List String → List String
  | [] => [x]
  | y :: ys => if x ≤ y then x :: y :: ys else y :: insertStr x ys
def sortStr (l : List String) : List String := l.foldr insertStr []

def insertNat (x : Nat) : List Nat → List Nat
  | [] => [x]
  | y :: ys => if x ≤ y then x :: y :: ys else y :: insertNat x ys
def sortNat (l : List Nat) : List Nat := l.foldr insertNat []

def mode? : String → Option Mode
  | "async" => some .async
  | "block" => some .block
  | _ => none

/-- the harness's callback returns an error for every fifth call -/
def cbRc (id : Nat) : String := if id % 5 == 0 then "err" else "ok"

/-- what the harness observes when context `c` is completed with packet `p`; a blocking caller is woken -/
def observe (s : St) (c : Ctx) (p : Pkt) : St × String :=
  match c.mode with
  | .async =>
    let (m, ec) := cbArgs params p
    let ms := match m with | some m => toString m | none => "nil"
    (s, s!"cb id={c.id} msg={ms} ec={ec} rc={cbRc c.id}")
  | .block =>
    match step params s (.wake c.id) with
    | some s' =>
      match s'.returned.getLast? with
      | some (_, q) =>
        let ec := errno params q
        let d := if 0 < ec then "-" else (match q.decodes with | some m => toString m | none => "fail")
        (s', s!"ret id={c.id} errno={ec} dec={d}")
      | none => (s', s!"none id={c.id}")
    | none => (s, s!"none id={c.id}")

def drvStep (st : Option St) (line : String) : Option St × String :=
  let ws := words line
  match ws.head?, st with
  | some "new", _ =>
    match kvNat? ws "cap" with
    | some cap => (some (mkInit cap), "ok")
    | none => (st, "bad-op")
  | some "setcounter", some s =>
    match kvNat? ws "v" with
    | some v => if v < 65536 then (step params s (.setCounter (BitVec.ofNat 16 v)), "ok") else (st, "bad-op")
    | none => (st, "bad-op")
  | some "call", some s =>
    match (kv? ws "mode").bind mode?, kvInt? ws "dl" with
    | some m, some dl =>
      match step params s (.call m dl) with
      | some s' => (some s', if s'.refused.length > s.refused.length then s!"refused id={s.nextId}" else s!"ok id={s.nextId}")
      | none => (st, "bad-op")
    | _, _ => (st, "bad-op")
  | some "pop", some s =>
    match s.queue with
    | (sq, id) :: _ => (step params s .pop, s!"seq={sq.toNat} id={id}")
    | [] => (st, "empty")
  | some "dispatch", some s =>
    match kvNat? ws "seq", kvNat? ws "err", kvNat? ws "code", kvNat? ws "cmd", kv? ws "dec" with
    | some sq, some e, some code, some cmd, some dec =>
      if sq ≥ 65536 ∨ e > 1 then (st, "bad-op") else
      let decodes : Option (Option Nat) := if dec == "fail" then some none else (dec.toNat?).map some
      match decodes with
      | none => (st, "bad-op")
      | some d =>
        let p : Pkt := { errFlag := e == 1, code := code, cmd := cmd, decodes := if e == 1 then none else d }
        let seq := BitVec.ofNat 16 sq
        match s.pending.find? (fun x => x.1 == seq), step params s (.dispatch seq p) with
        | some (_, c), some s' => let (s'', o) := observe s' c p; (some s'', "ok " ++ o)
        | none, some s' => (some s', "unmatched")
        | _, none => (st, "bad-op")
    | _, _, _, _, _ => (st, "bad-op")
  | some "sweep", some s =>
    match kvInt? ws "now" with
    | some now => (step params s (.sweep now), "ok")
    | none => (st, "bad-op")
  | some "reap", some s =>
    -- an uninterrupted ReapTimeout: strip, then the whole batch front to back
    match step params s .strip with
    | some s1 =>
      let b := s1.batches.length - 1
      let (s2, outs) := s.expired.foldl (fun (acc : St × List String) c =>
        match step params acc.1 (.complete b 0) with
        | some s' => let (s'', o) := observe s' c (timeoutPkt params); (s'', acc.2 ++ [o])
        | none => (acc.1, acc.2 ++ [s!"none id={c.id}"])) (s1, [])
      let txt := " ; ".intercalate (sortStr outs)
      (some s2, if outs.isEmpty then s!"n={s.expired.length}" else s!"n={s.expired.length} {txt}")
    | none => (st, "bad-op")
  | some "strip", some s =>
    (step params s .strip, s!"n={s.expired.length}")
  | some "complete", some s =>
    -- `complete id=<k>`: the ReapTimeout that holds call k in its batch completes it
    match kvNat? ws "id" with
    | some id =>
      let found : Option (Nat × Nat × Ctx) := (List.range s.batches.length).findSome? (fun b =>
        match s.batches[b]? with
        | some l => (List.range l.length).findSome? (fun k =>
            match l[k]? with
            | some c => if c.id == id then some (b, k, c) else none
            | none => none)
        | none => none)
      match found with
      | some (b, k, c) =>
        match step params s (.complete b k) with
        | some s' => let (s'', o) := observe s' c (timeoutPkt params); (some s'', o)
        | none => (st, s!"none id={id}")
      | none => (st, s!"none id={id}")
    | none => (st, "bad-op")
  | some "enabled", some s =>
    -- which kinds of action are enabled, `held=1`: while a makeCall sits on the full queue holding the mutex
    match kvNat? ws "held" with
    | some h =>
      let held := h != 0
      let en (a : Act) : String := if (stepHeld params held s a).isSome then "enabled" else "blocked"
      let heldok := if s.cap ≤ s.queue.length then "true" else "false"
      let nC := (List.range s.batches.length).countP (fun b => (stepHeld params held s (.complete b 0)).isSome)
      (st, s!"heldok={heldok} call={en (.call .async 0)} dispatch={en (.dispatch 0 { errFlag := false, code := 0, cmd := 0, decodes := none })} sweep={en (.sweep 0)} strip={en .strip} pop={en .pop} complete={nC}")
    | none => (st, "bad-op")
  | some "reap-end", some _ => (st, "ok")
  | some "state", some s =>
    (st, s!"counter={s.counter.toNat} pending={showNatList (sortNat (s.pending.map (·.1.toNat)))} expired={s.expired.length} queue={s.queue.length}")
  | _, _ => (st, "bad-op")

def drvMain : IO Unit := Fatchoy.Drv.run (none : Option St) drvStep

end Fatchoy.C15
