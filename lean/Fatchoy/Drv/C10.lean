import Fatchoy.Model.C10Multi
import Fatchoy.Drv.Util
namespace Fatchoy.C10
open Fatchoy.Drv

structure DrvState where
  m : Map
  iters : List (Nat × Iter)

def showEntry (e : Entry) : String := s!"{e.1}:{e.2}"
def showOptEntry : Option Entry → String
  | some e => showEntry e
  | none => "none"
def showList (l : List String) : String := if l.isEmpty then "-" else ",".intercalate l
def showEntries (l : List Entry) : String := showList (l.map showEntry)

/-- pre-order dump with colours, the format of the `verif` probe `VerifDump` -/
def dump : Tree → String
  | .nil => "."
  | .node c l k v r => "(" ++ (match c with | .red => "R" | .black => "B") ++ toString k ++ ":" ++ toString v ++ dump l ++ dump r ++ ")"

def hashMod : Nat := 4398046511093
def hashStep (h tok : Nat) : Nat := (h * 1000003 + tok) % hashMod

/-- hash of the same pre-order walk (for trees too big to print) -/
def shapeHash : Tree → Nat → Nat
  | .nil, h => hashStep h 0
  | .node c l k v r, h =>
    let h := hashStep h (match c with | .red => 1 | .black => 2)
    let h := hashStep h (k + 3)
    let h := hashStep h (v % 1000003).toNat
    shapeHash r (shapeHash l h)

def kindOf? : String → Option IterKind
  | "entry" => some .entry
  | "dentry" => some .descEntry
  | "key" => some .key
  | "dkey" => some .descKey
  | "value" => some .value
  | _ => none

def showErr : IterErr → String
  | .noSuchElement => "panic:nosuch"
  | .comod => "panic:comod"
  | .illegalState => "panic:illegal"
  | .dangling => "model-error:dangling-node-reference"

def setIter (its : List (Nat × Iter)) (s : Nat) (it : Iter) : List (Nat × Iter) :=
  (s, it) :: its.filter (fun p => p.1 ≠ s)

def getIter (its : List (Nat × Iter)) (s : Nat) : Option Iter := (its.find? (fun p => p.1 == s)).map (·.2)

def showOptInt : Option Int → String
  | some v => toString v
  | none => "none"

/-- print an answer of the model machine `step` -/
def showOut : Out → String
  | .unit => "ok"
  | .prev (some o) => s!"old={o}"
  | .prev none => "nil"
  | .val o => showOptInt o
  | .int n => toString n
  | .bool b => toString b
  | .entry o => showOptEntry o
  | .nats l => showList (l.map toString)
  | .ints l => showList (l.map toString)
  | .entries l => showEntries l

/-- the ops of the refinement theorem go through `step`, the very function the theorems are about -/
def parseOp : List String → Option Op
  | ["put", k, v] => do some (.put (← k.toNat?) (← v.toInt?))
  | ["rm", k] => do some (.remove (← k.toNat?))
  | ["clear"] => some .clear
  | ["get", k] => do some (.get (← k.toNat?))
  | ["getd", k, d] => do some (.getOrDefault (← k.toNat?) (← d.toInt?))
  | ["has", k] => do some (.contains (← k.toNat?))
  | ["size"] => some .size
  | ["empty"] => some .isEmpty
  | ["first"] => some .first
  | ["last"] => some .last
  | ["floor", k] => do some (.floor (← k.toNat?))
  | ["ceil", k] => do some (.ceiling (← k.toNat?))
  | ["higher", k] => do some (.higher (← k.toNat?))
  | ["keys"] => some .keys
  | ["values"] => some .values
  | ["in"] => some .inOrder
  | ["foreach"] => some .inOrder
  | _ => none

/-- print an answer of the multi-iterator machine `mstep` -/
def showMOut : MOut → String
  | .base o => showOut o
  | .created => "ok"
  | .has b => toString b
  | .entry kind e =>
    (match kind with
      | .entry => showEntry e
      | .descEntry => showEntry e
      | .key => toString e.1
      | .descKey => toString e.1
      | .value => toString e.2)
  | .removed => "ok"
  | .err err => showErr err
  | .noIter => "bad-op"

/-- the iterator op lines (`iter` / `hasnext` / `next` / `irm`) go through `mstep`, the machine of the
`C10_multi_*` theorems; the slot table of the driver IS the `iters` field of its state -/
def mop (st : DrvState) (op : MOp) : DrvState × String :=
  let (st', o) := mstep params { m := st.m, iters := st.iters } op
  ({ m := st'.m, iters := st'.iters }, showMOut o)

def drvStep (st : DrvState) (line : String) : DrvState × String :=
  let t := st.m.root
  let ws := words line
  match parseOp ws with
  | some op => let (m', o) := step params st.m op; ({ st with m := m' }, showOut o)
  | none =>
  match ws with
  | ["new"] => ({ m := Map.empty, iters := [] }, "ok")
  | ["pre"] => (st, showEntries (preOrder t))
  | ["post"] => (st, showEntries (postOrder t))
  | ["shape"] => (st, dump t)
  | ["shapeh"] => (st, s!"n={count t} h={height t} hash={shapeHash t 7}")
  | ["loop", kind, limit, mod, rem] =>
    -- the `iterate` op of the extended machine: a whole iterator loop, sel(k) = (mod ≠ 0 ∧ k % mod = rem)
    match kindOf? kind, limit.toNat?, mod.toNat?, rem.toNat? with
    | some kind, some limit, some mod, some rem =>
      match step2 params st.m (.iterate kind (fun k => mod != 0 && k % mod == rem) limit) with
      | (m', .visited vs pk) =>
        let shown := showList (vs.map (fun e => match kind with
          | .entry => showEntry e
          | .descEntry => showEntry e
          | .key => toString e.1
          | .descKey => toString e.1
          | .value => toString e.2))
        ({ st with m := m' }, match pk with | some err => shown ++ " " ++ showErr err | none => shown)
      | (_, .base _) => (st, "bad-op")
    | _, _, _, _ => (st, "bad-op")
  | ["iter", s, kind] =>
    match s.toNat?, kindOf? kind with
    | some s, some kind => mop st (.create s kind)
    | _, _ => (st, "bad-op")
  | ["hasnext", s] =>
    match s.toNat? with
    | some s => mop st (.hasNext s)
    | none => (st, "bad-op")
  | ["next", s] =>
    match s.toNat? with
    | some s => mop st (.next s)
    | none => (st, "bad-op")
  | ["irm", s] =>
    match s.toNat? with
    | some s => mop st (.iremove s)
    | none => (st, "bad-op")
  | _ => (st, "bad-op")

def drvMain : IO Unit := Fatchoy.Drv.run ({ m := Map.empty, iters := [] } : DrvState) drvStep

end Fatchoy.C10
