import Fatchoy.Model.C13
import Fatchoy.Drv.Util
namespace Fatchoy.C13
open Fatchoy.Drv

/-- callback arguments as the harness records them: `key=value:dynamic type of the value`.
  `sorted` for Purge, whose callback order is Go map order. -/
def showLog (l : List (K × V)) (sorted : Bool) : String :=
  let l := if sorted then (l.toArray.qsort (fun a b => a.1 < b.1 || (a.1 == b.1 && a.2 < b.2))).toList else l
  if l.isEmpty then "-" else ",".intercalate (l.map (fun e => s!"{e.1}={e.2}:int"))

def showOut (op : Op) : Out → String
  | .num n => toString n
  | .bool b => toString b
  | .val (some v) => s!"{v} true"
  | .val none => "nil false"
  | .entry (some e) => s!"{e.1} {e.2} true"
  | .entry none => match op with
    | .getOldest => "\"\" nil false"     -- GetOldest returns the key "" on an empty cache
    | _ => "nil nil false"                -- RemoveOldest returns a nil key
  | .keys ks => showNatList ks
  | .unit => "ok"

def parseOp : List String → Option Op
  | ["len"] => some .len
  | ["cap"] => some .cap
  | ["contains", k] => k.toNat?.map .contains
  | ["get", k] => k.toNat?.map .get
  | ["peek", k] => k.toNat?.map .peek
  | ["oldest"] => some .getOldest
  | ["keys"] => some .keys
  | ["put", k, v] => match k.toNat?, v.toNat? with
    | some k, some v => some (.put k v)
    | _, _ => none
  | ["resize", n] => n.toInt?.map .resize
  | ["remove", k] => k.toNat?.map .remove
  | ["removeoldest"] => some .removeOldest
  | ["purge"] => some .purge
  | _ => none

/-- `new <size> <0|1>` starts a case (answer `ok` or `panic`); every other line is one method call on
  the current cache, answered `<result> | <callback log>` -/
def drvStep (st : Option Cache) (line : String) : Option Cache × String :=
  match words line with
  | ["new", n, cb] =>
    match n.toInt?, cb.toNat? with
    | some n, some cb =>
      if cb ≤ 1 then
        match new n (cb == 1) with
        | some c => (some c, "ok")
        | none => (none, "panic")
      else (st, "bad-op")
    | _, _ => (st, "bad-op")
  | ws =>
    match parseOp ws, st with
    | none, _ => (st, "bad-op")
    | some _, none => (st, "no-cache")
    | some op, some c =>
      let r := step c op
      let sorted := match op with | .purge => true | _ => false
      (some r.1, s!"{showOut op r.2.1} | {showLog (cbLog c r.2.2) sorted}")

def drvMain : IO Unit := Fatchoy.Drv.run (none : Option Cache) drvStep

end Fatchoy.C13
