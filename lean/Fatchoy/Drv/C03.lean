import Fatchoy.Drv.TraceConn
import Fatchoy.Model.ConnStart
import Std.Data.HashSet
namespace Fatchoy.C03
open Fatchoy.ConnStart

/-! ### `startup` op: exhaustive exploration of the start-up LTS (Model/ConnStart.lean)

A `startup` run of the harness (hxconn/legs5.go) is one goroutine doing `Go(flag)`, n accepted `SendPacket`s, `Close`,
then reading the sent counter (k) — and the peer reading to end-of-stream (p packets).  The calling goroutine's actions
occur in program order; the actions of the two pumps interleave with them in every possible way.  The op asks whether
SOME execution of the LTS ends with k packets on the wire when Close returns and p when nothing can move any more.
The order of `wg.Add` is taken from the regenerated fact (`addInside = !Gen.C03.goAddBeforeSpawn`). -/

/-- what the calling goroutine executes, in order -/
def program (addInside w r : Bool) (n : Nat) : Array Action :=
  let goW : List Action := if w then (if addInside then [.goSpawnW] else [.goAddW, .goSpawnW]) else [.goSkipW]
  let goR : List Action := if r then (if addInside then [.goSpawnR] else [.goAddR, .goSpawnR]) else [.goSkipR]
  let sends : List Action := (List.range n).map (fun i => Action.send (200 + i))
  let close : List Action := [.closeFlip, .closeDone, .closeWait, .closeShutW, .closeQueue, .closeReturn]
  (Action.goCall w r :: (goW ++ goR ++ sends ++ close)).toArray

def pumpActions : List Action :=
  [.wStart, .rStart, .wRecv, .wSeeDone, .wSeeClosed, .wFlush, .wFlushEnd, .wWgDone, .rSeeDone, .rWgDone]

structure Node where
  s : State
  pc : Nat                 -- index into the program
  k : Option Nat           -- packets on the wire when `closeReturn` was executed
  deriving BEq, Hashable

/-- depth-first exploration of all interleavings; result: the set of (k, p) at the states where nothing is enabled
  (a state where the program is stuck before its end — Close blocked for ever — yields no pair) -/
def explore (cfg : Cfg) (prog : Array Action) : Nat → List Node → Std.HashSet Node → List (Nat × Nat) →
    Option (List (Nat × Nat))
  | 0, _, _, _ => none
  | _ + 1, [], _, res => some res
  | fuel + 1, nd :: stack, seen, res =>
    if seen.contains nd then explore cfg prog fuel stack seen res
    else
      let seen := seen.insert nd
      let fromProg : List Node :=
        match prog[nd.pc]? with
        | some a => match step cfg nd.s a with
          | some s' => [{ s := s', pc := nd.pc + 1, k := if a = .closeReturn then some s'.wire.length else nd.k }]
          | none => []
        | none => []
      let fromPumps : List Node :=
        pumpActions.filterMap (fun a => (step cfg nd.s a).map (fun s' => { nd with s := s' }))
      let next := fromProg ++ fromPumps
      let res := match next, nd.k with
        | [], some k => if res.contains (k, nd.s.wire.length) then res else (k, nd.s.wire.length) :: res
        | _, _ => res
      explore cfg prog fuel (next ++ stack) seen res

def startupOutcomes (w r : Bool) (n cap : Nat) : Option (List (Nat × Nat)) :=
  let cfg : Cfg := ⟨!Gen.C03.goAddBeforeSpawn, cap⟩
  explore cfg (program cfg.addInside w r n) 4000000 [{ s := init, pc := 0, k := none }] {} []

/-- `startup w=_ r=_ n=_ cap=_ k=_ [p=_]` -> accept | reject | budget | bad-op  (without `p`: any p) -/
def startupVerdict (ws : List String) : String :=
  match Drv.kvNat? ws "w", Drv.kvNat? ws "r", Drv.kvNat? ws "n", Drv.kvNat? ws "cap", Drv.kvNat? ws "k" with
  | some w, some r, some n, some cap, some k =>
    match startupOutcomes (w != 0) (r != 0) n cap with
    | some res =>
      let ok := match Drv.kv? ws "p" with
        | none => res.any (fun kp => kp.1 == k)
        | some ps => match Drv.nat? ps with
          | some p => res.contains (k, p)
          | none => false
      if ok then "accept" else "reject"
    | none => "budget"
  | _, _, _, _, _ => "bad-op"

def drvStep (d : Fatchoy.Conn.DState) (line : String) : Fatchoy.Conn.DState × String :=
  match Drv.words line with
  | "startup" :: ws => (d, startupVerdict ws)
  | _ => Fatchoy.Conn.drvStep d line

/-- C03 driver: trace validation against the connection LTS (see Drv/TraceConn.lean) + the `startup` op -/
def drvMain : IO Unit := Fatchoy.Drv.run ({} : Fatchoy.Conn.DState) drvStep

end Fatchoy.C03
