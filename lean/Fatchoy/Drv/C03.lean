import Fatchoy.Drv.TraceConn
namespace Fatchoy.C03

/-- C03 driver: trace validation against the connection LTS (see Drv/TraceConn.lean) -/
def drvMain : IO Unit := Fatchoy.Drv.run ({} : Fatchoy.Conn.DState) Fatchoy.Conn.drvStep

end Fatchoy.C03
