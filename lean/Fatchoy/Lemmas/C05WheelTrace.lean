/-
C05 helper lemmas: one timer followed through arbitrary sequences of steps of the wheel scheduler.
-/
import Fatchoy.Lemmas.C05WInv
namespace Fatchoy.C05

/-- run a list of steps; `none` when one of them is blocked or panics -/
def WS.run (G : Geom) : WS → List Act → Option WS
  | s, [] => some s
  | s, a :: as =>
    match WS.step G s a with
    | .ok s' _ => WS.run G s' as
    | _ => none

/-- states reachable from a fresh wheel at any position and time by any sequence of steps -/
inductive WReach (G : Geom) : WS → Prop
  | init (off time : Nat) : WReach G (WS.init off time)
  | step {s s' : WS} {a : Act} {o : Out} : WReach G s → WS.step G s a = .ok s' o → WReach G s'

theorem WReach.inv {c : Nat} {s : WS} (h : WReach (litGeom c) s) : WInv s := by
  induction h with
  | init off time => exact WInv.init off time
  | step _ hs ih => exact ih.step c hs

theorem WReach.run {G : Geom} : ∀ (acts : List Act) {s s' : WS}, WReach G s →
    WS.run G s acts = some s' → WReach G s'
  | [], s, s', h, hr => by simp only [WS.run, Option.some.injEq] at hr; exact hr ▸ h
  | a :: as, s, s', h, hr => by
    simp only [WS.run] at hr
    split at hr
    · rename_i s1 o he
      exact WReach.run as (h.step he) hr
    · cases hr

/-- timer `id` has left the scheduler for good: issued, and neither queued nor linked -/
def Gone (s : WS) (id : Nat) : Prop := id ≤ s.f.nextId ∧ id ∉ s.f.addIds ∧ id ∉ ids s.w.nodes

theorem has_ids {l : List WNode} {id D P : Nat} (h : has l id D P) : id ∈ ids l := by
  obtain ⟨n, hn, rfl, _, _⟩ := h
  exact mem_ids.mpr ⟨n, hn, rfl⟩

theorem WInv.gone_not_refer {s : WS} (h : WInv s) {id : Nat} (hg : Gone s id) : id ∉ s.f.refer := by
  intro hm
  rcases ((h.front.refer_iff id).mp hm).1 with h1 | h1
  · exact hg.2.1 h1
  · exact hg.2.2 h1

theorem WInv.live_refer {s : WS} (h : WInv s) {id D P : Nat} (hh : has s.w.nodes id D P) (hl : id ∉ s.f.cancelled) :
    id ∈ s.f.refer := (h.front.refer_iff id).mpr ⟨.inr (has_ids hh), hl⟩

/-- once gone, a timer id never comes back and is never delivered again -/
theorem gone_step (c : Nat) {s s' : WS} {a : Act} {o : Out} (h : WInv s) {id : Nat} (hg : Gone s id)
    (hs : WS.step (litGeom c) s a = .ok s' o) : Gone s' id ∧ entries s'.f.log id = entries s.f.log id := by
  obtain ⟨g1, g2, g3⟩ := hg
  cases a with
  | after d =>
    simp only [WS.step] at hs
    split at hs
    · cases hs
    · cases hs
      rw [nextID_eq _ _ h.front]
      refine ⟨⟨?_, ?_, g3⟩, rfl⟩
      · show id ≤ s.f.nextId + 1; omega
      · simp only [Front.addIds, Front.start, List.map_append, List.mem_append, List.map_cons, List.map_nil,
          List.mem_singleton, not_or]
        exact ⟨g2, by omega⟩
  | every p =>
    simp only [WS.step] at hs
    split at hs
    · cases hs
    · cases hs
      rw [nextID_eq _ _ h.front]
      refine ⟨⟨?_, ?_, g3⟩, rfl⟩
      · show id ≤ s.f.nextId + 1; omega
      · simp only [Front.addIds, Front.start, List.map_append, List.mem_append, List.map_cons, List.map_nil,
          List.mem_singleton, not_or]
        exact ⟨g2, by omega⟩
  | cancel j =>
    simp only [WS.step] at hs
    split at hs
    · split at hs
      · cases hs
      · cases hs; exact ⟨⟨g1, g2, g3⟩, rfl⟩
    · cases hs; exact ⟨⟨g1, g2, g3⟩, rfl⟩
  | add =>
    simp only [WS.step] at hs
    split at hs
    · cases hs; exact ⟨⟨g1, g2, g3⟩, rfl⟩
    · rename_i r q hq
      have hne : id ≠ r.id := fun e => g2 (by simp [Front.addIds, hq, e])
      have g2' : id ∉ q.map (·.id) := fun hm => g2 (by simp only [Front.addIds, hq, List.map_cons]; exact List.mem_cons_of_mem _ hm)
      split at hs
      · cases hs; exact ⟨⟨g1, g2', g3⟩, rfl⟩
      · split at hs
        · cases hs
        · cases hs
          refine ⟨⟨g1, g2', ?_⟩, rfl⟩
          simp only [ids, List.map_append, List.mem_append, List.map_cons, List.map_nil, List.mem_singleton, not_or]
          exact ⟨g3, hne⟩
  | del =>
    simp only [WS.step] at hs
    split at hs
    · cases hs; exact ⟨⟨g1, g2, g3⟩, rfl⟩
    · cases hs
      refine ⟨⟨g1, g2, ?_⟩, rfl⟩
      intro hm
      obtain ⟨n, hn, hi⟩ := mem_ids.mp hm
      exact g3 (mem_ids.mpr ⟨n, (List.mem_filter.mp hn).1, hi⟩)
  | tick =>
    simp only [WS.step] at hs
    cases hs
    obtain ⟨a1, a2, _⟩ := WS.tick_absent c s h.wheel id g3
    obtain ⟨_, _, _, f4, _, f6⟩ := WS.tick_frame c s h.wheel
    refine ⟨⟨by rw [f6]; exact g1, ?_, a1⟩, a2⟩
    simp only [Front.addIds, f4]; exact g2
  | clock n =>
    simp only [WS.step] at hs
    cases hs; exact ⟨⟨g1, g2, g3⟩, rfl⟩

/-- a linked, uncancelled timer is not affected by any step other than a tick or its own cancel -/
theorem live_step (c : Nat) {s s' : WS} {a : Act} {o : Out} (h : WInv s) {id D P : Nat}
    (hh : has s.w.nodes id D P) (hl : id ∉ s.f.cancelled) (hnt : a ≠ .tick) (hnc : a ≠ .cancel id)
    (hs : WS.step (litGeom c) s a = .ok s' o) :
    has s'.w.nodes id D P ∧ id ∉ s'.f.cancelled ∧ entries s'.f.log id = entries s.f.log id ∧ s'.w.time = s.w.time := by
  cases a with
  | after d =>
    simp only [WS.step] at hs
    split at hs
    · cases hs
    · cases hs; exact ⟨hh, hl, rfl, rfl⟩
  | every p =>
    simp only [WS.step] at hs
    split at hs
    · cases hs
    · cases hs; exact ⟨hh, hl, rfl, rfl⟩
  | cancel j =>
    simp only [WS.step] at hs
    split at hs
    · split at hs
      · cases hs
      · cases hs
        refine ⟨hh, ?_, rfl, rfl⟩
        simp only [Front.cancel, List.mem_append, List.mem_singleton, not_or]
        exact ⟨hl, fun e => hnc (by rw [e])⟩
    · cases hs; exact ⟨hh, hl, rfl, rfl⟩
  | add =>
    simp only [WS.step] at hs
    split at hs
    · cases hs; exact ⟨hh, hl, rfl, rfl⟩
    · split at hs
      · cases hs; exact ⟨hh, hl, rfl, rfl⟩
      · split at hs
        · cases hs
        · cases hs
          obtain ⟨n, hn, h1, h2, h3⟩ := hh
          exact ⟨⟨n, List.mem_append_left _ hn, h1, h2, h3⟩, hl, rfl, rfl⟩
  | del =>
    simp only [WS.step] at hs
    split at hs
    · cases hs; exact ⟨hh, hl, rfl, rfl⟩
    · rename_i i q hq
      cases hs
      have hi : i ∈ s.f.cancelled := h.front.delq i (by rw [hq]; exact List.mem_cons_self ..)
      obtain ⟨n, hn, h1, h2, h3⟩ := hh
      refine ⟨⟨n, List.mem_filter.mpr ⟨hn, ?_⟩, h1, h2, h3⟩, hl, rfl, rfl⟩
      simp only [ne_eq, decide_eq_true_eq]
      intro e
      exact hl (h1 ▸ e ▸ hi)
  | tick => exact absurd rfl hnt
  | clock n =>
    simp only [WS.step] at hs
    cases hs; exact ⟨hh, hl, rfl, rfl⟩

end Fatchoy.C05

namespace Fatchoy.C05

theorem step_time_le (c : Nat) {s s' : WS} {a : Act} {o : Out} (h : WInv s)
    (hs : WS.step (litGeom c) s a = .ok s' o) : s.w.time ≤ s'.w.time := by
  cases a with
  | tick =>
    simp only [WS.step] at hs
    cases hs
    rw [(WS.tick_frame c s h.wheel).2.1]; omega
  | after d => simp only [WS.step] at hs; split at hs <;> cases hs; exact Nat.le_refl _
  | every p => simp only [WS.step] at hs; split at hs <;> cases hs; exact Nat.le_refl _
  | cancel j =>
    simp only [WS.step] at hs
    split at hs
    · split at hs <;> cases hs; exact Nat.le_refl _
    · cases hs; exact Nat.le_refl _
  | add =>
    simp only [WS.step] at hs
    split at hs
    · cases hs; exact Nat.le_refl _
    · split at hs
      · cases hs; exact Nat.le_refl _
      · split at hs <;> cases hs; exact Nat.le_refl _
  | del => simp only [WS.step] at hs; split at hs <;> cases hs <;> exact Nat.le_refl _
  | clock n => simp only [WS.step] at hs; cases hs; exact Nat.le_refl _

theorem gone_run (c : Nat) (id : Nat) : ∀ (acts : List Act) (s s' : WS), WInv s → Gone s id →
    WS.run (litGeom c) s acts = some s' →
    Gone s' id ∧ entries s'.f.log id = entries s.f.log id ∧ s.w.time ≤ s'.w.time ∧ WInv s'
  | [], s, s', h, hg, hr => by
    simp only [WS.run, Option.some.injEq] at hr; subst hr; exact ⟨hg, rfl, Nat.le_refl _, h⟩
  | a :: as, s, s', h, hg, hr => by
    simp only [WS.run] at hr
    split at hr
    · rename_i s1 o he
      have h1 := h.step c he
      obtain ⟨g1, e1⟩ := gone_step c h hg he
      obtain ⟨g2, e2, t2, i2⟩ := gone_run c id as s1 s' h1 g1 hr
      exact ⟨g2, e2.trans e1, Nat.le_trans (step_time_le c h he) t2, i2⟩
    · cases hr

theorem WInv.gone_of_absent {s : WS} (_h : WInv s) {id : Nat} (h1 : id ≤ s.f.nextId) (h2 : id ∉ s.f.addIds)
    (h3 : id ∉ ids s.w.nodes) : Gone s id := ⟨h1, h2, h3⟩

theorem WInv.linked_not_queued {s : WS} (h : WInv s) {id : Nat} (hi : id ∈ ids s.w.nodes) :
    id ≤ s.f.nextId ∧ id ∉ s.f.addIds := by
  refine ⟨h.front.linked_le id hi, ?_⟩
  have hn := h.front.nodup
  rw [List.nodup_append] at hn
  exact fun hm => hn.2.2 id hm id hi rfl

/-- a one-shot timer in the wheel, not cancelled: along ANY sequence of steps that does not cancel it,
it stays linked and undelivered while the time is below `max D (t₀+1)`, and from the tick that reaches
that time on it is gone, with exactly one more delivery, logged at its deadline D -/
theorem oneshot_run (c : Nat) (id D : Nat) : ∀ (acts : List Act) (s s' : WS), WInv s →
    Act.cancel id ∉ acts → has s.w.nodes id D 0 → id ∉ s.f.cancelled → WS.run (litGeom c) s acts = some s' →
    (s'.w.time < max D (s.w.time + 1) →
      has s'.w.nodes id D 0 ∧ id ∉ s'.f.cancelled ∧ entries s'.f.log id = entries s.f.log id) ∧
    (max D (s.w.time + 1) ≤ s'.w.time →
      Gone s' id ∧ entries s'.f.log id = (D, id) :: entries s.f.log id) ∧ WInv s'
  | [], s, s', h, _, hh, hl, hr => by
    simp only [WS.run, Option.some.injEq] at hr; subst hr
    exact ⟨fun _ => ⟨hh, hl, rfl⟩, fun hle => by omega, h⟩
  | a :: as, s, s', h, hnc, hh, hl, hr => by
    simp only [WS.run] at hr
    split at hr
    · rename_i s1 o he
      have h1 := h.step c he
      have hnc' : Act.cancel id ∉ as := fun hm => hnc (List.mem_cons_of_mem _ hm)
      have hna : a ≠ .cancel id := fun e => hnc (e ▸ List.mem_cons_self ..)
      by_cases hat : a = .tick
      · subst hat
        simp only [WS.step, Res.ok.injEq] at he
        obtain ⟨rfl, _⟩ := he
        obtain ⟨f1, f2, f3, f4, f5, f6⟩ := WS.tick_frame c s h.wheel
        obtain ⟨n, hn, hid, hd, hp⟩ := hh
        have hok := (h.wheel.ok n hn).1
        rw [hd] at hok
        have hq := h.linked_not_queued (mem_ids.mpr ⟨n, hn, hid⟩)
        by_cases hD0 : D = s.w.time
        · subst hD0
          obtain ⟨a1, _, a3⟩ := WS.tick_oneshot_now c s h.wheel id ⟨n, hn, hid, hd, hp⟩ hl
          have hg : Gone (WS.tick (litGeom c) s) id :=
            ⟨by rw [f6]; exact hq.1, by simp only [Front.addIds, f4]; exact hq.2, a1⟩
          obtain ⟨g2, e2, t2, i2⟩ := gone_run c id as _ s' h1 hg hr
          rw [f2] at t2
          exact ⟨fun hlt => by omega, fun _ => ⟨g2, e2.trans a3⟩, i2⟩
        · by_cases hD1 : D = s.w.time + 1
          · subst hD1
            obtain ⟨a1, _, a3⟩ := WS.tick_oneshot_next c s h.wheel id ⟨n, hn, hid, hd, hp⟩ hl
            have hg : Gone (WS.tick (litGeom c) s) id :=
              ⟨by rw [f6]; exact hq.1, by simp only [Front.addIds, f4]; exact hq.2, a1⟩
            obtain ⟨g2, e2, t2, i2⟩ := gone_run c id as _ s' h1 hg hr
            rw [f2] at t2
            exact ⟨fun hlt => by omega, fun _ => ⟨g2, e2.trans a3⟩, i2⟩
          · obtain ⟨a1, a2, _⟩ := WS.tick_keep c s h.wheel id D 0 ⟨n, hn, hid, hd, hp⟩ hD0 hD1
            obtain ⟨r1, r2, r3⟩ := oneshot_run c id D as _ s' h1 hnc' a1 (by rw [f3]; exact hl) hr
            rw [f2] at r1 r2
            have em : max D (s.w.time + 1 + 1) = max D (s.w.time + 1) := by omega
            rw [em] at r1 r2
            refine ⟨fun hlt => ?_, fun hle => ?_, r3⟩
            · obtain ⟨x1, x2, x3⟩ := r1 hlt
              exact ⟨x1, x2, x3.trans a2⟩
            · obtain ⟨x1, x2⟩ := r2 hle
              exact ⟨x1, by rw [x2, a2]⟩
      · obtain ⟨b1, b2, b3, b4⟩ := live_step c h hh hl hat hna he
        obtain ⟨r1, r2, r3⟩ := oneshot_run c id D as s1 s' h1 hnc' b1 b2 hr
        rw [b4] at r1 r2
        refine ⟨fun hlt => ?_, fun hle => ?_, r3⟩
        · obtain ⟨x1, x2, x3⟩ := r1 hlt
          exact ⟨x1, x2, x3.trans b3⟩
        · obtain ⟨x1, x2⟩ := r2 hle
          exact ⟨x1, by rw [x2, b3]⟩
    · cases hr

end Fatchoy.C05

namespace Fatchoy.C05

/-- the first k deliveries of a periodic timer first due at D, newest first -/
def fires (id D P : Nat) : Nat → List (Nat × Nat)
  | 0 => []
  | k + 1 => (D + k * P, id) :: fires id D P k

theorem fires_shift (id D P : Nat) : ∀ k, fires id D P (k + 1) = fires id (D + P) P k ++ [(D, id)]
  | 0 => by simp [fires]
  | k + 1 => by
    have ih := fires_shift id D P k
    rw [fires, ih]
    simp only [fires, List.cons_append, List.cons.injEq, Prod.mk.injEq, and_true]
    rw [Nat.succ_mul]; omega

/-- a periodic timer in the wheel, not cancelled: along ANY sequence of steps that does not cancel it
it is delivered at D, D+P, D+2P, … — exactly those instants that the time has reached, each once,
each logged at that instant — and stays linked with the next instant as its deadline -/
theorem periodic_run (c : Nat) (id P : Nat) (hP : P > 0) : ∀ (acts : List Act) (s s' : WS) (D : Nat), WInv s →
    Act.cancel id ∉ acts → has s.w.nodes id D P → id ∉ s.f.cancelled →
    WS.run (litGeom c) s acts = some s' →
    ∃ k, has s'.w.nodes id (D + k * P) P ∧ id ∉ s'.f.cancelled ∧
      entries s'.f.log id = fires id D P k ++ entries s.f.log id ∧
      s'.w.time < D + k * P ∧ (k = 0 ∨ ∃ j, k = j + 1 ∧ D + j * P ≤ s'.w.time) ∧ s.w.time ≤ s'.w.time ∧ WInv s'
  | [], s, s', D, h, _, hh, hl, hr => by
    simp only [WS.run, Option.some.injEq] at hr; subst hr
    obtain ⟨n, hn, hid, hd, hp⟩ := hh
    have := h.per n hn (by omega)
    exact ⟨0, by simpa using ⟨n, hn, hid, hd, hp⟩, hl, by simp [fires], by omega, .inl rfl, Nat.le_refl _, h⟩
  | a :: as, s, s', D, h, hnc, hh, hl, hr => by
    simp only [WS.run] at hr
    split at hr
    · rename_i s1 o he
      have h1 := h.step c he
      have hnc' : Act.cancel id ∉ as := fun hm => hnc (List.mem_cons_of_mem _ hm)
      have hna : a ≠ .cancel id := fun e => hnc (e ▸ List.mem_cons_self ..)
      by_cases hat : a = .tick
      · subst hat
        simp only [WS.step, Res.ok.injEq] at he
        obtain ⟨rfl, _⟩ := he
        obtain ⟨f1, f2, f3, f4, f5, f6⟩ := WS.tick_frame c s h.wheel
        obtain ⟨n, hn, hid, hd, hp⟩ := hh
        have hfut := h.per n hn (by omega)
        rw [hd] at hfut
        by_cases hD1 : D = s.w.time + 1
        · subst hD1
          obtain ⟨a1, a2, _⟩ := WS.tick_periodic_next c s h.wheel id P ⟨n, hn, hid, hd, hp⟩ hP hl
          obtain ⟨k, r1, r2, r3, r4, r5, r6, r7⟩ :=
            periodic_run c id P hP as _ s' (s.w.time + 1 + P) h1 hnc' a1 (by rw [f3]; exact hl) hr
          rw [f2] at r6
          refine ⟨k + 1, ?_, r2, ?_, ?_, ?_, by omega, r7⟩
          · have e : s.w.time + 1 + (k + 1) * P = s.w.time + 1 + P + k * P := by rw [Nat.succ_mul]; omega
            rw [e]; exact r1
          · rw [r3, a2, fires_shift]; simp
          · have e : s.w.time + 1 + (k + 1) * P = s.w.time + 1 + P + k * P := by rw [Nat.succ_mul]; omega
            rw [e]; exact r4
          · right
            refine ⟨k, rfl, ?_⟩
            rcases r5 with rfl | ⟨j, rfl, hj⟩
            · simp; omega
            · have e : s.w.time + 1 + (j + 1) * P = s.w.time + 1 + P + j * P := by rw [Nat.succ_mul]; omega
              rw [e]; exact hj
        · obtain ⟨a1, a2, _⟩ := WS.tick_keep c s h.wheel id D P ⟨n, hn, hid, hd, hp⟩ (by omega) hD1
          obtain ⟨k, r1, r2, r3, r4, r5, r6, r7⟩ :=
            periodic_run c id P hP as _ s' D h1 hnc' a1 (by rw [f3]; exact hl) hr
          rw [f2] at r6
          exact ⟨k, r1, r2, by rw [r3, a2], r4, r5, by omega, r7⟩
      · obtain ⟨b1, b2, b3, b4⟩ := live_step c h hh hl hat hna he
        obtain ⟨k, r1, r2, r3, r4, r5, r6, r7⟩ := periodic_run c id P hP as s1 s' D h1 hnc' b1 b2 hr
        rw [b4] at r6
        exact ⟨k, r1, r2, by rw [r3, b3], r4, r5, r6, r7⟩
    · cases hr

end Fatchoy.C05
