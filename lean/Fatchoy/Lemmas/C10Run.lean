/-
C10 helper lemmas, part 5: one step of the model against one step of the sorted-list specification,
and whole op sequences.
-/
import Fatchoy.Lemmas.C10Neighbour
import Fatchoy.Lemmas.C10BalanceOps
namespace Fatchoy.C10

theorem step_refines (P : Params) (m : Map) (op : Op) (h : MapOK m) :
    (step P m op).2 = (specStep (toList m.root) op).2 ∧
    toList (step P m op).1.root = (specStep (toList m.root) op).1 ∧ MapOK (step P m op).1 := by
  have hs := h.1
  cases op with
  | put k v =>
    obtain ⟨h1, h2, h3⟩ := put_refines m k v h
    simp only [step, specStep]; exact ⟨by rw [h2], h1, h3⟩
  | remove k =>
    obtain ⟨h1, h2, h3⟩ := remove_refines m k h
    simp only [step, specStep]; exact ⟨by rw [h2], h1, h3⟩
  | clear =>
    obtain ⟨h1, h2⟩ := clear_refines P m
    simp only [step, specStep]; exact ⟨trivial, h1, h2⟩
  | get k => simpa [step, specStep, find_spec _ _ hs] using h
  | getOrDefault k d => simpa [step, specStep, find_spec _ _ hs] using h
  | contains k => simpa [step, specStep, find_spec _ _ hs] using h
  | size => simpa [step, specStep, h.2] using h
  | isEmpty =>
    simp only [step, specStep, h.2]
    refine ⟨?_, trivial, h⟩
    cases toList m.root <;> simp
    omega
  | first => simpa [step, specStep, firstEntry_spec] using h
  | last => simpa [step, specStep, lastEntry_spec] using h
  | floor k => simpa [step, specStep, floor_spec _ _ hs] using h
  | ceiling k => simpa [step, specStep, ceiling_spec _ _ hs] using h
  | higher k => simpa [step, specStep, higher_spec _ _ hs] using h
  | keys => simpa [step, specStep] using h
  | values => simpa [step, specStep] using h
  | inOrder => simpa [step, specStep] using h

theorem run_refines (P : Params) : ∀ (ops : List Op) (m : Map), MapOK m →
    (run P m ops).2 = (specRun (toList m.root) ops).2 ∧
    toList (run P m ops).1.root = (specRun (toList m.root) ops).1 ∧ MapOK (run P m ops).1
  | [], m, h => ⟨rfl, rfl, h⟩
  | op :: ops, m, h => by
    obtain ⟨h1, h2, h3⟩ := step_refines P m op h
    obtain ⟨i1, i2, i3⟩ := run_refines P ops (step P m op).1 h3
    simp only [run, specRun]
    rw [h2] at i1 i2
    exact ⟨by rw [h1, i1], i2, i3⟩

theorem step_RB (P : Params) (m : Map) (op : Op) (h : RB m.root) : RB (step P m op).1.root := by
  cases op <;> simp only [step] <;> first | exact h | skip
  · exact put_RB m _ _ h
  · exact remove_RB m _ h
  · exact clear_RB P m

theorem run_RB (P : Params) : ∀ (ops : List Op) (m : Map), RB m.root → RB (run P m ops).1.root
  | [], m, h => h
  | op :: ops, m, h => by
    simp only [run]
    exact run_RB P ops _ (step_RB P m op h)

/-- pre-order and post-order visit exactly the entries of the in-order listing -/
theorem preOrder_perm : ∀ (t : Tree), (preOrder t).Perm (toList t)
  | .nil => .refl _
  | .node _ l k v r => by
    simp only [preOrder, toList]
    exact ((preOrder_perm l).append (preOrder_perm r)).cons _ |>.trans List.perm_middle.symm

theorem postOrder_perm : ∀ (t : Tree), (postOrder t).Perm (toList t)
  | .nil => .refl _
  | .node _ l k v r => by
    simp only [postOrder, toList]
    refine ((postOrder_perm l).append ?_)
    exact (List.perm_append_singleton _ _).trans ((postOrder_perm r).cons _)

end Fatchoy.C10
