/-
C10 helper lemmas, part 7: Put and Remove (descent, successor copy, splice + fix-up) keep the red-black
invariant; a red-black tree is at most 2*log2(n+1) high.
-/
import Fatchoy.Lemmas.C10Balance
namespace Fatchoy.C10

theorem RB_nil : RB .nil := ⟨0, .nil⟩

/-- stepping down into the left child -/
theorem fits_left (hb : Bal (.node c l k v r) c0 n0) (hf : Fits p c0 n0) (k' : Nat) (v' : Int) :
    ∃ cl nl, Bal l cl nl ∧ Fits ({ dir := .L, c := c, k := k', v := v', sib := r } :: p) cl nl := by
  cases hb with
  | red hl hr =>
    refine ⟨_, _, hl, ?_, fun _ => rfl, fun h => by simp at h⟩
    cases p with
    | nil => have := hf.root rfl; cases this
    | cons g rest =>
      have hg : g.c = .black := by
        cases hgc : g.c
        · have := hf.red (by simp [headRed, hgc]); cases this
        · rfl
      exact .consR rfl hg hr hf.ok
  | black hl hr =>
    exact ⟨_, _, hl, .consB rfl hr hf.ok, fun h => by simp [headRed] at h, fun h => by simp at h⟩

/-- stepping down into the right child -/
theorem fits_right (hb : Bal (.node c l k v r) c0 n0) (hf : Fits p c0 n0) (k' : Nat) (v' : Int) :
    ∃ cr nr, Bal r cr nr ∧ Fits ({ dir := .R, c := c, k := k', v := v', sib := l } :: p) cr nr := by
  cases hb with
  | red hl hr =>
    refine ⟨_, _, hr, ?_, fun _ => rfl, fun h => by simp at h⟩
    cases p with
    | nil => have := hf.root rfl; cases this
    | cons g rest =>
      have hg : g.c = .black := by
        cases hgc : g.c
        · have := hf.red (by simp [headRed, hgc]); cases this
        · rfl
      exact .consR rfl hg hl hf.ok
  | black hl hr =>
    exact ⟨_, _, hr, .consB rfl hl hf.ok, fun h => by simp [headRed] at h, fun h => by simp at h⟩

theorem fits_root : Fits [] .black n := ⟨.nil, fun h => by simp [headRed] at h, fun _ => rfl⟩

theorem descend_bal : ∀ (t : Tree) (k : Nat) (p : Path) (c : Color) (n : Nat), Bal t c n → Fits p c n →
    ∃ c' n', Bal (descend t k p).1 c' n' ∧ Fits (descend t k p).2 c' n'
  | .nil, k, p, c, n, hb, hf => ⟨c, n, hb, hf⟩
  | .node tc l k' v r, k, p, c, n, hb, hf => by
    unfold descend
    split
    · obtain ⟨cl, nl, hl, hfl⟩ := fits_left hb hf k' v
      exact descend_bal l k _ cl nl hl hfl
    · split
      · obtain ⟨cr, nr, hr, hfr⟩ := fits_right hb hf k' v
        exact descend_bal r k _ cr nr hr hfr
      · exact ⟨c, n, hb, hf⟩

/-- balance does not look at keys and values -/
theorem Bal.relabel (h : Bal (.node c l k v r) c0 n0) (k' : Nat) (v' : Int) : Bal (.node c l k' v' r) c0 n0 := by
  cases h with
  | red hl hr => exact .red hl hr
  | black hl hr => exact .black hl hr

theorem put_RB (m : Map) (k : Nat) (v : Int) (h : RB m.root) : RB (put m k v).1.root := by
  obtain ⟨n, hb⟩ := h
  rcases m with ⟨root, size, ver⟩
  simp only at hb
  cases root with
  | nil => exact ⟨1, by simp only [put]; exact .black .nil .nil⟩
  | node rc rl rk rv rr =>
    simp only [put]
    generalize Tree.node rc rl rk rv rr = T at *
    obtain ⟨c', n', hs, hf⟩ := descend_bal T k [] .black n hb fits_root
    rcases hd : descend T k [] with ⟨s, p⟩
    rw [hd] at hs hf
    simp only at hs hf
    cases s with
    | nil =>
      simp only
      cases hs
      exact insFix_bal p .nil k v .nil 0 hf.ok (.red .nil .nil)
    | node sc sl sk sv sr =>
      simp only
      exact plug_fits hf (hs.relabel sk v)

/-- a subtree of black height 0 that is not empty is a red leaf -/
theorem bal_zero (h : Bal t c 0) : t = .nil ∨ ∃ k v, t = .node .red .nil k v .nil := by
  cases h with
  | nil => exact .inl rfl
  | red hl hr =>
    cases hl; cases hr; exact .inr ⟨_, _, rfl⟩

/-- unlinking a node that has no left child -/
theorem spliceOut_bal_left (hb : Bal (.node c .nil k v r) c0 n0) (hf : Fits p c0 n0) :
    ∃ m, Bal (spliceOut c r p) .black m := by
  unfold spliceOut
  cases hb with
  | red hl hr =>
    cases hl
    cases hr
    simp only [reduceCtorEq, if_false]
    exact plug_fits ⟨hf.ok, fun _ => rfl, fun _ => rfl⟩ .nil
  | black hl hr =>
    cases hl
    simp only [if_true]
    rcases bal_zero hr with rfl | ⟨k', v', rfl⟩
    · exact delFix_bal p .nil 0 hf.ok (.inl ⟨rfl, .nil⟩)
    · exact delFix_bal p _ 0 hf.ok (.inr ⟨rfl, .black .nil .nil⟩)

/-- unlinking a node that has no right child -/
theorem spliceOut_bal_right (hb : Bal (.node c l k v .nil) c0 n0) (hf : Fits p c0 n0) :
    ∃ m, Bal (spliceOut c l p) .black m := by
  unfold spliceOut
  cases hb with
  | red hl hr =>
    cases hr
    cases hl
    simp only [reduceCtorEq, if_false]
    exact plug_fits ⟨hf.ok, fun _ => rfl, fun _ => rfl⟩ .nil
  | black hl hr =>
    cases hr
    simp only [if_true]
    rcases bal_zero hl with rfl | ⟨k', v', rfl⟩
    · exact delFix_bal p .nil 0 hf.ok (.inl ⟨rfl, .nil⟩)
    · exact delFix_bal p _ 0 hf.ok (.inr ⟨rfl, .black .nil .nil⟩)

/-- the walk to the leftmost node keeps the path admissible -/
theorem descendMin_bal : ∀ (l : Tree) (c : Color) (k : Nat) (v : Int) (r : Tree) (acc : Path) (c0 : Color) (n0 : Nat),
    Bal (.node c l k v r) c0 n0 → Fits acc c0 n0 →
    ∃ c1 n1, Bal (.node (descendMin c l k v r acc).1 .nil 0 0 (descendMin c l k v r acc).2.1) c1 n1 ∧
      Fits (descendMin c l k v r acc).2.2 c1 n1
  | .nil, c, k, v, r, acc, c0, n0, hb, hf => ⟨c0, n0, hb.relabel 0 0, hf⟩
  | .node lc ll lk lv lr, c, k, v, r, acc, c0, n0, hb, hf => by
    obtain ⟨cl, nl, hl, hfl⟩ := fits_left hb hf k v
    simp only [descendMin]
    exact descendMin_bal ll lc lk lv lr _ cl nl hl hfl

theorem deleteAt_bal (hb : Bal (.node c l k v r) c0 n0) (hf : Fits p c0 n0) :
    ∃ m, Bal (deleteAt c l r p) .black m := by
  cases l with
  | nil => simp only [deleteAt]; exact spliceOut_bal_left hb hf
  | node lc ll lk lv lr =>
    cases r with
    | nil => simp only [deleteAt]; exact spliceOut_bal_right hb hf
    | node rc rl rk rv rr =>
      simp only [deleteAt]
      obtain ⟨cr, nr, hr, hfr⟩ := fits_right hb hf (minKV rl rk rv).1 (minKV rl rk rv).2
      obtain ⟨c1, n1, h1, hf1⟩ := descendMin_bal rl rc rk rv rr _ cr nr hr hfr
      exact spliceOut_bal_left h1 hf1

theorem remove_RB (m : Map) (k : Nat) (h : RB m.root) : RB (remove m k).1.root := by
  obtain ⟨n, hb⟩ := h
  rcases m with ⟨root, size, ver⟩
  simp only at hb
  simp only [remove]
  obtain ⟨c', n', hs, hf⟩ := descend_bal root k [] .black n hb fits_root
  rcases hd : descend root k [] with ⟨s, p⟩
  rw [hd] at hs hf
  simp only at hs hf
  cases s with
  | nil => exact ⟨n, hb⟩
  | node sc sl sk sv sr => exact deleteAt_bal hs hf

theorem clear_RB (P : Params) (m : Map) : RB (clear P m).root := RB_nil

/-! ### height -/

theorem bal_height (h : Bal t c n) :
    height t ≤ 2 * n + (match c with | .red => 1 | .black => 0) ∧ 2 ^ n ≤ count t + 1 := by
  induction h with
  | nil => simp [height, count]
  | red hl hr ihl ihr =>
    simp only [height, count] at *
    omega
  | black hl hr ihl ihr =>
    rename_i l c1 n r c2 k v
    simp only [height, count] at *
    have : 2 ^ (n + 1) = 2 * 2 ^ n := by rw [Nat.pow_succ]; omega
    constructor
    · cases c1 <;> cases c2 <;> simp only at ihl ihr <;> omega
    · omega

/-- a red-black tree with n nodes is at most 2*log2(n+1) high -/
theorem RB_height (h : RB t) : height t ≤ 2 * Nat.log2 (count t + 1) := by
  obtain ⟨n, hb⟩ := h
  obtain ⟨h1, h2⟩ := bal_height hb
  have : n ≤ Nat.log2 (count t + 1) := (Nat.le_log2 (by omega)).mpr h2
  simp only at h1
  omega

theorem count_eq_length : ∀ (t : Tree), count t = (toList t).length
  | .nil => rfl
  | .node _ l _ _ r => by simp [count, toList, count_eq_length l, count_eq_length r]; omega

end Fatchoy.C10
