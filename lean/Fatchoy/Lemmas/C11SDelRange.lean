/-
C11, structural skip list S: the unlinking loop of the range deletions, and `DeleteRangeByScore` /
`DeleteRangeByRank` against layer L.
-/
import Fatchoy.Lemmas.C11SInRange
namespace Fatchoy.C11.S

/-- how many leading nodes the loop unlinks: the condition is evaluated on the key and the running
  counter -/
def cntK (c' : Node → Int → Bool) : Int → List Node → Nat
  | _, [] => 0
  | t, b :: r => if c' b t then 1 + cntK c' (t + 1) r else 0

theorem delWhile_spec {c : SNode → Int → Bool} (c' : Node → Int → Bool)
    (hc : ∀ n t, c n t = c' n.key t) (upd : List Nat) :
    ∀ (B : List Nat) (s : SList) (l A : List Nat), Inv s l → l = A ++ B →
      (∀ i, i < s.level → ∃ r, IsUpd s A i (upd.getD i 0) r) →
      ∀ (fuel : Nat), B.length < fuel → ∀ (t : Int) (acc : List Node),
      ∃ s', delWhile c upd fuel s B.head? t acc =
          some (s', acc.reverse ++ (B.take (cntK c' t (B.map (nodeOf s)))).map (nodeOf s)) ∧
        Inv s' (A ++ B.drop (cntK c' t (B.map (nodeOf s)))) ∧ (∀ y, nodeOf s' y = nodeOf s y) ∧
        height s' 0 = height s 0 := by
  intro B
  induction B with
  | nil =>
    intro s l A hI hl _ fuel hf t acc
    cases fuel with
    | zero => omega
    | succ fuel =>
      refine ⟨s, ?_, by rw [hl] at hI; simpa [cntK] using hI, fun _ => rfl, rfl⟩
      simp [delWhile, cntK]
  | cons x B' ih =>
    intro s l A hI hl hupd fuel hf t acc
    cases fuel with
    | zero => omega
    | succ fuel =>
      simp only [List.head?_cons, delWhile, List.map_cons, cntK]
      rw [hc]
      have hkx : (nd s x).key = nodeOf s x := rfl
      rw [hkx]
      by_cases hcx : c' (nodeOf s x) t = true
      · rw [if_pos hcx, if_pos hcx]
        have ctx : DelCtx s l A x B' upd := ⟨hI, hl, hupd⟩
        have hf' := deleteNode_facts ctx
        have hinv := deleteNode_inv ctx hf'
        have hnext : (cell s x 0).fwd = B'.head? :=
          hI.fwd0 (pre := 0 :: A) (x := x) (suf := B') (by rw [hl]; rfl)
        rw [hnext]
        obtain ⟨s', h1, h2, h3, h4⟩ := ih (deleteNode s x upd) (A ++ B') A hinv rfl (ctx.upd_after hf')
          fuel (by simp at hf; omega) (t + 1) (nodeOf s x :: acc)
        have hmapeq : B'.map (nodeOf (deleteNode s x upd)) = B'.map (nodeOf s) :=
          List.map_congr_left (fun a _ => hf'.key a)
        rw [hmapeq] at h1 h2
        refine ⟨s', ?_, ?_, fun y => (h3 y).trans (hf'.key y), h4.trans (hf'.hgt 0)⟩
        · rw [h1]
          have : ∀ n, (B'.take n).map (nodeOf (deleteNode s x upd)) = (B'.take n).map (nodeOf s) :=
            fun n => List.map_congr_left (fun a _ => hf'.key a)
          rw [this]
          simp [Nat.add_comm 1]
        · have : 1 + cntK c' (t + 1) (B'.map (nodeOf s)) = cntK c' (t + 1) (B'.map (nodeOf s)) + 1 := by omega
          rw [this, List.drop_succ_cons]
          exact h2
      · rw [if_neg hcx, if_neg hcx]
        refine ⟨s, ?_, by rw [hl] at hI; simpa using hI, fun _ => rfl, rfl⟩
        simp

/-- a condition that ignores the counter unlinks the `takeWhile` -/
theorem cntK_key (k : Node → Bool) (t : Int) (B : List Node) :
    B.take (cntK (fun n _ => k n) t B) = B.takeWhile k ∧ B.drop (cntK (fun n _ => k n) t B) = B.dropWhile k := by
  induction B generalizing t with
  | nil => simp [cntK]
  | cons b r ih =>
    simp only [cntK]
    by_cases hb : k b = true
    · rw [if_pos hb, List.takeWhile_cons_of_pos hb, List.dropWhile_cons_of_pos hb]
      have : 1 + cntK (fun n _ => k n) (t + 1) r = cntK (fun n _ => k n) (t + 1) r + 1 := by omega
      rw [this, List.take_succ_cons, List.drop_succ_cons, (ih (t + 1)).1, (ih (t + 1)).2]
      exact ⟨rfl, rfl⟩
    · rw [if_neg hb, List.takeWhile_cons_of_neg hb, List.dropWhile_cons_of_neg hb]
      exact ⟨rfl, rfl⟩

/-- a condition on the counter alone unlinks a fixed number of nodes -/
theorem cntK_pos (stop : Int) (t : Int) (B : List Node) :
    cntK (fun _ q => decide (q ≤ stop)) t B = min B.length (stop - t + 1).toNat := by
  induction B generalizing t with
  | nil => simp [cntK]
  | cons b r ih =>
    simp only [cntK, List.length_cons]
    by_cases hq : t ≤ stop
    · rw [if_pos (by simpa using hq), ih (t + 1)]
      omega
    · rw [if_neg (by simpa using hq)]
      omega

theorem deleteRangeByScore_refines {s : SList} {l : List Nat} (hI : Inv s l) (min max : Int) :
    ∃ t, deleteRangeByScore s min max = some (t, (L.deleteRangeByScore (abs s) min max).2) ∧ SOk t ∧
      abs t = (L.deleteRangeByScore (abs s) min max).1 ∧ (∀ y, nodeOf t y = nodeOf s y) ∧
      height t 0 = height s 0 := by
  obtain ⟨ur, h1, _, hupd, _, _, hfw⟩ := search_key0 hI (fun n => decide (n.score < min)) (score_lt_down min)
  have h1' : search s (fun f _ => decide (f.score < min)) s.level 0 0 = some ur := h1
  let A := l.takeWhile (fun x => decide ((nodeOf s x).score < min))
  let B := l.dropWhile (fun x => decide ((nodeOf s x).score < min))
  have hl : l = A ++ B := (List.takeWhile_append_dropWhile).symm
  have hfuel : B.length < s.nodes.length := by
    have := congrArg List.length hl
    have := hI.room
    simp only [List.length_append] at *
    omega
  obtain ⟨t, d1, d2, d3, d4⟩ := delWhile_spec (c := fun n _ => decide (n.score ≤ max))
    (fun n _ => decide (n.score ≤ max)) (fun _ _ => rfl) (ur.map (·.1)) B s l A hI hl
    (fun i hi => ⟨_, by rw [getD_map_fst]; exact hupd i hi⟩) s.nodes.length hfuel 0 []
  obtain ⟨k1, k2⟩ := cntK_key (fun n => decide (n.score ≤ max)) 0 (B.map (nodeOf s))
  obtain ⟨e1, e2⟩ := abs_takeWhile hI (fun n => decide (n.score < min))
  have hR : (L.deleteRangeByScore (abs s) min max).2 = (B.map (nodeOf s)).takeWhile (fun n => decide (n.score ≤ max)) := by
    unfold L.deleteRangeByScore; simp only []; rw [e2]
  have hK : (L.deleteRangeByScore (abs s) min max).1 =
      A.map (nodeOf s) ++ (B.map (nodeOf s)).dropWhile (fun n => decide (n.score ≤ max)) := by
    unfold L.deleteRangeByScore; simp only []; rw [e1, e2]
  refine ⟨t, ?_, SOk_of_inv d2, ?_, d3, d4⟩
  · unfold deleteRangeByScore
    rw [h1']
    simp only []
    rw [hfw, d1, hR, ← k1, List.map_take]
    rfl
  · rw [d2.abs_eq, hK, ← k2, List.map_append, List.map_drop]
    congr 1
    · exact List.map_congr_left (fun a _ => d3 a)
    · congr 1
      exact List.map_congr_left (fun a _ => d3 a)

theorem deleteRangeByRank_refines {s : SList} {l : List Nat} (hI : Inv s l) (start stop : Int) :
    ∃ t, deleteRangeByRank s start stop = some (t, (L.deleteRangeByRank (abs s) start stop).2) ∧ SOk t ∧
      abs t = (L.deleteRangeByRank (abs s) start stop).1 ∧ (∀ y, nodeOf t y = nodeOf s y) ∧
      height t 0 = height s 0 := by
  let k := min l.length (start - 1).toNat
  have hkd : k = min l.length (start - 1).toNat := rfl
  let A := l.take k
  let B := l.drop k
  have hl : l = A ++ B := (List.take_append_drop k l).symm
  have hAl : A.length = k := by simp only [A, List.length_take]; omega
  have hc : Cut s (fun _ q => decide (q < start)) A B := by
    apply cut_pos _ k (Nat.min_le_left _ _)
    · intro _ q h1 h2; simp only [decide_eq_true_eq]; omega
    · intro _ q h1 h2; simp only [decide_eq_false_iff_not]; omega
  obtain ⟨ur, h1, _, hupd⟩ := search_top hI hl hc
  obtain ⟨z1, z2⟩ := isUpd_zero hI hl (hupd 0 hI.level_pos)
  have hfw : (cell s (updOf ur 0) 0).fwd = B.head? := by
    apply hI.fwd0 (pre := (0 :: A).dropLast)
    conv => lhs; rw [hl]
    rw [← List.cons_append, z1]
    simp
  have hfuel : B.length < s.nodes.length := by
    have := congrArg List.length hl
    have := hI.room
    simp only [List.length_append] at *
    omega
  obtain ⟨t, d1, d2, d3, d4⟩ := delWhile_spec (c := fun _ q => decide (q ≤ stop))
    (fun _ q => decide (q ≤ stop)) (fun _ _ => rfl) (ur.map (·.1)) B s l A hI hl
    (fun i hi => ⟨_, by rw [getD_map_fst]; exact hupd i hi⟩) s.nodes.length hfuel (rankOf ur 0 + 1) []
  rw [cntK_pos, z2, List.length_map] at d1 d2
  -- layer L in terms of A and B
  have habs : abs s = A.map (nodeOf s) ++ B.map (nodeOf s) := by
    rw [hI.abs_eq, ← List.map_append, ← hl]
  have hpre : (abs s).take (start - 1).toNat = A.map (nodeOf s) := by
    rw [hI.abs_eq, ← List.map_take]
    congr 1
    apply List.take_eq_take_iff.mpr
    omega
  have hrest : (abs s).drop (start - 1).toNat = B.map (nodeOf s) := by
    rw [hI.abs_eq, ← List.map_drop]
    congr 1
    by_cases h : (start - 1).toNat ≤ l.length
    · have : k = (start - 1).toNat := by omega
      simp only [B, this]
    · rw [List.drop_eq_nil_of_le (by omega)]
      have : k = l.length := by omega
      simp only [B, this, List.drop_length]
  have hcnt : ∀ (X : List Node), X.length = B.length →
      X.take ((stop - (((A.map (nodeOf s)).length : Int) + 1) + 1).toNat) =
        X.take (min B.length ((stop - ((A.length : Int) + 1) + 1).toNat)) := by
    intro X hX
    apply List.take_eq_take_iff.mpr
    rw [List.length_map, hX]
    omega
  have hcntd : ∀ (X : List Node), X.length = B.length →
      X.drop ((stop - (((A.map (nodeOf s)).length : Int) + 1) + 1).toNat) =
        X.drop (min B.length ((stop - ((A.length : Int) + 1) + 1).toNat)) := by
    intro X hX
    rw [List.length_map]
    by_cases h : (stop - ((A.length : Int) + 1) + 1).toNat ≤ B.length
    · have : min B.length ((stop - ((A.length : Int) + 1) + 1).toNat) = (stop - ((A.length : Int) + 1) + 1).toNat := by omega
      rw [this]
    · rw [List.drop_eq_nil_of_le (by omega), List.drop_eq_nil_of_le (by omega)]
  have hR : (L.deleteRangeByRank (abs s) start stop).2 =
      (B.map (nodeOf s)).take (min B.length ((stop - ((A.length : Int) + 1) + 1).toNat)) := by
    unfold L.deleteRangeByRank; simp only []
    rw [hpre, hrest, hcnt _ (by simp)]
  have hK : (L.deleteRangeByRank (abs s) start stop).1 =
      A.map (nodeOf s) ++ (B.map (nodeOf s)).drop (min B.length ((stop - ((A.length : Int) + 1) + 1).toNat)) := by
    unfold L.deleteRangeByRank; simp only []
    rw [hpre, hrest, hcntd _ (by simp)]
  refine ⟨t, ?_, SOk_of_inv d2, ?_, d3, d4⟩
  · unfold deleteRangeByRank
    rw [h1]
    simp only []
    rw [hfw, z2, d1, hR, List.map_take]
    rfl
  · rw [d2.abs_eq, hK, List.map_append, List.map_drop]
    congr 1
    · exact List.map_congr_left (fun a _ => d3 a)
    · congr 1
      exact List.map_congr_left (fun a _ => d3 a)

end Fatchoy.C11.S
